/-
  C15 — Concurrent callers of one synchronous client are serialised.
  Property theorems only; the invariant and its preservation live in Pymodbus/Lemmas/SchedConn.lean, common lemmas
  (progress measure, fairness) in Pymodbus/Lemmas/Sched.lean, byte-level facts in Pymodbus/Lemmas/SchedBytes.lean.

  Everything is about `Sched.runSched scope (Sched.init reqs connected cok cfg) sched`: ANY number of threads
  (`reqs : Nat → List Req`), ANY number of transactions per thread, ANY schedule (`sched : List Nat`, pre-emption before
  every operation of `execute`, including between a lock acquisition and what follows, between the two writes of a
  frame and between the check and the open of `connect`), replies of any length and latency, the client connected or
  not when the threads start (`connected : Bool`), every connection attempt accepted or refused as the scripted world
  says (`cok : Nat → Bool`, the fate of the k-th `create_connection`), every reply delivered or lost as the request
  says (`Req.lost`: the peer stays silent on the first `lost` transmissions of the request, the read comes back short,
  the connection is closed), and ANY retry configuration of the client (`cfg : Cfg`: `retries`, `retry_on_empty`,
  back-off or not): after a transmission that got nothing the retry loop of `ModbusTransactionManager.execute` backs
  off (a point at which any other thread may run; BOTH locks stay held), reconnects and transmits again, at most
  `cfg.attempts` times in all; the caller gets the reply of the transmission that got one, or its own error object
  when every transmission was lost.
  The lock discipline is a parameter.  The theorems hold for `scope = .whole`: the client lock
  (`with self._connect_lock:` in `BaseModbusClient.execute`, around the connect check/open AND the call of the
  manager) with the manager lock (`with self._transaction_lock:` = body of `ModbusTransactionManager.execute`) nested
  inside; `generated_lock_scope` says that this is what the source has.  The counterexamples show that the other
  disciplines do not serialise: `connectOutside` (the code before the repair of finding connect-outside-lock: connect
  before any lock is taken), `none`, one manager lock per unit id, a send-only lock, and `leakOnFail` (the client lock
  is not given back when the connect fails: `lock_leak_counterexample`, a deadlock), `lockOnlyWhenCold` (the client lock
  is taken only by a caller that sees no socket: `lockOnlyWhenCold_counterexample`, after a lost reply the reconnect
  inside `_transact` races with the locked connect of the next caller), `broadcastOutside` (a broadcast is written after
  the client lock has been given back: `broadcastOutside_counterexample`), `releaseClientLockInBackoff` (the back-off
  waits on a condition of the client lock, i.e. gives the client lock up while keeping the manager lock:
  `backoff_release_counterexample`, a deadlock).  Requests may be BROADCASTS (`Req.bcast`:
  written under both locks, nothing is read, no unit answers, the result is the marker).
-/
import Pymodbus.Lemmas.SchedConn
import Pymodbus.Generated.Tables
namespace Pymodbus.Props.C15
open Pymodbus Pymodbus.Sched

/-! ### tie to the source -/

/-- read off the source by `ast` on this run.
    `pymodbus/transaction.py`: the whole body of `ModbusTransactionManager.execute` is one `with self._transaction_lock:`;
    `_transaction_lock` is assigned once, in `__init__`, to `RLock()`, and mentioned nowhere else in the module.
    `pymodbus/client/sync.py`: the whole body of `BaseModbusClient.execute` is one `with self._connect_lock:` that contains
    both the `self.connect()` call and `return self.transaction.execute(request)`; `_connect_lock` is assigned once, in
    `__init__`, to `RLock()`, and mentioned nowhere else in the module (so nothing releases it early). -/
theorem generated_lock_scope :
    Generated.lockScope = "whole" ∧ Generated.lockCtor = "RLock()" ∧ Generated.lockAssignments = 1 ∧
    Generated.lockAssignedIn = "__init__" ∧ Generated.lockReferences = 2 ∧
    Generated.clientExecuteViaManager = true ∧
    Generated.clientLockScope = "whole" ∧ Generated.clientLockCtor = "RLock()" ∧
    Generated.clientLockAssignments = 1 ∧ Generated.clientLockAssignedIn = "__init__" ∧
    Generated.clientLockReferences = 2 := by decide

/-- OBSERVED on this run (not read off the syntax): one real transaction of a retrying client
    (`retry_on_empty=True, retries=1`) whose first transmission gets no answer, both locks instrumented from their
    birth (before `Condition`, `with` or anything else can capture the raw lock): between the end of the first
    transmission and the start of the second — the back-off — neither the client lock nor the manager lock was
    released, and the caller got its own reply from the second transmission.  A back-off that gives the client lock up
    (`time.sleep` replaced by a wait on `Condition(self._connect_lock)`, seeded C15-10) makes
    `backoffClientLockReleases` positive: the discipline is then `releaseClientLockInBackoff`, which deadlocks
    (`releaseClientLockInBackoff_deadlocks`). -/
theorem generated_backoff_keeps_locks :
    Generated.backoffObserved = true ∧ Generated.backoffClientLockReleases = 0 ∧
    Generated.backoffManagerLockReleases = 0 := by decide

/-- the model's lock discipline for the discipline read off the source (`none` = not one the theorems cover) -/
def sourceScope : Option LockScope :=
  if Generated.lockScope = "whole" ∧ Generated.lockCtor = "RLock()" ∧ Generated.lockAssignments = 1 ∧
      Generated.clientLockScope = "whole" ∧ Generated.clientLockCtor = "RLock()" ∧
      Generated.clientLockAssignments = 1 ∧
      Generated.backoffObserved = true ∧ Generated.backoffClientLockReleases = 0 ∧
      Generated.backoffManagerLockReleases = 0 then
    some .whole
  else none

theorem source_scope_is_whole : sourceScope.isSome = true ∧ ∀ sc, sourceScope = some sc → sc = .whole := by
  have g := generated_lock_scope
  have b := generated_backoff_keeps_locks
  have h : sourceScope = some .whole := by
    unfold sourceScope
    rw [if_pos ⟨g.1, g.2.1, g.2.2.1, g.2.2.2.2.2.2.1, g.2.2.2.2.2.2.2.1, g.2.2.2.2.2.2.2.2.1, b.1, b.2.1, b.2.2⟩]
  rw [h]
  exact ⟨rfl, fun sc e => by cases e; rfl⟩

/-! ### the property under the shipped discipline, for ANY client, ANY fate of the connection attempts, ANY retry configuration -/

/-- `mutual_exclusion`: in every reachable state at most one thread is between its send and the end of its receive -/
theorem mutual_exclusion (scope : LockScope) (hs : scope = .whole) (reqs : Nat → List Req) (connected : Bool)
    (cok : Nat → Bool) (cfg : Cfg) (sched : List Nat) : Spec.Exclusive (runSched scope (init reqs connected cok cfg) sched) := by
  subst hs
  have hi := inv_reachable reqs connected cok cfg sched
  intro t u ht hu
  have key : ∀ v, ((runSched .whole (init reqs connected cok cfg) sched).threads v).inFlight = true →
      (runSched .whole (init reqs connected cok cfg) sched).locks 0 = some (v, 1) := by
    intro v hv
    cases outside_or_holder hi v with
    | inr h => exact h.1
    | inl ho =>
      exfalso
      cases ho with
      | inl h0 => simp [Thread.inFlight, h0] at hv
      | inr hk => obtain ⟨k, hk, _⟩ := hk; simp [Thread.inFlight, hk] at hv
  have h1 := key t ht
  rw [key u hu] at h1
  cases h1
  rfl

theorem istage_wire {A : Nat} {sh : Shared} {c t : Nat} {th : Thread} (h : IStage A sh c t th) :
    Spec.contiguous sh.wire = true := by
  cases h with
  | send2 k h hfr hc hp hs hb hw =>
    obtain ⟨w, hw1, hw2⟩ := hw
    rw [hw2]; exact pairs_snoc1 w _ hw1 rfl
  | tid k h q => exact pairs_contiguous _ q.2.2.2
  | connect k h q => exact pairs_contiguous _ q.2.2.2
  | flush k h q => exact pairs_contiguous _ q.2.2.2
  | send1 k h q => exact pairs_contiguous _ q.2.2.2
  | bsent h hbc q => exact pairs_contiguous _ q.2.2.2
  | waiting k h hbc hp hs hb hw => exact pairs_contiguous _ hw
  | recv2 h hbc hl hh hp hs hb hw => exact pairs_contiguous _ hw
  | process h hbc hr q => exact pairs_contiguous _ q.2.2.2
  | backoffRetry k h hbc q => exact pairs_contiguous _ q.2.2.2
  | backoffLast h hbc hr q => exact pairs_contiguous _ q.2.2.2
  | release h q => exact pairs_contiguous _ q.2.2.2

theorem stage_wire {v : View} {t : Nat} {th : Thread} (h : Stage v t th) : Spec.contiguous v.wire = true := by
  cases h with
  | pre k h q => exact pairs_contiguous _ q.2.1
  | opening k h q => exact pairs_contiguous _ q.2.1
  | acq k h q => exact pairs_contiguous _ q.2.1
  | inner c hs hc1 hfr hm st => exact istage_wire st
  | closedBackoff k h hbc ha cl => exact pairs_contiguous _ cl.2.2.1
  | closedConnect k h hbc ha cl => exact pairs_contiguous _ cl.2.2.1
  | closedOpen k h hbc ha hfm cl => exact pairs_contiguous _ cl.2.2.1
  | closedBackoffLast h hr hbc hall cl => exact pairs_contiguous _ cl.2.2.1
  | closedProc h hr hbc hall cl => exact pairs_contiguous _ cl.2.2.1
  | closedRel h cl => exact pairs_contiguous _ cl.2.2.1
  | crel h q => exact pairs_contiguous _ q.2.1

/-- `frames_contiguous`: the chunks on the transport are whole frames, (header, rest) by one thread to one
    connection with nothing of another thread in between -/
theorem frames_contiguous (scope : LockScope) (hs : scope = .whole) (reqs : Nat → List Req) (connected : Bool)
    (cok : Nat → Bool) (cfg : Cfg) (sched : List Nat) :
    Spec.contiguous (runSched scope (init reqs connected cok cfg) sched).wire = true := by
  subst hs
  have hi := inv_reachable reqs connected cok cfg sched
  cases hl : (runSched .whole (init reqs connected cok cfg) sched).locks 0 with
  | none => exact pairs_contiguous _ (hi.free hl).1.2.1
  | some p => exact stage_wire (hi.held p.1 p.2 hl).2.1

/-- `caller_gets_its_due`: every completed call ended in exactly what that caller is due (`Spec.Answered`): the
    connection exception — only if some connection attempt was refused; the broadcast marker — for a broadcast; its own
    error object — only if the peer answered none of the `cfg.attempts` transmissions of this very request; otherwise
    (some transmission was answered: `lost < cfg.attempts`) the reply built for its own request (the caller's
    transaction id, its unit, the registers or exception the peer sends for exactly that request), whichever
    transmission fetched it and whoever ran during the back-offs.  Never somebody else's reply. -/
theorem caller_gets_its_due (scope : LockScope) (hs : scope = .whole) (reqs : Nat → List Req) (connected : Bool)
    (cok : Nat → Bool) (cfg : Cfg) (sched : List Nat) (t : Nat) :
    ∀ x ∈ ((runSched scope (init reqs connected cok cfg) sched).threads t).results, Spec.Answered cok cfg.attempts x := by
  subst hs
  have h := ((inv_reachable reqs connected cok cfg sched).ok t).served
  rw [run_connOk, run_cfg] at h
  exact h

/-- `own_reply`: when every connection attempt succeeds, every completed ordinary call of which at least one
    transmission was answered (`lost < cfg.attempts`: retries included) returned the reply to its own request; cold
    client included, whatever happened to the other callers -/
theorem own_reply (scope : LockScope) (hs : scope = .whole) (reqs : Nat → List Req) (connected : Bool)
    (cok : Nat → Bool) (cfg : Cfg) (hall : ∀ k, cok k = true) (sched : List Nat) (t : Nat) :
    ∀ x ∈ ((runSched scope (init reqs connected cok cfg) sched).threads t).results,
      x.1.bcast = false → x.1.lost < cfg.attempts → Spec.OwnReply x := by
  intro x hx hb hl
  rcases caller_gets_its_due scope hs reqs connected cok cfg sched t x hx with h | h | h | h
  · obtain ⟨_, k, hk⟩ := h; rw [hall k] at hk; cases hk
  · rw [hb] at h; cases h.1
  · exact absurd hl (Nat.not_lt.2 h.2.1)
  · exact h.2.2

/-- a broadcaster is handed the broadcast marker (unless its connection attempt was refused) -/
theorem broadcaster_gets_marker (scope : LockScope) (hs : scope = .whole) (reqs : Nat → List Req)
    (connected : Bool) (cok : Nat → Bool) (cfg : Cfg) (hall : ∀ k, cok k = true) (sched : List Nat) (t : Nat) :
    ∀ x ∈ ((runSched scope (init reqs connected cok cfg) sched).threads t).results,
      x.1.bcast = true → x.2.2 = .bcastSent := by
  intro x hx hb
  rcases caller_gets_its_due scope hs reqs connected cok cfg sched t x hx with h | h | h | h
  · obtain ⟨_, k, hk⟩ := h; rw [hall k] at hk; cases hk
  · exact h.2
  · rw [hb] at h; cases h.1
  · rw [hb] at h; cases h.1

/-- an error object is handed out only to the caller whose every transmission (the first and all retries) went
    unanswered -/
theorem error_only_if_own_reply_lost (scope : LockScope) (hs : scope = .whole) (reqs : Nat → List Req)
    (connected : Bool) (cok : Nat → Bool) (cfg : Cfg) (sched : List Nat) (t : Nat) :
    ∀ x ∈ ((runSched scope (init reqs connected cok cfg) sched).threads t).results,
      x.2.2 = .err .modbusIO → cfg.attempts ≤ x.1.lost := by
  intro x hx he
  rcases caller_gets_its_due scope hs reqs connected cok cfg sched t x hx with h | h | h | h
  · rw [he] at h; cases h.1
  · rw [he] at h; cases h.2
  · exact h.2.1
  · have := h.2.2; unfold Spec.OwnReply at this; rw [he] at this; cases this

/-- no result lost or duplicated: the completed transactions of a thread are, in order, an initial part of the
    requests it was given (one result each) -/
theorem results_in_request_order (scope : LockScope) (hs : scope = .whole) (reqs : Nat → List Req)
    (connected : Bool) (cok : Nat → Bool) (cfg : Cfg) (sched : List Nat) (t : Nat) :
    ((runSched scope (init reqs connected cok cfg) sched).threads t).results.map (·.1) <+: reqs t := by
  subst hs
  have h := ((inv_reachable reqs connected cok cfg sched).ok t).conserve
  unfold Conserved at h
  rw [List.append_assoc] at h
  exact ⟨_, h⟩

/-- a finished thread has exactly one result per request, in order, each its own reply or the connection exception -/
theorem finished_all_answered (scope : LockScope) (hs : scope = .whole) (reqs : Nat → List Req)
    (connected : Bool) (cok : Nat → Bool) (cfg : Cfg) (sched : List Nat) (t : Nat)
    (hd : ((runSched scope (init reqs connected cok cfg) sched).threads t).done = true) :
    ((runSched scope (init reqs connected cok cfg) sched).threads t).results.map (·.1) = reqs t ∧
    ∀ x ∈ ((runSched scope (init reqs connected cok cfg) sched).threads t).results, Spec.Answered cok cfg.attempts x := by
  refine ⟨?_, caller_gets_its_due scope hs reqs connected cok cfg sched t⟩
  subst hs
  have h := ((inv_reachable reqs connected cok cfg sched).ok t).conserve
  unfold Conserved at h
  simp only [Thread.done, Bool.and_eq_true, List.isEmpty_iff] at hd
  simpa [curPending, hd.1, hd.2] using h

/-- … and when every connection attempt succeeds and every request of this thread is answered within its retries (and it sends no broadcast): one own reply per request, in
    order — nothing lost, duplicated or swapped -/
theorem finished_all_served (scope : LockScope) (hs : scope = .whole) (reqs : Nat → List Req)
    (connected : Bool) (cok : Nat → Bool) (cfg : Cfg) (hall : ∀ k, cok k = true) (sched : List Nat) (t : Nat)
    (hnl : ∀ r ∈ reqs t, r.lost < cfg.attempts ∧ r.bcast = false)
    (hd : ((runSched scope (init reqs connected cok cfg) sched).threads t).done = true) :
    Spec.AllServed reqs (runSched scope (init reqs connected cok cfg) sched) t := by
  have hmap := (finished_all_answered scope hs reqs connected cok cfg sched t hd).1
  have hmem : ∀ x ∈ ((runSched scope (init reqs connected cok cfg) sched).threads t).results, x.1 ∈ reqs t := by
    intro x hx; rw [← hmap]; exact List.mem_map_of_mem hx
  exact ⟨hmap, fun x hx => own_reply scope hs reqs connected cok cfg hall sched t x hx
    (hnl _ (hmem x hx)).2 (hnl _ (hmem x hx)).1⟩

/-- the socket is only replaced while no transaction is in flight: whenever a step installs a socket that was not
    there (the connect of `BaseModbusClient.execute`, or the reconnect of `_transact` before a retry), no thread is
    between its send and the end of its receive -/
theorem socket_replaced_only_when_idle (scope : LockScope) (hs : scope = .whole) (reqs : Nat → List Req)
    (connected : Bool) (cok : Nat → Bool) (cfg : Cfg) (sched : List Nat) (t c : Nat)
    (hnew : (step scope (runSched scope (init reqs connected cok cfg) sched) t).sock = some c)
    (hold : (runSched scope (init reqs connected cok cfg) sched).sock ≠ some c) :
    ∀ u, ((runSched scope (init reqs connected cok cfg) sched).threads u).inFlight = false := by
  subst hs
  have hi := inv_reachable reqs connected cok cfg sched
  obtain ⟨ops, hops⟩ := step_new_socket .whole _ t c hnew hold
  have hout : ∀ th : Thread, Outside th → th.inFlight = false := by
    intro th ho
    cases ho with
    | inl h0 => simp [Thread.inFlight, h0]
    | inr hk => obtain ⟨k, hk, _⟩ := hk; simp [Thread.inFlight, hk]
  cases outside_or_holder hi t with
  | inl ho =>
    exfalso
    cases ho with
    | inl h0 => cases hops with
      | inl h => rw [h0] at h; cases h
      | inr h => rw [h0] at h; cases h
    | inr hk =>
      obtain ⟨k, hk, _⟩ := hk
      cases hops with
      | inl h => rw [hk] at h; cases h
      | inr h => rw [hk] at h; cases h
  | inr hh =>
    obtain ⟨hl, hst⟩ := hh
    obtain ⟨op, l, ho, _, _, hopn⟩ := hst.head
    intro u
    by_cases hu : u = t
    · subst hu
      cases hops with
      | inl h => rw [ho] at h; cases h; exact hopn (Or.inl rfl)
      | inr h => rw [ho] at h; cases h; exact hopn (Or.inr rfl)
    · exact hout _ ((hi.held t 1 hl).2.2 u hu)

/-- the socket in use is always the newest connection, and connections not yet opened are empty -/
theorem socket_is_newest_connection (scope : LockScope) (hs : scope = .whole) (reqs : Nat → List Req)
    (connected : Bool) (cok : Nat → Bool) (cfg : Cfg) (sched : List Nat) (c : Nat)
    (h : (runSched scope (init reqs connected cok cfg) sched).sock = some c) :
    c + 1 = (runSched scope (init reqs connected cok cfg) sched).nextConn := by
  subst hs
  have hi := inv_reachable reqs connected cok cfg sched
  cases hl : (runSched .whole (init reqs connected cok cfg) sched).locks 0 with
  | none => exact ((hi.free hl).1.2.2.2 c h).1
  | some p =>
    have hst := (hi.held p.1 p.2 hl).2.1
    cases hst with
    | pre k hh q hm => exact (q.2.2.2 c h).1
    | opening k hh q hso hm => exact (q.2.2.2 c h).1
    | acq k hh q c' hso hm => exact (q.2.2.2 c h).1
    | inner c' hso hc1 hfr hm st =>
      have : some c' = some c := hso.symm.trans h
      cases this; exact hc1
    | closedBackoff k hh hbc ha cl =>
      rw [show (runSched .whole (init reqs connected cok cfg) sched).sock = none from cl.1] at h; cases h
    | closedConnect k hh hbc ha cl =>
      rw [show (runSched .whole (init reqs connected cok cfg) sched).sock = none from cl.1] at h; cases h
    | closedOpen k hh hbc ha hfm cl =>
      rw [show (runSched .whole (init reqs connected cok cfg) sched).sock = none from cl.1] at h; cases h
    | closedBackoffLast hh hr hbc hall cl =>
      rw [show (runSched .whole (init reqs connected cok cfg) sched).sock = none from cl.1] at h; cases h
    | closedProc hh hr hbc hall cl =>
      rw [show (runSched .whole (init reqs connected cok cfg) sched).sock = none from cl.1] at h; cases h
    | closedRel hh cl =>
      rw [show (runSched .whole (init reqs connected cok cfg) sched).sock = none from cl.1] at h; cases h
    | crel hh q hm => exact (q.2.2.2 c h).1

/-- `no_deadlock` (1): in every reachable state, if some thread has not finished then some thread can move
    (whatever connection attempts were refused) -/
theorem no_deadlock (scope : LockScope) (hs : scope = .whole) (reqs : Nat → List Req) (connected : Bool)
    (cok : Nat → Bool) (cfg : Cfg) (sched : List Nat) (t : Nat)
    (hnd : ((runSched scope (init reqs connected cok cfg) sched).threads t).done = false) :
    ∃ u, runnable scope (runSched scope (init reqs connected cok cfg) sched) u = true := by
  subst hs
  exact exists_runnable (inv_reachable reqs connected cok cfg sched) t hnd

/-- `no_deadlock` (2): every move is progress — a thread that can move has strictly less left to do afterwards (the
    measure counts the operations of every transmission the retry budget still allows), and nobody else's remaining
    work changes (any lock discipline, any retry configuration) -/
theorem every_move_is_progress (scope : LockScope) (s : State) (t : Nat) (hr : runnable scope s t = true) :
    ((step scope s t).threads t).work scope s.cfg < (s.threads t).work scope s.cfg ∧ (step scope s t).cfg = s.cfg ∧
    ∀ u, u ≠ t → (step scope s t).threads u = s.threads u :=
  ⟨step_work scope s t hr, step_cfg scope s t, fun u hu => step_threads_other scope s t u hu⟩

/-- `no_deadlock` (3), fair schedules: if the schedule consists of `k` rounds, every round gives each of the `n`
    threads at least one turn (in any order, with any repetitions) and `k` is at least the total number of operations
    to perform, then every thread finishes: every request has ended with the caller's own reply or (a refused
    connection) the connection exception -/
theorem fair_schedule_finishes (scope : LockScope) (hs : scope = .whole) (reqs : Nat → List Req) (connected : Bool)
    (cok : Nat → Bool) (cfg : Cfg) (n : Nat) (hn : ∀ t, n ≤ t → reqs t = []) (rounds : List (List Nat))
    (hc : ∀ r ∈ rounds, Covers n r) (hk : totalWork scope (init reqs connected cok cfg) n ≤ rounds.length) (t : Nat) :
    ((runSched scope (init reqs connected cok cfg) rounds.flatten).threads t).done = true ∧
    ((runSched scope (init reqs connected cok cfg) rounds.flatten).threads t).results.map (·.1) = reqs t ∧
    ∀ x ∈ ((runSched scope (init reqs connected cok cfg) rounds.flatten).threads t).results, Spec.Answered cok cfg.attempts x := by
  subst hs
  have hd := fair_rounds_finish (inv_init reqs connected cok cfg) n
    (fun v hv => by simp [init, Thread.done, hn v hv]) rounds hc hk t
  exact ⟨hd, finished_all_answered .whole rfl reqs connected cok cfg _ t hd⟩

/-- re-entrant acquisition by the holder never blocks (both locks are `RLock`s): the holder can always take its lock
    again, whatever the depth -/
theorem reentrant_acquire_never_blocks (locks : Nat → Option (Nat × Nat)) (k t d : Nat)
    (h : locks k = some (t, d)) :
    ∃ l, lockAcquire locks k t = some l ∧ l k = some (t, d + 1) := by
  refine ⟨upd locks k (some (t, d + 1)), ?_, upd_same _ _ _⟩
  simp [lockAcquire, h]

/-- … and `release` undoes one level: after acquire;release the lock is as before -/
theorem reentrant_release_restores (locks : Nat → Option (Nat × Nat)) (k t d : Nat) (hd : 1 ≤ d)
    (h : locks k = some (t, d)) :
    ∃ l, lockAcquire locks k t = some l ∧ lockRelease l k t k = some (t, d) := by
  refine ⟨upd locks k (some (t, d + 1)), by simp [lockAcquire, h], ?_⟩
  have hne : ¬ (d + 1 ≤ 1) := by omega
  simp [lockRelease, upd, hne]

/-- a thread whose next operation is the acquisition of a lock it already holds can move (manager lock, client lock) -/
theorem holder_can_reacquire (scope : LockScope) (s : State) (t k d : Nat) (ops : List Op)
    (hops : (s.threads t).ops = .acquire :: ops) (hk : lockKey scope (s.threads t).cur = some k)
    (hl : s.locks k = some (t, d)) : runnable scope s t = true := by
  simp [runnable, hops, hk, hl]

theorem holder_can_reacquire_client (scope : LockScope) (s : State) (t d : Nat) (ops : List Op)
    (hops : (s.threads t).ops = .cacquire :: ops) (hl : s.locks clientKey = some (t, d)) :
    runnable scope s t = true := by
  simp [runnable, hops, hl]

/-- the back-off of the retry loop is spent with BOTH locks held: in every reachable state, a thread whose next
    operation is the back-off holds the client lock and the manager lock (so every other caller is parked at the
    entrance of `BaseModbusClient.execute`, and the retry goes out on a transport nobody else has touched) -/
theorem backoff_holds_both_locks (scope : LockScope) (hs : scope = .whole) (reqs : Nat → List Req)
    (connected : Bool) (cok : Nat → Bool) (cfg : Cfg) (sched : List Nat) (t : Nat) (ops : List Op)
    (hb : ((runSched scope (init reqs connected cok cfg) sched).threads t).ops = .backoff :: ops) :
    (runSched scope (init reqs connected cok cfg) sched).locks 0 = some (t, 1) ∧
    (runSched scope (init reqs connected cok cfg) sched).locks 1 = some (t, 1) := by
  subst hs
  have hi := inv_reachable reqs connected cok cfg sched
  cases outside_or_holder hi t with
  | inl ho =>
    exfalso
    cases ho with
    | inl h0 => rw [h0] at hb; cases hb
    | inr hk => obtain ⟨k, hk, _⟩ := hk; rw [hk] at hb; cases hb
  | inr hh =>
    refine ⟨hh.1, ?_⟩
    cases hh.2 with
    | pre k h => rw [h] at hb; cases hb
    | opening k h => rw [h] at hb; cases hb
    | acq k h => rw [h] at hb; cases hb
    | inner c hs hc1 hfr hm st => exact hm
    | closedBackoff k h hbc ha cl => exact cl.2.2.2.2
    | closedConnect k h hbc ha cl => exact cl.2.2.2.2
    | closedOpen k h hbc ha hfm cl => exact cl.2.2.2.2
    | closedBackoffLast h hr hbc hall cl => exact cl.2.2.2.2
    | closedProc h hr hbc hall cl => exact cl.2.2.2.2
    | closedRel h cl => exact cl.2.2.2.2
    | crel h => rw [h] at hb; cases hb

/-! ### the whole property as one statement -/

/-- safety: on every run, mutual exclusion, contiguous frames, and every caller is handed what it is due
    (`Spec.Answered`: its own reply from whichever transmission got one / its own error object when all `cfg.attempts`
    transmissions were lost / the broadcast marker / the connection exception) — never somebody else's reply -/
def Serialised (scope : LockScope) (connected : Bool) (cok : Nat → Bool) (cfg : Cfg) : Prop :=
  ∀ (reqs : Nat → List Req) (sched : List Nat),
    Spec.Exclusive (runSched scope (init reqs connected cok cfg) sched) ∧
    Spec.contiguous (runSched scope (init reqs connected cok cfg) sched).wire = true ∧
    ∀ t, ∀ x ∈ ((runSched scope (init reqs connected cok cfg) sched).threads t).results,
      Spec.Answered cok cfg.attempts x

/-- liveness: no caller blocks forever — in every reachable state somebody can move unless everybody has finished,
    and every fair schedule (rounds, see `fair_schedule_finishes`) ends with every thread finished -/
def NeverStuck (scope : LockScope) (connected : Bool) (cok : Nat → Bool) (cfg : Cfg) : Prop :=
  ∀ (reqs : Nat → List Req),
    (∀ (sched : List Nat) (t : Nat), ((runSched scope (init reqs connected cok cfg) sched).threads t).done = false →
      ∃ u, runnable scope (runSched scope (init reqs connected cok cfg) sched) u = true) ∧
    (∀ (n : Nat), (∀ t, n ≤ t → reqs t = []) → ∀ rounds : List (List Nat), (∀ r ∈ rounds, Covers n r) →
      totalWork scope (init reqs connected cok cfg) n ≤ rounds.length →
      ∀ t, ((runSched scope (init reqs connected cok cfg) rounds.flatten).threads t).done = true)

/-- the full statement of C15: under the shipped discipline, whatever the state of the client when the threads start,
    whichever connection attempts are refused, whichever transmissions go unanswered and however the client retries
    (`cfg`: any number of retries, `retry_on_empty` or not, back-off or not), callers are serialised, each gets what it
    is due — its own reply (from the transmission that got one), its own error object (all transmissions lost), the
    broadcast marker, or the connection exception — and nobody blocks forever -/
theorem C15_full : ∀ connected cok cfg, Serialised .whole connected cok cfg ∧ NeverStuck .whole connected cok cfg :=
  fun connected cok cfg =>
    ⟨fun reqs sched => ⟨mutual_exclusion _ rfl reqs connected cok cfg sched,
        frames_contiguous _ rfl reqs connected cok cfg sched,
        fun t => caller_gets_its_due _ rfl reqs connected cok cfg sched t⟩,
     fun reqs => ⟨fun sched t h => no_deadlock _ rfl reqs connected cok cfg sched t h,
        fun n hn rounds hc hk t => (fair_schedule_finishes _ rfl reqs connected cok cfg n hn rounds hc hk t).1⟩⟩

/-- the discipline the source has (lock scopes read off the syntax, behaviour of the locks during the back-off
    observed) serialises every client -/
theorem source_serialised : ∀ sc, sourceScope = some sc →
    ∀ connected cok cfg, Serialised sc connected cok cfg ∧ NeverStuck sc connected cok cfg := by
  intro sc h
  rw [source_scope_is_whole.2 sc h]
  exact C15_full

/-! ### disciplines that do not have the property (named mutants) -/

def allOk : Nat → Bool := fun _ => true

/-- the default client: `retry_on_empty=False` — every request is transmitted once -/
def noRetry : Cfg := {}

/-- two threads, different units, different quantities -/
def cexReqs : Nat → List Req := fun i =>
  if i = 0 then [⟨1, 100, 2, 0, 0, false⟩] else if i = 1 then [⟨2, 200, 3, 0, 0, false⟩] else []

/-- `leakOnFail`: the client lock is taken with an explicit acquire and the connect sits between the acquire and the
    `try … finally: release`.  The first connection attempt is refused: thread 0 correctly gets the connection
    exception — and keeps the client lock for ever.  (next request, acquire, connect check, open) -/
def cexLeak : List Nat := [0, 0, 0, 0, 1, 1]

theorem lock_leak_counterexample :
    let s := runSched .leakOnFail (init cexReqs false (fun k => k != 0) noRetry) cexLeak
    (s.threads 0).results = [(⟨1, 100, 2, 0, 0, false⟩, 0, .raised .modbusExc)] ∧
    (s.threads 0).done = true ∧ (s.threads 1).done = false ∧
    s.locks clientKey = some (0, 1) ∧
    runnable .leakOnFail s 0 = false ∧ runnable .leakOnFail s 1 = false := by decide +kernel

/-- a deadlock: thread 1 has a request left and nobody can ever move again -/
theorem leakOnFail_deadlocks : ¬ NeverStuck .leakOnFail false (fun k => k != 0) noRetry := by
  intro h
  obtain ⟨u, hu⟩ := (h cexReqs).1 cexLeak 1 lock_leak_counterexample.2.2.1
  have h0 := lock_leak_counterexample.2.2.2.2.1
  have h1 := lock_leak_counterexample.2.2.2.2.2
  by_cases e0 : u = 0
  · subst e0; rw [h0] at hu; cases hu
  · by_cases e1 : u = 1
    · subst e1; rw [h1] at hu; cases hu
    · have : runnable .leakOnFail (runSched .leakOnFail (init cexReqs false (fun k => k != 0) noRetry) cexLeak) u = false := by
        apply done_not_runnable
        have hr : ((runSched .leakOnFail (init cexReqs false (fun k => k != 0) noRetry) cexLeak).threads u) =
            ((init cexReqs false (fun k => k != 0) noRetry).threads u) := by
          simp only [cexLeak, runSched]
          repeat rw [step_threads_other _ _ _ _ (by first | exact e0 | exact e1)]
        rw [hr]
        simp [init, Thread.done, cexReqs, e0, e1]
      rw [this] at hu; cases hu

/-- the same world and schedule under the shipped discipline: the lock is given back, thread 1 can go on, and with
    the second attempt accepted it gets its own reply -/
theorem lock_leak_repaired :
    runnable .whole (runSched .whole (init cexReqs false (fun k => k != 0) noRetry) (cexLeak ++ [0])) 1 = true ∧
    ((runSched .whole (init cexReqs false (fun k => k != 0) noRetry)
        (cexLeak ++ [0] ++ List.replicate 14 1)).threads 1).results =
      [(⟨2, 200, 3, 0, 0, false⟩, 1, .ok 1 2 (.regs [200, 201, 202]))] := by decide +kernel

theorem not_exclusive_of (s : State) (h0 : (s.threads 0).inFlight = true) (h1 : (s.threads 1).inFlight = true) :
    ¬ Spec.Exclusive s := fun h => absurd (h 0 1 h0 h1) (by decide)

/-- thread 0 broadcasts (unit 0 on a broadcast-enabled client), thread 1 reads registers of unit 2 -/
def cexReqsBcast : Nat → List Req := fun i =>
  if i = 0 then [⟨0, 100, 2, 0, 0, true⟩] else if i = 1 then [⟨2, 200, 3, 0, 0, false⟩] else []

/-- `broadcastOutside` (seeded C15-04), connected client.  Thread 0 connects under the client lock, gives it back and
    is pre-empted before its first transport operation; thread 1 runs its transaction up to the end of its send (its
    reply is waiting); thread 0's `_flush_input` throws that reply away and its frame is written while thread 1 is
    between its send and its receive; thread 1 then reads nothing. -/
def cexBcast : List Nat := [0, 0, 0, 0, 0, 0, 1, 1, 1, 1, 1, 1, 1, 1, 1, 0, 0, 0, 0, 1, 1]

theorem broadcastOutside_counterexample :
    -- after thread 0's first write both calls are in flight
    ((runSched .broadcastOutside (init cexReqsBcast true allOk noRetry) (cexBcast.take 17)).threads 0).inFlight = true ∧
    ((runSched .broadcastOutside (init cexReqsBcast true allOk noRetry) (cexBcast.take 17)).threads 1).inFlight = true ∧
    -- the broadcaster gets its marker, the other caller an error object although the peer answered it
    ((runSched .broadcastOutside (init cexReqsBcast true allOk noRetry) cexBcast).threads 0).results =
      [(⟨0, 100, 2, 0, 0, true⟩, 1, .bcastSent)] ∧
    ((runSched .broadcastOutside (init cexReqsBcast true allOk noRetry) cexBcast).threads 1).results =
      [(⟨2, 200, 3, 0, 0, false⟩, 2, .err .modbusIO)] := by decide +kernel

theorem broadcastOutside_not_serialised : ¬ Serialised .broadcastOutside true allOk noRetry := fun h =>
  not_exclusive_of _ broadcastOutside_counterexample.1 broadcastOutside_counterexample.2.1
    (h cexReqsBcast (cexBcast.take 17)).1

/-- the same requests and schedule under the shipped discipline: the broadcast is written under both locks, thread 1
    is parked on the client lock meanwhile and then gets its own reply -/
theorem broadcastOutside_repaired :
    let s := runSched .whole (init cexReqsBcast true allOk noRetry) (cexBcast ++ List.replicate 12 0 ++ List.replicate 16 1)
    (s.threads 0).results = [(⟨0, 100, 2, 0, 0, true⟩, 1, .bcastSent)] ∧
    (s.threads 1).results = [(⟨2, 200, 3, 0, 0, false⟩, 2, .ok 2 2 (.regs [200, 201, 202]))] := by
  decide +kernel

/-- thread 0: a request the peer does not answer, then another one; thread 1: one request -/
def cexReqsLost : Nat → List Req := fun i =>
  if i = 0 then [⟨1, 100, 2, 0, 1, false⟩, ⟨3, 300, 1, 0, 0, false⟩] else if i = 1 then [⟨2, 200, 3, 0, 0, false⟩] else []

/-- `lockOnlyWhenCold` (seeded C15-03), connected client.  Thread 0 sends its first request; thread 1 looks, sees a
    socket and goes straight to the manager lock, where it parks; thread 0's reply is lost: short read, the connection
    is closed, error object, lock released.  Thread 0 turns to its next request, sees no socket, takes the client lock
    and starts to connect; thread 1 now gets the manager lock, finds no socket in `_transact`, connects WITHOUT the
    client lock (connection 1), flushes, sends; thread 0's connection attempt completes (connection 2 replaces
    `client.socket`); thread 1 reads from connection 2, where nothing arrives. -/
def cexColdLock : List Nat :=
  [0, 0, 0, 0, 0, 0, 0, 0, 1, 1, 0, 0, 0, 0, 0, 0, 0, 1, 1, 1, 1, 1, 1, 1, 0, 1, 1]

theorem lockOnlyWhenCold_counterexample :
    let s := runSched .lockOnlyWhenCold (init cexReqsLost true allOk noRetry) cexColdLock
    -- thread 0's own reply was lost: it rightly gets its error object
    (s.threads 0).results = [(⟨1, 100, 2, 0, 1, false⟩, 1, .err .modbusIO)] ∧
    -- thread 1's request was answered (the reply sits unread on connection 1), yet it gets an error object
    (s.threads 1).results = [(⟨2, 200, 3, 0, 0, false⟩, 2, .err .modbusIO)] ∧
    s.stream 1 = replyOf 2 ⟨2, 200, 3, 0, 0, false⟩ := by decide +kernel

theorem lockOnlyWhenCold_not_serialised : ¬ Serialised .lockOnlyWhenCold true allOk noRetry := by
  intro h
  have h1 := (h cexReqsLost cexColdLock).2.2 1 (⟨2, 200, 3, 0, 0, false⟩, 2, .err .modbusIO)
    (by rw [lockOnlyWhenCold_counterexample.2.1]; exact List.mem_singleton.2 rfl)
  rcases h1 with h1 | h1 | h1 | h1
  · exact absurd h1.1 (by decide)
  · exact absurd h1.1 (by decide)
  · exact absurd h1.2.1 (by decide)
  · exact absurd h1.2.2 (by decide)

/-- the same world and schedule under the shipped discipline: thread 1 is parked on the CLIENT lock while thread 0
    loses its reply, the next call reconnects under that lock, and thread 1 gets its own reply -/
theorem lockOnlyWhenCold_repaired :
    let s := runSched .whole (init cexReqsLost true allOk noRetry) (cexColdLock ++ List.replicate 16 0 ++ List.replicate 16 1)
    (s.threads 0).results = [(⟨1, 100, 2, 0, 1, false⟩, 1, .err .modbusIO),
                             (⟨3, 300, 1, 0, 0, false⟩, 2, .ok 2 3 (.regs [300]))] ∧
    (s.threads 1).results = [(⟨2, 200, 3, 0, 0, false⟩, 3, .ok 3 2 (.regs [200, 201, 202]))] ∧
    s.sock = some 1 := by decide +kernel

/-- the code before the repair of connect-outside-lock (`connectOutside`: `connect()` before any lock is taken), cold
    client.  Both threads (after turning to their request) find no socket in the unlocked connect check; thread 0
    opens connection 0, takes the manager lock, flushes, sends; thread 1's connection attempt completes (connection 1
    replaces `client.socket`); thread 0 reads from connection 1, where nothing arrives -/
def cexRace : List Nat := [0, 1, 0, 1, 0, 0, 0, 0, 0, 0, 0, 1, 0, 0, 0]

/-- the repaired defect connect-outside-lock: the peer answered thread 0's request (the reply sits unread on
    connection 0), yet `execute` handed thread 0 a `ModbusIOException`.  Transactions were never concurrent and the
    frame is whole. -/
theorem connect_race_counterexample :
    ((runSched .connectOutside (init cexReqs false allOk noRetry) cexRace).threads 0).results =
      [(⟨1, 100, 2, 0, 0, false⟩, 1, .err .modbusIO)] ∧
    (runSched .connectOutside (init cexReqs false allOk noRetry) cexRace).stream 0 = replyOf 1 ⟨1, 100, 2, 0, 0, false⟩ ∧
    (runSched .connectOutside (init cexReqs false allOk noRetry) cexRace).sock = none ∧
    ¬ Spec.Answered allOk noRetry.attempts (⟨1, 100, 2, 0, 0, false⟩, 1, .err .modbusIO) := by
  refine ⟨by decide +kernel, by decide +kernel, by decide +kernel, ?_⟩
  intro h
  rcases h with h | h | h | h
  · exact absurd h.1 (by decide)
  · exact absurd h.1 (by decide)
  · exact absurd h.2.1 (by decide)
  · exact absurd h.2.2 (by decide)

theorem connectOutside_not_serialised : ¬ Serialised .connectOutside false allOk noRetry := by
  intro h
  have h1 := (h cexReqs cexRace).2.2 0 (⟨1, 100, 2, 0, 0, false⟩, 1, .err .modbusIO)
    (by rw [connect_race_counterexample.1]; exact List.mem_singleton.2 rfl)
  exact connect_race_counterexample.2.2.2 h1

/-- the very same schedule under the shipped discipline: thread 1 is parked on the client lock, nothing is lost -/
theorem connect_race_repaired :
    ((runSched .whole (init cexReqs false allOk noRetry) (cexRace ++ [0, 0, 0, 0])).threads 0).results =
      [(⟨1, 100, 2, 0, 0, false⟩, 1, .ok 1 1 (.regs [100, 101]))] := by decide +kernel

/-- (client connected) both threads up to and including their first write: next request, connect check, acquire,
    tid, connect, flush, send₁ -/
def cexInterleaved : List Nat := [0, 0, 0, 0, 0, 0, 0, 1, 1, 1, 1, 1, 1, 1]

/-- thread 0 sends its frame, then thread 1 runs a whole transaction up to its processing (its flush discards the reply
    that is waiting for thread 0), then thread 0 receives -/
def cexSwapped : List Nat := [0, 0, 0, 0, 0, 0, 0, 0, 1, 1, 1, 1, 1, 1, 1, 1, 1, 1, 1, 0, 0, 0]

/-- without a lock there is no acquire step: next request, connect check, tid, connect, flush, send₁ -/
def cexInterleavedNone : List Nat := [0, 0, 0, 0, 0, 0, 1, 1, 1, 1, 1, 1]
def cexSwappedNone : List Nat := [0, 0, 0, 0, 0, 0, 0, 1, 1, 1, 1, 1, 1, 1, 1, 1, 1, 0, 0, 0]

/-- no lock: the two headers are adjacent on the wire, both transactions are in flight; and when thread 1 transacts
    while thread 0 waits for its reply, thread 1's `_flush_input` throws thread 0's reply away: the reply is lost -/
theorem none_counterexample :
    ((runSched .none (init cexReqs true allOk noRetry) cexInterleavedNone).threads 0).inFlight = true ∧
    ((runSched .none (init cexReqs true allOk noRetry) cexInterleavedNone).threads 1).inFlight = true ∧
    Spec.contiguous (runSched .none (init cexReqs true allOk noRetry) cexInterleavedNone).wire = false ∧
    ((runSched .none (init cexReqs true allOk noRetry) cexSwappedNone).threads 0).results =
      [(⟨1, 100, 2, 0, 0, false⟩, 1, .err .modbusIO)] := by decide +kernel

theorem none_not_serialised : ¬ Serialised .none true allOk noRetry := fun h =>
  not_exclusive_of _ none_counterexample.1 none_counterexample.2.1 (h cexReqs cexInterleavedNone).1

/-- one manager lock per unit id and no client lock (the seeded change C15-01 on the code before the repair): two
    threads addressing different units hold different locks -/
theorem perKey_counterexample :
    ((runSched (.perKey (·.unit)) (init cexReqs true allOk noRetry) cexInterleaved).threads 0).inFlight = true ∧
    ((runSched (.perKey (·.unit)) (init cexReqs true allOk noRetry) cexInterleaved).threads 1).inFlight = true ∧
    Spec.contiguous (runSched (.perKey (·.unit)) (init cexReqs true allOk noRetry) cexInterleaved).wire = false ∧
    -- thread 1 transacts while thread 0 waits: its flush discards thread 0's reply, thread 0 gets an error object
    ((runSched (.perKey (·.unit)) (init cexReqs true allOk noRetry) cexSwapped).threads 0).results =
      [(⟨1, 100, 2, 0, 0, false⟩, 1, .err .modbusIO)] := by decide +kernel

theorem perKey_not_serialised : ¬ Serialised (.perKey (·.unit)) true allOk noRetry := fun h =>
  not_exclusive_of _ perKey_counterexample.1 perKey_counterexample.2.1 (h cexReqs cexInterleaved).1

/-- units 0 and 255 are different keys and both accept any unit id in a reply.  Thread 0 is pre-empted between the two
    writes of its frame, thread 1 flushes, thread 0 completes its frame, thread 1 sends and receives first: it reads
    thread 0's reply.  Since the repair "the sync client returns only a reply that answers the request" that foreign
    reply (other transaction id) is dropped instead of being handed over: thread 1 gets an error object although the
    peer answered its request (before that repair it was handed thread 0's registers) -/
def cexReqsAny : Nat → List Req := fun i =>
  if i = 0 then [⟨0, 100, 2, 0, 0, false⟩] else if i = 1 then [⟨255, 200, 3, 0, 0, false⟩] else []

def cexForeign : List Nat := [0, 0, 0, 0, 0, 0, 0, 1, 1, 1, 1, 1, 1, 0, 1, 1, 1, 1, 1]

theorem perKey_foreign_reply_counterexample :
    ((runSched (.perKey (·.unit)) (init cexReqsAny true allOk noRetry) cexForeign).threads 1).results =
      [(⟨255, 200, 3, 0, 0, false⟩, 2, .err .modbusIO)] ∧
    ¬ Spec.OwnReply (⟨255, 200, 3, 0, 0, false⟩, 2, .err .modbusIO) := by decide +kernel

/-- a manager lock around the send only keeps the frames whole but not the transactions apart -/
def cexSendOnly : List Nat := [0, 0, 0, 0, 0, 0, 0, 0, 0, 1, 1, 1, 1, 1, 1, 1]

theorem sendOnly_counterexample :
    ((runSched .sendOnly (init cexReqs true allOk noRetry) cexSendOnly).threads 0).inFlight = true ∧
    ((runSched .sendOnly (init cexReqs true allOk noRetry) cexSendOnly).threads 1).inFlight = true := by decide +kernel

theorem sendOnly_not_serialised : ¬ Serialised .sendOnly true allOk noRetry := fun h =>
  not_exclusive_of _ sendOnly_counterexample.1 sendOnly_counterexample.2 (h cexReqs cexSendOnly).1

/-- a retrying client: `retry_on_empty=True, retries=1` (a request is transmitted at most twice), with back-off -/
def cfgRetry1 : Cfg := { retries := 1, retryOnEmpty := true }

/-- thread 0: a request whose first transmission the peer does not answer; thread 1: one request -/
def cexReqsRetry : Nat → List Req := fun i =>
  if i = 0 then [⟨1, 100, 2, 0, 1, false⟩] else if i = 1 then [⟨2, 200, 3, 0, 0, false⟩] else []

/-- `releaseClientLockInBackoff` (seeded C15-10: the back-off waits on `Condition(self._connect_lock)`), connected
    client.  Thread 0 sends, its first read comes back short (connection closed), the retry loop starts its back-off:
    the wait gives the CLIENT lock up — the manager lock stays.  Thread 1 enters `execute`: takes the client lock,
    finds no socket, connects, and parks on the manager lock.  Thread 0's wait ends and wants the client lock back. -/
def cexBackoff : List Nat := List.replicate 11 0 ++ [1, 1, 1, 1] ++ [0]

theorem backoff_release_counterexample :
    let s := runSched .releaseClientLockInBackoff (init cexReqsRetry true allOk cfgRetry1) cexBackoff
    (s.threads 0).done = false ∧ (s.threads 1).done = false ∧
    (s.threads 0).results = [] ∧ (s.threads 1).results = [] ∧
    -- thread 0 holds the manager lock and waits for the client lock; thread 1 holds the client lock and waits for
    -- the manager lock
    s.locks 1 = some (0, 1) ∧ s.locks clientKey = some (1, 1) ∧
    (s.threads 0).ops.head? = some .cacquire ∧ (s.threads 1).ops.head? = some .acquire ∧
    runnable .releaseClientLockInBackoff s 0 = false ∧ runnable .releaseClientLockInBackoff s 1 = false := by
  decide +kernel

/-- a deadlock: both threads have their request left and nobody can ever move again -/
theorem releaseClientLockInBackoff_deadlocks : ¬ NeverStuck .releaseClientLockInBackoff true allOk cfgRetry1 := by
  intro h
  obtain ⟨u, hu⟩ := (h cexReqsRetry).1 cexBackoff 1 backoff_release_counterexample.2.1
  have h0 := backoff_release_counterexample.2.2.2.2.2.2.2.2.1
  have h1 := backoff_release_counterexample.2.2.2.2.2.2.2.2.2
  by_cases e0 : u = 0
  · subst e0; rw [h0] at hu; cases hu
  · by_cases e1 : u = 1
    · subst e1; rw [h1] at hu; cases hu
    · have : runnable .releaseClientLockInBackoff
          (runSched .releaseClientLockInBackoff (init cexReqsRetry true allOk cfgRetry1) cexBackoff) u = false := by
        apply done_not_runnable
        have hr : ((runSched .releaseClientLockInBackoff (init cexReqsRetry true allOk cfgRetry1) cexBackoff).threads u) =
            ((init cexReqsRetry true allOk cfgRetry1).threads u) := by
          simp only [cexBackoff, List.replicate, List.cons_append, List.nil_append, runSched]
          repeat rw [step_threads_other _ _ _ _ (by first | exact e0 | exact e1)]
        rw [hr]
        simp [init, Thread.done, cexReqsRetry, e0, e1]
      rw [this] at hu; cases hu

/-- the same world and schedule under the shipped discipline: during thread 0's back-off thread 1 is parked at the
    entrance (client lock), thread 0 reconnects, transmits again and gets its OWN reply from the second transmission;
    then thread 1 gets its own reply over the new connection -/
theorem backoff_release_repaired :
    runnable .whole (runSched .whole (init cexReqsRetry true allOk cfgRetry1) cexBackoff) 1 = false ∧
    runnable .whole (runSched .whole (init cexReqsRetry true allOk cfgRetry1) cexBackoff) 0 = true ∧
    (let s := runSched .whole (init cexReqsRetry true allOk cfgRetry1)
       (cexBackoff ++ List.replicate 14 0 ++ List.replicate 16 1)
     (s.threads 0).results = [(⟨1, 100, 2, 0, 1, false⟩, 1, .ok 1 1 (.regs [100, 101]))] ∧
     (s.threads 1).results = [(⟨2, 200, 3, 0, 0, false⟩, 2, .ok 2 2 (.regs [200, 201, 202]))] ∧
     (s.threads 0).done = true ∧ (s.threads 1).done = true ∧ s.sock = some 1) := by decide +kernel

/-- retries used up: the peer answers none of the two transmissions — the caller gets its own error object (and the
    other caller, who ran during neither back-off, its own reply) -/
theorem all_attempts_lost_example :
    let reqs : Nat → List Req := fun i =>
      if i = 0 then [⟨1, 100, 2, 0, 2, false⟩] else if i = 1 then [⟨2, 200, 3, 0, 0, false⟩] else []
    let s := runSched .whole (init reqs true allOk cfgRetry1) (List.replicate 30 0 ++ [1, 0, 1, 0] ++ List.replicate 20 1)
    (s.threads 0).results = [(⟨1, 100, 2, 0, 2, false⟩, 1, .err .modbusIO)] ∧
    (s.threads 1).results = [(⟨2, 200, 3, 0, 0, false⟩, 2, .ok 2 2 (.regs [200, 201, 202]))] ∧
    (s.threads 0).done = true ∧ (s.threads 1).done = true := by decide +kernel

/-! ### non-vacuity -/

/-- a run under the shipped discipline on a COLD client whose first connection attempt is refused: thread 0 gets the
    connection exception, thread 1 (parked on the client lock meanwhile) connects and gets its own reply over the one
    connection -/
example :
    let s := runSched .whole (init cexReqs false (fun k => k != 0) noRetry) (List.replicate 5 0 ++ List.replicate 15 1)
    runnable .whole (runSched .whole (init cexReqs false (fun k => k != 0) noRetry) [0, 0, 1]) 1 = false ∧
    (s.threads 0).done = true ∧ (s.threads 1).done = true ∧ s.sock = some 0 ∧ s.nextConn = 1 ∧
    (s.threads 0).results = [(⟨1, 100, 2, 0, 0, false⟩, 0, .raised .modbusExc)] ∧
    (s.threads 1).results = [(⟨2, 200, 3, 0, 0, false⟩, 1, .ok 1 2 (.regs [200, 201, 202]))] := by decide +kernel

/-- the hypotheses of `fair_schedule_finishes` are satisfiable: round robin, as many rounds as the measure says
    (default client; and the retrying client with a lost first transmission) -/
example : (∀ t, 2 ≤ t → cexReqs t = []) ∧ totalWork .whole (init cexReqs false allOk noRetry) 2 ≤ 200 ∧
    (∀ t, 2 ≤ t → cexReqsRetry t = []) ∧ totalWork .whole (init cexReqsRetry true allOk cfgRetry1) 2 ≤ 100 ∧
    (∀ k, ∀ r ∈ List.replicate k [0, 1], Covers 2 r) := by
  refine ⟨?_, by decide, ?_, by decide, ?_⟩
  · intro t ht
    have h0 : ¬ t = 0 := by omega
    have h1 : ¬ t = 1 := by omega
    simp [cexReqs, h0, h1]
  · intro t ht
    have h0 : ¬ t = 0 := by omega
    have h1 : ¬ t = 1 := by omega
    simp [cexReqsRetry, h0, h1]
  · intro k r hr
    rw [List.eq_of_mem_replicate hr]
    intro t ht
    have : t = 0 ∨ t = 1 := by omega
    cases this with
    | inl h => subst h; simp
    | inr h => subst h; simp

/-- … and such a schedule indeed ends with both callers served: the retrying caller by its second transmission -/
example :
    let s := runSched .whole (init cexReqsRetry true allOk cfgRetry1) (List.replicate 100 [0, 1]).flatten
    (s.threads 0).done = true ∧ (s.threads 1).done = true ∧
    (s.threads 0).results = [(⟨1, 100, 2, 0, 1, false⟩, 1, .ok 1 1 (.regs [100, 101]))] ∧
    (s.threads 1).results = [(⟨2, 200, 3, 0, 0, false⟩, 2, .ok 2 2 (.regs [200, 201, 202]))] := by decide +kernel

end Pymodbus.Props.C15
