/-
  C08 — The synchronous client returns only the reply to its own request.

  About `Txn.execute` (Model/Txn.lean).  Spec: `TxnSpec.answers` (Spec/TxnSpec.lean).  All statements hold for EVERY
  configuration, client state (with the transaction table empty, which `C13.pending_empty_invariant` shows for
  every history), state of the peer and script of reactions — in particular for every sequence of stale frames
  before or instead of the reply and every history of earlier transactions.
-/
import Pymodbus.Props.C13
import Pymodbus.Generated.Tables
namespace Pymodbus.Props.C08
open Pymodbus Txn Framer

def framing : FramerKind → TxnSpec.Framing
  | .tcp => .mbap
  | _ => .serialLine

/-! ### a returned reply answers the request and comes from this call's bytes -/

/-- **the returned object is an error object or a reply that answers the request**: if `execute` returns a reply
    `r`, then `r` satisfies the Spec (`answers`: the request's transaction id on the MBAP framing, the request's
    unit id on the serial framings unless the request addresses unit 0 / 255, the request's function code or that
    code | 0x80), and `r` is the decoding — by the framer's receive loop and the client decoder, starting from an
    empty buffer — of bytes `B` that were read from the transport during this very call (`B` ends the receive log
    that this call appended) -/
theorem returned_reply_answers_request (cfg : Cfg) (st : State) (net : Net) (req : Request) (r : Reply)
    (hp : st.pending = []) (h : (execute cfg st net req).result = .reply r) :
    TxnSpec.answers (framing cfg.framer) req.unit (nextTid st) req.pdu.fc r.msg.fc r.uid r.tid = true ∧
    ∃ B pre pid, (execute cfg st net req).net.rx = net.rx ++ pre ++ B ∧
      Ev.deliver r.msg r.uid r.tid pid ∈ (feed (stepOf cfg.framer) decClient [req.unit] false [] B).1 := by
  cases hb : buildPacket cfg.framer req.unit (nextTid st) req.pdu with
  | error e => rw [execute_build_error cfg st net req e hb] at h; cases h
  | ok packet =>
    have ho := (execute_outcome cfg st net req packet hp hb).2.2.2
    rw [h] at ho
    cases ho with
    | reply _ resp pre hrx hfiled =>
      obtain ⟨pid, hmem, hacc⟩ := hfiled
      refine ⟨?_, resp, pre, pid, hrx, hmem⟩
      -- the unit filter of the receive loop
      obtain ⟨_, hd⟩ := run_sound (stepOf cfg.framer) decClient [req.unit] false (([] ++ resp).length + 1) ([] ++ resp)
      obtain ⟨_, _, _, _, _, hv⟩ := hd r.msg r.uid r.tid pid hmem
      simp only [accepts, Bool.and_eq_true, Bool.or_eq_true, decide_eq_true_eq, bne_iff_ne, ne_eq] at hacc
      simp only [validUnit, List.contains_cons, List.contains_nil, Bool.or_false, Bool.false_or, Bool.or_eq_true,
        beq_iff_eq] at hv
      obtain ⟨hfc, htid⟩ := hacc
      simp only [TxnSpec.answers, TxnSpec.sameFunction, Bool.and_eq_true, Bool.or_eq_true, decide_eq_true_eq]
      refine ⟨hfc, ?_⟩
      cases hf : cfg.framer <;> simp only [framing, Bool.or_eq_true, decide_eq_true_eq]
      · rcases htid with h1 | h1
        · exact absurd hf h1
        · exact h1
      all_goals
        rcases hv with (h0 | h255) | hu
        · exact Or.inl (Or.inl h0.symm)
        · exact Or.inl (Or.inr h255.symm)
        · exact Or.inr hu

/-- **a reply that belongs to another transaction, unit or function is never passed off as the answer** -/
theorem stale_never_returned (cfg : Cfg) (st : State) (net : Net) (req : Request) (r : Reply)
    (hp : st.pending = [])
    (hstale : (cfg.framer = .tcp ∧ r.tid ≠ nextTid st) ∨
      (r.msg.fc ≠ req.pdu.fc ∧ r.msg.fc ≠ req.pdu.fc ||| 0x80) ∨
      (cfg.framer ≠ .tcp ∧ req.unit ≠ 0 ∧ req.unit ≠ 255 ∧ r.uid ≠ req.unit)) :
    (execute cfg st net req).result ≠ .reply r := by
  intro h
  have ha := (returned_reply_answers_request cfg st net req r hp h).1
  simp only [TxnSpec.answers, TxnSpec.sameFunction, Bool.and_eq_true, Bool.or_eq_true, decide_eq_true_eq] at ha
  obtain ⟨hfc, hid⟩ := ha
  rcases hstale with ⟨hf, ht⟩ | ⟨h1, h2⟩ | ⟨hf, h0, h255, hu⟩
  · rw [hf] at hid; simp only [framing, decide_eq_true_eq] at hid; exact ht hid
  · rcases hfc with h | h
    · exact h1 h
    · exact h2 h
  · cases hk : cfg.framer <;> rw [hk] at hid hf <;> simp only [framing, Bool.or_eq_true, decide_eq_true_eq] at hid
    · exact hf rfl
    all_goals
      rcases hid with (h | h) | h
      · exact h0 h
      · exact h255 h
      · exact hu h

/-! ### the conformant reply is returned, decoded, with the values the server sent -/

/-- generic form: nothing of an earlier exchange can reach the reads of this call (`ReadyToSend`: the serial client
    flushed, the TCP client drained, the connection was closed, or nothing was pending), the peer answers the
    transmission with the conformant reply `X` (whatever arrives later): the call returns its decoding `r` -/
theorem conformant_reply_returned (cfg : Cfg) (st : State) (net : Net) (req : Request) (X : Bytes) (r : Reply)
    (late : List Bytes) (rest : List Reaction)
    (hp : st.pending = []) (henc : C13.Encodable cfg st req) (hbc : isBroadcast cfg req = false)
    (hready : ReadyToSend cfg.transport net) (hs : net.script = answersWith X late :: rest)
    (hc : Conformant cfg req (nextTid st) X r) :
    (execute cfg st net req).result = .reply r := by
  obtain ⟨packet, hb⟩ := henc
  exact (execute_honoured cfg st net req packet X r late [] rest hp hb hbc hready hs (fun _ h => by cases h)
    (Nat.zero_le _) hc).1

/-- MBAP framing (ModbusTcpClient / ModbusUdpClient with the socket framer): every response of C01's `WFResp`
    (data access, diagnostics, the other function codes) and every exception response, any unit / transaction id:
    the value returned is the value sent (`normResp`: bit lists padded to whole bytes, as the wire carries them) -/
theorem conformant_reply_returned_tcp (cfg : Cfg) (st : State) (net : Net) (req : Request) (m : Resp) (data : Bytes)
    (late : List Bytes) (rest : List Reaction)
    (hf : cfg.framer = .tcp) (hw : C01.WFResp m) (he : Impl.encResp m = .ok data)
    (hfc : m.fc = req.pdu.fc ∨ m.fc = req.pdu.fc ||| 0x80) (hexc : 128 ≤ m.fc → data.length = 1)
    (hlen : data.length + 2 < 65536) (hudp : cfg.transport = .udp → 8 + data.length ≤ 1024)
    (hp : st.pending = []) (henc : C13.Encodable cfg st req) (hbc : isBroadcast cfg req = false)
    (hready : ReadyToSend cfg.transport net)
    (hs : net.script = answersWith (tcpFrame (nextTid st) 0 req.unit m.fc data) late :: rest) :
    (execute cfg st net req).result = .reply ⟨PduSpec.normResp m, req.unit, nextTid st⟩ :=
  conformant_reply_returned cfg st net req _ _ late rest hp henc hbc hready hs
    (tcp_conformant cfg req (nextTid st) m data hf hw he hfc hexc hlen hudp)

/-- RTU framing; `ExpectedOk`: the size predicted from the request is the size of the reply (C14), `RtuSized`: the
    client-side length oracle is exact for the frame (C03.rtu_oracle_exact_resp: data-access and exception replies) -/
theorem conformant_reply_returned_rtu (cfg : Cfg) (st : State) (net : Net) (req : Request) (m : Resp) (data : Bytes)
    (late : List Bytes) (rest : List Reaction)
    (hf : cfg.framer = .rtu) (hw : C01.WFResp m) (he : Impl.encResp m = .ok data)
    (hfc : m.fc = req.pdu.fc ∨ m.fc = req.pdu.fc ||| 0x80) (hexc : 128 ≤ m.fc → data.length = 1)
    (hsized : RtuSized rtuRuleClient (rtuFrame req.unit m.fc data))
    (hexp : ExpectedOk cfg req m.fc (data.length + 4))
    (hp : st.pending = []) (henc : C13.Encodable cfg st req) (hbc : isBroadcast cfg req = false)
    (hready : ReadyToSend cfg.transport net)
    (hs : net.script = answersWith (rtuFrame req.unit m.fc data) late :: rest) :
    (execute cfg st net req).result = .reply ⟨PduSpec.normResp m, req.unit, req.unit⟩ :=
  conformant_reply_returned cfg st net req _ _ late rest hp henc hbc hready hs
    (rtu_conformant cfg req (nextTid st) m data hf hw he hfc hexc hsized hexp)

theorem conformant_reply_returned_ascii (cfg : Cfg) (st : State) (net : Net) (req : Request) (m : Resp) (data : Bytes)
    (late : List Bytes) (rest : List Reaction)
    (hf : cfg.framer = .ascii) (hw : C01.WFResp m) (he : Impl.encResp m = .ok data)
    (hfc : m.fc = req.pdu.fc ∨ m.fc = req.pdu.fc ||| 0x80) (hexc : 128 ≤ m.fc → data.length = 1)
    (hu : req.unit < 256) (hfcb : m.fc < 256) (hd : Bytes.WF data)
    (hexp : ExpectedOk cfg req m.fc (2 * data.length + 9))
    (hp : st.pending = []) (henc : C13.Encodable cfg st req) (hbc : isBroadcast cfg req = false)
    (hready : ReadyToSend cfg.transport net)
    (hs : net.script = answersWith (asciiFrame req.unit m.fc data) late :: rest) :
    (execute cfg st net req).result = .reply ⟨PduSpec.normResp m, req.unit, 0⟩ :=
  conformant_reply_returned cfg st net req _ _ late rest hp henc hbc hready hs
    (ascii_conformant cfg req (nextTid st) m data hf hw he hfc hexc hu hfcb hd hexp)

/-- binary framing, frames without a delimiter byte inside (known finding binary-framer-escaping of C03) -/
theorem conformant_reply_returned_binary (cfg : Cfg) (st : State) (net : Net) (req : Request) (m : Resp) (data : Bytes)
    (late : List Bytes) (rest : List Reaction)
    (hf : cfg.framer = .binary) (hw : C01.WFResp m) (he : Impl.encResp m = .ok data)
    (hfc : m.fc = req.pdu.fc ∨ m.fc = req.pdu.fc ||| 0x80) (hexc : 128 ≤ m.fc → data.length = 1)
    (hnd : NoEnd (binBody req.unit m.fc data))
    (hexp : ExpectedOk cfg req m.fc (data.length + 6))
    (hp : st.pending = []) (henc : C13.Encodable cfg st req) (hbc : isBroadcast cfg req = false)
    (hready : ReadyToSend cfg.transport net)
    (hs : net.script = answersWith (binFrame req.unit m.fc data) late :: rest) :
    (execute cfg st net req).result = .reply ⟨PduSpec.normResp m, req.unit, 0⟩ :=
  conformant_reply_returned cfg st net req _ _ late rest hp henc hbc hready hs
    (binary_conformant cfg req (nextTid st) m data hf hw he hfc hexc hnd hexp)

/-- stale input of ANY content that arrived before the request was written does not matter on the serial and TCP
    clients (flush / drain): the reply is returned all the same -/
theorem stale_input_before_write_is_discarded (cfg : Cfg) (st : State) (net : Net) (req : Request) (X : Bytes)
    (r : Reply) (late : List Bytes) (rest : List Reaction) (stale : Bytes) (staleLate : List Bytes)
    (ht : cfg.transport ≠ .udp) (hm : net.mode ≠ .oserror)
    (hsz : (stale ++ staleLate.flatten).length ≤ 65536)
    (hp : st.pending = []) (henc : C13.Encodable cfg st req) (hbc : isBroadcast cfg req = false)
    (hs : net.script = answersWith X late :: rest) (hc : Conformant cfg req (nextTid st) X r) :
    (execute cfg st { net with inbuf := stale, late := staleLate } req).result = .reply r := by
  refine conformant_reply_returned cfg st _ req X r late rest hp henc hbc ?_ hs hc
  cases htt : cfg.transport with
  | udp => exact absurd htt ht
  | tcp => exact ready_tcp _ hm hsz
  | serial => exact ready_serial _ hm

/-! ### transaction ids -/

/-- every call takes the next transaction id, whatever happens during it (retries re-send the same id) -/
theorem tid_step (cfg : Cfg) (st : State) (net : Net) (req : Request) (hp : st.pending = []) :
    (execute cfg st net req).st.tid = TxnSpec.nthTid st.tid 1 := by
  cases hb : buildPacket cfg.framer req.unit (nextTid st) req.pdu with
  | error e => rw [execute_build_error cfg st net req e hb]; rfl
  | ok packet => exact (execute_outcome cfg st net req packet hp hb).1

/-- **the ids issued are tid₀+1, tid₀+2, … modulo 65536** (1, 2, …, 65535, 0, 1, … for a fresh client): the
    state after the n-th call of any history carries `nthTid tid₀ n` -/
theorem tid_sequence (cfg : Cfg) (calls : List (Request × List Reaction)) (st : State) (net : Net)
    (hp : st.pending = []) (k : Nat) (o : Outcome) (ho : (runCalls cfg st net calls)[k]? = some o) :
    o.st.tid = TxnSpec.nthTid st.tid (k + 1) := by
  induction calls generalizing st net k with
  | nil => simp [runCalls] at ho
  | cons c cs ih =>
    simp only [runCalls] at ho
    cases k with
    | zero =>
      simp only [List.getElem?_cons_zero, Option.some.injEq] at ho
      rw [← ho]; exact tid_step cfg st _ c.1 hp
    | succ k =>
      simp only [List.getElem?_cons_succ] at ho
      have := ih _ _ (C13.pending_stays_empty cfg st _ c.1 hp) k ho
      rw [this, tid_step cfg st _ c.1 hp]
      simp only [TxnSpec.nthTid]
      omega

/-- wrap-around: the call after id 65535 uses id 0 -/
theorem tid_wraps : TxnSpec.nthTid 65535 1 = 0 ∧ TxnSpec.nthTid 65534 3 = 1 := by decide

/-- on the MBAP framing every frame the call writes carries the call's transaction id in its first two bytes -/
theorem wire_tid (cfg : Cfg) (st : State) (net : Net) (req : Request) (hf : cfg.framer = .tcp)
    (w : Bytes) (hw : w ∈ (execute cfg st net req).net.writes) (hnew : w ∉ net.writes) :
    be16at w 0 = nextTid st := by
  cases hb : buildPacket cfg.framer req.unit (nextTid st) req.pdu with
  | error e => rw [execute_net_of_error cfg st net req e hb] at hw; exact absurd hw hnew
  | ok packet =>
    obtain ⟨k, _, hk⟩ := C13.frames_written cfg st net req packet hb
    rw [hk, List.mem_append] at hw
    rcases hw with hw | hw
    · exact absurd hw hnew
    · have hwp : w = packet := (List.mem_replicate.1 hw).2
      subst hwp
      rw [hf] at hb
      simp only [buildPacket] at hb
      cases henc : Impl.encReq req.pdu with
      | error e => rw [henc] at hb; cases hb
      | ok data =>
        rw [henc] at hb
        simp only [tcpBuild] at hb
        split at hb
        · next hcond =>
          injection hb with hb
          rw [← hb]
          have : nextTid st < 65536 := hcond.1
          simp [be16at]; omega
        · cases hb

/-! ### history independence -/

/-- the outcome of a call depends on the earlier history of the client only through the transaction id counter, the
    list of units known as silent and (trivially, it is empty) the transaction table — and on the state variable only
    in that an unencodable request leaves it untouched -/
theorem history_independent (cfg : Cfg) (st st' : State) (net : Net) (req : Request)
    (h1 : st'.tid = st.tid) (h2 : st'.noResp = st.noResp) (h3 : st'.pending = st.pending)
    (henc : C13.Encodable cfg st req) :
    (execute cfg st' net req).result = (execute cfg st net req).result ∧
    (execute cfg st' net req).net = (execute cfg st net req).net ∧
    (execute cfg st' net req).st = (execute cfg st net req).st := by
  have hcore : execute cfg st' net req = execute cfg { st with cstate := st'.cstate } net req :=
    execute_core cfg _ st' net req h1 h2 h3 rfl
  obtain ⟨packet, hb⟩ := henc
  rw [hcore, execute_cstate cfg st net req st'.cstate packet hb]
  exact ⟨rfl, rfl, rfl⟩

/-! ### the hypotheses are satisfiable -/

section Examples
open C13

def rtuCfg : Cfg :=
  { framer := .rtu, transport := .serial, retries := 0, retryOnEmpty := false, retryOnInvalid := false, broadcastEnable := false }

example : (execute cexCfg {} { cexNet with dgrams := [] } cexReq).result = .reply ⟨.readHolding [7], 1, 1⟩ ∧
    TxnSpec.answers .mbap 1 1 3 3 1 1 = true := by constructor <;> decide
/-- a stale frame (transaction 9) instead of the reply: error object, not the stale frame -/
example : (execute { cexCfg with transport := .tcp } {} { script := [answersWith cexStale []] } cexReq).result
    = .errorObject := by decide
/-- a reply with another function code (read coils) to a read-holding request on RTU: error object -/
example : (execute rtuCfg {} { script := [answersWith (rtuFrame 1 1 [1, 5]) []] } ⟨1, .readHolding 0 1⟩).result
    = .errorObject := by decide
/-- stale bytes pending on a TCP connection are drained, the reply is returned -/
example : (execute { cexCfg with transport := .tcp } {}
    { inbuf := cexStale, script := [answersWith cexGood []] } cexReq).result
    = .reply ⟨.readHolding [7], 1, 1⟩ := by decide
example : ReadyToSend .serial { inbuf := [1, 2, 3], late := [[9]] } := ready_serial _ (by simp)
example : ExpectedOk rtuCfg ⟨1, .readHolding 0 1⟩ 3 (3 + 4) := by
  intro e he
  have : expectedLen rtuCfg (.readHolding 0 1) = some 7 := by decide
  rw [this] at he
  injection he with he
  exact Or.inl he.symm
example : RtuSized rtuRuleClient (rtuFrame 1 3 (PduSpec.encResp (.readHolding [7]))) :=
  C03.rtu_oracle_exact_resp (.readHolding [7]) (by simp [C01.WFResp, PduSpec.AllU16]) 1 trivial

end Examples


/-- tie to the source: the per-framing constants of the transaction manager read from /repo on this run — base ADU
    size and exception ADU length (introspected on a stub client per framer) and the minimum first read of `_recv`
    (literals in the method body, read by ast) — are the model's, and `Defaults.ReadSize` is the 1024 of
    `expectedLen` -/
theorem generated_txn_sizes :
    Generated.txnSizes = [("tcp", Txn.baseAdu .tcp, Txn.excLen .tcp, Txn.minSize .tcp),
      ("rtu", Txn.baseAdu .rtu, Txn.excLen .rtu, Txn.minSize .rtu),
      ("ascii", Txn.baseAdu .ascii, Txn.excLen .ascii, Txn.minSize .ascii),
      ("binary", Txn.baseAdu .binary, Txn.excLen .binary, Txn.minSize .binary)] ∧
    Generated.defaultReadSize = 1024 := by
  constructor <;> rfl

end Pymodbus.Props.C08
