/-
  C20 — Device identification is returned completely, in pages that fit.
  Property theorems only; helper lemmas live in Pymodbus/Lemmas/DevId.lean.

  Model: Pymodbus/Model/DevId.lean (`step` = one request/response exchange through
  ServerDecoder → execute → encode → ClientDecoder; `chain` = the client loop with a step cap).
  Spec:  Pymodbus/Spec/DevIdSpec.lean (`expected`, `StartOK`, `chainOK`).
-/
import Pymodbus.Lemmas.DevId
import Pymodbus.Spec.DevIdSpec
import Pymodbus.Generated.Tables
namespace Pymodbus.Props.C20
open Pymodbus Pymodbus.DevId Pymodbus.DevIdSpec

/-! ### size bound: every identity, every request -/

/-- Whatever the identity holds and whatever request bytes arrive, a response PDU produced by the
    server (function code included) is at most 253 bytes long. -/
theorem serve_bound (d : Ident) (req : Bytes) (d' : Ident) (p : Page)
    (h : serve d req = .ok (d', p)) : p.pdu.length ≤ maxPdu := by
  simp only [serve, bind, Except.bind] at h
  cases h1 : serverDecode req with
  | error e => simp [h1] at h
  | ok v =>
    obtain ⟨sub, rc, oid⟩ := v
    simp only [h1] at h
    cases h2 : execute d rc oid with
    | error e => simp [h2] at h
    | ok w =>
      obtain ⟨d1, out⟩ := w
      simp only [h2] at h
      cases out with
      | exception code =>
        simp only [Except.ok.injEq, Prod.mk.injEq] at h
        rw [← h.2]; simp [maxPdu]
      | resp r =>
        simp only at h
        cases h3 : r.encode with
        | error e => simp [h3] at h
        | ok x =>
          obtain ⟨r', body⟩ := x
          simp only [h3, Except.ok.injEq, Prod.mk.injEq] at h
          have := encode_bound r r' body h3
          rw [← h.2]; simp [maxPdu]; omega

/-- `pdu_bound`: for ALL identities (any keys, any value lengths), all read codes and object ids,
    the encoded response PDU of an exchange is ≤ 253 bytes. -/
theorem pdu_bound (d : Ident) (rc oid : Nat) (d' : Ident) (p : Page)
    (h : step d rc oid = .ok (d', p)) : p.pdu.length ≤ 253 := by
  simp only [step, bind, Except.bind] at h
  cases h1 : requestPdu rc oid with
  | error e => simp [h1] at h
  | ok req => simp only [h1] at h; exact serve_bound d req d' p h

/-- For read codes 1..4 and object ids 0..255 the exchange always succeeds with an information
    response (no Python exception, no Modbus exception), and the identity is observably unchanged
    (`identity[k]` only ever adds empty entries). -/
theorem exchange_total (d : Ident) (rc oid : Nat) (h1 : 1 ≤ rc) (h4 : rc ≤ 4) (ho : oid ≤ 255) :
    ∃ d' p, step d rc oid = .ok (d', p) ∧ p.exc = none ∧ val d' = val d ∧ p.pdu.length ≤ 253 := by
  obtain ⟨d', p, hs, hv, he, _⟩ := step_spec d rc oid h1 h4 ho
  exact ⟨d', p, hs, he, funext hv, pdu_bound d rc oid d' p hs⟩

/-! ### progress -/

/-- `page_progress`: if every value fits alone on a page (≤ 244 bytes), every page that says
    "more follows" carries at least one object and its next-object id is greater than every
    object id on the page (in particular than the last one sent). Any start id. -/
theorem page_progress (d : Ident) (rc oid : Nat) (h1 : 1 ≤ rc) (h4 : rc ≤ 4) (ho : oid ≤ 255)
    (hfit : ∀ k, (val d k).length ≤ 244) (d' : Ident) (p : Page) (nxt : Nat)
    (hs : step d rc oid = .ok (d', p)) (hc : p.continuation = some nxt) :
    p.objects ≠ [] ∧ ∀ o ∈ p.objects, o.1 < nxt :=
  step_progress d rc oid h1 h4 ho hfit d' p nxt hs hc

/-! ### the whole chain -/

/-- `chain_complete`: every value ≤ 244 bytes, read code 1..3, a start id in the property's scope
    (0, or a configured object of the category).  A client that follows the chain (with a step cap
    of at least max(1, #objects)) makes at most max(1, #objects) requests; the chain ends by
    itself with a page that does not say "more follows"; every PDU is ≤ 253 bytes; and the pages
    concatenated are exactly the configured non-empty objects of the category from the start id
    on — each once, in id order, exact values. -/
theorem chain_complete (d : Ident) (rc start fuel : Nat) (h1 : 1 ≤ rc) (h3 : rc ≤ 3)
    (hstart : start ≤ 255) (hfit : ∀ k, (val d k).length ≤ 244)
    (hok : StartOK (val d) rc start)
    (hfuel : max 1 (expected (val d) rc start).length ≤ fuel) :
    ∃ d' ps, chain fuel d rc start = .ok (d', ps) ∧ val d' = val d ∧
      ps.length ≤ max 1 (expected (val d) rc start).length ∧
      chainOK (ps.map viewOf) (expected (val d) rc start) = true := by
  have e := infoOf_start_ok (val d) rc start h1 h3 hok
  obtain ⟨d', ps, hc, hv, hl, hm, hp, ho⟩ :=
    chain_spec (val d) rc h1 h3 hfit fuel d start rfl hstart (by rw [e]; exact hfuel)
  rw [e] at hl ho
  exact ⟨d', ps, hc, hv, hl, chainOK_intro ps _ hm hp ho⟩

/-- For ANY start id 0..255 (also ids outside the property's scope) the chain terminates within
    max(1, #objects) requests, every PDU ≤ 253 bytes; what is delivered is the object list from the
    start id the server effectively used (Regular/Extended restart at 0 when the requested object
    is empty). -/
theorem chain_terminates (d : Ident) (rc start fuel : Nat) (h1 : 1 ≤ rc) (h3 : rc ≤ 3)
    (hstart : start ≤ 255) (hfit : ∀ k, (val d k).length ≤ 244)
    (hfuel : max 1 (expected (val d) rc (effStart (val d) rc start)).length ≤ fuel) :
    ∃ d' ps, chain fuel d rc start = .ok (d', ps) ∧ val d' = val d ∧
      chainBoundedOK (ps.map viewOf) = true ∧
      chainOK (ps.map viewOf) (expected (val d) rc (effStart (val d) rc start)) = true := by
  have e := infoOf_eq_expected (val d) rc start h1 h3
  obtain ⟨d', ps, hc, hv, hl, hm, hp, ho⟩ :=
    chain_spec (val d) rc h1 h3 hfit fuel d start rfl hstart (by rw [e]; exact hfuel)
  rw [e] at ho
  have hck := chainOK_intro ps _ hm hp ho
  refine ⟨d', ps, hc, hv, ?_, hck⟩
  simp only [chainOK, Bool.and_eq_true] at hck
  simp only [chainBoundedOK, Bool.and_eq_true]
  exact hck.1

/-- `individual_access` (read code 4): the answer is one page, not "more follows", ≤ 253 bytes,
    carrying exactly the requested object with its exact value (for any id 0..255, value ≤ 244
    bytes; an unconfigured object is returned with the empty value). -/
theorem individual_access (d : Ident) (oid fuel : Nat) (ho : oid ≤ 255)
    (hfit : (val d oid).length ≤ 244) (hfuel : 1 ≤ fuel) :
    ∃ d' p, chain fuel d 4 oid = .ok (d', [p]) ∧ val d' = val d ∧
      chainOK [viewOf p] (expectedIndividual (val d) oid) = true := by
  obtain ⟨d', p, hs, hv, _, hobj, hcont, hlen, _⟩ := step_spec d 4 oid (by omega) (by omega) ho
  have hinfo : infoOf (val d) 4 oid = [(oid, val d oid)] := by simp [infoOf]
  obtain ⟨hsent, hrest⟩ := sent_single_fit 247 (oid, val d oid) (by simp [osize]; omega)
  rw [hinfo, hsent] at hobj hlen
  rw [hinfo, hrest] at hcont
  simp only [List.head?_nil, Option.map_none] at hcont
  obtain ⟨n, rfl⟩ : ∃ n, fuel = n + 1 := ⟨fuel - 1, by omega⟩
  refine ⟨d', p, by simp only [chain, hs, hcont], funext hv, ?_⟩
  have := chainOK_intro [p] (expectedIndividual (val d) oid)
    (by simp [moreFlagsOK, viewOf, hcont])
    (by intro q hq; simp at hq; rw [hq, hlen]; simp [encObjs]; omega)
    (by simp [hobj, expectedIndividual])
  simpa using this

/-! ### the full statement (values up to 245 bytes) fails -/

/-- The property as stated, values of length 0..245. -/
def C20_full : Prop :=
  ∀ (d : Ident) (rc start : Nat), 1 ≤ rc → rc ≤ 3 → start ≤ 255 →
    (∀ k, (val d k).length ≤ 245) → StartOK (val d) rc start →
    ∃ fuel d' ps, chain fuel d rc start = .ok (d', ps) ∧
      chainOK (ps.map viewOf) (expected (val d) rc start) = true

/-- What is proved instead: the same with every value ≤ 244 bytes. -/
theorem C20_partial (d : Ident) (rc start : Nat) (h1 : 1 ≤ rc) (h3 : rc ≤ 3) (hs : start ≤ 255)
    (hfit : ∀ k, (val d k).length ≤ 244) (hok : StartOK (val d) rc start) :
    ∃ fuel d' ps, chain fuel d rc start = .ok (d', ps) ∧
      chainOK (ps.map viewOf) (expected (val d) rc start) = true := by
  obtain ⟨d', ps, hc, _, _, hk⟩ := chain_complete d rc start _ h1 h3 hs hfit hok (Nat.le_refl _)
  exact ⟨_, d', ps, hc, hk⟩

/-- `chain_245_counterexample` (general form): if the requested object (of the category, or any
    object for individual access) is 245 bytes or longer, then for every step cap the client makes
    that many requests and every single page is empty and says "more follows, next = the same id":
    the object is never delivered and the chain never ends by itself. -/
theorem chain_245_counterexample (d : Ident) (rc oid fuel : Nat) (h1 : 1 ≤ rc) (h4 : rc ≤ 4)
    (ho : oid ≤ 255) (hcat : rc ≤ 3 → inCategory rc oid = true)
    (hbig : 245 ≤ (val d oid).length) :
    ∃ d' ps, chain fuel d rc oid = .ok (d', ps) ∧ ps.length = fuel ∧
      (∀ p ∈ ps, p.objects = [] ∧ p.continuation = some oid) ∧
      chainBoundedOK (ps.map viewOf) = false := by
  obtain ⟨d', ps, hc, hl, hall⟩ := chain_stuck rc oid h1 h4 ho hcat fuel d hbig
  refine ⟨d', ps, hc, hl, hall, ?_⟩
  have : moreFlagsOK (ps.map viewOf) = false := by
    apply moreFlagsOK_all_more
    intro v hv
    simp only [List.mem_map] at hv
    obtain ⟨p, hp, rfl⟩ := hv
    simp [viewOf, (hall p hp).2]
  simp [chainBoundedOK, this]

/-- the witness identity: only VendorName (object 0) configured, 245 bytes of `'a'` -/
def witness245 : Ident := [(0, List.replicate 245 97)]

theorem witness245_val0 : val witness245 0 = List.replicate 245 97 := rfl

theorem witness245_in_scope :
    (∀ k, (val witness245 k).length ≤ 245) ∧ StartOK (val witness245) 1 0 := by
  refine ⟨?_, Or.inl rfl⟩
  intro k
  have : val witness245 k = if 0 = k then List.replicate 245 97 else [] := by
    simp only [val, witness245, lookup]; split <;> rfl
  rw [this]
  split
  · rw [List.length_replicate]; omega
  · exact Nat.zero_le _

/-- The full statement is false: `witness245`, read code 1 (basic), start id 0. -/
theorem C20_counterexample : ¬ C20_full := by
  intro h
  obtain ⟨fuel, d', ps, hc, hk⟩ :=
    h witness245 1 0 (by omega) (by omega) (by omega) witness245_in_scope.1 witness245_in_scope.2
  obtain ⟨d'', ps', hc', _, _, hb⟩ := chain_245_counterexample witness245 1 0 fuel (by omega)
    (by omega) (by omega) (fun _ => by decide) (by rw [witness245_val0, List.length_replicate]; omega)
  rw [hc] at hc'
  simp only [Except.ok.injEq, Prod.mk.injEq] at hc'
  rw [← hc'.2] at hb
  simp only [chainOK, Bool.and_eq_true] at hk
  simp only [chainBoundedOK, Bool.and_eq_false_iff] at hb
  rcases hb with hb | hb
  · rw [hb] at hk; exact absurd hk.1.1 (by simp)
  · rw [hb] at hk; exact absurd hk.1.2 (by simp)

/-! ### ties to the source, non-vacuity -/

/-- The constants read from the imported pymodbus on this run are the model's. -/
theorem generated_devid_constants :
    Generated.devInfoCodes = [1, 2, 3, 4] ∧ Generated.moreDataNothing = 0 ∧
    Generated.moreDataKeepReading = 0xFF ∧ Generated.meiFunctionCode = 0x2B ∧
    Generated.meiSubFunctionCode = 0x0E := by decide

/-- a small identity: three basic objects, one regular, one extended -/
def sampleIdent : Ident :=
  [(0, [80, 121]), (1, [80, 77]), (2, [50, 46, 52]), (3, []), (5, [77]), (0x80, [1, 2, 3])]

example : (∀ k, (val sampleIdent k).length ≤ 244) := by
  intro k
  simp only [val, sampleIdent, lookup]
  repeat' split
  all_goals simp

example : StartOK (val sampleIdent) 3 5 ∧ StartOK (val sampleIdent) 2 0 ∧
    ¬ StartOK (val sampleIdent) 2 3 ∧ ¬ StartOK (val sampleIdent) 1 5 := by decide

example : (expected (val sampleIdent) 3 2).map (·.1) = [2, 5, 0x80] := by decide

end Pymodbus.Props.C20
