/-
  C10 — Requests act only on the addressed unit; broadcast acts on all.
-/
import Pymodbus.Props.C09
import Pymodbus.Generated.Tables
import Pymodbus.Lemmas.FramerSteps
namespace Pymodbus.Props.C10
open Pymodbus Pymodbus.Server RegisterFile Pymodbus.Framer

def bcast (cfg : Cfg) (uid : Nat) : Bool := cfg.broadcast && hasBroadcast cfg.frontend && uid == 0

/-- an ordinary (non-broadcast) request leaves every unit other than the addressed one untouched -/
theorem addressed_unit_only (cfg : Cfg) (w : World) (r : Req) (uid : Nat) (hb : bcast cfg uid = false) (v : Int)
    (hv : v ≠ (if w.units.single then 0 else (uid : Int))) :
    ServerCtx.lookup (callback cfg w r uid).1.units.slaves v = ServerCtx.lookup w.units.slaves v := by
  unfold callback
  have hb' : (cfg.broadcast && hasBroadcast cfg.frontend && uid == 0) = false := hb
  rw [if_neg (by simp [hb'])]
  cases hg : w.units.getItem uid with
  | error e => simp only []; split <;> rfl
  | ok s =>
    simp only []
    rw [C18.lookup_insert]
    rw [if_neg hv]

/-- a request for a unit the server does not host changes nothing (no table, no control state) and is answered
    not at all or with a gateway exception -/
theorem unhosted_unit (cfg : Cfg) (w : World) (r : Req) (uid : Nat) (hb : bcast cfg uid = false)
    (hmiss : ∀ s, w.units.getItem uid ≠ .ok s) :
    (callback cfg w r uid).1 = w ∧
    ((callback cfg w r uid).2 = none ∨ (callback cfg w r uid).2 = some (.exception r.fc excGatewayNoResponse)) := by
  unfold callback
  have hb' : (cfg.broadcast && hasBroadcast cfg.frontend && uid == 0) = false := hb
  rw [if_neg (by simp [hb'])]
  cases hg : w.units.getItem uid with
  | error e => simp only []; split <;> simp
  | ok s => exact absurd hg (hmiss s)

/-- the unit a hosted request is executed on receives exactly the effect of executing the request on it -/
theorem addressed_unit_executed (cfg : Cfg) (w : World) (r : Req) (uid : Nat) (hb : bcast cfg uid = false)
    (s : SlaveCtx) (hs : w.units.getItem uid = .ok s) :
    ServerCtx.lookup (callback cfg w r uid).1.units.slaves (if w.units.single then 0 else (uid : Int)) =
      some (execAny w.ctl s r).2.1 ∧
    (callback cfg w r uid).2 = some (execAny w.ctl s r).2.2 := by
  unfold callback
  have hb' : (cfg.broadcast && hasBroadcast cfg.frontend && uid == 0) = false := hb
  rw [if_neg (by simp [hb'])]
  simp only [hs]
  rw [C18.lookup_insert]
  simp

/-- … which for the data-access requests is the register-file execution of C04/C05 -/
theorem addressed_unit_executed_dataAccess (ctl : Control) (s : SlaveCtx) (r : Req) (h : isDataAccess r = true) :
    (execAny ctl s r).2.1 = (Impl.serverExecute s r).1 ∧ (execAny ctl s r).2.2 = (Impl.serverExecute s r).2 := by
  rw [C09.execAny_dataAccess ctl s r h]; exact ⟨rfl, rfl⟩

/-- the requests that are not data-access requests (diagnostics, identification, file records, FIFO) never change
    any unit's tables -/
theorem other_requests_leave_tables (ctl : Control) (s : SlaveCtx) (r : Req) (h : isDataAccess r = false) :
    (execAny ctl s r).2.1 = s := by
  unfold execAny execRaw
  rw [if_neg (by simp [h])]
  cases Impl.executeOther ctl r <;> rfl

/-- a broadcast write is applied once to every hosted unit (datastores that do not fail) and produces no response -/
theorem broadcast_once (r : Req) (hd : isDataAccess r = true) (ctl : Control) (l : List (Int × SlaveCtx))
    (hok : ∀ kv ∈ l, ∃ x, Impl.execute kv.2 r = .ok x) :
    broadcastAll r ctl l = (ctl, l.map (fun kv => (kv.1, (Impl.serverExecute kv.2 r).1))) := by
  induction l with
  | nil => rfl
  | cons kv rest ih =>
    obtain ⟨k, s⟩ := kv
    obtain ⟨x, hx⟩ := hok (k, s) (by simp)
    have hrest : ∀ kv ∈ rest, ∃ x, Impl.execute kv.2 r = .ok x := fun kv hkv => hok kv (by simp [hkv])
    simp only [broadcastAll, execRaw, hd, if_true, hx, List.map_cons, ih hrest, Impl.serverExecute]

theorem broadcast_no_response (cfg : Cfg) (w : World) (r : Req) (uid : Nat) (hb : bcast cfg uid = true) :
    (callback cfg w r uid).2 = none ∧
    (callback cfg w r uid).1.units.slaves = (broadcastAll r w.ctl w.units.slaves).2 := by
  unfold callback
  have hb' : (cfg.broadcast && hasBroadcast cfg.frontend && uid == 0) = true := hb
  rw [if_pos hb']
  exact ⟨rfl, rfl⟩

/-- a broadcast frame is not filtered out before it reaches the callback: with broadcast enabled the receive path
    accepts unit 0 whether or not it is hosted -/
theorem broadcast_unit_accepted (cfg : Cfg) (ctx : Units) (hb : bcast cfg 0 = true) :
    0 ∈ acceptedUnits cfg ctx := by
  unfold bcast at hb
  unfold acceptedUnits
  have h1 : cfg.broadcast = true := by
    cases h : cfg.broadcast <;> simp [h] at hb ⊢
  have h2 : addsBroadcastUnit cfg.frontend = true := by
    cases h : cfg.frontend <;> simp [h, h1, hasBroadcast] at hb <;> rfl
  by_cases hc : (hosted ctx).contains 0 = true
  · simp only [h1, h2, hc, Bool.not_true, Bool.and_false, Bool.false_eq_true, if_false]
    simpa using hc
  · simp only [h1, h2, Bool.and_self, Bool.true_and, Bool.not_eq_true] at hc ⊢
    split <;> simp_all

/-- with broadcast disabled unit 0 is an ordinary address -/
theorem unit0_ordinary_without_broadcast (cfg : Cfg) (hb : cfg.broadcast = false) : bcast cfg 0 = false := by
  simp [bcast, hb]

/-- in single-context mode every unit id reaches the one context -/
theorem single_mode_any_unit (c : SlaveCtx) (uid : Nat) :
    (ServerCtx.mkSingle c).getItem uid = .ok c := C18.single_routes_all c uid

example : bcast ⟨.rtu, .syncSerial, false, true⟩ 0 = true ∧ bcast ⟨.rtu, .twistedTcp, false, true⟩ 0 = false := by decide


/-- tie to the source: the structure of the seven front-ends as read off the source files on this run (by ast: which
    receive methods append unit 0 when broadcast is enabled, what each catch-all does with an exception out of the
    receive call, who counts sent messages, who is gated by listen-only mode, that sending is gated by
    `should_respond` and that `execute` copies transaction id and unit id to the response) is the one the model encodes -/
theorem generated_server_structure :
    Generated.serverStructure = allFrontends.map (fun f =>
      (f.name, addsBroadcastUnit f, f.onErrorSrc, isTwisted f, isTwisted f, true, true)) := by rfl

/-! ### a noisy line: only a delivered request can change a unit -/

/-- can this event of a receive call touch the tables kept under key `v`?  Only a delivered request that is a broadcast or
    is addressed to `v` -/
def Touches (cfg : Cfg) (v : Int) : Ev Req → Prop
  | .deliver _ uid _ _ => bcast cfg uid = true ∨ v = (uid : Int)
  | .raised _ => False

theorem callback_single (cfg : Cfg) (w : World) (r : Req) (uid : Nat) :
    (callback cfg w r uid).1.units.single = w.units.single := by
  unfold callback
  split
  · rfl
  · split
    · split <;> rfl
    · rfl

theorem countMessage_units (cfg : Cfg) (w : World) : (countMessage cfg w).units = w.units := by
  unfold countMessage; split <;> rfl

/-- **whatever bytes arrive**: the tables of a hosted unit (multi-unit context) are changed by a receive call only through a
    DELIVERED request that addresses that unit or is a broadcast — everything else the receiver makes of the bytes (drops,
    waits, exceptions, requests for other units) leaves them as they were -/
theorem handleEvents_untouched (cfg : Cfg) (v : Int) (evs : List (Ev Req)) :
    ∀ (w : World), w.units.single = false → (∀ e ∈ evs, ¬ Touches cfg v e) →
    ServerCtx.lookup (handleEvents cfg w evs).1.units.slaves v = ServerCtx.lookup w.units.slaves v := by
  induction evs with
  | nil => intro w _ _; rfl
  | cons e rest ih =>
    intro w hs h
    cases e with
    | raised e => rfl
    | deliver r uid tid pid =>
      have he := h (.deliver r uid tid pid) (by simp)
      simp only [Touches, not_or] at he
      have hb : bcast cfg uid = false := by simpa using he.1
      have hv : v ≠ (if w.units.single then 0 else (uid : Int)) := by rw [hs]; simpa using he.2
      have hcb := addressed_unit_only cfg w r uid hb v hv
      have hs' : (callback cfg w r uid).1.units.single = false := by rw [callback_single, hs]
      have hrest : ∀ e ∈ rest, ¬ Touches cfg v e := fun e he => h e (by simp [he])
      simp only [handleEvents]
      cases hc : callback cfg w r uid with
      | mk w' resp =>
        rw [hc] at hcb hs'
        simp only at hcb hs' ⊢
        cases resp with
        | none => simp only []; rw [ih w' hs' hrest, hcb]
        | some rp =>
          simp only []
          split
          · rw [ih w' hs' hrest, hcb]
          · split
            · rw [countMessage_units]; exact hcb
            · have hs'' : (countMessage cfg w').units.single = false := by rw [countMessage_units]; exact hs'
              rw [ih _ hs'' hrest, countMessage_units]; exact hcb


theorem connStep_world (cfg : Cfg) (conn : Conn) (w : World) (chunk : Bytes) (htls : cfg.framer ≠ .tls) :
    (connStep cfg conn w chunk).2.1 = w ∨
    (connStep cfg conn w chunk).2.1 =
      (handleEvents cfg w (feed (stepFor cfg.framer) decServer (conn.snap.getD (acceptedUnits cfg w.units))
        w.units.single conn.buf chunk).1).1 := by
  unfold connStep
  split
  · left; rfl
  · split
    · left; rfl
    · right
      simp only []
      split <;> (try split) <;> rfl

/-- the same for one chunk arriving on a connection, whatever the chunk is and whatever the connection has buffered: if the
    receiver delivers nothing that addresses unit `v` (and no broadcast), the tables of `v` after the call are those before
    it.  With C07's `*_frame_valid` (a delivery is backed by a valid frame carrying that unit id) this is the noisy-line
    clause: a unit changes only if a complete valid frame in the received bytes addresses it. -/
theorem connStep_untouched (cfg : Cfg) (conn : Conn) (w : World) (chunk : Bytes) (v : Int)
    (hs : w.units.single = false) (htls : cfg.framer ≠ .tls)
    (h : ∀ e ∈ (feed (stepFor cfg.framer) decServer (conn.snap.getD (acceptedUnits cfg w.units))
        w.units.single conn.buf chunk).1, ¬ Touches cfg v e) :
    ServerCtx.lookup (connStep cfg conn w chunk).2.1.units.slaves v = ServerCtx.lookup w.units.slaves v := by
  rcases connStep_world cfg conn w chunk htls with h1 | h1
  · rw [h1]
  · rw [h1]; exact handleEvents_untouched cfg v _ w hs h

/-- Non-vacuity (the noisy line of seeded change C10-13, ASCII, units 1 and 2): a complete write to unit 2 is delivered as a
    request for unit 2 — an event that does not touch unit 1; and the same frame arriving behind `:0106`, the head of a frame
    for unit 1 cut before its end, delivers nothing at all (the receiver drops both): in either case `connStep_untouched`
    applies to unit 1. -/
example :
    (feed (stepFor .ascii) decServer [1, 2] false [] (asciiFrame 2 6 [0, 1, 0x12, 0x34])).1 =
      [.deliver (.writeRegister 1 0x1234) 2 0 0] ∧
    ¬ Touches ⟨.ascii, .syncSerial, false, false⟩ 1 (.deliver (.writeRegister 1 0x1234) 2 0 0) ∧
    (feed (stepFor .ascii) decServer [1, 2] false [58, 48, 49, 48, 54] (asciiFrame 2 6 [0, 1, 0x12, 0x34])).1 = [] := by
  refine ⟨by rfl, ?_, by rfl⟩
  simp [Touches, bcast]

/-! ### units registered while the server runs -/

theorem insert_keys_mem (l : List (Int × σ)) (k : Int) (v : σ) : k ∈ (ServerCtx.insert l k v).map (·.1) := by
  induction l with
  | nil => simp [ServerCtx.insert]
  | cons kv r ih =>
    obtain ⟨k0, v0⟩ := kv
    simp only [ServerCtx.insert]
    split
    · rename_i h; simp [h]
    · simp only [List.map_cons, List.mem_cons]; right; exact ih

/-- a unit registered while the server runs (`context[v] = slave`, multi-unit context) is a unit the receive path accepts from
    then on: its id is in the list every front-end hands its framer the next time it fetches it (seeded change C09-14 cached
    that list by its LENGTH) -/
theorem registered_unit_accepted (cfg : Cfg) (ctx ctx' : Units) (v : Nat) (s : SlaveCtx) (hm : ctx.single = false)
    (h : ctx.setItem (v : Int) s = .ok ctx') : v ∈ acceptedUnits cfg ctx' := by
  unfold ServerCtx.setItem at h
  simp only [hm, Bool.false_eq_true, if_false] at h
  split at h
  · injection h with h
    have hk : (v : Int) ∈ ctx'.slaves.map (·.1) := by rw [← h]; exact insert_keys_mem _ _ _
    have hh : v ∈ hosted ctx' := by
      unfold hosted
      rw [List.mem_map] at hk ⊢
      obtain ⟨kv, hkv, he⟩ := hk
      exact ⟨kv, hkv, by rw [he]; rfl⟩
    unfold acceptedUnits
    split
    · exact List.mem_append_left _ hh
    · exact hh
  · cases h

/-- ... and a request addressed to it is executed on the registered tables and answered -/
theorem registered_unit_served (cfg : Cfg) (w : World) (us : Units) (v : Nat) (s : SlaveCtx) (r : Req)
    (hm : w.units.single = false) (h : w.units.setItem (v : Int) s = .ok us) (hb : bcast cfg v = false) :
    (callback cfg { w with units := us } r v).2 = some (execAny w.ctl s r).2.2 := by
  have hs : us.single = false := by
    unfold ServerCtx.setItem at h; simp only [hm, Bool.false_eq_true, if_false] at h
    split at h
    · injection h with h; rw [← h]
    · cases h
  have hg : us.getItem v = .ok s := by
    unfold ServerCtx.setItem at h; simp only [hm, Bool.false_eq_true, if_false] at h
    split at h
    · injection h with h
      unfold ServerCtx.getItem
      rw [← h]; simp only [Bool.false_eq_true, if_false, C18.lookup_insert, if_true]
    · cases h
  exact (addressed_unit_executed cfg { w with units := us } r v hb s hg).2

end Pymodbus.Props.C10
