/-
  C19 — Payload builder and decoder agree for every byte order and word order.
  Property theorems only; helper lemmas live in Pymodbus/Lemmas/Payload.lean.

  Model: Pymodbus/Model/Payload.lean (BinaryPayloadBuilder / BinaryPayloadDecoder as coded).
  Spec:  Pymodbus/Spec/PayloadSpec.lean (the conventional register image).
-/
import Pymodbus.Lemmas.Payload
import Pymodbus.Spec.PayloadSpec
import Pymodbus.Generated.Tables
namespace Pymodbus.Props.C19
open Pymodbus Pymodbus.Payload Pymodbus.PayloadSpec

/-- every value is in the range of its type (what `struct.pack` accepts; strings are bytes) -/
def AllWF (vs : List Value) : Prop := ∀ v ∈ vs, v.WF

/-- every bit group is a whole number of bytes -/
def AllAligned (vs : List Value) : Prop := ∀ v ∈ vs, v.BitsAligned

instance (vs : List Value) : Decidable (AllWF vs) := by unfold AllWF; exact inferInstance
instance (vs : List Value) : Decidable (AllAligned vs) := by unfold AllAligned; exact inferInstance

/-! ### the builder produces the conventional image -/

/-- One `add_*` call of an in-range value appends exactly the conventional bytes of the value. -/
theorem builder_value_image (bo wo : Endian) (v : Value) (h : v.WF) :
    addValue bo wo v = .ok (valueBytes bo wo v) := addValue_eq bo wo v h

/-- For ALL orders and ALL in-range value lists the builder succeeds and its byte string is the
    conventional byte image of the sequence. -/
theorem builder_image (bo wo : Endian) (vs : List Value) (h : AllWF vs) :
    ∃ parts, buildAll bo wo vs = .ok parts ∧ Payload.toString parts = bytesImage bo wo vs :=
  ⟨_, buildAll_eq bo wo vs h, toString_map bo wo vs⟩

/-- Outside the range of its type a number is refused with `struct.error` (so `AllWF` is exactly
    the set of inputs the builder accepts, strings and bit groups being unconstrained). -/
theorem builder_rejects_out_of_range (bo wo : Endian) (vs : List Value)
    (h : ∃ v ∈ vs, ∃ t n, v = .num t n ∧ 256 ^ t.size ≤ n) :
    buildAll bo wo vs = .error .struct := by
  obtain ⟨v, hv, t, n, rfl, hn⟩ := h
  exact mapE_error _ _ vs (fun a _ => addValue_ok_or_struct bo wo a)
    ⟨_, hv, addValue_out_of_range bo wo t n hn⟩

/-- A 16/32/64-bit number occupies exactly the registers of the conventional image, each register
    high byte first. -/
theorem register_image_value (bo wo : Endian) (t : NumTy) (n : Nat) (h : n < 256 ^ t.size)
    (hs : t.size ≠ 1) :
    addValue bo wo (.num t n) = .ok ((regImage bo wo (t.size / 2) n).flatMap regBytes) ∧
    (regImage bo wo (t.size / 2) n).length = t.size / 2 ∧
    ∀ r ∈ regImage bo wo (t.size / 2) n, r < 65536 := by
  refine ⟨?_, regImage_length bo wo _ n, regImage_lt bo wo _ n⟩
  rw [addValue_eq bo wo (.num t n) h]
  simp only [valueBytes, hs, if_false]

/-- `to_registers()` of any in-range sequence is the conventional register image of the sequence
    (values back to back, an odd total zero-padded), for all four order combinations. -/
theorem register_image (bo wo : Endian) (vs : List Value) (h : AllWF vs) :
    ∃ parts, buildAll bo wo vs = .ok parts ∧
      toRegisters bo false parts = .ok (registersImage bo wo vs) ∧
      (registersImage bo wo vs).length = ((bytesImage bo wo vs).length + 1) / 2 ∧
      ∀ r ∈ registersImage bo wo vs, r < 65536 := by
  refine ⟨_, buildAll_eq bo wo vs h, ?_, pairRegs_length _, pairRegs_lt _ (bytesImage_wf bo wo vs h)⟩
  rw [toRegisters_eq, toString_map]; rfl

/-- When every value is a 16/32/64-bit number the registers are simply the per-value register
    images one after the other. -/
theorem register_image_aligned (bo wo : Endian) (vs : List Value) (h : AllWF vs)
    (hr : ∀ v ∈ vs, v.IsRegs) :
    ∃ parts, buildAll bo wo vs = .ok parts ∧
      toRegisters bo false parts = .ok (vs.flatMap (valueRegs bo wo)) := by
  refine ⟨_, buildAll_eq bo wo vs h, ?_⟩
  rw [toRegisters_eq, toString_map, bytesImage_regs bo wo vs hr,
    pairRegs_regBytes _ (valueRegs_lt bo wo vs)]

/-- big byte order + big word order is network order: the registers are the base-2^16 digits of
    the value, most significant first … -/
theorem regImage_big_big (k n : Nat) : regImage .big .big k n = netWords k n := rfl

/-- … which denote the value. -/
theorem netWords_value (k n : Nat) (h : n < 65536 ^ k) :
    (netWords k n).foldl (fun a w => a * 65536 + w) 0 = n := by
  induction k generalizing n with
  | zero => simp at h; subst h; rfl
  | succ k ih =>
    have h' : n / 65536 < 65536 ^ k := by
      rw [Nat.div_lt_iff_lt_mul (by decide)]; rw [Nat.pow_succ] at h; exact h
    simp only [netWords, List.foldl_append, List.foldl_cons, List.foldl_nil, ih _ h']
    omega

/-- little word order reverses the 16-bit words of a multi-register value -/
theorem regImage_word_little (bo : Endian) (k n : Nat) :
    regImage bo .little k n = (regImage bo .big k n).reverse := by
  cases bo <;> simp [regImage]

/-- little byte order swaps the two bytes inside each word -/
theorem regImage_byte_little (wo : Endian) (k n : Nat) :
    regImage .little wo k n = (regImage .big wo k n).map swap16 := rfl

theorem swap16_bytes (a b : Nat) (hb : b < 256) : swap16 (a * 256 + b) = b * 256 + a := by
  unfold swap16; omega

/-! ### round trip through the byte string -/

/-- For ALL orders and ALL in-range value lists, decoding the built byte string with the same
    orders and the same types returns every value, in order; a bit group comes back zero-filled
    to whole bytes (`canon`), everything else exactly. -/
theorem roundtrip_bytes_general (bo wo : Endian) (vs : List Value) (h : AllWF vs) :
    roundtripBytes bo wo vs = .ok (vs.map canon) := by
  have hd := decodeAll_at vs (Decoder.new (bytesImage bo wo vs) bo wo) [] [] h
    (by simp [Decoder.new]) rfl
  simp only [roundtripBytes, buildAll_eq bo wo vs h, toString_map, bind, Except.bind]
  exact hd

/-- The property, bytes transport: with bit groups in whole bytes every value is recovered exactly. -/
theorem roundtrip_bytes (bo wo : Endian) (vs : List Value) (h : AllWF vs) (ha : AllAligned vs) :
    roundtripBytes bo wo vs = .ok vs := by
  rw [roundtrip_bytes_general bo wo vs h, map_canon_aligned vs ha]

/-! ### round trip through registers -/

/-- The same through `to_registers()` / `fromRegisters` (odd totals are zero-padded to a whole
    register and the pad byte is never read). -/
theorem roundtrip_registers_general (bo wo : Endian) (vs : List Value) (h : AllWF vs) :
    roundtripRegisters bo wo vs = .ok (vs.map canon) := by
  have hwf := bytesImage_wf bo wo vs h
  have hd := decodeAll_at vs
    ⟨bytesImage bo wo vs ++ List.replicate ((bytesImage bo wo vs).length % 2) 0, 0, bo, wo⟩
    [] (List.replicate ((bytesImage bo wo vs).length % 2) 0) h (by simp) rfl
  simp only [roundtripRegisters, buildAll_eq bo wo vs h, toRegisters_eq, toString_map,
    fromRegisters_pairRegs _ hwf, bind, Except.bind]
  exact hd

/-- The property, register transport. -/
theorem roundtrip_registers (bo wo : Endian) (vs : List Value) (h : AllWF vs) (ha : AllAligned vs) :
    roundtripRegisters bo wo vs = .ok vs := by
  rw [roundtrip_registers_general bo wo vs h, map_canon_aligned vs ha]

/-! ### the full statement without the bit-group restriction is false -/

/-- "every in-range value list is recovered exactly", with no restriction on bit groups -/
def roundtrip_full : Prop :=
  ∀ (bo wo : Endian) (vs : List Value), AllWF vs →
    roundtripBytes bo wo vs = .ok vs ∧ roundtripRegisters bo wo vs = .ok vs

/-- Witness: `add_bits([True])` is decoded by `decode_bits()` as `[True] + [False] * 7` — the wire
    format carries no bit count (inherent to the format, not a coding slip). -/
theorem roundtrip_full_counterexample : ¬ roundtrip_full := by
  intro h
  have h1 := (h .big .big [.bits [true]] (by decide)).1
  rw [roundtrip_bytes_general .big .big [.bits [true]] (by decide)] at h1
  injection h1 with h2
  revert h2
  decide

/-- The excluded region is exactly "some bit group is not a whole number of bytes". -/
theorem roundtrip_partial (bo wo : Endian) (vs : List Value) (h : AllWF vs) (ha : AllAligned vs) :
    roundtripBytes bo wo vs = .ok vs ∧ roundtripRegisters bo wo vs = .ok vs :=
  ⟨roundtrip_bytes bo wo vs h ha, roundtrip_registers bo wo vs h ha⟩

/-! ### transport as coils (`to_coils()` / `fromCoils`) — outside the property's two transports,
    but the same builder/decoder pair (the word order used to be dropped here; repaired) -/

/-- Through coils the bytes arrive intact and the decoder gets both orders, so every value comes back, for
    every byte order and word order -/
theorem roundtrip_coils (bo wo : Endian) (vs : List Value) (h : AllWF vs) :
    roundtripCoils bo wo vs = .ok (vs.map canon) := by
  have hwf := bytesImage_wf bo wo vs h
  obtain ⟨coils, h1, h2⟩ := fromCoils_toCoils bo wo (vs.map (valueBytes bo wo))
    (by rw [toString_map]; exact hwf)
  rw [toString_map] at h2
  have hd := decodeAll_at vs
    ⟨bytesImage bo wo vs ++ List.replicate ((bytesImage bo wo vs).length % 2) 0, 0, bo, wo⟩
    [] (List.replicate ((bytesImage bo wo vs).length % 2) 0) h (by simp) rfl
  simp only [roundtripCoils, buildAll_eq bo wo vs h, h1, h2, bind, Except.bind]
  exact hd

example : roundtripCoils .big .little [.num .u32 0x12345678] = .ok [.num .u32 0x12345678] := by rfl

/-! ### tie to the source -/

/-- The word-count table read from `pymodbus.payload.WC` on this run is the model's, and every
    word format's size is the table's entry for its lower-cased format character. -/
theorem generated_wc_table :
    Generated.payloadWC = wcTable.map (fun p => (p.1.toString, p.2)) ∧
    Generated.endianBig = Endian.big.char.toString ∧
    Generated.endianLittle = Endian.little.char.toString ∧
    NumTy.all.all (fun t => !t.viaWords || (wcTable.lookup t.fmt.toLower == some t.size)) = true := by
  decide

/-! ### non-vacuity -/

example : AllWF [.num .u8 255, .num .i64 (2 ^ 64 - 1), .num .f32 0x7f800000, .bits [true, false], .str [1, 2, 3]] := by
  decide
example : ∃ v ∈ [Value.num .u8 255, .num .i16 65536], ∃ t n, v = .num t n ∧ 256 ^ t.size ≤ n :=
  ⟨_, by simp, .i16, 65536, rfl, by decide⟩
example : AllAligned [.num .u8 255, .bits [true, false, true, true, false, false, false, true], .str [7]] := by
  decide
example : roundtripRegisters .little .little [.num .u8 1, .num .u64 0x0001000200030004, .str [9]] =
    .ok [.num .u8 1, .num .u64 0x0001000200030004, .str [9]] := by rfl
example : registersImage .little .little [.num .u32 0x12345678] = [0x7856, 0x3412] := by decide
example : registersImage .big .little [.num .u32 0x12345678] = [0x5678, 0x1234] := by decide

end Pymodbus.Props.C19
