/-
  C17 — All server front-ends are behaviourally interchangeable.
  Two layers.  (A) Front-ends of the same kind (same reaction to an undecodable frame, both counting sent messages or
  both not) are equal as functions: for every byte string, every request class, every world.  (B) Across kinds — the
  Twisted protocols count the messages they send and honour listen-only mode, features the others lack — the
  front-ends are related by a simulation that ignores the counters: for the requests every front-end supports alike
  (data access and identification) they write the same bytes and leave the same datastore.
-/
import Pymodbus.Props.C12
import Pymodbus.Generated.Tables
namespace Pymodbus.Props.C17
open Pymodbus Pymodbus.Server Pymodbus.Framer

/-- the features all front-ends support: broadcast off (the Twisted protocols have none) -/
def Common (cfg : Cfg) : Prop := cfg.broadcast = false

/-- how a front-end reacts to an exception out of the receive loop: 0 = closes the connection, 1 = resets the
    framer and goes on, 2 = (sync UDP) every datagram gets a new framer anyway -/
def reaction : Frontend → Nat
  | .syncTcp | .aioTcp | .twistedTcp => 0
  | .syncSerial | .aioUdp | .twistedUdp => 1
  | .syncUdp => 2

theorem accepted_common (cfg : Cfg) (ctx : Units) (h : Common cfg) : acceptedUnits cfg ctx = hosted ctx := by
  simp [acceptedUnits, Common.eq_1 cfg ▸ h]

theorem callback_common (c1 c2 : Cfg) (h1 : Common c1) (h2 : Common c2) (hi : c1.ignoreMissing = c2.ignoreMissing)
    (w : World) (r : Req) (uid : Nat) : callback c1 w r uid = callback c2 w r uid := by
  unfold callback
  simp only [Common] at h1 h2
  simp [h1, h2, hi]

theorem frameResp_common (c1 c2 : Cfg) (hf : c1.framer = c2.framer) : frameResp c1 = frameResp c2 := by
  funext rp uid tid pid; simp only [frameResp, hf]

/-! ## (A) same kind: equal for every byte string and every request class -/

theorem handle_samekind (c1 c2 : Cfg) (h1 : Common c1) (h2 : Common c2) (hi : c1.ignoreMissing = c2.ignoreMissing)
    (hf : c1.framer = c2.framer) (hk : isTwisted c1.frontend = isTwisted c2.frontend) (w : World) (evs : List (Ev Req)) :
    handleEvents c1 w evs = handleEvents c2 w evs := by
  have hc : countMessage c1 = countMessage c2 := by funext w; simp only [countMessage, hk]
  induction evs generalizing w with
  | nil => rfl
  | cons e rest ih =>
    cases e with
    | raised err => rfl
    | deliver r uid tid pid =>
      simp only [handleEvents, callback_common c1 c2 h1 h2 hi, frameResp_common c1 c2 hf, hc, ih]

/-- the end of `connStep`: what becomes of the connection -/
def finish (cfg : Cfg) (w' : World) (conn : Conn) (buf' : Bytes) : Option PyErr → Conn
  | none => resnap cfg w' { conn with buf := if cfg.frontend = .syncUdp then [] else buf' }
  | some _ => match cfg.frontend with
    | .syncTcp | .aioTcp | .twistedTcp => { buf := [], running := false }
    | .syncSerial | .aioUdp | .syncUdp | .twistedUdp => resnap cfg w' { buf := [], running := true }

/-- the unit list a connection filters the next read with -/
def unitsFor (cfg : Cfg) (conn : Conn) (u : Units) : List Nat := conn.snap.getD (acceptedUnits cfg u)

/-- the bytes → deliveries part of `connStep` -/
def received (cfg : Cfg) (conn : Conn) (u : Units) (chunk : Bytes) : List (Ev Req) × Bytes :=
  if cfg.framer = .tls then tlsFeed decServer (unitsFor cfg conn u) u.single conn.buf chunk
  else feed (stepFor cfg.framer) decServer (unitsFor cfg conn u) u.single conn.buf chunk

theorem connStep_eq (cfg : Cfg) (conn : Conn) (w : World) (chunk : Bytes) :
    connStep cfg conn w chunk =
      if !conn.running then (conn, w, [], none)
      else if isTwisted cfg.frontend && w.ctl.listenOnly then (conn, w, [], none)
      else
        let h := handleEvents cfg w (received cfg conn w.units chunk).1
        (finish cfg h.1 conn (received cfg conn w.units chunk).2 h.2.2, h.1, h.2.1, none) := by
  unfold connStep received finish unitsFor
  split
  · rfl
  · split
    · rfl
    · simp only []
      split <;> rename_i hesc <;> simp only [hesc]
      cases cfg.frontend <;> rfl

theorem received_common (c1 c2 : Cfg) (h1 : Common c1) (h2 : Common c2) (hf : c1.framer = c2.framer) :
    received c1 = received c2 := by
  funext conn u chunk
  simp only [received, unitsFor, accepted_common c1 u h1, accepted_common c2 u h2, hf]

theorem finish_samekind (c1 c2 : Cfg) (h1 : Common c1) (h2 : Common c2)
    (hr : reaction c1.frontend = reaction c2.frontend)
    (hs : readsUnitsBeforeData c1.frontend = readsUnitsBeforeData c2.frontend) : finish c1 = finish c2 := by
  funext w' conn buf' esc
  have hres : resnap c1 w' = resnap c2 w' := by
    funext c; simp only [resnap, hs, accepted_common c1 w'.units h1, accepted_common c2 w'.units h2]
  cases esc with
  | none =>
    simp only [finish, hres]
    have : (c1.frontend = .syncUdp) ↔ (c2.frontend = .syncUdp) := by
      cases h : c1.frontend <;> cases g : c2.frontend <;> simp_all [reaction]
    by_cases hu : c1.frontend = .syncUdp
    · simp [hu, this.1 hu]
    · have hu2 : ¬ c2.frontend = .syncUdp := fun x => hu (this.2 x)
      simp [hu, hu2]
  | some e =>
    simp only [finish, hres]
    cases h : c1.frontend <;> cases g : c2.frontend <;> simp_all [reaction]

/-- same initial world, same bytes on a connection, same framer, front-ends of the same kind (same reaction to an
    undecodable frame, both counting messages or not, both reading the unit list before or after the data arrives):
    identical bytes written, identical world, identical connection state — for EVERY byte string and every request
    class.  Instance: sync TCP ↔ asyncio TCP. -/
theorem same_kind_agree (c1 c2 : Cfg) (h1 : Common c1) (h2 : Common c2)
    (hi : c1.ignoreMissing = c2.ignoreMissing) (hf : c1.framer = c2.framer)
    (hk : isTwisted c1.frontend = isTwisted c2.frontend) (hr : reaction c1.frontend = reaction c2.frontend)
    (hs : readsUnitsBeforeData c1.frontend = readsUnitsBeforeData c2.frontend)
    (conn : Conn) (w : World) (chunk : Bytes) :
    connStep c1 conn w chunk = connStep c2 conn w chunk := by
  have hh : handleEvents c1 = handleEvents c2 := by
    funext c evs; exact handle_samekind c1 c2 h1 h2 hi hf hk c evs
  rw [connStep_eq, connStep_eq, received_common c1 c2 h1 h2 hf, hh, hk, finish_samekind c1 c2 h1 h2 hr hs]

theorem sync_asyncio_tcp_agree (framer : FramerKind) (ign : Bool) (conn : Conn) (w : World) (chunk : Bytes) :
    connStep ⟨framer, .syncTcp, ign, false⟩ conn w chunk = connStep ⟨framer, .aioTcp, ign, false⟩ conn w chunk :=
  same_kind_agree ⟨framer, .syncTcp, ign, false⟩ ⟨framer, .aioTcp, ign, false⟩ (by simp [Common]) (by simp [Common]) rfl rfl rfl rfl rfl conn w chunk

theorem same_kind_agree_history (c1 c2 : Cfg) (h1 : Common c1) (h2 : Common c2)
    (hi : c1.ignoreMissing = c2.ignoreMissing) (hf : c1.framer = c2.framer)
    (hk : isTwisted c1.frontend = isTwisted c2.frontend) (hr : reaction c1.frontend = reaction c2.frontend)
    (hs : readsUnitsBeforeData c1.frontend = readsUnitsBeforeData c2.frontend)
    (conn : Conn) (w : World) (chunks : List Bytes) :
    serve c1 conn w chunks = serve c2 conn w chunks := by
  induction chunks generalizing conn w with
  | nil => rfl
  | cons c cs ih =>
    simp only [serve, same_kind_agree c1 c2 h1 h2 hi hf hk hr hs, ih]

/-- … and over every interleaving of several connections sharing the world -/
theorem same_kind_agree_schedule (c1 c2 : Cfg) (h1 : Common c1) (h2 : Common c2)
    (hi : c1.ignoreMissing = c2.ignoreMissing) (hf : c1.framer = c2.framer)
    (hk : isTwisted c1.frontend = isTwisted c2.frontend) (hr : reaction c1.frontend = reaction c2.frontend)
    (hs : readsUnitsBeforeData c1.frontend = readsUnitsBeforeData c2.frontend)
    (conns : Nat → Conn) (w : World) (sched : List (Nat × Bytes)) :
    serveSched c1 conns w sched = serveSched c2 conns w sched := by
  induction sched generalizing conns w with
  | nil => rfl
  | cons s rest ih =>
    obtain ⟨i, c⟩ := s
    simp only [serveSched, same_kind_agree c1 c2 h1 h2 hi hf hk hr hs, ih]

/-! ## (B) across kinds: simulation up to the message counters -/

/-- the requests every front-end serves alike: data access and identification (the diagnostic / event requests
    report counters that only the Twisted protocols maintain, and Force Listen Only is honoured by them alone) -/
def supported : Req → Bool
  | .reportSlaveId | .readDeviceInfo .. => true
  | r => isDataAccess r

/-- worlds that differ at most in the counters, neither in listen-only mode -/
structure Sim (w1 w2 : World) : Prop where
  units : w1.units = w2.units
  ident : w1.ctl.ident = w2.ctl.ident
  l1 : w1.ctl.listenOnly = false
  l2 : w2.ctl.listenOnly = false

theorem execAny_sim (c1 c2 : Control) (hid : c1.ident = c2.ident) (s : SlaveCtx) (r : Req) (hr : supported r = true) :
    (execAny c1 s r).2 = (execAny c2 s r).2 ∧ (execAny c1 s r).1.ident = (execAny c2 s r).1.ident ∧
    (execAny c1 s r).1.listenOnly = c1.listenOnly ∧ (execAny c2 s r).1.listenOnly = c2.listenOnly := by
  by_cases hd : isDataAccess r = true
  · rw [C09.execAny_dataAccess c1 s r hd, C09.execAny_dataAccess c2 s r hd]
    exact ⟨rfl, hid, rfl, rfl⟩
  · cases r <;> simp [supported, isDataAccess] at hr hd
    case reportSlaveId =>
      simp only [execAny, execRaw, isDataAccess, Bool.false_eq_true, if_false, Impl.executeOther, hid]
      first | exact ⟨rfl, rfl, rfl, rfl⟩ | simp
    case readDeviceInfo sub rc oid =>
      simp only [execAny, execRaw, isDataAccess, Bool.false_eq_true, if_false, Impl.executeOther, hid]
      cases DevId.execute c2.ident rc oid with
      | error e => exact ⟨rfl, hid, rfl, rfl⟩
      | ok x =>
        obtain ⟨d', out⟩ := x
        cases out <;> first | exact ⟨rfl, rfl, rfl, rfl⟩ | simp

theorem callback_sim (c1 c2 : Cfg) (h1 : Common c1) (h2 : Common c2) (hi : c1.ignoreMissing = c2.ignoreMissing)
    (w1 w2 : World) (hs : Sim w1 w2) (r : Req) (hr : supported r = true) (uid : Nat) :
    (callback c1 w1 r uid).2 = (callback c2 w2 r uid).2 ∧ Sim (callback c1 w1 r uid).1 (callback c2 w2 r uid).1 := by
  unfold callback
  simp only [Common] at h1 h2
  simp only [h1, h2, Bool.false_and, Bool.false_eq_true, if_false, hs.units, hi]
  cases hg : w2.units.getItem uid with
  | error e =>
    simp only []
    split
    · exact ⟨rfl, hs⟩
    · exact ⟨rfl, hs⟩
  | ok s =>
    simp only []
    obtain ⟨e1, e2, e3, e4⟩ := execAny_sim w1.ctl w2.ctl hs.ident s r hr
    have e1a : (execAny w1.ctl s r).2.1 = (execAny w2.ctl s r).2.1 := congrArg Prod.fst e1
    have e1b : (execAny w1.ctl s r).2.2 = (execAny w2.ctl s r).2.2 := congrArg Prod.snd e1
    refine ⟨by rw [e1b], ?_⟩
    constructor
    · simp only [e1a]
    · exact e2
    · simp only []; rw [e3]; exact hs.l1
    · simp only []; rw [e4]; exact hs.l2

theorem countMessage_sim (c1 c2 : Cfg) (w1 w2 : World) (hs : Sim w1 w2) : Sim (countMessage c1 w1) (countMessage c2 w2) := by
  unfold countMessage Control.setCounter
  constructor
  · split <;> split <;> exact hs.units
  · split <;> split <;> exact hs.ident
  · split <;> exact hs.l1
  · split <;> exact hs.l2

/-- every delivered request of the list is one all front-ends support -/
def AllSupported : List (Ev Req) → Prop
  | [] => True
  | .raised _ :: _ => True
  | .deliver r _ _ _ :: rest => supported r = true ∧ AllSupported rest

theorem handle_sim (c1 c2 : Cfg) (h1 : Common c1) (h2 : Common c2) (hi : c1.ignoreMissing = c2.ignoreMissing)
    (hf : c1.framer = c2.framer) (w1 w2 : World) (hs : Sim w1 w2) (evs : List (Ev Req)) (ha : AllSupported evs) :
    (handleEvents c1 w1 evs).2 = (handleEvents c2 w2 evs).2 ∧ Sim (handleEvents c1 w1 evs).1 (handleEvents c2 w2 evs).1 := by
  induction evs generalizing w1 w2 with
  | nil => exact ⟨rfl, hs⟩
  | cons e rest ih =>
    cases e with
    | raised err => exact ⟨rfl, hs⟩
    | deliver r uid tid pid =>
      obtain ⟨hr, hrest⟩ := ha
      obtain ⟨e1, e2⟩ := callback_sim c1 c2 h1 h2 hi w1 w2 hs r hr uid
      cases hcb1 : callback c1 w1 r uid with
      | mk a1 b1 =>
        cases hcb2 : callback c2 w2 r uid with
        | mk a2 b2 =>
          rw [hcb1, hcb2] at e1 e2
          simp only [] at e1 e2
          subst e1
          cases b1 with
          | none =>
            rw [C09.handle_cons_none tid pid rest hcb1, C09.handle_cons_none tid pid rest hcb2]
            exact ih a1 a2 e2 hrest
          | some rp =>
            cases hsr : shouldRespond rp with
            | false =>
              rw [C09.handle_cons_silent tid pid rest hcb1 hsr, C09.handle_cons_silent tid pid rest hcb2 hsr]
              exact ih a1 a2 e2 hrest
            | true =>
              have hfr : frameResp c1 rp uid tid pid = frameResp c2 rp uid tid pid := by
                rw [frameResp_common c1 c2 hf]
              cases hf1 : frameResp c1 rp uid tid pid with
              | error e =>
                rw [C09.handle_cons_err rest hcb1 hsr hf1, C09.handle_cons_err rest hcb2 hsr (hfr ▸ hf1)]
                exact ⟨rfl, countMessage_sim c1 c2 a1 a2 e2⟩
              | ok f =>
                rw [C09.handle_cons_ok rest hcb1 hsr hf1, C09.handle_cons_ok rest hcb2 hsr (hfr ▸ hf1)]
                obtain ⟨i1, i2⟩ := ih (countMessage c1 a1) (countMessage c2 a2) (countMessage_sim c1 c2 a1 a2 e2) hrest
                refine ⟨?_, i2⟩
                simp only []
                rw [show (handleEvents c1 (countMessage c1 a1) rest).2.1 = (handleEvents c2 (countMessage c2 a2) rest).2.1 from
                      congrArg Prod.fst i1,
                    show (handleEvents c1 (countMessage c1 a1) rest).2.2 = (handleEvents c2 (countMessage c2 a2) rest).2.2 from
                      congrArg Prod.snd i1]

/-- two connections (of two front-ends) in the same protocol state: same buffered bytes, both open or both closed,
    and each one's unit list — whether it was read before the data arrived or not — is the current one -/
structure CSim (c1 c2 : Cfg) (k1 k2 : Conn) (w1 w2 : World) : Prop where
  buf : k1.buf = k2.buf
  running : k1.running = k2.running
  cur1 : k1.snap = none ∨ k1.snap = some (acceptedUnits c1 w1.units)
  cur2 : k2.snap = none ∨ k2.snap = some (acceptedUnits c2 w2.units)

theorem unitsFor_current (cfg : Cfg) (k : Conn) (w : World)
    (h : k.snap = none ∨ k.snap = some (acceptedUnits cfg w.units)) : unitsFor cfg k w.units = acceptedUnits cfg w.units := by
  unfold unitsFor
  rcases h with h | h <;> rw [h] <;> rfl

theorem received_csim (c1 c2 : Cfg) (h1 : Common c1) (h2 : Common c2) (hf : c1.framer = c2.framer)
    (k1 k2 : Conn) (w1 w2 : World) (hs : Sim w1 w2) (hc : CSim c1 c2 k1 k2 w1 w2) (chunk : Bytes) :
    received c1 k1 w1.units chunk = received c2 k2 w2.units chunk := by
  unfold received
  rw [unitsFor_current c1 k1 w1 hc.cur1, unitsFor_current c2 k2 w2 hc.cur2, accepted_common c1 _ h1,
    accepted_common c2 _ h2, hs.units, hc.buf, hf]

theorem finish_current (cfg : Cfg) (w' : World) (k : Conn) (buf' : Bytes) (esc : Option PyErr) :
    (finish cfg w' k buf' esc).snap = none ∨ (finish cfg w' k buf' esc).snap = some (acceptedUnits cfg w'.units) := by
  cases esc with
  | none => simp only [finish, resnap]; split <;> simp
  | some e => cases hfe : cfg.frontend <;> simp [finish, hfe, resnap, readsUnitsBeforeData]

theorem finish_buf_running (c1 c2 : Cfg) (hr : reaction c1.frontend = reaction c2.frontend)
    (w1 w2 : World) (k1 k2 : Conn) (hb : k1.buf = k2.buf) (hrn : k1.running = k2.running) (buf' : Bytes) (esc : Option PyErr) :
    (finish c1 w1 k1 buf' esc).buf = (finish c2 w2 k2 buf' esc).buf ∧
    (finish c1 w1 k1 buf' esc).running = (finish c2 w2 k2 buf' esc).running := by
  cases esc with
  | none =>
    have : (c1.frontend = .syncUdp) ↔ (c2.frontend = .syncUdp) := by
      cases h : c1.frontend <;> cases g : c2.frontend <;> simp_all [reaction]
    by_cases hu : c1.frontend = .syncUdp
    · simp [finish, resnap, hu, this.1 hu, hrn]
    · have hu2 : ¬ c2.frontend = .syncUdp := fun x => hu (this.2 x)
      simp [finish, resnap, hu, hu2, hrn]
  | some e => cases h : c1.frontend <;> cases g : c2.frontend <;> simp_all [finish, resnap, reaction]

/-- ALL front-ends: same datastore and identity, same bytes on a connection, same framer — as long as the requests
    received are data-access or identification requests, every pair of front-ends writes byte-identical responses
    and leaves the same datastore (the worlds stay related); the two connections stay in the same protocol state
    when the front-ends react alike to undecodable data -/
theorem all_frontends_agree (c1 c2 : Cfg) (h1 : Common c1) (h2 : Common c2)
    (hi : c1.ignoreMissing = c2.ignoreMissing) (hf : c1.framer = c2.framer)
    (k1 k2 : Conn) (w1 w2 : World) (hs : Sim w1 w2) (hc : CSim c1 c2 k1 k2 w1 w2) (chunk : Bytes)
    (ha : AllSupported (received c1 k1 w1.units chunk).1) :
    (connStep c1 k1 w1 chunk).2.2 = (connStep c2 k2 w2 chunk).2.2 ∧
    Sim (connStep c1 k1 w1 chunk).2.1 (connStep c2 k2 w2 chunk).2.1 ∧
    (reaction c1.frontend = reaction c2.frontend →
      CSim c1 c2 (connStep c1 k1 w1 chunk).1 (connStep c2 k2 w2 chunk).1 (connStep c1 k1 w1 chunk).2.1 (connStep c2 k2 w2 chunk).2.1) := by
  have hrec := received_csim c1 c2 h1 h2 hf k1 k2 w1 w2 hs hc chunk
  rw [connStep_eq, connStep_eq, ← hrec, ← hc.running]
  simp only [hs.l1, hs.l2, Bool.and_false, Bool.false_eq_true, if_false]
  split
  · exact ⟨rfl, hs, fun _ => hc⟩
  · obtain ⟨e1, e2⟩ := handle_sim c1 c2 h1 h2 hi hf w1 w2 hs _ ha
    have e1a : (handleEvents c1 w1 (received c1 k1 w1.units chunk).1).2.1 =
        (handleEvents c2 w2 (received c1 k1 w1.units chunk).1).2.1 := congrArg Prod.fst e1
    have e1b : (handleEvents c1 w1 (received c1 k1 w1.units chunk).1).2.2 =
        (handleEvents c2 w2 (received c1 k1 w1.units chunk).1).2.2 := congrArg Prod.snd e1
    refine ⟨?_, e2, ?_⟩
    · simp only []; rw [e1a]
    · intro hr
      simp only []
      rw [e1b]
      obtain ⟨fb, fr⟩ := finish_buf_running c1 c2 hr
        (handleEvents c1 w1 (received c1 k1 w1.units chunk).1).1 (handleEvents c2 w2 (received c1 k1 w1.units chunk).1).1
        k1 k2 hc.buf hc.running (received c1 k1 w1.units chunk).2 (handleEvents c2 w2 (received c1 k1 w1.units chunk).1).2.2
      exact ⟨fb, fr, finish_current _ _ _ _ _, finish_current _ _ _ _ _⟩

theorem tcp_reaction (f1 f2 : Frontend)
    (t1 : f1 = .syncTcp ∨ f1 = .aioTcp ∨ f1 = .twistedTcp) (t2 : f2 = .syncTcp ∨ f2 = .aioTcp ∨ f2 = .twistedTcp) :
    reaction f1 = reaction f2 := by
  rcases t1 with h | h | h <;> rcases t2 with g | g | g <;> rw [h, g] <;> rfl

/-- chunk histories on which only supported requests are ever delivered (defined along the run of `c1`) -/
def HistorySupported (c1 : Cfg) : Conn → World → List Bytes → Prop
  | _, _, [] => True
  | conn, w, c :: cs =>
    AllSupported (received c1 conn w.units c).1 ∧
    HistorySupported c1 (connStep c1 conn w c).1 (connStep c1 conn w c).2.1 cs

/-- the three TCP front-ends (sync threaded, asyncio, Twisted) over whole chunk histories: the same bytes written at
    every step, related worlds (same datastore) and connections in the same protocol state at the end -/
theorem stream_frontends_agree_history (c1 c2 : Cfg) (h1 : Common c1) (h2 : Common c2)
    (hi : c1.ignoreMissing = c2.ignoreMissing) (hf : c1.framer = c2.framer)
    (t1 : c1.frontend = .syncTcp ∨ c1.frontend = .aioTcp ∨ c1.frontend = .twistedTcp)
    (t2 : c2.frontend = .syncTcp ∨ c2.frontend = .aioTcp ∨ c2.frontend = .twistedTcp)
    (k1 k2 : Conn) (w1 w2 : World) (hs : Sim w1 w2) (hc : CSim c1 c2 k1 k2 w1 w2) (chunks : List Bytes)
    (ha : HistorySupported c1 k1 w1 chunks) :
    (serve c1 k1 w1 chunks).2.2 = (serve c2 k2 w2 chunks).2.2 ∧
    Sim (serve c1 k1 w1 chunks).2.1 (serve c2 k2 w2 chunks).2.1 := by
  induction chunks generalizing k1 k2 w1 w2 with
  | nil => exact ⟨rfl, hs⟩
  | cons c cs ih =>
    obtain ⟨hcs, hrest⟩ := ha
    obtain ⟨a, b, d⟩ := all_frontends_agree c1 c2 h1 h2 hi hf k1 k2 w1 w2 hs hc c hcs
    obtain ⟨i1, i2⟩ := ih _ _ _ _ b (d (tcp_reaction _ _ t1 t2)) hrest
    simp only [serve]
    refine ⟨?_, i2⟩
    rw [show (connStep c1 k1 w1 c).2.2.1 = (connStep c2 k2 w2 c).2.2.1 from congrArg Prod.fst a,
        show (connStep c1 k1 w1 c).2.2.2 = (connStep c2 k2 w2 c).2.2.2 from congrArg Prod.snd a,
        show (serve c1 (connStep c1 k1 w1 c).1 (connStep c1 k1 w1 c).2.1 cs).2.2.1 = _ from congrArg Prod.fst i1,
        show (serve c1 (connStep c1 k1 w1 c).1 (connStep c1 k1 w1 c).2.1 cs).2.2.2 = _ from congrArg Prod.snd i1]

/-- freshly accepted connections of any two front-ends are in the same protocol state -/
theorem openConn_csim (c1 c2 : Cfg) (w1 w2 : World) : CSim c1 c2 (openConn c1 w1) (openConn c2 w2) w1 w2 := by
  refine ⟨rfl, rfl, ?_, ?_⟩ <;> (unfold openConn resnap; split <;> simp)

/-- each connection's framing state is private: what a connection receives and decodes does not depend on the
    contents of the datastore, only on which units are hosted — so interleaving other connections' traffic
    changes nothing for it except the order in which writes take effect -/
theorem framing_independent_of_store (cfg : Cfg) (conn : Conn) (ctx ctx' : Units) (chunk : Bytes)
    (hh : hosted ctx = hosted ctx') (hs : ctx.single = ctx'.single) :
    received cfg conn ctx chunk = received cfg conn ctx' chunk := by
  simp only [received, unitsFor, acceptedUnits, hh, hs]

/-- the callback never changes the single/multi mode of the server context -/
theorem mode_invariant (cfg : Cfg) (w : World) (r : Req) (uid : Nat) :
    (callback cfg w r uid).1.units.single = w.units.single := by
  unfold callback
  split
  · rfl
  · split
    · split <;> rfl
    · rfl

example : Sim ⟨ServerCtx.mkSingle ⟨[.seq ⟨0, [1]⟩], 0, 0, 0, 0, true⟩, C12.ctl0⟩
    ⟨ServerCtx.mkSingle ⟨[.seq ⟨0, [1]⟩], 0, 0, 0, 0, true⟩, { C12.ctl0 with counters := [5, 0, 0, 0, 0, 0, 0, 0, 0] }⟩ :=
  ⟨rfl, rfl, rfl, rfl⟩
example : supported (.readHolding 0 1) = true ∧ supported .reportSlaveId = true ∧ supported (.diag 11 (.int 0)) = false := by
  decide


/-- tie to the source: the structure of the seven front-ends as read off the source files on this run (by ast: which
    receive methods append unit 0 when broadcast is enabled, what each catch-all does with an exception out of the
    receive call, who counts sent messages, who is gated by listen-only mode, that sending is gated by
    `should_respond` and that `execute` copies transaction id and unit id to the response) is the one the model encodes -/
theorem generated_server_structure :
    Generated.serverStructure = allFrontends.map (fun f =>
      (f.name, addsBroadcastUnit f, f.onErrorSrc, isTwisted f, isTwisted f, true, true)) := by rfl

/-- the source's "close" reactions are the model's connection-closing front-ends (sync UDP excepted: a new handler
    per datagram), its "reset" reactions the ones that go on with an empty framer -/
theorem onError_reaction : ∀ f ∈ allFrontends,
    (reaction f = 0 ↔ (f.onErrorSrc = "close" ∧ f ≠ .syncUdp)) ∧ (reaction f = 1 ↔ f.onErrorSrc = "reset") := by decide

/-- tie to the source: the model hands every datagram WHOLE to the handler; the receive buffer socketserver uses for the
    sync UDP server (`max_packet_size`, read off the class on this run) holds every legal ADU (260 bytes on the socket
    framing, 515 in ASCII) -/
theorem generated_udp_buffer : 520 ≤ Generated.syncUdpMaxPacket := by decide


/-! ### front-ends and segmentation together -/

theorem allSupported_prefix (p evs : List (Ev Req)) (hp : p <+: evs) (ha : AllSupported evs) : AllSupported p := by
  obtain ⟨t, rfl⟩ := hp
  induction p with
  | nil => trivial
  | cons e rest ih =>
    cases e with
    | raised err => trivial
    | deliver r uid tid pid => exact ⟨ha.1, ih ha.2⟩

/-- supported requests (data access, identification) never switch listen-only mode on: the Twisted side condition of
    `C12.serve_chunking_independent` holds along the whole run -/
theorem listenOff_supported (c1 c2 : Cfg) (h1 : Common c1) (h2 : Common c2) (hi : c1.ignoreMissing = c2.ignoreMissing)
    (hf : c1.framer = c2.framer) (w1 w2 : World) (hs : Sim w1 w2) (evs : List (Ev Req)) (ha : AllSupported evs) :
    C12.ListenOff c1 w1 evs ∧ C12.ListenOff c2 w2 evs := by
  constructor
  · intro p hp
    have := (handle_sim c1 c2 h1 h2 hi hf w1 w2 hs p (allSupported_prefix p evs hp ha)).2.l1
    simp [this]
  · intro p hp
    have := (handle_sim c1 c2 h1 h2 hi hf w1 w2 hs p (allSupported_prefix p evs hp ha)).2.l2
    simp [this]

/-- **Any two stream front-ends, any two ways of cutting the request stream into reads**: for data-access and
    identification requests (any number, any ids) the bytes written are the same and the datastores end up the same.
    C06 (segmentation), C09/C12 (one frame per request) and C17 (interchangeable front-ends) in one statement. -/
theorem frontends_agree_any_chunking (c1 c2 : Cfg) (h1 : Common c1) (h2 : Common c2)
    (hi : c1.ignoreMissing = c2.ignoreMissing) (hf : c1.framer = c2.framer)
    (F : C06.Framing) (hF : C12.framingOf c1.framer = some F)
    (hu1 : c1.frontend ≠ .syncUdp) (hu2 : c2.frontend ≠ .syncUdp)
    (w1 w2 : World) (hs : Sim w1 w2)
    (fs : List (VFrame Req)) (hfs : ∀ f ∈ fs, C06.IsBuilt F decServer (hosted w1.units) w1.units.single f)
    (ch1 ch2 : List Bytes) (hc1 : ch1.flatten = stream fs) (hc2 : ch2.flatten = stream fs)
    (ha : AllSupported (fs.map (fun f => Ev.deliver f.msg f.uid f.tid f.pid)))
    (hne : (handleEvents c1 w1 (fs.map (fun f => Ev.deliver f.msg f.uid f.tid f.pid))).2.2 = none) :
    (serve c1 (openConn c1 w1) w1 ch1).2.2.1.flatten = (serve c2 (openConn c2 w2) w2 ch2).2.2.1.flatten ∧
    Sim (serve c1 (openConn c1 w1) w1 ch1).2.1 (serve c2 (openConn c2 w2) w2 ch2).2.1 := by
  obtain ⟨e1, e2⟩ := handle_sim c1 c2 h1 h2 hi hf w1 w2 hs _ ha
  obtain ⟨lo1, lo2⟩ := listenOff_supported c1 c2 h1 h2 hi hf w1 w2 hs _ ha
  have hne2 : (handleEvents c2 w2 (fs.map (fun f => Ev.deliver f.msg f.uid f.tid f.pid))).2.2 = none := by
    rw [← congrArg Prod.snd e1]; exact hne
  have hfs1 : ∀ f ∈ fs, C06.IsBuilt F decServer (acceptedUnits c1 w1.units) w1.units.single f := by
    intro f hf'; rw [accepted_common c1 _ h1]; exact hfs f hf'
  have hfs2 : ∀ f ∈ fs, C06.IsBuilt F decServer (acceptedUnits c2 w2.units) w2.units.single f := by
    intro f hf'; rw [accepted_common c2 _ h2, ← hs.units]; exact hfs f hf'
  obtain ⟨a1, a2, _⟩ := C12.serve_chunking_independent c1 F hF hu1 w1 fs hfs1 ch1 hc1 lo1 hne
  obtain ⟨b1, b2, _⟩ := C12.serve_chunking_independent c2 F (hf ▸ hF) hu2 w2 fs hfs2 ch2 hc2 lo2 hne2
  refine ⟨?_, ?_⟩
  · rw [a2, b2]; exact congrArg Prod.fst e1
  · rw [a1, b1]; exact e2

end Pymodbus.Props.C17
