/-
  C17 — All server front-ends are behaviourally interchangeable.
-/
import Pymodbus.Props.C12
namespace Pymodbus.Props.C17
open Pymodbus Pymodbus.Server Pymodbus.Framer

/-- the features all front-ends support: broadcast off (the Twisted protocols have none) -/
def Common (cfg : Cfg) : Prop := cfg.broadcast = false

theorem accepted_common (cfg : Cfg) (ctx : Units) (h : Common cfg) : acceptedUnits cfg ctx = hosted ctx := by
  simp [acceptedUnits, Common.eq_1 cfg ▸ h]

theorem callback_common (c1 c2 : Cfg) (h1 : Common c1) (h2 : Common c2) (hi : c1.ignoreMissing = c2.ignoreMissing)
    (ctx : Units) (r : Req) (uid : Nat) : callback c1 ctx r uid = callback c2 ctx r uid := by
  unfold callback
  simp only [Common] at h1 h2
  simp [h1, h2, hi]

theorem handle_common (c1 c2 : Cfg) (h1 : Common c1) (h2 : Common c2) (hi : c1.ignoreMissing = c2.ignoreMissing)
    (hf : c1.framer = c2.framer) (ctx : Units) (evs : List (Ev Req)) :
    handleEvents c1 ctx evs = handleEvents c2 ctx evs := by
  induction evs generalizing ctx with
  | nil => rfl
  | cons e rest ih =>
    cases e with
    | raised err => rfl
    | deliver r uid tid pid =>
      simp only [handleEvents, callback_common c1 c2 h1 h2 hi, frameResp, hf, ih]

/-- same initial datastore, same request bytes, same framer: the three TCP front-ends (sync threaded, asyncio,
    Twisted) write byte-identical responses and leave the datastore in the same state — for every byte string -/
theorem stream_frontends_agree (c1 c2 : Cfg) (h1 : Common c1) (h2 : Common c2)
    (hi : c1.ignoreMissing = c2.ignoreMissing) (hf : c1.framer = c2.framer)
    (t1 : c1.frontend = .syncTcp ∨ c1.frontend = .aioTcp ∨ c1.frontend = .twistedTcp)
    (t2 : c2.frontend = .syncTcp ∨ c2.frontend = .aioTcp ∨ c2.frontend = .twistedTcp)
    (conn : Conn) (ctx : Units) (chunk : Bytes) :
    connStep c1 conn ctx chunk = connStep c2 conn ctx chunk := by
  have hh : handleEvents c1 = handleEvents c2 := by
    funext c evs; exact handle_common c1 c2 h1 h2 hi hf c evs
  unfold connStep
  rw [accepted_common c1 ctx h1, accepted_common c2 ctx h2, hf, hh]
  split
  · rfl
  · simp only []
    have hs1 : c1.frontend ≠ .syncUdp := by rcases t1 with h | h | h <;> rw [h] <;> decide
    have hs2 : c2.frontend ≠ .syncUdp := by rcases t2 with h | h | h <;> rw [h] <;> decide
    split
    · simp [hs1, hs2]
    · rcases t1 with h | h | h <;> rcases t2 with g | g | g <;> simp [h, g]

/-- the asyncio and Twisted datagram front-ends (one protocol object, one framer for all peers) likewise agree on
    every datagram, well-formed or not -/
theorem datagram_frontends_agree (c1 c2 : Cfg) (h1 : Common c1) (h2 : Common c2)
    (hi : c1.ignoreMissing = c2.ignoreMissing) (hf : c1.framer = c2.framer)
    (t1 : c1.frontend = .aioUdp ∨ c1.frontend = .twistedUdp)
    (t2 : c2.frontend = .aioUdp ∨ c2.frontend = .twistedUdp)
    (conn : Conn) (ctx : Units) (chunk : Bytes) :
    connStep c1 conn ctx chunk = connStep c2 conn ctx chunk := by
  have hh : handleEvents c1 = handleEvents c2 := by
    funext c evs; exact handle_common c1 c2 h1 h2 hi hf c evs
  unfold connStep
  rw [accepted_common c1 ctx h1, accepted_common c2 ctx h2, hf, hh]
  split
  · rfl
  · simp only []
    have hs1 : c1.frontend ≠ .syncUdp := by rcases t1 with h | h <;> rw [h] <;> decide
    have hs2 : c2.frontend ≠ .syncUdp := by rcases t2 with h | h <;> rw [h] <;> decide
    split
    · simp [hs1, hs2]
    · rcases t1 with h | h <;> rcases t2 with g | g <;> simp [h, g]

/-- … and over whole chunk histories -/
theorem stream_frontends_agree_history (c1 c2 : Cfg) (h1 : Common c1) (h2 : Common c2)
    (hi : c1.ignoreMissing = c2.ignoreMissing) (hf : c1.framer = c2.framer)
    (t1 : c1.frontend = .syncTcp ∨ c1.frontend = .aioTcp ∨ c1.frontend = .twistedTcp)
    (t2 : c2.frontend = .syncTcp ∨ c2.frontend = .aioTcp ∨ c2.frontend = .twistedTcp)
    (conn : Conn) (ctx : Units) (chunks : List Bytes) :
    serve c1 conn ctx chunks = serve c2 conn ctx chunks := by
  induction chunks generalizing conn ctx with
  | nil => rfl
  | cons c cs ih =>
    simp only [serve, stream_frontends_agree c1 c2 h1 h2 hi hf t1 t2, ih]

/-- … and over every interleaving of several connections sharing the datastore -/
theorem stream_frontends_agree_schedule (c1 c2 : Cfg) (h1 : Common c1) (h2 : Common c2)
    (hi : c1.ignoreMissing = c2.ignoreMissing) (hf : c1.framer = c2.framer)
    (t1 : c1.frontend = .syncTcp ∨ c1.frontend = .aioTcp ∨ c1.frontend = .twistedTcp)
    (t2 : c2.frontend = .syncTcp ∨ c2.frontend = .aioTcp ∨ c2.frontend = .twistedTcp)
    (conns : Nat → Conn) (ctx : Units) (sched : List (Nat × Bytes)) :
    serveSched c1 conns ctx sched = serveSched c2 conns ctx sched := by
  induction sched generalizing conns ctx with
  | nil => rfl
  | cons s rest ih =>
    obtain ⟨i, c⟩ := s
    simp only [serveSched, stream_frontends_agree c1 c2 h1 h2 hi hf t1 t2, ih]

/-- every front-end, as long as nothing undecodable arrives: same frames, same datastore -/
theorem all_frontends_agree_on_decodable (c1 c2 : Cfg) (h1 : Common c1) (h2 : Common c2)
    (hi : c1.ignoreMissing = c2.ignoreMissing) (hf : c1.framer = c2.framer)
    (conn : Conn) (ctx : Units) (chunk : Bytes)
    (hno : ((handleEvents c1 ctx (if c1.framer = .tls then tlsFeed decServer (hosted ctx) ctx.single conn.buf chunk
        else feed (stepFor c1.framer) decServer (hosted ctx) ctx.single conn.buf chunk).1).2.2 = none)) :
    (connStep c1 conn ctx chunk).2.1 = (connStep c2 conn ctx chunk).2.1 ∧
    (connStep c1 conn ctx chunk).2.2.1 = (connStep c2 conn ctx chunk).2.2.1 := by
  have hh : handleEvents c1 = handleEvents c2 := by
    funext c evs; exact handle_common c1 c2 h1 h2 hi hf c evs
  unfold connStep
  rw [accepted_common c1 ctx h1, accepted_common c2 ctx h2, ← hf, ← hh]
  split
  · exact ⟨rfl, rfl⟩
  · simp only [] at hno ⊢
    split
    · exact ⟨rfl, rfl⟩
    · rename_i e he
      rw [he] at hno; cases hno

/-- each connection's framing state is private: what a connection receives and decodes does not depend on the
    contents of the datastore, only on which units are hosted — so interleaving other connections' traffic
    changes nothing for it except the order in which writes take effect -/
theorem framing_independent_of_store (cfg : Cfg) (conn : Conn) (ctx ctx' : Units) (chunk : Bytes)
    (hh : hosted ctx = hosted ctx') (hs : ctx.single = ctx'.single) :
    (if cfg.framer = .tls then tlsFeed decServer (acceptedUnits cfg ctx) ctx.single conn.buf chunk
      else feed (stepFor cfg.framer) decServer (acceptedUnits cfg ctx) ctx.single conn.buf chunk) =
    (if cfg.framer = .tls then tlsFeed decServer (acceptedUnits cfg ctx') ctx'.single conn.buf chunk
      else feed (stepFor cfg.framer) decServer (acceptedUnits cfg ctx') ctx'.single conn.buf chunk) := by
  simp only [acceptedUnits, hh, hs]

/-- the callback never changes the single/multi mode of the server context -/
theorem mode_invariant (cfg : Cfg) (ctx : Units) (r : Req) (uid : Nat) :
    (callback cfg ctx r uid).1.single = ctx.single := by
  unfold callback
  split
  · rfl
  · split
    · split <;> rfl
    · rfl

end Pymodbus.Props.C17
