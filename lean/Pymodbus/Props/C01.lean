/-
  C01 — PDU wire format conforms to the Modbus application protocol.
  `Impl.*` = model of the code (Model/Codec.lean), `PduSpec.*` = the specification's formats.
  Full-strength statements are proved for every message class except the three known findings
  (FIFO response count, read-file-record response layout, multi-word diagnostic request), for which the
  counterexamples are proved below, and the file-record / device-identification messages (see C20), whose
  conformance is checked by the correspondence harness only.
-/
import Pymodbus.Lemmas.Codec
import Pymodbus.Generated.Tables
import Pymodbus.Model.Events
namespace Pymodbus.Props.C01
open Pymodbus PduSpec

/-- requests covered by the full-strength theorems -/
def Plain : Req → Prop
  | .readFileRecord _ | .writeFileRecord _ | .illegalFunction _ => False
  | .diag _ .none | .diag _ (.tuple _) => False
  | _ => True

/-- Every request the library encodes is byte-for-byte the specified PDU. -/
theorem enc_req_conforms (r : Req) (hp : Plain r) (h : WFReq r) :
    Impl.encReq r = .ok (PduSpec.encReq r) := by
  cases r <;> simp only [Plain] at hp <;> simp only [WFReq, U16, U8] at h
  case readCoils a n => simp [Impl.encReq, PduSpec.encReq, packH_ok h.1, packH_ok h.2, bind, Except.bind, pure, Except.pure]
  case readDiscrete a n => simp [Impl.encReq, PduSpec.encReq, packH_ok h.1, packH_ok h.2, bind, Except.bind, pure, Except.pure]
  case readHolding a n => simp [Impl.encReq, PduSpec.encReq, packH_ok h.1, packH_ok h.2, bind, Except.bind, pure, Except.pure]
  case readInput a n => simp [Impl.encReq, PduSpec.encReq, packH_ok h.1, packH_ok h.2, bind, Except.bind, pure, Except.pure]
  case writeCoil a w =>
    rcases h.2 with rfl | rfl <;>
      simp [Impl.encReq, PduSpec.encReq, packH_ok h.1, bind, Except.bind, pure, Except.pure, u16]
  case writeRegister a v => simp [Impl.encReq, PduSpec.encReq, packH_ok h.1, packH_ok h.2, bind, Except.bind, pure, Except.pure]
  case writeCoils a cnt bc vs =>
    obtain ⟨h1, h2, h3, h4⟩ := h
    subst h2 h3
    have hc : vs.length < 65536 := by unfold nbytes at h4; omega
    have h4' : (vs.length + 7) / 8 < 256 := h4
    simp [Impl.encReq, PduSpec.encReq, packH_ok h1, packH_ok hc, packB_ok h4', bind, Except.bind, pure, Except.pure,
      packBits_eq_spec, nbytes]
  case writeRegisters a cnt bc vs =>
    obtain ⟨h1, h2, h3, h4, h5⟩ := h
    subst h2 h3
    have hc : vs.length < 65536 := by omega
    simp [Impl.encReq, PduSpec.encReq, packH_ok h1, packH_ok hc, packB_ok h4, packHs_ok h5, bind, Except.bind, pure, Except.pure]
  case maskWrite a am om =>
    simp [Impl.encReq, PduSpec.encReq, packH_ok h.1, packH_ok h.2.1, packH_ok h.2.2, bind, Except.bind, pure, Except.pure]
  case readWrite ra rn wa wn wbc ws =>
    obtain ⟨h1, h2, h3, h4, h5, h6, h7⟩ := h
    subst h4 h5
    have hc : ws.length < 65536 := by omega
    simp [Impl.encReq, PduSpec.encReq, packH_ok h1, packH_ok h2, packH_ok h3, packH_ok hc, packB_ok h6, packHs_ok h7,
      bind, Except.bind, pure, Except.pure]
  case diag sub m =>
    cases m <;> simp only [Plain] at hp <;> simp only [WFReq, U16] at h
    case int n => simp [Impl.encReq, Impl.encDiag, PduSpec.encReq, packH_ok h.1, packH_ok h.2, bind, Except.bind, pure, Except.pure]
    case list ws => simp [Impl.encReq, Impl.encDiag, PduSpec.encReq, packH_ok h.1, packHs_ok h.2, bind, Except.bind, pure, Except.pure]
    case bytes bs => simp [Impl.encReq, Impl.encDiag, PduSpec.encReq, packH_ok h.1, bind, Except.bind, pure, Except.pure]
  case readExceptionStatus => rfl
  case getCommEventCounter => rfl
  case getCommEventLog => rfl
  case reportSlaveId => rfl
  case readFifo a => simp [Impl.encReq, PduSpec.encReq, packH_ok h]
  case readDeviceInfo sub rc oid =>
    obtain ⟨h1, h2, h3⟩ := h
    subst h1
    simp [Impl.encReq, PduSpec.encReq, Impl.packB, h2, h3, bind, Except.bind, pure, Except.pure]

/-- the server decoder accepts exactly one data word in a diagnostic request (known finding
    `diag-request-multiword`) -/
def DiagOneWord : Req → Prop
  | .diag _ (.list ws) => ws.length = 1
  | .diag _ (.bytes _) => False
  | _ => True

theorem dec_req_conforms (r : Req) (hp : Plain r) (h : WFReq r) (hd : DiagOneWord r) :
    Impl.decReq (r.fc :: PduSpec.encReq r) = .ok (normReq r) := by
  cases r <;> simp only [Plain] at hp <;> simp only [WFReq, U16, U8] at h
  case readCoils a n => simp [Impl.decReq, Impl.idx, Req.fc, PduSpec.encReq, unpackHH_u16, normReq, bind, Except.bind, pure, Except.pure]
  case readDiscrete a n => simp [Impl.decReq, Impl.idx, Req.fc, PduSpec.encReq, unpackHH_u16, normReq, bind, Except.bind, pure, Except.pure]
  case readHolding a n => simp [Impl.decReq, Impl.idx, Req.fc, PduSpec.encReq, unpackHH_u16, normReq, bind, Except.bind, pure, Except.pure]
  case readInput a n => simp [Impl.decReq, Impl.idx, Req.fc, PduSpec.encReq, unpackHH_u16, normReq, bind, Except.bind, pure, Except.pure]
  case writeCoil a w => simp [Impl.decReq, Impl.idx, Req.fc, PduSpec.encReq, unpackHH_u16, normReq, bind, Except.bind, pure, Except.pure]
  case writeRegister a v => simp [Impl.decReq, Impl.idx, Req.fc, PduSpec.encReq, unpackHH_u16, normReq, bind, Except.bind, pure, Except.pure]
  case maskWrite a am om =>
    have := unpackHHH_u16 a am om
    simp only [List.append_assoc] at this
    simp [Impl.decReq, Impl.idx, Req.fc, PduSpec.encReq, this, normReq, bind, Except.bind, pure, Except.pure]
  case readFifo a => simp [Impl.decReq, Impl.idx, Req.fc, PduSpec.encReq, unpackH_u16, normReq, bind, Except.bind, pure, Except.pure]
  case readExceptionStatus => rfl
  case getCommEventCounter => rfl
  case getCommEventLog => rfl
  case reportSlaveId => rfl
  case readDeviceInfo sub rc oid =>
    simp [Impl.decReq, Impl.idx, Req.fc, PduSpec.encReq, Impl.unpackBBB, normReq, bind, Except.bind, pure, Except.pure]
  case writeCoils a cnt bc vs =>
    obtain ⟨h1, h2, h3, h4⟩ := h
    subst h2 h3
    have hhdr : Impl.slice (u16 a ++ u16 vs.length ++ [nbytes vs.length] ++ PduSpec.packBits vs) 0 5 =
        u16 a ++ u16 vs.length ++ [nbytes vs.length] := by
      have := slice_prefix (u16 a ++ u16 vs.length ++ [nbytes vs.length]) (PduSpec.packBits vs)
      simpa [u16] using this
    have hdrop : (u16 a ++ u16 vs.length ++ [nbytes vs.length] ++ PduSpec.packBits vs).drop 5 = PduSpec.packBits vs := by
      simp [u16]
    simp only [Impl.decReq, Impl.idx, Req.fc, PduSpec.encReq, List.getElem?_cons_zero, List.drop_succ_cons, List.drop_zero,
      bind, Except.bind, pure, Except.pure, normReq]
    rw [hhdr, hdrop, unpackBits_spec_pack]
    simp [Impl.unpackHHB, u16, u16_recombine]
  case writeRegisters a cnt bc vs =>
    obtain ⟨h1, h2, h3, h4, h5⟩ := h
    subst h2 h3
    have hhdr : Impl.slice (u16 a ++ u16 vs.length ++ [2 * vs.length] ++ u16s vs) 0 5 =
        u16 a ++ u16 vs.length ++ [2 * vs.length] := by
      have := slice_prefix (u16 a ++ u16 vs.length ++ [2 * vs.length]) (u16s vs)
      simpa [u16] using this
    simp only [Impl.decReq, Impl.idx, Req.fc, PduSpec.encReq, List.getElem?_cons_zero, List.drop_succ_cons, List.drop_zero,
      bind, Except.bind, pure, Except.pure, normReq]
    rw [hhdr]
    have hreg := decRegsTolerant_u16s (u16 a ++ u16 vs.length ++ [2 * vs.length]) vs []
    simp only [List.append_nil] at hreg
    have hl : (u16 a ++ u16 vs.length ++ [2 * vs.length]).length = 5 := by simp [u16]
    rw [hl] at hreg
    simp [Impl.unpackHHB, u16, u16_recombine]
    simpa [u16] using hreg
  case readWrite ra rn wa wn wbc ws =>
    obtain ⟨h1, h2, h3, h4, h5, h6, h7⟩ := h
    subst h4 h5
    have hhdr : Impl.slice (u16 ra ++ u16 rn ++ u16 wa ++ u16 ws.length ++ [2 * ws.length] ++ u16s ws) 0 9 =
        u16 ra ++ u16 rn ++ u16 wa ++ u16 ws.length ++ [2 * ws.length] := by
      have := slice_prefix (u16 ra ++ u16 rn ++ u16 wa ++ u16 ws.length ++ [2 * ws.length]) (u16s ws)
      simpa [u16] using this
    simp only [Impl.decReq, Impl.idx, Req.fc, PduSpec.encReq, List.getElem?_cons_zero, List.drop_succ_cons, List.drop_zero,
      bind, Except.bind, pure, Except.pure, normReq]
    rw [hhdr]
    have hreg := decRegsTolerant_u16s (u16 ra ++ u16 rn ++ u16 wa ++ u16 ws.length ++ [2 * ws.length]) ws []
    simp only [List.append_nil] at hreg
    have hl : (u16 ra ++ u16 rn ++ u16 wa ++ u16 ws.length ++ [2 * ws.length]).length = 9 := by simp [u16]
    rw [hl] at hreg
    have hr : Impl.rangeLen 9 (2 * ws.length + 9) 2 = ws.length := by
      unfold Impl.rangeLen; split <;> omega
    simp [Impl.unpackHHHHB, u16, u16_recombine, hr]
    simpa [u16] using hreg
  case diag sub m =>
    cases m <;> simp only [Plain] at hp <;> simp only [DiagOneWord] at hd
    case int n =>
      simp [Impl.decReq, Impl.idx, Req.fc, PduSpec.encReq, unpackHH_u16, normReq, bind, Except.bind, pure, Except.pure]
    case list ws =>
      match ws, hd with
      | [n], _ =>
        simp [Impl.decReq, Impl.idx, Req.fc, PduSpec.encReq, u16s, unpackHH_u16, normReq, bind, Except.bind, pure, Except.pure]

def WFResp : Resp → Prop
  | .readCoils bits | .readDiscrete bits => nbytes bits.length < 256
  | .readHolding regs | .readInput regs | .readWrite regs => 2 * regs.length < 256 ∧ AllU16 regs
  | .writeCoil a _ => U16 a
  | .writeRegister a v => U16 a ∧ U16 v
  | .writeCoils a n | .writeRegisters a n => U16 a ∧ U16 n
  | .maskWrite a am om => U16 a ∧ U16 am ∧ U16 om
  | .diag sub (.list ws) => U16 sub ∧ AllU16 ws
  | .diag sub (.int n) => U16 sub ∧ U16 n
  | .diag _ _ => False
  | .readExceptionStatus st => U8 st
  | .getCommEventCounter _ c => U16 c
  | .getCommEventLog _ ec mc evs => 6 + evs.length < 256 ∧ U16 ec ∧ U16 mc ∧ AllU8 evs
  | .reportSlaveId ident _ => ident.length + 1 < 256
  | .exception fc code => 1 ≤ fc ∧ fc < 128 ∧ U8 code
  | .readFileRecord _ | .writeFileRecord _ | .readFifo _ | .readDeviceInfo .. => False


/-- Every response / exception response the library encodes is byte-for-byte the specified PDU. -/
theorem enc_resp_conforms (r : Resp) (h : WFResp r) : Impl.encResp r = .ok (PduSpec.encResp r) := by
  cases r <;> simp only [WFResp, U16, U8] at h
  case readCoils bits =>
    simp [Impl.encResp, PduSpec.encResp, packBits_eq_spec, truthy_eq, packB_ok h, spec_packBits_length,
      bind, Except.bind, pure, Except.pure]
  case readDiscrete bits =>
    simp [Impl.encResp, PduSpec.encResp, packBits_eq_spec, truthy_eq, packB_ok h, spec_packBits_length,
      bind, Except.bind, pure, Except.pure]
  case readHolding regs =>
    have hl : regs.length * 2 < 256 := by omega
    simp [Impl.encResp, PduSpec.encResp, int2byte_ok hl, packHs_ok h.2, bind, Except.bind, pure, Except.pure]; omega
  case readInput regs =>
    have hl : regs.length * 2 < 256 := by omega
    simp [Impl.encResp, PduSpec.encResp, int2byte_ok hl, packHs_ok h.2, bind, Except.bind, pure, Except.pure]; omega
  case readWrite regs =>
    have hl : regs.length * 2 < 256 := by omega
    simp [Impl.encResp, PduSpec.encResp, int2byte_ok hl, packHs_ok h.2, bind, Except.bind, pure, Except.pure]; omega
  case writeCoil a v =>
    simp [Impl.encResp, PduSpec.encResp, packH_ok h, truthy_eq, bind, Except.bind, pure, Except.pure]
  case writeRegister a v => simp [Impl.encResp, PduSpec.encResp, packH_ok h.1, packH_ok h.2, bind, Except.bind, pure, Except.pure]
  case writeCoils a n => simp [Impl.encResp, PduSpec.encResp, packH_ok h.1, packH_ok h.2, bind, Except.bind, pure, Except.pure]
  case writeRegisters a n => simp [Impl.encResp, PduSpec.encResp, packH_ok h.1, packH_ok h.2, bind, Except.bind, pure, Except.pure]
  case maskWrite a am om =>
    simp [Impl.encResp, PduSpec.encResp, packH_ok h.1, packH_ok h.2.1, packH_ok h.2.2, bind, Except.bind, pure, Except.pure]
  case diag sub m =>
    cases m <;> simp only [WFResp, U16] at h
    case int n => simp [Impl.encResp, Impl.encDiag, PduSpec.encResp, packH_ok h.1, packH_ok h.2, bind, Except.bind, pure, Except.pure]
    case list ws => simp [Impl.encResp, Impl.encDiag, PduSpec.encResp, packH_ok h.1, packHs_ok h.2, bind, Except.bind, pure, Except.pure]
  case readExceptionStatus st => simp [Impl.encResp, PduSpec.encResp, packB_ok h]
  case getCommEventCounter st c =>
    have hs : (if st = true then 0 else 0xFFFF) < 65536 := by split <;> decide
    simp [Impl.encResp, PduSpec.encResp, packH_ok hs, packH_ok h, bind, Except.bind, pure, Except.pure]
  case getCommEventLog st ec mc evs =>
    have hs : (if st = true then 0 else 0xFFFF) < 65536 := by split <;> decide
    simp [Impl.encResp, PduSpec.encResp, packB_ok h.1, packH_ok hs, packH_ok h.2.1, packH_ok h.2.2.1, packBs_ok h.2.2.2,
      bind, Except.bind, pure, Except.pure]
  case reportSlaveId ident st =>
    simp [Impl.encResp, PduSpec.encResp, int2byte_ok h, bind, Except.bind, pure, Except.pure]
  case exception fc code => simp [Impl.encResp, PduSpec.encResp, int2byte_ok h.2.2]


theorem bits_decode (bits : List Nat) :
    (unpackBits (PduSpec.packBits (bits.map PduSpec.truthy))).map Impl.b2n =
      padBits (bits.map (fun v => PduSpec.b2n (PduSpec.truthy v))) := by
  rw [unpackBits_spec_pack, b2n_eq]
  simp [padBits, PduSpec.b2n, Function.comp_def]

theorem and7f (fc : Nat) (h : fc < 128) : (fc ||| 0x80) &&& 0x7F = fc := by
  apply Nat.eq_of_testBit_eq
  intro i
  simp only [Nat.testBit_and, Nat.testBit_or]
  have h80 : (0x80 : Nat) = 2 ^ 7 := by decide
  have h7f : (0x7F : Nat) = 2 ^ 7 - 1 := by decide
  rw [h80, h7f, Nat.testBit_two_pow, Nat.testBit_two_pow_sub_one]
  by_cases hi : i < 7
  · have : ¬ (7 = i) := by omega
    simp [hi, this]
  · have : fc.testBit i = false := by
      apply Nat.testBit_lt_two_pow
      calc fc < 2 ^ 7 := by omega
        _ ≤ 2 ^ i := Nat.pow_le_pow_right (by decide) (by omega)
    simp [hi, this]

theorem or80_gt (fc : Nat) (h1 : 1 ≤ fc) (h : fc < 128) : fc ||| 0x80 > 0x80 := by
  have h1' : 0x80 ≤ fc ||| 0x80 := Nat.right_le_or
  have hne : fc ||| 0x80 ≠ 0x80 := by
    intro e
    have := and7f fc h
    rw [e] at this
    have : (0x80 : Nat) &&& 0x7F = 0 := by decide
    omega
  omega

theorem decResp_normal (fc : Nat) (d : Bytes) (h : ¬ fc > 0x80) :
    Impl.decResp (fc :: d) = match Impl.decRespBody fc d with
      | .ok r => some r
      | .error _ => none := by
  unfold Impl.decResp
  simp only []
  rw [if_neg h]
  cases Impl.decRespBody fc d <;> rfl

theorem dec_resp_conforms (r : Resp) (h : WFResp r) :
    Impl.decResp (r.fc :: PduSpec.encResp r) = some (normResp r) := by
  cases r <;> simp only [WFResp, U16, U8] at h
  case readCoils bits =>
    simp only [Impl.decResp, Resp.fc, PduSpec.encResp, Impl.decRespBody, Impl.idx, List.cons_append, List.nil_append,
      List.getElem?_cons_zero, List.drop_succ_cons, List.drop_zero, bind, Except.bind, pure, Except.pure, normResp, bits_decode]
    simp
  case readDiscrete bits =>
    simp only [Impl.decResp, Resp.fc, PduSpec.encResp, Impl.decRespBody, Impl.idx, List.cons_append, List.nil_append,
      List.getElem?_cons_zero, List.drop_succ_cons, List.drop_zero, bind, Except.bind, pure, Except.pure, normResp, bits_decode]
    simp
  case readHolding regs =>
    have := decRegsStrict_u16s [2 * regs.length] regs []
    simp only [List.append_nil, List.length_cons, List.length_nil, List.singleton_append, Nat.zero_add] at this
    simp [Impl.decResp, Resp.fc, PduSpec.encResp, Impl.decRespBody, Impl.idx, rangeLen_regs, this, normResp,
      bind, Except.bind, pure, Except.pure]
  case readInput regs =>
    have := decRegsStrict_u16s [2 * regs.length] regs []
    simp only [List.append_nil, List.length_cons, List.length_nil, List.singleton_append, Nat.zero_add] at this
    simp [Impl.decResp, Resp.fc, PduSpec.encResp, Impl.decRespBody, Impl.idx, rangeLen_regs, this, normResp,
      bind, Except.bind, pure, Except.pure]
  case readWrite regs =>
    have := decRegsStrict_u16s [2 * regs.length] regs []
    simp only [List.append_nil, List.length_cons, List.length_nil, List.singleton_append, Nat.zero_add] at this
    simp [Impl.decResp, Resp.fc, PduSpec.encResp, Impl.decRespBody, Impl.idx, rangeLen_regs', this, normResp,
      bind, Except.bind, pure, Except.pure]
  case writeCoil a v =>
    cases hv : PduSpec.truthy v <;>
      simp [Impl.decResp, Resp.fc, PduSpec.encResp, Impl.decRespBody, hv, Impl.unpackHH, u16, u16_recombine, normResp,
        Impl.b2n, PduSpec.b2n, bind, Except.bind, pure, Except.pure]
  case writeRegister a v =>
    simp [Impl.decResp, Resp.fc, PduSpec.encResp, Impl.decRespBody, unpackHH_u16, normResp, bind, Except.bind, pure, Except.pure]
  case writeCoils a n =>
    simp [Impl.decResp, Resp.fc, PduSpec.encResp, Impl.decRespBody, unpackHH_u16, normResp, bind, Except.bind, pure, Except.pure]
  case writeRegisters a n =>
    simp [Impl.decResp, Resp.fc, PduSpec.encResp, Impl.decRespBody, unpackHH_u16, normResp, bind, Except.bind, pure, Except.pure]
  case maskWrite a am om =>
    have := unpackHHH_u16 a am om
    simp only [List.append_assoc] at this
    simp [Impl.decResp, Resp.fc, PduSpec.encResp, Impl.decRespBody, this, normResp, bind, Except.bind, pure, Except.pure]
  case readExceptionStatus st =>
    simp [Impl.decResp, Resp.fc, PduSpec.encResp, Impl.decRespBody, Impl.idx, normResp, bind, Except.bind, pure, Except.pure]
  case getCommEventCounter st c =>
    cases st <;>
      simp [Impl.decResp, Resp.fc, PduSpec.encResp, Impl.decRespBody, unpackHH_u16, normResp, bind, Except.bind, pure, Except.pure]
  case exception fc code =>
    have h1 := or80_gt fc h.1 h.2.1
    have hfc : (Resp.exception fc code).fc = fc ||| 0x80 := rfl
    rw [hfc]
    unfold Impl.decResp
    simp only [PduSpec.encResp, normResp]
    rw [if_pos h1, and7f fc h.2.1]
  case diag sub m =>
    cases m <;> simp only [WFResp, U16] at h
    case int n =>
      have := decRegsStrict_u16s [] [sub, n] []
      simp only [List.append_nil, List.nil_append, List.length_cons, List.length_nil, u16s, List.flatMap_cons,
        List.flatMap_nil] at this
      simp [Impl.decResp, Resp.fc, PduSpec.encResp, Impl.decRespBody, u16, normResp, bind, Except.bind, pure, Except.pure]
      simp [u16] at this
      simp [this]
    case list ws =>
      have := decRegsStrict_u16s [] (sub :: ws) []
      simp only [List.append_nil, List.nil_append, List.length_nil] at this
      have hd : PduSpec.encResp (.diag sub (.list ws)) = u16s (sub :: ws) := by simp [PduSpec.encResp, u16s]
      have hl : (u16s (sub :: ws)).length = 2 * (ws.length + 1) := by rw [u16s_length]; rfl
      rw [show (Resp.diag sub (.list ws)).fc = 8 from rfl, decResp_normal _ _ (by decide), hd]
      simp only [Impl.decRespBody, normResp]
      have hmod : ¬ ((u16s (sub :: ws)).length % 2 = 1) := by rw [hl]; omega
      rw [if_neg hmod, hl]
      have hdiv : 2 * (ws.length + 1) / 2 = (sub :: ws).length := by
        show 2 * (ws.length + 1) / 2 = ws.length + 1
        omega
      rw [hdiv, this]
      simp [bind, Except.bind, pure, Except.pure]
  case getCommEventLog st ec mc evs =>
    obtain ⟨h1, h2, h3, h4⟩ := h
    let pre : Bytes := [6 + evs.length] ++ u16 (if st then 0 else 0xFFFF) ++ u16 ec ++ u16 mc
    have hev := decEvents_append pre evs []
    have hpl : pre.length = 7 := by simp [pre, u16]
    rw [hpl] at hev
    simp only [List.append_nil] at hev
    have hd : PduSpec.encResp (.getCommEventLog st ec mc evs) = pre ++ evs := by
      simp [PduSpec.encResp, pre]
    rw [show (Resp.getCommEventLog st ec mc evs).fc = 12 from rfl, decResp_normal _ _ (by decide), hd]
    simp only [Impl.decRespBody, normResp]
    have e0 : Impl.idx (pre ++ evs) 0 = .ok (6 + evs.length) := by simp [Impl.idx, pre]
    have e1 : Impl.slice (pre ++ evs) 1 3 = u16 (if st then 0 else 0xFFFF) := by simp [Impl.slice, pre, u16]
    have e2 : Impl.slice (pre ++ evs) 3 5 = u16 ec := by simp [Impl.slice, pre, u16]
    have e3 : Impl.slice (pre ++ evs) 5 7 = u16 mc := by simp [Impl.slice, pre, u16]
    rw [e0, e1, e2, e3]
    simp only [bind, Except.bind, pure, Except.pure, unpackH_u16, rangeLen_events, hev]
    cases st <;> simp
  case reportSlaveId ident st =>
    have hs : Impl.slice ([ident.length + 1] ++ ident ++ [if st then 0xFF else 0]) 1 (ident.length + 1) = ident := by
      have := slice_mid [ident.length + 1] ident [if st then 0xFF else 0]
      simpa [Nat.add_comm] using this
    have hd : PduSpec.encResp (.reportSlaveId ident st) = [ident.length + 1] ++ ident ++ [if st then 0xFF else 0] := rfl
    rw [show (Resp.reportSlaveId ident st).fc = 17 from rfl, decResp_normal _ _ (by decide), hd]
    simp only [Impl.decRespBody, Impl.idx, normResp]
    have e0 : ([ident.length + 1] ++ ident ++ [if st then 0xFF else 0])[0]? = some (ident.length + 1) := by simp
    rw [e0]
    simp only [bind, Except.bind, hs]
    have el : ([ident.length + 1] ++ ident ++ [if st then 0xFF else 0]).getLast? = some (if st then 0xFF else 0) := by
      rw [List.getLast?_append]; simp
    rw [el]
    cases st <;> simp [pure, Except.pure]


/-! ### bit packing: LSB first, zero padded -/

/-! ### file records (FC 20 request, FC 21 request and response): conformance for every list of sub-requests -/

def WFRec (r : FileRec) : Prop := U16 r.fileNumber ∧ U16 r.recordNumber ∧ U16 r.recordLength

/-- a write sub-request carries `record_length` registers of data -/
def WFRecWrite (r : FileRec) : Prop := WFRec r ∧ r.recordData.length = 2 * r.recordLength

theorem encRecs7_spec (rs : List FileRec) (h : ∀ r ∈ rs, WFRec r) :
    Impl.encRecs7 rs = .ok (rs.flatMap fileSubReq) := by
  induction rs with
  | nil => rfl
  | cons r rs ih =>
    obtain ⟨h1, h2, h3⟩ := h r (by simp)
    simp only [WFRec, U16] at h1 h2 h3
    simp [Impl.encRecs7, packB_ok (show 6 < 256 by decide), packH_ok h1, packH_ok h2, packH_ok h3,
      ih (fun x hx => h x (by simp [hx])), fileSubReq, bind, Except.bind, pure, Except.pure]

theorem encRecsWrite_spec (rs : List FileRec) (h : ∀ r ∈ rs, WFRec r) :
    Impl.encRecsWrite rs = .ok (rs.flatMap fileSubWrite) := by
  induction rs with
  | nil => rfl
  | cons r rs ih =>
    obtain ⟨h1, h2, h3⟩ := h r (by simp)
    simp only [WFRec, U16] at h1 h2 h3
    simp [Impl.encRecsWrite, packH_ok h1, packH_ok h2, packH_ok h3,
      ih (fun x hx => h x (by simp [hx])), fileSubWrite, fileSubReq, bind, Except.bind, pure, Except.pure]

theorem sumMap_write (rs : List FileRec) (h : ∀ r ∈ rs, WFRecWrite r) :
    Impl.sumMap (fun r => r.recordLength * 2 + 7) rs = PduSpec.sum (rs.map (fun r => 7 + r.recordData.length)) := by
  induction rs with
  | nil => rfl
  | cons r rs ih =>
    have hr := (h r (by simp)).2
    have := ih (fun x hx => h x (by simp [hx]))
    simp only [Impl.sumMap, PduSpec.sum, List.map_cons, List.foldr_cons] at this ⊢
    omega

/-- what the server-side decoder makes of a read sub-request: the three fields; no data, response length 1 -/
def readRecDecoded (r : FileRec) : FileRec :=
  { referenceType := 6, fileNumber := r.fileNumber, recordNumber := r.recordNumber, recordData := [],
    recordLength := r.recordLength, responseLength := 1 }

theorem fileSubReq_length (r : FileRec) : (fileSubReq r).length = 7 := by simp [fileSubReq, u16]

theorem unpack_sub (r : FileRec) (h : WFRec r) :
    Impl.unpackBHHH (fileSubReq r) = .ok (6, r.fileNumber, r.recordNumber, r.recordLength) := by
  obtain ⟨h1, h2, h3⟩ := h
  simp only [U16] at h1 h2 h3
  simp only [fileSubReq, u16, List.cons_append, List.nil_append, Impl.unpackBHHH]
  congr 1
  simp only [Prod.mk.injEq, true_and]
  refine ⟨?_, ?_, ?_⟩ <;> omega

theorem decRecs7_spec (rs : List FileRec) (h : ∀ r ∈ rs, WFRec r) (pre tail : Bytes) :
    Impl.decRecs7 (pre ++ rs.flatMap fileSubReq ++ tail) pre.length rs.length = .ok (rs.map readRecDecoded) := by
  induction rs generalizing pre with
  | nil => rfl
  | cons r rs ih =>
    have hsl : Impl.slice (pre ++ (r :: rs).flatMap fileSubReq ++ tail) pre.length (pre.length + 7) = fileSubReq r := by
      simp only [Impl.slice, List.flatMap_cons, List.append_assoc, List.drop_left']
      rw [show pre.length + 7 - pre.length = 7 by omega]
      have := fileSubReq_length r
      rw [List.take_append_of_le_length (by omega), List.take_of_length_le (by omega)]
    have ih' := ih (fun x hx => h x (by simp [hx])) (pre ++ fileSubReq r)
    simp only [List.length_append, fileSubReq_length, List.append_assoc] at ih'
    have hd : pre ++ (r :: rs).flatMap fileSubReq ++ tail = pre ++ (fileSubReq r ++ (rs.flatMap fileSubReq ++ tail)) := by
      simp [List.flatMap_cons, List.append_assoc]
    rw [List.length_cons, Impl.decRecs7]
    simp only [hsl, unpack_sub r (h r (by simp)), bind, Except.bind]
    rw [hd, ih']
    rfl

/-- every conformant Read File Record request PDU decodes to its sub-requests, in order — any number of them -/
theorem dec_readFileRecord_req_conforms (rs : List FileRec) (h : ∀ r ∈ rs, WFRec r) (hl : 7 * rs.length < 256) :
    Impl.decReq (20 :: PduSpec.encReq (.readFileRecord rs)) = .ok (.readFileRecord (rs.map readRecDecoded)) := by
  have hn : Impl.rangeLen 1 (7 * rs.length) 7 = rs.length := by
    unfold Impl.rangeLen
    split <;> omega
  have := decRecs7_spec rs h [7 * rs.length] []
  simp only [List.length_singleton, List.append_nil] at this
  show Impl.decReq (20 :: ([7 * rs.length] ++ rs.flatMap fileSubReq)) = _
  unfold Impl.decReq
  simp only [List.drop_one, List.tail_cons, Impl.idx, List.singleton_append, List.getElem?_cons_zero, hn, bind, Except.bind, pure, Except.pure]
  rw [show (7 * rs.length :: List.flatMap fileSubReq rs) = [7 * rs.length] ++ List.flatMap fileSubReq rs from rfl, this]

/-- what the decoder makes of a write sub-request: the fields and the data; `response_length` = data length + 1 -/
def writeRecDecoded (r : FileRec) : FileRec :=
  { referenceType := 6, fileNumber := r.fileNumber, recordNumber := r.recordNumber, recordData := r.recordData,
    recordLength := r.recordLength, responseLength := r.recordData.length + 1 }

def writeSizes (rs : List FileRec) : Nat := PduSpec.sum (rs.map (fun r => 7 + r.recordData.length))

theorem fileSubWrite_length (r : FileRec) : (fileSubWrite r).length = 7 + r.recordData.length := by
  simp [fileSubWrite, fileSubReq, u16]; omega

theorem writeSizes_cons (r : FileRec) (rs : List FileRec) :
    writeSizes (r :: rs) = 7 + r.recordData.length + writeSizes rs := by
  simp [writeSizes, PduSpec.sum]

theorem decRecsWrite_spec (rs : List FileRec) (h : ∀ r ∈ rs, WFRecWrite r) (pre : Bytes) (fuel B : Nat)
    (hf : rs.length ≤ fuel) (hB1 : B ≤ pre.length + writeSizes rs) (hB2 : pre.length + writeSizes rs < B + 7) :
    Impl.decRecsWrite (pre ++ rs.flatMap fileSubWrite) B pre.length fuel = .ok (rs.map writeRecDecoded) := by
  induction rs generalizing pre fuel with
  | nil =>
    cases fuel with
    | zero => rfl
    | succ f =>
      have : ¬ pre.length < B := by simp [writeSizes, PduSpec.sum] at hB1; omega
      simp [Impl.decRecsWrite, this]
  | cons r rs ih =>
    obtain ⟨hw, hlen⟩ := h r (by simp)
    cases fuel with
    | zero => simp at hf
    | succ f =>
      have hf' : rs.length ≤ f := by simpa using hf
      have hlt : pre.length < B := by rw [writeSizes_cons] at hB2; omega
      have hsub := fileSubReq_length r
      have hd : pre ++ (r :: rs).flatMap fileSubWrite = pre ++ (fileSubReq r ++ (r.recordData ++ rs.flatMap fileSubWrite)) := by
        simp [List.flatMap_cons, fileSubWrite, List.append_assoc]
      have hsl : Impl.slice (pre ++ (r :: rs).flatMap fileSubWrite) pre.length (pre.length + 7) = fileSubReq r := by
        rw [hd]
        simp only [Impl.slice, List.drop_left']
        rw [show pre.length + 7 - pre.length = 7 by omega]
        rw [List.take_append_of_le_length (by omega), List.take_of_length_le (by omega)]
      have hdata : Impl.slice (pre ++ (r :: rs).flatMap fileSubWrite)
          (pre.length + r.recordLength * 2 + 7 - r.recordLength * 2) (pre.length + r.recordLength * 2 + 7) = r.recordData := by
        rw [hd, ← List.append_assoc]
        have hl : (pre ++ fileSubReq r).length = pre.length + r.recordLength * 2 + 7 - r.recordLength * 2 := by
          simp [hsub]; omega
        simp only [Impl.slice]
        rw [← hl, List.drop_left' rfl]
        have hk : pre.length + r.recordLength * 2 + 7 - (pre ++ fileSubReq r).length = r.recordData.length := by
          simp [hsub]; omega
        rw [hk, List.take_left' rfl]
      have hpl : (pre ++ fileSubWrite r).length = pre.length + r.recordLength * 2 + 7 := by
        simp [fileSubWrite_length]; omega
      have hbc : (pre ++ fileSubWrite r).length + writeSizes rs = pre.length + writeSizes (r :: rs) := by
        rw [writeSizes_cons, hpl]; omega
      have hih := ih (fun x hx => h x (by simp [hx])) (pre ++ fileSubWrite r) f hf' (by rw [hbc]; exact hB1) (by rw [hbc]; exact hB2)
      have hd2 : pre ++ (r :: rs).flatMap fileSubWrite = (pre ++ fileSubWrite r) ++ rs.flatMap fileSubWrite := by
        simp [List.flatMap_cons, List.append_assoc]
      rw [← hd2, hpl] at hih
      rw [Impl.decRecsWrite]
      simp only [hlt, if_true, hsl, unpack_sub r hw, bind, Except.bind, hdata, hih, pure, Except.pure, List.map_cons,
        writeRecDecoded]

theorem flatMap_write_length (rs : List FileRec) : (rs.flatMap fileSubWrite).length = writeSizes rs := by
  induction rs with
  | nil => rfl
  | cons r rs ih => rw [List.flatMap_cons, List.length_append, ih, fileSubWrite_length, writeSizes_cons]

theorem length_le_writeSizes (rs : List FileRec) : rs.length ≤ writeSizes rs := by
  induction rs with
  | nil => simp [writeSizes, PduSpec.sum]
  | cons r rs ih => rw [writeSizes_cons]; simp only [List.length_cons]; omega

/-- every conformant Write File Record request PDU decodes to its sub-requests with their data, in order -/
theorem dec_writeFileRecord_req_conforms (rs : List FileRec) (h : ∀ r ∈ rs, WFRecWrite r) :
    Impl.decReq (21 :: PduSpec.encReq (.writeFileRecord rs)) = .ok (.writeFileRecord (rs.map writeRecDecoded)) := by
  have hlen : ([writeSizes rs] ++ rs.flatMap fileSubWrite).length = 1 + writeSizes rs := by
    rw [List.length_append, flatMap_write_length]; rfl
  have := decRecsWrite_spec rs h [writeSizes rs] (1 + writeSizes rs) (writeSizes rs)
    (by have := length_le_writeSizes rs; omega) (by simp) (by simp; omega)
  simp only [List.length_singleton] at this
  show Impl.decReq (21 :: ([writeSizes rs] ++ rs.flatMap fileSubWrite)) = _
  unfold Impl.decReq
  simp only [List.drop_one, List.tail_cons, Impl.idx, List.singleton_append, List.getElem?_cons_zero, bind, Except.bind, pure, Except.pure]
  rw [show (writeSizes rs :: List.flatMap fileSubWrite rs) = [writeSizes rs] ++ List.flatMap fileSubWrite rs from rfl, hlen, this]

/-- … and so does the Write File Record response (the same layout) through the client-side decoder -/
theorem dec_writeFileRecord_resp_conforms (rs : List FileRec) (h : ∀ r ∈ rs, WFRecWrite r) :
    Impl.decResp (21 :: PduSpec.encResp (.writeFileRecord rs)) = some (.writeFileRecord (rs.map writeRecDecoded)) := by
  have hlen : ([writeSizes rs] ++ rs.flatMap fileSubWrite).length = 1 + writeSizes rs := by
    rw [List.length_append, flatMap_write_length]; rfl
  have := decRecsWrite_spec rs h [writeSizes rs] (1 + writeSizes rs) (writeSizes rs)
    (by have := length_le_writeSizes rs; omega) (by simp) (by simp; omega)
  simp only [List.length_singleton] at this
  show Impl.decResp (21 :: ([writeSizes rs] ++ rs.flatMap fileSubWrite)) = _
  unfold Impl.decResp
  simp only [show ¬ (21 > 0x80) by decide, if_false]
  unfold Impl.decRespBody
  simp only [Impl.idx, List.singleton_append, List.getElem?_cons_zero, bind, Except.bind, pure, Except.pure]
  rw [show (writeSizes rs :: List.flatMap fileSubWrite rs) = [writeSizes rs] ++ List.flatMap fileSubWrite rs from rfl, hlen, this]

/-- Read File Record request: byte count 7·n, then per sub-request `06 file record length` -/
theorem enc_readFileRecord_req_conforms (rs : List FileRec) (h : ∀ r ∈ rs, WFRec r) (hl : 7 * rs.length < 256) :
    Impl.encReq (.readFileRecord rs) = .ok (PduSpec.encReq (.readFileRecord rs)) := by
  have hl' : rs.length * 7 < 256 := by omega
  simp [Impl.encReq, PduSpec.encReq, packB_ok hl', encRecs7_spec rs h, bind, Except.bind, pure, Except.pure]
  omega

/-- Write File Record request: byte count Σ(7 + 2·Nᵢ), then per sub-request `06 file record length data` -/
theorem enc_writeFileRecord_req_conforms (rs : List FileRec) (h : ∀ r ∈ rs, WFRecWrite r)
    (hl : PduSpec.sum (rs.map (fun r => 7 + r.recordData.length)) < 256) :
    Impl.encReq (.writeFileRecord rs) = .ok (PduSpec.encReq (.writeFileRecord rs)) := by
  have hs := sumMap_write rs h
  simp [Impl.encReq, PduSpec.encReq, hs, packB_ok hl, encRecsWrite_spec rs (fun r hr => (h r hr).1),
    bind, Except.bind, pure, Except.pure]

/-- … and the Write File Record response (an echo of the request) -/
theorem enc_writeFileRecord_resp_conforms (rs : List FileRec) (h : ∀ r ∈ rs, WFRecWrite r)
    (hl : PduSpec.sum (rs.map (fun r => 7 + r.recordData.length)) < 256) :
    Impl.encResp (.writeFileRecord rs) = .ok (PduSpec.encResp (.writeFileRecord rs)) := by
  have hs := sumMap_write rs h
  simp [Impl.encResp, PduSpec.encResp, hs, packB_ok hl, encRecsWrite_spec rs (fun r hr => (h r hr).1),
    bind, Except.bind, pure, Except.pure]

example : WFRecWrite { fileNumber := 4, recordNumber := 7, recordLength := 2, recordData := [0, 1, 0, 2] } := by
  simp [WFRecWrite, WFRec, U16]



theorem packBits_spec (bits : List Bool) : packBits bits = PduSpec.packBits bits := packBits_eq_spec bits

theorem packBits_length (bits : List Bool) : (packBits bits).length = (bits.length + 7) / 8 := by
  rw [packBits_eq_spec, spec_packBits_length]; rfl

theorem unpack_pack (bits : List Bool) :
    unpackBits (packBits bits) = bits ++ List.replicate (8 * ((bits.length + 7) / 8) - bits.length) false := by
  rw [packBits_eq_spec]; exact unpackBits_spec_pack bits

/-! ### error responses: function code | 0x80, then the exception code -/

theorem exception_layout (fc code : Nat) (h : code < 256) :
    (Resp.exception fc code).fc = fc ||| 0x80 ∧ Impl.encResp (.exception fc code) = .ok [code] := by
  exact ⟨rfl, by simp [Impl.encResp, int2byte_ok h]⟩

theorem exception_decode (b code : Nat) (rest : Bytes) (h : b > 0x80) :
    Impl.decResp (b :: code :: rest) = some (.exception (b &&& 0x7F) code) := by
  unfold Impl.decResp; simp only []; rw [if_pos h]

/-! ### dispatch tables read from the source on this run -/

theorem generated_server_table :
    Generated.serverTable =
      [(1, "ReadCoilsRequest"), (2, "ReadDiscreteInputsRequest"), (3, "ReadHoldingRegistersRequest"),
       (4, "ReadInputRegistersRequest"), (5, "WriteSingleCoilRequest"), (6, "WriteSingleRegisterRequest"),
       (7, "ReadExceptionStatusRequest"), (8, "DiagnosticStatusRequest"), (11, "GetCommEventCounterRequest"),
       (12, "GetCommEventLogRequest"), (15, "WriteMultipleCoilsRequest"), (16, "WriteMultipleRegistersRequest"),
       (17, "ReportSlaveIdRequest"), (20, "ReadFileRecordRequest"), (21, "WriteFileRecordRequest"),
       (22, "MaskWriteRegisterRequest"), (23, "ReadWriteMultipleRegistersRequest"), (24, "ReadFifoQueueRequest"),
       (43, "ReadDeviceInformationRequest")] := by decide

theorem generated_client_table :
    Generated.clientTable =
      [(1, "ReadCoilsResponse"), (2, "ReadDiscreteInputsResponse"), (3, "ReadHoldingRegistersResponse"),
       (4, "ReadInputRegistersResponse"), (5, "WriteSingleCoilResponse"), (6, "WriteSingleRegisterResponse"),
       (7, "ReadExceptionStatusResponse"), (8, "DiagnosticStatusResponse"), (11, "GetCommEventCounterResponse"),
       (12, "GetCommEventLogResponse"), (15, "WriteMultipleCoilsResponse"), (16, "WriteMultipleRegistersResponse"),
       (17, "ReportSlaveIdResponse"), (20, "ReadFileRecordResponse"), (21, "WriteFileRecordResponse"),
       (22, "MaskWriteRegisterResponse"), (23, "ReadWriteMultipleRegistersResponse"), (24, "ReadFifoQueueResponse"),
       (43, "ReadDeviceInformationResponse")] := by decide

/-- the 17 diagnostic sub-functions and MEI type 0x0E, both directions, with the class each
    sub-function code dispatches to -/
theorem generated_sub_tables :
    Generated.serverSubTable =
      (Impl.diagSubs.map (fun s => (8, s, Impl.diagReqClass s))) ++ [(43, 14, "ReadDeviceInformationRequest")] ∧
    Generated.clientSubTable =
      (Impl.diagSubs.map (fun s => (8, s, Impl.diagRespClass s))) ++ [(43, 14, "ReadDeviceInformationResponse")] ∧
    Generated.exceptionOffset = 0x80 ∧
    Generated.excCodes = [("Acknowledge", 5), ("GatewayNoResponse", 11), ("GatewayPathUnavailable", 10),
      ("IllegalAddress", 2), ("IllegalFunction", 1), ("IllegalValue", 3), ("MemoryParityError", 8),
      ("SlaveBusy", 6), ("SlaveFailure", 4)] := by decide

/-- the model's dispatch agrees with the table: a supported function code never decodes to
    `illegalFunction`, an unsupported one always does -/
theorem dispatch_unknown (fc : Nat) (d : Bytes) (h : fc ∉ Generated.serverTable.map (·.1)) :
    Impl.decReq (fc :: d) = .ok (.illegalFunction fc) := by
  rw [generated_server_table] at h
  simp only [List.map_cons, List.map_nil, List.mem_cons, List.not_mem_nil, or_false, not_or] at h
  obtain ⟨h1, h2, h3, h4, h5, h6, h7, h8, h11, h12, h15, h16, h17, h20, h21, h22, h23, h24, h43⟩ := h
  unfold Impl.decReq
  simp only [Impl.idx, List.getElem?_cons_zero, bind, Except.bind]
  first | rfl | (split <;> first | (exfalso; omega) | rfl)

/-! ### known findings: the full statement fails, with a concrete witness -/

def C01_resp_full : Prop :=
  ∀ r : Resp, (match r with | .readFifo vs => AllU16 vs ∧ vs.length ≤ 31 | _ => False) →
    Impl.encResp r = .ok (PduSpec.encResp r)

/-- FIFO response: the count field carries the byte length -/
theorem fifo_counterexample :
    Impl.encResp (.readFifo [1, 2, 3]) = .ok [0, 8, 0, 6, 0, 1, 0, 2, 0, 3] ∧
    PduSpec.encResp (.readFifo [1, 2, 3]) = [0, 8, 0, 3, 0, 1, 0, 2, 0, 3] ∧
    Impl.decResp (24 :: PduSpec.encResp (.readFifo [1, 2, 3])) = some (.readFifo []) := ⟨rfl, rfl, rfl⟩

theorem not_C01_resp_full : ¬ C01_resp_full := by
  intro h
  have := h (.readFifo [1, 2, 3]) ⟨by intro v hv; simp at hv; omega, by decide⟩
  rw [fifo_counterexample.1, fifo_counterexample.2.1] at this
  simp at this

/-- read-file-record response: sub-response header bytes in the wrong order -/
theorem file_record_counterexample :
    let r : Resp := .readFileRecord [{ recordData := [0, 1, 0, 2], recordLength := 2, responseLength := 5 }]
    Impl.encResp r = .ok [6, 6, 2, 0, 1, 0, 2] ∧ PduSpec.encResp r = [6, 5, 6, 0, 1, 0, 2] := ⟨rfl, rfl⟩

/-- diagnostic request with two data words is rejected by the decoder -/
theorem diag_multiword_counterexample :
    Impl.decReq (8 :: PduSpec.encReq (.diag 0 (.list [1, 2]))) = .error .struct := rfl

/-! ### Event bytes carried by the FC 12 (Get Comm Event Log) reply — `pymodbus/events.py`

  Outside the message classes the property quantifies over (the reply treats `events` as opaque
  bytes, covered above); modelled so that the whole of what the library can put on the wire for
  FC 12 is inside the model.  Every statement is over ALL flag combinations / all 256 bytes. -/
section Events
open Pymodbus.Events

/-- `RemoteSendEvent.encode` is the specification's byte: flags in bits 0..5, bit 6 set, bit 7 clear. -/
theorem event_send_conforms (r a b n w l : Bool) :
    encode (.send r a b n w l) = [specSendByte r a b n w l] := by
  cases r <;> cases a <;> cases b <;> cases n <;> cases w <;> cases l <;> rfl

/-- `RemoteSendEvent`: decode ∘ encode is the identity. -/
theorem event_send_roundtrip (r a b n w l : Bool) :
    (encode (.send r a b n w l)).map decodeSend = [.send r a b n w l] := by
  cases r <;> cases a <;> cases b <;> cases n <;> cases w <;> cases l <;> rfl

/-- `RemoteReceiveEvent.decode` reads the specification's bits (4 overrun, 5 listen-only, 6 broadcast). -/
theorem event_recv_decode_conforms (o l b : Bool) :
    decodeRecv (specRecvByte o l b) = .recv o l b := by
  cases o <;> cases l <;> cases b <;> rfl

/-- `RemoteReceiveEvent.encode` AS CODED (`[False] * 3` — seven bits) puts every flag one bit too low
    and leaves bit 7 clear: the byte is `specRecvByte / 2`. -/
theorem event_recv_encode_as_coded (o l b : Bool) :
    encode (.recv o l b) = [specRecvByte o l b / 2] := by
  cases o <;> cases l <;> cases b <;> rfl

/-- …so it conforms for NO flag combination (bit 7, which marks a receive event, is never set), -/
theorem event_recv_encode_never_conforms (o l b : Bool) :
    encode (.recv o l b) ≠ [specRecvByte o l b] := by
  cases o <;> cases l <;> cases b <;> decide

/-- …and the class's own decode does not give back what was encoded (witness: overrun only). -/
theorem event_recv_roundtrip_counterexample :
    (encode (.recv true false false)).map decodeRecv = [.recv false false true] := rfl

/-- the two fixed-value events round-trip and refuse every other byte -/
theorem event_fixed_roundtrip :
    (encode .listenMode).map decodeListen = [some .listenMode] ∧
    (encode .restart).map decodeRestart = [some .restart] ∧
    (∀ v, v ≠ 4 → decodeListen v = none) ∧ (∀ v, v ≠ 0 → decodeRestart v = none) := by
  refine ⟨rfl, rfl, ?_, ?_⟩ <;> intro v hv <;> simp [decodeListen, decodeRestart, hv]

/-- `RemoteSendEvent.decode` of any byte re-encodes to that byte's low six bits with the marker:
    decode loses nothing but the two marker bits. -/
theorem event_send_decode_encode : ∀ v, v < 256 → encode (decodeSend v) = [v % 64 + 64] := by
  decide +kernel

/-- every event encodes to exactly one byte -/
theorem event_encode_length (e : Event) : (encode e).length = 1 := by
  cases e with
  | recv o l b => cases o <;> cases l <;> cases b <;> rfl
  | send r a b n w l => cases r <;> cases a <;> cases b <;> cases n <;> cases w <;> cases l <;> rfl
  | listenMode => rfl
  | restart => rfl

/-- The event log never holds more than 64 entries, whatever the history of `addEvent` calls
    (invariant by induction over the calls), -/
theorem eventlog_bounded (log es : List Event) (h : log.length ≤ 64) : (runLog log es).length ≤ 64 := by
  induction es generalizing log with
  | nil => exact h
  | cons e es ih =>
    apply ih
    simp only [addEvent, List.length_take]; omega

/-- …so `getEvents()` is at most 64 bytes and the FC 12 reply (status, event count, message count,
    events) always fits a 253-byte PDU, -/
theorem eventlog_bytes_bounded (es : List Event) : (getEvents (runLog [] es)).length ≤ 64 := by
  have hb := eventlog_bounded [] es (by simp)
  have : ∀ l : List Event, (getEvents l).length = l.length := by
    intro l
    induction l with
    | nil => rfl
    | cons e l ih =>
      have h1 : getEvents (e :: l) = encode e ++ getEvents l := rfl
      rw [h1, List.length_append, event_encode_length, ih, List.length_cons]; omega
  rw [this]; exact hb

/-- …and the newest event comes first: after `addEvent e` the log's bytes start with `e`'s byte. -/
theorem eventlog_newest_first (log : List Event) (e : Event) :
    getEvents (addEvent log e) = encode e ++ getEvents (log.take 63) := by
  simp [addEvent, getEvents, List.take_succ_cons]

/-- model event for a row of the generated table -/
def eventOfRow (k : String) (f : List Nat) : Option Event :=
  let g := fun i => f.getD i 0 != 0
  if k = "recv" then some (.recv (g 0) (g 1) (g 2))
  else if k = "send" then some (.send (g 0) (g 1) (g 2) (g 3) (g 4) (g 5))
  else if k = "listen" then some .listenMode
  else if k = "restart" then some .restart
  else none

/-- a row of OBSERVED encodes agrees with the model; for `RemoteReceiveEvent` the specification's byte
    (a repaired encoder) is admitted as well -/
def eventRowOk (row : String × List Nat × List Nat) : Bool :=
  match eventOfRow row.1 row.2.1 with
  | none => false
  | some (.recv o l b) => row.2.2 == encode (.recv o l b) || row.2.2 == [specRecvByte o l b]
  | some e => row.2.2 == encode e

/-- Translator tie: the table of event bytes regenerated from the imported classes on every run
    (all 74 flag combinations) is what `Events.encode` says, and the observed cap of the event log
    is the 64 of `Events.addEvent`. -/
theorem generated_event_table :
    Generated.eventEncodeTable.length = 74 ∧ Generated.eventEncodeTable.all eventRowOk = true ∧
    Generated.eventLogCap = 64 := by decide +kernel

end Events

/-- Non-vacuity of the hypotheses. -/
example : Plain (.writeCoils 7 3 1 [true, false, true]) ∧ WFReq (.writeCoils 7 3 1 [true, false, true]) ∧
    DiagOneWord (.writeCoils 7 3 1 [true, false, true]) := by
  refine ⟨trivial, ⟨by show 7 < 65536; decide, rfl, rfl, by decide⟩, trivial⟩
example : WFResp (.readHolding [1, 65535]) := ⟨by decide, by intro v hv; simp at hv; omega⟩

end Pymodbus.Props.C01
