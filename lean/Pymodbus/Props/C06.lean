/-
  C06 — Framing is independent of how the byte stream is chunked.
  For each of the four stream framers: ANY division of a stream of valid frames into chunks (single bytes,
  chunks ending inside a header, chunks spanning several frames, empty reads) makes a fresh receiver
  deliver exactly the messages of the frames, in order, without an exception, and leaves its buffer empty.
  The generic part (`Framer.chunking_independent`) is an induction over the chunk list; the per-framer part is
  "a built frame is recognised whatever follows it" + "every proper prefix of it makes the receiver wait".
-/
import Pymodbus.Lemmas.FramerSteps
namespace Pymodbus.Props.C06
open Pymodbus Pymodbus.Framer

variable {μ : Type}

/-- the four framings; `rule` is the RTU length oracle of the decoder in use -/
inductive Framing where
  | tcp | rtu (rule : Nat → RtuRule) | ascii | binary

def stepOf : Framing → Bytes → Step
  | .tcp => tcpStep
  | .rtu rule => rtuStep rule
  | .ascii => asciiStep
  | .binary => binaryStep

/-- `f` is the packet the framer builds for a message with these ids whose PDU is `fc :: data`, and the
    decoder in use decodes that PDU to `f.msg` -/
def IsBuilt (F : Framing) (decode : Bytes → PyM (Option μ)) (units : List Nat) (single : Bool) (f : VFrame μ) : Prop :=
  ∃ fc data, f.pdu = fc :: data ∧ decode f.pdu = .ok (some f.msg) ∧ validUnit units single f.uid = true ∧
    match F with
    | .tcp => f.bytes = tcpFrame f.tid f.pid f.uid fc data
    | .rtu rule => f.bytes = rtuFrame f.uid fc data ∧ f.tid = f.uid ∧ f.pid = 0 ∧ RtuSized rule (rtuFrame f.uid fc data)
    | .ascii => f.bytes = asciiFrame f.uid fc data ∧ f.tid = 0 ∧ f.pid = 0 ∧ f.uid < 256 ∧ fc < 256 ∧ Bytes.WF data
    | .binary => f.bytes = binFrame f.uid fc data ∧ f.tid = 0 ∧ f.pid = 0 ∧ NoEnd (binBody f.uid fc data)

theorem built_good (F : Framing) (decode : Bytes → PyM (Option μ)) (units : List Nat) (single : Bool)
    (f : VFrame μ) (h : IsBuilt F decode units single f) : Good (stepOf F) decode units single f := by
  obtain ⟨fc, data, hp, hd, hu, hF⟩ := h
  cases F with
  | tcp =>
    simp only at hF
    refine ⟨by rw [hF]; simp [tcpFrame], ?_, ?_, hd, hu⟩
    · intro rest; rw [hF, hp]; exact tcp_whole _ _ _ _ _ _
    · intro k hk; rw [hF] at hk ⊢; exact tcp_partial _ _ _ _ _ _ hk
  | rtu rule =>
    obtain ⟨hb, ht, hpid, hs⟩ := hF
    refine ⟨by rw [hb, rtuFrame_length]; omega, ?_, ?_, hd, hu⟩
    · intro rest; rw [hb, hp, ht, hpid]; exact rtu_whole rule _ _ _ _ hs
    · intro k hk; rw [hb] at hk ⊢; exact rtu_partial rule _ _ _ _ hs hk
  | ascii =>
    obtain ⟨hb, ht, hpid, h1, h2, h3⟩ := hF
    refine ⟨by rw [hb, asciiFrame_length]; omega, ?_, ?_, hd, hu⟩
    · intro rest; rw [hb, hp, ht, hpid]; exact ascii_whole _ _ _ _ h1 h2 h3
    · intro k hk; rw [hb] at hk ⊢; exact ascii_partial _ _ _ _ h1 h2 h3 hk
  | binary =>
    obtain ⟨hb, ht, hpid, hn⟩ := hF
    refine ⟨by rw [hb, binFrame_length]; omega, ?_, ?_, hd, hu⟩
    · intro rest; rw [hb, hp, ht, hpid]; exact binary_whole _ _ _ _ hn
    · intro k hk; rw [hb] at hk ⊢; exact binary_partial _ _ _ _ hn hk

theorem step_nil (F : Framing) : stepOf F [] = .wait := by
  cases F <;> rfl

/-- **C06.** Every arrival schedule of the bytes of a stream of valid frames yields the same messages, in the
    same order, as one frame per read; no exception escapes; nothing is left in the buffer. -/
theorem chunking_independent (F : Framing) (decode : Bytes → PyM (Option μ)) (units : List Nat) (single : Bool)
    (fs : List (VFrame μ)) (hfs : ∀ f ∈ fs, IsBuilt F decode units single f)
    (chunks : List Bytes) (hc : chunks.flatten = stream fs) :
    (feedAll (stepOf F) decode units single [] chunks).1.flatten =
        fs.map (fun f => Ev.deliver f.msg f.uid f.tid f.pid) ∧
    (feedAll (stepOf F) decode units single [] chunks).2 = [] :=
  Framer.chunking_independent (stepOf F) decode units single (step_nil F) fs
    (fun f hf => built_good F decode units single f (hfs f hf)) chunks hc

/-- in particular the one-frame-per-read schedule and any other schedule agree -/
theorem same_as_frame_per_read (F : Framing) (decode : Bytes → PyM (Option μ)) (units : List Nat) (single : Bool)
    (fs : List (VFrame μ)) (hfs : ∀ f ∈ fs, IsBuilt F decode units single f)
    (chunks : List Bytes) (hc : chunks.flatten = stream fs) :
    (feedAll (stepOf F) decode units single [] chunks).1.flatten =
      (feedAll (stepOf F) decode units single [] (fs.map (·.bytes))).1.flatten := by
  rw [(chunking_independent F decode units single fs hfs chunks hc).1,
    (chunking_independent F decode units single fs hfs (fs.map (·.bytes)) rfl).1]

/-- no `raised` event occurs in any call -/
theorem no_exception (F : Framing) (decode : Bytes → PyM (Option μ)) (units : List Nat) (single : Bool)
    (fs : List (VFrame μ)) (hfs : ∀ f ∈ fs, IsBuilt F decode units single f)
    (chunks : List Bytes) (hc : chunks.flatten = stream fs) :
    ∀ e ∈ (feedAll (stepOf F) decode units single [] chunks).1.flatten, ∀ err, e ≠ .raised err := by
  rw [(chunking_independent F decode units single fs hfs chunks hc).1]
  intro e he err
  simp only [List.mem_map] at he
  obtain ⟨f, _, rfl⟩ := he
  intro h; cases h

/-- the frames are exactly what `buildPacket` produces -/
theorem frames_are_built (tid pid uid fc : Nat) (data : Bytes)
    (h : tid < 65536 ∧ pid < 65536 ∧ data.length + 2 < 65536 ∧ uid < 256 ∧ fc < 256) (hd : NoDelim data) :
    tcpBuild tid pid uid fc data = .ok (tcpFrame tid pid uid fc data) ∧
    rtuBuild uid fc data = .ok (rtuFrame uid fc data) ∧
    asciiBuild uid fc data = .ok (asciiFrame uid fc data) ∧
    binaryBuild uid fc data = .ok (binFrame uid fc data) :=
  ⟨tcpBuild_eq h, rtuBuild_eq ⟨h.2.2.2.1, h.2.2.2.2⟩, asciiBuild_eq ⟨h.2.2.2.1, h.2.2.2.2⟩,
   binaryBuild_eq ⟨h.2.2.2.1, h.2.2.2.2⟩ hd⟩

/-- Non-vacuity: a concrete TCP stream of two frames, cut inside the first header and inside the second
    frame, delivers both messages. -/
example :
    let d : Bytes → PyM (Option Bytes) := fun pdu => .ok (some pdu)
    let f1 := tcpFrame 1 0 17 3 [0, 0, 0, 2]
    let f2 := tcpFrame 2 0 17 6 [0, 1, 0, 9]
    (feedAll tcpStep d [17] false [] [f1.take 3, f1.drop 3 ++ f2.take 5, [], f2.drop 5]).1.flatten =
      [.deliver [3, 0, 0, 0, 2] 17 1 0, .deliver [6, 0, 1, 0, 9] 17 2 0] := by rfl

/-- Non-vacuity of the binary case beyond delimiter-free frames: `{ 11 03 00 A8 00 02 47 7B }` carries the START delimiter
    0x7B in its CRC (the sender does not escape the CRC).  It satisfies `NoEnd` — all the receiver needs — though not
    `NoDelim`, so `chunking_independent` covers it at every cut (the cut seeded change C06-13 broke included). -/
example : NoEnd (binBody 0x11 3 [0, 0xA8, 0, 2]) ∧ ¬ NoDelim (binBody 0x11 3 [0, 0xA8, 0, 2]) ∧
    binFrame 0x11 3 [0, 0xA8, 0, 2] = [0x7B, 0x11, 3, 0, 0xA8, 0, 2, 0x47, 0x7B, 0x7D] := by
  unfold NoEnd NoDelim; decide +kernel

end Pymodbus.Props.C06
