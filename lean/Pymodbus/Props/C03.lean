/-
  C03 — Each transport framing builds the spec ADU and round-trips messages.
-/
import Pymodbus.Props.C06
import Pymodbus.Props.C02
import Pymodbus.Spec.AduSpec
namespace Pymodbus.Props.C03
open Pymodbus Pymodbus.Framer Pymodbus.Props.C06

variable {μ : Type}

/-! ### the packet built is the specified ADU -/

/-- TCP: MBAP header (transaction id, protocol id, length = PDU length + 1, unit id) + PDU -/
theorem tcp_build_spec (tid pid uid fc : Nat) (data : Bytes)
    (h : tid < 65536 ∧ pid < 65536 ∧ data.length + 2 < 65536 ∧ uid < 256 ∧ fc < 256) :
    tcpBuild tid pid uid fc data = .ok (AduSpec.mbap tid pid uid (fc :: data)) := by
  rw [tcpBuild_eq h]
  simp [tcpFrame, AduSpec.mbap, AduSpec.u16]

/-- RTU: unit + PDU + CRC-16/Modbus (bit-serial specification), low byte first -/
theorem rtu_build_spec (uid fc : Nat) (data : Bytes) (hu : uid < 256) (hf : fc < 256) (hd : Bytes.WF data) :
    rtuBuild uid fc data = .ok (AduSpec.rtu uid (fc :: data)) := by
  rw [rtuBuild_eq ⟨hu, hf⟩]
  have hwf : Bytes.WF ([uid, fc] ++ data) := by
    intro x hx
    simp only [List.mem_append, List.mem_cons, List.not_mem_nil, or_false] at hx
    rcases hx with (rfl | rfl) | hx
    · exact hu
    · exact hf
    · exact hd x hx
  have hw := Props.Checksum.crc_wire_order ([uid, fc] ++ data) hwf
  unfold packH at hw
  rw [if_pos (Props.Checksum.crc_lt _)] at hw
  injection hw with hw
  simp only [rtuFrame, AduSpec.rtu, be16] at hw ⊢
  simp only [List.cons_append, List.nil_append, List.append_assoc] at hw ⊢
  rw [hw]

theorem hex_eq : AduSpec.hex = b2aHexUpper := by
  funext bs; rfl

theorem lrc_perm (uid fc : Nat) (data : Bytes) :
    Impl.computeLRC (data ++ [uid, fc]) = Spec.lrc ([uid] ++ fc :: data) := by
  rw [Props.Checksum.lrc_eq_spec]
  unfold Spec.lrc
  have : (data ++ [uid, fc]).sum = ([uid] ++ fc :: data).sum := by
    rw [Pymodbus.Checksum.sum_append]; simp; omega
  rw [this]

/-- ASCII: ':' + upper-case hex of unit, PDU and LRC + CR LF -/
theorem ascii_build_spec (uid fc : Nat) (data : Bytes) (hu : uid < 256) (hf : fc < 256) :
    asciiBuild uid fc data = .ok (AduSpec.ascii uid (fc :: data)) := by
  rw [asciiBuild_eq ⟨hu, hf⟩]
  simp only [asciiFrame, asciiLrc, AduSpec.ascii, hex_eq, lrc_perm]
  simp

/-- TLS: the bare PDU -/
theorem tls_build_spec (fc : Nat) (data : Bytes) (hf : fc < 256) :
    tlsBuild fc data = .ok (AduSpec.tls (fc :: data)) := by
  simp [tlsBuild, hf, AduSpec.tls]

/-- binary: '{' unit PDU CRC '}' (for frames whose bytes contain no delimiter; the rest is the known
    finding `binary-framer-escaping`) -/
theorem binary_build_spec (uid fc : Nat) (data : Bytes) (hu : uid < 256) (hf : fc < 256) (hd : Bytes.WF data)
    (hn : NoDelim data) :
    binaryBuild uid fc data = .ok (AduSpec.binary uid (fc :: data)) := by
  rw [binaryBuild_eq ⟨hu, hf⟩ hn]
  have hwf : Bytes.WF ([uid, fc] ++ data) := by
    intro x hx
    simp only [List.mem_append, List.mem_cons, List.not_mem_nil, or_false] at hx
    rcases hx with (rfl | rfl) | hx
    · exact hu
    · exact hf
    · exact hd x hx
  have hw := Props.Checksum.crc_wire_order ([uid, fc] ++ data) hwf
  unfold packH at hw
  rw [if_pos (Props.Checksum.crc_lt _)] at hw
  injection hw with hw
  simp only [be16, List.cons_append, List.nil_append] at hw
  simp only [binFrame, binBody, AduSpec.binary, List.cons_append, List.nil_append, List.append_assoc]
  have : ∀ a b (rest : Bytes), [a, b] = Spec.crcWire (uid :: fc :: data) →
      data ++ [a, b, 125] = data ++ (Spec.crcWire (uid :: fc :: data) ++ [125]) := by
    intro a b rest h; rw [← h]; rfl
  rw [this _ _ [] hw]

/-! ### the checksum functions are the specified ones (proved in Props/Checksum.lean) -/

theorem crc_is_spec (bs : Bytes) (h : Bytes.WF bs) : Impl.computeCRC bs = Spec.swap16 (Spec.crc16 bs) :=
  Props.Checksum.crc_eq_spec bs h

theorem lrc_is_spec (bs : Bytes) : Impl.computeLRC bs = Spec.lrc bs := Props.Checksum.lrc_eq_spec bs

/-! ### handing the packet, whole, to a fresh receiver delivers exactly one message equal to the original -/

theorem whole_packet_delivers (F : Framing) (decode : Bytes → PyM (Option μ)) (units : List Nat) (single : Bool)
    (f : VFrame μ) (h : IsBuilt F decode units single f) :
    feed (stepOf F) decode units single [] f.bytes = ([.deliver f.msg f.uid f.tid f.pid], []) := by
  have := C06.chunking_independent F decode units single [f] (by simpa using h) [f.bytes] (by simp [stream])
  simp only [feedAll, List.flatten_cons, List.flatten_nil, List.append_nil, List.map_cons, List.map_nil] at this
  exact Prod.ext this.1 this.2

/-- composed with the codec: a request built by the model's encoder and framed is delivered by the server-side
    receiver as the same request (all classes of C01's `Plain`, all field values, every unit id the
    receiver accepts, every transaction id) — TCP instance -/
theorem request_roundtrip_tcp (r : Req) (hp : C01.Plain r) (hw : PduSpec.WFReq r) (hd : C01.DiagOneWord r)
    (tid pid uid : Nat) (units : List Nat) (single : Bool) (hu : validUnit units single uid = true) :
    ∃ data, Impl.encReq r = .ok data ∧
      feed tcpStep (fun pdu => (Impl.decReq pdu).map some) units single [] (tcpFrame tid pid uid r.fc data) =
        ([.deliver (PduSpec.normReq r) uid tid pid], []) := by
  obtain ⟨data, he, hdec⟩ := C02.roundtrip_req r hp hw hd
  refine ⟨data, he, ?_⟩
  have := whole_packet_delivers (μ := Req) .tcp (fun pdu => (Impl.decReq pdu).map some) units single
    ⟨tcpFrame tid pid uid r.fc data, r.fc :: data, uid, tid, pid, PduSpec.normReq r⟩
    ⟨r.fc, data, rfl, by simp [hdec, Except.map], hu, rfl⟩
  exact this

/-- … and for EVERY framing (TCP, RTU, ASCII, binary), stated generically like `response_roundtrip`: the packet the
    framer builds around the encoding of a request is delivered by the server-side receiver as that request -/
theorem request_roundtrip (F : Framing) (r : Req) (hp : C01.Plain r) (hw : PduSpec.WFReq r) (hd : C01.DiagOneWord r)
    (units : List Nat) (single : Bool)
    (f : VFrame Req) (hf : ∃ data, Impl.encReq r = .ok data ∧ f.pdu = r.fc :: data ∧ f.msg = PduSpec.normReq r)
    (hu : validUnit units single f.uid = true)
    (hb : ∀ data, f.pdu = r.fc :: data →
      match F with
      | .tcp => f.bytes = tcpFrame f.tid f.pid f.uid r.fc data
      | .rtu rule => f.bytes = rtuFrame f.uid r.fc data ∧ f.tid = f.uid ∧ f.pid = 0 ∧ RtuSized rule (rtuFrame f.uid r.fc data)
      | .ascii => f.bytes = asciiFrame f.uid r.fc data ∧ f.tid = 0 ∧ f.pid = 0 ∧ f.uid < 256 ∧ r.fc < 256 ∧ Bytes.WF data
      | .binary => f.bytes = binFrame f.uid r.fc data ∧ f.tid = 0 ∧ f.pid = 0 ∧ NoEnd (binBody f.uid r.fc data)) :
    feed (stepOf F) (fun pdu => (Impl.decReq pdu).map some) units single [] f.bytes =
      ([.deliver (PduSpec.normReq r) f.uid f.tid f.pid], []) := by
  obtain ⟨data, he, hpdu, hm⟩ := hf
  obtain ⟨bs, he', hdec⟩ := C02.roundtrip_req r hp hw hd
  rw [he] at he'; injection he' with he'; subst he'
  have := whole_packet_delivers (μ := Req) F (fun pdu => (Impl.decReq pdu).map some) units single f
    ⟨r.fc, data, hpdu, by simp [hpdu, hdec, Except.map, hm], hu, hb data hpdu⟩
  rw [hm] at this; exact this

/-- … and a response through the client-side receiver — RTU/ASCII/binary/TCP alike, stated generically -/
theorem response_roundtrip (F : Framing) (r : Resp) (hw : C01.WFResp r) (units : List Nat) (single : Bool)
    (f : VFrame Resp) (hf : ∃ data, Impl.encResp r = .ok data ∧ f.pdu = r.fc :: data ∧ f.msg = PduSpec.normResp r)
    (hu : validUnit units single f.uid = true)
    (hb : ∀ data, f.pdu = r.fc :: data →
      match F with
      | .tcp => f.bytes = tcpFrame f.tid f.pid f.uid r.fc data
      | .rtu rule => f.bytes = rtuFrame f.uid r.fc data ∧ f.tid = f.uid ∧ f.pid = 0 ∧ RtuSized rule (rtuFrame f.uid r.fc data)
      | .ascii => f.bytes = asciiFrame f.uid r.fc data ∧ f.tid = 0 ∧ f.pid = 0 ∧ f.uid < 256 ∧ r.fc < 256 ∧ Bytes.WF data
      | .binary => f.bytes = binFrame f.uid r.fc data ∧ f.tid = 0 ∧ f.pid = 0 ∧ NoEnd (binBody f.uid r.fc data)) :
    feed (stepOf F) (fun pdu => .ok (Impl.decResp pdu)) units single [] f.bytes =
      ([.deliver (PduSpec.normResp r) f.uid f.tid f.pid], []) := by
  obtain ⟨data, he, hp, hm⟩ := hf
  obtain ⟨bs, he', hdec⟩ := C02.roundtrip_resp r hw
  rw [he] at he'; injection he' with he'; subst he'
  have := whole_packet_delivers (μ := Resp) F (fun pdu => .ok (Impl.decResp pdu)) units single f
    ⟨r.fc, data, hp, by show Except.ok (Impl.decResp f.pdu) = _; rw [hp, hdec, hm], hu, hb data hp⟩
  rw [hm] at this; exact this

/-! ### the RTU length oracle is exact for the frames the library builds -/

/-- data-access requests (FC 1-6, 15, 16, 22, 23) and the fixed-size ones -/
def RtuReq : Req → Prop
  | .readCoils .. | .readDiscrete .. | .readHolding .. | .readInput .. | .writeCoil .. | .writeRegister ..
  | .writeCoils .. | .writeRegisters .. | .maskWrite .. | .readWrite .. | .readFifo .. | .readDeviceInfo ..
  | .readExceptionStatus | .getCommEventCounter | .getCommEventLog | .reportSlaveId => True
  | .diag _ (.int _) => True
  | _ => False

theorem u16_len (n : Nat) : (PduSpec.u16 n).length = 2 := rfl

/-- For every such request the server-side length oracle returns exactly the length of the RTU frame, from
    any extension of the frame, and is not misled by any proper prefix of it. -/
theorem rtu_oracle_exact_req (r : Req) (hr : RtuReq r) (hw : PduSpec.WFReq r) (uid : Nat) :
    RtuSized rtuRuleServer (rtuFrame uid r.fc (PduSpec.encReq r)) := by
  cases r <;> simp only [RtuReq] at hr <;> simp only [PduSpec.WFReq] at hw
  case readCoils a n => exact rtuSized_fixed _ _ _ 8 _ rfl (by simp [PduSpec.encReq, u16_len])
  case readDiscrete a n => exact rtuSized_fixed _ _ _ 8 _ rfl (by simp [PduSpec.encReq, u16_len])
  case readHolding a n => exact rtuSized_fixed _ _ _ 8 _ rfl (by simp [PduSpec.encReq, u16_len])
  case readInput a n => exact rtuSized_fixed _ _ _ 8 _ rfl (by simp [PduSpec.encReq, u16_len])
  case writeCoil a w => exact rtuSized_fixed _ _ _ 8 _ rfl (by simp [PduSpec.encReq, u16_len])
  case writeRegister a v => exact rtuSized_fixed _ _ _ 8 _ rfl (by simp [PduSpec.encReq, u16_len])
  case maskWrite a am om => exact rtuSized_fixed _ _ _ 10 _ rfl (by simp [PduSpec.encReq, u16_len])
  case readFifo a => exact rtuSized_fixed _ _ _ 6 _ rfl (by simp [PduSpec.encReq, u16_len])
  case readDeviceInfo s rc oid => exact rtuSized_fixed _ _ _ 7 _ rfl (by simp [PduSpec.encReq])
  case readExceptionStatus => exact rtuSized_fixed _ _ _ 4 _ rfl (by simp [PduSpec.encReq])
  case getCommEventCounter => exact rtuSized_fixed _ _ _ 4 _ rfl (by simp [PduSpec.encReq])
  case getCommEventLog => exact rtuSized_fixed _ _ _ 4 _ rfl (by simp [PduSpec.encReq])
  case reportSlaveId => exact rtuSized_fixed _ _ _ 4 _ rfl (by simp [PduSpec.encReq])
  case diag sub m =>
    cases m <;> simp only [RtuReq] at hr
    exact rtuSized_fixed _ _ _ 8 _ rfl (by simp [PduSpec.encReq, u16_len])
  case writeCoils a cnt bc vs =>
    obtain ⟨_, h2, h3, _⟩ := hw
    subst h2 h3
    refine rtuSized_bc _ _ _ 6 _ rfl (by decide) (by simp [PduSpec.encReq, u16_len]; omega) ?_
    simp [PduSpec.encReq, PduSpec.u16, spec_packBits_length]
  case writeRegisters a cnt bc vs =>
    obtain ⟨_, h2, h3, _⟩ := hw
    subst h2 h3
    refine rtuSized_bc _ _ _ 6 _ rfl (by decide) (by simp [PduSpec.encReq, u16_len]; omega) ?_
    simp [PduSpec.encReq, PduSpec.u16, u16s_length]
  case readWrite ra rn wa wn wbc ws =>
    obtain ⟨_, _, _, h4, h5, _⟩ := hw
    subst h4 h5
    refine rtuSized_bc _ _ _ 10 _ rfl (by decide) (by simp [PduSpec.encReq, u16_len]; omega) ?_
    simp [PduSpec.encReq, PduSpec.u16, u16s_length]

theorem client_rule_exception (fc : Nat) (h : 128 ≤ fc) : rtuRuleClient fc = .fixed 5 := by
  unfold rtuRuleClient
  split <;> first | omega | rfl

/-- responses of the data-access functions and exception responses, client-side oracle -/
theorem rtu_oracle_exact_resp (r : Resp) (hw : C01.WFResp r) (uid : Nat)
    (hr : match r with
      | .readCoils .. | .readDiscrete .. | .readHolding .. | .readInput .. | .readWrite .. | .writeCoil ..
      | .writeRegister .. | .writeCoils .. | .writeRegisters .. | .maskWrite .. | .exception .. => True
      | _ => False) :
    RtuSized rtuRuleClient (rtuFrame uid r.fc (PduSpec.encResp r)) := by
  cases r <;> simp only at hr <;> simp only [C01.WFResp] at hw
  case readCoils bits =>
    refine rtuSized_bc _ _ _ 2 _ rfl (by decide) (by simp [PduSpec.encResp]) ?_
    simp [PduSpec.encResp, spec_packBits_length]
  case readDiscrete bits =>
    refine rtuSized_bc _ _ _ 2 _ rfl (by decide) (by simp [PduSpec.encResp]) ?_
    simp [PduSpec.encResp, spec_packBits_length]
  case readHolding regs =>
    refine rtuSized_bc _ _ _ 2 _ rfl (by decide) (by simp [PduSpec.encResp]) ?_
    simp [PduSpec.encResp, u16s_length]
  case readInput regs =>
    refine rtuSized_bc _ _ _ 2 _ rfl (by decide) (by simp [PduSpec.encResp]) ?_
    simp [PduSpec.encResp, u16s_length]
  case readWrite regs =>
    refine rtuSized_bc _ _ _ 2 _ rfl (by decide) (by simp [PduSpec.encResp]) ?_
    simp [PduSpec.encResp, u16s_length]
  case writeCoil a v =>
    exact rtuSized_fixed _ _ _ 8 _ rfl (by simp [PduSpec.encResp, u16_len]; split <;> rfl)
  case writeRegister a v => exact rtuSized_fixed _ _ _ 8 _ rfl (by simp [PduSpec.encResp, u16_len])
  case writeCoils a n => exact rtuSized_fixed _ _ _ 8 _ rfl (by simp [PduSpec.encResp, u16_len])
  case writeRegisters a n => exact rtuSized_fixed _ _ _ 8 _ rfl (by simp [PduSpec.encResp, u16_len])
  case maskWrite a am om => exact rtuSized_fixed _ _ _ 10 _ rfl (by simp [PduSpec.encResp, u16_len])
  case exception fc code =>
    have hge : 128 ≤ fc ||| 0x80 := Nat.right_le_or
    exact rtuSized_fixed _ _ _ 5 _ (client_rule_exception _ hge) (by simp [PduSpec.encResp])

/-- known finding `rtu-diag-response-size`: a diagnostic reply with two data words is 10 bytes on the wire but
    the client-side oracle says 8 -/
theorem rtu_diag_counterexample :
    rtuSize rtuRuleClient (rtuFrame 1 8 (PduSpec.encResp (.diag 0 (.list [1, 2])))) = .ok 8 ∧
    (rtuFrame 1 8 (PduSpec.encResp (.diag 0 (.list [1, 2])))).length = 10 := ⟨rfl, rfl⟩

end Pymodbus.Props.C03
