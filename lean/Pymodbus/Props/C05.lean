/-
  C05 — Invalid requests get the right exception and change nothing.
-/
import Pymodbus.Props.C04
namespace Pymodbus.Props.C05
open Pymodbus StoreSpec RegisterFile Props.C18 Props.C04

/-! ### the decision table of the property, on the register-file spec -/

/-- the value checks of each request (quantity limits, byte-count consistency, coil value word) -/
def ValueOk : Req → Prop
  | .readCoils _ n | .readDiscrete _ n => 1 ≤ n ∧ n ≤ 2000
  | .readHolding _ n | .readInput _ n => 1 ≤ n ∧ n ≤ 125
  | .writeCoil _ w => w = 0xFF00 ∨ w = 0
  | .writeRegister _ v => v ≤ 0xFFFF
  | .writeCoils _ cnt bc vs => 1 ≤ cnt ∧ cnt ≤ 1968 ∧ bc = (cnt + 7) / 8 ∧ vs.length = cnt
  | .writeRegisters _ cnt bc vs => 1 ≤ cnt ∧ cnt ≤ 123 ∧ bc = 2 * cnt ∧ vs.length = cnt
  | .maskWrite _ am om => am ≤ 0xFFFF ∧ om ≤ 0xFFFF
  | .readWrite _ rn _ wn wbc wregs => 1 ≤ rn ∧ rn ≤ 125 ∧ 1 ≤ wn ∧ wn ≤ 121 ∧ wbc = 2 * wn ∧ wregs.length = wn
  | _ => True

/-- the address ranges a request touches -/
def ranges : Req → List (Int × Nat)
  | .readCoils a n | .readDiscrete a n | .readHolding a n | .readInput a n => [(a, n)]
  | .writeCoil a _ | .writeRegister a _ | .maskWrite a _ _ => [(a, 1)]
  | .writeCoils a cnt _ _ | .writeRegisters a cnt _ _ => [(a, cnt)]
  | .readWrite ra rn wa wn _ _ => [(wa, wn), (ra, rn)]
  | _ => []

def DataAccess : Req → Prop
  | .illegalFunction _ => False
  | r => InScope r

def RangesOk (L : Layout) (m : Mem) (t : Table) (r : Req) : Prop :=
  ∀ p ∈ ranges r, Spec.populated (m (L.tbl t)) (p.1 + (bif L.zeroMode then 0 else 1)) p.2 = true

/-- quantity / byte count / coil value wrong → exception 03, carrying `fc | 0x80` -/
theorem bad_value_gives_03 (L : Layout) (m : Mem) (r : Req) (hd : DataAccess r) (h : ¬ ValueOk r) :
    RegisterFile.step L m r = (m, .exception r.fc 3) := by
  cases r <;> simp only [DataAccess, InScope] at hd <;> simp only [ValueOk] at h <;>
    simp only [RegisterFile.step, Req.fc] <;> rw [decide_eq_false h] <;> rfl

/-- datastore of the addressed table fails → exception 04 -/
theorem broken_gives_04 (L : Layout) (m : Mem) (r : Req) (hd : DataAccess r) (h : ValueOk r)
    (t : Table) (ht : tableOf r.fc = some t) (hb : L.broken (L.tbl t) = true) :
    RegisterFile.step L m r = (m, .exception r.fc 4) := by
  cases r <;> simp only [DataAccess, InScope] at hd <;> simp only [ValueOk] at h <;>
    simp only [Req.fc] at ht <;>
    simp only [RegisterFile.step, Req.fc] <;> rw [decide_eq_true h] <;>
    simp [access, ht, hb]

/-- address range not wholly inside the table → exception 02 -/
theorem bad_range_gives_02 (L : Layout) (m : Mem) (r : Req) (hd : DataAccess r) (h : ValueOk r)
    (t : Table) (ht : tableOf r.fc = some t) (hb : L.broken (L.tbl t) = false)
    (hr : ¬ RangesOk L m t r) :
    RegisterFile.step L m r = (m, .exception r.fc 2) := by
  cases r <;> simp only [DataAccess, InScope] at hd <;> simp only [ValueOk] at h <;>
    simp only [Req.fc] at ht <;> simp only [RangesOk, ranges] at hr <;>
    simp only [RegisterFile.step, Req.fc] <;> rw [decide_eq_true h] <;>
    simp only [access, ht, hb] <;> simp_all

/-- unsupported function code → exception 01 -/
theorem unknown_fc_gives_01 (L : Layout) (m : Mem) (fc : Nat) :
    RegisterFile.step L m (.illegalFunction fc) = (m, .exception fc 1) := rfl

/-- and otherwise the answer is a normal response (so the four cases above are exactly the
    exception cases) -/
theorem valid_gives_normal (L : Layout) (m : Mem) (r : Req) (hd : DataAccess r) (h : ValueOk r)
    (t : Table) (ht : tableOf r.fc = some t) (hb : L.broken (L.tbl t) = false)
    (hr : RangesOk L m t r) : (RegisterFile.step L m r).2.isException = false := by
  cases r <;> simp only [DataAccess, InScope] at hd <;> simp only [ValueOk] at h <;>
    simp only [Req.fc] at ht <;> simp only [RangesOk, ranges] at hr <;>
    simp only [RegisterFile.step, Req.fc] <;> rw [decide_eq_true h] <;>
    simp only [access, ht, hb] <;>
    simp_all [effRead, effWrite, effReadWrite, Resp.isException]
  case maskWrite a am om =>
    simp only [effMask]
    have hp := hr
    simp only [Spec.populated, List.range_one, List.all_cons, List.all_nil, Bool.and_true] at hp
    cases hc : m (L.tbl t) (↑a + bif L.zeroMode then 0 else 1) with
    | none => simp [hc] at hp
    | some cur => simp [Resp.isException]

/-- every data-access function code has a table (so the case split above is exhaustive) -/
theorem data_access_has_table (r : Req) (hd : DataAccess r) : ∃ t, tableOf r.fc = some t := by
  cases r <;> simp only [DataAccess, InScope] at hd <;> simp [Req.fc, tableOf]

/-! ### the implementation follows the table (via the refinement of C04) and changes nothing -/

theorem impl_response_is_spec (s : SlaveCtx) (r : Req) (hr : InScope r) :
    (Impl.serverExecute s r).2 = (RegisterFile.step (layoutOf s) (absMem s) r).2 := by
  rw [exec_refines s r hr]

theorem mk_not_exc_coil (a v : Nat) : (Resp.writeCoil a v).isException = false := rfl
theorem mk_not_exc_reg (a v : Nat) : (Resp.writeRegister a v).isException = false := rfl

theorem pure_exc {s s' : SlaveCtx} {r r' : Resp}
    (h : (pure (s, r) : PyM (SlaveCtx × Resp)) = .ok (s', r')) : s' = s ∧ r' = r := by
  injection h with h; injection h with h1 h2; exact ⟨h1.symm, h2.symm⟩

theorem readN_unchanged {s s' fc lim a n mk resp} (h : Impl.readN s fc lim a n mk = .ok (s', resp)) : s' = s := by
  unfold Impl.readN at h
  split at h
  · exact (pure_exc h).1
  · obtain ⟨v, _, h⟩ := bind_ok h
    split at h
    · exact (pure_exc h).1
    · obtain ⟨vs, _, h⟩ := bind_ok h
      exact (pure_exc h).1

theorem writeOne_exc_unchanged {s s' fc a v mk resp} (hmk : ∀ v, (mk v).isException = false)
    (h : Impl.writeOne s fc a v mk = .ok (s', resp)) (he : resp.isException = true) : s' = s := by
  unfold Impl.writeOne at h
  obtain ⟨b, _, h⟩ := bind_ok h
  split at h
  · exact (pure_exc h).1
  · obtain ⟨s1, hs1, h⟩ := bind_ok h
    obtain ⟨vs, _, h⟩ := bind_ok h
    split at h
    · have := (pure_exc h).2; rw [this, hmk] at he; cases he
    · cases h

/-- Whenever the answer is an exception response no cell of any table has changed: the whole
    context (all blocks, hence all four tables and any other block) is the one before. -/
theorem exception_no_change (s : SlaveCtx) (r : Req)
    (he : (Impl.serverExecute s r).2.isException = true) : (Impl.serverExecute s r).1 = s := by
  unfold Impl.serverExecute at he ⊢
  cases h : Impl.execute s r with
  | error e => rfl
  | ok x =>
    obtain ⟨s', resp⟩ := x
    simp only [h] at he ⊢
    cases r <;> simp only [Impl.execute] at h
    case readCoils => exact readN_unchanged h
    case readDiscrete => exact readN_unchanged h
    case readHolding => exact readN_unchanged h
    case readInput => exact readN_unchanged h
    case writeCoil =>
      split at h
      · exact (pure_exc h).1
      · exact writeOne_exc_unchanged (mk_not_exc_coil _) h he
    case writeRegister =>
      split at h
      · exact (pure_exc h).1
      · exact writeOne_exc_unchanged (mk_not_exc_reg _) h he
    case writeCoils =>
      repeat (split at h; · exact (pure_exc h).1)
      obtain ⟨b, _, h⟩ := bind_ok h
      split at h
      · exact (pure_exc h).1
      · obtain ⟨s1, hs1, h⟩ := bind_ok h
        have := (pure_exc h).2; rw [this] at he; cases he
    case writeRegisters =>
      repeat (split at h; · exact (pure_exc h).1)
      obtain ⟨b, _, h⟩ := bind_ok h
      split at h
      · exact (pure_exc h).1
      · obtain ⟨s1, hs1, h⟩ := bind_ok h
        have := (pure_exc h).2; rw [this] at he; cases he
    case maskWrite =>
      repeat (split at h; · exact (pure_exc h).1)
      obtain ⟨b, _, h⟩ := bind_ok h
      split at h
      · exact (pure_exc h).1
      · obtain ⟨vs, _, h⟩ := bind_ok h
        split at h
        · obtain ⟨s1, hs1, h⟩ := bind_ok h
          have := (pure_exc h).2; rw [this] at he; cases he
        · cases h
    case readWrite =>
      repeat (split at h; · exact (pure_exc h).1)
      obtain ⟨b, _, h⟩ := bind_ok h
      split at h
      · exact (pure_exc h).1
      · obtain ⟨b2, _, h⟩ := bind_ok h
        split at h
        · exact (pure_exc h).1
        · obtain ⟨s1, hs1, h⟩ := bind_ok h
          obtain ⟨regs, _, h⟩ := bind_ok h
          have := (pure_exc h).2; rw [this] at he; cases he
    case illegalFunction => exact (pure_exc h).1
    all_goals cases h

/-- …for any preceding request history: the state before the failing request is whatever the
    history produced, and it is returned unchanged. -/
theorem exception_no_change_after_history (s : SlaveCtx) (hist : List Req) (r : Req)
    (he : (Impl.serverExecute (runImpl s hist).1 r).2.isException = true) :
    (Impl.serverExecute (runImpl s hist).1 r).1 = (runImpl s hist).1 :=
  exception_no_change _ r he

/-- read/write-multiple performs no write unless both ranges are valid (instance of the above,
    stated on the spec: an invalid read range leaves the memory as it was) -/
theorem readwrite_no_partial_write (L : Layout) (m : Mem) (ra rn wa wn wbc : Nat) (wregs : List Nat)
    (h : (RegisterFile.step L m (.readWrite ra rn wa wn wbc wregs)).2.isException = true) :
    (RegisterFile.step L m (.readWrite ra rn wa wn wbc wregs)).1 = m := by
  simp only [RegisterFile.step, access] at h ⊢
  split
  · rfl
  · split
    · rfl
    · split
      · rfl
      · split
        · rfl
        · rename_i h1 _ _ h2 h3 h4
          simp only [h1, h2, h3, h4, effReadWrite, Resp.isException] at h
          simp at h

/-- Non-vacuity: concrete requests hitting each row of the table. -/
example : let s : SlaveCtx := ⟨[.seq ⟨1, [0, 0, 0, 0]⟩], 0, 0, 0, 0, false⟩
    (Impl.serverExecute s (.readCoils 0 0)).2 = .exception 1 3 ∧
    (Impl.serverExecute s (.readCoils 3 2)).2 = .exception 1 2 ∧
    (Impl.serverExecute s (.writeCoil 0 1)).2 = .exception 5 3 ∧
    (Impl.serverExecute s (.writeRegisters 0 2 3 [1, 2])).2 = .exception 16 3 ∧
    (Impl.serverExecute s (.illegalFunction 9)).2 = .exception 9 1 ∧
    (Impl.serverExecute { s with h := 7 } (.readHolding 0 1)).2 = .exception 3 4 := by decide

end Pymodbus.Props.C05
