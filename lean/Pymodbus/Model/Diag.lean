/-
  Reply-size prediction (`get_response_pdu_size`) of the request classes that have one, and the shape of
  the diagnostic (FC 8) replies as `execute` builds them (diag_message.py).  The control block is a
  parameter: only the number of Modbus Plus statistics words and the counter values matter here.
-/
import Pymodbus.Model.Codec
namespace Pymodbus
namespace Impl

/-- `request.get_response_pdu_size()`; `none` = the class has no such method -/
def respPduSize (plusWords : Nat) : Req → Option Nat
  | .readCoils _ n | .readDiscrete _ n => some (1 + 1 + (n / 8 + (if n % 8 ≠ 0 then 1 else 0)))
  | .readHolding _ n | .readInput _ n => some (1 + 1 + 2 * n)
  | .writeCoil .. | .writeRegister .. | .writeCoils .. | .writeRegisters .. => some (1 + 2 + 2)
  | .readWrite _ rn _ _ _ _ => some (1 + 1 + 2 * rn)
  | .diag 21 (.int m) => some (1 + 2 + 2 + (if m = 4 then 0 else 2 * plusWords))
  | .diag _ (.list ws) => some (1 + 2 + 2 * ws.length)
  | .diag _ _ => some (1 + 2 + 2 * 1)     -- a non-list message is wrapped: `[self.message]`
  | _ => none

/-- what the diagnostic sub-function classes answer (message of the response object, should_respond) for a
    decoded request (`message` is the single data word `m`); `none` = the class has no `execute` -/
def diagReply (sub m : Nat) (counter : Nat) (diagReg : Bytes) (plus : List Nat) : Option (DiagMsg × Bool) :=
  match sub with
  | 0 => some (.list [m], true)
  | 1 => some (.list [if m ≠ 0 then 0xFF00 else 0], true)
  | 2 => some (.bytes diagReg, true)
  | 3 => some (.int m, true)
  | 4 => some (.list [], false)
  | 10 | 20 => some (.int m, true)
  | 11 | 12 | 13 | 14 | 15 | 16 | 17 | 18 | 19 => some (.int counter, true)
  | 21 => some (if m = 4 then .int m else .list (m :: plus), true)
  | _ => none

end Impl
end Pymodbus
