/-
  Model of the checksum functions of pymodbus/utilities.py, statement by statement:
  `__generate_crc16_table`, `computeCRC`, `checkCRC`, `computeLRC`, `checkLRC`.
  (`byte2int` is the identity on Python 3 bytes.)  Core Lean only.
-/
import Pymodbus.Model.Prelude
namespace Pymodbus.Impl

/-- the inner loop of `__generate_crc16_table`, `n` iterations on `(byte, crc)`:
    ```
    if (byte ^ crc) & 0x0001: crc = (crc >> 1) ^ 0xa001
    else: crc >>= 1
    byte >>= 1
    ``` -/
def crcTableLoop : Nat → Nat → Nat → Nat
  | 0, _, crc => crc
  | n + 1, byte, crc =>
    let crc' := if (byte ^^^ crc) &&& 1 ≠ 0 then (crc >>> 1) ^^^ 40961 else crc >>> 1
    crcTableLoop n (byte >>> 1) crc'

/-- `crc = 0; for _ in range(8): …; result.append(crc)` -/
def crcTableEntry (byte : Nat) : Nat := crcTableLoop 8 byte 0

/-- `__crc16_table = __generate_crc16_table()`: `for byte in range(256)` -/
def crcTable : List Nat := (List.range 256).map crcTableEntry

/-- loop body of `computeCRC`:
    `idx = __crc16_table[(crc ^ byte2int(a)) & 0xff]; crc = ((crc >> 8) & 0xff) ^ idx`
    (the index is always `< 256`, so no `IndexError`) -/
def crcStep (crc a : Nat) : Nat :=
  let idx := crcTable.getD ((crc ^^^ a) &&& 255) 0
  ((crc >>> 8) &&& 255) ^^^ idx

/-- `crc = 0xffff; for a in data: …` — the register before the final byte swap -/
def crcFold (data : Bytes) : Nat := data.foldl crcStep 65535

/-- `computeCRC`: `swapped = ((crc << 8) & 0xff00) | ((crc >> 8) & 0x00ff)` -/
def computeCRC (data : Bytes) : Nat :=
  let crc := crcFold data
  ((crc <<< 8) &&& 65280) ||| ((crc >>> 8) &&& 255)

/-- `checkCRC`: `computeCRC(data) == check` -/
def checkCRC (data : Bytes) (check : Nat) : Bool := computeCRC data == check

/-- `computeLRC`: `lrc = sum(data) & 0xff; lrc = (lrc ^ 0xff) + 1; return lrc & 0xff` -/
def computeLRC (data : Bytes) : Nat :=
  let lrc := data.sum &&& 255
  let lrc := (lrc ^^^ 255) + 1
  lrc &&& 255

/-- `checkLRC`: `computeLRC(data) == check` -/
def checkLRC (data : Bytes) (check : Nat) : Bool := computeLRC data == check

end Pymodbus.Impl
