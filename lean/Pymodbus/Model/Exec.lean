/-
  Model of the `execute(context)` methods of the data-access requests (FC 1-6, 15, 16, 22, 23) and of
  `IllegalFunctionRequest`, statement by statement, against `SlaveCtx`.
  A Python exception raised by the datastore is `Except.error`; the server front-ends turn it into
  exception response 04 (`serverExecute`).
-/
import Pymodbus.Model.Pdu
import Pymodbus.Model.Store
namespace Pymodbus

def bit (b : Bool) : Nat := if b then 1 else 0

namespace Impl

/-- FC 1/2/3/4: `if not (1 <= count <= lim): IllegalValue; if not validate: IllegalAddress; getValues` -/
def readN (s : SlaveCtx) (fc lim a n : Nat) (mk : List Nat → Resp) : PyM (SlaveCtx × Resp) :=
  if ¬ (1 ≤ n ∧ n ≤ lim) then .ok (s, .exception fc excIllegalValue) else do
  if !(← s.validate fc a n) then return (s, .exception fc excIllegalAddress)
  let vs ← s.getValues fc a n
  return (s, mk vs)

/-- FC 5/6: validate one cell, write it, read it back for the echo -/
def writeOne (s : SlaveCtx) (fc a v : Nat) (mk : Nat → Resp) : PyM (SlaveCtx × Resp) := do
  if !(← s.validate fc a 1) then return (s, .exception fc excIllegalAddress)
  let s' ← s.setValues fc a [v]
  let vs ← s'.getValues fc a 1
  match vs with
  | v' :: _ => return (s', mk v')
  | [] => .error .index

def execute (s : SlaveCtx) : Req → PyM (SlaveCtx × Resp)
  | .readCoils a n => readN s 1 2000 a n .readCoils
  | .readDiscrete a n => readN s 2 2000 a n .readDiscrete
  | .readHolding a n => readN s 3 125 a n .readHolding
  | .readInput a n => readN s 4 125 a n .readInput
  | .writeCoil a w =>
    -- `if self.value_word not in [Off, On]: IllegalValue`
    if ¬ (w = 0xFF00 ∨ w = 0) then .ok (s, .exception 5 excIllegalValue)
    else writeOne s 5 a (bit (w = 0xFF00)) (.writeCoil a)
  | .writeRegister a v =>
    if ¬ (v ≤ 0xFFFF) then .ok (s, .exception 6 excIllegalValue)
    else writeOne s 6 a v (.writeRegister a)
  | .writeCoils a cnt bc vs =>
    let count := vs.length
    if ¬ (1 ≤ count ∧ count ≤ 0x7b0) then .ok (s, .exception 15 excIllegalValue)
    else if bc ≠ (count + 7) / 8 then .ok (s, .exception 15 excIllegalValue)
    else if cnt ≠ count then .ok (s, .exception 15 excIllegalValue)
    else do
      if !(← s.validate 15 a count) then return (s, .exception 15 excIllegalAddress)
      let s' ← s.setValues 15 a (vs.map bit)
      return (s', .writeCoils a count)
  | .writeRegisters a cnt bc vs =>
    if ¬ (1 ≤ cnt ∧ cnt ≤ 0x7b) then .ok (s, .exception 16 excIllegalValue)
    else if bc ≠ cnt * 2 then .ok (s, .exception 16 excIllegalValue)
    else if vs.length ≠ cnt then .ok (s, .exception 16 excIllegalValue)
    else do
      if !(← s.validate 16 a cnt) then return (s, .exception 16 excIllegalAddress)
      let s' ← s.setValues 16 a vs
      return (s', .writeRegisters a cnt)
  | .maskWrite a am om =>
    if ¬ (am ≤ 0xFFFF) then .ok (s, .exception 22 excIllegalValue)
    else if ¬ (om ≤ 0xFFFF) then .ok (s, .exception 22 excIllegalValue)
    else do
      if !(← s.validate 22 a 1) then return (s, .exception 22 excIllegalAddress)
      let vs ← s.getValues 22 a 1
      match vs with
      | cur :: _ =>
        let v := (cur &&& am) ||| (om &&& (am ^^^ 0xFFFF))
        let s' ← s.setValues 22 a [v]
        return (s', .maskWrite a am om)
      | [] => .error .index
  | .readWrite ra rn wa wn wbc wregs =>
    if ¬ (1 ≤ rn ∧ rn ≤ 0x7d) then .ok (s, .exception 23 excIllegalValue)
    else if ¬ (1 ≤ wn ∧ wn ≤ 0x79) then .ok (s, .exception 23 excIllegalValue)
    else if wbc ≠ wn * 2 then .ok (s, .exception 23 excIllegalValue)
    else if wregs.length ≠ wn then .ok (s, .exception 23 excIllegalValue)
    else do
      if !(← s.validate 23 wa wn) then return (s, .exception 23 excIllegalAddress)
      if !(← s.validate 23 ra rn) then return (s, .exception 23 excIllegalAddress)
      let s' ← s.setValues 23 wa wregs
      let regs ← s'.getValues 23 ra rn
      return (s', .readWrite regs)
  | .illegalFunction fc => .ok (s, .exception fc excIllegalFunction)
  | _ => .error .notImpl   -- non data-access requests are modelled elsewhere

/-- The front-ends' `try: response = request.execute(context) except Exception: doException(SlaveFailure)`.
    A raising datastore leaves the (model) context as it was. -/
def serverExecute (s : SlaveCtx) (r : Req) : SlaveCtx × Resp :=
  match execute s r with
  | .ok x => x
  | .error _ => (s, .exception r.fc excSlaveFailure)

end Impl
end Pymodbus
