/-
  Prelude: bytes, Python exception kinds, Python slice semantics.
  Core Lean only (no Mathlib) so that the driver links as a plain executable.
-/
namespace Pymodbus

/-- A byte string is a list of naturals; well-formedness (`< 256`) is a separate predicate. -/
abbrev Bytes := List Nat

def Bytes.WF (bs : Bytes) : Prop := ∀ b ∈ bs, b < 256

instance (bs : Bytes) : Decidable (Bytes.WF bs) := by unfold Bytes.WF; exact inferInstance

/-- Python exception kinds that matter for control flow. -/
inductive PyErr where
  | key | index | struct | value | type | attr
  | noSlave | param | modbusIO | invalidMsg | notImpl | modbusExc | other
  deriving DecidableEq, Repr, Inhabited

def PyErr.name : PyErr → String
  | .key => "key" | .index => "index" | .struct => "struct" | .value => "value"
  | .type => "type" | .attr => "attr" | .noSlave => "noslave" | .param => "param"
  | .modbusIO => "modbusio" | .invalidMsg => "invalidmsg" | .notImpl => "notimpl"
  | .modbusExc => "modbusexc" | .other => "other"

abbrev PyM := Except PyErr

/-- Normalise a Python slice index against a list of length `len`. -/
def normIdx (len : Nat) (i : Int) : Nat :=
  if i < 0 then (i + len).toNat else min i.toNat len

/-- `xs[a:b]` with Python semantics (negative indices wrap once, everything clamps). -/
def pySlice {α} (xs : List α) (a b : Int) : List α :=
  let s := normIdx xs.length a
  let e := normIdx xs.length b
  (xs.drop s).take (e - s)

/-- `xs[a:b] = vs` with Python semantics. -/
def pySliceAssign {α} (xs : List α) (a b : Int) (vs : List α) : List α :=
  let s := normIdx xs.length a
  let e := normIdx xs.length b
  xs.take s ++ vs ++ xs.drop (max s e)

/-- big-endian 16-bit -/
def be16 (n : Nat) : Bytes := [n / 256, n % 256]

/-- `struct.pack('>H', n)`: raises `struct.error` outside 0..65535 -/
def packH (n : Nat) : PyM Bytes := if n < 65536 then .ok (be16 n) else .error .struct

def packB (n : Nat) : PyM Bytes := if n < 256 then .ok [n] else .error .struct

def rdBe16 : Bytes → Option (Nat × Bytes)
  | a :: b :: r => some (a * 256 + b, r)
  | _ => none

def hexDigit (n : Nat) : Char :=
  if n < 10 then Char.ofNat (48 + n) else Char.ofNat (87 + n)

end Pymodbus
