/-
  pymodbus/events.py, as coded: the four event bytes an application can file in the
  communication event log (`ModbusControlBlock.addEvent`), which the FC 12 reply carries.
  `encode` goes through `pack_bitstring`, `decode` through `unpack_bitstring` (Model/Bits.lean).
-/
import Pymodbus.Model.Bits
namespace Pymodbus.Events

inductive Event
  | recv (overrun listen broadcast : Bool)                    -- RemoteReceiveEvent
  | send (read abort busy nak wtimeout listen : Bool)         -- RemoteSendEvent
  | listenMode                                                -- EnteredListenModeEvent (0x04)
  | restart                                                   -- CommunicationRestartEvent (0x00)
  deriving DecidableEq, Repr

/-- `event.encode()` -/
def encode : Event → Bytes
  | .recv o l b => packBits ([false, false, false] ++ [o, l, b, true])   -- `[False] * 3` + 4 bits: SEVEN bits
  | .send r a b n w l => packBits ([r, a, b, n, w, l] ++ [true, false])
  | .listenMode => [4]
  | .restart => [0]

/-- `bits[k]` of `unpack_bitstring(event)` for a one-byte event -/
def bit (v k : Nat) : Bool := (unpackBits [v]).getD k false

/-- `RemoteReceiveEvent.decode(bytes([v]))`: bits 4, 5, 6 -/
def decodeRecv (v : Nat) : Event := .recv (bit v 4) (bit v 5) (bit v 6)

/-- `RemoteSendEvent.decode(bytes([v]))`: bits 0..5 -/
def decodeSend (v : Nat) : Event := .send (bit v 0) (bit v 1) (bit v 2) (bit v 3) (bit v 4) (bit v 5)

/-- `EnteredListenModeEvent.decode` / `CommunicationRestartEvent.decode`: anything but the
    class's own byte raises `ParameterException` (`none`) -/
def decodeListen (v : Nat) : Option Event := if v = 4 then some .listenMode else none
def decodeRestart (v : Nat) : Option Event := if v = 0 then some .restart else none

/-- The byte the Modbus application protocol (6.8, "Remote device MODBUS Receive Event")
    defines: bit 4 overrun, bit 5 listen-only, bit 6 broadcast, bit 7 = 1. -/
def specRecvByte (o l b : Bool) : Nat :=
  (if o then 16 else 0) + (if l then 32 else 0) + (if b then 64 else 0) + 128

/-- "Remote device MODBUS Send Event": bits 0..5 flags, bit 6 = 1, bit 7 = 0. -/
def specSendByte (r a b n w l : Bool) : Nat :=
  (if r then 1 else 0) + (if a then 2 else 0) + (if b then 4 else 0) + (if n then 8 else 0) +
  (if w then 16 else 0) + (if l then 32 else 0) + 64

/-! ## The event log of `ModbusControlBlock` (device.py: `addEvent` / `getEvents` / `clearEvents`) -/

/-- `addEvent`: `events.insert(0, event); events = events[0:64]` (the Event counter is in Model/Control) -/
def addEvent (log : List Event) (e : Event) : List Event := (e :: log).take 64

/-- `getEvents`: `b''.join(event.encode() for event in events)` -/
def getEvents (log : List Event) : Bytes := log.flatMap encode

/-- the log after a history of `addEvent` calls, oldest call first -/
def runLog (log : List Event) (es : List Event) : List Event := es.foldl addEvent log

end Pymodbus.Events
