/-
  pymodbus/utilities.py: pack_bitstring / unpack_bitstring, as coded.
-/
import Pymodbus.Model.Prelude
namespace Pymodbus

/-- the loop of `pack_bitstring`: `i` bits of the current byte seen, accumulator `packed` -/
def packLoop : List Bool → Nat → Nat → Bytes → Bytes
  | [], i, packed, ret => if 0 < i ∧ i < 8 then ret ++ [packed >>> (7 - i)] else ret
  | b :: bs, i, packed, ret =>
    let packed := if b then packed + 128 else packed
    if i + 1 = 8 then packLoop bs 0 0 (ret ++ [packed]) else packLoop bs (i + 1) (packed >>> 1) ret

def packBits (bits : List Bool) : Bytes := packLoop bits 0 0 []

/-- `unpack_bitstring`: 8 bits per byte, least significant first -/
def unpackByte (v : Nat) : List Bool := (List.range 8).map (fun k => (v >>> k) % 2 = 1)

def unpackBits (bs : Bytes) : List Bool := bs.flatMap unpackByte

end Pymodbus
