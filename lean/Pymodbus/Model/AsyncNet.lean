/-
  Several asynchronous client connections in one process.

  Each protocol object (`ModbusClientProtocol.__init__`) owns
      self.framer      = framer or ModbusSocketFramer(ClientDecoder())     -- a fresh framer: its own `_buffer`
      self.transaction = DictTransactionManager(self) / FifoTransactionManager(self)
  so the state of the process is a family  index ↦ (protocol state of Model/AsyncClient.lean, framer buffer).

  `dataReceived(data)` (bytes arriving on ONE connection, in any chunking):
      self.framer.processIncomingPacket(data, self._handleResponse, unit=0)
  (unit 0 makes `_validate_unit_id` accept the unit found in the header of the buffered frame; before commit
  0a3302f the unit was read off the CHUNK – `self.framer.decode_data(data).get('unit', 0)` – which is kept
  below as the mutant `Guess.*`)
  through the framer models of Model/Framer.lean (`tcpStep` for the dict variant, `rtuStep rtuRuleClient` for the
  serial one) and `ClientDecoder.decode` (`Impl.decResp`); every delivered reply goes to `_handleResponse`
  (`AsyncClient.reply`), an exception of the framer escapes from `dataReceived`.

  `Shared.*` is the mutant in which all connections use one framer (one receive buffer); `Guess.*` the mutant
  (the code before 0a3302f) that takes the unit for the framer's unit check from the chunk.

  Core Lean only.
-/
import Pymodbus.Model.AsyncClient
import Pymodbus.Model.Framer
import Pymodbus.Model.Codec
namespace Pymodbus.AsyncClient
open Pymodbus Pymodbus.Framer

/-- one protocol object: protocol + transaction manager state, and the buffer of ITS framer -/
structure Conn where
  proto : State
  buf : Bytes
  deriving DecidableEq, Repr, Inhabited

def Conn.init : Conn := ⟨AsyncClient.init, []⟩

/-- `ClientDecoder.decode` as the framers call it -/
def decClient (pdu : Bytes) : PyM (Option Resp) := .ok (Impl.decResp pdu)

/-- what the harness reads off a delivered reply (first register of a read-holding reply) -/
def respTag : Resp → Nat
  | .readHolding (r :: _) => r
  | m => 65536 + m.fc

/-- `self.framer.decode_data(data).get('unit', 0)` – used by the mutant `Guess.dataReceived` only -/
def unitGuess (v : Variant) (chunk : Bytes) : Nat :=
  match v with
  | .dict => if chunk.length > 7 then chunk.getD 6 0 else 0
  | .fifo => if chunk.length > 1 then chunk.getD 0 0 else 0

def frameStep (v : Variant) : Bytes → Step :=
  match v with
  | .dict => tcpStep
  | .fifo => rtuStep rtuRuleClient

/-- the callback invocations of one `processIncomingPacket`, in order; a framer exception escapes -/
def handleAll (v : Variant) (s : State) : List (Ev Resp) → State × List Event
  | [] => (s, [])
  | .deliver m _ tid _ :: r =>
    let p := reply v s tid (respTag m)
    let q := handleAll v p.1 r
    (q.1, p.2 ++ q.2)
  | .raised e :: _ => (s, [.exc e])

/-- `dataReceived(chunk)` on one connection -/
def dataReceived (v : Variant) (c : Conn) (chunk : Bytes) : Conn × List Event :=
  let r := feed (frameStep v) decClient [0] false c.buf chunk      -- unit=0
  let p := handleAll v c.proto r.1
  (⟨p.1, r.2⟩, p.2)

/-- operations on one connection: those of Model/AsyncClient.lean, and the arrival of a chunk of bytes -/
inductive COp where
  | proto (op : Op)
  | data (chunk : Bytes)
  deriving DecidableEq, Repr, Inhabited

def cstep (v : Variant) (c : Conn) : COp → Conn × List Event
  | .proto op => (⟨(step v c.proto op).1, c.buf⟩, (step v c.proto op).2)
  | .data chunk => dataReceived v c chunk

def crun (v : Variant) (c : Conn) : List COp → Conn × List Event
  | [] => (c, [])
  | op :: ops =>
    let p := cstep v c op
    let q := crun v p.1 ops
    (q.1, p.2 ++ q.2)

/-- operations of the process: a new protocol object is created (a new connection, or a reconnect), or an
    operation happens on connection `i` -/
inductive NOp where
  | open
  | on (i : Nat) (op : COp)
  deriving DecidableEq, Repr, Inhabited

abbrev Net := List Conn

/-- events are tagged with the connection they belong to -/
def nstep (v : Variant) (n : Net) : NOp → Net × List (Nat × Event)
  | .open => (n ++ [Conn.init], [])
  | .on i op =>
    match n[i]? with
    | none => (n, [])
    | some c => (n.set i (cstep v c op).1, (cstep v c op).2.map (fun e => (i, e)))

def nrun (v : Variant) (n : Net) : List NOp → Net × List (Nat × Event)
  | [] => (n, [])
  | op :: ops =>
    let p := nstep v n op
    let q := nrun v p.1 ops
    (q.1, p.2 ++ q.2)

/-- the events of connection `i` -/
def eventsOf (i : Nat) (evs : List (Nat × Event)) : List Event :=
  evs.filterMap (fun p => if p.1 = i then some p.2 else none)

/-- the operations addressed to connection `i` -/
def opsOf (i : Nat) : List NOp → List COp
  | [] => []
  | .open :: r => opsOf i r
  | .on j op :: r => if j = i then op :: opsOf i r else opsOf i r

/-! ### the mutant: the unit for the unit check is read off the chunk (the code before 0a3302f) -/
namespace Guess

def dataReceived (v : Variant) (c : Conn) (chunk : Bytes) : Conn × List Event :=
  let r := feed (frameStep v) decClient [unitGuess v chunk] false c.buf chunk
  let p := handleAll v c.proto r.1
  (⟨p.1, r.2⟩, p.2)

def cstep (v : Variant) (c : Conn) : COp → Conn × List Event
  | .proto op => AsyncClient.cstep v c (.proto op)
  | .data chunk => dataReceived v c chunk

def crun (v : Variant) (c : Conn) : List COp → Conn × List Event
  | [] => (c, [])
  | op :: ops =>
    let p := cstep v c op
    let q := crun v p.1 ops
    (q.1, p.2 ++ q.2)

end Guess

/-! ### the mutant: one framer shared by all protocol objects -/
namespace Shared

/-- protocol states per connection, ONE receive buffer -/
structure SNet where
  protos : List State
  buf : Bytes
  deriving DecidableEq, Repr, Inhabited

def nstep (v : Variant) (n : SNet) : NOp → SNet × List (Nat × Event)
  | .open => (⟨n.protos ++ [AsyncClient.init], n.buf⟩, [])
  | .on i op =>
    match n.protos[i]? with
    | none => (n, [])
    | some s =>
      let p := cstep v ⟨s, n.buf⟩ op
      (⟨n.protos.set i p.1.proto, p.1.buf⟩, p.2.map (fun e => (i, e)))

def nrun (v : Variant) (n : SNet) : List NOp → SNet × List (Nat × Event)
  | [] => (n, [])
  | op :: ops =>
    let p := nstep v n op
    let q := nrun v p.1 ops
    (q.1, p.2 ++ q.2)

end Shared
end Pymodbus.AsyncClient
