/-
  Model of every `encode`/`decode` of the message classes registered in ServerDecoder/ClientDecoder
  (bit_*, register_*, diag_, other_, file_, mei_ message modules, pdu.py) and of the two decoders'
  dispatch (factory.py), statement by statement.  `struct.error`/`IndexError`/`ValueError` are values.
-/
import Pymodbus.Model.Pdu
import Pymodbus.Model.Bits
namespace Pymodbus
namespace Impl

/-! ### struct helpers -/

/-- `struct.pack('B', n)` -/
def packB (n : Nat) : PyM Bytes := if n < 256 then .ok [n] else .error .struct
/-- `int2byte(n)` = `bytes((n,))`: `ValueError` outside 0..255 -/
def int2byte (n : Nat) : PyM Bytes := if n < 256 then .ok [n] else .error .value
/-- `struct.pack('>H', n)` -/
def packH (n : Nat) : PyM Bytes := if n < 65536 then .ok [n / 256, n % 256] else .error .struct

def packHs : List Nat → PyM Bytes
  | [] => .ok []
  | v :: vs => do let a ← packH v; let r ← packHs vs; pure (a ++ r)

def packBs : List Nat → PyM Bytes
  | [] => .ok []
  | v :: vs => do let a ← packB v; let r ← packBs vs; pure (a ++ r)

/-- `struct.unpack('>H', d)`: exactly two bytes -/
def unpackH : Bytes → PyM Nat
  | [a, b] => .ok (a * 256 + b)
  | _ => .error .struct
/-- `struct.unpack('>HH', d)`: exactly four bytes -/
def unpackHH : Bytes → PyM (Nat × Nat)
  | [a, b, c, d] => .ok (a * 256 + b, c * 256 + d)
  | _ => .error .struct
def unpackHHH : Bytes → PyM (Nat × Nat × Nat)
  | [a, b, c, d, e, f] => .ok (a * 256 + b, c * 256 + d, e * 256 + f)
  | _ => .error .struct
/-- `struct.unpack('>HHB', d)` -/
def unpackHHB : Bytes → PyM (Nat × Nat × Nat)
  | [a, b, c, d, e] => .ok (a * 256 + b, c * 256 + d, e)
  | _ => .error .struct
/-- `struct.unpack('>HHHHB', d)` -/
def unpackHHHHB : Bytes → PyM (Nat × Nat × Nat × Nat × Nat)
  | [a, b, c, d, e, f, g, h, i] => .ok (a * 256 + b, c * 256 + d, e * 256 + f, g * 256 + h, i)
  | _ => .error .struct
/-- `struct.unpack('>BHHH', d)` -/
def unpackBHHH : Bytes → PyM (Nat × Nat × Nat × Nat)
  | [a, b, c, d, e, f, g] => .ok (a, b * 256 + c, d * 256 + e, f * 256 + g)
  | _ => .error .struct
def unpackBB : Bytes → PyM (Nat × Nat)
  | [a, b] => .ok (a, b)
  | _ => .error .struct
def unpackBBB : Bytes → PyM (Nat × Nat × Nat)
  | [a, b, c] => .ok (a, b, c)
  | _ => .error .struct

/-- `data[i]` -/
def idx (d : Bytes) (i : Nat) : PyM Nat :=
  match d[i]? with
  | some v => .ok v
  | none => .error .index

/-- `data[a:b]` for non-negative `a`, `b` -/
def slice (d : Bytes) (a b : Nat) : Bytes := (d.drop a).take (b - a)

/-! ### encoders -/

def encDiag (sub : Nat) (m : DiagMsg) : PyM Bytes := do
  let h ← packH sub
  match m with
  | .none => pure h
  | .int n => do let w ← packH n; pure (h ++ w)
  | .list ws => do let w ← packHs ws; pure (h ++ w)
  | .tuple _ => pure h            -- a tuple is none of str/bytes/list/int: nothing is appended
  | .bytes bs => pure (h ++ bs)

def encRecs7 : List FileRec → PyM Bytes
  | [] => .ok []
  | r :: rs => do
    let a ← packB 6
    let b ← packH r.fileNumber
    let c ← packH r.recordNumber
    let d ← packH r.recordLength
    let rest ← encRecs7 rs
    pure (a ++ b ++ c ++ d ++ rest)

def encRecsWrite : List FileRec → PyM Bytes
  | [] => .ok []
  | r :: rs => do
    let b ← packH r.fileNumber
    let c ← packH r.recordNumber
    let d ← packH r.recordLength
    let rest ← encRecsWrite rs
    pure ([6] ++ b ++ c ++ d ++ r.recordData ++ rest)

def encRecsReadResp : List FileRec → PyM Bytes
  | [] => .ok []
  | r :: rs => do
    let l ← packB r.recordLength
    let rest ← encRecsReadResp rs
    pure ([6] ++ l ++ r.recordData ++ rest)

def sumMap {α} (f : α → Nat) : List α → Nat
  | [] => 0
  | a :: as => f a + sumMap f as

/-- `request.encode()` (without the function code) -/
def encReq : Req → PyM Bytes
  | .readCoils a n | .readDiscrete a n | .readHolding a n | .readInput a n => do
    let x ← packH a; let y ← packH n; pure (x ++ y)
  | .writeCoil a w => do
    let x ← packH a
    pure (x ++ (if w = 0xFF00 then [0xFF, 0] else [0, 0]))
  | .writeRegister a v => do let x ← packH a; let y ← packH v; pure (x ++ y)
  | .writeCoils a _ _ vs => do
    let count := vs.length
    let x ← packH a; let y ← packH count; let z ← packB ((count + 7) / 8)
    pure (x ++ y ++ z ++ packBits vs)
  | .writeRegisters a cnt bc vs => do
    let x ← packH a; let y ← packH cnt; let z ← packB bc
    let w ← packHs vs
    pure (x ++ y ++ z ++ w)
  | .maskWrite a am om => do
    let x ← packH a; let y ← packH am; let z ← packH om; pure (x ++ y ++ z)
  | .readWrite ra rn wa wn wbc ws => do
    let a ← packH ra; let b ← packH rn; let c ← packH wa; let d ← packH wn; let e ← packB wbc
    let w ← packHs ws
    pure (a ++ b ++ c ++ d ++ e ++ w)
  | .diag sub m => encDiag sub m
  | .readExceptionStatus | .getCommEventCounter | .getCommEventLog | .reportSlaveId => .ok []
  | .readFileRecord rs => do
    let h ← packB (rs.length * 7)
    let b ← encRecs7 rs
    pure (h ++ b)
  | .writeFileRecord rs => do
    let h ← packB (sumMap (fun r => r.recordLength * 2 + 7) rs)
    let b ← encRecsWrite rs
    pure (h ++ b)
  | .readFifo a => packH a
  | .readDeviceInfo sub rc oid => do
    let a ← packB sub; let b ← packB rc; let c ← packB oid; pure (a ++ b ++ c)
  | .illegalFunction _ => .error .notImpl

def truthy (n : Nat) : Bool := n != 0

def encObjects : List (Nat × List Bytes) → Nat → Nat → PyM (Bytes × Nat × Option Nat)
  -- returns (objects bytes, number encoded, id that ran out of space); `space` is `space_left`
  | [], _, n => .ok ([], n, none)
  | (oid, []) :: rest, space, n => encObjects rest space n
  | (oid, item :: items) :: rest, space, n =>
    -- `self.space_left -= 2 + len(data); if self.space_left <= 0: raise _OutOfSpaceException(object_id)`
    if space ≤ 2 + item.length then .ok ([], n, some oid)
    else do
      let a ← packB oid
      let b ← packB item.length
      let (bs, n', out) ← encObjects ((oid, items) :: rest) (space - (2 + item.length)) (n + 1)
      pure (a ++ b ++ item ++ bs, n', out)

/-- `response.encode()` (without the function code) -/
def encResp : Resp → PyM Bytes
  | .readCoils bits | .readDiscrete bits => do
    let p := packBits (bits.map truthy)
    let h ← packB p.length
    pure (h ++ p)
  | .readHolding regs | .readInput regs | .readWrite regs => do
    let h ← int2byte (regs.length * 2)
    let b ← packHs regs
    pure (h ++ b)
  | .writeCoil a v => do
    let x ← packH a
    pure (x ++ (if truthy v then [0xFF, 0] else [0, 0]))
  | .writeRegister a v => do let x ← packH a; let y ← packH v; pure (x ++ y)
  | .writeCoils a n | .writeRegisters a n => do let x ← packH a; let y ← packH n; pure (x ++ y)
  | .maskWrite a am om => do
    let x ← packH a; let y ← packH am; let z ← packH om; pure (x ++ y ++ z)
  | .diag sub m => encDiag sub m
  | .readExceptionStatus st => packB st
  | .getCommEventCounter st c => do
    let x ← packH (if st then 0 else 0xFFFF); let y ← packH c; pure (x ++ y)
  | .getCommEventLog st ec mc evs => do
    let h ← packB (6 + evs.length)
    let x ← packH (if st then 0 else 0xFFFF)
    let y ← packH ec; let z ← packH mc
    let e ← packBs evs
    pure (h ++ x ++ y ++ z ++ e)
  | .reportSlaveId ident st => do
    let h ← int2byte (ident.length + 1)
    pure (h ++ ident ++ [if st then 0xFF else 0])
  | .readFileRecord rs => do
    let h ← packB (sumMap (fun r => r.responseLength + 1) rs)
    let b ← encRecsReadResp rs
    pure (h ++ b)
  | .writeFileRecord rs => do
    let h ← packB (sumMap (fun r => r.recordLength * 2 + 7) rs)
    let b ← encRecsWrite rs
    pure (h ++ b)
  | .readFifo vs => do
    let l := vs.length * 2
    let x ← packH (2 + l); let y ← packH l
    let b ← packHs vs
    pure (x ++ y ++ b)
  | .readDeviceInfo rc conf mf nxt _ info => do
    -- `self.space_left = 253 - 6; self.number_of_objects = 0`; `more_follows`/`next_object_id` keep the
    -- object's current values unless the objects run out of space
    let a ← packB 0x0E; let b ← packB rc; let c ← packB conf
    let (objs, num', out) ← encObjects info 247 0
    let (mf', nxt') := match out with
      | some oid => (0xFF, oid)
      | none => (mf, nxt)
    let d ← packB mf'; let e ← packB nxt'; let f ← packB num'
    pure (a ++ b ++ c ++ d ++ e ++ f ++ objs)
  | .exception _ code => int2byte code

/-! ### decoders -/

/-- `for idx in range(start, stop, 2): if idx+2 > len(data): break; values.append(unpack('>H', data[idx:idx+2]))`
    (the tolerant loop of the write requests) -/
def decRegsTolerant (d : Bytes) : Nat → Nat → List Nat
  | _, 0 => []
  | i, n + 1 =>
    if i + 2 > d.length then []
    else match slice d i (i + 2) with
      | [a, b] => (a * 256 + b) :: decRegsTolerant d (i + 2) n
      | _ => []

/-- `for i in range(start, stop, 2): regs.append(unpack('>H', data[i:i+2])[0])` (raises on a short tail);
    `n` = number of iterations -/
def decRegsStrict (d : Bytes) : Nat → Nat → PyM (List Nat)
  | _, 0 => .ok []
  | i, n + 1 => do
    let v ← unpackH (slice d i (i + 2))
    let r ← decRegsStrict d (i + 2) n
    pure (v :: r)

/-- number of iterations of `range(a, b, step)` -/
def rangeLen (a b step : Nat) : Nat := if b ≤ a then 0 else (b - a + step - 1) / step

/-- ReadFileRecordRequest.decode loop: `for count in range(1, byte_count, 7)` -/
def decRecs7 (d : Bytes) : Nat → Nat → PyM (List FileRec)
  | _, 0 => .ok []
  | c, n + 1 => do
    let (rt, fn, rn, rl) ← unpackBHHH (slice d c (c + 7))
    let rest ← decRecs7 d (c + 7) n
    let r : FileRec := { referenceType := 6, fileNumber := fn, recordNumber := rn, recordData := [],
                         recordLength := rl, responseLength := 1 }
    pure (if rt = 6 then r :: rest else rest)

/-- Write-file-record decode loop: `while count < byte_count` (fuel = remaining bytes, each round ≥ 7) -/
def decRecsWrite (d : Bytes) (bc : Nat) : Nat → Nat → PyM (List FileRec)
  | _, 0 => .ok []
  | c, fuel + 1 =>
    if c < bc then do
      let (rt, fn, rn, rl) ← unpackBHHH (slice d c (c + 7))
      let rlen := rl * 2
      let c' := c + rlen + 7
      let data := slice d (c' - rlen) c'
      let rest ← decRecsWrite d bc c' fuel
      let r : FileRec := { referenceType := 6, fileNumber := fn, recordNumber := rn, recordData := data,
                           recordLength := rl, responseLength := data.length + 1 }
      pure (if rt = 6 then r :: rest else rest)
    else .ok []

/-- ReadFileRecordResponse.decode loop -/
def decRecsReadResp (d : Bytes) (bc : Nat) : Nat → Nat → PyM (List FileRec)
  | _, 0 => .ok []
  | c, fuel + 1 =>
    if c < bc then do
      let (rlen, rt) ← unpackBB (slice d c (c + 2))
      let c' := c + rlen + 1
      let data := slice d (c' - rlen + 1) c'
      let rest ← decRecsReadResp d bc c' fuel
      let r : FileRec := { referenceType := 6, fileNumber := 0, recordNumber := 0, recordData := data,
                           recordLength := data.length / 2, responseLength := rlen }
      pure (if rt = 6 then r :: rest else rest)
    else .ok []

/-- ServerDecoder.__sub_function_table: diagnostic sub-function codes that have their own class -/
def diagSubs : List Nat := [0, 1, 2, 3, 4, 10, 11, 12, 13, 14, 15, 16, 17, 18, 19, 20, 21]

/-- class-name stem of the diagnostic sub-function classes (`<stem>Request` / `<stem>Response`); after
    `decode` the decoders re-class the object by `sub_function_code`; an unknown sub-function keeps the base
    class `DiagnosticStatus…` -/
def diagStem (sub : Nat) : String :=
  match sub with
  | 0 => "ReturnQueryData" | 1 => "RestartCommunicationsOption" | 2 => "ReturnDiagnosticRegister"
  | 3 => "ChangeAsciiInputDelimiter" | 4 => "ForceListenOnlyMode" | 10 => "ClearCounters"
  | 11 => "ReturnBusMessageCount" | 12 => "ReturnBusCommunicationErrorCount"
  | 13 => "ReturnBusExceptionErrorCount" | 14 => "ReturnSlaveMessageCount"
  | 15 => "ReturnSlaveNoResponseCount" | 16 => "ReturnSlaveNAKCount" | 17 => "ReturnSlaveBusyCount"
  | 18 => "ReturnSlaveBusCharacterOverrunCount" | 19 => "ReturnIopOverrunCount"
  | 20 => "ClearOverrunCount" | 21 => "GetClearModbusPlus"
  | _ => "DiagnosticStatus"

def diagReqClass (sub : Nat) : String := diagStem sub ++ "Request"
/-- (the library spells one response class `ReturnSlaveNoReponseCountResponse`) -/
def diagRespClass (sub : Nat) : String :=
  if sub = 15 then "ReturnSlaveNoReponseCountResponse" else diagStem sub ++ "Response"

/-- `ServerDecoder.decode(message)`: lookup, `request.decode(data[1:])`.  (`ModbusException`s are caught and
    turned into `None` by the real decoder; none is raised on this path.) -/
def decReq (msg : Bytes) : PyM Req := do
  let fc ← idx msg 0
  let d := msg.drop 1
  match fc with
  | 1 => do let (a, n) ← unpackHH d; pure (.readCoils a n)
  | 2 => do let (a, n) ← unpackHH d; pure (.readDiscrete a n)
  | 3 => do let (a, n) ← unpackHH d; pure (.readHolding a n)
  | 4 => do let (a, n) ← unpackHH d; pure (.readInput a n)
  | 5 => do let (a, w) ← unpackHH d; pure (.writeCoil a w)
  | 6 => do let (a, v) ← unpackHH d; pure (.writeRegister a v)
  | 15 => do
    let (a, cnt, bc) ← unpackHHB (slice d 0 5)
    pure (.writeCoils a cnt bc ((unpackBits (d.drop 5)).take cnt))
  | 16 => do
    let (a, cnt, bc) ← unpackHHB (slice d 0 5)
    pure (.writeRegisters a cnt bc (decRegsTolerant d 5 cnt))
  | 22 => do let (a, am, om) ← unpackHHH d; pure (.maskWrite a am om)
  | 23 => do
    let (ra, rn, wa, wn, wbc) ← unpackHHHHB (slice d 0 9)
    pure (.readWrite ra rn wa wn wbc (decRegsTolerant d 9 (rangeLen 9 (wbc + 9) 2)))
  | 8 => do let (sub, m) ← unpackHH d; pure (.diag sub (.int m))
  | 7 => pure .readExceptionStatus
  | 11 => pure .getCommEventCounter
  | 12 => pure .getCommEventLog
  | 17 => pure .reportSlaveId
  | 20 => do
    let bc ← idx d 0
    let rs ← decRecs7 d 1 (rangeLen 1 bc 7)
    pure (.readFileRecord rs)
  | 21 => do
    let bc ← idx d 0
    let rs ← decRecsWrite d bc 1 d.length
    pure (.writeFileRecord rs)
  | 24 => do let a ← unpackH d; pure (.readFifo a)
  | 43 => do let (sub, rc, oid) ← unpackBBB d; pure (.readDeviceInfo sub rc oid)
  | fc => pure (.illegalFunction fc)

def b2n (b : Bool) : Nat := if b then 1 else 0

/-- events loop of GetCommEventLogResponse.decode: `for e in range(7, length+1): data[e]` -/
def decEvents (d : Bytes) : Nat → Nat → PyM (List Nat)
  | _, 0 => .ok []
  | e, n + 1 => do let v ← idx d e; let r ← decEvents d (e + 1) n; pure (v :: r)

/-- FIFO loop: `for index in range(0, count - 4): idx = 4 + index*2; unpack('>H', data[idx:idx+2])` -/
def decFifo (d : Bytes) : Nat → Nat → PyM (List Nat)
  | _, 0 => .ok []
  | i, n + 1 => do let v ← unpackH (slice d i (i + 2)); let r ← decFifo d (i + 2) n; pure (v :: r)

/-- information dict update of ReadDeviceInformationResponse.decode (insertion ordered; a repeated id
    turns the entry into a list) -/
def infoAdd : List (Nat × List Bytes) → Nat → Bytes → List (Nat × List Bytes)
  | [], k, v => [(k, [v])]
  | (k', vs) :: r, k, v => if k' = k then (k', vs ++ [v]) :: r else (k', vs) :: infoAdd r k v

def decObjects (d : Bytes) : Nat → Nat → List (Nat × List Bytes) → PyM (List (Nat × List Bytes))
  | _, 0, info => .ok info
  | c, fuel + 1, info =>
    if c < d.length then do
      let (oid, olen) ← unpackBB (slice d c (c + 2))
      let c' := c + olen + 2
      decObjects d c' fuel (infoAdd info oid (slice d (c' - olen) c'))
    else .ok info

/-- `response.decode(data)` per class; any Python exception makes `ClientDecoder.decode` return `None` -/
def decRespBody (fc : Nat) (d : Bytes) : PyM Resp :=
  match fc with
  | 1 => do let _ ← idx d 0; pure (.readCoils ((unpackBits (d.drop 1)).map b2n))
  | 2 => do let _ ← idx d 0; pure (.readDiscrete ((unpackBits (d.drop 1)).map b2n))
  | 3 => do let bc ← idx d 0; let r ← decRegsStrict d 1 (rangeLen 1 (bc + 1) 2); pure (.readHolding r)
  | 4 => do let bc ← idx d 0; let r ← decRegsStrict d 1 (rangeLen 1 (bc + 1) 2); pure (.readInput r)
  | 5 => do let (a, w) ← unpackHH d; pure (.writeCoil a (b2n (w = 0xFF00)))
  | 6 => do let (a, v) ← unpackHH d; pure (.writeRegister a v)
  | 15 => do let (a, n) ← unpackHH d; pure (.writeCoils a n)
  | 16 => do let (a, n) ← unpackHH d; pure (.writeRegisters a n)
  | 22 => do let (a, am, om) ← unpackHHH d; pure (.maskWrite a am om)
  | 23 => do let bc ← idx d 0; let r ← decRegsStrict d 1 (rangeLen 1 bc 2); pure (.readWrite r)
  | 8 => do
    -- odd length is padded with b'0' (0x30); all words unpacked; first is the sub-function
    let d' := if d.length % 2 = 1 then d ++ [0x30] else d
    let ws ← decRegsStrict d' 0 (d'.length / 2)
    match ws with
    | sub :: rest => pure (.diag sub (.list rest))
    | [] => .error .index
  | 7 => do let st ← idx d 0; pure (.readExceptionStatus st)
  | 11 => do let (rdy, c) ← unpackHH d; pure (.getCommEventCounter (rdy = 0) c)
  | 12 => do
    let len ← idx d 0
    let st ← unpackH (slice d 1 3)
    let ec ← unpackH (slice d 3 5)
    let mc ← unpackH (slice d 5 7)
    let evs ← decEvents d 7 (rangeLen 7 (len + 1) 1)
    pure (.getCommEventLog (st = 0) ec mc evs)
  | 17 => do
    let bc ← idx d 0
    match d.getLast? with
    | some last => pure (.reportSlaveId (slice d 1 bc) (last = 0xFF))
    | none => .error .index
  | 20 => do
    let bc ← idx d 0
    let rs ← decRecsReadResp d bc 1 d.length
    pure (.readFileRecord rs)
  | 21 => do
    let bc ← idx d 0
    let rs ← decRecsWrite d bc 1 d.length
    pure (.writeFileRecord rs)
  | 24 => do
    let (_, cnt) ← unpackHH (slice d 0 4)
    let vs ← decFifo d 4 (cnt - 4)
    pure (.readFifo vs)
  | 43 => do
    match slice d 0 6 with
    | [_sub, rc, conf, mf, nxt, num] => do
      let info ← decObjects d 6 d.length []
      pure (.readDeviceInfo rc conf mf nxt num info)
    | _ => .error .struct
  | _ => .error .modbusExc

/-- `ClientDecoder.decode(message)`: `None` on any failure -/
def decResp (msg : Bytes) : Option Resp :=
  match msg with
  | [] => none
  | fc :: d =>
    if fc > 0x80 then
      match d with
      | code :: _ => some (.exception (fc &&& 0x7F) code)
      | [] => none
    else
      match decRespBody fc d with
      | .ok r => some r
      | .error _ => none

/-! ### side effects of `encode()` on the object, and `decode()` into an already used object -/

/-- the request object after a successful `encode()`: `WriteMultipleCoilsRequest.encode` stores
    `self.byte_count = (len(values)+7)//8`; no other request class assigns to `self` -/
def postEncReq : Req → Req
  | .writeCoils a cnt _ vs => .writeCoils a cnt ((vs.length + 7) / 8) vs
  | r => r

/-- the response object after a successful `encode()`: only `ReadDeviceInformationResponse.encode`
    assigns to `self` (`number_of_objects`, and `more_follows`/`next_object_id` when out of space) -/
def postEncResp : Resp → Resp
  | .readDeviceInfo rc conf mf nxt num info =>
    match encObjects info 247 0 with
    | .ok (_, num', some oid) => .readDeviceInfo rc conf 0xFF oid num' info
    | .ok (_, num', none) => .readDeviceInfo rc conf mf nxt num' info
    | .error _ => .readDeviceInfo rc conf mf nxt num info
  | r => r

/-- `obj.decode(data)` on an object that already holds the state `o` (same class).  Every class assigns
    its fields afresh, except `ReadWriteMultipleRegistersResponse.decode`, which appends to `registers`. -/
def decodeIntoResp (o : Resp) (d : Bytes) : PyM Resp :=
  match o with
  | .readWrite old => do
    let bc ← idx d 0
    let r ← decRegsStrict d 1 (rangeLen 1 bc 2)
    pure (.readWrite (old ++ r))
  | .exception fc _ => do let c ← idx d 0; pure (.exception fc c)
  | o => decRespBody o.fc d

end Impl
end Pymodbus
