/-
  The process-wide `ModbusControlBlock` (device.py) as far as the `execute` methods of the requests that do not
  touch the datastore use it, and those `execute` methods (diag_message.py, other_message.py, file_message.py,
  mei_message.py).  A Python exception out of `execute` is `Except.error`; the server front-ends turn it into
  exception response 04 (`Server.execAny`).
-/
import Pymodbus.Model.Diag
import Pymodbus.Model.DevId
import Pymodbus.Model.Exec
namespace Pymodbus

/-- `ModbusControlBlock`: the counters (`ModbusCountersHandler.__data`, keys 0..8: BusMessage,
    BusCommunicationError, BusExceptionError, SlaveMessage, SlaveNoResponse, SlaveNAK, SlaveBusy,
    BusCharacterOverrun, Event), the listen-only flag, the 16 diagnostic-register flags, the encoded event log
    (`getEvents()`), the Modbus Plus statistics words (`Plus.encode()`) and the identity. -/
structure Control where
  counters : List Nat
  listenOnly : Bool := false
  diagReg : List Bool
  events : Bytes := []
  plus : List Nat
  ident : DevId.Ident
  deriving Repr

namespace Control

def counter (c : Control) (i : Nat) : Nat := c.counters.getD i 0

def setCounter (c : Control) (i v : Nat) : Control := { c with counters := c.counters.set i v }

/-- `Counter.summary()`: bit k is set iff counter k is non-zero (nine counters: the result may exceed a byte) -/
def summaryLoop : List Nat → Nat → Nat → Nat
  | [], _, result => result
  | v :: vs, count, result => summaryLoop vs (count * 2) (if v ≠ 0 then result ||| count else result)

def summary (c : Control) : Nat := summaryLoop c.counters 1 0

/-- `_MCB.reset()`: events, counters and the diagnostic register -/
def reset (c : Control) : Control :=
  { c with events := [], counters := List.replicate 9 0, diagReg := List.replicate 16 false }

end Control

namespace Impl

/-- which counter the "return … count" sub-functions 11..19 read -/
def diagCounterIndex (sub : Nat) : Nat :=
  if sub = 19 then 7 else sub - 11

/-- the message word of a decoded diagnostic request (`struct.unpack('>HH')` gives an int) -/
def diagWord : DiagMsg → Option Nat
  | .int m => some m
  | _ => none

/-- `DiagnosticStatus…Request.execute()`: new control block, response object (its `should_respond` is a property of
    the response class: only `ForceListenOnlyModeResponse` says no) -/
def executeDiag (c : Control) (sub : Nat) (msg : DiagMsg) : PyM (Control × Resp) :=
  match diagWord msg with
  | none => .error .attr
  | some m =>
    match diagReply sub m (c.counter (diagCounterIndex sub)) (packBits c.diagReg) (c.plus) with
    | none => .error .attr               -- the base class has no `execute`
    | some (reply, _) =>
      let c' :=
        if sub = 4 then { c with listenOnly := true }
        else if sub = 10 then c.reset
        else if sub = 20 then c.setCounter 7 0
        else if sub = 21 ∧ m = 4 then { c with plus := List.replicate c.plus.length 0 }
        else c
      .ok (c', .diag sub reply)

/-- `"-".join(information.values()).encode()` -/
def joinDash : List Bytes → Bytes
  | [] => []
  | [x] => x
  | x :: rest => x ++ [45] ++ joinDash rest

/-- `request.execute(context)` of the classes that do not touch the datastore -/
def executeOther (c : Control) : Req → PyM (Control × Resp)
  | .diag sub msg => executeDiag c sub msg
  | .readExceptionStatus => .ok (c, .readExceptionStatus c.summary)
  | .getCommEventCounter => .ok (c, .getCommEventCounter true (c.counter 8))
  | .getCommEventLog => .ok (c, .getCommEventLog true (c.counter 8) (c.counter 0) c.events)
  | .reportSlaveId =>
    -- `information = DeviceInformationFactory.get(_MCB)` (Basic, object 0); `identifier or b'Pymodbus'`
    let (d', info) := DevId.factoryGets c.ident (DevId.pyRange 0 3)
    let ident := joinDash (info.map (·.2))
    .ok ({ c with ident := d' }, .reportSlaveId (if ident = [] then [80, 121, 109, 111, 100, 98, 117, 115] else ident) true)
  | .readFileRecord _ => .ok (c, .readFileRecord [])
  | .writeFileRecord rs => .ok (c, .writeFileRecord rs)
  | .readFifo a =>
    -- `self.values = []`: the queue is always empty
    if ¬ (a ≤ 65535) then .ok (c, .exception 24 excIllegalValue) else .ok (c, .readFifo [])
  | .readDeviceInfo _ rc oid =>
    match DevId.execute c.ident rc oid with
    | .error e => .error e
    | .ok (d', .exception code) => .ok ({ c with ident := d' }, .exception 43 code)
    | .ok (d', .resp r) =>
      .ok ({ c with ident := d' },
           .readDeviceInfo r.readCode r.conformity r.moreFollows r.nextObjectId r.numberOfObjects
             (r.information.map (fun kv => (kv.1, [kv.2]))))
  | _ => .error .notImpl

end Impl
end Pymodbus
