/-
  Model of pymodbus/payload.py (BinaryPayloadBuilder / BinaryPayloadDecoder) and of the three
  helpers it uses from pymodbus/utilities.py (pack_bitstring, unpack_bitstring, make_byte_string).

  Values are tagged bit patterns: a numeric value carries the `Nat` bit pattern of its `struct`
  image (signed integers as two's complement, floats as their IEEE-754 pattern; the conversion
  Python number <-> bit pattern is `struct`'s and is done, trusted, by the harness).
  Core Lean only.
-/
import Pymodbus.Model.Prelude
namespace Pymodbus.Payload
open Pymodbus

/-- `pymodbus.constants.Endian.Big = '>'`, `Endian.Little = '<'` -/
inductive Endian where
  | big | little
  deriving DecidableEq, Repr, Inhabited

def Endian.char : Endian → Char
  | .big => '>'
  | .little => '<'

/-! ## `struct` on bit patterns -/

/-- the `k`-byte big-endian (network order, `'!'`/`'>'`) image of `n` -/
def beBytes : Nat → Nat → Bytes
  | 0, _ => []
  | k + 1, n => beBytes k (n / 256) ++ [n % 256]

/-- the number a byte string denotes read big-endian -/
def beVal (bs : Bytes) : Nat := bs.foldl (fun a b => a * 256 + b) 0

/-- `struct.pack(bo + fmt, v)` for a `k`-byte numeric format, on the bit pattern `n` of `v`;
    `struct.error` when the value does not fit the format -/
def structPack (bo : Endian) (k n : Nat) : PyM Bytes :=
  if n < 256 ^ k then
    .ok (match bo with
      | .big => beBytes k n
      | .little => (beBytes k n).reverse)
  else .error .struct

/-- `struct.unpack(bo + fmt, bs)[0]` for a `k`-byte numeric format, as a bit pattern;
    `struct.error` when the buffer does not have exactly `k` bytes -/
def structUnpack (bo : Endian) (k : Nat) (bs : Bytes) : PyM Nat :=
  if bs.length = k then
    .ok (beVal (match bo with
      | .big => bs
      | .little => bs.reverse))
  else .error .struct

/-- the 16-bit words of a byte string read in network order -/
def chunkWords : Bytes → List Nat
  | a :: b :: r => (a * 256 + b) :: chunkWords r
  | _ => []

/-- `struct.unpack('!{wc}H', bs)` -/
def unpackWords (wc : Nat) (bs : Bytes) : PyM (List Nat) :=
  if bs.length = 2 * wc then .ok (chunkWords bs) else .error .struct

/-- `[f(x) for x in xs]` where `f` may raise -/
def mapE {α β : Type} (f : α → PyM β) : List α → PyM (List β)
  | [] => .ok []
  | a :: as =>
    match f a with
    | .error e => .error e
    | .ok b =>
      match mapE f as with
      | .error e => .error e
      | .ok bs => .ok (b :: bs)

/-- Python `s[a:b]` for `0 ≤ a ≤ b` -/
def slice {α : Type} (s : List α) (a b : Nat) : List α := (s.drop a).take (b - a)

/-! ## value types -/

inductive NumTy where
  | u8 | i8 | u16 | i16 | u32 | i32 | u64 | i64 | f16 | f32 | f64
  deriving DecidableEq, Repr, Inhabited

namespace NumTy
/-- the `struct` format character the builder/decoder method uses -/
def fmt : NumTy → Char
  | u8 => 'B' | i8 => 'b' | u16 => 'H' | i16 => 'h' | u32 => 'I' | i32 => 'i'
  | u64 => 'Q' | i64 => 'q' | f16 => 'e' | f32 => 'f' | f64 => 'd'

/-- size in bytes of the format (for the word formats this is `WC[fmt.lower()]`) -/
def size : NumTy → Nat
  | u8 => 1 | i8 => 1 | u16 => 2 | i16 => 2 | u32 => 4 | i32 => 4
  | u64 => 8 | i64 => 8 | f16 => 2 | f32 => 4 | f64 => 8

/-- does `add_*`/`decode_*` go through `_pack_words`/`_unpack_words`?  (8- and 16-bit integers
    are packed directly with `byteorder + fmt`) -/
def viaWords : NumTy → Bool
  | u8 | i8 | u16 | i16 => false
  | _ => true

def name : NumTy → String
  | u8 => "u8" | i8 => "i8" | u16 => "u16" | i16 => "i16" | u32 => "u32" | i32 => "i32"
  | u64 => "u64" | i64 => "i64" | f16 => "f16" | f32 => "f32" | f64 => "f64"

def all : List NumTy := [u8, i8, u16, i16, u32, i32, u64, i64, f16, f32, f64]
end NumTy

/-- `payload.WC`, keyed by the lower-cased format character -/
def wcTable : List (Char × Nat) :=
  [('b', 1), ('d', 8), ('e', 2), ('f', 4), ('h', 2), ('i', 4), ('l', 4), ('q', 8)]

inductive Value where
  | num (t : NumTy) (n : Nat)
  | bits (l : List Bool)
  | str (s : Bytes)
  deriving DecidableEq, Repr, Inhabited

/-- what the decoder is asked for: `decode_<t>()`, `k` calls of `decode_bits()` (results
    concatenated), `decode_string(size)` -/
inductive Ty where
  | num (t : NumTy)
  | bits (k : Nat)
  | str (size : Nat)
  deriving DecidableEq, Repr, Inhabited

/-- the decode calls that read a value back -/
def Value.ty : Value → Ty
  | .num t _ => .num t
  | .bits l => .bits ((l.length + 7) / 8)
  | .str s => .str s.length

/-! ## utilities.py -/

/-- `pack_bitstring`: the loop as coded, state `(i, packed, ret)`; `packed >>= 1` is `/ 2` -/
def packLoop : List Bool → Nat → Nat → Bytes → Bytes
  | [], i, packed, ret =>
    if 0 < i ∧ i < 8 then ret ++ [packed / 2 ^ (7 - i)] else ret
  | bit :: bits, i, packed, ret =>
    let packed := if bit then packed + 128 else packed
    let i := i + 1
    if i = 8 then packLoop bits 0 0 (ret ++ [packed])
    else packLoop bits i (packed / 2) ret

def packBitstring (bits : List Bool) : Bytes := packLoop bits 0 0 []

/-- inner loop of `unpack_bitstring`: `k` times `bits.append(value & 1 == 1); value >>= 1` -/
def unpackByte : Nat → Nat → List Bool
  | 0, _ => []
  | k + 1, v => (v % 2 == 1) :: unpackByte k (v / 2)

def unpackBitstring (s : Bytes) : List Bool := s.flatMap (unpackByte 8)

/-! ## BinaryPayloadBuilder -/

/-- `_pack_words(fstring, value)` with `wc = WC[fstring.lower()] // 2` -/
def packWords (bo wo : Endian) (wc n : Nat) : PyM Bytes := do
  let value ← structPack .big (2 * wc) n            -- pack('!' + fstring, value)
  let payload ← unpackWords wc value                 -- unpack('!{wc}H', value)
  let payload := if wo = .little then payload.reverse else payload
  let payload ← mapE (structPack bo 2) payload       -- [pack(byteorder + 'H', word) ...]
  pure payload.flatten                               -- b''.join(payload)

/-- one `add_*` call: the byte string appended to `self._payload` -/
def addValue (bo wo : Endian) : Value → PyM Bytes
  | .num t n =>
    if t.viaWords then packWords bo wo (t.size / 2) n
    else structPack bo t.size n
  | .bits l => .ok (packBitstring l)
  | .str s => .ok s                                   -- pack(byteorder + str(len) + 's', value)

/-- a builder after the `add_*` calls for `vs`, in order: its `_payload` list -/
def buildAll (bo wo : Endian) (vs : List Value) : PyM (List Bytes) := mapE (addValue bo wo) vs

/-- `to_string` -/
def toString (payload : List Bytes) : Bytes := payload.flatten

/-- `build`: two-byte strings, the last one zero-padded -/
def build (payload : List Bytes) : List Bytes :=
  let string := toString payload
  let length := string.length
  let string := string ++ List.replicate (length % 2) 0
  (List.range ((length + 1) / 2)).map (fun i => slice string (2 * i) (2 * i + 2))

/-- `to_registers` -/
def toRegisters (bo : Endian) (repack : Bool) (payload : List Bytes) : PyM (List Nat) :=
  mapE (structUnpack (if repack then bo else .big) 2) (build payload)

/-- `format(reg, '016b')` as booleans, for a register `< 2^16` (which `unpack('!H')` guarantees) -/
def bin16 (reg : Nat) : List Bool := (List.range 16).map (fun i => (reg / 2 ^ (15 - i)) % 2 == 1)

/-- `to_coils` -/
def toCoils (bo : Endian) (repack : Bool) (payload : List Bytes) : PyM (List Bool) := do
  let regs ← toRegisters bo repack payload
  pure (regs.flatMap bin16)

/-! ## BinaryPayloadDecoder -/

structure Decoder where
  payload : Bytes
  pointer : Nat
  bo : Endian
  wo : Endian
  deriving Repr, DecidableEq

namespace Decoder

/-- `BinaryPayloadDecoder(payload, byteorder, wordorder)` -/
def new (payload : Bytes) (bo wo : Endian) : Decoder := ⟨payload, 0, bo, wo⟩

/-- `fromRegisters` (a list is assumed) -/
def fromRegisters (regs : List Nat) (bo wo : Endian) : PyM Decoder := do
  let parts ← mapE (structPack .big 2) regs
  pure ⟨parts.flatten, 0, bo, wo⟩

/-- `bit_chunks(coils, 8)` -/
def bitChunks (coils : List Bool) : List (List Bool) :=
  (List.range ((coils.length + 7) / 8)).map (fun i => slice coils (8 * i) (8 * i + 8))

/-- `fromCoils`: `return klass(payload, byteorder, wordorder)` -/
def fromCoils (coils : List Bool) (bo wo : Endian) : Decoder :=
  let padding := coils.length % 8
  let coils := if padding ≠ 0 then List.replicate padding false ++ coils else coils
  let chunks := bitChunks coils
  let payload := (chunks.map (fun chunk => packBitstring chunk.reverse)).flatten
  ⟨payload, 0, bo, wo⟩

/-- `_unpack_words(fstring, handle)` -/
def unpackWords (d : Decoder) (wc : Nat) (handle : Bytes) : PyM Bytes := do
  let ws ← Payload.unpackWords wc handle              -- unpack('!{wc}H', handle)
  let ws := if d.wo = .little then ws.reverse else ws
  let hs ← mapE (structPack d.bo 2) ws                -- [pack(byteorder + 'H', p) ...]
  pure hs.flatten

/-- `decode_<t>()`: the pointer moves first, then the slice `[pointer - size : pointer]` -/
def decodeNum (d : Decoder) (t : NumTy) : PyM (Nat × Decoder) :=
  let p := d.pointer + t.size
  let handle := slice d.payload (p - t.size) p
  let d' := { d with pointer := p }
  if t.viaWords then
    match d.unpackWords (t.size / 2) handle with
    | .error e => .error e
    | .ok h =>
      match structUnpack .big t.size h with           -- unpack('!' + fstring, handle)
      | .error e => .error e
      | .ok v => .ok (v, d')
  else
    match structUnpack d.bo t.size handle with
    | .error e => .error e
    | .ok v => .ok (v, d')

/-- `decode_bits()` (one byte; at the end of the payload the slice is empty and so is the result) -/
def decodeBits (d : Decoder) : List Bool × Decoder :=
  let p := d.pointer + 1
  (unpackBitstring (slice d.payload (p - 1) p), { d with pointer := p })

/-- `k` calls of `decode_bits()`, results concatenated -/
def decodeBitsN (d : Decoder) : Nat → List Bool × Decoder
  | 0 => ([], d)
  | k + 1 =>
    let r := d.decodeBits
    let r' := decodeBitsN r.2 k
    (r.1 ++ r'.1, r'.2)

/-- `decode_string(size)` -/
def decodeString (d : Decoder) (size : Nat) : Bytes × Decoder :=
  let p := d.pointer + size
  (slice d.payload (p - size) p, { d with pointer := p })

def decodeOne (d : Decoder) : Ty → PyM (Value × Decoder)
  | .num t =>
    match d.decodeNum t with
    | .error e => .error e
    | .ok (n, d') => .ok (.num t n, d')
  | .bits k => let r := d.decodeBitsN k; .ok (.bits r.1, r.2)
  | .str size => let r := d.decodeString size; .ok (.str r.1, r.2)

/-- the decode calls for `tys`, in order -/
def decodeAll (d : Decoder) : List Ty → PyM (List Value)
  | [] => .ok []
  | ty :: tys =>
    match d.decodeOne ty with
    | .error e => .error e
    | .ok (v, d') =>
      match decodeAll d' tys with
      | .error e => .error e
      | .ok vs => .ok (v :: vs)

end Decoder

/-! ## the round trips the property speaks of -/

/-- build `vs`, hand the byte string to a decoder with the same orders, decode the same types -/
def roundtripBytes (bo wo : Endian) (vs : List Value) : PyM (List Value) := do
  let payload ← buildAll bo wo vs
  (Decoder.new (toString payload) bo wo).decodeAll (vs.map Value.ty)

/-- the same through `to_registers()` / `fromRegisters` -/
def roundtripRegisters (bo wo : Endian) (vs : List Value) : PyM (List Value) := do
  let payload ← buildAll bo wo vs
  let regs ← toRegisters bo false payload
  let d ← Decoder.fromRegisters regs bo wo
  d.decodeAll (vs.map Value.ty)

/-- the same through `to_coils()` / `fromCoils` -/
def roundtripCoils (bo wo : Endian) (vs : List Value) : PyM (List Value) := do
  let payload ← buildAll bo wo vs
  let coils ← toCoils bo false payload
  (Decoder.fromCoils coils bo wo).decodeAll (vs.map Value.ty)

end Pymodbus.Payload
