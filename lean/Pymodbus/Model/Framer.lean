/-
  Model of the five framers (pymodbus/framer/*.py): `buildPacket` and the receive loop
  `processIncomingPacket` of each.  Every receive loop has the shape "look at the head of the buffer and
  decide": wait (incomplete), deliver a frame of n bytes, skip n bytes, or flush the buffer — `Step` — and a
  common driver loop `run`.  The framer's only state that outlives a call is its buffer (the header dict is
  recomputed from the buffer head before it is used).
-/
import Pymodbus.Model.Checksum
import Pymodbus.Model.Prelude
namespace Pymodbus
namespace Framer

inductive Step where
  | wait
  | frame (n : Nat) (pdu : Bytes) (uid tid pid : Nat)
  | skip (n : Nat)
  | flush
  deriving Repr, DecidableEq

/-- what `processIncomingPacket` does that a caller can observe: callback invocations and an exception -/
inductive Ev (μ : Type) where
  | deliver (m : μ) (uid tid pid : Nat)
  | raised (e : PyErr)
  deriving Repr

/-- `ModbusFramer._validate_unit_id` -/
def validUnit (units : List Nat) (single : Bool) (uid : Nat) : Bool :=
  single || units.contains 0 || units.contains 0xFF || units.contains uid

/-- the loop common to the receive paths; `fuel` bounds the iterations (every non-stopping step consumes
    at least one byte, see `Props`), `decode` is the decoder (`none` = it returned `None`) -/
def run {μ : Type} (step : Bytes → Step) (decode : Bytes → PyM (Option μ)) (units : List Nat) (single : Bool) :
    Nat → Bytes → List (Ev μ) × Bytes
  | 0, buf => ([], buf)
  | fuel + 1, buf =>
    match step buf with
    | .wait => ([], buf)
    | .flush => ([], [])
    | .skip n => run step decode units single fuel (buf.drop n)
    | .frame n pdu uid tid pid =>
      if validUnit units single uid then
        match decode pdu with
        | .error e => ([.raised e], buf.drop n)          -- the frame is discarded, the exception escapes
        | .ok none => ([.raised .modbusIO], buf.drop n)
        | .ok (some m) =>
          let r := run step decode units single fuel (buf.drop n)
          (.deliver m uid tid pid :: r.1, r.2)
      else run step decode units single fuel (buf.drop n)

/-- one call of `processIncomingPacket(data, …)` on a framer whose buffer is `buf` -/
def feed {μ : Type} (step : Bytes → Step) (decode : Bytes → PyM (Option μ)) (units : List Nat) (single : Bool)
    (buf chunk : Bytes) : List (Ev μ) × Bytes :=
  run step decode units single ((buf ++ chunk).length + 1) (buf ++ chunk)

/-! ### socket (MBAP) framer -/

def be16at (b : Bytes) (i : Nat) : Nat := b.getD i 0 * 256 + b.getD (i + 1) 0

def tcpStep (buf : Bytes) : Step :=
  if buf.length ≤ 7 then .wait
  else
    let tid := be16at buf 0
    let pid := be16at buf 2
    let len := be16at buf 4
    let uid := buf.getD 6 0
    if len < 2 then .skip (7 + len - 1)
    else if buf.length - 7 + 1 ≥ len then .frame (7 + len - 1) ((buf.drop 7).take (len - 1)) uid tid pid
    else .wait

/-- `struct.pack('>HHHBB', tid, pid, len(data)+2, uid, fc) + data` -/
def tcpBuild (tid pid uid fc : Nat) (data : Bytes) : PyM Bytes :=
  if tid < 65536 ∧ pid < 65536 ∧ data.length + 2 < 65536 ∧ uid < 256 ∧ fc < 256 then
    .ok ([tid / 256, tid % 256, pid / 256, pid % 256, (data.length + 2) / 256, (data.length + 2) % 256, uid, fc] ++ data)
  else .error .struct

/-! ### RTU framer -/

/-- `_rtu_frame_size` / `_rtu_byte_count_pos` / custom rule of the class `lookupPduClass(fc)` returns -/
inductive RtuRule where
  | fixed (n : Nat)
  | byteCount (pos : Nat)
  | fifo
  | mei
  deriving Repr, DecidableEq

/-- server-side decoder: rule per function code, `ExceptionResponse` (5) for anything else -/
def rtuRuleServer (fc : Nat) : RtuRule :=
  match fc with
  | 1 | 2 | 3 | 4 | 5 | 6 | 8 => .fixed 8
  | 7 | 11 | 12 | 17 => .fixed 4
  | 15 | 16 => .byteCount 6
  | 20 | 21 => .byteCount 2
  | 22 => .fixed 10
  | 23 => .byteCount 10
  | 24 => .fixed 6
  | 43 => .fixed 7
  | _ => .fixed 5

def rtuRuleClient (fc : Nat) : RtuRule :=
  match fc with
  | 1 | 2 | 3 | 4 | 12 | 17 | 20 | 21 | 23 => .byteCount 2
  | 5 | 6 | 8 | 11 | 15 | 16 => .fixed 8
  | 7 => .fixed 5
  | 22 => .fixed 10
  | 24 => .fifo
  | 43 => .mei
  | _ => .fixed 5

/-- MEI response walk: `size = 8; count = buffer[7]; while count > 0: _, l = unpack('>BB', buffer[size:size+2]);
    size += l + 2; count -= 1; return size + 2` -/
def meiWalk (buf : Bytes) : Nat → Nat → PyM Nat
  | 0, size => .ok (size + 2)
  | count + 1, size =>
    match (buf.drop size).take 2 with
    | [_, l] => meiWalk buf count (size + l + 2)
    | _ => .error .struct

def rtuSize (rule : Nat → RtuRule) (buf : Bytes) : PyM Nat :=
  match buf[1]? with
  | none => .error .index
  | some fc =>
    match rule fc with
    | .fixed n => .ok n
    | .byteCount pos => match buf[pos]? with
      | some bc => .ok (bc + pos + 3)
      | none => .error .index
    | .fifo => match buf[2]?, buf[3]? with
      | some hi, some lo => .ok (hi * 256 + lo + 6)
      | _, _ => .error .index
    | .mei => match buf[7]? with
      | some count => meiWalk buf count 8
      | none => .error .index

def rtuStep (rule : Nat → RtuRule) (buf : Bytes) : Step :=
  if buf.length ≤ 1 then .wait
  else match rtuSize rule buf with
    | .error _ => .wait
    | .ok size =>
      if buf.length < size then .wait
      else
        let data := buf.take (size - 2)
        let crc := be16at buf (size - 2)
        if size ≥ 2 ∧ Impl.checkCRC data crc then
          .frame size ((buf.take (size - 2)).drop 1) (buf.getD 0 0) (buf.getD 0 0) 0
        else .flush

/-- `pack('>BB', uid, fc) + data + pack('>H', computeCRC(packet))` -/
def rtuBuild (uid fc : Nat) (data : Bytes) : PyM Bytes :=
  if uid < 256 ∧ fc < 256 then
    let p := [uid, fc] ++ data
    let c := Impl.computeCRC p
    .ok (p ++ [c / 256, c % 256])
  else .error .struct

/-! ### ASCII framer -/

def findByte (b : Nat) : Bytes → Option Nat
  | [] => none
  | x :: xs => if x = b then some 0 else (findByte b xs).map (· + 1)

/-- `bytes.find(b'\r\n')` -/
def findCRLF : Bytes → Option Nat
  | [] => none
  | [_] => none
  | x :: y :: xs => if x = 13 ∧ y = 10 then some 0 else (findCRLF (y :: xs)).map (· + 1)

def hexVal (c : Nat) : Option Nat :=
  if 48 ≤ c ∧ c ≤ 57 then some (c - 48)
  else if 65 ≤ c ∧ c ≤ 70 then some (c - 55)
  else if 97 ≤ c ∧ c ≤ 102 then some (c - 87)
  else none

/-- `binascii.a2b_hex`: `none` = `binascii.Error` (a `ValueError`) -/
def a2bHex : Bytes → Option Bytes
  | [] => some []
  | [_] => none
  | a :: b :: r =>
    match hexVal a, hexVal b, a2bHex r with
    | some x, some y, some t => some ((x * 16 + y) :: t)
    | _, _, _ => none

def upperHexDigit (n : Nat) : Nat := if n < 10 then 48 + n else 55 + n
/-- `b2a_hex(x).upper()` -/
def b2aHexUpper (bs : Bytes) : Bytes := bs.flatMap (fun b => [upperHexDigit (b / 16), upperHexDigit (b % 16)])

def asciiStep (buf : Bytes) : Step :=
  if buf.length ≤ 1 then .wait
  else match findByte 58 buf with
    | none => .flush
    | some start =>
      if start > 0 then .skip start
      else match findCRLF buf with
        | none => .wait
        | some e =>
          -- uid = a2b_hex(buf[1:3])[0]; lrc = a2b_hex(buf[e-2:e])[0]; data = a2b_hex(buf[1:e-2])
          match a2bHex (pySlice buf 1 3), a2bHex (pySlice buf ((e : Int) - 2) e), a2bHex (pySlice buf 1 ((e : Int) - 2)) with
          | some (uid :: _), some (lrc :: _), some data =>
            if Impl.checkLRC data lrc then
              -- getFrame: a2b_hex(buf[3:e-2]) if e-2 > 0 else b''
              let body := if e > 2 then (a2bHex (pySlice buf 3 ((e : Int) - 2))).getD [] else []
              .frame (e + 2) body uid 0 0
            else .skip (e + 2)
          | _, _, _ => .skip (e + 2)

/-- `(':' + '%02x%02x' % (uid, fc) + hex(data) + '%02x' % lrc + '\r\n').upper()` with
    `lrc = computeLRC(data + pack('>BB', uid, fc))` -/
def asciiBuild (uid fc : Nat) (data : Bytes) : PyM Bytes :=
  if uid < 256 ∧ fc < 256 then
    let lrc := Impl.computeLRC (data ++ [uid, fc])
    .ok ([58] ++ b2aHexUpper ([uid, fc] ++ data ++ [lrc]) ++ [13, 10])
  else .error .struct

/-! ### binary framer -/

def binaryStep (buf : Bytes) : Step :=
  if buf.length ≤ 1 then .wait
  else match findByte 0x7B buf with
    | none => .flush
    | some start =>
      if start > 0 then .skip start
      else match findByte 0x7D buf with
        | none => .wait
        | some e =>
          -- uid = unpack('>B', buf[1:2]); crc = unpack('>H', buf[e-2:e]); data = buf[1:e-2]
          match pySlice buf 1 2, pySlice buf ((e : Int) - 2) e with
          | [uid], [c1, c2] =>
            if Impl.checkCRC (pySlice buf 1 ((e : Int) - 2)) (c1 * 256 + c2) then
              .frame (e + 1) (if e > 2 then pySlice buf 2 ((e : Int) - 2) else []) uid 0 0
            else .skip (e + 1)
          | _, _ => .skip (e + 1)

/-- `_preflight`: 0x7B / 0x7D in the PDU data are doubled -/
def preflight (data : Bytes) : Bytes := data.flatMap (fun d => if d = 0x7D ∨ d = 0x7B then [d, d] else [d])

def binaryBuild (uid fc : Nat) (data : Bytes) : PyM Bytes :=
  if uid < 256 ∧ fc < 256 then
    let p := [uid, fc] ++ preflight data
    let c := Impl.computeCRC p
    .ok ([0x7B] ++ p ++ [c / 256, c % 256] ++ [0x7D])
  else .error .struct

/-! ### TLS framer: the whole buffer is one PDU -/

def tlsFeed {μ : Type} (decode : Bytes → PyM (Option μ)) (units : List Nat) (single : Bool) (buf chunk : Bytes) :
    List (Ev μ) × Bytes :=
  let b := buf ++ chunk
  if b.length = 0 then ([], b)
  else if ¬ (single || units.contains 0 || units.contains 0xFF) then
    ([.raised .key], b)       -- `self._header['uid']` on the empty header dict
  else if validUnit units single 0 then
    match decode b with
    | .error e => ([.raised e], [])
    | .ok none => ([.raised .modbusIO], [])
    | .ok (some m) => ([.deliver m 0 0 0], [])
  else ([], [])

def tlsBuild (fc : Nat) (data : Bytes) : PyM Bytes :=
  if fc < 256 then .ok (fc :: data) else .error .struct

end Framer
end Pymodbus
