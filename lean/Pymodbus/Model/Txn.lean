/-
  Model of one synchronous client transaction: `BaseModbusClient.execute` → `ModbusTransactionManager.execute`
  / `_transact` / `_recv` (pymodbus/transaction.py), `DictTransactionManager`, the transport methods of
  `ModbusTcpClient` / `ModbusSerialClient` / `ModbusUdpClient` (`_send` with its flush of pending input, `_recv`,
  `connect`, `close`; pymodbus/client/sync.py) and the `decode_data` peek of the four framers, composed with
  the receive loops of `Model/Framer.lean` and the client decoder `Impl.decResp`.

  The code modelled is the tree AFTER the C08/C13 repairs (see known_findings.json): retries = 0 honoured,
  retry_on_empty independent of retry_on_invalid, datagram transport read whole on every attempt, reply
  matching (`_addReply`), removal of a filed reply when `processIncomingPacket` raises, ASCII/binary peeks
  that cannot raise, failed broadcast reported, TCP client discards pending input before a send, a call that
  returns an error object closes the connection.

  Transport = a scripted peer (`Net`): a byte FIFO (stream transports) or datagram FIFO (UDP), one `Reaction`
  per transmission, "late" bytes that arrive when the next transmission begins, a receive-side condition
  (`RecvMode`) that lasts until the next transmission or until the socket is closed.  Closing the socket
  discards everything pending.  `connect()` always succeeds (scope of C13).

  Every loop is structurally bounded: `attempts` recurses on the retry counter, each attempt writes at most
  once and reads at most twice.
-/
import Pymodbus.Model.Framer
import Pymodbus.Model.Codec
import Pymodbus.Model.Diag
namespace Pymodbus
namespace Txn
open Framer

inductive FramerKind where
  | tcp | rtu | ascii | binary
  deriving DecidableEq, Repr, Inhabited

inductive Transport where
  | tcp | serial | udp
  deriving DecidableEq, Repr, Inhabited

/-- `ModbusTransactionState` values that the code assigns -/
inductive CState where
  | idle | sending | waiting | processing | complete
  deriving DecidableEq, Repr, Inhabited

inductive RecvMode where
  | ok | oserror | closed
  deriving DecidableEq, Repr, Inhabited

structure Cfg where
  framer : FramerKind
  transport : Transport
  retries : Nat
  retryOnEmpty : Bool
  retryOnInvalid : Bool
  broadcastEnable : Bool
  /-- number of Modbus Plus statistics words (`len(_MCB.Plus.encode())`), used by one size prediction -/
  plusWords : Nat := 54
  deriving Repr

structure Reaction where
  sendOk : Bool := true
  now : List Bytes := []
  late : List Bytes := []
  recv : RecvMode := .ok
  deriving Repr, DecidableEq

/-- the peer and the connection, with a log of what the client did to it -/
structure Net where
  inbuf : Bytes := []
  dgrams : List Bytes := []
  late : List Bytes := []
  mode : RecvMode := .ok
  script : List Reaction := []
  tx : Nat := 0
  reads : Nat := 0
  writes : List Bytes := []
  rx : Bytes := []
  flushed : Bytes := []
  deriving Repr

/-- a decoded reply with the ids `populateResult` stored on it -/
structure Reply where
  msg : Resp
  uid : Nat
  tid : Nat
  deriving Repr, DecidableEq

structure State where
  tid : Nat := 0
  pending : List (Nat × Reply) := []
  noResp : List Nat := []
  fbuf : Bytes := []
  cstate : CState := .idle
  sockOpen : Bool := false
  deriving Repr

structure Request where
  unit : Nat
  pdu : Req
  deriving Repr

inductive Result where
  | reply (r : Reply)
  | errorObject
  | raised (e : PyErr)
  | broadcastSent
  | noneObject
  deriving Repr, DecidableEq

/-! ### the transport -/

/-- bytes / datagrams sent "late" arrive when the next transmission begins -/
def Net.arrive (t : Transport) (n : Net) : Net :=
  match t with
  | .udp => { n with dgrams := n.dgrams ++ n.late, late := [] }
  | _ => { n with inbuf := n.inbuf ++ n.late.flatten, late := [] }

/-- `socket.close()`: whatever was pending on the old connection is gone -/
def Net.closed (n : Net) : Net := { n with inbuf := [], dgrams := [], late := [], mode := .ok }

/-- what `_send` does before it writes.  Serial: `in_waiting` bytes are read and dropped (the read raises on a
    broken port); TCP: non-blocking reads of 1024 bytes until nothing is left or 65536 bytes went by, errors
    swallowed; UDP: nothing.  `none` = an `OSError` escaped. -/
def preSend (t : Transport) (n : Net) : Option Net :=
  match t with
  | .serial =>
    if n.inbuf = [] then some n
    else if n.mode = .oserror then none
    else some { n with flushed := n.flushed ++ n.inbuf, inbuf := [] }
  | .tcp =>
    if n.mode = .oserror then some n
    else some { n with flushed := n.flushed ++ n.inbuf.take 65536, inbuf := n.inbuf.drop 65536 }
  | .udp => some n

def silent : Reaction := {}

/-- `socket.send` / `serial.write` / `sendto`: consumes one reaction -/
def write (t : Transport) (n : Net) (packet : Bytes) : Bool × Net :=
  let r := n.script.headD silent
  let n := { n with script := n.script.tail, tx := n.tx + 1 }
  if r.sendOk then
    match t with
    | .udp => (true, { n with writes := n.writes ++ [packet], dgrams := n.dgrams ++ r.now, late := r.late, mode := r.recv })
    | _ => (true, { n with writes := n.writes ++ [packet], inbuf := n.inbuf ++ r.now.flatten, late := r.late, mode := r.recv })
  else (false, n)

/-- `client.send(packet)`: `false` = `OSError` -/
def send (t : Transport) (n : Net) (packet : Bytes) : Bool × Net :=
  match preSend t (n.arrive t) with
  | none => (false, n.arrive t)
  | some n' => write t n' packet

/-- one read of `k > 0` bytes from the stream -/
def takeBytes (k : Nat) (n : Net) : Bytes × Net :=
  (n.inbuf.take k, { n with inbuf := n.inbuf.drop k, rx := n.rx ++ n.inbuf.take k, reads := n.reads + 1 })

/-- `client.recv(size)` = `ModbusTcpClient._recv` / `ModbusSerialClient._recv` / `ModbusUdpClient._recv`;
    `none` in the first component = `OSError` (reset connection, `socket.timeout` of the datagram socket).
    A size `≤ 0` reads nothing; `None` reads what is there (TCP: byte by byte until the timeout; serial:
    `_wait_for_data` then `read(in_waiting)`, and `read(0)` never fails). -/
def recvBytes (t : Transport) (size : Option Int) (n : Net) : Option Bytes × Net :=
  match t with
  | .udp =>
    match size with
    | none => (none, n)
    | some k =>
      if n.mode ≠ .ok then (none, { n with reads := n.reads + 1 })
      else match n.dgrams with
        | [] => (none, { n with reads := n.reads + 1 })
        | d :: ds => (some (d.take k.toNat), { n with dgrams := ds, rx := n.rx ++ d.take k.toNat, reads := n.reads + 1 })
  | .tcp =>
    match size with
    | some k =>
      if k ≤ 0 then (some [], n)
      else if n.mode = .oserror then (none, { n with reads := n.reads + 1 })
      else let r := takeBytes k.toNat n; (some r.1, r.2)
    | none =>
      if n.mode = .oserror then (none, { n with reads := n.reads + 1 })
      else let r := takeBytes n.inbuf.length n; (some r.1, r.2)
  | .serial =>
    match size with
    | some k =>
      if k ≤ 0 then (some [], n)
      else if n.mode = .oserror then (none, { n with reads := n.reads + 1 })
      else let r := takeBytes k.toNat n; (some r.1, r.2)
    | none =>
      if n.inbuf = [] then (some [], n)
      else if n.mode = .oserror then (none, { n with reads := n.reads + 1 })
      else let r := takeBytes n.inbuf.length n; (some r.1, r.2)

/-! ### `_recv` of the transaction manager -/

def minSize : FramerKind → Nat
  | .tcp => 8 | .rtu => 2 | .ascii => 5 | .binary => 3

/-- `_calculate_exception_length` -/
def excLen : FramerKind → Nat
  | .tcp => 9 | .rtu => 5 | .ascii => 11 | .binary => 7

def baseAdu : FramerKind → Nat
  | .tcp => 7 | .rtu => 3 | .ascii => 7 | .binary => 5

def isHex (c : Nat) : Bool := (hexVal c).isSome
def isSpace (c : Nat) : Bool := (9 ≤ c && c ≤ 13) || c = 32

/-- `int(s, 16)` for a byte string of at most two characters; `none` = `ValueError` -/
def pyIntHex : Bytes → Option Int
  | [a] => (hexVal a).map Int.ofNat
  | [a, b] =>
    match hexVal a, hexVal b with
    | some x, some y => some (Int.ofNat (x * 16 + y))
    | some x, none => if isSpace b then some (Int.ofNat x) else none
    | none, some y =>
      if isSpace a ∨ a = 43 then some (Int.ofNat y)
      else if a = 45 then some (- Int.ofNat y)
      else none
    | none, none => none
  | _ => none

/-- the function code `_recv` peeks from the first `min_size` bytes; `none` = not hexadecimal (ASCII) -/
def peekFc (f : FramerKind) (readMin : Bytes) : Option Int :=
  match f with
  | .ascii => pyIntHex ((readMin.drop 3).take 2)
  | _ => some (Int.ofNat (readMin.getLastD 0))

/-- how many more bytes `_recv` asks for after the first `min_size` -/
def restSize (f : FramerKind) (expected : Option Int) (readMin : Bytes) (fc : Int) : Option Int :=
  if fc < 128 then
    let e : Option Int := if f = .tcp then some (7 + (Int.ofNat (be16at readMin 4) - 1)) else expected
    e.map (fun x => x - Int.ofNat (minSize f))
  else some (Int.ofNat (excLen f) - Int.ofNat (minSize f))

/-- `ModbusTransactionManager._recv(expected_response_length, full)`; `none` = an exception that `_transact`
    catches (`OSError`, `InvalidMessageReceivedException`) -/
def recvReply (cfg : Cfg) (expected : Option Int) (full : Bool) (n : Net) : Option Bytes × Net :=
  if full then recvBytes cfg.transport expected n
  else
    match recvBytes cfg.transport (some (Int.ofNat (minSize cfg.framer))) n with
    | (none, n) => (none, n)
    | (some readMin, n) =>
      if readMin.length ≠ minSize cfg.framer then (none, n)
      else match peekFc cfg.framer readMin with
        | none => (none, n)
        | some fc =>
          match recvBytes cfg.transport (restSize cfg.framer expected readMin fc) n with
          | (none, n) => (none, n)
          | (some rest, n) => (some (readMin ++ rest), n)

/-! ### `_transact` -/

def closeSock (s : State) (n : Net) : State × Net := ({ s with sockOpen := false }, n.closed)

structure Attempt where
  resp : Bytes
  failed : Bool
  st : State
  net : Net

/-- `_transact(packet, response_length, full, broadcast)`: connect, send, (unless broadcast) receive.
    `failed` = `last_exception` is set. -/
def transact (cfg : Cfg) (packet : Bytes) (expected : Option Int) (full broadcast : Bool) (s : State) (n : Net) :
    Attempt :=
  let s := { s with sockOpen := true, cstate := .sending }
  match send cfg.transport n packet with
  | (false, n) => let c := closeSock s n; ⟨[], true, c.1, c.2⟩
  | (true, n) =>
    if broadcast then ⟨[], false, { s with cstate := .complete }, n⟩
    else
      let s := { s with cstate := .waiting }
      match recvReply cfg expected full n with
      | (none, n) => let c := closeSock s n; ⟨[], true, c.1, c.2⟩
      | (some bytes, n) => ⟨bytes, false, { s with cstate := .processing }, n⟩

/-! ### the retry loop -/

/-- the `_no_response_devices` bookkeeping after an attempt -/
def noteResp (unit : Nat) (resp : Bytes) (l : List Nat) : List Nat :=
  if resp = [] ∧ ¬ unit ∈ l then l ++ [unit]
  else if unit ∈ l ∧ resp ≠ [] then l.erase unit
  else l

/-- `framer.decode_data(response)`: the unit id and (MBAP only) the length field; `none` = empty dict -/
def decodeData (f : FramerKind) (d : Bytes) : Option (Int × Option Nat) :=
  match f with
  | .tcp => if d.length > 7 then some (Int.ofNat (d.getD 6 0), some (be16at d 4)) else none
  | .rtu => if d.length > 1 then some (Int.ofNat (d.getD 0 0), none) else none
  | .ascii =>
    if d.length > 1 then
      match pyIntHex ((d.drop 1).take 2), pyIntHex ((d.drop 3).take 2) with
      | some u, some _ => some (u, none)
      | _, _ => none
    else none
  | .binary => if d.length > 2 then some (Int.ofNat (d.getD 1 0), none) else none

/-- does the loop go round again after this reply? -/
def shouldRetry (cfg : Cfg) (unit : Nat) (expected : Option Int) (resp : Bytes) : Bool :=
  if resp = [] then cfg.retryOnEmpty
  else if ! cfg.retryOnInvalid then false
  else match decodeData cfg.framer resp with
    | none => true
    | some (u, len) =>
      if u = Int.ofNat unit then false
      else match len, expected with
        | some l, some e => if e ≠ 0 ∧ Int.ofNat l = e then false else true
        | _, _ => true

/-- the `while retries > 0` loop, `k` = retries still allowed after this attempt -/
def attempts (cfg : Cfg) (unit : Nat) (packet : Bytes) (expected : Option Int) :
    Nat → Bool → State → Net → Attempt
  | k, full, s, n =>
    let a := transact cfg packet expected full false s n
    let s := { a.st with noResp := noteResp unit a.resp a.st.noResp }
    if shouldRetry cfg unit expected a.resp then
      let s := { s with cstate := .idle }
      match k with
      | 0 => ⟨a.resp, a.failed, s, a.net⟩
      | k + 1 => attempts cfg unit packet expected k (cfg.transport = .udp) s a.net
    else ⟨a.resp, a.failed, s, a.net⟩

/-! ### request side -/

/-- `request.encode()` after `get_response_pdu_size()` was called on the object (serial framings): the
    diagnostic classes wrap a non-list message into a list first, and only a list of ints encodes -/
def encAfterSize (r : Req) : PyM Bytes :=
  match r with
  | .diag 21 m => Impl.encReq (.diag 21 m)
  | .diag sub (.int v) => Impl.encReq (.diag sub (.list [v]))
  | .diag sub (.list ws) => Impl.encReq (.diag sub (.list ws))
  | .diag _ _ => .error .struct
  | r => Impl.encReq r

/-- `framer.buildPacket(request)` -/
def buildPacket (f : FramerKind) (unit tid : Nat) (r : Req) : PyM Bytes :=
  match f with
  | .tcp => match Impl.encReq r with
    | .ok data => tcpBuild tid 0 unit r.fc data
    | .error e => .error e
  | .rtu => match encAfterSize r with
    | .ok data => rtuBuild unit r.fc data
    | .error e => .error e
  | .ascii => match encAfterSize r with
    | .ok data => asciiBuild unit r.fc data
    | .error e => .error e
  | .binary => match encAfterSize r with
    | .ok data => binaryBuild unit r.fc data
    | .error e => .error e

/-- `expected_response_length` as `execute` computes it -/
def expectedLen (cfg : Cfg) (r : Req) : Option Int :=
  let e : Option Int :=
    if cfg.framer = .tcp then none
    else match Impl.respPduSize cfg.plusWords r with
      | none => none
      | some sz =>
        let sz := if cfg.framer = .ascii then sz * 2 else sz
        if sz = 0 then none else some (Int.ofNat (baseAdu cfg.framer + sz))
  if cfg.transport = .udp then
    match e with
    | some x => if x = 0 then some 1024 else some x
    | none => some 1024
  else e

/-! ### reply side -/

def stepOf : FramerKind → Bytes → Step
  | .tcp => tcpStep
  | .rtu => rtuStep rtuRuleClient
  | .ascii => asciiStep
  | .binary => binaryStep

def decClient (pdu : Bytes) : PyM (Option Resp) := .ok (Impl.decResp pdu)

/-- `_addReply`: does a decoded reply answer the request? -/
def accepts (f : FramerKind) (reqFc tid : Nat) (m : Resp) (frameTid : Nat) : Bool :=
  (m.fc = reqFc || m.fc = reqFc ||| 0x80) && (f != .tcp || frameTid = tid)

/-- `transactions[tid] = reply` -/
def dictSet (k : Nat) (v : Reply) : List (Nat × Reply) → List (Nat × Reply)
  | [] => [(k, v)]
  | (k', v') :: rest => if k' = k then (k, v) :: rest else (k', v') :: dictSet k v rest

/-- `transactions.pop(tid, None)` -/
def dictPop (k : Nat) : List (Nat × Reply) → Option Reply × List (Nat × Reply)
  | [] => (none, [])
  | (k', v') :: rest =>
    if k' = k then (some v', rest)
    else let r := dictPop k rest; (r.1, (k', v') :: r.2)

/-- the callbacks `processIncomingPacket` makes, in order; the exception it ends with, if any -/
def fileReplies (f : FramerKind) (reqFc tid key : Nat) : List (Ev Resp) → List (Nat × Reply) →
    List (Nat × Reply) × Option PyErr
  | [], p => (p, none)
  | .raised e :: _, p => (p, some e)
  | .deliver m uid ftid _ :: evs, p =>
    fileReplies f reqFc tid key evs (if accepts f reqFc tid m ftid then dictSet key ⟨m, uid, ftid⟩ p else p)

structure Outcome where
  result : Result
  st : State
  net : Net

/-- `execute` returns a ModbusIOException object: the connection is closed (whatever still arrives on it
    answers a transaction that is over), the state becomes TRANSACTION_COMPLETE -/
def failWith (s : State) (n : Net) : Outcome :=
  let c := closeSock s n
  ⟨.errorObject, { c.1 with cstate := .complete }, c.2⟩

/-- the part of `execute` after the retry loop -/
def finish (cfg : Cfg) (req : Request) (tid : Nat) (s : State) (n : Net) (resp : Bytes) : Outcome :=
  -- RTU `buildPacket` overwrites request.transaction_id with the unit id
  let key := if cfg.framer = .rtu then req.unit else tid
  let fed := feed (stepOf cfg.framer) decClient [req.unit] false s.fbuf resp
  let s := { s with fbuf := fed.2 }
  match fileReplies cfg.framer req.pdu.fc tid key fed.1 s.pending with
  | (p, some e) =>
    if e = .modbusIO then
      -- the filed reply is removed, the handler of `execute` returns the exception object
      failWith { s with pending := (dictPop key p).2 } n
    else ⟨.raised e, { s with pending := p }, n⟩
  | (p, none) =>
    match dictPop key p with
    | (some r, p') => ⟨.reply r, { s with pending := p', cstate := .complete }, n⟩
    | (none, p') =>
      if p'.length ≠ 0 then
        match dictPop 0 p' with
        | (some r, p'') => ⟨.reply r, { s with pending := p'', cstate := .complete }, n⟩
        | (none, p'') => ⟨.noneObject, { s with pending := p'', cstate := .complete }, n⟩
      else failWith { s with pending := p' } n

/-- `client.execute(request)`: `BaseModbusClient.execute` (connect) then `ModbusTransactionManager.execute` -/
def execute (cfg : Cfg) (st : State) (net : Net) (req : Request) : Outcome :=
  let tid := (st.tid + 1) % 65536
  let s : State := { st with sockOpen := true, tid := tid, fbuf := [] }
  let expected := expectedLen cfg req.pdu
  match buildPacket cfg.framer req.unit tid req.pdu with
  | .error e => ⟨.raised e, s, net⟩
  | .ok packet =>
    if cfg.broadcastEnable && req.unit = 0 then
      let a := transact cfg packet none false true s net
      if a.failed then failWith a.st a.net
      else ⟨.broadcastSent, a.st, a.net⟩
    else
      let full := req.unit ∈ s.noResp || cfg.transport = .udp
      let a := attempts cfg req.unit packet expected cfg.retries full s net
      finish cfg req tid a.st a.net a.resp

/-- a history of calls on one client; each call brings the script of the peer's reactions during it -/
def runCalls (cfg : Cfg) : State → Net → List (Request × List Reaction) → List Outcome
  | _, _, [] => []
  | s, n, (r, script) :: rest =>
    let o := execute cfg s { n with script := script } r
    o :: runCalls cfg o.st o.net rest

end Txn
end Pymodbus
