/-
  Model of the server front-ends (pymodbus/server/sync.py, async_io.py, asynchronous.py): what a connection
  does with the chunks it receives — framer receive loop, the `execute` callback (unit lookup, broadcast,
  missing units, catch-all), response framing — and how each front-end reacts to an exception that escapes
  the receive loop.  The event loops / sockets are modelled as "chunks are handed to the handler in order".
-/
import Pymodbus.Model.Framer
import Pymodbus.Model.Exec
import Pymodbus.Model.Codec
namespace Pymodbus
namespace Server
open Framer

inductive FramerKind where | tcp | rtu | ascii | binary | tls
  deriving DecidableEq, Repr

inductive Frontend where
  | syncTcp        -- sync.ModbusConnectedRequestHandler
  | syncSerial     -- sync.ModbusSingleRequestHandler
  | syncUdp        -- sync.ModbusDisconnectedRequestHandler (one handler per datagram)
  | aioTcp         -- async_io.ModbusConnectedRequestHandler
  | aioUdp         -- async_io.ModbusDisconnectedRequestHandler
  | twistedTcp     -- asynchronous.ModbusTcpProtocol
  | twistedUdp     -- asynchronous.ModbusUdpProtocol
  deriving DecidableEq, Repr

structure Cfg where
  framer : FramerKind
  frontend : Frontend
  ignoreMissing : Bool
  broadcast : Bool
  deriving Repr

abbrev Units := ServerCtx SlaveCtx

/-- what `ModbusServerContext.slaves()` returns -/
def hosted (ctx : Units) : List Nat := ctx.slaves.map (fun kv => kv.1.toNat)

def hasBroadcast : Frontend → Bool
  | .syncTcp | .syncSerial | .syncUdp | .aioTcp | .aioUdp => true
  | .twistedTcp | .twistedUdp => false

/-- do the handlers append unit 0 to the accepted units when broadcast is enabled (the Twisted protocols have no
    broadcast option) -/
def addsBroadcastUnit : Frontend → Bool
  | .syncTcp | .syncSerial | .syncUdp | .aioTcp | .aioUdp => true
  | _ => false

def acceptedUnits (cfg : Cfg) (ctx : Units) : List Nat :=
  if cfg.broadcast && addsBroadcastUnit cfg.frontend && !(hosted ctx).contains 0 then hosted ctx ++ [0] else hosted ctx

/-- apply a request to every hosted unit in turn (broadcast); a datastore failure aborts the loop, the units
    already done keep the change -/
def broadcastAll (r : Req) : List (Int × SlaveCtx) → List (Int × SlaveCtx)
  | [] => []
  | (k, s) :: rest =>
    match Impl.execute s r with
    | .error _ => (k, s) :: rest
    | .ok (s', _) => (k, s') :: broadcastAll r rest

/-- the `execute(request)` callback of the handlers: new contexts and the response to send, if any -/
def callback (cfg : Cfg) (ctx : Units) (r : Req) (uid : Nat) : Units × Option Resp :=
  if cfg.broadcast && hasBroadcast cfg.frontend && uid == 0 then
    -- executed on every hosted unit, never answered (a failing datastore stops the loop; nothing is sent)
    ({ ctx with slaves := broadcastAll r ctx.slaves }, none)
  else
    match ctx.getItem uid with
    | .error _ =>
      if cfg.ignoreMissing then (ctx, none) else (ctx, some (.exception r.fc excGatewayNoResponse))
    | .ok s =>
      let (s', resp) := Impl.serverExecute s r
      let key : Int := if ctx.single then 0 else uid
      ({ ctx with slaves := ServerCtx.insert ctx.slaves key s' }, some resp)

def stepFor (k : FramerKind) : Bytes → Step
  | buf => match k with
    | .tcp => tcpStep buf
    | .rtu => rtuStep rtuRuleServer buf
    | .ascii => asciiStep buf
    | .binary => binaryStep buf
    | .tls => .wait

def buildFor (k : FramerKind) (uid tid pid fc : Nat) (data : Bytes) : PyM Bytes :=
  match k with
  | .tcp => tcpBuild tid pid uid fc data
  | .rtu => rtuBuild uid fc data
  | .ascii => asciiBuild uid fc data
  | .binary => binaryBuild uid fc data
  | .tls => tlsBuild fc data

def decServer (pdu : Bytes) : PyM (Option Req) :=
  match Impl.decReq pdu with
  | .ok r => .ok (some r)
  | .error e => .error e

/-- response ADU for a response to the request with these ids.  The handlers copy `transaction_id` and `unit_id`
    from the request to the response object; `protocol_id` keeps the response's default 0 -/
def frameResp (cfg : Cfg) (resp : Resp) (uid tid _pid : Nat) : PyM Bytes := do
  let data ← Impl.encResp resp
  buildFor cfg.framer uid tid 0 resp.fc data

structure Conn where
  buf : Bytes
  running : Bool := true
  deriving Repr

/-- fold the deliveries of one receive call through the callback -/
def handleEvents (cfg : Cfg) : Units → List (Ev Req) → Units × List Bytes × Option PyErr
  | ctx, [] => (ctx, [], none)
  | ctx, .raised e :: _ => (ctx, [], some e)
  | ctx, .deliver r uid tid pid :: rest =>
    let (ctx', resp) := callback cfg ctx r uid
    match resp with
    | none =>
      let (c, outs, esc) := handleEvents cfg ctx' rest
      (c, outs, esc)
    | some rp =>
      match frameResp cfg rp uid tid pid with
      | .error e => (ctx', [], some e)        -- `buildPacket` raised inside the callback
      | .ok f =>
        let (c, outs, esc) := handleEvents cfg ctx' rest
        (c, f :: outs, esc)

/-- one chunk arriving on a connection: (connection, contexts) ↦ (connection', contexts', frames written,
    exception that escaped the front-end's entry point) -/
def connStep (cfg : Cfg) (conn : Conn) (ctx : Units) (chunk : Bytes) : Conn × Units × List Bytes × Option PyErr :=
  if !conn.running then (conn, ctx, [], none)
  else
    let units := acceptedUnits cfg ctx
    let (evs, buf') :=
      if cfg.framer = .tls then tlsFeed decServer units ctx.single conn.buf chunk
      else feed (stepFor cfg.framer) decServer units ctx.single conn.buf chunk
    let (ctx', outs, esc) := handleEvents cfg ctx evs
    match esc with
    | none =>
      -- the sync UDP server builds a new handler (and framer) for every datagram
      ({ conn with buf := if cfg.frontend = .syncUdp then [] else buf' }, ctx', outs, none)
    | some e =>
      match cfg.frontend with
      | .syncTcp | .aioTcp | .twistedTcp => ({ buf := [], running := false }, ctx', outs, none)   -- connection closed
      | .syncSerial | .aioUdp | .syncUdp | .twistedUdp => ({ buf := [], running := true }, ctx', outs, none)   -- framer reset

def serve (cfg : Cfg) : Conn → Units → List Bytes → Conn × Units × List (List Bytes) × List (Option PyErr)
  | conn, ctx, [] => (conn, ctx, [], [])
  | conn, ctx, c :: cs =>
    let (conn', ctx', outs, esc) := connStep cfg conn ctx c
    let (cn, cx, os, es) := serve cfg conn' ctx' cs
    (cn, cx, outs :: os, esc :: es)

/-- several connections sharing one datastore; each step hands one chunk to one connection (every interleaving of
    the connections' chunk sequences is such a schedule) -/
def serveSched (cfg : Cfg) : (Nat → Conn) → Units → List (Nat × Bytes) → (Nat → Conn) × Units × List (List Bytes)
  | conns, ctx, [] => (conns, ctx, [])
  | conns, ctx, (i, c) :: rest =>
    let (conn', ctx', outs, _) := connStep cfg (conns i) ctx c
    let (cn, cx, os) := serveSched cfg (fun j => if j = i then conn' else conns j) ctx' rest
    (cn, cx, outs :: os)

end Server
end Pymodbus
