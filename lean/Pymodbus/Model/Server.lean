/-
  Model of the server front-ends (pymodbus/server/sync.py, async_io.py, asynchronous.py): what a connection
  does with the chunks it receives — framer receive loop, the `execute` callback (unit lookup, broadcast,
  missing units, catch-all), response framing — and how each front-end reacts to an exception that escapes
  the receive loop.  The event loops / sockets are modelled as "chunks are handed to the handler in order".
-/
import Pymodbus.Model.Framer
import Pymodbus.Model.Exec
import Pymodbus.Model.Codec
import Pymodbus.Model.Control
namespace Pymodbus
namespace Server
open Framer

inductive FramerKind where | tcp | rtu | ascii | binary | tls
  deriving DecidableEq, Repr

inductive Frontend where
  | syncTcp        -- sync.ModbusConnectedRequestHandler
  | syncSerial     -- sync.ModbusSingleRequestHandler
  | syncUdp        -- sync.ModbusDisconnectedRequestHandler (one handler per datagram)
  | aioTcp         -- async_io.ModbusConnectedRequestHandler
  | aioUdp         -- async_io.ModbusDisconnectedRequestHandler
  | twistedTcp     -- asynchronous.ModbusTcpProtocol
  | twistedUdp     -- asynchronous.ModbusUdpProtocol
  deriving DecidableEq, Repr

structure Cfg where
  framer : FramerKind
  frontend : Frontend
  ignoreMissing : Bool
  broadcast : Bool
  deriving Repr

abbrev Units := ServerCtx SlaveCtx

/-- what `ModbusServerContext.slaves()` returns -/
def hosted (ctx : Units) : List Nat := ctx.slaves.map (fun kv => kv.1.toNat)

def hasBroadcast : Frontend → Bool
  | .syncTcp | .syncSerial | .syncUdp | .aioTcp | .aioUdp => true
  | .twistedTcp | .twistedUdp => false

/-- do the handlers append unit 0 to the accepted units when broadcast is enabled (the Twisted protocols have no
    broadcast option) -/
def addsBroadcastUnit : Frontend → Bool
  | .syncTcp | .syncSerial | .syncUdp | .aioTcp | .aioUdp => true
  | _ => false

def acceptedUnits (cfg : Cfg) (ctx : Units) : List Nat :=
  if cfg.broadcast && addsBroadcastUnit cfg.frontend && !(hosted ctx).contains 0 then hosted ctx ++ [0] else hosted ctx

/-- everything the server front-ends share: the unit contexts and the process-wide control block -/
structure World where
  units : Units
  ctl : Control

/-- the requests whose `execute` works on the datastore (FC 1-6, 15, 16, 22, 23) and `IllegalFunctionRequest` -/
def isDataAccess : Req → Bool
  | .readCoils .. | .readDiscrete .. | .readHolding .. | .readInput .. | .writeCoil .. | .writeRegister ..
  | .writeCoils .. | .writeRegisters .. | .maskWrite .. | .readWrite .. | .illegalFunction .. => true
  | _ => false

/-- `request.execute(context)` for every request class; `.error` = a Python exception -/
def execRaw (ctl : Control) (s : SlaveCtx) (r : Req) : PyM (Control × SlaveCtx × Resp) :=
  if isDataAccess r then
    match Impl.execute s r with
    | .ok (s', resp) => .ok (ctl, s', resp)
    | .error e => .error e
  else
    match Impl.executeOther ctl r with
    | .ok (ctl', resp) => .ok (ctl', s, resp)
    | .error e => .error e

/-- … under the handlers' `except Exception: response = request.doException(SlaveFailure)` -/
def execAny (ctl : Control) (s : SlaveCtx) (r : Req) : Control × SlaveCtx × Resp :=
  match execRaw ctl s r with
  | .ok x => x
  | .error _ => (ctl, s, .exception r.fc excSlaveFailure)

/-- `response.should_respond`: only `ForceListenOnlyModeResponse` says no -/
def shouldRespond : Resp → Bool
  | .diag 4 _ => false
  | _ => true

/-- apply a request to every hosted unit in turn (broadcast); an exception aborts the loop, the units already
    done keep the change -/
def broadcastAll (r : Req) : Control → List (Int × SlaveCtx) → Control × List (Int × SlaveCtx)
  | ctl, [] => (ctl, [])
  | ctl, (k, s) :: rest =>
    match execRaw ctl s r with
    | .error _ => (ctl, (k, s) :: rest)
    | .ok (ctl', s', _) =>
      let (c, l) := broadcastAll r ctl' rest
      (c, (k, s') :: l)

def allFrontends : List Frontend := [.syncTcp, .syncSerial, .syncUdp, .aioTcp, .aioUdp, .twistedTcp, .twistedUdp]

def Frontend.name : Frontend → String
  | .syncTcp => "syncTcp" | .syncSerial => "syncSerial" | .syncUdp => "syncUdp" | .aioTcp => "aioTcp"
  | .aioUdp => "aioUdp" | .twistedTcp => "twistedTcp" | .twistedUdp => "twistedUdp"

/-- what the catch-all around the receive call does, as written in the source: "close" = ends the handler loop /
    closes the transport, "reset" = resets the framer and goes on.  (The sync UDP handler also ends its loop — but
    socketserver builds a new handler for every datagram, so for the peer it is a reset.) -/
def Frontend.onErrorSrc : Frontend → String
  | .syncTcp | .aioTcp | .twistedTcp | .syncUdp => "close"
  | .syncSerial | .aioUdp | .twistedUdp => "reset"

/-- the execute(request) callback of the handlers: new world and the response to send, if any -/
def callback (cfg : Cfg) (w : World) (r : Req) (uid : Nat) : World × Option Resp :=
  if cfg.broadcast && hasBroadcast cfg.frontend && uid == 0 then
    -- executed on every hosted unit, never answered (an exception stops the loop; nothing is sent)
    let (ctl', sl') := broadcastAll r w.ctl w.units.slaves
    ({ units := { w.units with slaves := sl' }, ctl := ctl' }, none)
  else
    match w.units.getItem uid with
    | .error _ =>
      if cfg.ignoreMissing then (w, none) else (w, some (.exception r.fc excGatewayNoResponse))
    | .ok s =>
      let (ctl', s', resp) := execAny w.ctl s r
      let key : Int := if w.units.single then 0 else uid
      ({ units := { w.units with slaves := ServerCtx.insert w.units.slaves key s' }, ctl := ctl' }, some resp)

/-- only the Twisted protocols count the messages they send (`Counter.BusMessage += 1` in `_send`) and honour
    listen-only mode (`if not control.ListenOnly:` around the receive call) -/
def isTwisted : Frontend → Bool
  | .twistedTcp | .twistedUdp => true
  | _ => false

def stepFor (k : FramerKind) : Bytes → Step
  | buf => match k with
    | .tcp => tcpStep buf
    | .rtu => rtuStep rtuRuleServer buf
    | .ascii => asciiStep buf
    | .binary => binaryStep buf
    | .tls => .wait

def buildFor (k : FramerKind) (uid tid pid fc : Nat) (data : Bytes) : PyM Bytes :=
  match k with
  | .tcp => tcpBuild tid pid uid fc data
  | .rtu => rtuBuild uid fc data
  | .ascii => asciiBuild uid fc data
  | .binary => binaryBuild uid fc data
  | .tls => tlsBuild fc data

def decServer (pdu : Bytes) : PyM (Option Req) :=
  match Impl.decReq pdu with
  | .ok r => .ok (some r)
  | .error e => .error e

/-- response ADU for a response to the request with these ids.  The handlers copy `transaction_id` and `unit_id`
    from the request to the response object; `protocol_id` keeps the response's default 0 -/
def frameResp (cfg : Cfg) (resp : Resp) (uid tid _pid : Nat) : PyM Bytes := do
  let data ← Impl.encResp resp
  buildFor cfg.framer uid tid 0 resp.fc data

structure Conn where
  buf : Bytes
  running : Bool := true
  /-- the accepted units the handler computed BEFORE it went to wait for data: the sync TCP and the asyncio handlers
      evaluate `context.slaves()` at the top of their loop, ahead of the blocking read, so a change of the hosted set made
      while they wait is seen one read late; `none` = evaluated when the data has arrived (the other front-ends) -/
  snap : Option (List Nat) := none
  deriving Repr

/-- `Counter.BusMessage += 1` -/
def countMessage (cfg : Cfg) (w : World) : World :=
  if isTwisted cfg.frontend then { w with ctl := w.ctl.setCounter 0 (w.ctl.counter 0 + 1) } else w

/-- fold the deliveries of one receive call through the callback -/
def handleEvents (cfg : Cfg) : World → List (Ev Req) → World × List Bytes × Option PyErr
  | w, [] => (w, [], none)
  | w, .raised e :: _ => (w, [], some e)
  | w, .deliver r uid tid pid :: rest =>
    let (w', resp) := callback cfg w r uid
    match resp with
    | none =>
      let (c, outs, esc) := handleEvents cfg w' rest
      (c, outs, esc)
    | some rp =>
      if !shouldRespond rp then
        let (c, outs, esc) := handleEvents cfg w' rest
        (c, outs, esc)
      else
        let w'' := countMessage cfg w'
        match frameResp cfg rp uid tid pid with
        | .error e => (w'', [], some e)        -- `buildPacket` raised inside the callback
        | .ok f =>
          let (c, outs, esc) := handleEvents cfg w'' rest
          (c, f :: outs, esc)

/-- one chunk arriving on a connection: (connection, world) ↦ (connection', world', frames written,
    exception that escaped the front-end's entry point) -/
def readsUnitsBeforeData : Frontend → Bool
  | .syncTcp | .aioTcp | .aioUdp => true
  | _ => false

/-- back at the top of the handler loop: the unit list for the next read -/
def resnap (cfg : Cfg) (w : World) (conn : Conn) : Conn :=
  { conn with snap := if readsUnitsBeforeData cfg.frontend then some (acceptedUnits cfg w.units) else none }

/-- a connection that has just been accepted -/
def openConn (cfg : Cfg) (w : World) : Conn := resnap cfg w { buf := [] }

def connStep (cfg : Cfg) (conn : Conn) (w : World) (chunk : Bytes) : Conn × World × List Bytes × Option PyErr :=
  if !conn.running then (conn, w, [], none)
  else if isTwisted cfg.frontend && w.ctl.listenOnly then (conn, w, [], none)   -- listen-only: the data is not even buffered
  else
    let units := conn.snap.getD (acceptedUnits cfg w.units)
    let (evs, buf') :=
      if cfg.framer = .tls then tlsFeed decServer units w.units.single conn.buf chunk
      else feed (stepFor cfg.framer) decServer units w.units.single conn.buf chunk
    let (w', outs, esc) := handleEvents cfg w evs
    match esc with
    | none =>
      -- the sync UDP server builds a new handler (and framer) for every datagram
      (resnap cfg w' { conn with buf := if cfg.frontend = .syncUdp then [] else buf' }, w', outs, none)
    | some _ =>
      match cfg.frontend with
      | .syncTcp | .aioTcp | .twistedTcp => ({ buf := [], running := false }, w', outs, none)   -- connection closed
      | .syncSerial | .aioUdp | .syncUdp | .twistedUdp => (resnap cfg w' { buf := [], running := true }, w', outs, none)   -- framer reset

/-- the receive call of the sync TCP handler ends with `socket.timeout` (the connection was idle for the socket's
    timeout): `reset_frame = True`, so the framer forgets what it had buffered; the handler goes on.  No other front-end
    has a receive timeout of its own. -/
def connTimeout (cfg : Cfg) (conn : Conn) (w : World) : Conn :=
  match cfg.frontend with
  | .syncTcp => if conn.running then resnap cfg w { conn with buf := [] } else conn
  | _ => conn

def serve (cfg : Cfg) : Conn → World → List Bytes → Conn × World × List (List Bytes) × List (Option PyErr)
  | conn, w, [] => (conn, w, [], [])
  | conn, w, c :: cs =>
    let (conn', w', outs, esc) := connStep cfg conn w c
    let (cn, cx, os, es) := serve cfg conn' w' cs
    (cn, cx, outs :: os, esc :: es)

/-- several connections sharing one world; each step hands one chunk to one connection (every interleaving of
    the connections' chunk sequences is such a schedule) -/
def serveSched (cfg : Cfg) : (Nat → Conn) → World → List (Nat × Bytes) → (Nat → Conn) × World × List (List Bytes)
  | conns, w, [] => (conns, w, [])
  | conns, w, (i, c) :: rest =>
    let (conn', w', outs, _) := connStep cfg (conns i) w c
    let (cn, cx, os) := serveSched cfg (fun j => if j = i then conn' else conns j) w' rest
    (cn, cx, outs :: os)

end Server
end Pymodbus
