/-
  C15 — model of several threads calling `execute` on ONE synchronous client
  (pymodbus/transaction.py `ModbusTransactionManager.execute` / `_transact` / `_recv`,
   pymodbus/client/sync.py `BaseModbusClient.execute`, socket framing, read-holding-registers requests).

  * A thread is a list of requests; a transaction is the operation sequence
      acquire(client lock) ; connect ; acquire(manager lock) ; tid++ ; connect ; send₁ ; send₂ ;
      wait^lat ; recv₁ ; recv₂ ; process ; release(manager lock) ; release(client lock)
    (before the send `_flush_input` discards what waits on the socket; the frame reaches the wire in two writes, MBAP header then PDU, so that an interleaving of two frames is
    observable; `wait` = a poll of the transport that finds the reply not yet there).
  * `connect` is `ModbusTcpClient.connect`: check-then-act — `if self.socket: return True`, otherwise
    `self.socket = socket.create_connection(…)`, a blocking call: a `connect` that finds no connection is followed by
    a separate `open` operation (which REPLACES `client.socket` with a fresh connection when it completes).  The
    socket a frame is written to is the one `client.socket` named when `connect` returned; every `_recv` looks
    `client.socket` up again.
  * The lock discipline is a PARAMETER (`LockScope`): the theorems say "if one re-entrant lock is held around the whole
    transaction then …"; which discipline the source has is extracted from the source (Generated.lockScope).
  * A schedule is a `List Nat` (who moves next); a thread whose next operation is an `acquire` of a lock held by
    somebody else does not move (it is parked), a finished thread does not move.
  * The transport is byte exact: the wire is the list of chunks written, the peer parses the byte stream into MBAP
    frames and answers each with a reply that is a function of that frame (so a swapped reply is observable), the
    replies form one byte stream from which `recv(n)` takes what is there.
  Core Lean only.
-/
import Pymodbus.Model.Framer
namespace Pymodbus
namespace Sched
open Pymodbus.Framer

/-- `ReadHoldingRegistersRequest(addr, count, unit=unit)`; `lat` = number of polls before its reply is read -/
structure Req where
  unit : Nat
  addr : Nat
  count : Nat
  lat : Nat
  lost : Nat := 0           -- the scripted world: the peer does not answer the first `lost` transmissions of this
                            -- request (the reply is lost; 0 = every transmission is answered)
  bcast : Bool := false     -- a broadcast: the client has `broadcast_enable` and the request addresses unit 0 (the
                            -- manager writes it and reads nothing; no unit answers it)
  deriving Repr, DecidableEq, Inhabited

/-- the lock discipline of `BaseModbusClient.execute` + `ModbusTransactionManager.execute` as a whole.
    Two lock sites exist in the code: the CLIENT lock (`with self._connect_lock:` around the connect check/open AND the
    call of the manager) and the MANAGER lock (`with self._transaction_lock:` = body of the manager's `execute`).
    `whole` is the shipped (repaired) discipline: both, nested.  Every other constructor is a mutant:
      connectOutside  – no client lock, manager lock around the transaction (the code before the repair)
      connectLocked   – client lock around the connect only (released before the manager is entered), manager lock whole
      perKey key      – no client lock, one manager lock per key (e.g. per unit id)
      outerPerKey key – client lock whole, one manager lock per key
      none            – no lock at all
      sendOnly        – no client lock, one manager lock held around the send only
      releaseClientLockInBackoff – as shipped, but the wait between two attempts of a transaction (the back-off of the
                        retry loop) gives the client lock up and takes it again afterwards, the manager lock staying
                        held (a `Condition.wait` on the client lock: seeded C15-10)
      broadcastOutside – as shipped for ordinary requests, but a broadcast leaves the client lock after the connect
                        and is written outside both locks (seeded C15-04)
      lockOnlyWhenCold – the client lock is taken (around the connect only) only by a caller that sees no socket; a
                        caller that sees one goes straight to the manager (seeded C15-03)
      leakOnFail      – both locks as shipped, but the client lock is NOT given back when the connect of
                        `BaseModbusClient.execute` fails (explicit acquire / try-finally with the connect in between) -/
inductive LockScope where
  | whole
  | connectOutside
  | connectLocked
  | perKey (key : Req → Nat)
  | outerPerKey (key : Req → Nat)
  | none
  | sendOnly
  | leakOnFail
  | lockOnlyWhenCold
  | broadcastOutside
  | releaseClientLockInBackoff

inductive Op where
  | cacquire | preconnect | open | acquire | tid | connect | iopen | flush | send1 | send2 | wait | recv1 | recv2
  | process | release | crelease | peek | bdone | btid | backoff
  deriving DecidableEq, Repr, Inhabited

def Op.name : Op → String
  | .cacquire => "acquire" | .crelease => "release" | .peek => "peek" | .bdone => "bdone" | .btid => "tid"
  | .backoff => "backoff"
  | .preconnect => "connect" | .open => "open" | .iopen => "open" | .flush => "flush"
  | .acquire => "acquire" | .tid => "tid" | .connect => "connect"
  | .send1 => "send1" | .send2 => "send2" | .wait => "wait" | .recv1 => "recv" | .recv2 => "recv"
  | .process => "process" | .release => "release"

/-- operations before which the scheduler may pre-empt in the harness (every transport call and the lock calls);
    `tid` and `process` are plain Python code between two such calls -/
def Op.isYield : Op → Bool
  | .tid | .process | .peek | .bdone | .btid => false
  | _ => true

/-- what follows the send: the polls, the two reads and the processing of the reply — or, for a broadcast, just the
    marker result (nothing is read) -/
def afterSend (r : Req) : List Op :=
  if r.bcast then [.bdone] else List.replicate r.lat .wait ++ [.recv1, .recv2, .process]

/-- the part of a transaction between the manager's lock operations -/
def coreOps (r : Req) : List Op := [.tid, .connect, .flush, .send1, .send2] ++ afterSend r

/-- the operations of one call of `BaseModbusClient.execute` -/
def txnOps (scope : LockScope) (r : Req) : List Op :=
  match scope with
  | .whole | .outerPerKey _ | .leakOnFail | .releaseClientLockInBackoff =>
      [.cacquire, .preconnect, .acquire] ++ coreOps r ++ [.release, .crelease]
  | .broadcastOutside =>
      if r.bcast then [.cacquire, .preconnect, .crelease, .btid, .connect, .flush, .send1, .send2, .bdone]
      else [.cacquire, .preconnect, .acquire] ++ coreOps r ++ [.release, .crelease]
  | .connectLocked => [.cacquire, .preconnect, .crelease, .acquire] ++ coreOps r ++ [.release]
  | .connectOutside | .perKey _ => [.preconnect, .acquire] ++ coreOps r ++ [.release]
  | .lockOnlyWhenCold => [.peek, .cacquire, .preconnect, .crelease, .acquire] ++ coreOps r ++ [.release]
  | .none => .preconnect :: coreOps r
  | .sendOnly => [.preconnect, .tid, .connect, .flush, .acquire, .send1, .send2, .release] ++ afterSend r

/-- lock 0 is the client lock; the manager lock(s) are numbered from 1 -/
def clientKey : Nat := 0

/-- which manager lock a transaction takes -/
def lockKey (scope : LockScope) (r : Req) : Option Nat :=
  match scope with
  | .whole | .connectOutside | .connectLocked | .sendOnly | .leakOnFail | .lockOnlyWhenCold | .broadcastOutside
  | .releaseClientLockInBackoff => some 1
  | .perKey key | .outerPerKey key => some (1 + key r)
  | .none => Option.none

/-- decoded reply -/
inductive Msg where
  | regs (vals : List Nat)
  | exc (fc code : Nat)
  deriving Repr, DecidableEq, Inhabited

/-- what `execute` hands back: a response object (with the ids the framer put on it) or a returned
    `ModbusIOException` -/
inductive Result where
  | ok (tid unit : Nat) (m : Msg)
  | err (e : PyErr)          -- a `ModbusIOException` handed back as the result
  | bcastSent                -- the marker `b'Broadcast write sent - no response expected'`
  | raised (e : PyErr)       -- an exception that escaped `execute`
  deriving Repr, DecidableEq, Inhabited

structure Thread where
  todo : List Req                 -- requests not started yet
  cur : Req := default            -- the request of the transaction in progress
  ops : List Op := []             -- what is left of the transaction in progress ([] = between transactions)
  tidv : Nat := 0                 -- request.transaction_id
  frame : Bytes := []             -- the built packet
  sconn : Nat := 0                -- the connection `client.socket` named when `connect` returned (the frame goes there)
  hdr : Bytes := []               -- read_min
  resp : Bytes := []              -- the response bytes handed to the framer
  full : Bool := false
  attempt : Nat := 0              -- which transmission of the request is under way (0 = the first)
  results : List (Req × Nat × Result) := []   -- (request, its transaction id, what execute returned), oldest first
  deriving Inhabited

/-- the client's retry configuration (`retries`, `retry_on_empty`; `backoff` = is there a wait between attempts —
    always, in the code as it is: `backoff = kwargs.get('backoff', …) or 0.3`) -/
structure Cfg where
  retries : Nat := 3
  retryOnEmpty : Bool := false
  backoff : Bool := true
  deriving Repr, DecidableEq, Inhabited

/-- how many times a request is transmitted at most -/
def Cfg.attempts (cfg : Cfg) : Nat := if cfg.retryOnEmpty then cfg.retries + 1 else 1

structure Chunk where
  thread : Nat
  first : Bool
  conn : Nat
  bytes : Bytes
  deriving Repr, DecidableEq

structure State where
  threads : Nat → Thread
  locks : Nat → Option (Nat × Nat)     -- key ↦ (owner, depth): RLock()s
  tid : Nat := 0                       -- manager.tid
  sock : Option Nat := Option.none     -- client.socket: the connection in use (none = closed)
  nextConn : Nat := 0                  -- connections are numbered in the order they are opened
  attempts : Nat := 0                  -- number of `create_connection` calls so far
  connOk : Nat → Bool := fun _ => true -- the scripted world: does the k-th `create_connection` succeed
  cfg : Cfg := {}                      -- the retry configuration of the client
  wire : List Chunk := []              -- what was written to the transport (any connection), in order
  pending : Nat → Bytes := fun _ => [] -- per connection: bytes the peer has not yet parsed into a frame
  stream : Nat → Bytes := fun _ => []  -- per connection: reply bytes not yet read
  buf : Bytes := []                    -- framer._buffer
  noResp : List Nat := []              -- manager._no_response_devices
  trace : List (Nat × Op) := []        -- newest first

def upd {α : Type} (f : Nat → α) (i : Nat) (v : α) : Nat → α := fun j => if j = i then v else f j

/-! ### the request frame and the peer -/

/-- `ModbusSocketFramer.buildPacket(ReadHoldingRegistersRequest)` -/
def frameOf (tid : Nat) (r : Req) : Bytes :=
  [tid / 256, tid % 256, 0, 0, 0, 6, r.unit, 3, r.addr / 256, r.addr % 256, r.count / 256, r.count % 256]

def regBytes (addr : Nat) : Nat → Bytes
  | 0 => []
  | n + 1 => [(addr % 65536) / 256, (addr % 65536) % 256] ++ regBytes (addr + 1) n

/-- the peer's answer to one complete frame: registers `addr, addr+1, …` (so the answer identifies the request), an
    exception reply for an illegal quantity or anything that is not a read-holding-registers PDU -/
def replyTo (f : Bytes) : Bytes :=
  let h := [f.getD 0 0, f.getD 1 0, 0, 0]
  let unit := f.getD 6 0
  match f.drop 7 with
  | [3, ah, al, ch, cl] =>
    let c := ch * 256 + cl
    if 1 ≤ c ∧ c ≤ 125 then
      h ++ [(3 + 2 * c) / 256, (3 + 2 * c) % 256, unit, 3, 2 * c] ++ regBytes (ah * 256 + al) c
    else h ++ [0, 3, unit, 0x83, 3]
  | fc :: _ => h ++ [0, 3, unit, if fc < 128 then fc + 128 else fc, 1]
  | [] => h ++ [0, 3, unit, 0x80, 1]

/-- the peer parses its input stream into MBAP frames (`length` field at offset 4) -/
def serverParse : Nat → Bytes → Bytes × Bytes
  | 0, p => (p, [])
  | fuel + 1, p =>
    if p.length < 7 then (p, [])
    else
      let l := be16at p 4
      if l < 2 then serverParse fuel (p.drop 7)
      else if p.length < 6 + l then (p, [])
      else
        let r := serverParse fuel (p.drop (6 + l))
        (r.1, replyTo (p.take (6 + l)) ++ r.2)

/-- one write of `chunk`: (bytes still unparsed, reply bytes produced) -/
def serverWrite (pending chunk : Bytes) : Bytes × Bytes :=
  serverParse ((pending ++ chunk).length + 1) (pending ++ chunk)

/-! ### the client's receive path -/

/-- `ReadRegistersResponseBase.decode`: `for i in range(1, bc+1, 2): unpack('>H', data[i:i+2])` -/
def readRegs : Nat → Bytes → Option (List Nat)
  | 0, _ => some []
  | n + 1, a :: b :: r => (readRegs n r).map ((a * 256 + b) :: ·)
  | _ + 1, _ => none

/-- `ClientDecoder.decode` restricted to what the peer can send: read-holding-registers responses and exception
    responses; everything else is "unable to decode" (`None`) -/
def decodeResp (pdu : Bytes) : Option Msg :=
  match pdu with
  | [] => none
  | fc :: data =>
    if fc > 128 then
      match data with
      | code :: _ => some (.exc fc code)
      | [] => none
    else if fc = 3 then
      match data with
      | bc :: rest => (readRegs ((bc + 1) / 2) rest).map .regs
      | [] => none
    else none

/-- `ModbusTransactionManager._addReply`: a decoded reply is filed only if it answers THIS request — function code of
    the request (3) or that code with the exception flag, and the transaction id of the request -/
def answers (reqTid tid : Nat) (m : Msg) : Bool :=
  tid == reqTid && (match m with
    | .regs _ => true
    | .exc fc _ => fc == 0x83)

/-- `ModbusSocketFramer.processIncomingPacket` (loop over `tcpStep`), with the callback `partial(_addReply, request)`:
    every accepted delivery overwrites the one stored entry.
    Returns (last accepted delivery, raised ModbusIOException?, buffer left). -/
def procRun (unit reqTid : Nat) : Nat → Bytes → Option Result → Option Result × Bool × Bytes
  | 0, buf, last => (last, false, buf)
  | fuel + 1, buf, last =>
    match tcpStep buf with
    | .wait => (last, false, buf)
    | .flush => (last, false, [])
    | .skip n => procRun unit reqTid fuel (buf.drop n) last
    | .frame n pdu uid tid _ =>
      if validUnit [unit] false uid then
        match decodeResp pdu with
        | none => (last, true, buf.drop n)
        | some m =>
          procRun unit reqTid fuel (buf.drop n) (if answers reqTid tid m then some (.ok tid uid m) else last)
      else procRun unit reqTid fuel (buf.drop n) last

/-- `processIncomingPacket(response, _addReply, unit)` then `getTransaction(tid)` / the "no response" exception (a
    reply filed before an undecodable frame is dropped) -/
def processResp (unit reqTid : Nat) (buf resp : Bytes) : Result × Bytes :=
  let r := procRun unit reqTid ((buf ++ resp).length + 1) (buf ++ resp) none
  if r.2.1 then (.err .modbusIO, r.2.2)
  else match r.1 with
    | some res => (res, r.2.2)
    | none => (.err .modbusIO, r.2.2)

def Result.isOk : Result → Bool
  | .ok _ _ _ => true
  | _ => false

/-- size of the second read: `h_size + (length - 1) - min_size` for a normal reply, `exception_length - min_size`
    for an exception reply; a negative size reads nothing -/
def restSize (hdr : Bytes) : Nat :=
  if hdr.getD 7 0 < 128 then ((7 : Int) + ((be16at hdr 4 : Int) - 1) - 8).toNat else 1

/-- bookkeeping of `_no_response_devices` after `_transact` -/
def noteResp (l : List Nat) (unit : Nat) (resp : Bytes) : List Nat :=
  if resp.isEmpty then (if l.contains unit then l else l ++ [unit])
  else (if l.contains unit then l.erase unit else l)

/-- the scripted world: what the peer produces while this request is being written never arrives if the request is
    marked `lost`; and no unit answers a broadcast -/
def answer (r : Req) (attempt : Nat) (reply : Bytes) : Bytes :=
  if decide (attempt < r.lost) || r.bcast then [] else reply

/-- one more attempt of the same transaction: connect (the failed read has closed the connection), rebuild, flush,
    send, poll, read -/
def attemptOps (r : Req) : List Op :=
  [.connect, .flush, .send1, .send2] ++ (List.replicate r.lat .wait ++ [.recv1, .recv2])

/-- the wait between two attempts (`time.sleep(delay)`): a point at which other threads run.  The locks stay held —
    except in the mutant that waits on a condition of the client lock -/
def backoffOps (scope : LockScope) (cfg : Cfg) : List Op :=
  if cfg.backoff then
    (match scope with
     | .releaseClientLockInBackoff => [.crelease, .backoff, .cacquire]
     | _ => [.backoff])
  else []

/-- is the request transmitted once more after attempt `attempt` got nothing -/
def Cfg.again (cfg : Cfg) (attempt : Nat) : Bool := cfg.retryOnEmpty && decide (attempt < cfg.retries)

/-- what the retry loop of `execute` does after an attempt that got nothing (`retry_on_empty`: back off, then — while
    retries remain — transmit again; the loop backs off after the last attempt too) -/
def retryOps (scope : LockScope) (cfg : Cfg) (th : Thread) : List Op :=
  if cfg.retryOnEmpty then backoffOps scope cfg ++ (if cfg.again th.attempt then attemptOps th.cur else []) else []

/-! ### one scheduler step -/

def lockAcquire (locks : Nat → Option (Nat × Nat)) (k t : Nat) : Option (Nat → Option (Nat × Nat)) :=
  match locks k with
  | Option.none => some (upd locks k (some (t, 1)))
  | some (o, d) => if o = t then some (upd locks k (some (t, d + 1))) else Option.none

def lockRelease (locks : Nat → Option (Nat × Nat)) (k t : Nat) : Nat → Option (Nat × Nat) :=
  match locks k with
  | some (o, d) => if o = t then upd locks k (if d ≤ 1 then Option.none else some (o, d - 1)) else locks
  | Option.none => locks

/-- an exception escapes `execute` (the `with` releases the lock on the way out): the caller gets no response -/
def raiseOut (s : State) (t : Nat) (th : Thread) (ops : List Op) (op : Op) (e : PyErr) : State :=
  { s with threads := upd s.threads t { th with ops := ops.filter (fun o => o == .release || o == .crelease),
                                                 results := th.results ++ [(th.cur, th.tidv, .raised e)] },
           trace := (t, op) :: s.trace }

/-- thread `t` (local state `th`, request `th.cur`) performs operation `op`; `ops` is what follows it -/
def stepOp (scope : LockScope) (s : State) (t : Nat) (th : Thread) (ops : List Op) : Op → State
  | .backoff =>     -- `time.sleep(delay)` between two attempts: nothing changes, others may run
    { s with threads := upd s.threads t { th with ops := ops }, trace := (t, .backoff) :: s.trace }
  | .bdone =>       -- a broadcast is over once it is written: the marker is the result
    { s with threads := upd s.threads t { th with ops := ops, results := th.results ++ [(th.cur, th.tidv, .bcastSent)] },
             trace := (t, .bdone) :: s.trace }
  | .btid =>        -- (mutant) `request.transaction_id = getNextTID()` outside the manager
    { s with tid := (s.tid + 1) % 65536,
             threads := upd s.threads t { th with ops := ops, tidv := (s.tid + 1) % 65536 },
             trace := (t, .btid) :: s.trace }
  | .peek =>        -- (mutant) `if not self.socket:` — a caller that sees a socket skips the client lock and the connect
    { s with threads := upd s.threads t { th with ops := if s.sock.isSome then ops.drop 3 else ops },
             trace := (t, .peek) :: s.trace }
  | .cacquire =>    -- `with self._connect_lock:` in `BaseModbusClient.execute`
    match lockAcquire s.locks clientKey t with
    | Option.none => s        -- parked: somebody else holds the client lock
    | some l => { s with locks := l, threads := upd s.threads t { th with ops := ops },
                         trace := (t, .cacquire) :: s.trace }
  | .crelease =>
    { s with locks := lockRelease s.locks clientKey t, threads := upd s.threads t { th with ops := ops },
             trace := (t, .crelease) :: s.trace }
  | .preconnect =>  -- `BaseModbusClient.execute`: `self.connect()`: the check; no socket → go on to open one
    match s.sock with
    | some _ => { s with threads := upd s.threads t { th with ops := ops }, trace := (t, .preconnect) :: s.trace }
    | Option.none =>
      { s with threads := upd s.threads t { th with ops := .open :: ops }, trace := (t, .preconnect) :: s.trace }
  | .open =>      -- the `create_connection` of the connect in `BaseModbusClient.execute` completes
    if s.connOk s.attempts then     -- a fresh connection replaces `client.socket`
      { s with sock := some s.nextConn, nextConn := s.nextConn + 1, attempts := s.attempts + 1,
               threads := upd s.threads t { th with ops := ops, sconn := s.nextConn }, trace := (t, .open) :: s.trace }
    else            -- refused: `connect()` returns False, `execute` raises ConnectionException out of the `with`
      { s with attempts := s.attempts + 1, sock := Option.none,
               threads := upd s.threads t
                 { th with ops := (match scope with
                                   | .leakOnFail => []      -- the mutant: the client lock stays with this thread
                                   | _ => ops.filter (· == .crelease)),
                           results := th.results ++ [(th.cur, th.tidv, .raised .modbusExc)] },
               trace := (t, .open) :: s.trace }
  | .iopen =>     -- the `create_connection` of the connect in `_transact` completes
    if s.connOk s.attempts then
      { s with sock := some s.nextConn, nextConn := s.nextConn + 1, attempts := s.attempts + 1,
               threads := upd s.threads t { th with ops := ops }, trace := (t, .iopen) :: s.trace }
    else            -- `connect()` returns False, `_send` raises ConnectionException (not caught anywhere)
      raiseOut { s with attempts := s.attempts + 1, sock := Option.none } t th ops .iopen .modbusExc
  | .flush =>     -- `_send`: `_flush_input()` discards what waits on `client.socket`; the frame goes to that socket
    match s.sock with
    | some c =>
      { s with stream := upd s.stream c [],
               threads := upd s.threads t { th with ops := ops, sconn := c }, trace := (t, .flush) :: s.trace }
    | Option.none => raiseOut s t th ops .flush .attr     -- `None.recv` (somebody closed the client)
  | .acquire =>
    match lockKey scope th.cur with
    | Option.none => { s with threads := upd s.threads t { th with ops := ops }, trace := (t, .acquire) :: s.trace }
    | some k =>
      match lockAcquire s.locks k t with
      | Option.none => s        -- parked: somebody else holds the lock
      | some l => { s with locks := l, threads := upd s.threads t { th with ops := ops },
                           trace := (t, .acquire) :: s.trace }
  | .tid =>       -- getNextTID; `if framer._buffer: resetFrame()`; `full = unit in _no_response_devices`
    { s with tid := (s.tid + 1) % 65536, buf := [],
             threads := upd s.threads t { th with ops := ops, tidv := (s.tid + 1) % 65536,
                                                   full := s.noResp.contains th.cur.unit, hdr := [], resp := [] },
             trace := (t, .tid) :: s.trace }
  | .connect =>   -- `_transact`: `client.connect()` (check, then open if there is no socket), `framer.buildPacket`
    match s.sock with
    | some _ =>
      { s with threads := upd s.threads t { th with ops := ops, frame := frameOf th.tidv th.cur },
               trace := (t, .connect) :: s.trace }
    | Option.none =>
      { s with threads := upd s.threads t { th with ops := .iopen :: ops, frame := frameOf th.tidv th.cur },
               trace := (t, .connect) :: s.trace }
  | .send1 =>
    { s with wire := s.wire ++ [⟨t, true, th.sconn, th.frame.take 7⟩],
             pending := upd s.pending th.sconn (serverWrite (s.pending th.sconn) (th.frame.take 7)).1,
             stream := upd s.stream th.sconn
               (s.stream th.sconn ++ answer th.cur th.attempt (serverWrite (s.pending th.sconn) (th.frame.take 7)).2),
             threads := upd s.threads t { th with ops := ops }, trace := (t, .send1) :: s.trace }
  | .send2 =>
    match s.sock with
    | some _ =>
      { s with wire := s.wire ++ [⟨t, false, th.sconn, th.frame.drop 7⟩],
               pending := upd s.pending th.sconn (serverWrite (s.pending th.sconn) (th.frame.drop 7)).1,
               stream := upd s.stream th.sconn
                 (s.stream th.sconn ++ answer th.cur th.attempt (serverWrite (s.pending th.sconn) (th.frame.drop 7)).2),
               threads := upd s.threads t { th with ops := ops }, trace := (t, .send2) :: s.trace }
    | Option.none =>
      if th.cur.bcast then    -- nothing is read after a broadcast: that the client was closed meanwhile goes unnoticed
        { s with wire := s.wire ++ [⟨t, false, th.sconn, th.frame.drop 7⟩],
                 pending := upd s.pending th.sconn (serverWrite (s.pending th.sconn) (th.frame.drop 7)).1,
                 stream := upd s.stream th.sconn
                   (s.stream th.sconn ++ answer th.cur th.attempt (serverWrite (s.pending th.sconn) (th.frame.drop 7)).2),
                 threads := upd s.threads t { th with ops := ops }, trace := (t, .send2) :: s.trace }
      else                    -- `_recv`: `if not self.socket: raise ConnectionException` (somebody closed the client)
        raiseOut
          { s with wire := s.wire ++ [⟨t, false, th.sconn, th.frame.drop 7⟩],
                   pending := upd s.pending th.sconn (serverWrite (s.pending th.sconn) (th.frame.drop 7)).1,
                   stream := upd s.stream th.sconn
                     (s.stream th.sconn ++ answer th.cur th.attempt (serverWrite (s.pending th.sconn) (th.frame.drop 7)).2) }
          t th ops .send2 .modbusExc
  | .wait => { s with threads := upd s.threads t { th with ops := ops }, trace := (t, .wait) :: s.trace }
  | .recv1 =>
    match s.sock with
    | Option.none => raiseOut s t th ops .recv1 .type      -- `select.select([None], …)`
    | some c =>
      if th.full then      -- `recvPacket(None)`: whatever is there, no second read
        if (s.stream c).isEmpty then     -- nothing: the retry loop takes over (the connection stays open)
          { s with noResp := noteResp s.noResp th.cur.unit [],
                   threads := upd s.threads t
                     { th with ops := retryOps scope s.cfg th ++ ops.tail, resp := [], full := false,
                               attempt := if s.cfg.again th.attempt then th.attempt + 1 else th.attempt },
                   trace := (t, .recv1) :: s.trace }
        else
          { s with stream := upd s.stream c [], noResp := noteResp s.noResp th.cur.unit (s.stream c),
                   threads := upd s.threads t { th with ops := ops.tail, resp := s.stream c },
                   trace := (t, .recv1) :: s.trace }
      else if ((s.stream c).take 8).length = 8 then
        { s with stream := upd s.stream c ((s.stream c).drop 8),
                 threads := upd s.threads t { th with ops := ops, hdr := (s.stream c).take 8 },
                 trace := (t, .recv1) :: s.trace }
      else               -- InvalidMessageReceivedException: close, empty response, no second read; retry loop
        { s with stream := upd s.stream c ((s.stream c).drop 8), sock := Option.none,
                 noResp := noteResp s.noResp th.cur.unit [],
                 threads := upd s.threads t
                   { th with ops := retryOps scope s.cfg th ++ ops.tail, hdr := (s.stream c).take 8, resp := [],
                             full := false,
                             attempt := if s.cfg.again th.attempt then th.attempt + 1 else th.attempt },
                 trace := (t, .recv1) :: s.trace }
  | .recv2 =>
    match s.sock with
    | Option.none => raiseOut s t th ops .recv2 .type
    | some c =>
      { s with stream := upd s.stream c ((s.stream c).drop (restSize th.hdr)),
               noResp := noteResp s.noResp th.cur.unit (th.hdr ++ (s.stream c).take (restSize th.hdr)),
               threads := upd s.threads t { th with ops := ops, resp := th.hdr ++ (s.stream c).take (restSize th.hdr) },
               trace := (t, .recv2) :: s.trace }
  | .process =>   -- a transaction that ends without its reply closes the connection
    { s with buf := (processResp th.cur.unit th.tidv s.buf th.resp).2,
             sock := if (processResp th.cur.unit th.tidv s.buf th.resp).1.isOk then s.sock else Option.none,
             threads := upd s.threads t
               { th with ops := ops,
                         results := th.results ++
                           [(th.cur, th.tidv, (processResp th.cur.unit th.tidv s.buf th.resp).1)] },
             trace := (t, .process) :: s.trace }
  | .release =>
    match lockKey scope th.cur with
    | Option.none => { s with threads := upd s.threads t { th with ops := ops }, trace := (t, .release) :: s.trace }
    | some k =>
      { s with locks := lockRelease s.locks k t, threads := upd s.threads t { th with ops := ops },
               trace := (t, .release) :: s.trace }

/-- the caller turns to its next request (plain code, nothing shared is touched) -/
def stepBegin (scope : LockScope) (s : State) (t : Nat) (th : Thread) (r : Req) (rest : List Req) : State :=
  { s with threads := upd s.threads t { th with todo := rest, cur := r, ops := txnOps scope r, tidv := 0, attempt := 0 } }

/-- thread `t` performs its next operation (or stays put if parked / finished) -/
def step (scope : LockScope) (s : State) (t : Nat) : State :=
  match (s.threads t).ops with
  | [] =>
    match (s.threads t).todo with
    | [] => s
    | r :: rest => stepBegin scope s t (s.threads t) r rest
  | op :: ops => stepOp scope s t (s.threads t) ops op

/-- run a schedule -/
def runSched (scope : LockScope) (s : State) : List Nat → State
  | [] => s
  | t :: rest => runSched scope (step scope s t) rest

/-- all threads idle, nothing on the wire; thread `i` will issue `reqs i`; `connected` = the client was connected
    (connection 0) before the threads were started -/
def init (reqs : Nat → List Req) (connected : Bool) (connOk : Nat → Bool := fun _ => true) (cfg : Cfg := {}) : State :=
  { threads := fun i => { todo := reqs i }, locks := fun _ => Option.none,
    sock := if connected then some 0 else Option.none, nextConn := if connected then 1 else 0, connOk := connOk,
    cfg := cfg }

/-! ### observations -/

def Thread.done (th : Thread) : Bool := th.ops.isEmpty && th.todo.isEmpty

/-- between its send and the end of its receive -/
def Thread.inFlight (th : Thread) : Bool :=
  match th.ops with
  | .send2 :: _ | .wait :: _ | .recv1 :: _ | .recv2 :: _ => true
  | _ => false

/-- thread `t` can move: it is not finished and not parked on a lock somebody else holds -/
def runnable (scope : LockScope) (s : State) (t : Nat) : Bool :=
  match (s.threads t).ops with
  | [] => !(s.threads t).todo.isEmpty
  | .acquire :: _ =>
    match lockKey scope (s.threads t).cur with
    | Option.none => true
    | some k => match s.locks k with
      | Option.none => true
      | some (o, _) => o == t
  | .cacquire :: _ =>
    match s.locks clientKey with
    | Option.none => true
    | some (o, _) => o == t
  | _ => true

/-- a `connect` may turn into an `open`; a first read that gets nothing may turn into a back-off -/
def Op.weight : Op → Nat
  | .connect => 2
  | .preconnect => 2
  | .recv1 => 5
  | _ => 1

def opsWeight (ops : List Op) : Nat := (ops.map Op.weight).sum

/-- what one more attempt of request `r` costs at most (its operations and the back-off before it) -/
def retryCost (r : Req) : Nat := 12 + r.lat

/-- operations thread `t` still has to perform (an upper bound: a failed read skips the second read, a connect that
    finds a socket does not open one, not every retry is used) -/
def Thread.work (scope : LockScope) (cfg : Cfg) (th : Thread) : Nat :=
  opsWeight th.ops + (cfg.retries - th.attempt) * retryCost th.cur +
  (th.todo.map (fun r => 3 + opsWeight (txnOps scope r) + cfg.retries * retryCost r)).sum

def totalWork (scope : LockScope) (s : State) : Nat → Nat
  | 0 => 0
  | n + 1 => totalWork scope s n + (s.threads n).work scope s.cfg

/-- harness granularity: perform the next operation of `t`, then the plain code up to its next yield point (loading
    the next request included) -/
def macroTail (scope : LockScope) : Nat → State → Nat → State × List Nat
  | 0, s, _ => (s, [])
  | fuel + 1, s, t =>
    match (s.threads t).ops with
    | op :: _ =>
      if op.isYield then (s, [])
      else
        let r := macroTail scope fuel (step scope s t) t
        (r.1, t :: r.2)
    | [] =>
      if (s.threads t).todo.isEmpty then (s, [])
      else
        let r := macroTail scope fuel (step scope s t) t
        (r.1, t :: r.2)

def macroStep (scope : LockScope) (s : State) (t : Nat) : State × List Nat :=
  let r := macroTail scope 6 (step scope s t) t
  (r.1, t :: r.2)

end Sched
end Pymodbus
