/-
  Model of the asynchronous (Twisted) client protocol
  (pymodbus/client/asynchronous/twisted/__init__.py: ModbusClientProtocol / ModbusSerClientProtocol)
  together with the two transaction managers of pymodbus/transaction.py
  (DictTransactionManager, FifoTransactionManager).

  What is modelled, statement by statement:

    ModbusTransactionManager.getNextTID     self.tid = (self.tid + 1) & 0xffff; return self.tid
    DictTransactionManager.getNextTID       tid = super().getNextTID()                       (since 5cae7f5)
                                            for _ in range(0xffff):
                                                if tid not in self.transactions: break
                                                tid = super().getNextTID()
                                            return tid
                                            (an id that still waits for its reply is skipped; `Old.*` below is the
                                            model with the allocation before that commit)
    DictTransactionManager.addTransaction   self.transactions[tid] = request
    DictTransactionManager.getTransaction   return self.transactions.pop(tid, None)
    DictTransactionManager.__iter__         iterkeys(self.transactions)         (insertion order)
    FifoTransactionManager.addTransaction   self.transactions.append(request)
    FifoTransactionManager.getTransaction   return self.transactions.pop(0) if self.transactions else None
    FifoTransactionManager.__iter__         iter(self.transactions)
    ModbusClientProtocol.connectionMade     self._connected = True
    ModbusClientProtocol.connectionLost     self._connected = False
                                            for tid in list(self.transaction):
                                                self.transaction.getTransaction(tid).errback(Failure(ConnectionException(..)))
    ModbusClientProtocol.execute            request.transaction_id = self.transaction.getNextTID()
                                            packet = self.framer.buildPacket(request); self.transport.write(packet)
                                            return self._buildResponse(request.transaction_id)
    ModbusClientProtocol._buildResponse     if not self._connected: return defer.fail(Failure(ConnectionException(..)))
                                            d = defer.Deferred(); self.transaction.addTransaction(d, tid); return d
    ModbusClientProtocol._handleResponse    handler = self.transaction.getTransaction(reply.transaction_id)
                                            if handler: handler.callback(reply)   else: (dropped)
    ModbusClientProtocol.close              if self.transport and hasattr(self.transport, "close"): self.transport.close()
                                            self._connected = False
                                            (nothing is failed here; the transport's later `connectionLost` is a
                                            separate operation.  Twisted's TCP and serial transports have no
                                            attribute `close`, so there only the flag is cleared: `hasClose`)

  The framer is abstracted: the operation `reply t tag` is "the framer hands a complete, decodable reply
  frame whose transaction id is `t` to `_handleResponse`" (`tag` identifies the reply's payload).  Both
  framers advance their buffer *before* calling the callback, so re-entrant calls from the callback do not
  see framer state.

  Re-entrancy.  Twisted runs callbacks and errbacks synchronously inside `Deferred.callback/errback`, and a
  deferred returned by `defer.fail` runs an errback as soon as it is attached.  The application is modelled by
  what it attaches to the deferred of each request (`Req`): optionally "on success issue this request" and
  optionally "on failure issue this request" (each again with its own continuations), on the same protocol
  instance.  The continuation runs at the point where the real code calls `callback`/`errback`, i.e. in
  the middle of `_handleResponse`, `connectionLost` (inside its loop) or right after `execute` returned an
  already failed deferred.

  Core Lean only.
-/
import Pymodbus.Model.Prelude
namespace Pymodbus.AsyncClient

/-- TCP (`ModbusSocketFramer` → `DictTransactionManager`) or serial (any other framer →
    `FifoTransactionManager`) -/
inductive Variant where
  | dict | fifo
  deriving DecidableEq, Repr, Inhabited

/-- What the application attaches to the deferred returned by `execute`. -/
inductive Req where
  | plain                          -- only records the outcome
  | onOk (k : Req)                 -- callback issues request `k`
  | onErr (k : Req)                -- errback issues request `k`  ("retry on failure")
  | both (ok : Req) (err : Req)
  deriving DecidableEq, Repr, Inhabited

def Req.okK : Req → Option Req
  | .onOk k => some k
  | .both k _ => some k
  | _ => none

def Req.errK : Req → Option Req
  | .onErr k => some k
  | .both _ k => some k
  | _ => none

/-- a pending deferred: its identity (the number of the `execute` call that created it) and what the
    application attached to it -/
structure Entry where
  id : Nat
  k : Req
  deriving DecidableEq, Repr, Inhabited

inductive Why where
  | lost            -- ConnectionException('Connection lost during request')
  | notConnected    -- ConnectionException('Client is not connected')
  deriving DecidableEq, Repr, Inhabited

/-- where the sending of a request fails: `framer.buildPacket(request)` raises (a field out of range:
    struct.error) or `transport.write(packet)` raises -/
inductive FailAt where
  | encode | write
  deriving DecidableEq, Repr, Inhabited

inductive Event where
  /-- `transport.write` of the frame of request `id`, carrying transaction id `tid` -/
  | sent (id tid : Nat)
  /-- deferred `id` fired with the reply `(tid, tag)` -/
  | callback (id tid tag : Nat)
  /-- deferred `id` failed with a ConnectionException -/
  | errback (id : Nat) (why : Why)
  /-- a Python exception escaped from the operation -/
  | exc (e : PyErr)
  /-- `transport.close()` was called (by `close()`, when the transport has such a method) -/
  | tclose
  /-- `execute` raised to its caller because the request could not be sent; no deferred was returned -/
  | sendFail (w : FailAt)
  deriving DecidableEq, Repr, Inhabited

/-- Protocol + transaction manager state.  `pending` is `transaction.transactions`: for the dict manager the
    insertion-ordered `{tid: deferred}`; for the FIFO manager the list of deferreds (the key stored with a
    FIFO entry is a ghost label – the tid `getNextTID` produced – that no operation of the FIFO model reads).
    `nextId` is not program state: it numbers the calls of `execute` so that deferreds have names. -/
structure State where
  tid : Nat
  pending : List (Nat × Entry)
  connected : Bool
  nextId : Nat
  deriving DecidableEq, Repr, Inhabited

/-- `ModbusClientProtocol.__init__`: tid = Defaults.TransactionId = 0, no transactions, not connected -/
def init : State := ⟨0, [], false, 0⟩

/-! ### Python dict as an insertion-ordered association list -/

def dictGet : List (Nat × Entry) → Nat → Option Entry
  | [], _ => none
  | (k', e) :: r, k => if k' = k then some e else dictGet r k

/-- `d[k] = e`: an existing key keeps its position -/
def dictSet : List (Nat × Entry) → Nat → Entry → List (Nat × Entry)
  | [], k, e => [(k, e)]
  | (k', e') :: r, k, e => if k' = k then (k, e) :: r else (k', e') :: dictSet r k e

def dictErase : List (Nat × Entry) → Nat → List (Nat × Entry)
  | [], _ => []
  | (k', e') :: r, k => if k' = k then r else (k', e') :: dictErase r k

/-! ### transaction manager -/

/-- `addTransaction(d, tid)` -/
def add (v : Variant) (s : State) (tid : Nat) (e : Entry) : State :=
  match v with
  | .dict => { s with pending := dictSet s.pending tid e }
  | .fifo => { s with pending := s.pending ++ [(tid, e)] }

/-- `getTransaction(k)`: the handler (or `None`) and the state afterwards -/
def get (v : Variant) (s : State) (k : Nat) : Option Entry × State :=
  match v with
  | .dict => (dictGet s.pending k, { s with pending := dictErase s.pending k })
  | .fifo =>
    match s.pending with
    | [] => (none, s)
    | (_, e) :: r => (some e, { s with pending := r })

/-- `list(self.transaction)`: the keys (dict) / the deferreds themselves (FIFO; they are passed to
    `getTransaction`, which ignores its argument – the model passes the ghost labels) -/
def keys (s : State) : List Nat := s.pending.map (·.1)

/-! ### transaction id allocation -/

/-- `ModbusTransactionManager.getNextTID` -/
def nextTid (t : Nat) : Nat := (t + 1) % 65536

/-- the loop of `DictTransactionManager.getNextTID`: `t` is the current candidate, `n` the iterations left -/
def skipLoop (pending : List (Nat × Entry)) : Nat → Nat → Nat
  | 0, t => t
  | n + 1, t => if t ∈ pending.map (·.1) then skipLoop pending n (nextTid t) else t

/-- `self.transaction.getNextTID()` (the manager's `tid` afterwards is the value returned) -/
def allocTid (v : Variant) (s : State) : Nat :=
  match v with
  | .dict => skipLoop s.pending 65535 (nextTid s.tid)
  | .fifo => nextTid s.tid

/-! ### protocol -/

/-- One call of `execute` up to the point where it returns its deferred. -/
def issue (v : Variant) (s : State) (r : Req) : State × List Event :=
  let tid := allocTid v s                              -- getNextTID
  let id := s.nextId
  let s1 := { s with tid := tid, nextId := id + 1 }
  if s.connected then
    (add v s1 tid ⟨id, r⟩, [.sent id tid])              -- write; Deferred(); addTransaction
  else
    (s1, [.sent id tid, .errback id .notConnected])     -- write; defer.fail(..): the errback runs when attached

/-- `execute` as seen by the application: the call, then – when the returned deferred has already failed –
    the application's errback, which may call `execute` again. -/
def execute (v : Variant) (s : State) : Req → State × List Event
  | .plain => issue v s .plain
  | .onOk k => issue v s (.onOk k)
  | .onErr k =>
    let p := issue v s (.onErr k)
    if s.connected then p else
      let q := execute v p.1 k
      (q.1, p.2 ++ q.2)
  | .both o k =>
    let p := issue v s (.both o k)
    if s.connected then p else
      let q := execute v p.1 k
      (q.1, p.2 ++ q.2)

/-- `handler.callback(reply)`: the application's callback runs synchronously -/
def fireOk (v : Variant) (s : State) (e : Entry) (t tag : Nat) : State × List Event :=
  match e.k.okK with
  | none => (s, [.callback e.id t tag])
  | some k =>
    let q := execute v s k
    (q.1, .callback e.id t tag :: q.2)

/-- `handler.errback(Failure(ConnectionException(..)))`: the application's errback runs synchronously -/
def fireErr (v : Variant) (s : State) (e : Entry) (why : Why) : State × List Event :=
  match e.k.errK with
  | none => (s, [.errback e.id why])
  | some k =>
    let q := execute v s k
    (q.1, .errback e.id why :: q.2)

/-- `_handleResponse(reply)` for a reply with transaction id `t` -/
def reply (v : Variant) (s : State) (t tag : Nat) : State × List Event :=
  match get v s t with
  | (none, s') => (s', [])                  -- 'Unrequested message'
  | (some e, s') => fireOk v s' e t tag

/-- the loop of `connectionLost` over the snapshot `list(self.transaction)` -/
def lostLoop (v : Variant) : List Nat → State → State × List Event
  | [], s => (s, [])
  | k :: ks, s =>
    match get v s k with
    | (none, s') => (s', [.exc .attr])      -- None.errback(..): AttributeError leaves the loop
    | (some e, s') =>
      let p := fireErr v s' e .lost
      let q := lostLoop v ks p.1
      (q.1, p.2 ++ q.2)

def connectionLost (v : Variant) (s : State) : State × List Event :=
  let s1 := { s with connected := false }   -- self._connected = False
  lostLoop v (keys s1) s1                   -- for tid in list(self.transaction): ...

/-- `execute(request)` whose sending fails:
        request.transaction_id = self.transaction.getNextTID()      -- an id is consumed
        packet = self.framer.buildPacket(request)                   -- raises (encode), or
        self.transport.write(packet)                                -- raises (write): nothing reaches the peer
        return self._buildResponse(request.transaction_id)          -- NOT reached: no deferred, table untouched
    The exception escapes to the caller (independently of the connection flag: the flag is only looked at by
    `_buildResponse`).  The call gets no request number: no deferred exists that could be named. -/
def execFail (v : Variant) (s : State) (w : FailAt) : State × List Event :=
  ({ s with tid := allocTid v s }, [.sendFail w])

/-- `close()`: the pending deferreds are left alone -/
def close (s : State) (hasClose : Bool) : State × List Event :=
  ({ s with connected := false }, if hasClose then [.tclose] else [])

inductive Op where
  | connectionMade
  | execute (r : Req)
  | reply (tid tag : Nat)
  | connectionLost
  /-- the application calls `close()`; `hasClose` = the transport object has an attribute `close` -/
  | close (hasClose : Bool)
  /-- the application calls `execute` with a request whose sending fails -/
  | execFail (w : FailAt)
  deriving DecidableEq, Repr, Inhabited

def step (v : Variant) (s : State) : Op → State × List Event
  | .connectionMade => ({ s with connected := true }, [])
  | .execute r => execute v s r
  | .reply t tag => reply v s t tag
  | .connectionLost => connectionLost v s
  | .close hc => close s hc
  | .execFail w => execFail v s w

/-- a history of operations: final state and the whole event trace -/
def run (v : Variant) (s : State) : List Op → State × List Event
  | [] => (s, [])
  | op :: ops =>
    let p := step v s op
    let q := run v p.1 ops
    (q.1, p.2 ++ q.2)

/-- the same history, keeping the events of each operation apart -/
def runSeg (v : Variant) (s : State) : List Op → List (Op × List Event)
  | [] => []
  | op :: ops => (op, (step v s op).2) :: runSeg v (step v s op).1 ops

/-! ### observations on traces -/

def Event.firedId : Event → Option Nat
  | .callback id _ _ => some id
  | .errback id _ => some id
  | _ => none

/-- ids of the deferreds that fired, in order -/
def fired (evs : List Event) : List Nat := evs.filterMap Event.firedId

def Event.sentOf : Event → Option (Nat × Nat)
  | .sent id t => some (id, t)
  | _ => none

/-- (request id, transaction id) of the frames written, in order -/
def sents (evs : List Event) : List (Nat × Nat) := evs.filterMap Event.sentOf

def Event.servedId : Event → Option Nat
  | .callback id _ _ => some id
  | .errback id .lost => some id
  | _ => none

/-- ids of the deferreds that were taken out of the transaction table (reply or loss), in order -/
def served (evs : List Event) : List Nat := evs.filterMap Event.servedId

def Event.cbOf : Event → Option (Nat × Nat × Nat)
  | .callback id t tag => some (id, t, tag)
  | _ => none

/-- (deferred, reply tid, reply tag) of the deliveries, in order -/
def cbs (evs : List Event) : List (Nat × Nat × Nat) := evs.filterMap Event.cbOf

def Event.isExc : Event → Bool
  | .exc _ => true
  | _ => false

def pendingIds (s : State) : List Nat := s.pending.map (·.2.id)

/-! ### the mutant: transaction ids handed out modulo 65536 without looking at the table (before 5cae7f5) -/
namespace Old

def issue (v : Variant) (s : State) (r : Req) : State × List Event :=
  let tid := nextTid s.tid
  let id := s.nextId
  let s1 := { s with tid := tid, nextId := id + 1 }
  if s.connected then (add v s1 tid ⟨id, r⟩, [.sent id tid])
  else (s1, [.sent id tid, .errback id .notConnected])

def execute (v : Variant) (s : State) : Req → State × List Event
  | .plain => issue v s .plain
  | .onOk k => issue v s (.onOk k)
  | .onErr k =>
    let p := issue v s (.onErr k)
    if s.connected then p else
      let q := execute v p.1 k
      (q.1, p.2 ++ q.2)
  | .both o k =>
    let p := issue v s (.both o k)
    if s.connected then p else
      let q := execute v p.1 k
      (q.1, p.2 ++ q.2)

def fireOk (v : Variant) (s : State) (e : Entry) (t tag : Nat) : State × List Event :=
  match e.k.okK with
  | none => (s, [.callback e.id t tag])
  | some k => let q := execute v s k; (q.1, .callback e.id t tag :: q.2)

def fireErr (v : Variant) (s : State) (e : Entry) (why : Why) : State × List Event :=
  match e.k.errK with
  | none => (s, [.errback e.id why])
  | some k => let q := execute v s k; (q.1, .errback e.id why :: q.2)

def reply (v : Variant) (s : State) (t tag : Nat) : State × List Event :=
  match get v s t with
  | (none, s') => (s', [])
  | (some e, s') => fireOk v s' e t tag

def lostLoop (v : Variant) : List Nat → State → State × List Event
  | [], s => (s, [])
  | k :: ks, s =>
    match get v s k with
    | (none, s') => (s', [.exc .attr])
    | (some e, s') =>
      let p := fireErr v s' e .lost
      let q := lostLoop v ks p.1
      (q.1, p.2 ++ q.2)

def connectionLost (v : Variant) (s : State) : State × List Event :=
  let s1 := { s with connected := false }
  lostLoop v (keys s1) s1

def step (v : Variant) (s : State) : Op → State × List Event
  | .connectionMade => ({ s with connected := true }, [])
  | .execute r => execute v s r
  | .reply t tag => reply v s t tag
  | .connectionLost => connectionLost v s
  | .close hc => close s hc
  | .execFail w => ({ s with tid := nextTid s.tid }, [.sendFail w])

def run (v : Variant) (s : State) : List Op → State × List Event
  | [] => (s, [])
  | op :: ops =>
    let p := step v s op
    let q := run v p.1 ops
    (q.1, p.2 ++ q.2)

end Old

/-! ### the mutant: the deferred is registered BEFORE the request is encoded and written -/
namespace Orphan

/-- `execute` with `_buildResponse(tid)` moved in front of `buildPacket` / `transport.write`: when the sending
    fails the exception still escapes and no deferred is returned, but one has been created and registered – it
    gets the next request number although nobody holds it -/
def execFail (v : Variant) (s : State) (w : FailAt) : State × List Event :=
  let tid := allocTid v s
  let s1 := { s with tid := tid, nextId := s.nextId + 1 }
  if s.connected then (add v s1 tid ⟨s.nextId, .plain⟩, [.sendFail w])
  else (s1, [.sendFail w])

def step (v : Variant) (s : State) : Op → State × List Event
  | .execFail w => execFail v s w
  | op => AsyncClient.step v s op

def run (v : Variant) (s : State) : List Op → State × List Event
  | [] => (s, [])
  | op :: ops =>
    let p := step v s op
    let q := run v p.1 ops
    (q.1, p.2 ++ q.2)

end Orphan

end Pymodbus.AsyncClient
