/-
  Model of the Read Device Identification path (function code 0x2B / MEI type 0x0E):
    pymodbus/device.py      ModbusDeviceIdentification.__getitem__, DeviceInformationFactory.get/__get/__gets
    pymodbus/mei_message.py ReadDeviceInformationRequest.encode/decode/execute,
                            ReadDeviceInformationResponse.__init__/encode/_encode_object/decode
    pymodbus/factory.py     ServerDecoder / ClientDecoder dispatch for 0x2B (and exception responses)
  and of the client loop "request `next_object_id` again while `more_follows == 0xFF`".

  The identity is the process-wide dict `ModbusDeviceIdentification.__data`: an insertion-ordered
  association list id ↦ value.  Values are byte strings (a `str` value is its ASCII encoding; list
  values are not modelled).  Core Lean only.
-/
import Pymodbus.Model.Prelude
import Pymodbus.Model.Pdu
namespace Pymodbus.DevId
open Pymodbus

/-- `ModbusDeviceIdentification.__data` (a Python dict, insertion ordered) -/
abbrev Ident := List (Nat × Bytes)

/-- the `information` dict of a response built by the server: object id ↦ value -/
abbrev Info := List (Nat × Bytes)

/-- `dict.get` -/
def lookup : Ident → Nat → Option Bytes
  | [], _ => none
  | (k', v) :: r, k => if k' = k then some v else lookup r k

/-- `identity[k]` = `self.__data.setdefault(key, '')`: a missing key is CREATED with the empty
    string (appended to the dict) and `''` is returned. -/
def getItem (d : Ident) (k : Nat) : Ident × Bytes :=
  match lookup d k with
  | some v => (d, v)
  | none => (d ++ [(k, [])], [])

/-- Abstraction of an identity: the value of object `k` (`''` when absent). -/
def val (d : Ident) (k : Nat) : Bytes := (lookup d k).getD []

/-- `range(a, b)` -/
def pyRange (a b : Nat) : List Nat := List.range' a (b - a)

/-- `DeviceInformationFactory.__get`: `{object_id: identity[object_id]}` -/
def factoryGet1 (d : Ident) (oid : Nat) : Ident × Info :=
  let r := getItem d oid
  (r.1, [(oid, r.2)])

/-- `DeviceInformationFactory.__gets`:
    `dict((oid, identity[oid]) for oid in object_ids if identity[oid])` -/
def factoryGets (d : Ident) : List Nat → Ident × Info
  | [] => (d, [])
  | oid :: r =>
    let g := getItem d oid
    let rest := factoryGets g.1 r
    (rest.1, if g.2 ≠ [] then (oid, g.2) :: rest.2 else rest.2)

/-- `[x for x in range(i, 256) if x not in range(7, 128)]` -/
def extendedIds (i : Nat) : List Nat :=
  (pyRange i 256).filter (fun x => !(decide (7 ≤ x) && decide (x < 128)))

/-- `DeviceInformationFactory.get(control, read_code, object_id)`: the `__lookup` table.
    A read code outside 1..4 is a `KeyError` (read code 0 passes the range check of `execute`). -/
def factoryGet (d : Ident) (rc oid : Nat) : PyM (Ident × Info) :=
  if rc = 1 then
    -- Basic: c.__gets(r, list(range(i, 3)))
    .ok (factoryGets d (pyRange oid 3))
  else if rc = 2 then
    -- Regular: c.__gets(r, list(range(i, 7)) if c.__get(r, i)[i] else list(range(0, 7)))
    let g := getItem d oid
    .ok (factoryGets g.1 (if g.2 ≠ [] then pyRange oid 7 else pyRange 0 7))
  else if rc = 3 then
    -- Extended: same with the ids 0..6, 0x80..0xFF
    let g := getItem d oid
    .ok (factoryGets g.1 (if g.2 ≠ [] then extendedIds oid else extendedIds 0))
  else if rc = 4 then
    -- Specific: c.__get(r, i)
    .ok (factoryGet1 d oid)
  else .error .key

/-! ## ReadDeviceInformationResponse -/

/-- The attributes of a `ReadDeviceInformationResponse` object. -/
structure Resp where
  readCode : Nat
  information : Info
  numberOfObjects : Nat := 0
  conformity : Nat := 0x83
  nextObjectId : Nat := 0
  moreFollows : Nat := 0
  /-- `None` until `encode` runs; a Python int that may go negative -/
  spaceLeft : Option Int := none
  deriving Repr, DecidableEq

/-- `ReadDeviceInformationResponse(read_code, information)`:
    `self.read_code = read_code or DeviceInformation.Basic`, `self.information = information or {}` -/
def Resp.new (rc : Nat) (info : Info) : Resp :=
  { readCode := if rc = 0 then 1 else rc, information := info }

/-- `_encode_object(object_id, data)`; `none` = `_OutOfSpaceException(object_id)` was raised.
    ```
    self.space_left -= (2 + len(data))
    if self.space_left <= 0: raise _OutOfSpaceException(object_id)
    encoded_obj = struct.pack('>BB', object_id, len(data)) + data
    self.number_of_objects += 1
    ``` -/
def encodeObject (r : Resp) (oid : Nat) (data : Bytes) : PyM (Resp × Option Bytes) :=
  let sl : Int := r.spaceLeft.getD 0 - (2 + (data.length : Int))
  let r1 := { r with spaceLeft := some sl }
  if sl ≤ 0 then .ok (r1, none)
  else do
    let a ← packB oid
    let b ← packB data.length
    .ok ({ r1 with numberOfObjects := r1.numberOfObjects + 1 }, some (a ++ b ++ data))

/-- the `for object_id, data in iteritems(self.information)` loop inside the `try`;
    third component `some oid` = the loop was left by `_OutOfSpaceException(oid)` -/
def encodeLoop (r : Resp) (objects : Bytes) : Info → PyM (Resp × Bytes × Option Nat)
  | [] => .ok (r, objects, none)
  | (oid, data) :: rest =>
    match encodeObject r oid data with
    | .error e => .error e
    | .ok (r1, none) => .ok (r1, objects, some oid)
    | .ok (r1, some enc) => encodeLoop r1 (objects ++ enc) rest

/-- the `except _OutOfSpaceException as e:` handler
    (`self.next_object_id = e.oid; self.more_follows = MoreData.KeepReading`) -/
def Resp.noteOutOfSpace (r : Resp) : Option Nat → Resp
  | some oid => { r with nextObjectId := oid, moreFollows := 0xFF }
  | none => r

/-- `packet += struct.pack('>BBB', self.more_follows, self.next_object_id, self.number_of_objects)`
    then `packet += objects` -/
def Resp.encodeTail (r : Resp) (packet objects : Bytes) : PyM (Resp × Bytes) := do
  let q0 ← packB r.moreFollows
  let q1 ← packB r.nextObjectId
  let q2 ← packB r.numberOfObjects
  .ok (r, packet ++ (q0 ++ q1 ++ q2) ++ objects)

/-- `packet = struct.pack('>BBB', self.sub_function_code, self.read_code, self.conformity)` -/
def Resp.encodeHead (r : Resp) : PyM Bytes := do
  let p0 ← packB 0x0E
  let p1 ← packB r.readCode
  let p2 ← packB r.conformity
  .ok (p0 ++ p1 ++ p2)

/-- `ReadDeviceInformationResponse.encode()`: returns the mutated object and the bytes
    (sub-function code first; the function code is prepended by the framer).
    `number_of_objects` is reset at the top (repo commit fa97bd7); `more_follows` and
    `next_object_id` are NOT reset: once set by an overflow they stay (object state). -/
def Resp.encode (r : Resp) : PyM (Resp × Bytes) :=
  match r.encodeHead with
  | .error e => .error e
  | .ok packet =>
    -- self.space_left = 253 - 6; self.number_of_objects = 0
    match encodeLoop { r with spaceLeft := some 247, numberOfObjects := 0 } [] r.information with
    | .error e => .error e
    | .ok (r1, objects, oos) => (r1.noteOutOfSpace oos).encodeTail packet objects

/-! ## ReadDeviceInformationRequest -/

/-- `ReadDeviceInformationRequest(read_code, object_id).encode()` preceded by the function code;
    the constructor does `self.read_code = read_code or DeviceInformation.Basic`. -/
def requestPdu (rc oid : Nat) : PyM Bytes := do
  let a ← packB 0x0E
  let b ← packB (if rc = 0 then 1 else rc)
  let c ← packB oid
  .ok (0x2B :: (a ++ b ++ c))

/-- `ServerDecoder().decode(pdu)` for function code 0x2B: `struct.unpack('>BBB', data[1:])`
    (exactly three bytes); whatever the MEI type byte is, the object stays a
    `ReadDeviceInformationRequest`.  Returns (sub_function_code, read_code, object_id). -/
def serverDecode : Bytes → PyM (Nat × Nat × Nat)
  | [0x2B, sub, rc, oid] => .ok (sub, rc, oid)
  | 0x2B :: _ => .error .struct
  | _ => .error .other

inductive ExecOut where
  /-- `self.doException(code)` -/
  | exception (code : Nat)
  | resp (r : Resp)
  deriving Repr, DecidableEq

/-- `ReadDeviceInformationRequest.execute` (the identity dict may gain keys) -/
def execute (d : Ident) (rc oid : Nat) : PyM (Ident × ExecOut) :=
  if ¬ (oid ≤ 255) then .ok (d, .exception excIllegalValue)
  else if ¬ (rc ≤ 4) then .ok (d, .exception excIllegalValue)
  else do
    let (d', info) ← factoryGet d rc oid
    .ok (d', .resp (Resp.new rc info))

/-! ## client side: ClientDecoder + ReadDeviceInformationResponse.decode -/

/-- decoded `information`: a value is `bytes`, or a `list` of bytes when an id occurs more than once
    (a one-element list here stands for the plain value) -/
abbrev DInfo := List (Nat × List Bytes)

/-- the three-way `if object_id not in ... / elif isinstance(list) / else` insertion -/
def dinsert : DInfo → Nat → Bytes → DInfo
  | [], k, v => [(k, [v])]
  | (k', vs) :: r, k, v => if k' = k then (k', vs ++ [v]) :: r else (k', vs) :: dinsert r k v

/-- the `while count < len(data)` loop over `data[6:]`; `struct.error` on a dangling single byte;
    the value slice `data[count-object_length:count]` clamps at the end of the data -/
def decodeObjects : Bytes → DInfo → PyM DInfo
  | [], acc => .ok acc
  | [_], _ => .error .struct
  | oid :: len :: rest, acc => decodeObjects (rest.drop len) (dinsert acc oid (rest.take len))
termination_by d => d.length
decreasing_by simp only [List.length_drop, List.length_cons]; omega

inductive ClientResp where
  /-- `ExceptionResponse`: `function_code & 0x7F`, exception code -/
  | exception (fc code : Nat)
  | info (sub readCode conformity moreFollows nextObjectId numberOfObjects : Nat) (information : DInfo)
  deriving Repr, DecidableEq

/-- `ReadDeviceInformationResponse.decode(data)` -/
def respDecode : Bytes → PyM ClientResp
  | sub :: rc :: conf :: mf :: nxt :: num :: objs => do
    let info ← decodeObjects objs []
    .ok (.info sub rc conf mf nxt num info)
  | _ => .error .struct

/-- `ClientDecoder().decode(pdu)`; it catches every exception and returns `None` -/
def clientDecode : Bytes → Option ClientResp
  | [] => none
  | fc :: rest =>
    if fc = 0x2B then (respDecode rest).toOption
    else if fc > 0x80 then
      match rest with
      | code :: _ => some (.exception (fc &&& 0x7F) code)
      | [] => none
    else none   -- other function codes are not part of this model

/-! ## one request/response exchange and the client chain -/

structure Page where
  /-- exception code when the server answered with an exception response -/
  exc : Option Nat
  /-- server-side response attributes after `encode()` -/
  moreFollows : Nat
  nextObjectId : Nat
  numberOfObjects : Nat
  /-- response PDU: function code + `encode()` -/
  pdu : Bytes
  /-- what `ClientDecoder().decode(pdu)` returns -/
  client : Option ClientResp
  deriving Repr, DecidableEq

/-- server side: decode the request PDU, execute, encode the response PDU -/
def serve (d : Ident) (req : Bytes) : PyM (Ident × Page) := do
  let (_, rc, oid) ← serverDecode req
  let (d', out) ← execute d rc oid
  match out with
  | .exception code =>
    let pdu := [0x2B ||| 0x80, code]
    .ok (d', ⟨some code, 0, 0, 0, pdu, clientDecode pdu⟩)
  | .resp r =>
    let (r', body) ← r.encode
    let pdu := 0x2B :: body
    .ok (d', ⟨none, r'.moreFollows, r'.nextObjectId, r'.numberOfObjects, pdu, clientDecode pdu⟩)

/-- one exchange: client builds the request, server answers, client decodes -/
def step (d : Ident) (rc oid : Nat) : PyM (Ident × Page) := do
  let req ← requestPdu rc oid
  serve d req

/-- what the client got on this page: (more_follows, next_object_id) -/
def Page.continuation (p : Page) : Option Nat :=
  match p.client with
  | some (.info _ _ _ mf nxt _ _) => if mf = 0xFF then some nxt else none
  | _ => none

/-- the objects the client got on this page, in order, list values flattened -/
def Page.objects (p : Page) : Info :=
  match p.client with
  | some (.info _ _ _ _ _ _ info) => info.flatMap (fun kv => kv.2.map (fun v => (kv.1, v)))
  | _ => []

/-- The client loop: keep asking for `next_object_id` while `more_follows == 0xFF`,
    at most `fuel` requests (the step cap). -/
def chain : Nat → Ident → Nat → Nat → PyM (Ident × List Page)
  | 0, d, _, _ => .ok (d, [])
  | fuel + 1, d, rc, oid =>
    match step d rc oid with
    | .error e => .error e
    | .ok (d1, p) =>
      match p.continuation with
      | none => .ok (d1, [p])
      | some nxt =>
        match chain fuel d1 rc nxt with
        | .error e => .error e
        | .ok (d2, ps) => .ok (d2, p :: ps)

end Pymodbus.DevId
