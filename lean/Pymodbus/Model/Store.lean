/-
  Model of pymodbus/datastore/store.py and pymodbus/datastore/context.py.
  Addresses are `Int` (Python ints; `address - self.address` may be negative and then
  Python's slice semantics apply).  Cell values are `Nat` (bools are 0/1).
-/
import Pymodbus.Model.Prelude
namespace Pymodbus

/-! ## ModbusSequentialDataBlock -/

structure SeqBlock where
  address : Int
  values : List Nat
  deriving Repr, DecidableEq

namespace SeqBlock
/-- `result = (self.address <= address); result &= (self.address + len(values)) >= (address + count)` -/
def validate (b : SeqBlock) (a n : Int) : Bool :=
  decide (b.address ≤ a) && decide (b.address + b.values.length ≥ a + n)

/-- `self.values[start:start+count]` -/
def get (b : SeqBlock) (a n : Int) : List Nat :=
  pySlice b.values (a - b.address) (a - b.address + n)

/-- `self.values[start:start+len(values)] = values` -/
def set (b : SeqBlock) (a : Int) (vs : List Nat) : SeqBlock :=
  { b with values := pySliceAssign b.values (a - b.address) (a - b.address + vs.length) vs }

/-- `self.values = [self.default_value] * len(self.values)` (default is `0`/`False`) -/
def reset (b : SeqBlock) : SeqBlock := { b with values := List.replicate b.values.length 0 }

/-- `list(block)` = `enumerate(values, address)` -/
def dump (b : SeqBlock) : List (Int × Nat) :=
  (List.range b.values.length).zipWith (fun (k : Nat) v => (b.address + Int.ofNat k, v)) b.values
end SeqBlock

/-! ## ModbusSparseDataBlock (a Python dict: insertion-ordered association list) -/

def dictGet (d : List (Int × Nat)) (k : Int) : Option Nat :=
  match d with
  | [] => none
  | (k', v) :: r => if k' = k then some v else dictGet r k

def dictSet (d : List (Int × Nat)) (k : Int) (v : Nat) : List (Int × Nat) :=
  match d with
  | [] => [(k, v)]
  | (k', v') :: r => if k' = k then (k', v) :: r else (k', v') :: dictSet r k v

structure SparseBlock where
  items : List (Int × Nat)
  deriving Repr, DecidableEq

namespace SparseBlock
def validateFrom (d : List (Int × Nat)) (a : Int) : Nat → Bool
  | 0 => true
  | n + 1 => (dictGet d a).isSome && validateFrom d (a + 1) n

/-- `if count == 0: return False; set(range(a, a+count)).issubset(keys)` -/
def validate (b : SparseBlock) (a n : Int) : Bool :=
  if n = 0 then false else validateFrom b.items a n.toNat

def getFrom (d : List (Int × Nat)) (a : Int) : Nat → PyM (List Nat)
  | 0 => .ok []
  | n + 1 =>
    match dictGet d a with
    | none => .error .key
    | some v =>
      match getFrom d (a + 1) n with
      | .error e => .error e
      | .ok vs => .ok (v :: vs)

/-- `[self.values[i] for i in range(address, address + count)]` (`KeyError` on a hole) -/
def get (b : SparseBlock) (a n : Int) : PyM (List Nat) := getFrom b.items a n.toNat

def setFrom (d : List (Int × Nat)) (a : Int) : List Nat → List (Int × Nat)
  | [] => d
  | v :: vs => setFrom (dictSet d a v) (a + 1) vs

/-- `for idx, val in enumerate(values): self.values[address + idx] = val` -/
def set (b : SparseBlock) (a : Int) (vs : List Nat) : SparseBlock :=
  ⟨setFrom b.items a vs⟩

/-- every populated cell back to the default value, key set unchanged -/
def reset (b : SparseBlock) : SparseBlock := ⟨b.items.map (fun kv => (kv.1, 0))⟩

def dump (b : SparseBlock) : List (Int × Nat) := b.items
end SparseBlock

/-! ## a block of either kind -/

inductive Block where
  | seq (b : SeqBlock)
  | sparse (b : SparseBlock)
  deriving Repr, DecidableEq

namespace Block
def validate : Block → Int → Int → Bool
  | .seq b, a, n => b.validate a n
  | .sparse b, a, n => b.validate a n
def get : Block → Int → Int → PyM (List Nat)
  | .seq b, a, n => .ok (b.get a n)
  | .sparse b, a, n => b.get a n
def set : Block → Int → List Nat → Block
  | .seq b, a, vs => .seq (b.set a vs)
  | .sparse b, a, vs => .sparse (b.set a vs)
def reset : Block → Block
  | .seq b => .seq b.reset
  | .sparse b => .sparse b.reset
def dump : Block → List (Int × Nat)
  | .seq b => b.dump
  | .sparse b => b.dump

/-- Abstraction: the partial map address ↦ value a block stands for. -/
def cell : Block → Int → Option Nat
  | .seq b, i =>
      if b.address ≤ i ∧ i < b.address + b.values.length then b.values[(i - b.address).toNat]? else none
  | .sparse b, i => dictGet b.items i
end Block

/-! ## ModbusSlaveContext -/

inductive Table where | d | c | i | h
  deriving DecidableEq, Repr

/-- `IModbusSlaveContext.__fx_mapper` -/
def fxTable (fx : Nat) : Option Table :=
  if fx = 2 then some .d
  else if fx = 4 then some .i
  else if fx = 3 ∨ fx = 6 ∨ fx = 16 ∨ fx = 22 ∨ fx = 23 then some .h
  else if fx = 1 ∨ fx = 5 ∨ fx = 15 then some .c
  else none

/-- Four tables over a pool of block objects; two tables may name the same block (aliasing). -/
structure SlaveCtx where
  blocks : List Block
  d : Nat
  c : Nat
  i : Nat
  h : Nat
  zeroMode : Bool
  deriving Repr, DecidableEq

namespace SlaveCtx
def idx (s : SlaveCtx) : Table → Nat
  | .d => s.d | .c => s.c | .i => s.i | .h => s.h

def Inv (s : SlaveCtx) : Prop :=
  s.d < s.blocks.length ∧ s.c < s.blocks.length ∧ s.i < s.blocks.length ∧ s.h < s.blocks.length

instance (s : SlaveCtx) : Decidable s.Inv := by unfold Inv; exact inferInstance

/-- `if not self.zero_mode: address = address + 1` -/
def off (s : SlaveCtx) (a : Int) : Int := a + (bif s.zeroMode then 0 else 1)

def blockOf (s : SlaveCtx) (fx : Nat) : PyM (Nat × Block) :=
  match fxTable fx with
  | none => .error .key
  | some t => match s.blocks[s.idx t]? with
    | none => .error .other
    | some b => .ok (s.idx t, b)

def validate (s : SlaveCtx) (fx : Nat) (a n : Int) : PyM Bool := do
  let (_, b) ← s.blockOf fx
  pure (b.validate (s.off a) n)

def getValues (s : SlaveCtx) (fx : Nat) (a n : Int) : PyM (List Nat) := do
  let (_, b) ← s.blockOf fx
  b.get (s.off a) n

def setValues (s : SlaveCtx) (fx : Nat) (a : Int) (vs : List Nat) : PyM SlaveCtx := do
  let (k, b) ← s.blockOf fx
  pure { s with blocks := s.blocks.set k (b.set (s.off a) vs) }

/-- `for datastore in self.store.values(): datastore.reset()` — only the blocks some table names
    (a block named twice is reset twice, which is the same as once) -/
def reset (s : SlaveCtx) : SlaveCtx :=
  let bs := List.zipWith
      (fun (k : Nat) (b : Block) => if k = s.d ∨ k = s.c ∨ k = s.i ∨ k = s.h then b.reset else b)
      (List.range s.blocks.length) s.blocks
  { s with blocks := bs }

def dump (s : SlaveCtx) : List (List (Int × Nat)) := s.blocks.map Block.dump
end SlaveCtx

/-! ## ModbusServerContext -/

structure ServerCtx (σ : Type) where
  single : Bool
  slaves : List (Int × σ)

namespace ServerCtx
variable {σ : Type}

def lookup (l : List (Int × σ)) (k : Int) : Option σ :=
  match l with
  | [] => none
  | (k', v) :: r => if k' = k then some v else lookup r k

def insert (l : List (Int × σ)) (k : Int) (v : σ) : List (Int × σ) :=
  match l with
  | [] => [(k, v)]
  | (k', v') :: r => if k' = k then (k', v) :: r else (k', v') :: insert r k v

def erase (l : List (Int × σ)) (k : Int) : List (Int × σ) :=
  match l with
  | [] => []
  | (k', v') :: r => if k' = k then r else (k', v') :: erase r k

/-- `ModbusServerContext(slaves, single)`: in single mode the argument is the one context -/
def mkSingle (c : σ) : ServerCtx σ := ⟨true, [(0, c)]⟩
def mkMulti (l : List (Int × σ)) : ServerCtx σ := ⟨false, l⟩

/-- `__getitem__` -/
def getItem (s : ServerCtx σ) (u : Int) : PyM σ :=
  let k := if s.single then 0 else u
  match lookup s.slaves k with
  | some c => .ok c
  | none => .error .noSlave

/-- `__contains__` -/
def contains (s : ServerCtx σ) (u : Int) : Bool :=
  if s.single && !s.slaves.isEmpty then true else (lookup s.slaves u).isSome

/-- `__setitem__` -/
def setItem (s : ServerCtx σ) (u : Int) (c : σ) : PyM (ServerCtx σ) :=
  let k := if s.single then 0 else u
  if 0 ≤ k ∧ k ≤ 247 then .ok { s with slaves := insert s.slaves k c } else .error .noSlave

/-- `__delitem__` -/
def delItem (s : ServerCtx σ) (u : Int) : PyM (ServerCtx σ) :=
  if !s.single ∧ 0 ≤ u ∧ u ≤ 247 then
    match lookup s.slaves u with
    | some _ => .ok { s with slaves := erase s.slaves u }
    | none => .error .key
  else .error .noSlave

def slaveIds (s : ServerCtx σ) : List Int := s.slaves.map (·.1)
end ServerCtx

end Pymodbus
