/-
  Message objects: one constructor per pymodbus message class, fields = the Python attributes that
  influence behaviour.  Bits are `Bool` in requests decoded from the wire and raw cell values
  (`Nat`, truthiness = `≠ 0`) in responses built from the datastore.
-/
import Pymodbus.Model.Prelude
namespace Pymodbus

/-- `FileRecord` (file_message.py) -/
structure FileRec where
  referenceType : Nat := 6
  fileNumber : Nat := 0
  recordNumber : Nat := 0
  recordData : Bytes := []
  recordLength : Nat := 0
  responseLength : Nat := 0
  deriving Repr, DecidableEq

/-- The `message` attribute of a diagnostic PDU is `None | int | list | tuple | bytes`. -/
inductive DiagMsg where
  | none
  | int (n : Nat)
  | list (ws : List Nat)
  | tuple (ws : List Nat)
  | bytes (bs : Bytes)
  deriving Repr, DecidableEq

inductive Req where
  | readCoils (address count : Nat)
  | readDiscrete (address count : Nat)
  | readHolding (address count : Nat)
  | readInput (address count : Nat)
  /-- `word` is the value word as it was on the wire (`0xFF00`/`0x0000` for a constructed request);
      the Python attribute `value` is `word == 0xFF00`. -/
  | writeCoil (address word : Nat)
  | writeRegister (address value : Nat)
  | writeCoils (address count byteCount : Nat) (values : List Bool)
  | writeRegisters (address count byteCount : Nat) (values : List Nat)
  | maskWrite (address andMask orMask : Nat)
  | readWrite (readAddress readCount writeAddress writeCount writeByteCount : Nat)
      (writeRegisters : List Nat)
  | diag (sub : Nat) (message : DiagMsg)
  | readExceptionStatus
  | getCommEventCounter
  | getCommEventLog
  | reportSlaveId
  | readFileRecord (records : List FileRec)
  | writeFileRecord (records : List FileRec)
  | readFifo (address : Nat)
  | readDeviceInfo (sub readCode objectId : Nat)
  | illegalFunction (fc : Nat)
  deriving Repr, DecidableEq

def Req.fc : Req → Nat
  | .readCoils .. => 1 | .readDiscrete .. => 2 | .readHolding .. => 3 | .readInput .. => 4
  | .writeCoil .. => 5 | .writeRegister .. => 6 | .writeCoils .. => 15 | .writeRegisters .. => 16
  | .maskWrite .. => 22 | .readWrite .. => 23 | .diag .. => 8 | .readExceptionStatus => 7
  | .getCommEventCounter => 11 | .getCommEventLog => 12 | .reportSlaveId => 17
  | .readFileRecord .. => 20 | .writeFileRecord .. => 21 | .readFifo .. => 24
  | .readDeviceInfo .. => 43 | .illegalFunction fc => fc

inductive Resp where
  | readCoils (bits : List Nat)
  | readDiscrete (bits : List Nat)
  | readHolding (registers : List Nat)
  | readInput (registers : List Nat)
  | writeCoil (address value : Nat)
  | writeRegister (address value : Nat)
  | writeCoils (address count : Nat)
  | writeRegisters (address count : Nat)
  | maskWrite (address andMask orMask : Nat)
  | readWrite (registers : List Nat)
  | diag (sub : Nat) (message : DiagMsg)
  | readExceptionStatus (status : Nat)
  | getCommEventCounter (status : Bool) (count : Nat)
  | getCommEventLog (status : Bool) (eventCount messageCount : Nat) (events : List Nat)
  | reportSlaveId (identifier : Bytes) (status : Bool)
  | readFileRecord (records : List FileRec)
  | writeFileRecord (records : List FileRec)
  | readFifo (values : List Nat)
  | readDeviceInfo (readCode conformity moreFollows nextObjectId numberOfObjects : Nat)
      (information : List (Nat × List Bytes))
  /-- `ExceptionResponse(original_code, exception_code)`; its `function_code` is `fc ||| 0x80` -/
  | exception (fc code : Nat)
  deriving Repr, DecidableEq

def Resp.fc : Resp → Nat
  | .readCoils .. => 1 | .readDiscrete .. => 2 | .readHolding .. => 3 | .readInput .. => 4
  | .writeCoil .. => 5 | .writeRegister .. => 6 | .writeCoils .. => 15 | .writeRegisters .. => 16
  | .maskWrite .. => 22 | .readWrite .. => 23 | .diag .. => 8 | .readExceptionStatus .. => 7
  | .getCommEventCounter .. => 11 | .getCommEventLog .. => 12 | .reportSlaveId .. => 17
  | .readFileRecord .. => 20 | .writeFileRecord .. => 21 | .readFifo .. => 24
  | .readDeviceInfo .. => 43 | .exception fc _ => fc ||| 0x80

def Resp.isException : Resp → Bool
  | .exception .. => true
  | _ => false

/-- Modbus exception codes (`ModbusExceptions`) -/
def excIllegalFunction := 1
def excIllegalAddress := 2
def excIllegalValue := 3
def excSlaveFailure := 4
def excGatewayPathUnavailable := 10
def excGatewayNoResponse := 11

end Pymodbus
