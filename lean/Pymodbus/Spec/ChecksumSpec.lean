/-
  Specification side of the checksum theory (used by C03 and C07).
  Written from the Modbus serial-line specification, not from the code:

  * CRC-16/MODBUS, bit-serial, reflected: register initialised to 0xFFFF; for every byte
    `crc ^= byte`, then 8 times: shift right one bit, and if the bit shifted out was 1,
    XOR the polynomial 0xA001.  On the wire the low byte of the register goes first.
  * LRC: the two's complement (modulo 256) of the sum of the message bytes.

  Also the vocabulary in which the error-detection theorems are stated (error patterns, bit
  positions, weights).  Core Lean only (the driver evaluates this file).
-/
import Pymodbus.Model.Prelude
namespace Pymodbus.Spec

/-- one shift step of the reflected CRC-16 register (polynomial 0xA001) -/
def crcBit (x : Nat) : Nat := if x % 2 = 1 then (x / 2) ^^^ 0xA001 else x / 2

/-- `k` shift steps -/
def crcBits : Nat → Nat → Nat
  | 0, x => x
  | k + 1, x => crcBits k (crcBit x)

/-- one message byte: XOR it into the low byte of the register, then 8 shift steps -/
def crcByte (crc b : Nat) : Nat := crcBits 8 (crc ^^^ b)

/-- the register after processing `bs`, starting from `init` -/
def crcReg (init : Nat) (bs : Bytes) : Nat := bs.foldl crcByte init

/-- CRC-16/MODBUS register value of a message -/
def crc16 (bs : Bytes) : Nat := crcReg 0xFFFF bs

/-- exchange the two bytes of a 16-bit word -/
def swap16 (x : Nat) : Nat := (x % 256) * 256 + (x / 256) % 256

/-- the two CRC bytes as they go on the wire: low byte first -/
def crcWire (bs : Bytes) : Bytes := [crc16 bs % 256, crc16 bs / 256]

/-- LRC: two's complement of the byte sum -/
def lrc (bs : Bytes) : Nat := (256 - bs.sum % 256) % 256

/-! ### Vocabulary for error patterns -/

/-- bytewise XOR of a message with an error pattern -/
def xorBytes (a e : Bytes) : Bytes := List.zipWith (· ^^^ ·) a e

/-- bit `t` of a byte string in transmission order: byte `t / 8`, bit `t % 8`
    (least significant bit of every byte first, as on a serial line; this is also the
    order in which the CRC register consumes the bits) -/
def bitAt (e : Bytes) (t : Nat) : Bool := (e.getD (t / 8) 0).testBit (t % 8)

/-- the error pattern of length `n` bytes with exactly bit `t` set -/
def bitErr (n t : Nat) : Bytes :=
  (List.range n).map (fun k => if k = t / 8 then 2 ^ (t % 8) else 0)

/-- flip bit `t` of a message -/
def flipBit (a : Bytes) (t : Nat) : Bytes := xorBytes a (bitErr a.length t)

/-- number of 1 bits of a natural number -/
def popcount (n : Nat) : Nat :=
  if h : n = 0 then 0 else n % 2 + popcount (n / 2)
decreasing_by omega

/-- number of 1 bits of an error pattern -/
def weight (e : Bytes) : Nat := (e.map popcount).sum

end Pymodbus.Spec
