/-
  C16 — what the property demands of an asynchronous client connection, stated on what can be observed
  from outside: the history of operations applied to the protocol object and, for each operation, the events
  it caused (frames written with their transaction id, deferreds fired with a reply, deferreds failed with a
  connection error, exceptions escaping).

  Nothing here refers to the transaction table of the implementation: "outstanding" is defined from the trace
  (written and not yet fired).  Every predicate is decidable, so the driver evaluates the same definitions on
  the trace of the REAL client, and Props/C16.lean proves them for every history of the model.

  Property text: "With any number of requests outstanding on one asynchronous client connection, each
  returned deferred fires exactly once, with the reply whose transaction id is the one that was sent for it,
  whatever order the replies arrive in.  Outstanding requests always carry distinct 16-bit transaction ids;
  unsolicited or duplicate replies are dropped without disturbing pending requests; and when the connection
  is lost every pending deferred fails with a connection error, as does any request issued after the loss."

  Core Lean only.
-/
import Pymodbus.Model.AsyncClient
namespace Pymodbus.AsyncClient.Spec
open Pymodbus.AsyncClient

/-- an observed history: each operation with the events it caused -/
abbrev Hist := List (Op × List Event)

def flat : Hist → List Event
  | [] => []
  | (_, es) :: h => es ++ flat h

/-- (request, tid) of the requests written so far whose deferred has not fired yet, oldest first -/
def outstanding (evs : List Event) : List (Nat × Nat) :=
  (sents evs).filter (fun p => !(fired evs).contains p.1)

/-! ### predicates on the whole trace -/

/-- no deferred gets two events -/
def AtMostOnce (evs : List Event) : Prop := (fired evs).Nodup

/-- every request is written once (so "the tid sent for request i" is well defined) -/
def SentOnce (evs : List Event) : Prop := ((sents evs).map (·.1)).Nodup

/-- TCP: the reply delivered to a deferred carries the transaction id that was written for its request -/
def TidMatch (evs : List Event) : Prop := ∀ c ∈ cbs evs, (c.1, c.2.1) ∈ sents evs

/-- serial: requests are taken out of the table (answered, or failed by a connection loss) in the order in
    which they were issued -/
def FifoOrder (evs : List Event) : Prop := (served evs).Pairwise (· < ·)

def NoExc (evs : List Event) : Prop := ∀ e ∈ evs, e.isExc = false

/-- outstanding requests carry pairwise distinct transaction ids -/
def Distinct (evs : List Event) : Prop := ((outstanding evs).map (·.2)).Nodup

/-- fewer than 65536 requests are outstanding: there is a free 16-bit transaction id (the only side condition of
    the clauses that need distinct ids) -/
def Room (evs : List Event) : Prop := (outstanding evs).length < 65536

/-! ### predicates on one operation, given the trace before it (`pre`) and the connection status -/

/-- the connection status as the operations dictate it -/
def connAfter (conn : Bool) : Op → Bool
  | .connectionMade => true
  | .connectionLost => false
  | .close _ => false          -- a local `close()` counts as the connection being down from then on
  | _ => conn

/-- only the arrival of a reply delivers something, at most one delivery, and it is that reply -/
def Arrived (op : Op) (es : List Event) : Prop :=
  match op with
  | .reply t tag => (cbs es).length ≤ 1 ∧ ∀ c ∈ cbs es, c.2.1 = t ∧ c.2.2 = tag
  | _ => cbs es = []

/-- is a reply with transaction id `t` awaited?  (TCP: some outstanding request carries `t`;
    serial: something is outstanding) -/
def Solicited (v : Variant) (pre : List Event) (t : Nat) : Prop :=
  match v with
  | .dict => t ∈ (outstanding pre).map (·.2)
  | .fifo => outstanding pre ≠ []

/-- an unsolicited (or duplicate) reply causes nothing -/
def Unsolicited (v : Variant) (pre : List Event) (op : Op) (es : List Event) : Prop :=
  match op with
  | .reply t _ => ¬ Solicited v pre t → es = []
  | _ => True

/-- a solicited reply fires the deferred it is for (TCP: every outstanding request with that tid – there is
    exactly one when `Distinct` holds; serial: the oldest outstanding request) -/
def Delivered (v : Variant) (pre : List Event) (op : Op) (es : List Event) : Prop :=
  match op with
  | .reply t tag =>
    match v with
    | .dict => ∀ p ∈ outstanding pre, p.2 = t → Event.callback p.1 t tag ∈ es
    | .fifo => ∀ p ∈ (outstanding pre).head?, Event.callback p.1 t tag ∈ es
  | _ => True

/-- on connection loss every outstanding deferred fails with the connection error -/
def LostFails (pre : List Event) (op : Op) (es : List Event) : Prop :=
  match op with
  | .connectionLost => ∀ p ∈ outstanding pre, Event.errback p.1 .lost ∈ es
  | _ => True

/-- is the connection down while this operation runs?  (`connectionLost` itself counts: what the application
    issues from inside it is issued after the loss) -/
def down (conn : Bool) : Op → Bool
  | .connectionLost => true
  | .connectionMade => false
  | _ => !conn

/-- every request issued while the connection is down fails with the connection error -/
def FailsWhenDown (conn : Bool) (op : Op) (es : List Event) : Prop :=
  down conn op = true → ∀ p ∈ sents es, Event.errback p.1 .notConnected ∈ es

instance (evs : List Event) : Decidable (AtMostOnce evs) := by unfold AtMostOnce; exact inferInstance
instance (evs : List Event) : Decidable (SentOnce evs) := by unfold SentOnce; exact inferInstance
instance (evs : List Event) : Decidable (TidMatch evs) := by unfold TidMatch; exact inferInstance
instance (evs : List Event) : Decidable (FifoOrder evs) := by unfold FifoOrder; exact inferInstance
instance (evs : List Event) : Decidable (NoExc evs) := by unfold NoExc; exact inferInstance
instance (evs : List Event) : Decidable (Distinct evs) := by unfold Distinct; exact inferInstance
instance (evs : List Event) : Decidable (Room evs) := by unfold Room; exact inferInstance
instance (op : Op) (es : List Event) : Decidable (Arrived op es) := by
  unfold Arrived; split <;> exact inferInstance
instance (v : Variant) (pre : List Event) (t : Nat) : Decidable (Solicited v pre t) := by
  unfold Solicited; split <;> exact inferInstance
instance (v : Variant) (pre : List Event) (op : Op) (es : List Event) : Decidable (Unsolicited v pre op es) := by
  unfold Unsolicited; split <;> exact inferInstance
instance (v : Variant) (pre : List Event) (op : Op) (es : List Event) : Decidable (Delivered v pre op es) := by
  unfold Delivered; split
  · split <;> exact inferInstance
  · exact inferInstance
instance (pre : List Event) (op : Op) (es : List Event) : Decidable (LostFails pre op es) := by
  unfold LostFails; split <;> exact inferInstance
instance (conn : Bool) (op : Op) (es : List Event) : Decidable (FailsWhenDown conn op es) := by
  unfold FailsWhenDown; exact inferInstance

/-- `P pre conn op es` holds for every operation of the history, `pre` being the trace before the operation
    and `conn` the connection status before it -/
def AllSegs (P : List Event → Bool → Op → List Event → Prop) : List Event → Bool → Hist → Prop
  | _, _, [] => True
  | pre, conn, (op, es) :: h => P pre conn op es ∧ AllSegs P (pre ++ es) (connAfter conn op) h

instance (P : List Event → Bool → Op → List Event → Prop) [hd : ∀ a b c d, Decidable (P a b c d)] :
    ∀ pre conn h, Decidable (AllSegs P pre conn h)
  | _, _, [] => isTrue trivial
  | pre, conn, (op, es) :: h =>
    have := instDecidableAllSegs P (pre ++ es) (connAfter conn op) h
    by unfold AllSegs; exact inferInstance

/-- `Room` before every operation of the history -/
def RoomAll (h : Hist) : Prop := AllSegs (fun pre _ _ _ => Room pre) [] false h

instance (h : Hist) : Decidable (RoomAll h) := by unfold RoomAll; exact inferInstance

/-- The clauses of the property that hold for every history. -/
structure Always (v : Variant) (h : Hist) : Prop where
  atMostOnce : AtMostOnce (flat h)
  sentOnce : SentOnce (flat h)
  tidMatch : v = .dict → TidMatch (flat h)
  fifoOrder : v = .fifo → FifoOrder (flat h)
  arrived : AllSegs (fun _ _ op es => Arrived op es) [] false h
  unsolicited : AllSegs (fun pre _ op es => Unsolicited v pre op es) [] false h
  failsWhenDown : AllSegs (fun _ conn op es => FailsWhenDown conn op es) [] false h
  noExc : NoExc (flat h)

/-- The clauses that need distinct transaction ids among the outstanding requests (the ids themselves are
    only on the wire for TCP, so distinctness is demanded there only). -/
structure NeedsDistinct (v : Variant) (h : Hist) : Prop where
  distinct : v = .dict → AllSegs (fun pre _ _ _ => Distinct pre) [] false h
  delivered : AllSegs (fun pre _ op es => Delivered v pre op es) [] false h
  lostFails : AllSegs (fun pre _ op es => LostFails pre op es) [] false h

/-- C16 for one observed history -/
def Holds (v : Variant) (h : Hist) : Prop := Always v h ∧ NeedsDistinct v h

/-- the verdicts as booleans, for the driver -/
structure Verdict where
  atMostOnce : Bool
  sentOnce : Bool
  tidMatch : Bool
  fifoOrder : Bool
  arrived : Bool
  unsolicited : Bool
  failsWhenDown : Bool
  noExc : Bool
  distinct : Bool
  delivered : Bool
  lostFails : Bool
  room : Bool

def verdict (v : Variant) (h : Hist) : Verdict :=
  let evs := flat h
  { atMostOnce := decide (AtMostOnce evs)
    sentOnce := decide (SentOnce evs)
    tidMatch := decide (TidMatch evs)
    fifoOrder := decide (FifoOrder evs)
    arrived := decide (AllSegs (fun _ _ op es => Arrived op es) [] false h)
    unsolicited := decide (AllSegs (fun pre _ op es => Unsolicited v pre op es) [] false h)
    failsWhenDown := decide (AllSegs (fun _ conn op es => FailsWhenDown conn op es) [] false h)
    noExc := decide (NoExc evs)
    distinct := decide (AllSegs (fun pre _ _ _ => Distinct pre) [] false h)
    delivered := decide (AllSegs (fun pre _ op es => Delivered v pre op es) [] false h)
    lostFails := decide (AllSegs (fun pre _ op es => LostFails pre op es) [] false h)
    room := decide (RoomAll h) }

end Pymodbus.AsyncClient.Spec
