/-
  The application data units of the four Modbus transports as the specifications define them
  (MODBUS Messaging on TCP/IP v1.0b §3.1.3; MODBUS over Serial Line v1.02 §2.3.2 (RTU), §2.5.1 (ASCII)), plus
  the library's TLS (bare PDU) and "binary" ('{' … CRC '}') framings as documented in their docstrings.
-/
import Pymodbus.Spec.ChecksumSpec
namespace Pymodbus.AduSpec
open Pymodbus

def u16 (n : Nat) : Bytes := [n / 256, n % 256]

/-- MBAP header: transaction id, protocol id, length = unit id + PDU, unit id; then the PDU -/
def mbap (tid pid uid : Nat) (pdu : Bytes) : Bytes := u16 tid ++ u16 pid ++ u16 (pdu.length + 1) ++ [uid] ++ pdu

/-- RTU: address, PDU, CRC-16 low byte first -/
def rtu (uid : Nat) (pdu : Bytes) : Bytes := [uid] ++ pdu ++ Spec.crcWire ([uid] ++ pdu)

def hexDigit (n : Nat) : Nat := if n < 10 then 48 + n else 55 + n      -- '0'..'9', 'A'..'F'
def hex (bs : Bytes) : Bytes := bs.flatMap (fun b => [hexDigit (b / 16), hexDigit (b % 16)])

/-- ASCII: ':' + upper-case hex of (address, PDU, LRC) + CR LF, LRC over address and PDU -/
def ascii (uid : Nat) (pdu : Bytes) : Bytes := [58] ++ hex ([uid] ++ pdu ++ [Spec.lrc ([uid] ++ pdu)]) ++ [13, 10]

/-- TLS: the bare PDU -/
def tls (pdu : Bytes) : Bytes := pdu

/-- binary: '{' + address + PDU + CRC-16 (as RTU) + '}' (frames whose bytes contain no delimiter) -/
def binary (uid : Nat) (pdu : Bytes) : Bytes := [0x7B] ++ [uid] ++ pdu ++ Spec.crcWire ([uid] ++ pdu) ++ [0x7D]

end Pymodbus.AduSpec
