/-
  The Modbus Application Protocol v1.1b3 PDU formats (§6.1–6.21, §7), transcribed from the
  specification: for each message the bytes that follow the function code.  Total functions over
  well-formed messages; written independently of the code under test.
-/
import Pymodbus.Model.Pdu
namespace Pymodbus.PduSpec
open Pymodbus

/-- 16-bit big-endian -/
def u16 (n : Nat) : Bytes := [n / 256, n % 256]
def u16s (vs : List Nat) : Bytes := vs.flatMap u16

/-- value of up to 8 bits, least significant first -/
def byteOfBits : List Bool → Nat
  | [] => 0
  | b :: bs => (if b then 1 else 0) + 2 * byteOfBits bs

/-- LSB-first packing, 8 per byte, last byte zero-padded (§6.1) -/
def packBits (bits : List Bool) : Bytes :=
  if h : bits = [] then [] else
    byteOfBits (bits.take 8) :: packBits (bits.drop 8)
termination_by bits.length
decreasing_by
  cases bits with
  | nil => exact absurd rfl h
  | cons b bs => simp [List.length_drop]; omega

def nbytes (nbits : Nat) : Nat := (nbits + 7) / 8

def fileSubReq (r : FileRec) : Bytes := [6] ++ u16 r.fileNumber ++ u16 r.recordNumber ++ u16 r.recordLength
def fileSubWrite (r : FileRec) : Bytes := fileSubReq r ++ r.recordData

def sum (l : List Nat) : Nat := l.foldr (· + ·) 0

/-- request PDU body (after the function code) -/
def encReq : Req → Bytes
  | .readCoils a n | .readDiscrete a n | .readHolding a n | .readInput a n => u16 a ++ u16 n
  | .writeCoil a w => u16 a ++ u16 w
  | .writeRegister a v => u16 a ++ u16 v
  | .writeCoils a cnt bc vs => u16 a ++ u16 cnt ++ [bc] ++ packBits vs
  | .writeRegisters a cnt bc vs => u16 a ++ u16 cnt ++ [bc] ++ u16s vs
  | .maskWrite a am om => u16 a ++ u16 am ++ u16 om
  | .readWrite ra rn wa wn wbc ws => u16 ra ++ u16 rn ++ u16 wa ++ u16 wn ++ [wbc] ++ u16s ws
  | .diag sub (.list ws) => u16 sub ++ u16s ws
  | .diag sub (.int n) => u16 sub ++ u16 n
  | .diag sub (.bytes bs) => u16 sub ++ bs
  | .diag sub _ => u16 sub
  | .readExceptionStatus | .getCommEventCounter | .getCommEventLog | .reportSlaveId => []
  | .readFileRecord rs => [7 * rs.length] ++ rs.flatMap fileSubReq
  | .writeFileRecord rs => [sum (rs.map (fun r => 7 + r.recordData.length))] ++ rs.flatMap fileSubWrite
  | .readFifo a => u16 a
  | .readDeviceInfo sub rc oid => [sub, rc, oid]
  | .illegalFunction _ => []

def truthy (n : Nat) : Bool := n != 0

/-- response PDU body (after the function code) -/
def encResp : Resp → Bytes
  | .readCoils bits | .readDiscrete bits => [nbytes bits.length] ++ packBits (bits.map truthy)
  | .readHolding regs | .readInput regs | .readWrite regs => [2 * regs.length] ++ u16s regs
  | .writeCoil a v => u16 a ++ (if truthy v then [0xFF, 0x00] else [0x00, 0x00])
  | .writeRegister a v => u16 a ++ u16 v
  | .writeCoils a n | .writeRegisters a n => u16 a ++ u16 n
  | .maskWrite a am om => u16 a ++ u16 am ++ u16 om
  | .diag sub (.list ws) => u16 sub ++ u16s ws
  | .diag sub (.int n) => u16 sub ++ u16 n
  | .diag sub (.bytes bs) => u16 sub ++ bs
  | .diag sub _ => u16 sub
  | .readExceptionStatus st => [st]
  | .getCommEventCounter st c => u16 (if st then 0 else 0xFFFF) ++ u16 c
  | .getCommEventLog st ec mc evs => [6 + evs.length] ++ u16 (if st then 0 else 0xFFFF) ++ u16 ec ++ u16 mc ++ evs
  | .reportSlaveId ident st => [ident.length + 1] ++ ident ++ [if st then 0xFF else 0x00]
  /- §6.14: per sub-response: file resp. length (1 + 2·N), reference type 6, N registers of data -/
  | .readFileRecord rs =>
      [sum (rs.map (fun r => 2 + r.recordData.length))] ++
        rs.flatMap (fun r => [1 + r.recordData.length, 6] ++ r.recordData)
  | .writeFileRecord rs => [sum (rs.map (fun r => 7 + r.recordData.length))] ++ rs.flatMap fileSubWrite
  /- §6.18: byte count (2 + 2N), FIFO count N, N values -/
  | .readFifo vs => u16 (2 + 2 * vs.length) ++ u16 vs.length ++ u16s vs
  | .readDeviceInfo rc conf mf nxt num info =>
      [0x0E, rc, conf, mf, nxt, num] ++
        info.flatMap (fun kv => kv.2.flatMap (fun v => [kv.1, v.length] ++ v))
  /- §7: function code | 0x80 (carried by `Resp.fc`), then the exception code -/
  | .exception _ code => [code]

/-! ### well-formedness: the values a conformant peer can put on the wire -/

def U16 (n : Nat) : Prop := n < 65536
def U8 (n : Nat) : Prop := n < 256
def AllU16 (l : List Nat) : Prop := ∀ v ∈ l, v < 65536
def AllU8 (l : List Nat) : Prop := ∀ v ∈ l, v < 256

def WFReq : Req → Prop
  | .readCoils a n | .readDiscrete a n | .readHolding a n | .readInput a n => U16 a ∧ U16 n
  | .writeCoil a w => U16 a ∧ (w = 0xFF00 ∨ w = 0)
  | .writeRegister a v => U16 a ∧ U16 v
  | .writeCoils a cnt bc vs => U16 a ∧ cnt = vs.length ∧ bc = nbytes vs.length ∧ bc < 256
  | .writeRegisters a cnt bc vs => U16 a ∧ cnt = vs.length ∧ bc = 2 * vs.length ∧ bc < 256 ∧ AllU16 vs
  | .maskWrite a am om => U16 a ∧ U16 am ∧ U16 om
  | .readWrite ra rn wa wn wbc ws =>
      U16 ra ∧ U16 rn ∧ U16 wa ∧ wn = ws.length ∧ wbc = 2 * ws.length ∧ wbc < 256 ∧ AllU16 ws
  | .diag sub (.list ws) => U16 sub ∧ AllU16 ws
  | .diag sub (.int n) => U16 sub ∧ U16 n
  | .diag sub (.bytes bs) => U16 sub ∧ AllU8 bs
  | .diag sub _ => U16 sub
  | .readFifo a => U16 a
  | .readDeviceInfo sub rc oid => sub = 0x0E ∧ U8 rc ∧ U8 oid
  | _ => True

/-! ### what a decoder must deliver for a conformant PDU ("fields equal up to zero padding") -/

def b2n (b : Bool) : Nat := if b then 1 else 0

/-- pad a bit list with zeros to a whole number of bytes -/
def padBits (bits : List Nat) : List Nat := bits ++ List.replicate (8 * nbytes bits.length - bits.length) 0

def normResp : Resp → Resp
  | .readCoils bits => .readCoils (padBits (bits.map (fun v => b2n (truthy v))))
  | .readDiscrete bits => .readDiscrete (padBits (bits.map (fun v => b2n (truthy v))))
  | .writeCoil a v => .writeCoil a (b2n (truthy v))
  | .diag sub (.int n) => .diag sub (.list [n])
  | r => r

def normReq : Req → Req
  | .diag sub (.list [n]) => .diag sub (.int n)
  | r => r

end Pymodbus.PduSpec
