/-
  What C08 / C13 demand of one synchronous client call, written from the property text (not from the code).
  C08: a returned reply answers the request — same transaction id on the TCP (MBAP) framing, same unit id on
  the serial framings (unit 0 / 255 = "any unit" by Modbus convention: broadcast address / TCP direct), and the
  request's function code or that code with the exception flag 0x80.
  C13: at most `1 + retries` transmissions per call; the call ends with a reply or an error object.
-/
import Pymodbus.Model.Pdu
namespace Pymodbus
namespace TxnSpec

/-- the framing carries a transaction id (MBAP) or not (serial line framings) -/
inductive Framing where
  | mbap | serialLine
  deriving DecidableEq, Repr

def sameFunction (reqFc replyFc : Nat) : Bool := replyFc = reqFc || replyFc = reqFc ||| 0x80

/-- `reply` (function code, unit id, transaction id as carried by its frame) answers the request -/
def answers (fr : Framing) (reqUnit reqTid reqFc : Nat) (replyFc replyUnit replyTid : Nat) : Bool :=
  sameFunction reqFc replyFc &&
  (match fr with
   | .mbap => replyTid = reqTid
   | .serialLine => reqUnit = 0 || reqUnit = 255 || replyUnit = reqUnit)

def maxTransmissions (retries : Nat) : Nat := 1 + retries

/-- the transaction ids a client issues: 1, 2, …, 65535, 0, 1, … -/
def nthTid (tid0 n : Nat) : Nat := (tid0 + n) % 65536

end TxnSpec
end Pymodbus
