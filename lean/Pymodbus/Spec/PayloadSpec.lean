/-
  Specification side of C19: the conventional register image of a typed value under a byte order
  and a word order, written from the property text / Modbus conventions (not from the code):

    * big byte order + big word order  = network order (most significant 16-bit word first, each
      word's most significant byte first);
    * little word order reverses the 16-bit words of a multi-register value;
    * little byte order swaps the two bytes inside each word.

  A register is a 16-bit number whose high byte travels first.  8-bit values, bit groups (8 bits
  per byte, least significant bit first) and strings occupy single bytes in sequence; a sequence of
  values is laid out back to back, and an odd total is padded with one zero byte.
  Core Lean only (the driver evaluates it).
-/
import Pymodbus.Model.Payload
namespace Pymodbus.PayloadSpec
open Pymodbus Pymodbus.Payload

/-- the `k` 16-bit words of `n`, most significant first (network order) -/
def netWords : Nat → Nat → List Nat
  | 0, _ => []
  | k + 1, n => netWords k (n / 65536) ++ [n % 65536]

/-- exchange the two bytes of a 16-bit word -/
def swap16 (w : Nat) : Nat := (w % 256) * 256 + w / 256

/-- the registers a `k`-register numeric value with bit pattern `n` occupies -/
def regImage (bo wo : Endian) (k n : Nat) : List Nat :=
  let ws := netWords k n
  let ws := match wo with
    | .big => ws
    | .little => ws.reverse
  match bo with
  | .big => ws
  | .little => ws.map swap16

/-- a register on the wire: high byte first -/
def regBytes (r : Nat) : Bytes := [r / 256, r % 256]

/-- the byte a group of at most 8 bits denotes, first bit = least significant -/
def byteOfBits : List Bool → Nat
  | [] => 0
  | b :: r => (if b then 1 else 0) + 2 * byteOfBits r

/-- bit groups: 8 bits per byte, the last byte zero-filled -/
def bitsBytes : List Bool → Bytes
  | [] => []
  | [a] => [byteOfBits [a]]
  | [a, b] => [byteOfBits [a, b]]
  | [a, b, c] => [byteOfBits [a, b, c]]
  | [a, b, c, d] => [byteOfBits [a, b, c, d]]
  | [a, b, c, d, e] => [byteOfBits [a, b, c, d, e]]
  | [a, b, c, d, e, f] => [byteOfBits [a, b, c, d, e, f]]
  | [a, b, c, d, e, f, g] => [byteOfBits [a, b, c, d, e, f, g]]
  | a :: b :: c :: d :: e :: f :: g :: h :: r => byteOfBits [a, b, c, d, e, f, g, h] :: bitsBytes r

/-- the bytes one value occupies -/
def valueBytes (bo wo : Endian) : Value → Bytes
  | .num t n =>
    if t.size = 1 then [n]
    else (regImage bo wo (t.size / 2) n).flatMap regBytes
  | .bits l => bitsBytes l
  | .str s => s

/-- the byte image of a sequence of values -/
def bytesImage (bo wo : Endian) (vs : List Value) : Bytes := vs.flatMap (valueBytes bo wo)

/-- bytes as registers, an odd trailing byte padded with a zero low byte -/
def pairRegs : Bytes → List Nat
  | [] => []
  | [a] => [a * 256]
  | a :: b :: r => (a * 256 + b) :: pairRegs r

/-- the register image of a sequence of values -/
def registersImage (bo wo : Endian) (vs : List Value) : List Nat := pairRegs (bytesImage bo wo vs)

/-- what a decoder hands back for a value: the value itself, except that the wire format does not
    carry the length of a bit group, so a group is returned zero-filled to a multiple of 8 -/
def padBits (l : List Bool) : List Bool := l ++ List.replicate ((8 - l.length % 8) % 8) false

def canon : Value → Value
  | .bits l => .bits (padBits l)
  | v => v

/-- the value is in the range of its type (numeric patterns fit the width, strings are bytes) -/
def _root_.Pymodbus.Payload.Value.WF : Value → Prop
  | .num t n => n < 256 ^ t.size
  | .bits _ => True
  | .str s => Bytes.WF s

instance (v : Value) : Decidable (Value.WF v) := by
  cases v <;> simp only [Value.WF] <;> exact inferInstance

/-- bit groups come in whole bytes -/
def _root_.Pymodbus.Payload.Value.BitsAligned : Value → Prop
  | .bits l => l.length % 8 = 0
  | _ => True

instance (v : Value) : Decidable (Value.BitsAligned v) := by
  cases v <;> simp only [Value.BitsAligned] <;> exact inferInstance

/-- the value occupies whole registers: a 16/32/64-bit number -/
def _root_.Pymodbus.Payload.Value.IsRegs : Value → Prop
  | .num t _ => t.size ≠ 1
  | _ => False

instance (v : Value) : Decidable (Value.IsRegs v) := by
  cases v <;> simp only [Value.IsRegs] <;> exact inferInstance

/-- the registers of a whole-register value -/
def valueRegs (bo wo : Endian) : Value → List Nat
  | .num t n => regImage bo wo (t.size / 2) n
  | _ => []

end Pymodbus.PayloadSpec
