/-
  C15 — what "concurrent callers of one synchronous client are serialised" demands of an observed run.
  Written from the property text, not from the code: the vocabulary (`Req`, `Chunk`, `Result`, `Thread`) is the
  model's, the predicates are the property's.
-/
import Pymodbus.Model.Sched
namespace Pymodbus
namespace Sched
namespace Spec

/-- the answer the peer gives to request `r` (Modbus FC 3: `count` registers starting at `addr`; quantity outside
    1..125 → exception 03 on function 0x83); in the test world register `a` holds the value `a` -/
def expected (r : Req) : Msg :=
  if 1 ≤ r.count ∧ r.count ≤ 125 then .regs ((List.range r.count).map (fun i => (r.addr + i) % 65536))
  else .exc 0x83 3

/-- the caller of `(request, tid)` got the reply to its own request: right transaction id, right unit, right data -/
def OwnReply (x : Req × Nat × Result) : Prop := x.2.2 = .ok x.2.1 x.1.unit (expected x.1)

instance (x : Req × Nat × Result) : Decidable (OwnReply x) := by unfold OwnReply; exact inferInstance

/-- what a caller may legitimately be handed (`attempts` = how many times the client transmits a request at most):
    * the connection exception raised by `BaseModbusClient.execute` — only when a connection attempt was refused
      (`cok k = false` for some attempt `k`);
    * the broadcast marker — exactly for a broadcast;
    * its own error object (`ModbusIOException`) — only when the peer answered none of the transmissions of this very
      request (`attempts ≤ lost`);
    * otherwise the reply to its own request.
    Never somebody else's reply, never an error while the peer answers. -/
def Answered (cok : Nat → Bool) (attempts : Nat) (x : Req × Nat × Result) : Prop :=
  (x.2.2 = .raised .modbusExc ∧ ∃ k, cok k = false) ∨
  (x.1.bcast = true ∧ x.2.2 = .bcastSent) ∨
  (x.1.bcast = false ∧ attempts ≤ x.1.lost ∧ x.2.2 = .err .modbusIO) ∨
  (x.1.bcast = false ∧ x.1.lost < attempts ∧ OwnReply x)

/-- request frames are never interleaved on the transport: the chunks come in pairs (header, rest) written by the same
    thread to the same connection with nothing in between (the last frame may still be half written) -/
def contiguous : List Chunk → Bool
  | [] => true
  | [c] => c.first
  | c1 :: c2 :: r => c1.first && !c2.first && c1.thread == c2.thread && c1.conn == c2.conn && contiguous r

/-- at most one transaction is between its send and the end of its receive -/
def Exclusive (s : State) : Prop :=
  ∀ t u, (s.threads t).inFlight = true → (s.threads u).inFlight = true → t = u

/-- no reply lost, duplicated or swapped: thread `t` has, in order, one own reply for each request it was given -/
def AllServed (reqs : Nat → List Req) (s : State) (t : Nat) : Prop :=
  (s.threads t).results.map (·.1) = reqs t ∧ ∀ x ∈ (s.threads t).results, OwnReply x

end Spec
end Sched
end Pymodbus
