/-
  The Modbus data model as the properties C04/C05 state it (written from the property text and the
  Modbus Application Protocol v1.1b3 §6, not from the code): four tables of cells, each table living in
  some block of a memory of partial maps; reads return the current cells, writes change exactly the
  addressed cells, invalid requests are answered with an exception and change nothing.
-/
import Pymodbus.Model.Pdu
import Pymodbus.Spec.StoreSpec
namespace Pymodbus.RegisterFile
open Pymodbus Pymodbus.StoreSpec

/-- memory: block id ↦ (address ↦ value) -/
abbrev Mem := Nat → Cells

structure Layout where
  /-- the block each table lives in (two tables may share one) -/
  tbl : Table → Nat
  /-- addresses are used as sent (`true`) or shifted by one (`false`, the documented default) -/
  zeroMode : Bool
  /-- blocks whose datastore fails on access -/
  broken : Nat → Bool

/-- the table a function code addresses (v1.1b3 §6.1-6.17) -/
def tableOf (fc : Nat) : Option Table :=
  match fc with
  | 1 | 5 | 15 => some .c
  | 2 => some .d
  | 4 => some .i
  | 3 | 6 | 16 | 22 | 23 => some .h
  | _ => none

def readCells (m : Cells) (a : Int) (n : Nat) : List Nat :=
  (List.range n).filterMap (fun (k : Nat) => m (a + Int.ofNat k))

def writeCells (m : Cells) (a : Int) (vs : List Nat) : Cells :=
  fun i => if a ≤ i ∧ i < a + vs.length then vs[(i - a).toNat]? else m i

def Mem.update (m : Mem) (k : Nat) (c : Cells) : Mem := fun j => if j = k then c else m j

def b2n (b : Bool) : Nat := if b then 1 else 0

/-- shared shape of every data-access request: value checks (03), datastore failure (04),
    address range (02), then the effect -/
def access (L : Layout) (m : Mem) (fc : Nat) (valueOk : Bool) (ranges : List (Int × Nat))
    (effect : Nat → Int → Mem × Resp) : Mem × Resp :=
  if !valueOk then (m, .exception fc 3) else
  match tableOf fc with
  | none => (m, .exception fc 1)
  | some t =>
    let k := L.tbl t
    let off : Int := bif L.zeroMode then 0 else 1
    if L.broken k then (m, .exception fc 4)
    else if !(ranges.all (fun r => Spec.populated (m k) (r.1 + off) r.2)) then (m, .exception fc 2)
    else effect k off

/-! effects of the accepted requests (named so that statements about them share one definition) -/
def effRead (m : Mem) (mk : List Nat → Resp) (a n : Nat) (k : Nat) (off : Int) : Mem × Resp :=
  (m, mk (readCells (m k) (a + off) n))
def effWrite (m : Mem) (a : Nat) (vs : List Nat) (resp : Resp) (k : Nat) (off : Int) : Mem × Resp :=
  (m.update k (writeCells (m k) (a + off) vs), resp)
/-- mask write: result `(cur AND and) OR (or AND NOT and)` on 16 bits -/
def effMask (m : Mem) (a am om : Nat) (k : Nat) (off : Int) : Mem × Resp :=
  match m k (a + off) with
  | some cur => (m.update k (writeCells (m k) (a + off) [(cur &&& am) ||| (om &&& (0xFFFF - am))]), .maskWrite a am om)
  | none => (m, .exception 22 2)
/-- read/write multiple: the write is applied before the read -/
def effReadWrite (m : Mem) (ra rn wa : Nat) (wregs : List Nat) (k : Nat) (off : Int) : Mem × Resp :=
  let c' := writeCells (m k) (wa + off) wregs
  (m.update k c', .readWrite (readCells c' (ra + off) rn))

def step (L : Layout) (m : Mem) : Req → Mem × Resp
  | .readCoils a n => access L m 1 (1 ≤ n ∧ n ≤ 2000) [(a, n)] (effRead m .readCoils a n)
  | .readDiscrete a n => access L m 2 (1 ≤ n ∧ n ≤ 2000) [(a, n)] (effRead m .readDiscrete a n)
  | .readHolding a n => access L m 3 (1 ≤ n ∧ n ≤ 125) [(a, n)] (effRead m .readHolding a n)
  | .readInput a n => access L m 4 (1 ≤ n ∧ n ≤ 125) [(a, n)] (effRead m .readInput a n)
  | .writeCoil a w => access L m 5 (w = 0xFF00 ∨ w = 0) [(a, 1)]
      (effWrite m a [b2n (w = 0xFF00)] (.writeCoil a (b2n (w = 0xFF00))))
  | .writeRegister a v => access L m 6 (v ≤ 0xFFFF) [(a, 1)] (effWrite m a [v] (.writeRegister a v))
  | .writeCoils a cnt bc vs =>
      access L m 15 (1 ≤ cnt ∧ cnt ≤ 1968 ∧ bc = (cnt + 7) / 8 ∧ vs.length = cnt) [(a, cnt)]
        (effWrite m a (vs.map b2n) (.writeCoils a cnt))
  | .writeRegisters a cnt bc vs =>
      access L m 16 (1 ≤ cnt ∧ cnt ≤ 123 ∧ bc = 2 * cnt ∧ vs.length = cnt) [(a, cnt)]
        (effWrite m a vs (.writeRegisters a cnt))
  | .maskWrite a am om => access L m 22 (am ≤ 0xFFFF ∧ om ≤ 0xFFFF) [(a, 1)] (effMask m a am om)
  | .readWrite ra rn wa wn wbc wregs =>
      access L m 23 (1 ≤ rn ∧ rn ≤ 125 ∧ 1 ≤ wn ∧ wn ≤ 121 ∧ wbc = 2 * wn ∧ wregs.length = wn)
        [(wa, wn), (ra, rn)] (effReadWrite m ra rn wa wregs)
  | .illegalFunction fc => (m, .exception fc 1)
  | r => (m, .exception r.fc 1)

/-- in scope for C04/C05: the data-access requests and unassigned function codes -/
def InScope : Req → Prop
  | .readCoils .. | .readDiscrete .. | .readHolding .. | .readInput .. | .writeCoil .. | .writeRegister ..
  | .writeCoils .. | .writeRegisters .. | .maskWrite .. | .readWrite .. | .illegalFunction .. => True
  | _ => False

instance (r : Req) : Decidable (InScope r) := by cases r <;> simp only [InScope] <;> exact inferInstance

def run (L : Layout) (m : Mem) : List Req → Mem × List Resp
  | [] => (m, [])
  | r :: rs => let x := step L m r; let y := run L x.1 rs; (y.1, x.2 :: y.2)

/-- the application puts the unit back to its defaults (`ModbusSlaveContext.reset()`): every populated cell of every
    block that a table lives in goes back to 0; which cells are populated does not change; other blocks are untouched -/
def Mem.reset (L : Layout) (m : Mem) : Mem := fun k a =>
  if k = L.tbl .d ∨ k = L.tbl .c ∨ k = L.tbl .i ∨ k = L.tbl .h then (m k a).map (fun _ => 0) else m k a

/-- a step of a unit's history: a request arrives, or the application resets the unit -/
inductive HOp where
  | req (r : Req)
  | reset

def runH (L : Layout) (m : Mem) : List HOp → Mem × List Resp
  | [] => (m, [])
  | .req r :: rs => let x := step L m r; let y := runH L x.1 rs; (y.1, x.2 :: y.2)
  | .reset :: rs => runH L (m.reset L) rs

end Pymodbus.RegisterFile
