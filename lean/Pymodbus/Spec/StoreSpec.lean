/-
  Specification side of the datastore properties (C18, and the base of C04/C05):
  a block is a partial map address ↦ value; operations on it are the obvious ones.
  Core Lean only (used by the driver too).
-/
import Pymodbus.Model.Store
namespace Pymodbus.StoreSpec
open Pymodbus

inductive Op where
  | validate (a n : Int)
  | get (a n : Int)
  | set (a : Int) (vs : List Nat)
  | reset

inductive Out where
  | bool (b : Bool)
  | vals (r : PyM (List Nat))
  | unit

def step (b : Block) : Op → Block × Out
  | .validate a n => (b, .bool (b.validate a n))
  | .get a n => (b, .vals (b.get a n))
  | .set a vs => (b.set a vs, .unit)
  | .reset => (b.reset, .unit)

def run (b : Block) : List Op → Block × List Out
  | [] => (b, [])
  | op :: ops => let r := step b op; let r' := run r.1 ops; (r'.1, r.2 :: r'.2)

/-- The abstract register map the property speaks of. -/
abbrev Cells := Int → Option Nat

def Spec.populated (m : Cells) (a : Int) (n : Nat) : Bool :=
  (List.range n).all (fun (k : Nat) => (m (a + Int.ofNat k)).isSome)

def Spec.step (m : Cells) : Op → Cells × Out
  | .validate a n => (m, .bool (Spec.populated m a n.toNat))
  | .get a n => (m, .vals (.ok ((List.range n.toNat).filterMap (fun (k : Nat) => m (a + Int.ofNat k)))))
  | .set a vs => (fun i => if a ≤ i ∧ i < a + vs.length then vs[(i - a).toNat]? else m i, .unit)
  | .reset => (fun i => (m i).map (fun _ => 0), .unit)

def Spec.run (m : Cells) : List Op → Cells × List Out
  | [] => (m, [])
  | op :: ops => let r := Spec.step m op; let r' := Spec.run r.1 ops; (r'.1, r.2 :: r'.2)

/-- An operation is within the property's scope in state `b`: counts ≥ 1 and get/set only on
    accepted ranges (what the server's `validate`-then-access discipline guarantees). -/
def OpOK (b : Block) : Op → Prop
  | .validate _ n => 1 ≤ n
  | .get a n => 1 ≤ n ∧ b.validate a n = true
  | .set a vs => 1 ≤ (vs.length : Int) ∧ b.validate a vs.length = true
  | .reset => True

def OpsOK (b : Block) : List Op → Prop
  | [] => True
  | op :: ops => OpOK b op ∧ OpsOK (step b op).1 ops

instance (b : Block) (op : Op) : Decidable (OpOK b op) := by
  cases op <;> simp only [OpOK] <;> exact inferInstance

instance decOpsOK : (b : Block) → (ops : List Op) → Decidable (OpsOK b ops)
  | _, [] => isTrue trivial
  | b, op :: ops =>
    have := decOpsOK (step b op).1 ops
    inferInstanceAs (Decidable (OpOK b op ∧ OpsOK (step b op).1 ops))


end Pymodbus.StoreSpec
