/-
  Specification side of C20 (Read Device Identification), written from the property text and the
  Modbus Application Protocol V1.1b3 §6.21, not from the code.

  An identity is a function object id ↦ value; the empty value means "not configured".
  Read codes 1/2/3 stream the non-empty objects of a category (basic 0..2, regular 0..6, extended
  0..6 and 0x80..0xFF) in id order from the requested id on; read code 4 returns one object.
  A response PDU (function code included) is at most 253 bytes.
  Core Lean only (the driver evaluates these definitions).
-/
import Pymodbus.Model.DevId
namespace Pymodbus.DevIdSpec
open Pymodbus

abbrev Identity := Nat → Bytes
abbrev Objects := List (Nat × Bytes)

def maxPdu : Nat := 253

/-- object id `k` belongs to the category streamed by read code `rc` (1 basic, 2 regular, 3 extended) -/
def inCategory (rc k : Nat) : Bool :=
  if rc = 1 then decide (k ≤ 2)
  else if rc = 2 then decide (k ≤ 6)
  else if rc = 3 then decide (k ≤ 6) || (decide (0x80 ≤ k) && decide (k ≤ 0xFF))
  else false

/-- The objects a stream request `(rc, start)` must deliver in total: the configured non-empty
    objects of the category with id ≥ start, in id order, each once, exact values. -/
def expected (f : Identity) (rc start : Nat) : Objects :=
  ((List.range 256).filter (fun k => decide (start ≤ k) && inCategory rc k && (f k != []))).map
    (fun k => (k, f k))

/-- individual access (read code 4): exactly the requested object -/
def expectedIndividual (f : Identity) (oid : Nat) : Objects := [(oid, f oid)]

/-- Start ids for which the property demands the full answer: 0, or a configured (non-empty)
    object of the category.  (For other start ids restart-at-first-object and an empty answer are
    both defensible: only the size bound and termination are demanded.) -/
def StartOK (f : Identity) (rc start : Nat) : Prop :=
  start = 0 ∨ (inCategory rc start = true ∧ f start ≠ [])

instance (f : Identity) (rc start : Nat) : Decidable (StartOK f rc start) := by
  unfold StartOK; exact inferInstance

/-- What a client sees of one response. -/
structure PageView where
  objects : Objects
  /-- more-follows = 0xFF -/
  more : Bool
  next : Nat
  pduLen : Nat
  deriving Repr, DecidableEq

/-- every page but the last says "more follows"; the last one does not -/
def moreFlagsOK : List PageView → Bool
  | [] => false
  | [p] => !p.more
  | p :: ps => p.more && moreFlagsOK ps

/-- The whole request/response chain is acceptable for the expected object list `exp`:
    it is non-empty, terminated by a page without more-follows, no PDU is over 253 bytes, and the
    pages concatenated are exactly `exp` (hence every object exactly once, exact values). -/
def chainOK (pages : List PageView) (exp : Objects) : Bool :=
  moreFlagsOK pages && pages.all (fun p => decide (p.pduLen ≤ maxPdu)) &&
    decide (pages.flatMap (·.objects) = exp)

/-- only the size bound and termination (for start ids outside `StartOK`) -/
def chainBoundedOK (pages : List PageView) : Bool :=
  moreFlagsOK pages && pages.all (fun p => decide (p.pduLen ≤ maxPdu))

/-- what the client sees of a model page: the decoded objects, whether the decoded more-follows
    byte is 0xFF, the decoded next object id, the PDU length -/
def viewOf (p : DevId.Page) : PageView :=
  ⟨p.objects, p.continuation.isSome, p.continuation.getD 0, p.pdu.length⟩

end Pymodbus.DevIdSpec
