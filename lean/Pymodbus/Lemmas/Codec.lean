/- Helper lemmas for the PDU codec model (struct helpers, bit packing). -/
import Pymodbus.Model.Codec
import Pymodbus.Spec.PduSpec
namespace Pymodbus
open PduSpec

theorem packH_ok {n : Nat} (h : n < 65536) : Impl.packH n = .ok (u16 n) := by
  simp [Impl.packH, h, u16]

theorem packB_ok {n : Nat} (h : n < 256) : Impl.packB n = .ok [n] := by
  simp [Impl.packB, h]

theorem int2byte_ok {n : Nat} (h : n < 256) : Impl.int2byte n = .ok [n] := by
  simp [Impl.int2byte, h]

theorem packHs_ok {vs : List Nat} (h : AllU16 vs) : Impl.packHs vs = .ok (u16s vs) := by
  induction vs with
  | nil => rfl
  | cons v vs ih =>
    have hv : v < 65536 := h v (by simp)
    have ht : AllU16 vs := fun w hw => h w (by simp [hw])
    simp [Impl.packHs, packH_ok hv, ih ht, u16s, bind, Except.bind, pure, Except.pure]

theorem packBs_ok {vs : List Nat} (h : AllU8 vs) : Impl.packBs vs = .ok vs := by
  induction vs with
  | nil => rfl
  | cons v vs ih =>
    have hv : v < 256 := h v (by simp)
    have ht : AllU8 vs := fun w hw => h w (by simp [hw])
    simp [Impl.packBs, packB_ok hv, ih ht, bind, Except.bind, pure, Except.pure]

theorem u16s_length (vs : List Nat) : (u16s vs).length = 2 * vs.length := by
  induction vs with
  | nil => rfl
  | cons v vs ih => simp [u16s, u16] at *; omega

theorem byteOfBits_snoc (pre : List Bool) (b : Bool) :
    byteOfBits (pre ++ [b]) = byteOfBits pre + (if b then 2 ^ pre.length else 0) := by
  induction pre with
  | nil => cases b <;> simp [byteOfBits]
  | cons a pre ih =>
    simp only [List.cons_append, byteOfBits, ih, List.length_cons, Nat.pow_succ]
    cases b <;> simp <;> omega

theorem spec_packBits_nil : PduSpec.packBits [] = [] := by
  rw [PduSpec.packBits]; simp

theorem spec_packBits_cons (bits : List Bool) (h : bits ≠ []) :
    PduSpec.packBits bits = byteOfBits (bits.take 8) :: PduSpec.packBits (bits.drop 8) := by
  rw [PduSpec.packBits]; simp [h]

theorem packLoop_spec (bits pre : List Bool) (ret : Bytes) (hpre : pre.length < 8) :
    packLoop bits pre.length (byteOfBits pre * 2 ^ (7 - pre.length)) ret =
      ret ++ PduSpec.packBits (pre ++ bits) := by
  induction bits generalizing pre ret with
  | nil =>
    simp only [packLoop, List.append_nil]
    by_cases h0 : pre = []
    · subst h0; simp [spec_packBits_nil]
    · have hl : 0 < pre.length := List.length_pos_iff.2 h0
      rw [if_pos ⟨hl, hpre⟩, spec_packBits_cons pre h0]
      rw [List.take_of_length_le (by omega), List.drop_of_length_le (by omega), spec_packBits_nil]
      rw [Nat.shiftRight_eq_div_pow, Nat.mul_div_cancel _ (Nat.pow_pos (by decide))]
  | cons b bits ih =>
    simp only [packLoop]
    by_cases h8 : pre.length + 1 = 8
    · rw [if_pos h8]
      have h7 : 7 - pre.length = 0 := by omega
      have hp : pre.length = 7 := by omega
      have := ih [] (ret ++ [if b then byteOfBits pre * 2 ^ (7 - pre.length) + 128 else byteOfBits pre * 2 ^ (7 - pre.length)])
        (by simp)
      simp only [List.length_nil, byteOfBits, Nat.zero_mul, List.nil_append] at this
      rw [this]
      have hne : pre ++ b :: bits ≠ [] := by simp
      rw [spec_packBits_cons _ hne]
      have ht : (pre ++ b :: bits).take 8 = pre ++ [b] := by
        rw [List.take_append]
        simp [hp, List.take_of_length_le]
      have hd : (pre ++ b :: bits).drop 8 = bits := by
        rw [List.drop_append]
        simp [hp, List.drop_of_length_le]
      rw [ht, hd, byteOfBits_snoc, h7, hp]
      cases b <;> simp
    · rw [if_neg h8]
      have hk : pre.length ≤ 6 := by omega
      have := ih (pre ++ [b]) ret (by simp; omega)
      simp only [List.length_append, List.length_cons, List.length_nil, List.append_assoc,
        List.cons_append, List.nil_append] at this
      rw [← this]
      congr 1
      rw [byteOfBits_snoc, Nat.shiftRight_eq_div_pow]
      have e1 : 2 ^ (7 - pre.length) = 2 * 2 ^ (7 - (pre.length + 1)) := by
        rw [← Nat.pow_succ']; congr 1; omega
      have e2 : 2 ^ pre.length * 2 ^ (7 - (pre.length + 1)) = 64 := by
        rw [← Nat.pow_add]
        have : pre.length + (7 - (pre.length + 1)) = 6 := by omega
        rw [this]
      cases b
      · simp only [Bool.false_eq_true, if_false, Nat.add_zero, Nat.pow_one]
        rw [e1, ← Nat.mul_assoc, Nat.mul_comm _ 2, Nat.mul_assoc, Nat.mul_div_cancel_left _ (by decide)]
      · simp only [if_true, Nat.pow_one]
        rw [Nat.add_mul, e2, e1]
        have : byteOfBits pre * (2 * 2 ^ (7 - (pre.length + 1))) + 128 =
            2 * (byteOfBits pre * 2 ^ (7 - (pre.length + 1)) + 64) := by
          rw [Nat.mul_add, ← Nat.mul_assoc, Nat.mul_comm _ 2, Nat.mul_assoc]
        rw [this, Nat.mul_div_cancel_left _ (by decide)]

theorem packBits_eq_spec (bits : List Bool) : packBits bits = PduSpec.packBits bits := by
  have := packLoop_spec bits [] [] (by simp)
  simpa [packBits, byteOfBits] using this


theorem unpackByte_8 : ∀ b0 b1 b2 b3 b4 b5 b6 b7 : Bool,
    unpackByte (byteOfBits [b0, b1, b2, b3, b4, b5, b6, b7]) = [b0, b1, b2, b3, b4, b5, b6, b7] := by
  decide

theorem byteOfBits_pad (l : List Bool) (n : Nat) : byteOfBits (l ++ List.replicate n false) = byteOfBits l := by
  induction l with
  | nil =>
    induction n with
    | zero => rfl
    | succ n ih => simp [List.replicate_succ, byteOfBits] at *; omega
  | cons a l ih => simp [byteOfBits, ih]

theorem list8 (l : List Bool) (h : l.length = 8) :
    ∃ b0 b1 b2 b3 b4 b5 b6 b7, l = [b0, b1, b2, b3, b4, b5, b6, b7] := by
  match l, h with
  | [b0, b1, b2, b3, b4, b5, b6, b7], _ => exact ⟨b0, b1, b2, b3, b4, b5, b6, b7, rfl⟩

theorem unpackByte_byteOfBits (l : List Bool) (h : l.length ≤ 8) :
    unpackByte (byteOfBits l) = l ++ List.replicate (8 - l.length) false := by
  have hl : (l ++ List.replicate (8 - l.length) false).length = 8 := by simp; omega
  obtain ⟨b0, b1, b2, b3, b4, b5, b6, b7, e⟩ := list8 _ hl
  rw [← byteOfBits_pad l (8 - l.length), e]
  exact unpackByte_8 ..

theorem unpackBits_cons (x : Nat) (xs : Bytes) : unpackBits (x :: xs) = unpackByte x ++ unpackBits xs := by
  simp [unpackBits]

theorem unpackBits_spec_pack (bits : List Bool) :
    unpackBits (PduSpec.packBits bits) =
      bits ++ List.replicate (8 * nbytes bits.length - bits.length) false := by
  induction hn : bits.length using Nat.strongRecOn generalizing bits with
  | _ n ih =>
    subst hn
    by_cases h0 : bits = []
    · subst h0; simp [spec_packBits_nil, unpackBits, nbytes]
    · rw [spec_packBits_cons bits h0, unpackBits_cons]
      by_cases h8 : 8 ≤ bits.length
      · have ht : (bits.take 8).length = 8 := by simp; omega
        rw [unpackByte_byteOfBits _ (by omega), ht]
        have := ih (bits.length - 8) (by omega) (bits.drop 8) (by simp)
        rw [this]
        simp only [Nat.sub_self, List.replicate_zero, List.append_nil, List.length_drop]
        have e : 8 * nbytes (bits.length - 8) - (bits.length - 8) = 8 * nbytes bits.length - bits.length := by
          unfold nbytes; omega
        rw [e, ← List.append_assoc, List.take_append_drop]
      · have hd : bits.drop 8 = [] := List.drop_of_length_le (by omega)
        have ht : bits.take 8 = bits := List.take_of_length_le (by omega)
        rw [hd, ht, spec_packBits_nil, unpackByte_byteOfBits _ (by omega)]
        have e : 8 * nbytes bits.length - bits.length = 8 - bits.length := by
          have : 0 < bits.length := List.length_pos_iff.2 h0
          unfold nbytes; omega
        simp [unpackBits, e]

theorem spec_packBits_length (bits : List Bool) : (PduSpec.packBits bits).length = nbytes bits.length := by
  induction hn : bits.length using Nat.strongRecOn generalizing bits with
  | _ n ih =>
    subst hn
    by_cases h0 : bits = []
    · subst h0; simp [spec_packBits_nil, nbytes]
    · rw [spec_packBits_cons bits h0]
      have hpos : 0 < bits.length := List.length_pos_iff.2 h0
      have := ih (bits.length - 8) (by omega) (bits.drop 8) (by simp)
      simp only [List.length_cons, this, List.length_drop]
      unfold nbytes; omega
theorem u16_recombine {a : Nat} : a / 256 * 256 + a % 256 = a := by omega

theorem unpackH_u16 (a : Nat) : Impl.unpackH (u16 a) = .ok a := by
  simp [Impl.unpackH, u16]; omega
theorem unpackHH_u16 (a b : Nat) : Impl.unpackHH (u16 a ++ u16 b) = .ok (a, b) := by
  simp [Impl.unpackHH, u16]; omega
theorem unpackHHH_u16 (a b c : Nat) : Impl.unpackHHH (u16 a ++ u16 b ++ u16 c) = .ok (a, b, c) := by
  simp [Impl.unpackHHH, u16]; omega

theorem slice_prefix (x y : Bytes) : Impl.slice (x ++ y) 0 x.length = x := by
  simp [Impl.slice]

theorem slice_mid (x y z : Bytes) : Impl.slice (x ++ y ++ z) x.length (x.length + y.length) = y := by
  simp [Impl.slice, List.drop_append, List.take_append]

theorem decRegsTolerant_u16s (pre : Bytes) (vs : List Nat) (post : Bytes) :
    Impl.decRegsTolerant (pre ++ u16s vs ++ post) pre.length vs.length = vs := by
  induction vs generalizing pre with
  | nil => simp [Impl.decRegsTolerant]
  | cons v vs ih =>
    simp only [List.length_cons, Impl.decRegsTolerant]
    have hlen : ¬ (pre.length + 2 > (pre ++ u16s (v :: vs) ++ post).length) := by
      simp [u16s_length]; omega
    rw [if_neg hlen]
    have hs : Impl.slice (pre ++ u16s (v :: vs) ++ post) pre.length (pre.length + 2) = u16 v := by
      have : pre ++ u16s (v :: vs) ++ post = pre ++ u16 v ++ (u16s vs ++ post) := by
        simp [u16s, List.append_assoc]
      rw [this]
      exact slice_mid pre (u16 v) _
    rw [hs]
    simp only [u16]
    have : pre ++ u16s (v :: vs) ++ post = (pre ++ u16 v) ++ u16s vs ++ post := by
      simp [u16s, List.append_assoc]
    rw [this]
    have hl : pre.length + 2 = (pre ++ u16 v).length := by simp [u16]
    rw [hl, ih]
    congr 1; omega

theorem decRegsStrict_u16s (pre : Bytes) (vs : List Nat) (post : Bytes) :
    Impl.decRegsStrict (pre ++ u16s vs ++ post) pre.length vs.length = .ok vs := by
  induction vs generalizing pre with
  | nil => simp [Impl.decRegsStrict]
  | cons v vs ih =>
    simp only [List.length_cons, Impl.decRegsStrict]
    have hs : Impl.slice (pre ++ u16s (v :: vs) ++ post) pre.length (pre.length + 2) = u16 v := by
      have : pre ++ u16s (v :: vs) ++ post = pre ++ u16 v ++ (u16s vs ++ post) := by
        simp [u16s, List.append_assoc]
      rw [this]
      exact slice_mid pre (u16 v) _
    rw [hs, unpackH_u16]
    have : pre ++ u16s (v :: vs) ++ post = (pre ++ u16 v) ++ u16s vs ++ post := by
      simp [u16s, List.append_assoc]
    rw [this]
    have hl : pre.length + 2 = (pre ++ u16 v).length := by simp [u16]
    simp only [bind, Except.bind, pure, Except.pure]
    rw [hl, ih]


theorem decEvents_append (pre evs post : Bytes) :
    Impl.decEvents (pre ++ evs ++ post) pre.length evs.length = .ok evs := by
  induction evs generalizing pre with
  | nil => simp [Impl.decEvents]
  | cons v evs ih =>
    simp only [List.length_cons, Impl.decEvents, Impl.idx]
    have h1 : (pre ++ v :: evs ++ post)[pre.length]? = some v := by
      simp [List.getElem?_append]
    rw [h1]
    have : pre ++ v :: evs ++ post = (pre ++ [v]) ++ evs ++ post := by simp
    have hl : pre.length + 1 = (pre ++ [v]).length := by simp
    simp only [bind, Except.bind, pure, Except.pure]
    rw [this, hl, ih]
theorem rangeLen_regs (n : Nat) : Impl.rangeLen 1 (2 * n + 1) 2 = n := by
  unfold Impl.rangeLen; split <;> omega
theorem rangeLen_regs' (n : Nat) : Impl.rangeLen 1 (2 * n) 2 = n := by
  unfold Impl.rangeLen; split <;> omega
theorem rangeLen_events (n : Nat) : Impl.rangeLen 7 (6 + n + 1) 1 = n := by
  unfold Impl.rangeLen; split <;> omega
theorem b2n_eq : Impl.b2n = PduSpec.b2n := by funext b; cases b <;> rfl
theorem truthy_eq : Impl.truthy = PduSpec.truthy := by funext b; rfl

theorem spec_packBits_pad (l : List Bool) :
    PduSpec.packBits (l ++ List.replicate (8 * nbytes l.length - l.length) false) = PduSpec.packBits l := by
  induction hn : l.length using Nat.strongRecOn generalizing l with
  | _ n ih =>
    subst hn
    by_cases h0 : l = []
    · subst h0; simp [nbytes, spec_packBits_nil]
    · have hpos : 0 < l.length := List.length_pos_iff.2 h0
      by_cases h8 : 8 ≤ l.length
      · have hne : l ++ List.replicate (8 * nbytes l.length - l.length) false ≠ [] := by simp [h0]
        rw [spec_packBits_cons _ hne, spec_packBits_cons l h0]
        have ht : (l ++ List.replicate (8 * nbytes l.length - l.length) false).take 8 = l.take 8 := by
          rw [List.take_append]; simp; omega
        have hd : (l ++ List.replicate (8 * nbytes l.length - l.length) false).drop 8 =
            l.drop 8 ++ List.replicate (8 * nbytes (l.drop 8).length - (l.drop 8).length) false := by
          rw [List.drop_append]
          have e : 8 - l.length = 0 := by omega
          have e2 : 8 * nbytes (l.drop 8).length - (l.drop 8).length = 8 * nbytes l.length - l.length := by
            simp only [List.length_drop]; unfold nbytes; omega
          rw [e, List.drop_zero, e2]
        rw [ht, hd, ih (l.drop 8).length (by simp; omega) (l.drop 8) rfl]
      · have e : 8 * nbytes l.length - l.length = 8 - l.length := by unfold nbytes; omega
        rw [e]
        have hne : l ++ List.replicate (8 - l.length) false ≠ [] := by simp [h0]
        rw [spec_packBits_cons _ hne, spec_packBits_cons l h0]
        have ht : (l ++ List.replicate (8 - l.length) false).take 8 = l ++ List.replicate (8 - l.length) false := by
          apply List.take_of_length_le; simp; omega
        have hd : (l ++ List.replicate (8 - l.length) false).drop 8 = [] := by
          apply List.drop_of_length_le; simp; omega
        rw [ht, hd, List.take_of_length_le (by omega), List.drop_of_length_le (by omega), byteOfBits_pad]

end Pymodbus
