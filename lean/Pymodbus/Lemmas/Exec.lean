/- Helper lemmas for the refinement of `Impl.execute` to the register-file spec. -/
import Pymodbus.Props.C18
import Pymodbus.Model.Exec
import Pymodbus.Spec.RegisterFile
namespace Pymodbus
open StoreSpec RegisterFile Props.C18

/-- abstraction of a slave context: block id ↦ partial map -/
def absMem (s : SlaveCtx) : Mem := fun k =>
  match s.blocks[k]? with
  | some b => b.cell
  | none => fun _ => none

def layoutOf (s : SlaveCtx) : Layout := ⟨s.idx, s.zeroMode, fun k => s.blocks[k]?.isNone⟩

theorem validate_eq_populated (b : Block) (a : Int) (n : Nat) (hn : 1 ≤ n) :
    b.validate a n = Spec.populated b.cell a n := by
  rw [Bool.eq_iff_iff, validate_iff b a n (by omega), populated_iff]
  rfl

theorem get_eq_readCells (b : Block) (a : Int) (n : Nat) (hn : 1 ≤ n) (hv : b.validate a n = true) :
    b.get a n = .ok (readCells b.cell a n) := by
  have := (step_refines b (.get a n) ⟨by omega, hv⟩).1
  simp only [StoreSpec.step, Spec.step, Int.toNat_natCast] at this
  injection this

theorem set_eq_writeCells (b : Block) (a : Int) (vs : List Nat) (hv : b.validate a vs.length = true) :
    (b.set a vs).cell = writeCells b.cell a vs := by
  funext i; exact set_spec b a vs hv i

theorem absMem_set (s : SlaveCtx) (k : Nat) (b' : Block) (hk : k < s.blocks.length) :
    absMem { s with blocks := s.blocks.set k b' } = (absMem s).update k b'.cell := by
  funext j
  simp only [absMem, Mem.update]
  by_cases h : j = k
  · subst h; simp [hk]
  · have : ¬ k = j := fun e => h e.symm
    simp [h, List.getElem?_set, this]

theorem layoutOf_set (s : SlaveCtx) (k : Nat) (b' : Block) :
    layoutOf { s with blocks := s.blocks.set k b' } = layoutOf s := by
  simp only [layoutOf, Layout.mk.injEq, true_and]
  refine ⟨rfl, ?_⟩
  funext j
  simp only [List.getElem?_set]
  by_cases h : k = j
  · subst h
    by_cases hk : k < s.blocks.length
    · simp [hk]
    · simp [hk]
  · simp [h]

end Pymodbus
