/- Helper lemmas for the refinement of `Impl.execute` to the register-file spec. -/
import Pymodbus.Props.C18
import Pymodbus.Model.Exec
import Pymodbus.Spec.RegisterFile
namespace Pymodbus
open StoreSpec RegisterFile Props.C18

/-- abstraction of a slave context: block id ↦ partial map -/
def absMem (s : SlaveCtx) : Mem := fun k =>
  match s.blocks[k]? with
  | some b => b.cell
  | none => fun _ => none

def layoutOf (s : SlaveCtx) : Layout := ⟨s.idx, s.zeroMode, fun k => s.blocks[k]?.isNone⟩

theorem validate_eq_populated (b : Block) (a : Int) (n : Nat) (hn : 1 ≤ n) :
    b.validate a n = Spec.populated b.cell a n := by
  rw [Bool.eq_iff_iff, validate_iff b a n (by omega), populated_iff]
  rfl

theorem get_eq_readCells (b : Block) (a : Int) (n : Nat) (hn : 1 ≤ n) (hv : b.validate a n = true) :
    b.get a n = .ok (readCells b.cell a n) := by
  have := (step_refines b (.get a n) ⟨by omega, hv⟩).1
  simp only [StoreSpec.step, Spec.step, Int.toNat_natCast] at this
  injection this

theorem set_eq_writeCells (b : Block) (a : Int) (vs : List Nat) (hv : b.validate a vs.length = true) :
    (b.set a vs).cell = writeCells b.cell a vs := by
  funext i; exact set_spec b a vs hv i

theorem absMem_set (s : SlaveCtx) (k : Nat) (b' : Block) (hk : k < s.blocks.length) :
    absMem { s with blocks := s.blocks.set k b' } = (absMem s).update k b'.cell := by
  funext j
  simp only [absMem, Mem.update]
  by_cases h : j = k
  · subst h; simp [hk]
  · have : ¬ k = j := fun e => h e.symm
    simp [h, List.getElem?_set, this]

theorem layoutOf_set (s : SlaveCtx) (k : Nat) (b' : Block) :
    layoutOf { s with blocks := s.blocks.set k b' } = layoutOf s := by
  simp only [layoutOf, Layout.mk.injEq, true_and]
  refine ⟨rfl, ?_⟩
  funext j
  simp only [List.getElem?_set]
  by_cases h : k = j
  · subst h
    by_cases hk : k < s.blocks.length
    · simp [hk]
    · simp [hk]
  · simp [h]

theorem blockOf_cases (s : SlaveCtx) (fc : Nat) (t : Table) (ht : fxTable fc = some t) :
    (s.blocks[s.idx t]? = none ∧ s.blockOf fc = .error .other) ∨
    (∃ b, s.blocks[s.idx t]? = some b ∧ s.blockOf fc = .ok (s.idx t, b)) := by
  simp only [SlaveCtx.blockOf, ht]
  cases s.blocks[s.idx t]? with
  | none => left; exact ⟨rfl, rfl⟩
  | some b => right; exact ⟨b, rfl, rfl⟩

theorem validate_of_blockOf {s : SlaveCtx} {fc k b} (h : s.blockOf fc = .ok (k, b)) (a n : Int) :
    s.validate fc a n = .ok (b.validate (s.off a) n) := by
  simp [SlaveCtx.validate, h, bind, Except.bind, pure, Except.pure]
theorem validate_of_blockOf_err {s : SlaveCtx} {fc e} (h : s.blockOf fc = .error e) (a n : Int) :
    s.validate fc a n = .error e := by
  simp [SlaveCtx.validate, h, bind, Except.bind]
theorem getValues_of_blockOf {s : SlaveCtx} {fc k b} (h : s.blockOf fc = .ok (k, b)) (a n : Int) :
    s.getValues fc a n = b.get (s.off a) n := by
  simp [SlaveCtx.getValues, h, bind, Except.bind]
theorem setValues_of_blockOf {s : SlaveCtx} {fc k b} (h : s.blockOf fc = .ok (k, b)) (a : Int) (vs) :
    s.setValues fc a vs = .ok { s with blocks := s.blocks.set k (b.set (s.off a) vs) } := by
  simp [SlaveCtx.setValues, h, bind, Except.bind, pure, Except.pure]

@[simp] theorem layoutOf_zeroMode (s : SlaveCtx) : (layoutOf s).zeroMode = s.zeroMode := rfl
@[simp] theorem layoutOf_tbl (s : SlaveCtx) : (layoutOf s).tbl = s.idx := rfl
@[simp] theorem layoutOf_broken (s : SlaveCtx) (k : Nat) : (layoutOf s).broken k = s.blocks[k]?.isNone := rfl

theorem off_eq (s : SlaveCtx) (a : Nat) :
    (a : Int) + (bif s.zeroMode then 0 else 1) = s.off a := rfl

theorem readN_refines (s : SlaveCtx) (fc lim a n : Nat) (mk : List Nat → Resp) (t : Table)
    (ht : fxTable fc = some t) (ht' : tableOf fc = some t) :
    access (layoutOf s) (absMem s) fc (decide (1 ≤ n ∧ n ≤ lim)) [((a : Int), n)]
        (effRead (absMem s) mk a n) =
      (match Impl.readN s fc lim a n mk with
       | .ok x => (absMem x.1, x.2)
       | .error _ => (absMem s, .exception fc excSlaveFailure)) := by
  unfold access Impl.readN effRead
  by_cases hv : 1 ≤ n ∧ n ≤ lim
  · simp only [hv, and_self, decide_true, Bool.not_true, Bool.false_eq_true, if_false, ht', not_true_eq_false]
    rcases blockOf_cases s fc t ht with ⟨hb, he⟩ | ⟨b, hb, he⟩
    · simp [validate_of_blockOf_err he, hb, bind, Except.bind, excSlaveFailure]
    · have hm : absMem s (s.idx t) = b.cell := by simp [absMem, hb]
      simp only [validate_of_blockOf he, getValues_of_blockOf he, layoutOf_zeroMode, layoutOf_tbl, layoutOf_broken, hb, Option.isNone_some,
        Bool.false_eq_true, if_false, bind, Except.bind, pure, Except.pure,
        List.all_cons, List.all_nil, Bool.and_true, hm]
      simp only [off_eq, ← validate_eq_populated b (s.off a) n hv.1]
      cases hval : b.validate (s.off a) n with
      | false => simp [excIllegalAddress]
      | true =>
        simp only [Bool.not_true, Bool.false_eq_true, if_false]
        rw [get_eq_readCells b (s.off a) n hv.1 hval]
  · simp [hv, excIllegalValue]

theorem blockOf_after_set (s : SlaveCtx) (fc : Nat) (t : Table) (ht : fxTable fc = some t)
    (b b' : Block) (hb : s.blocks[s.idx t]? = some b) :
    ({ s with blocks := s.blocks.set (s.idx t) b' } : SlaveCtx).blockOf fc = .ok (s.idx t, b') := by
  have hk : s.idx t < s.blocks.length := by
    rcases List.getElem?_eq_some_iff.1 hb with ⟨h, _⟩; exact h
  have hidx : ({ s with blocks := s.blocks.set (s.idx t) b' } : SlaveCtx).idx t = s.idx t := by
    cases t <;> rfl
  simp only [SlaveCtx.blockOf, ht, hidx]
  simp [hk]

theorem writeOne_refines (s : SlaveCtx) (fc a v : Nat) (mk : Nat → Resp) (t : Table)
    (ht : fxTable fc = some t) (ht' : tableOf fc = some t) :
    access (layoutOf s) (absMem s) fc true [((a : Int), 1)]
        (effWrite (absMem s) a [v] (mk v)) =
      (match Impl.writeOne s fc a v mk with
       | .ok x => (absMem x.1, x.2)
       | .error _ => (absMem s, .exception fc excSlaveFailure)) := by
  unfold access Impl.writeOne effWrite
  simp only [Bool.not_true, Bool.false_eq_true, if_false, ht']
  rcases blockOf_cases s fc t ht with ⟨hb, he⟩ | ⟨b, hb, he⟩
  · simp [validate_of_blockOf_err he, hb, bind, Except.bind, excSlaveFailure]
  · have hm : absMem s (s.idx t) = b.cell := by simp [absMem, hb]
    have hk : s.idx t < s.blocks.length := by
      rcases List.getElem?_eq_some_iff.1 hb with ⟨h, _⟩; exact h
    simp only [validate_of_blockOf he, setValues_of_blockOf he, layoutOf_zeroMode, layoutOf_tbl,
      layoutOf_broken, hb, Option.isNone_some,
      Bool.false_eq_true, if_false, bind, Except.bind, pure, Except.pure,
      List.all_cons, List.all_nil, Bool.and_true, hm]
    simp only [off_eq, ← validate_eq_populated b (s.off a) 1 (by omega)]
    cases hval : b.validate (s.off a) ((1 : Nat) : Int) with
    | false => simp [excIllegalAddress]
    | true =>
      simp only [Bool.not_true, Bool.false_eq_true, if_false]
      have hval' : b.validate (s.off a) (([v] : List Nat).length : Int) = true := hval
      have hs := blockOf_after_set s fc t ht b (b.set (s.off a) [v]) hb
      rw [getValues_of_blockOf hs]
      have hoff : ({ s with blocks := s.blocks.set (s.idx t) (b.set (s.off a) [v]) } : SlaveCtx).off a = s.off a := rfl
      rw [hoff]
      have hg : (b.set (s.off a) [v]).get (s.off a) 1 = .ok [v] :=
        (get_after_set b (s.off a) [v] (by simp) hval').2
      rw [hg]
      simp only [absMem_set s _ _ hk, set_eq_writeCells b _ _ hval']

theorem xor_ffff (am : Nat) (h : am ≤ 0xFFFF) : am ^^^ 0xFFFF = 0xFFFF - am := by
  apply Nat.eq_of_testBit_eq
  intro i
  have e1 : 0xFFFF - am = 2^16 - (am + 1) := by omega
  have e2 : (0xFFFF : Nat) = 2^16 - 1 := by decide
  rw [Nat.testBit_xor, e1, Nat.testBit_two_pow_sub_succ (by omega), e2, Nat.testBit_two_pow_sub_one]
  by_cases hi : i < 16
  · simp [hi]
  · have : am.testBit i = false := by
      apply Nat.testBit_lt_two_pow
      calc am < 2^16 := by omega
        _ ≤ 2^i := Nat.pow_le_pow_right (by decide) (by omega)
    simp [hi, this]

/-- shape shared by FC 15/16 after their value checks: validate, write, fixed response -/
theorem writeN_refines (s : SlaveCtx) (fc a : Nat) (vs : List Nat) (resp : Resp) (t : Table)
    (ht : fxTable fc = some t) (ht' : tableOf fc = some t) (hn : 1 ≤ vs.length) :
    access (layoutOf s) (absMem s) fc true [((a : Int), vs.length)]
        (effWrite (absMem s) a vs resp) =
      (match (do
          if !(← s.validate fc a vs.length) then return (s, Resp.exception fc excIllegalAddress)
          let s' ← s.setValues fc a vs
          return (s', resp) : PyM (SlaveCtx × Resp)) with
       | .ok x => (absMem x.1, x.2)
       | .error _ => (absMem s, .exception fc excSlaveFailure)) := by
  unfold access effWrite
  simp only [Bool.not_true, Bool.false_eq_true, if_false, ht']
  rcases blockOf_cases s fc t ht with ⟨hb, he⟩ | ⟨b, hb, he⟩
  · simp [validate_of_blockOf_err he, hb, bind, Except.bind, excSlaveFailure]
  · have hm : absMem s (s.idx t) = b.cell := by simp [absMem, hb]
    have hk : s.idx t < s.blocks.length := by
      rcases List.getElem?_eq_some_iff.1 hb with ⟨h, _⟩; exact h
    simp only [validate_of_blockOf he, setValues_of_blockOf he, layoutOf_zeroMode, layoutOf_tbl,
      layoutOf_broken, hb, Option.isNone_some,
      Bool.false_eq_true, if_false, bind, Except.bind, pure, Except.pure,
      List.all_cons, List.all_nil, Bool.and_true, hm]
    simp only [off_eq, ← validate_eq_populated b (s.off a) vs.length hn]
    cases hval : b.validate (s.off a) (vs.length : Int) with
    | false => simp [excIllegalAddress]
    | true =>
      simp only [Bool.not_true, Bool.false_eq_true, if_false]
      simp only [absMem_set s _ _ hk, set_eq_writeCells b _ _ hval]

theorem maskWrite_refines (s : SlaveCtx) (a am om : Nat) (ham : am ≤ 0xFFFF) :
    access (layoutOf s) (absMem s) 22 true [((a : Int), 1)]
      (effMask (absMem s) a am om) =
      (match (do
          if !(← s.validate 22 a 1) then return (s, Resp.exception 22 excIllegalAddress)
          let vs ← s.getValues 22 a 1
          match vs with
          | cur :: _ =>
            let v := (cur &&& am) ||| (om &&& (am ^^^ 0xFFFF))
            let s' ← s.setValues 22 a [v]
            return (s', Resp.maskWrite a am om)
          | [] => .error .index : PyM (SlaveCtx × Resp)) with
       | .ok x => (absMem x.1, x.2)
       | .error _ => (absMem s, .exception 22 excSlaveFailure)) := by
  have ht : fxTable 22 = some .h := by decide
  have ht' : tableOf 22 = some .h := rfl
  unfold access effMask
  simp only [Bool.not_true, Bool.false_eq_true, if_false, ht']
  rcases blockOf_cases s 22 .h ht with ⟨hb, he⟩ | ⟨b, hb, he⟩
  · simp [validate_of_blockOf_err he, hb, bind, Except.bind, excSlaveFailure]
  · have hm : absMem s (s.idx .h) = b.cell := by simp [absMem, hb]
    have hk : s.idx .h < s.blocks.length := by
      rcases List.getElem?_eq_some_iff.1 hb with ⟨h, _⟩; exact h
    simp only [validate_of_blockOf he, getValues_of_blockOf he, setValues_of_blockOf he, layoutOf_zeroMode,
      layoutOf_tbl, layoutOf_broken, hb, Option.isNone_some,
      Bool.false_eq_true, if_false, bind, Except.bind, pure, Except.pure,
      List.all_cons, List.all_nil, Bool.and_true, hm]
    simp only [off_eq, ← validate_eq_populated b (s.off a) 1 (by omega)]
    cases hval : b.validate (s.off a) ((1 : Nat) : Int) with
    | false => simp [excIllegalAddress]
    | true =>
      simp only [Bool.not_true, Bool.false_eq_true, if_false]
      obtain ⟨ws, e1, e2, e3⟩ := get_spec b (s.off a) ((1 : Nat) : Int) (by omega) hval
      have e1' : b.get (s.off a) 1 = .ok ws := e1
      rw [e1']
      match ws, e2, e3 with
      | [cur], _, e3 =>
        have hc := e3 0 (by simp)
        simp only [Int.ofNat_zero, Int.add_zero, List.getElem?_cons_zero] at hc
        have hc' : b.cell (s.off a) = some cur := by simpa using hc
        simp only [hc']
        have hx : am ^^^ 0xFFFF = 0xFFFF - am := xor_ffff am ham
        have hval' : b.validate (s.off a) (([(cur &&& am) ||| (om &&& (0xFFFF - am))] : List Nat).length : Int) = true := hval
        simp only [hx, absMem_set s _ _ hk, set_eq_writeCells b _ _ hval']

theorem validate_after_set (b : Block) (a : Int) (vs : List Nat) (hv : b.validate a vs.length = true)
    (a' : Int) (n : Nat) (hn : 1 ≤ n) : (b.set a vs).validate a' n = b.validate a' n := by
  rw [Bool.eq_iff_iff, validate_iff _ _ _ (by omega), validate_iff _ _ _ (by omega)]
  unfold AllPopulated
  constructor
  · intro h k h0 h1; rw [← set_extent b a vs hv]; exact h k h0 h1
  · intro h k h0 h1; rw [set_extent b a vs hv]; exact h k h0 h1

theorem readWrite_refines (s : SlaveCtx) (ra rn wa : Nat) (wregs : List Nat)
    (hrn : 1 ≤ rn) (hwn : 1 ≤ wregs.length) :
    access (layoutOf s) (absMem s) 23 true [((wa : Int), wregs.length), ((ra : Int), rn)]
      (effReadWrite (absMem s) ra rn wa wregs) =
      (match (do
          if !(← s.validate 23 wa wregs.length) then return (s, Resp.exception 23 excIllegalAddress)
          if !(← s.validate 23 ra rn) then return (s, Resp.exception 23 excIllegalAddress)
          let s' ← s.setValues 23 wa wregs
          let regs ← s'.getValues 23 ra rn
          return (s', Resp.readWrite regs) : PyM (SlaveCtx × Resp)) with
       | .ok x => (absMem x.1, x.2)
       | .error _ => (absMem s, .exception 23 excSlaveFailure)) := by
  have ht : fxTable 23 = some .h := by decide
  have ht' : tableOf 23 = some .h := rfl
  unfold access effReadWrite
  simp only [Bool.not_true, Bool.false_eq_true, if_false, ht']
  rcases blockOf_cases s 23 .h ht with ⟨hb, he⟩ | ⟨b, hb, he⟩
  · simp [validate_of_blockOf_err he, hb, bind, Except.bind, excSlaveFailure]
  · have hm : absMem s (s.idx .h) = b.cell := by simp [absMem, hb]
    have hk : s.idx .h < s.blocks.length := by
      rcases List.getElem?_eq_some_iff.1 hb with ⟨h, _⟩; exact h
    simp only [validate_of_blockOf he, setValues_of_blockOf he, layoutOf_zeroMode,
      layoutOf_tbl, layoutOf_broken, hb, Option.isNone_some,
      Bool.false_eq_true, if_false, bind, Except.bind, pure, Except.pure,
      List.all_cons, List.all_nil, Bool.and_true, hm]
    simp only [off_eq, ← validate_eq_populated b (s.off wa) wregs.length hwn,
      ← validate_eq_populated b (s.off ra) rn hrn]
    cases hvw : b.validate (s.off wa) (wregs.length : Int) with
    | false => simp [excIllegalAddress]
    | true =>
      cases hvr : b.validate (s.off ra) (rn : Int) with
      | false => simp [excIllegalAddress]
      | true =>
        simp only [Bool.and_self, Bool.not_true, Bool.false_eq_true, if_false]
        have hs := blockOf_after_set s 23 .h ht b (b.set (s.off wa) wregs) hb
        rw [getValues_of_blockOf hs]
        have hoff : ({ s with blocks := s.blocks.set (s.idx .h) (b.set (s.off wa) wregs) } : SlaveCtx).off ra
            = s.off ra := rfl
        rw [hoff]
        have hvr' : (b.set (s.off wa) wregs).validate (s.off ra) rn = true := by
          rw [validate_after_set b _ _ hvw _ _ hrn]; exact hvr
        rw [get_eq_readCells _ _ _ hrn hvr']
        simp only [absMem_set s _ _ hk, set_eq_writeCells b _ _ hvw]

def Shape (s s' : SlaveCtx) : Prop :=
  s'.d = s.d ∧ s'.c = s.c ∧ s'.i = s.i ∧ s'.h = s.h ∧ s'.zeroMode = s.zeroMode ∧
  s'.blocks.length = s.blocks.length

theorem Shape.refl (s : SlaveCtx) : Shape s s := ⟨rfl, rfl, rfl, rfl, rfl, rfl⟩

theorem setValues_shape {s s' : SlaveCtx} {fc a vs} (h : s.setValues fc a vs = .ok s') : Shape s s' := by
  unfold SlaveCtx.setValues at h
  cases hb : s.blockOf fc with
  | error e => simp [hb, bind, Except.bind] at h
  | ok kb =>
    simp only [hb, bind, Except.bind, pure, Except.pure, Except.ok.injEq] at h
    subst h
    exact ⟨rfl, rfl, rfl, rfl, rfl, by simp⟩

theorem layoutOf_of_shape {s s' : SlaveCtx} (h : Shape s s') : layoutOf s' = layoutOf s := by
  obtain ⟨h1, h2, h3, h4, h5, h6⟩ := h
  simp only [layoutOf, Layout.mk.injEq]
  refine ⟨?_, h5, ?_⟩
  · funext t; cases t <;> simp [SlaveCtx.idx, *]
  · funext k
    by_cases hk : k < s.blocks.length
    · rw [List.getElem?_eq_getElem hk, List.getElem?_eq_getElem (by omega)]; rfl
    · rw [List.getElem?_eq_none (by omega), List.getElem?_eq_none (by omega)]

theorem readN_shape {s s' fc lim a n mk resp} (h : Impl.readN s fc lim a n mk = .ok (s', resp)) : Shape s s' := by
  unfold Impl.readN at h
  split at h
  · injection h with h; injection h with h1 h2; subst h1; exact Shape.refl _
  · cases hv : s.validate fc a n with
    | error e => simp [hv, bind, Except.bind] at h
    | ok v =>
      cases hg : s.getValues fc a n with
      | error e => 
        cases v <;> simp [hv, hg, bind, Except.bind, pure, Except.pure] at h
        exact h.1 ▸ Shape.refl _
      | ok vs =>
        cases v <;> simp [hv, hg, bind, Except.bind, pure, Except.pure] at h <;> exact h.1 ▸ Shape.refl _

theorem bind_ok {α β} {x : PyM α} {f : α → PyM β} {y : β} (h : (x >>= f) = .ok y) :
    ∃ a, x = .ok a ∧ f a = .ok y := by
  cases x with
  | error e => simp [bind, Except.bind] at h
  | ok a => exact ⟨a, rfl, h⟩

theorem ok_inj {s s' : SlaveCtx} {r r' : Resp} (h : (pure (s, r) : PyM (SlaveCtx × Resp)) = .ok (s', r')) : s = s' := by
  injection h with h; injection h

theorem writeOne_shape {s s' fc a v mk resp} (h : Impl.writeOne s fc a v mk = .ok (s', resp)) : Shape s s' := by
  unfold Impl.writeOne at h
  obtain ⟨b, _, h⟩ := bind_ok h
  split at h
  · exact ok_inj h ▸ Shape.refl _
  · obtain ⟨s1, hs1, h⟩ := bind_ok h
    obtain ⟨vs, _, h⟩ := bind_ok h
    split at h
    · exact ok_inj h ▸ setValues_shape hs1
    · cases h

theorem execute_shape {s s' r resp} (h : Impl.execute s r = .ok (s', resp)) : Shape s s' := by
  cases r <;> simp only [Impl.execute] at h
  case readCoils => exact readN_shape h
  case readDiscrete => exact readN_shape h
  case readHolding => exact readN_shape h
  case readInput => exact readN_shape h
  case writeCoil =>
    split at h
    · injection h with h; injection h with h1 h2; exact h1 ▸ Shape.refl _
    · exact writeOne_shape h
  case writeRegister =>
    split at h
    · injection h with h; injection h with h1 h2; exact h1 ▸ Shape.refl _
    · exact writeOne_shape h
  case writeCoils =>
    repeat (split at h; · injection h with h; injection h with h1 h2; exact h1 ▸ Shape.refl _)
    obtain ⟨b, _, h⟩ := bind_ok h
    split at h
    · exact ok_inj h ▸ Shape.refl _
    · obtain ⟨s1, hs1, h⟩ := bind_ok h
      exact ok_inj h ▸ setValues_shape hs1
  case writeRegisters =>
    repeat (split at h; · injection h with h; injection h with h1 h2; exact h1 ▸ Shape.refl _)
    obtain ⟨b, _, h⟩ := bind_ok h
    split at h
    · exact ok_inj h ▸ Shape.refl _
    · obtain ⟨s1, hs1, h⟩ := bind_ok h
      exact ok_inj h ▸ setValues_shape hs1
  case maskWrite =>
    repeat (split at h; · injection h with h; injection h with h1 h2; exact h1 ▸ Shape.refl _)
    obtain ⟨b, _, h⟩ := bind_ok h
    split at h
    · exact ok_inj h ▸ Shape.refl _
    · obtain ⟨vs, _, h⟩ := bind_ok h
      split at h
      · obtain ⟨s1, hs1, h⟩ := bind_ok h
        exact ok_inj h ▸ setValues_shape hs1
      · cases h
  case readWrite =>
    repeat (split at h; · injection h with h; injection h with h1 h2; exact h1 ▸ Shape.refl _)
    obtain ⟨b, _, h⟩ := bind_ok h
    split at h
    · exact ok_inj h ▸ Shape.refl _
    · obtain ⟨b2, _, h⟩ := bind_ok h
      split at h
      · exact ok_inj h ▸ Shape.refl _
      · obtain ⟨s1, hs1, h⟩ := bind_ok h
        obtain ⟨regs, _, h⟩ := bind_ok h
        exact ok_inj h ▸ setValues_shape hs1
  case illegalFunction =>
    injection h with h; injection h with h1 h2; exact h1 ▸ Shape.refl _
  all_goals cases h

end Pymodbus
