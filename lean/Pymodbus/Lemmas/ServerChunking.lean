/-
  Lemmas that connect the server front-end model (Model/Server.lean) with the chunk-history function `feedAll` of the
  framer proofs: requests never change WHICH units a context hosts, `handleEvents` distributes over the concatenation of
  event lists, and a connection served chunk by chunk is the framer fed chunk by chunk followed by the callback.
-/
import Pymodbus.Model.Server
import Pymodbus.Lemmas.FramerGeneric
namespace Pymodbus.Server
open Pymodbus Pymodbus.Framer

/-! ### the hosted set is not changed by requests -/

theorem insert_keys {σ : Type} (l : List (Int × σ)) (k : Int) (v v' : σ) (h : ServerCtx.lookup l k = some v) :
    (ServerCtx.insert l k v').map (·.1) = l.map (·.1) := by
  induction l with
  | nil => simp [ServerCtx.lookup] at h
  | cons kv r ih =>
    obtain ⟨k', w⟩ := kv
    simp only [ServerCtx.lookup] at h
    simp only [ServerCtx.insert]
    split
    · rfl
    · next hne =>
      rw [if_neg hne] at h
      simp only [List.map_cons, ih h]

theorem broadcastAll_keys (r : Req) (ctl : Control) (l : List (Int × SlaveCtx)) :
    (broadcastAll r ctl l).2.map (·.1) = l.map (·.1) := by
  induction l generalizing ctl with
  | nil => rfl
  | cons kv rest ih =>
    obtain ⟨k, s⟩ := kv
    simp only [broadcastAll]
    split
    · rfl
    · simp only [List.map_cons, ih]

theorem callback_keys (cfg : Cfg) (w : World) (r : Req) (uid : Nat) :
    (callback cfg w r uid).1.units.slaves.map (·.1) = w.units.slaves.map (·.1) ∧
    (callback cfg w r uid).1.units.single = w.units.single := by
  unfold callback
  split
  · exact ⟨broadcastAll_keys _ _ _, rfl⟩
  · split
    · split <;> exact ⟨rfl, rfl⟩
    · next s hs =>
      refine ⟨?_, rfl⟩
      simp only [ServerCtx.getItem] at hs
      split at hs
      · next c hc =>
        simp only []
        exact insert_keys _ _ c _ (by simpa using hc)
      · cases hs

theorem countMessage_units (cfg : Cfg) (w : World) : (countMessage cfg w).units = w.units := by
  unfold countMessage; split <;> rfl

theorem handleEvents_keys (cfg : Cfg) (w : World) (evs : List (Ev Req)) :
    (handleEvents cfg w evs).1.units.slaves.map (·.1) = w.units.slaves.map (·.1) ∧
    (handleEvents cfg w evs).1.units.single = w.units.single := by
  induction evs generalizing w with
  | nil => exact ⟨rfl, rfl⟩
  | cons e rest ih =>
    cases e with
    | raised e => exact ⟨rfl, rfl⟩
    | deliver r uid tid pid =>
      have hc := callback_keys cfg w r uid
      simp only [handleEvents]
      split
      · next hr => rw [(ih _).1, (ih _).2]; exact hc
      · next rp hr =>
        split
        · rw [(ih _).1, (ih _).2]; exact hc
        · split
          · simp only [countMessage_units]; exact hc
          · rw [(ih _).1, (ih _).2]; simp only [countMessage_units]; exact hc

theorem hosted_of_keys (a b : Units) (h : a.slaves.map (·.1) = b.slaves.map (·.1)) : hosted a = hosted b := by
  unfold hosted
  have : ∀ l : List (Int × SlaveCtx), l.map (fun kv => kv.1.toNat) = (l.map (·.1)).map Int.toNat := by
    intro l; simp [List.map_map]
  rw [this, this, h]

theorem handleEvents_accepted (cfg : Cfg) (w : World) (evs : List (Ev Req)) :
    acceptedUnits cfg (handleEvents cfg w evs).1.units = acceptedUnits cfg w.units ∧
    (handleEvents cfg w evs).1.units.single = w.units.single := by
  obtain ⟨hk, hs⟩ := handleEvents_keys cfg w evs
  refine ⟨?_, hs⟩
  unfold acceptedUnits
  rw [hosted_of_keys _ _ hk]

/-! ### `handleEvents` over a concatenation -/

theorem handleEvents_append (cfg : Cfg) (w : World) (a b : List (Ev Req))
    (ha : (handleEvents cfg w a).2.2 = none) :
    handleEvents cfg w (a ++ b) =
      ((handleEvents cfg (handleEvents cfg w a).1 b).1,
       (handleEvents cfg w a).2.1 ++ (handleEvents cfg (handleEvents cfg w a).1 b).2.1,
       (handleEvents cfg (handleEvents cfg w a).1 b).2.2) := by
  induction a generalizing w with
  | nil => simp [handleEvents]
  | cons e rest ih =>
    cases e with
    | raised e => simp [handleEvents] at ha
    | deliver r uid tid pid =>
      simp only [List.cons_append, handleEvents] at ha ⊢
      split
      · next hr => simp only [hr] at ha; rw [ih _ ha]
      · next rp hr =>
        simp only [hr] at ha
        split
        · next hsr => simp only [hsr] at ha; rw [ih _ ha]
        · next hsr =>
          simp only [hsr] at ha
          split
          · next e he => simp [he] at ha
          · next f hf =>
            simp only [hf] at ha
            rw [ih _ ha]
            simp

/-- if the whole list goes through without an escaping exception, so does every prefix -/
theorem handleEvents_prefix_ok (cfg : Cfg) (w : World) (a b : List (Ev Req))
    (h : (handleEvents cfg w (a ++ b)).2.2 = none) : (handleEvents cfg w a).2.2 = none := by
  induction a generalizing w with
  | nil => rfl
  | cons e rest ih =>
    cases e with
    | raised e => simp [handleEvents] at h
    | deliver r uid tid pid =>
      simp only [List.cons_append, handleEvents] at h ⊢
      split
      · next hr => simp only [hr] at h; exact ih _ h
      · next rp hr =>
        simp only [hr] at h
        split
        · next hsr => simp only [hsr] at h; exact ih _ h
        · next hsr =>
          simp only [hsr] at h
          split
          · next e he => simp [he] at h
          · next f hf => simp only [hf] at h; exact ih _ h

end Pymodbus.Server
