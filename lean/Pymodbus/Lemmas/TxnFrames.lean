/-
  The frames the four framers build for a reply the library can encode are `Txn.Conformant` (read whole by `_recv`,
  kept by the retry loop, decoded by a fresh client-side receiver to the value sent, accepted by `_addReply`):
  instantiation of the generic transaction theorems with the codec round trip (Props/C02) and the frame round trip
  (Props/C03).  Response classes: C01's `WFResp` (data access, diagnostics, "other" function codes, exceptions).
-/
import Pymodbus.Lemmas.Txn
import Pymodbus.Props.C03
namespace Pymodbus.Txn
open Framer Pymodbus.Props

theorem normResp_fc (r : Resp) : (PduSpec.normResp r).fc = r.fc := by
  cases r with
  | diag sub m => cases m <;> rfl
  | _ => rfl

theorem tcpFrame_length (tid pid uid fc : Nat) (data : Bytes) : (tcpFrame tid pid uid fc data).length = 8 + data.length := by
  simp [tcpFrame]; omega

theorem tcpFrame_take8 (tid pid uid fc : Nat) (data : Bytes) :
    (tcpFrame tid pid uid fc data).take 8 =
      [tid / 256, tid % 256, pid / 256, pid % 256, (data.length + 2) / 256, (data.length + 2) % 256, uid, fc] := by
  simp [tcpFrame]

/-- the MBAP frame of a reply the library can encode is `Conformant` for every request it answers: all
    response classes of C01's `WFResp` (data access, diagnostics, the "other" function codes) and exception
    replies, every unit and transaction id, TCP and UDP transports -/
theorem tcp_conformant (cfg : Cfg) (req : Request) (tid : Nat) (r : Resp) (data : Bytes)
    (hf : cfg.framer = .tcp) (hw : C01.WFResp r) (he : Impl.encResp r = .ok data)
    (hfc : r.fc = req.pdu.fc ∨ r.fc = req.pdu.fc ||| 0x80)
    (hexc : 128 ≤ r.fc → data.length = 1) (hlen : data.length + 2 < 65536)
    (hudp : cfg.transport = .udp → 8 + data.length ≤ 1024) :
    Conformant cfg req tid (tcpFrame tid 0 req.unit r.fc data) ⟨PduSpec.normResp r, req.unit, tid⟩ := by
  have hexp : ∀ e, expectedLen cfg req.pdu = some e → cfg.transport = .udp ∧ e = 1024 := by
    intro e h
    unfold expectedLen at h
    simp only [hf, if_true] at h
    split at h
    · next hu => simp at h; exact ⟨hu, h.symm⟩
    · cases h
  have hl := tcpFrame_length tid 0 req.unit r.fc data
  have hbe : be16at [tid / 256, tid % 256, 0 / 256, 0 % 256, (data.length + 2) / 256, (data.length + 2) % 256, req.unit, r.fc] 4
      = data.length + 2 := by simp [be16at]; omega
  refine ⟨⟨by rw [hf, hl]; simp [minSize], ⟨Int.ofNat r.fc, ?_, ?_⟩, ?_⟩, ?_, ?_, ?_⟩
  · rw [hf]; simp only [minSize, tcpFrame_take8, peekFc]; rfl
  · intro k hk
    rw [hf] at hk ⊢
    simp only [minSize, tcpFrame_take8, restSize, if_true, hbe] at hk
    rw [hl]
    by_cases h128 : (Int.ofNat r.fc) < 128
    · rw [if_pos h128] at hk
      simp only [Option.map_some, Option.some.injEq] at hk
      simp only [Int.ofNat_eq_natCast, minSize] at hk ⊢
      omega
    · rw [if_neg h128] at hk
      simp only [Option.some.injEq, excLen] at hk
      have := hexc (by simp only [Int.ofNat_eq_natCast] at h128; omega)
      simp only [Int.ofNat_eq_natCast, minSize] at hk ⊢
      omega
  · intro e h
    obtain ⟨hu, rfl⟩ := hexp e h
    have := hudp hu
    rw [hl]; simp only [Int.ofNat_eq_natCast]; omega
  · -- the retry loop keeps it
    unfold shouldRetry
    have hne : tcpFrame tid 0 req.unit r.fc data ≠ [] := by simp [tcpFrame]
    rw [if_neg hne]
    by_cases hri : cfg.retryOnInvalid = true
    · simp only [hri, Bool.not_true, Bool.false_eq_true, if_false]
      have : decodeData cfg.framer (tcpFrame tid 0 req.unit r.fc data) =
          some (Int.ofNat req.unit, some (data.length + 2)) := by
        rw [hf]; simp only [decodeData, hl]
        rw [if_pos (by omega)]
        simp [tcpFrame, be16at]; omega
      rw [this]; simp
    · simp [hri]
  · -- a fresh receiver decodes it
    have hrt := C03.response_roundtrip .tcp r hw [req.unit] false
      ⟨tcpFrame tid 0 req.unit r.fc data, r.fc :: data, req.unit, tid, 0, PduSpec.normResp r⟩
      ⟨data, he, rfl, rfl⟩ (by simp [validUnit]) (by intro d hd; simp only [List.cons.injEq, true_and] at hd; subst hd; rfl)
    refine ⟨0, ?_⟩
    rw [hf]
    exact hrt
  · simp only [accepts, normResp_fc, hf]
    rcases hfc with h | h <;> simp [h]


/-- the size `execute` predicted (`get_response_pdu_size`) does not contradict the reply: a normal reply has
    exactly the predicted ADU length (C14 proves the prediction exact for the replies the server really sends), an
    exception reply is not longer than it; requests without a prediction read what arrives -/
def ExpectedOk (cfg : Cfg) (req : Request) (fc len : Nat) : Prop :=
  ∀ e, expectedLen cfg req.pdu = some e → e = Int.ofNat len ∨ (128 ≤ fc ∧ Int.ofNat len ≤ e)

theorem fits_of_expectedOk (cfg : Cfg) (req : Request) (fc : Nat) (X : Bytes)
    (hne : cfg.framer ≠ .tcp) (hlong : minSize cfg.framer ≤ X.length)
    (hpeek : peekFc cfg.framer (X.take (minSize cfg.framer)) = some (Int.ofNat fc))
    (hexc : 128 ≤ fc → X.length = excLen cfg.framer) (hexp : ExpectedOk cfg req fc X.length) :
    Fits cfg.framer (expectedLen cfg req.pdu) X := by
  refine ⟨hlong, ⟨Int.ofNat fc, hpeek, ?_⟩, ?_⟩
  · intro k hk
    unfold restSize at hk
    by_cases h128 : Int.ofNat fc < 128
    · rw [if_pos h128, if_neg hne] at hk
      cases hex : expectedLen cfg req.pdu with
      | none => rw [hex] at hk; cases hk
      | some e =>
        rw [hex] at hk
        simp only [Option.map_some, Option.some.injEq] at hk
        rcases hexp e hex with h | ⟨h, _⟩
        · rw [← hk, h]
        · simp only [Int.ofNat_eq_natCast] at h128; omega
    · rw [if_neg h128] at hk
      simp only [Option.some.injEq] at hk
      have := hexc (by simp only [Int.ofNat_eq_natCast] at h128; omega)
      rw [← hk, this]
  · intro e he
    rcases hexp e he with h | ⟨_, h⟩
    · rw [h]; exact Int.le_refl _
    · exact h

theorem rtu_conformant (cfg : Cfg) (req : Request) (tid : Nat) (r : Resp) (data : Bytes)
    (hf : cfg.framer = .rtu) (hw : C01.WFResp r) (he : Impl.encResp r = .ok data)
    (hfc : r.fc = req.pdu.fc ∨ r.fc = req.pdu.fc ||| 0x80)
    (hexc : 128 ≤ r.fc → data.length = 1)
    (hsized : RtuSized rtuRuleClient (rtuFrame req.unit r.fc data))
    (hexp : ExpectedOk cfg req r.fc (data.length + 4)) :
    Conformant cfg req tid (rtuFrame req.unit r.fc data) ⟨PduSpec.normResp r, req.unit, req.unit⟩ := by
  have hl := rtuFrame_length req.unit r.fc data
  have hne : cfg.framer ≠ .tcp := by rw [hf]; decide
  refine ⟨fits_of_expectedOk cfg req r.fc _ hne (by rw [hf, hl]; simp [minSize]) ?_ ?_ (by rw [hl]; exact hexp), ?_, ?_, ?_⟩
  · rw [hf]; simp [minSize, peekFc, rtuFrame]
  · intro h; rw [hf, hl, hexc h]; rfl
  · unfold shouldRetry
    have hne' : rtuFrame req.unit r.fc data ≠ [] := by simp [rtuFrame]
    rw [if_neg hne']
    by_cases hri : cfg.retryOnInvalid = true
    · simp only [hri, Bool.not_true, Bool.false_eq_true, if_false]
      have : decodeData cfg.framer (rtuFrame req.unit r.fc data) = some (Int.ofNat req.unit, none) := by
        rw [hf]; simp only [decodeData, hl]
        rw [if_pos (by omega)]
        simp [rtuFrame]
      rw [this]; simp
    · simp [hri]
  · have hrt := C03.response_roundtrip (.rtu rtuRuleClient) r hw [req.unit] false
      ⟨rtuFrame req.unit r.fc data, r.fc :: data, req.unit, req.unit, 0, PduSpec.normResp r⟩
      ⟨data, he, rfl, rfl⟩ (by simp [validUnit])
      (by intro d hd; simp only [List.cons.injEq, true_and] at hd; subst hd; exact ⟨rfl, rfl, rfl, hsized⟩)
    refine ⟨0, ?_⟩
    rw [hf]
    exact hrt
  · simp only [accepts, normResp_fc, hf]
    rcases hfc with h | h <;> simp [h]

theorem binary_conformant (cfg : Cfg) (req : Request) (tid : Nat) (r : Resp) (data : Bytes)
    (hf : cfg.framer = .binary) (hw : C01.WFResp r) (he : Impl.encResp r = .ok data)
    (hfc : r.fc = req.pdu.fc ∨ r.fc = req.pdu.fc ||| 0x80)
    (hexc : 128 ≤ r.fc → data.length = 1)
    (hnd : NoEnd (binBody req.unit r.fc data))
    (hexp : ExpectedOk cfg req r.fc (data.length + 6)) :
    Conformant cfg req tid (binFrame req.unit r.fc data) ⟨PduSpec.normResp r, req.unit, 0⟩ := by
  have hl := binFrame_length req.unit r.fc data
  have hne : cfg.framer ≠ .tcp := by rw [hf]; decide
  refine ⟨fits_of_expectedOk cfg req r.fc _ hne (by rw [hf, hl]; simp [minSize]) ?_ ?_ (by rw [hl]; exact hexp), ?_, ?_, ?_⟩
  · rw [hf]; simp [minSize, peekFc, binFrame, binBody]
  · intro h; rw [hf, hl, hexc h]; rfl
  · unfold shouldRetry
    have hne' : binFrame req.unit r.fc data ≠ [] := by simp [binFrame]
    rw [if_neg hne']
    by_cases hri : cfg.retryOnInvalid = true
    · simp only [hri, Bool.not_true, Bool.false_eq_true, if_false]
      have : decodeData cfg.framer (binFrame req.unit r.fc data) = some (Int.ofNat req.unit, none) := by
        rw [hf]; simp only [decodeData, hl]
        rw [if_pos (by omega)]
        simp [binFrame, binBody]
      rw [this]; simp
    · simp [hri]
  · have hrt := C03.response_roundtrip .binary r hw [req.unit] false
      ⟨binFrame req.unit r.fc data, r.fc :: data, req.unit, 0, 0, PduSpec.normResp r⟩
      ⟨data, he, rfl, rfl⟩ (by simp [validUnit])
      (by intro d hd; simp only [List.cons.injEq, true_and] at hd; subst hd; exact ⟨rfl, rfl, rfl, hnd⟩)
    refine ⟨0, ?_⟩
    rw [hf]
    exact hrt
  · simp only [accepts, normResp_fc, hf]
    rcases hfc with h | h <;> simp [h]


theorem pyIntHex_upper (v : Nat) (h : v < 256) :
    pyIntHex [upperHexDigit (v / 16), upperHexDigit (v % 16)] = some (Int.ofNat v) := by
  have h1 := hexVal_upper (v / 16) (by omega)
  have h2 := hexVal_upper (v % 16) (by omega)
  simp only [pyIntHex, h1, h2]
  congr 2; omega

theorem asciiFrame_head (uid fc : Nat) (data : Bytes) :
    ∃ tail, asciiFrame uid fc data =
      [58, upperHexDigit (uid / 16), upperHexDigit (uid % 16), upperHexDigit (fc / 16), upperHexDigit (fc % 16)] ++ tail := by
  refine ⟨b2aHexUpper (data ++ [asciiLrc uid fc data]) ++ [13, 10], ?_⟩
  simp [asciiFrame, b2aHexUpper]

theorem ascii_conformant (cfg : Cfg) (req : Request) (tid : Nat) (r : Resp) (data : Bytes)
    (hf : cfg.framer = .ascii) (hw : C01.WFResp r) (he : Impl.encResp r = .ok data)
    (hfc : r.fc = req.pdu.fc ∨ r.fc = req.pdu.fc ||| 0x80)
    (hexc : 128 ≤ r.fc → data.length = 1)
    (hu : req.unit < 256) (hfcb : r.fc < 256) (hd : Bytes.WF data)
    (hexp : ExpectedOk cfg req r.fc (2 * data.length + 9)) :
    Conformant cfg req tid (asciiFrame req.unit r.fc data) ⟨PduSpec.normResp r, req.unit, 0⟩ := by
  have hl := asciiFrame_length req.unit r.fc data
  obtain ⟨tail, htail⟩ := asciiFrame_head req.unit r.fc data
  have hne : cfg.framer ≠ .tcp := by rw [hf]; decide
  refine ⟨fits_of_expectedOk cfg req r.fc _ hne (by rw [hf, hl]; simp [minSize]) ?_ ?_ (by rw [hl]; exact hexp), ?_, ?_, ?_⟩
  · rw [hf, htail]; simp only [minSize, peekFc]
    simp only [List.take, List.cons_append, List.drop, List.nil_append]
    exact pyIntHex_upper r.fc hfcb
  · intro h; rw [hf, hl, hexc h]; rfl
  · unfold shouldRetry
    have hne' : asciiFrame req.unit r.fc data ≠ [] := by rw [htail]; simp
    rw [if_neg hne']
    by_cases hri : cfg.retryOnInvalid = true
    · simp only [hri, Bool.not_true, Bool.false_eq_true, if_false]
      have : decodeData cfg.framer (asciiFrame req.unit r.fc data) = some (Int.ofNat req.unit, none) := by
        rw [hf]; simp only [decodeData, hl]
        rw [if_pos (by omega), htail]
        simp only [List.cons_append, List.drop, List.take, List.nil_append]
        rw [pyIntHex_upper req.unit hu, pyIntHex_upper r.fc hfcb]
      rw [this]; simp
    · simp [hri]
  · have hrt := C03.response_roundtrip .ascii r hw [req.unit] false
      ⟨asciiFrame req.unit r.fc data, r.fc :: data, req.unit, 0, 0, PduSpec.normResp r⟩
      ⟨data, he, rfl, rfl⟩ (by simp [validUnit])
      (by intro d hd'; simp only [List.cons.injEq, true_and] at hd'; subst hd'; exact ⟨rfl, rfl, rfl, hu, hfcb, hd⟩)
    refine ⟨0, ?_⟩
    rw [hf]
    exact hrt
  · simp only [accepts, normResp_fc, hf]
    rcases hfc with h | h <;> simp [h]

end Pymodbus.Txn
