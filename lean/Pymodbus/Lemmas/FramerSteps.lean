/- Per-framer facts for the generic receive-loop theory: the frame a framer builds is recognised whole
   (whatever follows it) and every proper prefix of it makes the receiver wait. -/
import Pymodbus.Lemmas.FramerGeneric
import Pymodbus.Lemmas.Store
import Pymodbus.Props.Checksum
namespace Pymodbus.Framer
open Pymodbus


/-! ### TCP -/

def tcpFrame (tid pid uid fc : Nat) (data : Bytes) : Bytes :=
  [tid / 256, tid % 256, pid / 256, pid % 256, (data.length + 2) / 256, (data.length + 2) % 256, uid, fc] ++ data

theorem tcpBuild_eq {tid pid uid fc : Nat} {data : Bytes}
    (h : tid < 65536 ∧ pid < 65536 ∧ data.length + 2 < 65536 ∧ uid < 256 ∧ fc < 256) :
    tcpBuild tid pid uid fc data = .ok (tcpFrame tid pid uid fc data) := by
  simp [tcpBuild, tcpFrame, h]

theorem tcp_whole (tid pid uid fc : Nat) (data rest : Bytes) :
    tcpStep (tcpFrame tid pid uid fc data ++ rest) =
      .frame (tcpFrame tid pid uid fc data).length (fc :: data) uid tid pid := by
  have hlen : (tcpFrame tid pid uid fc data).length = 8 + data.length := by simp [tcpFrame]; omega
  unfold tcpStep
  have h7 : ¬ (tcpFrame tid pid uid fc data ++ rest).length ≤ 7 := by simp [hlen]; omega
  rw [if_neg h7]
  have e0 : be16at (tcpFrame tid pid uid fc data ++ rest) 0 = tid := by simp [be16at, tcpFrame]; omega
  have e2 : be16at (tcpFrame tid pid uid fc data ++ rest) 2 = pid := by simp [be16at, tcpFrame]; omega
  have e4 : be16at (tcpFrame tid pid uid fc data ++ rest) 4 = data.length + 2 := by simp [be16at, tcpFrame]; omega
  have e6 : (tcpFrame tid pid uid fc data ++ rest).getD 6 0 = uid := by simp [tcpFrame]
  simp only [e0, e2, e4, e6]
  rw [if_neg (by omega), if_pos (by simp [hlen]; omega)]
  have hp : ((tcpFrame tid pid uid fc data ++ rest).drop 7).take (data.length + 2 - 1) = fc :: data := by
    simp [tcpFrame]
  rw [hp, hlen]
  congr 1; omega

theorem tcp_partial (tid pid uid fc : Nat) (data : Bytes) (k : Nat)
    (hk : k < (tcpFrame tid pid uid fc data).length) :
    tcpStep ((tcpFrame tid pid uid fc data).take k) = .wait := by
  have hlen : (tcpFrame tid pid uid fc data).length = 8 + data.length := by simp [tcpFrame]; omega
  unfold tcpStep
  by_cases h7 : ((tcpFrame tid pid uid fc data).take k).length ≤ 7
  · rw [if_pos h7]
  · rw [if_neg h7]
    have hk8 : 8 ≤ k := by simp at h7; omega
    have e4 : be16at ((tcpFrame tid pid uid fc data).take k) 4 = data.length + 2 := by
      simp only [be16at, tcpFrame]
      rw [List.getD_eq_getElem?_getD, List.getD_eq_getElem?_getD, List.getElem?_take, List.getElem?_take]
      simp [show 4 < k by omega, show 5 < k by omega]; omega
    simp only [e4]
    rw [if_neg (by omega), if_neg (by simp [hlen]; omega)]



def rtuFrame (uid fc : Nat) (data : Bytes) : Bytes :=
  [uid, fc] ++ data ++ [Impl.computeCRC ([uid, fc] ++ data) / 256, Impl.computeCRC ([uid, fc] ++ data) % 256]

theorem rtuBuild_eq {uid fc : Nat} {data : Bytes} (h : uid < 256 ∧ fc < 256) :
    rtuBuild uid fc data = .ok (rtuFrame uid fc data) := by
  simp [rtuBuild, rtuFrame, h]

theorem rtuFrame_length (uid fc : Nat) (data : Bytes) : (rtuFrame uid fc data).length = data.length + 4 := by
  simp [rtuFrame]

/-- the length oracle of the decoder recognises the frame (from any extension of it) and is not fooled by a
    proper prefix of it -/
structure RtuSized (rule : Nat → RtuRule) (f : Bytes) : Prop where
  whole : ∀ rest, rtuSize rule (f ++ rest) = .ok f.length
  pre : ∀ k n, k < f.length → rtuSize rule (f.take k) = .ok n → n = f.length

theorem be16at_append (p rest : Bytes) (c : Nat) :
    be16at (p ++ ([c / 256, c % 256] ++ rest)) p.length = c := by
  simp only [be16at, List.getD_eq_getElem?_getD]
  have h0 : (p ++ ([c / 256, c % 256] ++ rest))[p.length]? = some (c / 256) := by
    rw [List.getElem?_append_right (Nat.le_refl _)]; simp
  have h1 : (p ++ ([c / 256, c % 256] ++ rest))[p.length + 1]? = some (c % 256) := by
    rw [List.getElem?_append_right (by omega)]; simp
  rw [h0, h1]; simp; omega

theorem rtu_whole (rule : Nat → RtuRule) (uid fc : Nat) (data rest : Bytes)
    (hs : RtuSized rule (rtuFrame uid fc data)) :
    rtuStep rule (rtuFrame uid fc data ++ rest) =
      .frame (rtuFrame uid fc data).length (fc :: data) uid uid 0 := by
  have hlen := rtuFrame_length uid fc data
  unfold rtuStep
  rw [if_neg (by simp [hlen]; omega), hs.whole rest]
  simp only []
  rw [if_neg (by simp [hlen])]
  have hc := Props.Checksum.crc_lt ([uid, fc] ++ data)
  have htake : (rtuFrame uid fc data ++ rest).take ((rtuFrame uid fc data).length - 2) = [uid, fc] ++ data := by
    have : (rtuFrame uid fc data).length - 2 = ([uid, fc] ++ data).length := by simp [hlen]
    rw [this]
    simp only [rtuFrame, List.append_assoc]
    exact List.take_left
  have hcrc : be16at (rtuFrame uid fc data ++ rest) ((rtuFrame uid fc data).length - 2) =
      Impl.computeCRC ([uid, fc] ++ data) := by
    have : (rtuFrame uid fc data).length - 2 = ([uid, fc] ++ data).length := by simp [hlen]
    rw [this]
    have hsplit : rtuFrame uid fc data ++ rest = ([uid, fc] ++ data) ++
        ([Impl.computeCRC ([uid, fc] ++ data) / 256, Impl.computeCRC ([uid, fc] ++ data) % 256] ++ rest) := by
      simp [rtuFrame]
    rw [hsplit]
    exact be16at_append _ _ _
  rw [htake, hcrc]
  have hck : Impl.checkCRC ([uid, fc] ++ data) (Impl.computeCRC ([uid, fc] ++ data)) = true := by
    simp [Impl.checkCRC]
  rw [if_pos ⟨by omega, hck⟩]
  simp [rtuFrame]

theorem rtu_partial (rule : Nat → RtuRule) (uid fc : Nat) (data : Bytes) (k : Nat)
    (hs : RtuSized rule (rtuFrame uid fc data)) (hk : k < (rtuFrame uid fc data).length) :
    rtuStep rule ((rtuFrame uid fc data).take k) = .wait := by
  unfold rtuStep
  split
  · rfl
  · cases h : rtuSize rule ((rtuFrame uid fc data).take k) with
    | error e => rfl
    | ok n =>
      have := hs.pre k n hk h
      simp only []
      rw [if_pos (by simp [this]; omega)]



theorem pySlice_mid (a b c : Bytes) (i j : Int) (hi : i = a.length) (hj : j = a.length + b.length) :
    pySlice (a ++ b ++ c) i j = b := by
  rw [pySlice_nat (a ++ b ++ c) i j a.length b.length hi (by omega) (by simp)]
  simp

theorem hexVal_upper (n : Nat) (h : n < 16) : hexVal (upperHexDigit n) = some n := by
  unfold hexVal upperHexDigit
  split
  · rw [if_pos (by omega)]; congr 1; omega
  · rw [if_neg (by omega), if_pos (by omega)]; congr 1; omega

theorem a2b_b2a (bs : Bytes) (h : Bytes.WF bs) : a2bHex (b2aHexUpper bs) = some bs := by
  induction bs with
  | nil => rfl
  | cons b bs ih =>
    have hb : b < 256 := h b (by simp)
    have ht : Bytes.WF bs := fun x hx => h x (by simp [hx])
    simp only [b2aHexUpper, List.flatMap_cons, List.cons_append, List.nil_append, a2bHex] at ih ⊢
    rw [hexVal_upper _ (by omega), hexVal_upper _ (by omega)]
    rw [ih ht]
    simp; omega

theorem b2a_length (bs : Bytes) : (b2aHexUpper bs).length = 2 * bs.length := by
  induction bs with
  | nil => rfl
  | cons b bs ih => simp [b2aHexUpper] at ih ⊢; omega

theorem b2a_append (a b : Bytes) : b2aHexUpper (a ++ b) = b2aHexUpper a ++ b2aHexUpper b := by
  simp [b2aHexUpper]

/-- upper-case hex digits are never CR, LF, ':' -/
theorem hex_chars (bs : Bytes) (h : Bytes.WF bs) : ∀ c ∈ b2aHexUpper bs, (48 ≤ c ∧ c ≤ 57) ∨ (65 ≤ c ∧ c ≤ 70) := by
  intro c hc
  simp only [b2aHexUpper, List.mem_flatMap, List.mem_cons, List.not_mem_nil, or_false] at hc
  obtain ⟨b, hb, hcb⟩ := hc
  have := h b hb
  unfold upperHexDigit at hcb
  rcases hcb with rfl | rfl <;> split <;> omega

theorem findCRLF_none_of_no13 (l : Bytes) (h : ∀ c ∈ l, c ≠ 13) : findCRLF l = none := by
  induction l with
  | nil => rfl
  | cons x xs ih =>
    cases xs with
    | nil => rfl
    | cons y ys =>
      have hx : x ≠ 13 := h x (by simp)
      simp only [findCRLF]
      rw [if_neg (by omega), ih (fun c hc => h c (by simp [hc]))]; rfl

theorem findCRLF_prefix (l rest : Bytes) (h : ∀ c ∈ l, c ≠ 13) :
    findCRLF (l ++ [13, 10] ++ rest) = some l.length := by
  induction l with
  | nil => simp [findCRLF]
  | cons x xs ih =>
    have hx : x ≠ 13 := h x (by simp)
    have := ih (fun c hc => h c (by simp [hc]))
    cases xs with
    | nil =>
      show findCRLF (x :: 13 :: 10 :: rest) = some 1
      simp only [findCRLF]
      rw [if_neg (by omega)]; simp
    | cons y ys =>
      show findCRLF (x :: y :: (ys ++ [13, 10] ++ rest)) = some (ys.length + 1 + 1)
      have this' : findCRLF (y :: (ys ++ [13, 10] ++ rest)) = some (ys.length + 1) := this
      simp only [findCRLF]
      rw [if_neg (by omega), this']; simp

theorem findCRLF_no13_then13 (l : Bytes) (h : ∀ c ∈ l, c ≠ 13) : findCRLF (l ++ [13]) = none := by
  induction l with
  | nil => rfl
  | cons x xs ih =>
    have hx : x ≠ 13 := h x (by simp)
    have := ih (fun c hc => h c (by simp [hc]))
    cases xs with
    | nil => simp only [List.cons_append, List.nil_append, findCRLF]; rw [if_neg (by omega)]; rfl
    | cons y ys =>
      simp only [List.cons_append, findCRLF] at this ⊢
      rw [if_neg (by omega), this]; rfl


def asciiLrc (uid fc : Nat) (data : Bytes) : Nat := Impl.computeLRC (data ++ [uid, fc])

def asciiFrame (uid fc : Nat) (data : Bytes) : Bytes :=
  [58] ++ b2aHexUpper ([uid, fc] ++ data ++ [asciiLrc uid fc data]) ++ [13, 10]

theorem asciiBuild_eq {uid fc : Nat} {data : Bytes} (h : uid < 256 ∧ fc < 256) :
    asciiBuild uid fc data = .ok (asciiFrame uid fc data) := by
  simp [asciiBuild, asciiFrame, asciiLrc, h]

theorem asciiFrame_length (uid fc : Nat) (data : Bytes) : (asciiFrame uid fc data).length = 2 * data.length + 9 := by
  simp [asciiFrame, b2a_length]; omega

theorem findByte_head (b : Nat) (l : Bytes) : findByte b (b :: l) = some 0 := by simp [findByte]

theorem ascii_whole (uid fc : Nat) (data rest : Bytes) (hu : uid < 256) (hf : fc < 256) (hd : Bytes.WF data) :
    asciiStep (asciiFrame uid fc data ++ rest) =
      .frame (asciiFrame uid fc data).length (fc :: data) uid 0 0 := by
  have hl := Props.Checksum.lrc_lt (data ++ [uid, fc])
  -- the hex body, split into unit / pdu / lrc parts
  let hU := b2aHexUpper [uid]
  let hB := b2aHexUpper (fc :: data)
  let hL := b2aHexUpper [asciiLrc uid fc data]
  have hH : b2aHexUpper ([uid, fc] ++ data ++ [asciiLrc uid fc data]) = hU ++ hB ++ hL := by
    simp only [hU, hB, hL, ← b2a_append]; simp
  have hwf : Bytes.WF ([uid, fc] ++ data ++ [asciiLrc uid fc data]) := by
    intro x hx
    simp only [List.mem_append, List.mem_cons, List.not_mem_nil, or_false] at hx
    rcases hx with ((rfl | rfl) | hx) | rfl
    · exact hu
    · exact hf
    · exact hd x hx
    · exact hl
  have hno13 : ∀ c ∈ hU ++ hB ++ hL, c ≠ 13 := by
    intro c hc
    rw [← hH] at hc
    have := hex_chars _ hwf c hc
    omega
  have hbuf : asciiFrame uid fc data ++ rest = [58] ++ (hU ++ hB ++ hL) ++ [13, 10] ++ rest := by
    simp only [asciiFrame, hH]
  have hlenU : hU.length = 2 := by simp [hU, b2a_length]
  have hlenB : hB.length = 2 * data.length + 2 := by simp [hB, b2a_length]; omega
  have hlenL : hL.length = 2 := by simp [hL, b2a_length]
  have hcr : findCRLF (asciiFrame uid fc data ++ rest) = some (1 + (hU ++ hB ++ hL).length) := by
    rw [hbuf]
    have h58 : ∀ c ∈ [58] ++ (hU ++ hB ++ hL), c ≠ 13 := by
      intro c hc
      simp only [List.mem_append, List.mem_cons, List.not_mem_nil, or_false] at hc
      rcases hc with rfl | hc
      · omega
      · exact hno13 c (by simp only [List.mem_append]; exact hc)
    have := findCRLF_prefix ([58] ++ (hU ++ hB ++ hL)) rest h58
    simpa [Nat.add_comm] using this
  unfold asciiStep
  rw [if_neg (by simp [asciiFrame_length]; omega)]
  have hfb : findByte 58 (asciiFrame uid fc data ++ rest) = some 0 := by
    simp [asciiFrame, findByte]
  rw [hfb]
  simp only [gt_iff_lt, Nat.lt_irrefl, if_false, hcr]
  -- the three slices
  have e := (1 + (hU ++ hB ++ hL).length)
  have hE : 1 + (hU ++ hB ++ hL).length = 2 * data.length + 7 := by simp [hlenU, hlenB, hlenL]; omega
  have s1 : pySlice (asciiFrame uid fc data ++ rest) 1 3 = hU := by
    have : asciiFrame uid fc data ++ rest = [58] ++ hU ++ (hB ++ hL ++ [13, 10] ++ rest) := by
      rw [hbuf]; simp
    rw [this]; exact pySlice_mid [58] hU _ 1 3 (by simp) (by simp [hlenU])
  have s2 : pySlice (asciiFrame uid fc data ++ rest) ((1 + (hU ++ hB ++ hL).length : Nat) - 2 : Int)
      ((1 + (hU ++ hB ++ hL).length : Nat) : Int) = hL := by
    have : asciiFrame uid fc data ++ rest = ([58] ++ hU ++ hB) ++ hL ++ ([13, 10] ++ rest) := by
      rw [hbuf]; simp
    rw [this]
    exact pySlice_mid ([58] ++ hU ++ hB) hL _ _ _ (by simp [hlenU, hlenB, hlenL]; omega) (by simp [hlenU, hlenB, hlenL]; omega)
  have s3 : pySlice (asciiFrame uid fc data ++ rest) 1 ((1 + (hU ++ hB ++ hL).length : Nat) - 2 : Int) = hU ++ hB := by
    have : asciiFrame uid fc data ++ rest = [58] ++ (hU ++ hB) ++ (hL ++ [13, 10] ++ rest) := by
      rw [hbuf]; simp
    rw [this]
    exact pySlice_mid [58] (hU ++ hB) _ _ _ (by simp) (by simp [hlenU, hlenB, hlenL]; omega)
  have s4 : pySlice (asciiFrame uid fc data ++ rest) 3 ((1 + (hU ++ hB ++ hL).length : Nat) - 2 : Int) = hB := by
    have : asciiFrame uid fc data ++ rest = ([58] ++ hU) ++ hB ++ (hL ++ [13, 10] ++ rest) := by
      rw [hbuf]; simp
    rw [this]
    exact pySlice_mid ([58] ++ hU) hB _ _ _ (by simp [hlenU]) (by simp [hlenU, hlenB, hlenL]; omega)
  rw [s1, s2, s3, s4]
  have a1 : a2bHex hU = some [uid] := a2b_b2a [uid] (by intro x hx; simp at hx; omega)
  have a2 : a2bHex hL = some [asciiLrc uid fc data] := a2b_b2a _ (by intro x hx; simp at hx; subst hx; exact hl)
  have a3 : a2bHex (hU ++ hB) = some ([uid] ++ (fc :: data)) := by
    simp only [hU, hB, ← b2a_append]
    exact a2b_b2a _ (by
      intro x hx
      simp only [List.mem_append, List.mem_cons, List.not_mem_nil, or_false] at hx
      rcases hx with rfl | rfl | hx
      · exact hu
      · exact hf
      · exact hd x hx)
  have a4 : a2bHex hB = some (fc :: data) := a2b_b2a _ (by
      intro x hx
      simp only [List.mem_cons] at hx
      rcases hx with rfl | hx
      · exact hf
      · exact hd x hx)
  rw [a1, a2, a3, a4]
  simp only []
  have hck : Impl.checkLRC ([uid] ++ fc :: data) (asciiLrc uid fc data) = true :=
    (Props.Checksum.append_lrc_checks [uid, fc] data).1
  rw [if_pos hck, if_pos (by omega)]
  simp only [Option.getD_some]
  congr 1
  rw [asciiFrame_length]; omega

theorem ascii_partial (uid fc : Nat) (data : Bytes) (k : Nat) (hu : uid < 256) (hf : fc < 256) (hd : Bytes.WF data)
    (hk : k < (asciiFrame uid fc data).length) :
    asciiStep ((asciiFrame uid fc data).take k) = .wait := by
  have hl := Props.Checksum.lrc_lt (data ++ [uid, fc])
  have hwf : Bytes.WF ([uid, fc] ++ data ++ [asciiLrc uid fc data]) := by
    intro x hx
    simp only [List.mem_append, List.mem_cons, List.not_mem_nil, or_false] at hx
    rcases hx with ((rfl | rfl) | hx) | rfl
    · exact hu
    · exact hf
    · exact hd x hx
    · exact hl
  let H := b2aHexUpper ([uid, fc] ++ data ++ [asciiLrc uid fc data])
  have hno13 : ∀ c ∈ [58] ++ H, c ≠ 13 := by
    intro c hc
    simp only [List.mem_append, List.mem_cons, List.not_mem_nil, or_false] at hc
    rcases hc with rfl | hc
    · omega
    · have := hex_chars _ hwf c hc; omega
  have hlen : (asciiFrame uid fc data).length = ([58] ++ H).length + 2 := by simp [asciiFrame, H]
  unfold asciiStep
  by_cases h1 : ((asciiFrame uid fc data).take k).length ≤ 1
  · rw [if_pos h1]
  · rw [if_neg h1]
    have hk2 : 2 ≤ k := by simp at h1; omega
    have hfb : findByte 58 ((asciiFrame uid fc data).take k) = some 0 := by
      obtain ⟨k', hk'⟩ : ∃ k', k = k' + 1 := ⟨k - 1, by omega⟩
      rw [hk']
      simp [asciiFrame, findByte]
    rw [hfb]
    simp only [gt_iff_lt, Nat.lt_irrefl, if_false]
    have hcr : findCRLF ((asciiFrame uid fc data).take k) = none := by
      have hf' : asciiFrame uid fc data = ([58] ++ H) ++ [13, 10] := by simp [asciiFrame, H]
      by_cases hle : k ≤ ([58] ++ H).length
      · rw [hf', List.take_append_of_le_length hle]
        apply findCRLF_none_of_no13
        intro c hc
        exact hno13 c (List.mem_of_mem_take hc)
      · have hk' : k = ([58] ++ H).length + 1 := by omega
        rw [hf', List.take_append, List.take_of_length_le (by omega), hk']
        simp only [Nat.add_sub_cancel_left, List.take_succ_cons, List.take_zero]
        exact findCRLF_no13_then13 _ hno13
    rw [hcr]



def NoDelim (l : Bytes) : Prop := ∀ c ∈ l, c ≠ 0x7B ∧ c ≠ 0x7D

/-- no END delimiter: all the binary receiver needs of the bytes between the braces (a START delimiter 0x7B there — as unit
    id or in the CRC, which are sent raw — is an ordinary byte to it) -/
def NoEnd (l : Bytes) : Prop := ∀ c ∈ l, c ≠ 0x7D

theorem NoDelim.noEnd {l : Bytes} (h : NoDelim l) : NoEnd l := fun c hc => (h c hc).2

def binBody (uid fc : Nat) (data : Bytes) : Bytes :=
  [uid, fc] ++ data ++ [Impl.computeCRC ([uid, fc] ++ data) / 256, Impl.computeCRC ([uid, fc] ++ data) % 256]

def binFrame (uid fc : Nat) (data : Bytes) : Bytes := [0x7B] ++ binBody uid fc data ++ [0x7D]

theorem preflight_noDelim (data : Bytes) (h : NoDelim data) : preflight data = data := by
  induction data with
  | nil => rfl
  | cons d ds ih =>
    have hd := h d (by simp)
    have := ih (fun c hc => h c (by simp [hc]))
    simp only [preflight, List.flatMap_cons] at this ⊢
    rw [if_neg (by omega), this]; rfl

theorem binaryBuild_eq {uid fc : Nat} {data : Bytes} (h : uid < 256 ∧ fc < 256) (hd : NoDelim data) :
    binaryBuild uid fc data = .ok (binFrame uid fc data) := by
  simp [binaryBuild, binFrame, binBody, h, preflight_noDelim data hd]

theorem findByte_none (b : Nat) (l : Bytes) (h : ∀ c ∈ l, c ≠ b) : findByte b l = none := by
  induction l with
  | nil => rfl
  | cons x xs ih =>
    simp only [findByte]
    rw [if_neg (h x (by simp)), ih (fun c hc => h c (by simp [hc]))]; rfl

theorem findByte_after (b : Nat) (l rest : Bytes) (h : ∀ c ∈ l, c ≠ b) : findByte b (l ++ b :: rest) = some l.length := by
  induction l with
  | nil => simp [findByte]
  | cons x xs ih =>
    simp only [List.cons_append, findByte]
    rw [if_neg (h x (by simp)), ih (fun c hc => h c (by simp [hc]))]; simp

theorem binFrame_length (uid fc : Nat) (data : Bytes) : (binFrame uid fc data).length = data.length + 6 := by
  simp [binFrame, binBody]

theorem binary_whole (uid fc : Nat) (data rest : Bytes) (hb : NoEnd (binBody uid fc data)) :
    binaryStep (binFrame uid fc data ++ rest) = .frame (binFrame uid fc data).length (fc :: data) uid 0 0 := by
  have hlen := binFrame_length uid fc data
  have hc := Props.Checksum.crc_lt ([uid, fc] ++ data)
  unfold binaryStep
  rw [if_neg (by simp [hlen]; omega)]
  have h7b : findByte 0x7B (binFrame uid fc data ++ rest) = some 0 := by simp [binFrame, findByte]
  rw [h7b]
  simp only [gt_iff_lt, Nat.lt_irrefl, if_false]
  have hpre : ∀ c ∈ [0x7B] ++ binBody uid fc data, c ≠ 0x7D := by
    intro c hcm
    simp only [List.mem_append, List.mem_cons, List.not_mem_nil, or_false] at hcm
    rcases hcm with rfl | hcm
    · decide
    · exact hb c hcm
  have h7d : findByte 0x7D (binFrame uid fc data ++ rest) = some (data.length + 5) := by
    have : binFrame uid fc data ++ rest = ([0x7B] ++ binBody uid fc data) ++ 0x7D :: rest := by simp [binFrame]
    rw [this, findByte_after 0x7D _ rest hpre]
    simp [binBody]
  rw [h7d]
  simp only []
  let crcB : Bytes := [Impl.computeCRC ([uid, fc] ++ data) / 256, Impl.computeCRC ([uid, fc] ++ data) % 256]
  have s1 : pySlice (binFrame uid fc data ++ rest) 1 2 = [uid] := by
    have : binFrame uid fc data ++ rest = [0x7B] ++ [uid] ++ (fc :: data ++ crcB ++ [0x7D] ++ rest) := by
      simp [binFrame, binBody, crcB]
    rw [this]; exact pySlice_mid [0x7B] [uid] _ 1 2 (by simp) (by simp)
  have s2 : pySlice (binFrame uid fc data ++ rest) (((data.length + 5 : Nat) : Int) - 2) ((data.length + 5 : Nat) : Int) = crcB := by
    have : binFrame uid fc data ++ rest = ([0x7B] ++ [uid, fc] ++ data) ++ crcB ++ ([0x7D] ++ rest) := by
      simp [binFrame, binBody, crcB]
    rw [this]; exact pySlice_mid _ crcB _ _ _ (by simp; omega) (by simp [crcB]; omega)
  have s3 : pySlice (binFrame uid fc data ++ rest) 1 (((data.length + 5 : Nat) : Int) - 2) = [uid, fc] ++ data := by
    have : binFrame uid fc data ++ rest = [0x7B] ++ ([uid, fc] ++ data) ++ (crcB ++ [0x7D] ++ rest) := by
      simp [binFrame, binBody, crcB]
    rw [this]; exact pySlice_mid [0x7B] _ _ _ _ (by simp) (by simp; omega)
  have s4 : pySlice (binFrame uid fc data ++ rest) 2 (((data.length + 5 : Nat) : Int) - 2) = fc :: data := by
    have : binFrame uid fc data ++ rest = [0x7B, uid] ++ (fc :: data) ++ (crcB ++ [0x7D] ++ rest) := by
      simp [binFrame, binBody, crcB]
    rw [this]; exact pySlice_mid [0x7B, uid] _ _ _ _ (by simp) (by simp; omega)
  rw [s1, s2, s3, s4]
  simp only [crcB]
  have hck : Impl.checkCRC ([uid, fc] ++ data)
      (Impl.computeCRC ([uid, fc] ++ data) / 256 * 256 + Impl.computeCRC ([uid, fc] ++ data) % 256) = true := by
    have : Impl.computeCRC ([uid, fc] ++ data) / 256 * 256 + Impl.computeCRC ([uid, fc] ++ data) % 256 =
        Impl.computeCRC ([uid, fc] ++ data) := by omega
    rw [this]; simp [Impl.checkCRC]
  rw [if_pos hck, if_pos (by omega), hlen]

theorem binary_partial (uid fc : Nat) (data : Bytes) (k : Nat) (hb : NoEnd (binBody uid fc data))
    (hk : k < (binFrame uid fc data).length) :
    binaryStep ((binFrame uid fc data).take k) = .wait := by
  have hlen := binFrame_length uid fc data
  unfold binaryStep
  by_cases h1 : ((binFrame uid fc data).take k).length ≤ 1
  · rw [if_pos h1]
  · rw [if_neg h1]
    have hk2 : 2 ≤ k := by simp at h1; omega
    have h7b : findByte 0x7B ((binFrame uid fc data).take k) = some 0 := by
      obtain ⟨k', hk'⟩ : ∃ k', k = k' + 1 := ⟨k - 1, by omega⟩
      rw [hk']; simp [binFrame, findByte]
    rw [h7b]
    simp only [gt_iff_lt, Nat.lt_irrefl, if_false]
    have h7d : findByte 0x7D ((binFrame uid fc data).take k) = none := by
      have hf : binFrame uid fc data = ([0x7B] ++ binBody uid fc data) ++ [0x7D] := by simp [binFrame]
      have hle : k ≤ ([0x7B] ++ binBody uid fc data).length := by simp [binBody]; omega
      rw [hf, List.take_append_of_le_length hle]
      apply findByte_none
      intro c hc
      have hm := List.mem_of_mem_take hc
      simp only [List.mem_append, List.mem_cons, List.not_mem_nil, or_false] at hm
      rcases hm with rfl | hm
      · decide
      · exact hb c hm
    rw [h7d]


theorem rtuFrame_get1 (uid fc : Nat) (data rest : Bytes) : (rtuFrame uid fc data ++ rest)[1]? = some fc := by
  simp [rtuFrame]

theorem rtuFrame_take_get1 (uid fc : Nat) (data : Bytes) (k : Nat) (hk : 2 ≤ k) :
    ((rtuFrame uid fc data).take k)[1]? = some fc := by
  rw [List.getElem?_take]; simp [rtuFrame]; omega

theorem rtuSized_fixed (rule : Nat → RtuRule) (uid fc n : Nat) (data : Bytes)
    (hr : rule fc = .fixed n) (hn : data.length + 4 = n) : RtuSized rule (rtuFrame uid fc data) := by
  constructor
  · intro rest
    simp only [rtuSize, rtuFrame_get1, hr, rtuFrame_length, hn]
  · intro k m hk h
    by_cases hk2 : 2 ≤ k
    · simp only [rtuSize, rtuFrame_take_get1 uid fc data k hk2, hr] at h
      injection h with h; rw [← h, rtuFrame_length, hn]
    · have : ((rtuFrame uid fc data).take k)[1]? = none := by
        rw [List.getElem?_eq_none]; simp; omega
      simp [rtuSize, this] at h

theorem rtuSized_bc (rule : Nat → RtuRule) (uid fc pos : Nat) (data : Bytes)
    (hr : rule fc = .byteCount pos) (hp : 2 ≤ pos) (hlt : pos - 2 < data.length)
    (hbc : data[pos - 2]?.getD 0 + pos + 3 = data.length + 4) : RtuSized rule (rtuFrame uid fc data) := by
  have hget : ∀ rest, (rtuFrame uid fc data ++ rest)[pos]? = data[pos - 2]? := by
    intro rest
    have : rtuFrame uid fc data ++ rest = [uid, fc] ++ (data ++
        ([Impl.computeCRC ([uid, fc] ++ data) / 256, Impl.computeCRC ([uid, fc] ++ data) % 256] ++ rest)) := by
      simp [rtuFrame]
    rw [this, List.getElem?_append_right (by simp; omega), List.getElem?_append_left (by simp; omega)]
    simp
  have hsome : ∃ bc, data[pos - 2]? = some bc := ⟨data[pos - 2], List.getElem?_eq_getElem hlt⟩
  obtain ⟨bc, hbcv⟩ := hsome
  rw [hbcv] at hbc; simp at hbc
  constructor
  · intro rest
    simp only [rtuSize, rtuFrame_get1, hr, hget, hbcv, rtuFrame_length]
    congr 1; omega
  · intro k m hk h
    by_cases hk2 : 2 ≤ k
    · simp only [rtuSize, rtuFrame_take_get1 uid fc data k hk2, hr] at h
      rw [List.getElem?_take] at h
      by_cases hpk : pos < k
      · have := hget []
        simp only [List.append_nil] at this
        simp only [hpk, if_true, this, hbcv] at h
        injection h with h; rw [← h, rtuFrame_length]; omega
      · simp [hpk] at h
    · have : ((rtuFrame uid fc data).take k)[1]? = none := by
        rw [List.getElem?_eq_none]; simp; omega
      simp [rtuSize, this] at h


end Pymodbus.Framer
