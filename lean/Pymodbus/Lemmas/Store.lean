/- Helper lemmas about the datastore model (slices, dict semantics). -/
import Pymodbus.Model.Store
namespace Pymodbus

theorem pySlice_nat {α} (xs : List α) (a b : Int) (o n : Nat) (ha : a = o) (hb : b = o + n)
    (hle : o + n ≤ xs.length) : pySlice xs a b = (xs.drop o).take n := by
  subst ha hb
  unfold pySlice normIdx
  have h1 : ¬ ((o : Int) < 0) := by omega
  have h2 : ¬ ((o : Int) + (n : Int) < 0) := by omega
  simp only [h1, h2, if_false]
  have e1 : min (o : Int).toNat xs.length = o := by omega
  have e2 : min ((o : Int) + (n : Int)).toNat xs.length = o + n := by omega
  rw [e1, e2]; congr 1; omega

theorem pySliceAssign_nat {α} (xs : List α) (a b : Int) (o n : Nat) (vs : List α) (ha : a = o)
    (hb : b = o + n) (hle : o + n ≤ xs.length) :
    pySliceAssign xs a b vs = xs.take o ++ vs ++ xs.drop (o + n) := by
  subst ha hb
  unfold pySliceAssign normIdx
  have h1 : ¬ ((o : Int) < 0) := by omega
  have h2 : ¬ ((o : Int) + (n : Int) < 0) := by omega
  simp only [h1, h2, if_false]
  have e1 : min (o : Int).toNat xs.length = o := by omega
  have e2 : min ((o : Int) + (n : Int)).toNat xs.length = o + n := by omega
  rw [e1, e2]; congr 2; omega

theorem splice_getElem? {α} (xs vs : List α) (o j : Nat) (hle : o + vs.length ≤ xs.length) :
    (xs.take o ++ vs ++ xs.drop (o + vs.length))[j]? =
      if o ≤ j ∧ j < o + vs.length then vs[j - o]? else xs[j]? := by
  have hto : (xs.take o).length = o := by simp; omega
  by_cases h1 : j < o
  · have : ¬ (o ≤ j ∧ j < o + vs.length) := by omega
    simp only [this, if_false]
    rw [List.append_assoc, List.getElem?_append_left (by omega), List.getElem?_take]
    simp [h1]
  · by_cases h2 : j < o + vs.length
    · have : (o ≤ j ∧ j < o + vs.length) := by omega
      simp only [this, and_self, if_true]
      rw [List.append_assoc, List.getElem?_append_right (by omega), hto,
        List.getElem?_append_left (by omega)]
    · have : ¬ (o ≤ j ∧ j < o + vs.length) := by omega
      simp only [this, if_false]
      rw [List.getElem?_append_right (by simp; omega)]
      simp only [List.length_append, hto, List.getElem?_drop]
      congr 1; omega

theorem splice_length {α} (xs vs : List α) (o : Nat) (hle : o + vs.length ≤ xs.length) :
    (xs.take o ++ vs ++ xs.drop (o + vs.length)).length = xs.length := by
  simp; omega

/-! ### sequential block -/

theorem seq_cell_isSome (b : SeqBlock) (i : Int) :
    ((Block.seq b).cell i).isSome = true ↔ (b.address ≤ i ∧ i < b.address + b.values.length) := by
  simp only [Block.cell]
  split
  · rename_i h
    constructor
    · intro _; exact h
    · intro _
      rw [List.getElem?_eq_getElem (by omega)]; rfl
  · rename_i h
    constructor
    · intro h'; simp at h'
    · intro h'; exact absurd h' h

theorem seq_set_values (b : SeqBlock) (a : Int) (vs : List Nat)
    (hv : b.validate a vs.length = true) :
    (b.set a vs).values =
      b.values.take (a - b.address).toNat ++ vs ++ b.values.drop ((a - b.address).toNat + vs.length) := by
  simp only [SeqBlock.validate, Bool.and_eq_true, decide_eq_true_eq] at hv
  obtain ⟨h1, h2⟩ := hv
  unfold SeqBlock.set
  exact pySliceAssign_nat b.values _ _ (a - b.address).toNat vs.length vs (by omega) (by omega) (by omega)

/-! ### dict -/

theorem dictGet_dictSet (d : List (Int × Nat)) (k k' : Int) (v : Nat) :
    dictGet (dictSet d k v) k' = if k' = k then some v else dictGet d k' := by
  induction d with
  | nil => simp only [dictSet, dictGet]; split <;> simp_all [eq_comm]
  | cons kv r ih =>
    obtain ⟨k0, v0⟩ := kv
    simp only [dictSet]
    by_cases h : k0 = k
    · subst h
      simp only [if_true, dictGet]
      by_cases h2 : k0 = k'
      · subst h2; simp
      · have : ¬ (k' = k0) := fun e => h2 e.symm
        simp [h2, this]
    · simp only [h, if_false, dictGet, ih]
      by_cases h2 : k0 = k'
      · subst h2; simp [h]
      · simp [h2]

theorem dictSet_keys (d : List (Int × Nat)) (k : Int) (v : Nat) (h : (dictGet d k).isSome = true) :
    (dictSet d k v).map (·.1) = d.map (·.1) := by
  induction d with
  | nil => simp [dictGet] at h
  | cons kv r ih =>
    obtain ⟨k0, v0⟩ := kv
    simp only [dictSet]
    by_cases h0 : k0 = k
    · simp [h0]
    · simp only [h0, if_false, List.map_cons]
      simp only [dictGet, h0, if_false] at h
      rw [ih h]

theorem setFrom_get (d : List (Int × Nat)) (a : Int) (vs : List Nat) (i : Int) :
    dictGet (SparseBlock.setFrom d a vs) i =
      if a ≤ i ∧ i < a + vs.length then vs[(i - a).toNat]? else dictGet d i := by
  induction vs generalizing d a with
  | nil =>
    simp only [SparseBlock.setFrom, List.length_nil]
    split
    · rename_i h; exfalso; omega
    · rfl
  | cons v vs ih =>
    simp only [SparseBlock.setFrom, ih, dictGet_dictSet, List.length_cons]
    split
    · rename_i h1
      rw [if_pos (by omega)]
      have : (i - a).toNat = (i - (a + 1)).toNat + 1 := by omega
      rw [this, List.getElem?_cons_succ]
    · rename_i h1
      split
      · rename_i h3; subst h3; rw [if_pos (by omega)]; simp
      · rename_i h3; rw [if_neg (by omega)]

theorem validateFrom_iff (d : List (Int × Nat)) (a : Int) (n : Nat) :
    SparseBlock.validateFrom d a n = true ↔
      ∀ k : Int, 0 ≤ k → k < n → (dictGet d (a + k)).isSome = true := by
  induction n generalizing a with
  | zero => simp [SparseBlock.validateFrom]; intro k h0 h1; omega
  | succ n ih =>
    simp only [SparseBlock.validateFrom, Bool.and_eq_true, ih]
    constructor
    · rintro ⟨h0, h1⟩ k hk0 hk1
      by_cases hk : k = 0
      · subst hk; simpa using h0
      · have := h1 (k - 1) (by omega) (by omega)
        have e : a + 1 + (k - 1) = a + k := by omega
        rwa [e] at this
    · intro h
      constructor
      · simpa using h 0 (by omega) (by omega)
      · intro k hk0 hk1
        have := h (k + 1) (by omega) (by omega)
        have e : a + (k + 1) = a + 1 + k := by omega
        rwa [e] at this

theorem getFrom_spec (d : List (Int × Nat)) (a : Int) (n : Nat)
    (h : SparseBlock.validateFrom d a n = true) :
    ∃ vs, SparseBlock.getFrom d a n = .ok vs ∧ vs.length = n ∧
      ∀ k : Nat, k < n → dictGet d (a + k) = vs[k]? := by
  induction n generalizing a with
  | zero => exact ⟨[], rfl, rfl, fun k hk => by omega⟩
  | succ n ih =>
    simp only [SparseBlock.validateFrom, Bool.and_eq_true] at h
    obtain ⟨h0, h1⟩ := h
    obtain ⟨vs, e1, e2, e3⟩ := ih (a + 1) h1
    cases hg : dictGet d a with
    | none => simp [hg] at h0
    | some v =>
      refine ⟨v :: vs, ?_, by simp [e2], ?_⟩
      · simp only [SparseBlock.getFrom, hg, e1]
      · intro k hk
        cases k with
        | zero => simp [hg]
        | succ k =>
          have := e3 k (by omega)
          have e : a + ((k + 1 : Nat) : Int) = a + 1 + (k : Int) := by omega
          rw [e, this]; simp

end Pymodbus
