/- Resynchronisation lemmas (C11): a property of buffers ("ends with the end delimiter") that every drop of the
   receive loop preserves and under which the loop never waits on a non-empty buffer. -/
import Pymodbus.Lemmas.FramerSteps
namespace Pymodbus.Framer
variable {μ : Type}

/-- `T` is a property of buffers that the receiver's drops preserve and under which it never waits on a
    non-empty buffer: then a run from a `T` buffer ends in a `T` buffer, and in the empty buffer unless a
    decode exception escaped -/
theorem run_drains (step : Bytes → Step) (decode : Bytes → PyM (Option μ)) (units : List Nat) (single : Bool)
    (T : Bytes → Prop)
    (hwait : ∀ s, T s → step s = .wait → s = [])
    (hskip : ∀ s n, T s → step s = .skip n → T (s.drop n) ∧ 0 < n ∧ n ≤ s.length)
    (hframe : ∀ s n pdu u t p, T s → step s = .frame n pdu u t p → T (s.drop n) ∧ 0 < n ∧ n ≤ s.length)
    (hnil : T []) :
    ∀ fuel s, s.length < fuel → T s →
      T (run step decode units single fuel s).2 ∧
      ((∀ e ∈ (run step decode units single fuel s).1, ∀ err, e ≠ Ev.raised err) →
        (run step decode units single fuel s).2 = []) := by
  intro fuel
  induction fuel with
  | zero => intro s h; omega
  | succ fuel ih =>
    intro s hlen hT
    simp only [run]
    cases hs : step s with
    | wait => exact ⟨hT, fun _ => hwait s hT hs⟩
    | flush => exact ⟨hnil, fun _ => rfl⟩
    | skip n =>
      obtain ⟨hT', hn, hle⟩ := hskip s n hT hs
      exact ih (s.drop n) (by simp; omega) hT'
    | frame n pdu u t p =>
      obtain ⟨hT', hn, hle⟩ := hframe s n pdu u t p hT hs
      have hl : (s.drop n).length < fuel := by simp; omega
      simp only []
      by_cases hv : validUnit units single u = true
      · rw [if_pos hv]
        cases hd : decode pdu with
        | error e => exact ⟨hT', fun h => absurd rfl (h _ (by simp) e)⟩
        | ok o =>
          cases o with
          | none => exact ⟨hT', fun h => absurd rfl (h _ (by simp) .modbusIO)⟩
          | some m =>
            obtain ⟨i1, i2⟩ := ih (s.drop n) hl hT'
            exact ⟨i1, fun h => i2 (fun e he => h e (by simp [he]))⟩
      · rw [if_neg hv]
        exact ih (s.drop n) hl hT'

/-! ### ASCII -/

theorem findCRLF_exists (l : Bytes) (i : Nat) (h0 : l[i]? = some 13) (h1 : l[i + 1]? = some 10) :
    ∃ e, findCRLF l = some e := by
  induction l generalizing i with
  | nil => simp at h0
  | cons x xs ih =>
    cases xs with
    | nil =>
      cases i with
      | zero => simp at h1
      | succ i => simp at h0
    | cons y ys =>
      simp only [findCRLF]
      split
      · exact ⟨0, rfl⟩
      · cases i with
        | zero =>
          simp at h0 h1
          rename_i hne
          exact absurd ⟨h0, h1⟩ hne
        | succ i =>
          obtain ⟨e, he⟩ := ih i (by simpa using h0) (by simpa using h1)
          exact ⟨e + 1, by rw [he]; rfl⟩

def EndsCRLF (s : Bytes) : Prop := s = [] ∨ ∃ p, s = p ++ [13, 10]

theorem endsCRLF_last (p : Bytes) : (p ++ [13, 10])[p.length]? = some 13 ∧ (p ++ [13, 10])[p.length + 1]? = some 10 := by
  constructor
  · rw [List.getElem?_append_right (Nat.le_refl _)]; simp
  · rw [List.getElem?_append_right (by omega)]; simp

theorem findCRLF_some_of_ends (p : Bytes) : ∃ e, findCRLF (p ++ [13, 10]) = some e :=
  findCRLF_exists _ p.length (endsCRLF_last p).1 (endsCRLF_last p).2

theorem findByte_get (b : Nat) (s : Bytes) (i : Nat) (h : findByte b s = some i) : s[i]? = some b := by
  induction s generalizing i with
  | nil => simp [findByte] at h
  | cons x xs ih =>
    simp only [findByte] at h
    split at h
    · rename_i hx; injection h with h; subst h; simp [hx]
    · cases hf : findByte b xs with
      | none => simp [hf] at h
      | some j =>
        simp only [hf, Option.map_some, Option.some.injEq] at h
        subst h
        simpa using ih j hf

theorem findCRLF_get (s : Bytes) (e : Nat) (h : findCRLF s = some e) : s[e]? = some 13 ∧ s[e + 1]? = some 10 := by
  induction s generalizing e with
  | nil => simp [findCRLF] at h
  | cons x xs ih =>
    cases xs with
    | nil => simp [findCRLF] at h
    | cons y ys =>
      simp only [findCRLF] at h
      split at h
      · rename_i hxy; injection h with h; subst h; simp [hxy.1, hxy.2]
      · cases hf : findCRLF (y :: ys) with
        | none => simp [hf] at h
        | some j =>
          simp only [hf, Option.map_some, Option.some.injEq] at h
          subst h
          have := ih j hf
          simpa using this


theorem endsCRLF_drop (s : Bytes) (k : Nat) (h : EndsCRLF s) (hk : k + 2 ≤ s.length ∨ k = s.length) :
    EndsCRLF (s.drop k) := by
  rcases h with rfl | ⟨p, rfl⟩
  · left; simp
  · rcases hk with hk | hk
    · right
      refine ⟨p.drop k, ?_⟩
      rw [List.drop_append_of_le_length (by simp at hk; omega)]
    · left; rw [hk]; simp

/-- after dropping through a CR LF found in a buffer that ends with CR LF, the rest still ends with CR LF -/
theorem endsCRLF_after (s : Bytes) (e : Nat) (hT : EndsCRLF s) (he : findCRLF s = some e) :
    EndsCRLF (s.drop (e + 2)) ∧ e + 2 ≤ s.length := by
  have hge := findCRLF_get _ _ he
  rcases hT with rfl | ⟨p, rfl⟩
  · simp [findCRLF] at he
  · have hlast := endsCRLF_last p
    have hlt : e + 1 < (p ++ [13, 10]).length := by
      by_cases hc : e + 1 < (p ++ [13, 10]).length
      · exact hc
      · have := hge.2
        rw [List.getElem?_eq_none (by omega)] at this; cases this
    refine ⟨endsCRLF_drop _ _ (Or.inr ⟨p, rfl⟩) ?_, by omega⟩
    simp only [List.length_append, List.length_cons, List.length_nil] at hlt ⊢
    by_cases h1 : e = p.length
    · right; omega
    · by_cases h2 : e + 1 = p.length
      · exfalso
        have := hge.2
        rw [h2, hlast.1] at this; cases this
      · left; omega

theorem ascii_T_wait (s : Bytes) (hT : EndsCRLF s) (h : asciiStep s = .wait) : s = [] := by
  rcases hT with rfl | ⟨p, rfl⟩
  · rfl
  · exfalso
    unfold asciiStep at h
    split at h
    · rename_i hl; simp at hl
    · split at h
      · cases h
      · split at h
        · cases h
        · obtain ⟨e, he⟩ := findCRLF_some_of_ends p
          rw [he] at h
          simp only [] at h
          split at h
          · split at h <;> cases h
          · cases h

theorem ascii_T_skip (s : Bytes) (n : Nat) (hT : EndsCRLF s) (h : asciiStep s = .skip n) :
    EndsCRLF (s.drop n) ∧ 0 < n ∧ n ≤ s.length := by
  unfold asciiStep at h
  split at h
  · cases h
  · split at h
    · cases h
    · rename_i start hs
      split at h
      · rename_i hpos
        injection h with h; subst h
        have hg := findByte_get 58 _ _ hs
        rcases hT with rfl | ⟨p, rfl⟩
        · simp [findByte] at hs
        · have hlast := endsCRLF_last p
          have hlt : start < (p ++ [13, 10]).length := by
            by_cases hc : start < (p ++ [13, 10]).length
            · exact hc
            · rw [List.getElem?_eq_none (by omega)] at hg; cases hg
          have hle : start + 2 ≤ (p ++ [13, 10]).length := by
            simp only [List.length_append, List.length_cons, List.length_nil] at hlt ⊢
            by_cases h1 : start = p.length
            · rw [h1, hlast.1] at hg; cases hg
            · by_cases h2 : start = p.length + 1
              · rw [h2, hlast.2] at hg; cases hg
              · omega
          exact ⟨endsCRLF_drop _ _ (Or.inr ⟨p, rfl⟩) (Or.inl hle), hpos, by omega⟩
      · split at h
        · cases h
        · rename_i e he
          obtain ⟨hfin, hle⟩ := endsCRLF_after s e hT he
          split at h
          · split at h
            · cases h
            · injection h with h; subst h; exact ⟨hfin, by omega, hle⟩
          · injection h with h; subst h; exact ⟨hfin, by omega, hle⟩

theorem ascii_T_frame (s : Bytes) (n : Nat) (pdu : Bytes) (u t p : Nat) (hT : EndsCRLF s)
    (h : asciiStep s = .frame n pdu u t p) : EndsCRLF (s.drop n) ∧ 0 < n ∧ n ≤ s.length := by
  unfold asciiStep at h
  split at h
  · cases h
  · split at h
    · cases h
    · split at h
      · cases h
      · split at h
        · cases h
        · rename_i e he
          obtain ⟨hfin, hle⟩ := endsCRLF_after s e hT he
          split at h
          · split at h
            · injection h with h; subst h; exact ⟨hfin, by omega, hle⟩
            · cases h
          · cases h


/-! ### binary -/

theorem findByte_get' (b : Nat) (s : Bytes) (i : Nat) (h : findByte b s = some i) : s[i]? = some b := by
  induction s generalizing i with
  | nil => simp [findByte] at h
  | cons x xs ih =>
    simp only [findByte] at h
    split at h
    · rename_i hx; injection h with h; subst h; simp [hx]
    · cases hf : findByte b xs with
      | none => simp [hf] at h
      | some j =>
        simp only [hf, Option.map_some, Option.some.injEq] at h
        subst h
        simpa using ih j hf

theorem findByte_exists (b : Nat) (l : Bytes) (i : Nat) (h : l[i]? = some b) : ∃ e, findByte b l = some e := by
  induction l generalizing i with
  | nil => simp at h
  | cons x xs ih =>
    simp only [findByte]
    split
    · exact ⟨0, rfl⟩
    · cases i with
      | zero => simp at h; rename_i hne; exact absurd h hne
      | succ i =>
        obtain ⟨e, he⟩ := ih i (by simpa using h)
        exact ⟨e + 1, by rw [he]; rfl⟩

/-- buffers that end with an end delimiter which is not preceded by another one -/
def EndsBrace (s : Bytes) : Prop := s = [] ∨ ∃ p x, s = p ++ [x, 0x7D] ∧ x ≠ 0x7D

theorem endsBrace_last (p : Bytes) (x : Nat) :
    (p ++ [x, 0x7D])[p.length]? = some x ∧ (p ++ [x, 0x7D])[p.length + 1]? = some 0x7D := by
  constructor
  · rw [List.getElem?_append_right (Nat.le_refl _)]; simp
  · rw [List.getElem?_append_right (by omega)]; simp

theorem endsBrace_drop (s : Bytes) (k : Nat) (h : EndsBrace s) (hk : k + 2 ≤ s.length ∨ k = s.length) :
    EndsBrace (s.drop k) := by
  rcases h with rfl | ⟨p, x, rfl, hx⟩
  · left; simp
  · rcases hk with hk | hk
    · right
      refine ⟨p.drop k, x, ?_, hx⟩
      rw [List.drop_append_of_le_length (by simp at hk; omega)]
    · left; rw [hk]; simp

theorem endsBrace_after (s : Bytes) (e : Nat) (hT : EndsBrace s) (he : findByte 0x7D s = some e) :
    EndsBrace (s.drop (e + 1)) ∧ e + 1 ≤ s.length := by
  have hge := findByte_get' _ _ _ he
  rcases hT with rfl | ⟨p, x, rfl, hx⟩
  · simp [findByte] at he
  · have hlast := endsBrace_last p x
    have hlt : e < (p ++ [x, 0x7D]).length := by
      by_cases hc : e < (p ++ [x, 0x7D]).length
      · exact hc
      · rw [List.getElem?_eq_none (by omega)] at hge; cases hge
    refine ⟨endsBrace_drop _ _ (Or.inr ⟨p, x, rfl, hx⟩) ?_, by omega⟩
    simp only [List.length_append, List.length_cons, List.length_nil] at hlt ⊢
    by_cases h1 : e = p.length + 1
    · right; omega
    · by_cases h2 : e = p.length
      · exfalso
        rw [h2, hlast.1] at hge
        injection hge with hge; exact hx hge
      · left; omega

theorem binary_T_wait (s : Bytes) (hT : EndsBrace s) (h : binaryStep s = .wait) : s = [] := by
  rcases hT with rfl | ⟨p, x, rfl, hx⟩
  · rfl
  · exfalso
    unfold binaryStep at h
    split at h
    · rename_i hl; simp at hl
    · split at h
      · cases h
      · split at h
        · cases h
        · obtain ⟨e, he⟩ := findByte_exists 0x7D (p ++ [x, 0x7D]) (p.length + 1) (endsBrace_last p x).2
          rw [he] at h
          simp only [] at h
          split at h
          · split at h <;> cases h
          · cases h

theorem binary_T_skip (s : Bytes) (n : Nat) (hT : EndsBrace s) (h : binaryStep s = .skip n) :
    EndsBrace (s.drop n) ∧ 0 < n ∧ n ≤ s.length := by
  unfold binaryStep at h
  split at h
  · cases h
  · split at h
    · cases h
    · rename_i start hs
      split at h
      · rename_i hpos
        injection h with h; subst h
        have hg := findByte_get' 0x7B _ _ hs
        rcases hT with rfl | ⟨p, x, rfl, hx⟩
        · simp [findByte] at hs
        · have hlast := endsBrace_last p x
          have hlt : start < (p ++ [x, 0x7D]).length := by
            by_cases hc : start < (p ++ [x, 0x7D]).length
            · exact hc
            · rw [List.getElem?_eq_none (by omega)] at hg; cases hg
          have hle : start + 2 ≤ (p ++ [x, 0x7D]).length := by
            simp only [List.length_append, List.length_cons, List.length_nil] at hlt ⊢
            by_cases h2 : start = p.length + 1
            · rw [h2, hlast.2] at hg; cases hg
            · omega
          exact ⟨endsBrace_drop _ _ (Or.inr ⟨p, x, rfl, hx⟩) (Or.inl hle), hpos, by omega⟩
      · split at h
        · cases h
        · rename_i e he
          obtain ⟨hfin, hle⟩ := endsBrace_after s e hT he
          split at h
          · split at h
            · cases h
            · injection h with h; subst h; exact ⟨hfin, by omega, hle⟩
          · injection h with h; subst h; exact ⟨hfin, by omega, hle⟩

theorem binary_T_frame (s : Bytes) (n : Nat) (pdu : Bytes) (u t p : Nat) (hT : EndsBrace s)
    (h : binaryStep s = .frame n pdu u t p) : EndsBrace (s.drop n) ∧ 0 < n ∧ n ≤ s.length := by
  unfold binaryStep at h
  split at h
  · cases h
  · split at h
    · cases h
    · split at h
      · cases h
      · split at h
        · cases h
        · rename_i e he
          obtain ⟨hfin, hle⟩ := endsBrace_after s e hT he
          split at h
          · split at h
            · injection h with h; subst h; exact ⟨hfin, by omega, hle⟩
            · cases h
          · cases h


end Pymodbus.Framer
