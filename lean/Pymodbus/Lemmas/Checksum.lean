import Pymodbus.Model.Checksum
import Pymodbus.Spec.ChecksumSpec
namespace Pymodbus.Checksum
open Pymodbus Spec

/-! ## The bit step: shifting and linearity (design spike A.3) -/

theorem xor_div2 (a b : Nat) : (a ^^^ b) / 2 = a / 2 ^^^ b / 2 := by
  have := Nat.shiftRight_xor_distrib (a := a) (b := b) (i := 1)
  simpa [Nat.shiftRight_eq_div_pow] using this

theorem xor_mod2_even (a b : Nat) (ha : a % 2 = 0) : (a ^^^ b) % 2 = b % 2 := by
  have h := @Nat.xor_mod_two_eq_one a b
  rcases Nat.mod_two_eq_zero_or_one b with hb | hb <;>
  rcases Nat.mod_two_eq_zero_or_one (a ^^^ b) with hx | hx <;> simp_all

theorem crcBit_even_xor (a b : Nat) (ha : a % 2 = 0) : crcBit (a ^^^ b) = a / 2 ^^^ crcBit b := by
  unfold crcBit
  rw [xor_mod2_even a b ha, xor_div2]
  split <;> simp [Nat.xor_assoc]

theorem crcBits_shift (k : Nat) (a b : Nat) (ha : a % 2^k = 0) :
    crcBits k (a ^^^ b) = a / 2^k ^^^ crcBits k b := by
  induction k generalizing a b with
  | zero => simp [crcBits]
  | succ k ih =>
    have h2 : a % 2 = 0 := by
      have : a % 2^(k+1) % 2 = a % 2 := Nat.mod_mod_of_dvd a ⟨2^k, by rw [Nat.pow_succ]; omega⟩
      omega
    have hk : (a / 2) % 2^k = 0 := by
      have : a = 2^(k+1) * (a / 2^(k+1)) := by
        have := Nat.div_add_mod a (2^(k+1)); omega
      rw [this, Nat.pow_succ, Nat.mul_comm (2^k) 2, Nat.mul_assoc, Nat.mul_div_cancel_left _ (by decide : 0 < 2)]
      exact Nat.mul_mod_right _ _
    simp only [crcBits]
    rw [crcBit_even_xor a b h2, ih (a/2) (crcBit b) hk, Nat.div_div_eq_div_mul, Nat.pow_succ, Nat.mul_comm]

theorem split256 (x : Nat) : (2^8 * (x / 2^8)) ^^^ (x % 2^8) = x := by
  apply Nat.eq_of_testBit_eq
  intro j
  rw [Nat.testBit_xor, Nat.testBit_two_pow_mul, Nat.testBit_mod_two_pow, Nat.testBit_div_two_pow]
  by_cases h : j < 8
  · have : ¬ (8 ≤ j) := by omega
    simp [h, this]
  · have h8 : 8 ≤ j := by omega
    have : 8 + (j - 8) = j := by omega
    simp [h, h8]

/-- the table step: 8 bit-steps on x = (x >> 8) ⊕ table[x & 0xff] -/
theorem table_step (x : Nat) : crcBits 8 x = x / 256 ^^^ crcBits 8 (x % 256) := by
  have hx := split256 x
  have ha : (2^8 * (x / 2^8)) % 2^8 = 0 := Nat.mul_mod_right _ _
  have := crcBits_shift 8 (2^8 * (x / 2^8)) (x % 2^8) ha
  rw [hx] at this
  rw [this, Nat.mul_div_cancel_left _ (by decide : 0 < 2^8)]

theorem xor_cancel_mid (a c : Nat) : c ^^^ (a ^^^ c) = a := by
  rw [Nat.xor_comm a c, ← Nat.xor_assoc, Nat.xor_self, Nat.zero_xor]

theorem xor_eq_zero {a b : Nat} (h : a ^^^ b = 0) : a = b := by
  have : a ^^^ (a ^^^ b) = b := by rw [← Nat.xor_assoc, Nat.xor_self, Nat.zero_xor]
  rw [h, Nat.xor_zero] at this; exact this

/-- full XOR-linearity of one bit step -/
theorem crcBit_xor (a b : Nat) : crcBit (a ^^^ b) = crcBit a ^^^ crcBit b := by
  unfold crcBit
  rw [xor_div2]
  have h := @Nat.xor_mod_two_eq_one a b
  rcases Nat.mod_two_eq_zero_or_one a with ha | ha <;>
  rcases Nat.mod_two_eq_zero_or_one b with hb | hb <;>
  rcases Nat.mod_two_eq_zero_or_one (a ^^^ b) with hx | hx <;>
  simp_all [Nat.xor_assoc, xor_cancel_mid]
  ac_rfl

theorem crcBit_zero : crcBit 0 = 0 := by decide

theorem crcBits_zero (k : Nat) : crcBits k 0 = 0 := by
  induction k with
  | zero => rfl
  | succ k ih => simp only [crcBits, crcBit_zero, ih]

theorem crcBits_xor (k a b : Nat) : crcBits k (a ^^^ b) = crcBits k a ^^^ crcBits k b := by
  induction k generalizing a b with
  | zero => rfl
  | succ k ih => simp only [crcBits, crcBit_xor, ih]

theorem crcBits_add (m n x : Nat) : crcBits (m + n) x = crcBits n (crcBits m x) := by
  induction m generalizing x with
  | zero => simp [crcBits]
  | succ m ih => rw [Nat.add_right_comm]; simp only [crcBits, ih]

/-! ## Bounds: the register stays a 16-bit word, and never becomes 0 from a non-zero value -/

theorem crcBit_lt {x : Nat} (h : x < 65536) : crcBit x < 65536 := by
  unfold crcBit
  split
  · exact Nat.xor_lt_two_pow (n := 16) (by omega) (by decide)
  · omega

theorem crcBits_lt (k : Nat) {x : Nat} (h : x < 65536) : crcBits k x < 65536 := by
  induction k generalizing x with
  | zero => exact h
  | succ k ih => exact ih (crcBit_lt h)

theorem crcBit_ne_zero {x : Nat} (h0 : x ≠ 0) (h : x < 65536) : crcBit x ≠ 0 := by
  unfold crcBit
  split
  · intro hz
    have := xor_eq_zero hz
    omega
  · omega

theorem crcBits_ne_zero (k : Nat) {x : Nat} (h0 : x ≠ 0) (h : x < 65536) : crcBits k x ≠ 0 := by
  induction k generalizing x with
  | zero => exact h0
  | succ k ih => exact ih (crcBit_ne_zero h0 h) (crcBit_lt h)

/-! ## Linearity of the whole register -/

theorem crcByte_xor (s t a e : Nat) :
    crcByte (s ^^^ t) (a ^^^ e) = crcByte s a ^^^ crcByte t e := by
  unfold crcByte
  rw [← crcBits_xor]; congr 1; ac_rfl

theorem crcReg_xor (s t : Nat) (a e : Bytes) (hlen : e.length = a.length) :
    crcReg (s ^^^ t) (xorBytes a e) = crcReg s a ^^^ crcReg t e := by
  induction a generalizing s t e with
  | nil =>
    cases e with
    | nil => rfl
    | cons _ _ => simp at hlen
  | cons x a ih =>
    cases e with
    | nil => simp at hlen
    | cons y e =>
      simp only [List.length_cons, Nat.add_right_cancel_iff] at hlen
      simp only [xorBytes, List.zipWith_cons_cons, crcReg, List.foldl_cons, crcByte_xor]
      exact ih _ _ e hlen

theorem crcReg_lt (s : Nat) (bs : Bytes) (hs : s < 65536) (h : Bytes.WF bs) : crcReg s bs < 65536 := by
  induction bs generalizing s with
  | nil => exact hs
  | cons b bs ih =>
    simp only [crcReg, List.foldl_cons]
    apply ih
    · unfold crcByte
      exact crcBits_lt 8 (Nat.xor_lt_two_pow (n := 16) hs (by have := h b (by simp); omega))
    · intro c hc; exact h c (by simp [hc])

theorem crcReg_append (s : Nat) (a b : Bytes) : crcReg s (a ++ b) = crcReg (crcReg s a) b := by
  simp [crcReg, List.foldl_append]

/-! ## The model is the specification -/

theorem xor_div256 (a b : Nat) : (a ^^^ b) / 256 = a / 256 ^^^ b / 256 := by
  have := Nat.shiftRight_xor_distrib (a := a) (b := b) (i := 8)
  simpa [Nat.shiftRight_eq_div_pow] using this

/-- loop invariant of `__generate_crc16_table`: the bit-serial register is `crc ^ byte` -/
theorem crcTableLoop_spec (n byte crc : Nat) :
    crcBits n (crc ^^^ byte) = Impl.crcTableLoop n byte crc ^^^ byte / 2 ^ n := by
  induction n generalizing byte crc with
  | zero => simp [crcBits, Impl.crcTableLoop]
  | succ n ih =>
    simp only [crcBits, Impl.crcTableLoop, Nat.shiftRight_eq_div_pow, Nat.pow_one]
    have hstep : crcBit (crc ^^^ byte) =
        (if (byte ^^^ crc) &&& 1 ≠ 0 then (crc / 2) ^^^ 40961 else crc / 2) ^^^ byte / 2 := by
      unfold crcBit
      rw [Nat.and_one_is_mod, Nat.xor_comm byte crc, xor_div2]
      rcases Nat.mod_two_eq_zero_or_one (crc ^^^ byte) with h | h
      · simp [h]
      · simp [h]; ac_rfl
    rw [hstep, ih, Nat.div_div_eq_div_mul, Nat.pow_succ, Nat.mul_comm]

theorem crcTableEntry_spec (i : Nat) (h : i < 256) : Impl.crcTableEntry i = crcBits 8 i := by
  have := crcTableLoop_spec 8 i 0
  rw [Nat.zero_xor, Nat.div_eq_of_lt (by omega : i < 2 ^ 8), Nat.xor_zero] at this
  exact this.symm

theorem crcTable_getD (i : Nat) (h : i < 256) : Impl.crcTable.getD i 0 = crcBits 8 i := by
  simp [Impl.crcTable, h, crcTableEntry_spec i h]

theorem crcStep_spec (crc a : Nat) (hc : crc < 65536) (ha : a < 256) :
    Impl.crcStep crc a = crcByte crc a := by
  unfold Impl.crcStep crcByte
  rw [table_step (crc ^^^ a), xor_div256, Nat.div_eq_of_lt ha, Nat.xor_zero]
  have h255 : (255 : Nat) = 2 ^ 8 - 1 := by decide
  rw [h255, Nat.and_two_pow_sub_one_eq_mod, Nat.and_two_pow_sub_one_eq_mod,
    Nat.shiftRight_eq_div_pow]
  simp only [show (2:Nat)^8 = 256 by decide]
  rw [crcTable_getD _ (Nat.mod_lt _ (by decide)), Nat.mod_eq_of_lt (by omega : crc / 256 < 256)]

theorem crcFold_spec_aux (s : Nat) (bs : Bytes) (hs : s < 65536) (h : Bytes.WF bs) :
    bs.foldl Impl.crcStep s = crcReg s bs := by
  induction bs generalizing s with
  | nil => rfl
  | cons b bs ih =>
    have hb : b < 256 := h b (by simp)
    have hr : Bytes.WF bs := fun c hc => h c (by simp [hc])
    simp only [List.foldl_cons, crcReg]
    rw [crcStep_spec s b hs hb]
    have : crcByte s b < 65536 := crcReg_lt s [b] hs (by intro c hc; simp at hc; omega)
    exact ih _ this hr

theorem crcFold_spec (bs : Bytes) (h : Bytes.WF bs) : Impl.crcFold bs = crc16 bs :=
  crcFold_spec_aux 65535 bs (by decide) h

/-- the final statement of `computeCRC` exchanges the two bytes -/
theorem swap_spec (x : Nat) : ((x <<< 8) &&& 65280) ||| ((x >>> 8) &&& 255) = swap16 x := by
  have h1 : (65280 : Nat) = 255 <<< 8 := by decide
  have h255 : (255 : Nat) = 2 ^ 8 - 1 := by decide
  rw [h1, ← Nat.shiftLeft_and_distrib, h255, Nat.and_two_pow_sub_one_eq_mod,
    Nat.and_two_pow_sub_one_eq_mod, Nat.shiftRight_eq_div_pow]
  rw [← Nat.shiftLeft_add_eq_or_of_lt (Nat.mod_lt _ (by decide)), Nat.shiftLeft_eq]
  rfl

theorem crc16_lt (bs : Bytes) (h : Bytes.WF bs) : crc16 bs < 65536 := crcReg_lt _ bs (by decide) h

theorem swap16_lt (x : Nat) : swap16 x < 65536 := by unfold swap16; omega

theorem swap16_inj {x y : Nat} (hx : x < 65536) (hy : y < 65536) (h : swap16 x = swap16 y) : x = y := by
  unfold swap16 at h; omega

theorem swap16_swap16 {x : Nat} (hx : x < 65536) : swap16 (swap16 x) = x := by
  unfold swap16
  have h1 : (x % 256 * 256 + x / 256 % 256) / 256 = x % 256 := by omega
  have h2 : (x % 256 * 256 + x / 256 % 256) % 256 = x / 256 % 256 := by omega
  rw [h1, h2]; omega

/-! ## LRC -/

theorem xor255 (v : Nat) (h : v < 256) : v ^^^ 255 = 255 - v := by
  have : ∀ w : Fin 256, w.val ^^^ 255 = 255 - w.val := by decide +kernel
  exact this ⟨v, h⟩

theorem computeLRC_spec (bs : Bytes) : Impl.computeLRC bs = lrc bs := by
  unfold Impl.computeLRC lrc
  have h255 : (255 : Nat) = 2 ^ 8 - 1 := by decide
  simp only []
  rw [h255, Nat.and_two_pow_sub_one_eq_mod, Nat.and_two_pow_sub_one_eq_mod, ← h255,
    xor255 _ (Nat.mod_lt _ (by decide))]
  omega

/-! ## Parity: the generator polynomial has the factor x + 1 -/

theorem popcount_eq (n : Nat) : popcount n = n % 2 + popcount (n / 2) := by
  rw [popcount]
  split
  · subst n; rw [popcount]; simp
  · rfl

theorem popcount_zero : popcount 0 = 0 := by rw [popcount]; simp

theorem popcount_poly : popcount 0xA001 = 3 := by
  simp [popcount]

theorem xor_mod2 (a b : Nat) : (a ^^^ b) % 2 = (a % 2 + b % 2) % 2 := by
  have h := @Nat.xor_mod_two_eq_one a b
  rcases Nat.mod_two_eq_zero_or_one a with ha | ha <;>
  rcases Nat.mod_two_eq_zero_or_one b with hb | hb <;>
  rcases Nat.mod_two_eq_zero_or_one (a ^^^ b) with hx | hx <;> simp_all

theorem popcount_xor (a b : Nat) : popcount (a ^^^ b) % 2 = (popcount a + popcount b) % 2 := by
  induction a using Nat.strongRecOn generalizing b with
  | _ a ih =>
    by_cases ha : a = 0
    · subst a; simp [popcount_zero]
    · rw [popcount_eq (a ^^^ b), popcount_eq a, popcount_eq b, xor_div2, xor_mod2]
      have := ih (a / 2) (by omega) (b / 2)
      omega

theorem crcBit_parity (x : Nat) : popcount (crcBit x) % 2 = popcount x % 2 := by
  unfold crcBit
  split
  · rename_i h
    have := popcount_xor (x / 2) 0xA001
    rw [popcount_poly] at this
    rw [popcount_eq x]; omega
  · rename_i h
    rw [popcount_eq x]; omega

theorem crcBits_parity (k x : Nat) : popcount (crcBits k x) % 2 = popcount x % 2 := by
  induction k generalizing x with
  | zero => rfl
  | succ k ih => simp only [crcBits]; rw [ih, crcBit_parity]

theorem crcReg_parity (s : Nat) (bs : Bytes) :
    popcount (crcReg s bs) % 2 = (popcount s + weight bs) % 2 := by
  induction bs generalizing s with
  | nil => simp [crcReg, weight]
  | cons b bs ih =>
    simp only [crcReg, List.foldl_cons, weight, List.map_cons, List.sum_cons]
    have h1 := ih (crcByte s b)
    simp only [crcReg, weight] at h1
    rw [h1]
    have h2 : popcount (crcByte s b) % 2 = (popcount s + popcount b) % 2 := by
      unfold crcByte; rw [crcBits_parity, popcount_xor]
    omega

theorem crcReg_zero_ne_zero_of_odd (e : Bytes) (h : weight e % 2 = 1) : crcReg 0 e ≠ 0 := by
  intro hz
  have := crcReg_parity 0 e
  rw [hz, popcount_zero] at this
  omega

/-! ## The message as a bit stream (least significant bit of every byte first) -/

/-- one message bit: XOR it into bit 0 of the register, then one shift step -/
def step1 (s : Nat) (b : Bool) : Nat := crcBit (s ^^^ b.toNat)

/-- the register after a bit stream -/
def sreg (s : Nat) (l : List Bool) : Nat := l.foldl step1 s

/-- the number whose binary digits (least significant first) are `l` -/
def ofBits : List Bool → Nat
  | [] => 0
  | b :: r => 2 * ofBits r ^^^ b.toNat

/-- the `k` low bits of `b`, least significant first -/
def bitsN : Nat → Nat → List Bool
  | 0, _ => []
  | k + 1, b => b.testBit 0 :: bitsN k (b / 2)

def bitstream (bs : Bytes) : List Bool := bs.flatMap (bitsN 8)

theorem two_mul_xor_bit (m c : Nat) (hc : c < 2) : 2 * m ^^^ c = 2 * m + c := by
  have h1 := xor_div2 (2 * m) c
  have h2 := xor_mod2 (2 * m) c
  have : c / 2 = 0 := by omega
  rw [this, Nat.xor_zero] at h1
  omega

theorem toNat_lt_two (b : Bool) : b.toNat < 2 := by cases b <;> decide

theorem ofBits_lt (l : List Bool) : ofBits l < 2 ^ l.length := by
  induction l with
  | nil => simp [ofBits]
  | cons b r ih =>
    simp only [ofBits, List.length_cons]
    rw [two_mul_xor_bit _ _ (toNat_lt_two b), Nat.pow_succ]
    have := toNat_lt_two b
    omega

theorem sreg_eq (s : Nat) (l : List Bool) : sreg s l = crcBits l.length (s ^^^ ofBits l) := by
  induction l generalizing s with
  | nil => simp [sreg, ofBits, crcBits]
  | cons c r ih =>
    have ih' := ih (step1 s c)
    simp only [sreg] at ih'
    simp only [sreg, List.foldl_cons, List.length_cons, crcBits, ofBits]
    rw [ih']
    congr 1
    have : s ^^^ (2 * ofBits r ^^^ c.toNat) = 2 * ofBits r ^^^ (s ^^^ c.toNat) := by ac_rfl
    rw [this, crcBit_even_xor _ _ (by omega), Nat.mul_div_cancel_left _ (by decide : 0 < 2),
      Nat.xor_comm]
    rfl

theorem length_bitsN (k b : Nat) : (bitsN k b).length = k := by
  induction k generalizing b with
  | zero => rfl
  | succ k ih => simp [bitsN, ih]

theorem ofBits_bitsN (k b : Nat) : ofBits (bitsN k b) = b % 2 ^ k := by
  induction k generalizing b with
  | zero => simp [bitsN, ofBits, Nat.mod_one]
  | succ k ih =>
    simp only [bitsN, ofBits, ih]
    have hb : (b.testBit 0).toNat = b % 2 := by
      rw [Nat.testBit_zero]
      rcases Nat.mod_two_eq_zero_or_one b with h | h <;> simp [h]
    rw [hb, two_mul_xor_bit _ _ (Nat.mod_lt _ (by decide)), Nat.pow_succ]
    have := Nat.mod_mul_right_div_self b 2 (2 ^ k)
    have h2 : b % (2 ^ k * 2) = b % (2 * 2 ^ k) := by rw [Nat.mul_comm]
    have h3 : b % (2 * 2 ^ k) % 2 = b % 2 := Nat.mod_mul_right_mod b 2 (2 ^ k)
    omega

theorem getElem?_bitsN (k b j : Nat) :
    (bitsN k b)[j]? = if j < k then some (b.testBit j) else none := by
  induction k generalizing b j with
  | zero => simp [bitsN]
  | succ k ih =>
    cases j with
    | zero => simp [bitsN]
    | succ j =>
      simp only [bitsN, List.getElem?_cons_succ, ih, Nat.testBit_succ, Nat.add_lt_add_iff_right]

theorem crcByte_eq_sreg (s b : Nat) (hb : b < 256) : crcByte s b = sreg s (bitsN 8 b) := by
  rw [sreg_eq, length_bitsN, ofBits_bitsN, Nat.mod_eq_of_lt (by omega : b < 2 ^ 8)]
  rfl

theorem sreg_append (s : Nat) (l r : List Bool) : sreg s (l ++ r) = sreg (sreg s l) r := by
  simp [sreg, List.foldl_append]

theorem crcReg_eq_sreg (s : Nat) (bs : Bytes) (h : Bytes.WF bs) :
    crcReg s bs = sreg s (bitstream bs) := by
  induction bs generalizing s with
  | nil => rfl
  | cons b bs ih =>
    have hb : b < 256 := h b (by simp)
    have hr : Bytes.WF bs := fun c hc => h c (by simp [hc])
    have e : bitstream (b :: bs) = bitsN 8 b ++ bitstream bs := by simp [bitstream]
    rw [e, sreg_append, ← crcByte_eq_sreg s b hb, ← ih _ hr]
    rfl

theorem length_bitstream (bs : Bytes) : (bitstream bs).length = 8 * bs.length := by
  induction bs with
  | nil => rfl
  | cons b bs ih =>
    have e : bitstream (b :: bs) = bitsN 8 b ++ bitstream bs := by simp [bitstream]
    rw [e, List.length_append, length_bitsN, ih, List.length_cons]; omega

theorem getElem?_bitstream (bs : Bytes) (t : Nat) :
    (bitstream bs)[t]? = if t < 8 * bs.length then some (bitAt bs t) else none := by
  induction bs generalizing t with
  | nil => simp [bitstream]
  | cons b bs ih =>
    have e : bitstream (b :: bs) = bitsN 8 b ++ bitstream bs := by simp [bitstream]
    rw [e]
    by_cases ht : t < 8
    · rw [List.getElem?_append_left (by rw [length_bitsN]; exact ht), getElem?_bitsN]
      have h0 : t / 8 = 0 := by omega
      have h1 : t % 8 = t := by omega
      simp [ht, bitAt, h0, h1]
      omega
    · rw [List.getElem?_append_right (by rw [length_bitsN]; omega), length_bitsN, ih]
      have h0 : t / 8 = (t - 8) / 8 + 1 := by omega
      have h1 : t % 8 = (t - 8) % 8 := by omega
      have hb : bitAt (b :: bs) t = bitAt bs (t - 8) := by
        simp only [bitAt, h0, h1, List.getD_cons_succ]
      rw [hb, List.length_cons]
      by_cases h : t - 8 < 8 * bs.length
      · rw [if_pos h, if_pos (by omega)]
      · rw [if_neg h, if_neg (by omega)]

theorem bitAt_lt {e : Bytes} {t : Nat} (h : bitAt e t = true) : t < 8 * e.length := by
  apply Classical.byContradiction
  intro hn
  have : e.length ≤ t / 8 := by omega
  simp [bitAt, List.getD_eq_getElem?_getD, List.getElem?_eq_none this] at h

/-! ### Streams with no 1 bit, one 1 bit, and all 1 bits inside a 16-bit window -/

theorem sreg_zeros (s : Nat) (l : List Bool) (h : ∀ i : Nat, l[i]? ≠ some true) :
    sreg s l = crcBits l.length s := by
  induction l generalizing s with
  | nil => rfl
  | cons c r ih =>
    have hc : c = false := by
      have := h 0
      cases c
      · rfl
      · simp at this
    subst hc
    have hr : ∀ i : Nat, r[i]? ≠ some true := fun i => by simpa using h (i + 1)
    have := ih (step1 s false) hr
    simp only [sreg] at this
    simp only [sreg, List.foldl_cons, List.length_cons, crcBits, this]
    simp [step1]

theorem ofBits_ne_zero (l : List Bool) (i : Nat) (h : l[i]? = some true) : ofBits l ≠ 0 := by
  induction l generalizing i with
  | nil => simp at h
  | cons c r ih =>
    simp only [ofBits]
    rw [two_mul_xor_bit _ _ (toNat_lt_two c)]
    cases i with
    | zero =>
      simp at h; subst h; simp
    | succ i =>
      simp at h
      have := ih i h
      omega

/-- a stream whose 1 bits all lie within 16 consecutive positions, and that has a 1 bit,
    leaves a non-zero register -/
theorem sreg_window (L : List Bool) (t0 t : Nat) (ht : L[t]? = some true)
    (hb : ∀ i : Nat, L[i]? = some true → t0 ≤ i ∧ i < t0 + 16) : sreg 0 L ≠ 0 := by
  have hL : L = L.take t0 ++ ((L.drop t0).take 16 ++ (L.drop t0).drop 16) := by
    rw [List.take_append_drop, List.take_append_drop]
  have htt := hb t ht
  rw [hL, sreg_append, sreg_append]
  have hA : sreg 0 (L.take t0) = 0 := by
    rw [sreg_zeros, crcBits_zero]
    intro i hi
    rw [List.getElem?_take] at hi
    split at hi
    · have := hb i hi; omega
    · simp at hi
  rw [hA]
  have hW : ((L.drop t0).take 16)[t - t0]? = some true := by
    rw [List.getElem?_take, if_pos (by omega), List.getElem?_drop]
    have : t0 + (t - t0) = t := by omega
    rw [this, ht]
  have hWlen : ((L.drop t0).take 16).length ≤ 16 := by
    rw [List.length_take]; omega
  have hW0 : sreg 0 ((L.drop t0).take 16) ≠ 0 ∧ sreg 0 ((L.drop t0).take 16) < 65536 := by
    rw [sreg_eq, Nat.zero_xor]
    have hlt : ofBits ((L.drop t0).take 16) < 65536 := by
      have h1 := ofBits_lt ((L.drop t0).take 16)
      have h2 : 2 ^ ((L.drop t0).take 16).length ≤ 2 ^ 16 :=
        Nat.pow_le_pow_right (by decide) hWlen
      omega
    exact ⟨crcBits_ne_zero _ (ofBits_ne_zero _ _ hW) hlt, crcBits_lt _ hlt⟩
  rw [sreg_zeros _ ((L.drop t0).drop 16)]
  · exact crcBits_ne_zero _ hW0.1 hW0.2
  · intro i hi
    rw [List.getElem?_drop, List.getElem?_drop] at hi
    have := hb _ hi
    omega

/-- a stream with exactly one 1 bit, at position `t` -/
theorem sreg_single (L : List Bool) (t : Nat) (ht : t < L.length)
    (h : ∀ i : Nat, L[i]? = some true ↔ i = t) : sreg 0 L = crcBits (L.length - t) 1 := by
  have hLt : L[t]? = some true := (h t).2 rfl
  have hL : L = L.take t ++ (true :: L.drop (t + 1)) := by
    have h1 : L.drop t = true :: L.drop (t + 1) := by
      rw [List.drop_eq_getElem_cons ht]
      congr 1
      rw [List.getElem?_eq_getElem ht] at hLt
      exact Option.some.inj hLt
    rw [← h1, List.take_append_drop]
  have hA : sreg 0 (L.take t) = 0 := by
    rw [sreg_zeros, crcBits_zero]
    intro i hi
    rw [List.getElem?_take] at hi
    split at hi
    · have := (h i).1 hi; omega
    · simp at hi
  have hZ : ∀ i : Nat, (L.drop (t + 1))[i]? ≠ some true := by
    intro i hi
    rw [List.getElem?_drop] at hi
    have := (h _).1 hi; omega
  have e : sreg 0 L = sreg 0 (L.take t ++ (true :: L.drop (t + 1))) := by rw [← hL]
  rw [e, sreg_append, hA]
  have : sreg 0 (true :: L.drop (t + 1)) = sreg (crcBit 1) (L.drop (t + 1)) := by
    simp [sreg, step1]
  rw [this, sreg_zeros _ _ hZ, List.length_drop]
  have : L.length - t = (L.length - (t + 1)) + 1 := by omega
  rw [this]
  rfl

/-! ## Error patterns -/

theorem length_xorBytes (a e : Bytes) (h : e.length = a.length) : (xorBytes a e).length = a.length := by
  simp [xorBytes, h]

theorem wf_xorBytes (a e : Bytes) (ha : Bytes.WF a) (he : Bytes.WF e) : Bytes.WF (xorBytes a e) := by
  induction a generalizing e with
  | nil => intro b hb; simp [xorBytes] at hb
  | cons x a ih =>
    cases e with
    | nil => intro b hb; simp [xorBytes] at hb
    | cons y e =>
      intro b hb
      simp only [xorBytes, List.zipWith_cons_cons, List.mem_cons] at hb
      rcases hb with hb | hb
      · subst hb
        exact Nat.xor_lt_two_pow (n := 8) (ha x (by simp)) (he y (by simp))
      · exact ih e (fun c hc => ha c (by simp [hc])) (fun c hc => he c (by simp [hc])) b hb

theorem xorBytes_assoc (a b c : Bytes) : xorBytes (xorBytes a b) c = xorBytes a (xorBytes b c) := by
  induction a generalizing b c with
  | nil => simp [xorBytes]
  | cons x a ih =>
    cases b with
    | nil => simp [xorBytes]
    | cons y b =>
      cases c with
      | nil => simp [xorBytes]
      | cons z c =>
        have := ih b c
        simp only [xorBytes] at this
        simp only [xorBytes, List.zipWith_cons_cons, this, Nat.xor_assoc]

theorem length_bitErr (n t : Nat) : (bitErr n t).length = n := by simp [bitErr]

theorem wf_bitErr (n t : Nat) : Bytes.WF (bitErr n t) := by
  intro b hb
  simp only [bitErr, List.mem_map, List.mem_range] at hb
  obtain ⟨k, _, hk⟩ := hb
  subst hk
  split
  · have : t % 8 < 8 := Nat.mod_lt _ (by decide)
    calc 2 ^ (t % 8) < 2 ^ 8 := Nat.pow_lt_pow_right (by decide) this
      _ = 256 := by decide
  · decide

theorem bitAt_bitErr (n t i : Nat) (ht : t < 8 * n) : bitAt (bitErr n t) i = true ↔ i = t := by
  unfold bitAt bitErr
  rw [List.getD_eq_getElem?_getD, List.getElem?_map]
  by_cases hi : i / 8 < n
  · rw [List.getElem?_range hi]
    simp only [Option.map_some, Option.getD_some]
    by_cases hk : i / 8 = t / 8
    · rw [if_pos hk, Nat.testBit_two_pow]
      simp only [decide_eq_true_eq]
      omega
    · rw [if_neg hk, Nat.zero_testBit]
      constructor
      · intro h; cases h
      · intro h; subst h; exact absurd rfl hk
  · rw [List.getElem?_eq_none (by simp; omega)]
    simp only [Option.map_none, Option.getD_none, Nat.zero_testBit]
    constructor
    · intro h; cases h
    · intro h; subst h; omega

theorem crcReg_bitErr (n t : Nat) (ht : t < 8 * n) :
    crcReg 0 (bitErr n t) = crcBits (8 * n - t) 1 := by
  rw [crcReg_eq_sreg _ _ (wf_bitErr n t)]
  have hlen : (bitstream (bitErr n t)).length = 8 * n := by
    rw [length_bitstream, length_bitErr]
  have := sreg_single (bitstream (bitErr n t)) t (by omega) (by
    intro i
    rw [getElem?_bitstream, length_bitErr]
    by_cases hi : i < 8 * n
    · rw [if_pos hi]
      simp only [Option.some.injEq]
      exact bitAt_bitErr n t i ht
    · rw [if_neg hi]
      constructor
      · intro h; cases h
      · intro h; omega)
  rw [this, hlen]

/-- the burst theorem at register level -/
theorem crcReg_burst_ne_zero (e : Bytes) (he : Bytes.WF e) (t0 : Nat)
    (hne : ∃ t, bitAt e t = true) (hb : ∀ t, bitAt e t = true → t0 ≤ t ∧ t < t0 + 16) :
    crcReg 0 e ≠ 0 := by
  obtain ⟨t, ht⟩ := hne
  rw [crcReg_eq_sreg _ _ he]
  apply sreg_window (bitstream e) t0 t
  · rw [getElem?_bitstream, if_pos (bitAt_lt ht), ht]
  · intro i hi
    rw [getElem?_bitstream] at hi
    split at hi
    · exact hb i (Option.some.inj hi)
    · cases hi

/-! ## The order of x modulo the generator polynomial -/

/-- `noReturn n s`: none of `s, crcBit s, …, crcBit^(n-1) s` equals 1 -/
def noReturn : Nat → Nat → Bool
  | 0, _ => true
  | n + 1, s => s != 1 && noReturn n (crcBit s)

theorem noReturn_spec (n s : Nat) (h : noReturn n s = true) : ∀ d, d < n → crcBits d s ≠ 1 := by
  induction n generalizing s with
  | zero => intro d hd; omega
  | succ n ih =>
    simp only [noReturn, Bool.and_eq_true, bne_iff_ne, ne_eq] at h
    intro d hd
    cases d with
    | zero => exact h.1
    | succ d => exact ih (crcBit s) h.2 d (by omega)

/-- the register value 1 does not come back to 1 in fewer than 32767 shift steps
    (x has order 32767 modulo x^16 + x^15 + x^2 + 1) -/
theorem order_check : noReturn 32766 (crcBit 1) = true := by decide +kernel

theorem crcBits_one_ne_one (d : Nat) (h1 : 1 ≤ d) (h2 : d ≤ 32766) : crcBits d 1 ≠ 1 := by
  have := noReturn_spec 32766 (crcBit 1) order_check (d - 1) (by omega)
  have e : d = (d - 1) + 1 := by omega
  rw [e]
  exact this

/-- … and it does come back after exactly 32767 steps: the bound above is sharp -/
def crcBitsStrict : Nat → Nat → Nat
  | 0, s => s
  | n + 1, s => if s < 65536 then crcBitsStrict n (crcBit s) else 0

theorem crcBitsStrict_eq (n s : Nat) (h : s < 65536) : crcBitsStrict n s = crcBits n s := by
  induction n generalizing s with
  | zero => rfl
  | succ n ih => simp only [crcBitsStrict, crcBits, if_pos h]; exact ih _ (crcBit_lt h)

theorem crcBits_order : crcBits 32767 1 = 1 := by
  rw [← crcBitsStrict_eq _ _ (by decide)]
  decide +kernel

/-- two flipped bits exactly 32767 positions apart are NOT seen by the register -/
theorem two_bit_reg_eq_zero (n t1 : Nat) (h2 : t1 + 32767 < 8 * n) :
    crcReg 0 (xorBytes (bitErr n t1) (bitErr n (t1 + 32767))) = 0 := by
  have hx := crcReg_xor 0 0 (bitErr n t1) (bitErr n (t1 + 32767)) (by rw [length_bitErr, length_bitErr])
  rw [Nat.xor_self] at hx
  rw [hx, crcReg_bitErr n t1 (by omega), crcReg_bitErr n _ h2]
  have e : 8 * n - t1 = 32767 + (8 * n - (t1 + 32767)) := by omega
  rw [e, crcBits_add, crcBits_order, Nat.xor_self]

theorem two_bit_reg_ne_zero (n t1 t2 : Nat) (h12 : t1 < t2) (h2 : t2 < 8 * n) (hd : t2 - t1 ≤ 32766) :
    crcReg 0 (xorBytes (bitErr n t1) (bitErr n t2)) ≠ 0 := by
  have hx := crcReg_xor 0 0 (bitErr n t1) (bitErr n t2) (by rw [length_bitErr, length_bitErr])
  rw [Nat.xor_self] at hx
  rw [hx, crcReg_bitErr n t1 (by omega), crcReg_bitErr n t2 h2]
  have e : 8 * n - t1 = (t2 - t1) + (8 * n - t2) := by omega
  rw [e, crcBits_add, ← crcBits_xor]
  have hne : crcBits (t2 - t1) 1 ^^^ 1 ≠ 0 := by
    intro hz
    exact crcBits_one_ne_one (t2 - t1) (by omega) hd (xor_eq_zero hz)
  have hlt : crcBits (t2 - t1) 1 ^^^ 1 < 65536 :=
    Nat.xor_lt_two_pow (n := 16) (crcBits_lt _ (by decide)) (by decide)
  exact crcBits_ne_zero _ hne hlt

theorem xorBytes_comm (a b : Bytes) : xorBytes a b = xorBytes b a := by
  induction a generalizing b with
  | nil => cases b <;> simp [xorBytes]
  | cons x a ih =>
    cases b with
    | nil => simp [xorBytes]
    | cons y b =>
      have := ih b
      simp only [xorBytes] at this
      simp only [xorBytes, List.zipWith_cons_cons, this, Nat.xor_comm]

/-! ## From a non-zero error register to a different CRC -/

theorem computeCRC_spec (bs : Bytes) (h : Bytes.WF bs) : Impl.computeCRC bs = swap16 (crc16 bs) := by
  unfold Impl.computeCRC
  simp only []
  rw [swap_spec, crcFold_spec bs h]

theorem crc16_xor (a e : Bytes) (hlen : e.length = a.length) :
    crc16 (xorBytes a e) = crc16 a ^^^ crcReg 0 e := by
  have := crcReg_xor 0xFFFF 0 a e hlen
  rw [Nat.xor_zero] at this
  exact this

theorem detect (a e : Bytes) (ha : Bytes.WF a) (he : Bytes.WF e) (hlen : e.length = a.length)
    (hne : crcReg 0 e ≠ 0) : Impl.computeCRC (xorBytes a e) ≠ Impl.computeCRC a := by
  intro h
  have hx := wf_xorBytes a e ha he
  rw [computeCRC_spec _ hx, computeCRC_spec _ ha] at h
  have h2 := swap16_inj (crc16_lt _ hx) (crc16_lt _ ha) h
  rw [crc16_xor a e hlen] at h2
  apply hne
  have : crc16 a ^^^ (crc16 a ^^^ crcReg 0 e) = crcReg 0 e := by
    rw [← Nat.xor_assoc, Nat.xor_self, Nat.zero_xor]
  rw [h2, Nat.xor_self] at this
  exact this.symm

/-! ## weights of single-bit patterns -/

theorem popcount_two_pow (j : Nat) : popcount (2 ^ j) = 1 := by
  induction j with
  | zero => rw [popcount_eq]; simp [popcount_zero]
  | succ j ih =>
    rw [popcount_eq, Nat.pow_succ, Nat.mul_mod_left, Nat.mul_div_cancel _ (by decide : 0 < 2), ih]

theorem weight_xor (a e : Bytes) (hlen : e.length = a.length) :
    weight (xorBytes a e) % 2 = (weight a + weight e) % 2 := by
  induction a generalizing e with
  | nil =>
    cases e with
    | nil => simp [xorBytes, weight]
    | cons _ _ => simp at hlen
  | cons x a ih =>
    cases e with
    | nil => simp at hlen
    | cons y e =>
      simp only [List.length_cons, Nat.add_right_cancel_iff] at hlen
      have h1 := ih e hlen
      simp only [xorBytes, weight] at h1
      simp only [xorBytes, weight, List.zipWith_cons_cons, List.map_cons, List.sum_cons]
      have h2 := popcount_xor x y
      omega

theorem popcount_one : popcount 1 = 1 := popcount_two_pow 0

theorem weight_bitErr_odd (n t : Nat) (ht : t < 8 * n) : weight (bitErr n t) % 2 = 1 := by
  have h1 := crcReg_parity 0 (bitErr n t)
  rw [crcReg_bitErr n t ht, crcBits_parity, popcount_one, popcount_zero] at h1
  omega

/-! ## LRC: sums -/

theorem sum_set (a : Bytes) (k v : Nat) (hk : k < a.length) :
    (a.set k v).sum + a[k] = a.sum + v := by
  induction a generalizing k with
  | nil => simp at hk
  | cons x a ih =>
    cases k with
    | zero => simp; omega
    | succ k =>
      simp only [List.length_cons, Nat.add_lt_add_iff_right] at hk
      have := ih k hk
      simp only [List.set_cons_succ, List.sum_cons, List.getElem_cons_succ]
      omega

theorem sum_append (a b : Bytes) : (a ++ b).sum = a.sum + b.sum := by
  induction a with
  | nil => simp
  | cons x a ih => simp only [List.cons_append, List.sum_cons, ih]; omega

theorem lrc_lt (bs : Bytes) : lrc bs < 256 := by unfold lrc; omega

/-- the residue property: message bytes plus LRC sum to 0 modulo 256 -/
theorem lrc_residue (bs : Bytes) : (bs.sum + lrc bs) % 256 = 0 := by unfold lrc; omega

/-! ## CRC residue: a frame followed by its CRC (low byte first) leaves the register 0 -/

theorem crcByte_low (c : Nat) : crcByte c (c % 256) = c / 256 := by
  unfold crcByte
  have h := split256 c
  have e : c ^^^ c % 256 = 2 ^ 8 * (c / 2 ^ 8) := by
    have : (2 ^ 8 * (c / 2 ^ 8) ^^^ c % 2 ^ 8) ^^^ c % 2 ^ 8 = c ^^^ c % 2 ^ 8 := by rw [h]
    rw [Nat.xor_assoc, Nat.xor_self, Nat.xor_zero] at this
    exact this.symm
  have := crcBits_shift 8 (2 ^ 8 * (c / 2 ^ 8)) 0 (Nat.mul_mod_right _ _)
  rw [Nat.xor_zero, crcBits_zero, Nat.xor_zero, Nat.mul_div_cancel_left _ (by decide : 0 < 2 ^ 8)] at this
  rw [e, this]

theorem crcReg_residue (s : Nat) (bs : Bytes) :
    crcReg s (bs ++ [crcReg s bs % 256, crcReg s bs / 256]) = 0 := by
  rw [crcReg_append]
  simp only [crcReg, List.foldl_cons, List.foldl_nil]
  rw [crcByte_low]
  unfold crcByte
  rw [Nat.xor_self, crcBits_zero]

end Pymodbus.Checksum
