/-
  Lemmas about the asynchronous client model (Model/AsyncClient.lean) used by Props/C16.lean.
  Core Lean only.
-/
import Pymodbus.Model.AsyncClient
import Pymodbus.Spec.AsyncClientSpec
namespace Pymodbus.AsyncClient
open Pymodbus

/-! ### the insertion-ordered dict -/

theorem dictGet_none {l : List (Nat × Entry)} {k : Nat} (h : k ∉ l.map (·.1)) : dictGet l k = none := by
  induction l with
  | nil => rfl
  | cons p r ih =>
    obtain ⟨k', e⟩ := p
    simp only [List.map_cons, List.mem_cons, not_or] at h
    simp only [dictGet]
    rw [if_neg (fun e => h.1 e.symm)]
    exact ih h.2

theorem dictGet_mem {l : List (Nat × Entry)} {k : Nat} {e : Entry} (h : dictGet l k = some e) :
    k ∈ l.map (·.1) := by
  induction l with
  | nil => simp [dictGet] at h
  | cons p r ih =>
    obtain ⟨k', e'⟩ := p
    simp only [dictGet] at h
    by_cases hk : k' = k
    · simp [hk]
    · rw [if_neg hk] at h
      simp [ih h]

theorem dictErase_not_mem {l : List (Nat × Entry)} {k : Nat} (h : k ∉ l.map (·.1)) : dictErase l k = l := by
  induction l with
  | nil => rfl
  | cons p r ih =>
    obtain ⟨k', e⟩ := p
    simp only [List.map_cons, List.mem_cons, not_or] at h
    simp only [dictErase]
    rw [if_neg (fun e => h.1 e.symm), ih h.2]

/-- a successful `pop(k)` removes exactly the first entry with key `k` -/
theorem dictGet_split {l : List (Nat × Entry)} {k : Nat} {e : Entry} (h : dictGet l k = some e) :
    ∃ l1 l2, l = l1 ++ (k, e) :: l2 ∧ k ∉ l1.map (·.1) ∧ dictErase l k = l1 ++ l2 := by
  induction l with
  | nil => simp [dictGet] at h
  | cons p r ih =>
    obtain ⟨k', e'⟩ := p
    simp only [dictGet] at h
    by_cases hk : k' = k
    · rw [if_pos hk] at h
      cases h
      subst hk
      exact ⟨[], r, rfl, by simp, by simp [dictErase]⟩
    · rw [if_neg hk] at h
      obtain ⟨l1, l2, h1, h2, h3⟩ := ih h
      refine ⟨(k', e') :: l1, l2, by rw [h1]; rfl, ?_, ?_⟩
      · simp only [List.map_cons, List.mem_cons, not_or]
        exact ⟨fun e => hk e.symm, h2⟩
      · simp only [dictErase]
        rw [if_neg hk, h3]; rfl

/-- `d[k] = e` either appends a new key or replaces the value of the existing key in place -/
theorem dictSet_split (l : List (Nat × Entry)) (k : Nat) (e : Entry) :
    (k ∉ l.map (·.1) ∧ dictSet l k e = l ++ [(k, e)]) ∨
    (∃ l1 e0 l2, l = l1 ++ (k, e0) :: l2 ∧ k ∉ l1.map (·.1) ∧ dictSet l k e = l1 ++ (k, e) :: l2) := by
  induction l with
  | nil => left; simp [dictSet]
  | cons p r ih =>
    obtain ⟨k', e'⟩ := p
    by_cases hk : k' = k
    · right
      subst hk
      exact ⟨[], e', r, rfl, by simp, by simp [dictSet]⟩
    · rcases ih with ⟨h1, h2⟩ | ⟨l1, e0, l2, h1, h2, h3⟩
      · left
        refine ⟨?_, ?_⟩
        · simp only [List.map_cons, List.mem_cons, not_or]
          exact ⟨fun e => hk e.symm, h1⟩
        · simp only [dictSet]; rw [if_neg hk, h2]; rfl
      · right
        refine ⟨(k', e') :: l1, e0, l2, by rw [h1]; rfl, ?_, ?_⟩
        · simp only [List.map_cons, List.mem_cons, not_or]
          exact ⟨fun e => hk e.symm, h2⟩
        · simp only [dictSet]; rw [if_neg hk, h3]; rfl

theorem dictGet_of_mem {l : List (Nat × Entry)} {k : Nat} (h : k ∈ l.map (·.1)) : ∃ e, dictGet l k = some e := by
  induction l with
  | nil => simp at h
  | cons p r ih =>
    obtain ⟨k', e⟩ := p
    simp only [dictGet]
    by_cases hk : k' = k
    · exact ⟨e, by rw [if_pos hk]⟩
    · rw [if_neg hk]
      simp only [List.map_cons, List.mem_cons] at h
      rcases h with h | h
      · exact absurd h.symm hk
      · exact ih h

/-! ### the transaction manager operations as list surgery -/

theorem get_none {v : Variant} {s : State} {k : Nat} (h : (get v s k).1 = none) : (get v s k).2 = s := by
  cases v with
  | dict =>
    simp only [get] at h ⊢
    have : k ∉ s.pending.map (·.1) := by
      intro hm
      obtain ⟨e, he⟩ := dictGet_of_mem hm
      rw [he] at h; cases h
    rw [dictErase_not_mem this]
  | fifo =>
    simp only [get] at h ⊢
    split at h
    · simp
    · cases h

theorem get_some {v : Variant} {s : State} {k : Nat} {e : Entry} (h : (get v s k).1 = some e) :
    ∃ l1 k' l2, s.pending = l1 ++ (k', e) :: l2 ∧ (get v s k).2 = { s with pending := l1 ++ l2 } ∧
      (v = .dict → k' = k ∧ k ∉ l1.map (·.1)) ∧ (v = .fifo → l1 = []) := by
  cases v with
  | dict =>
    simp only [get] at h ⊢
    obtain ⟨l1, l2, h1, h2, h3⟩ := dictGet_split h
    exact ⟨l1, k, l2, h1, by rw [h3], fun _ => ⟨rfl, h2⟩, fun h => by cases h⟩
  | fifo =>
    simp only [get] at h ⊢
    split at h
    · cases h
    · rename_i k' e' r hp
      cases h
      refine ⟨[], k', r, ?_, ?_, ?_, ?_⟩
      · simp [hp]
      · simp
      · intro h; cases h
      · intro _; rfl

theorem add_eq (v : Variant) (s : State) (k : Nat) (e : Entry) :
    ∃ l1 l2, add v s k e = { s with pending := l1 ++ (k, e) :: l2 } ∧
      ((s.pending = l1 ∧ l2 = [] ∧ (v = .dict → k ∉ s.pending.map (·.1))) ∨
       (v = .dict ∧ ∃ e0, s.pending = l1 ++ (k, e0) :: l2 ∧ k ∉ l1.map (·.1))) := by
  cases v with
  | dict =>
    rcases dictSet_split s.pending k e with ⟨h1, h2⟩ | ⟨l1, e0, l2, h1, h2, h3⟩
    · exact ⟨s.pending, [], by simp [add, h2], Or.inl ⟨rfl, rfl, fun _ => h1⟩⟩
    · exact ⟨l1, l2, by simp [add, h3], Or.inr ⟨rfl, e0, h1, h2⟩⟩
  | fifo =>
    exact ⟨s.pending, [], by simp [add], Or.inl ⟨rfl, rfl, fun h => by cases h⟩⟩

/-! ### observations distribute over trace concatenation -/

@[simp] theorem fired_append (a b : List Event) : fired (a ++ b) = fired a ++ fired b := List.filterMap_append
@[simp] theorem sents_append (a b : List Event) : sents (a ++ b) = sents a ++ sents b := List.filterMap_append
@[simp] theorem cbs_append (a b : List Event) : cbs (a ++ b) = cbs a ++ cbs b := List.filterMap_append
@[simp] theorem served_append (a b : List Event) : served (a ++ b) = served a ++ served b := List.filterMap_append


@[simp] theorem fired_nil : fired [] = [] := rfl
@[simp] theorem fired_sent (i t : Nat) (r : List Event) : fired (.sent i t :: r) = fired r := rfl
@[simp] theorem fired_cb (i t g : Nat) (r : List Event) : fired (.callback i t g :: r) = i :: fired r := rfl
@[simp] theorem fired_eb (i : Nat) (w : Why) (r : List Event) : fired (.errback i w :: r) = i :: fired r := rfl
@[simp] theorem fired_exc (x : PyErr) (r : List Event) : fired (.exc x :: r) = fired r := rfl
@[simp] theorem fired_sendFail (w : FailAt) (r : List Event) : fired (.sendFail w :: r) = fired r := rfl
@[simp] theorem sents_sendFail (w : FailAt) (r : List Event) : sents (.sendFail w :: r) = sents r := rfl
@[simp] theorem cbs_sendFail (w : FailAt) (r : List Event) : cbs (.sendFail w :: r) = cbs r := rfl
@[simp] theorem served_sendFail (w : FailAt) (r : List Event) : served (.sendFail w :: r) = served r := rfl
@[simp] theorem fired_tclose (r : List Event) : fired (.tclose :: r) = fired r := rfl
@[simp] theorem sents_tclose (r : List Event) : sents (.tclose :: r) = sents r := rfl
@[simp] theorem cbs_tclose (r : List Event) : cbs (.tclose :: r) = cbs r := rfl
@[simp] theorem served_tclose (r : List Event) : served (.tclose :: r) = served r := rfl
@[simp] theorem sents_nil : sents [] = [] := rfl
@[simp] theorem sents_sent (i t : Nat) (r : List Event) : sents (.sent i t :: r) = (i, t) :: sents r := rfl
@[simp] theorem sents_cb (i t g : Nat) (r : List Event) : sents (.callback i t g :: r) = sents r := rfl
@[simp] theorem sents_eb (i : Nat) (w : Why) (r : List Event) : sents (.errback i w :: r) = sents r := rfl
@[simp] theorem sents_exc (x : PyErr) (r : List Event) : sents (.exc x :: r) = sents r := rfl
@[simp] theorem cbs_nil : cbs [] = [] := rfl
@[simp] theorem cbs_sent (i t : Nat) (r : List Event) : cbs (.sent i t :: r) = cbs r := rfl
@[simp] theorem cbs_cb (i t g : Nat) (r : List Event) : cbs (.callback i t g :: r) = (i, t, g) :: cbs r := rfl
@[simp] theorem cbs_eb (i : Nat) (w : Why) (r : List Event) : cbs (.errback i w :: r) = cbs r := rfl
@[simp] theorem cbs_exc (x : PyErr) (r : List Event) : cbs (.exc x :: r) = cbs r := rfl
@[simp] theorem served_nil : served [] = [] := rfl
@[simp] theorem served_sent (i t : Nat) (r : List Event) : served (.sent i t :: r) = served r := rfl
@[simp] theorem served_cb (i t g : Nat) (r : List Event) : served (.callback i t g :: r) = i :: served r := rfl
@[simp] theorem served_eb_lost (i : Nat) (r : List Event) : served (.errback i .lost :: r) = i :: served r := rfl
@[simp] theorem served_eb_nc (i : Nat) (r : List Event) : served (.errback i .notConnected :: r) = served r := rfl
@[simp] theorem served_exc (x : PyErr) (r : List Event) : served (.exc x :: r) = served r := rfl

theorem served_sub_fired {evs : List Event} {i : Nat} (h : i ∈ served evs) : i ∈ fired evs := by
  simp only [served, fired, List.mem_filterMap] at h ⊢
  obtain ⟨e, he, hs⟩ := h
  refine ⟨e, he, ?_⟩
  cases e with
  | sent a b => simp [Event.servedId] at hs
  | callback a b c => simpa [Event.servedId, Event.firedId] using hs
  | errback a w => cases w <;> simp_all [Event.servedId, Event.firedId]
  | exc x => simp [Event.servedId] at hs
  | tclose => simp [Event.servedId] at hs
  | sendFail w => simp [Event.servedId] at hs

/-! ### the invariant of reachable (state, trace) pairs -/

/-- What holds of the state of a protocol object created by `init` and of everything it has emitted so far. -/
structure Inv (v : Variant) (s : State) (evs : List Event) : Prop where
  /-- requests are written once each, numbered in order -/
  sent_ids : (sents evs).map (·.1) = List.range s.nextId
  /-- a table entry is stored under the transaction id that was written for its request -/
  key_sent : ∀ p ∈ s.pending, (p.2.id, p.1) ∈ sents evs
  fired_lt : ∀ i ∈ fired evs, i < s.nextId
  pend_lt : ∀ p ∈ s.pending, p.2.id < s.nextId
  fired_nodup : (fired evs).Nodup
  pend_nodup : (pendingIds s).Nodup
  disjoint : ∀ p ∈ s.pending, p.2.id ∉ fired evs
  keys_nodup : v = .dict → (keys s).Nodup
  cb_sent : v = .dict → ∀ c ∈ cbs evs, (c.1, c.2.1) ∈ sents evs
  sorted : v = .fifo → (served evs ++ pendingIds s).Pairwise (· < ·)
  no_exc : ∀ e ∈ evs, e.isExc = false

theorem inv_init (v : Variant) : Inv v init [] := by
  constructor <;> simp [init, sents, fired, cbs, served, pendingIds, keys]

/-- the state after `getNextTID` (and the bookkeeping of the request number) -/
def bump (v : Variant) (s : State) : State := { s with tid := allocTid v s, nextId := s.nextId + 1 }

theorem inv_setConnected {v : Variant} {s : State} {evs : List Event} (b : Bool) (h : Inv v s evs) :
    Inv v { s with connected := b } evs := by
  obtain ⟨h2, h3, h4, h5, h6, h7, h8, h9, h10, h11, h12⟩ := h
  exact ⟨h2, h3, h4, h5, h6, h7, h8, h9, h10, h11, h12⟩

/-- `close()`: only the flag changes; `transport.close()` is not an event any observation looks at -/
theorem inv_close {v : Variant} {s : State} {evs : List Event} (hc : Bool) (h : Inv v s evs) :
    Inv v (close s hc).1 (evs ++ (close s hc).2) := by
  have h' := inv_setConnected false h
  cases hc with
  | false => simpa [close] using h'
  | true =>
    obtain ⟨h2, h3, h4, h5, h6, h7, h8, h9, h10, h11, h12⟩ := h'
    simp only [close, if_true]
    refine ⟨by simpa using h2, by simpa using h3, by simpa using h4, h5, by simpa using h6, h7, by simpa using h8, h9,
      by simpa using h10, by simpa using h11, ?_⟩
    intro e he
    simp only [List.mem_append, List.mem_cons, List.mem_nil_iff, or_false] at he
    rcases he with he | he
    · exact h12 e he
    · subst he; rfl

/-- an `execute` whose sending fails: the manager's id counter moves (no field of the invariant mentions it), the
    event is not one any observation looks at -/
theorem inv_execFail {v : Variant} {s : State} {evs : List Event} (w : FailAt) (h : Inv v s evs) :
    Inv v (execFail v s w).1 (evs ++ (execFail v s w).2) := by
  obtain ⟨h2, h3, h4, h5, h6, h7, h8, h9, h10, h11, h12⟩ := h
  simp only [execFail]
  refine ⟨by simpa using h2, by simpa using h3, by simpa using h4, h5, by simpa using h6, h7, by simpa using h8, h9,
    by simpa using h10, by simpa [pendingIds] using h11, ?_⟩
  intro e he
  simp only [List.mem_append, List.mem_cons, List.mem_nil_iff, or_false] at he
  rcases he with he | he
  · exact h12 e he
  · subst he; rfl

theorem inv_bump_fail {v : Variant} {s : State} {evs : List Event} (h : Inv v s evs) :
    Inv v (bump v s) (evs ++ [.sent s.nextId (allocTid v s), .errback s.nextId .notConnected]) := by
  obtain ⟨h2, h3, h4, h5, h6, h7, h8, h9, h10, h11, h12⟩ := h
  have hfresh : s.nextId ∉ fired evs := fun hm => Nat.lt_irrefl _ (h4 _ hm)
  constructor
  · simp only [bump, sents_append, List.map_append, h2, List.range_succ, sents_sent, sents_eb, sents_nil,
      List.map_cons, List.map_nil]
  · intro p hp
    simp only [sents_append, List.mem_append]
    exact Or.inl (h3 p hp)
  · intro i hi
    simp only [fired_append, List.mem_append] at hi
    simp only [bump]
    rcases hi with hi | hi
    · have := h4 i hi; omega
    · simp at hi; omega
  · intro p hp; have := h5 p hp; simp only [bump]; omega
  · simp only [fired_append, List.nodup_append]
    refine ⟨h6, by simp, ?_⟩
    intro a ha b hb
    simp at hb
    subst hb; intro e; subst e; exact hfresh ha
  · exact h7
  · intro p hp
    simp only [fired_append, List.mem_append, not_or]
    refine ⟨h8 p hp, ?_⟩
    simp
    have := h5 p hp; omega
  · exact h9
  · intro hv c hc
    simp only [cbs_append, List.mem_append] at hc
    rcases hc with hc | hc
    · simp only [sents_append, List.mem_append]; exact Or.inl (h10 hv c hc)
    · simp at hc
  · intro hv
    have := h11 hv
    simpa [pendingIds, bump] using this
  · intro e he
    simp only [List.mem_append, List.mem_cons, List.mem_nil_iff, or_false] at he
    rcases he with he | he | he
    · exact h12 e he
    · subst he; rfl
    · subst he; rfl

theorem inv_bump_add {v : Variant} {s : State} {evs : List Event} (r : Req) (h : Inv v s evs) :
    Inv v (add v (bump v s) (allocTid v s) ⟨s.nextId, r⟩) (evs ++ [.sent s.nextId (allocTid v s)]) := by
  obtain ⟨h2, h3, h4, h5, h6, h7, h8, h9, h10, h11, h12⟩ := h
  have hfresh : s.nextId ∉ fired evs := fun hm => Nat.lt_irrefl _ (h4 _ hm)
  replace h7 : (s.pending.map (·.2.id)).Nodup := h7
  replace h9 : v = .dict → (s.pending.map (·.1)).Nodup := h9
  have hfreshp : ∀ p ∈ s.pending, p.2.id ≠ s.nextId := fun p hp e => by have := h5 p hp; omega
  obtain ⟨l1, l2, hadd, hcase⟩ := add_eq v (bump v s) (allocTid v s) ⟨s.nextId, r⟩
  rw [hadd]
  have hbp : (bump v s).pending = s.pending := rfl
  rw [hbp] at hcase
  have hsub : ∀ p ∈ l1 ++ l2, p ∈ s.pending := by
    intro p hp
    rcases hcase with ⟨e1, e2, _⟩ | ⟨_, e0, e1, _⟩
    · subst e2; rw [e1]; simpa using hp
    · rw [e1]; simp only [List.mem_append, List.mem_cons] at hp ⊢
      rcases hp with hp | hp
      · exact Or.inl hp
      · exact Or.inr (Or.inr hp)
  have hmem : ∀ p ∈ l1 ++ ((allocTid v s, (⟨s.nextId, r⟩ : Entry)) :: l2),
      p = (allocTid v s, (⟨s.nextId, r⟩ : Entry)) ∨ p ∈ s.pending := by
    intro p hp
    simp only [List.mem_append, List.mem_cons] at hp
    rcases hp with hp | hp | hp
    · exact Or.inr (hsub p (by simp [hp]))
    · exact Or.inl hp
    · exact Or.inr (hsub p (by simp [hp]))
  constructor
  · simp only [bump, sents_append, List.map_append, h2, List.range_succ, sents_sent, sents_nil,
      List.map_cons, List.map_nil]
  · intro p hp
    simp only [sents_append, List.mem_append, sents_sent, sents_nil, List.mem_cons, List.mem_nil_iff, or_false]
    rcases hmem p hp with hp | hp
    · subst hp; exact Or.inr rfl
    · exact Or.inl (h3 p hp)
  · intro i hi
    simp only [fired_append, List.mem_append] at hi
    simp only [bump]
    rcases hi with hi | hi
    · have := h4 i hi; omega
    · simp at hi
  · intro p hp
    simp only [bump]
    rcases hmem p hp with hp | hp
    · subst hp; simp
    · have := h5 p hp; omega
  · simpa using h6
  · -- ids stay pairwise distinct: the new id is fresh, an overwritten entry only disappears
    simp only [pendingIds, List.map_append, List.map_cons]
    have hnew : ∀ l : List (Nat × Entry), (∀ p ∈ l, p ∈ s.pending) → s.nextId ∉ l.map (·.2.id) := by
      intro l hl hm
      simp only [List.mem_map] at hm
      obtain ⟨p, hp, e⟩ := hm
      exact hfreshp p (hl p hp) e
    have h7' : (l1.map (·.2.id) ++ l2.map (·.2.id)).Nodup := by
      rcases hcase with ⟨e1, e2, _⟩ | ⟨_, e0, e1, _⟩
      · subst e2; rw [e1] at h7; simpa using h7
      · rw [e1] at h7
        simp only [List.map_append, List.map_cons, List.nodup_append, List.nodup_cons] at h7 ⊢
        refine ⟨h7.1, h7.2.1.2, ?_⟩
        intro a ha b hb
        exact h7.2.2 a ha b (List.mem_cons_of_mem _ hb)
    simp only [List.nodup_append, List.nodup_cons] at h7' ⊢
    refine ⟨h7'.1, ⟨hnew l2 (fun p hp => hsub p (by simp [hp])), h7'.2.1⟩, ?_⟩
    intro a ha b hb
    simp only [List.mem_cons] at hb
    rcases hb with hb | hb
    · subst hb
      intro e; subst e
      exact hnew l1 (fun p hp => hsub p (by simp [hp])) ha
    · exact h7'.2.2 a ha b hb
  · intro p hp
    simp only [fired_append, List.mem_append, not_or]
    rcases hmem p hp with hp | hp
    · subst hp; exact ⟨hfresh, by simp⟩
    · exact ⟨h8 p hp, by simp⟩
  · intro hv
    have h9' := h9 hv
    simp only [keys, List.map_append, List.map_cons]
    rcases hcase with ⟨e1, e2, e3⟩ | ⟨_, e0, e1, _⟩
    · subst e2
      have := e3 hv
      rw [← e1]
      simp only [List.map_nil, List.nodup_append, List.nodup_cons]
      refine ⟨h9', ⟨by simp, List.nodup_nil⟩, ?_⟩
      intro a ha b hb
      simp only [List.mem_cons, List.mem_nil_iff, or_false] at hb
      subst hb; intro e; subst e; exact this ha
    · rw [e1] at h9'
      simpa using h9'
  · intro hv c hc
    simp only [cbs_append, List.mem_append] at hc
    rcases hc with hc | hc
    · simp only [sents_append, List.mem_append]; exact Or.inl (h10 hv c hc)
    · simp at hc
  · intro hv
    have h11' := h11 hv
    rcases hcase with ⟨e1, e2, e3⟩ | ⟨hd, _⟩
    · subst e2
      rw [← e1]
      simp only [served_append, served_sent, served_nil, List.append_nil, pendingIds, List.map_append,
        List.map_cons, List.map_nil]
      rw [← List.append_assoc, List.pairwise_append]
      refine ⟨by simpa [pendingIds] using h11', by simp, ?_⟩
      intro a ha b hb
      simp only [List.mem_cons, List.mem_nil_iff, or_false] at hb
      subst hb
      simp only [List.mem_append, List.mem_map] at ha
      rcases ha with ha | ⟨p, hp, e⟩
      · exact h4 a (served_sub_fired ha)
      · subst e; exact h5 p hp
    · rw [hv] at hd; cases hd
  · intro e he
    simp only [List.mem_append, List.mem_cons, List.mem_nil_iff, or_false] at he
    rcases he with he | he
    · exact h12 e he
    · subst he; rfl

/-- taking an entry out of the table and firing its deferred (with the reply that carries its key, or with
    the connection-lost failure) -/
theorem inv_pop {v : Variant} {s : State} {evs : List Event} (h : Inv v s evs)
    {l1 l2 : List (Nat × Entry)} {k : Nat} {e : Entry} (hp : s.pending = l1 ++ (k, e) :: l2)
    (hf : v = .fifo → l1 = []) (ev : Event)
    (hev : ev = .errback e.id .lost ∨ ∃ t tag, ev = .callback e.id t tag ∧ (v = .dict → t = k)) :
    Inv v { s with pending := l1 ++ l2 } (evs ++ [ev]) := by
  obtain ⟨h2, h3, h4, h5, h6, h7, h8, h9, h10, h11, h12⟩ := h
  replace h7 : (s.pending.map (·.2.id)).Nodup := h7
  replace h9 : v = .dict → (s.pending.map (·.1)).Nodup := h9
  have hsub : ∀ p ∈ l1 ++ l2, p ∈ s.pending := by
    intro p hp'
    rw [hp]; simp only [List.mem_append, List.mem_cons] at hp' ⊢
    rcases hp' with hp' | hp'
    · exact Or.inl hp'
    · exact Or.inr (Or.inr hp')
  have hin : (k, e) ∈ s.pending := by rw [hp]; simp
  have hfired : fired [ev] = [e.id] := by
    rcases hev with hev | ⟨t, tag, hev, _⟩ <;> subst hev <;> rfl
  have hsents : sents [ev] = [] := by
    rcases hev with hev | ⟨t, tag, hev, _⟩ <;> subst hev <;> rfl
  have hserved : served [ev] = [e.id] := by
    rcases hev with hev | ⟨t, tag, hev, _⟩ <;> subst hev <;> rfl
  -- the popped id is not among the remaining ones
  rw [hp] at h7
  simp only [List.map_append, List.map_cons, List.nodup_append, List.nodup_cons] at h7
  have hnot : ∀ p ∈ l1 ++ l2, p.2.id ≠ e.id := by
    intro p hp' heq
    simp only [List.mem_append] at hp'
    rcases hp' with hp' | hp'
    · exact h7.2.2 p.2.id (List.mem_map.2 ⟨p, hp', rfl⟩) e.id (by simp) heq
    · exact h7.2.1.1 (by rw [← heq]; exact List.mem_map.2 ⟨p, hp', rfl⟩)
  constructor
  · simpa [hsents] using h2
  · intro p hp'; simpa [hsents] using h3 p (hsub p hp')
  · intro i hi
    simp only [fired_append, hfired, List.mem_append, List.mem_cons, List.mem_nil_iff, or_false] at hi
    rcases hi with hi | hi
    · exact h4 i hi
    · subst hi; exact h5 _ hin
  · intro p hp'; exact h5 p (hsub p hp')
  · simp only [fired_append, hfired, List.nodup_append]
    refine ⟨h6, by simp, ?_⟩
    intro a ha b hb
    simp only [List.mem_cons, List.mem_nil_iff, or_false] at hb
    subst hb; intro heq; subst heq
    exact h8 _ hin ha
  · simp only [pendingIds, List.map_append, List.nodup_append]
    exact ⟨h7.1, h7.2.1.2, fun a ha b hb => h7.2.2 a ha b (List.mem_cons_of_mem _ hb)⟩
  · intro p hp'
    simp only [fired_append, hfired, List.mem_append, List.mem_cons, List.mem_nil_iff, or_false, not_or]
    exact ⟨h8 p (hsub p hp'), hnot p hp'⟩
  · intro hv
    have := h9 hv
    rw [hp] at this
    simp only [List.map_append, List.map_cons, List.nodup_append, List.nodup_cons] at this
    simp only [keys, List.map_append, List.nodup_append]
    exact ⟨this.1, this.2.1.2, fun a ha b hb => this.2.2 a ha b (List.mem_cons_of_mem _ hb)⟩
  · intro hv c hc
    simp only [cbs_append, List.mem_append] at hc
    rcases hc with hc | hc
    · simpa [hsents] using h10 hv c hc
    · rcases hev with hev | ⟨t, tag, hev, ht⟩
      · subst hev; simp at hc
      · subst hev
        simp only [cbs_cb, cbs_nil, List.mem_cons, List.mem_nil_iff, or_false] at hc
        subst hc
        simp only
        rw [ht hv]
        simpa [hsents] using h3 _ hin
  · intro hv
    have := h11 hv
    have hl1 := hf hv
    subst hl1
    simp only [pendingIds] at this
    rw [hp] at this
    simpa [pendingIds, hserved] using this
  · intro x hx
    simp only [List.mem_append, List.mem_cons, List.mem_nil_iff, or_false] at hx
    rcases hx with hx | hx
    · exact h12 x hx
    · subst hx
      rcases hev with hev | ⟨t, tag, hev, _⟩ <;> subst hev <;> rfl

/-! ### unfolding the protocol operations -/

theorem issue_connected {v : Variant} {s : State} (r : Req) (h : s.connected = true) :
    issue v s r = (add v (bump v s) (allocTid v s) ⟨s.nextId, r⟩, [.sent s.nextId (allocTid v s)]) := by
  simp [issue, h, bump]

theorem issue_down {v : Variant} {s : State} (r : Req) (h : s.connected = false) :
    issue v s r = (bump v s, [.sent s.nextId (allocTid v s), .errback s.nextId .notConnected]) := by
  simp [issue, h, bump]

theorem execute_connected {v : Variant} {s : State} (r : Req) (h : s.connected = true) :
    execute v s r = issue v s r := by
  cases r <;> simp [execute, h]

theorem execute_down {v : Variant} {s : State} (r : Req) (h : s.connected = false) :
    execute v s r =
      match r.errK with
      | none => issue v s r
      | some k => ((execute v (bump v s) k).1, (issue v s r).2 ++ (execute v (bump v s) k).2) := by
  cases r <;> simp [execute, h, Req.errK, issue_down]

theorem inv_issue {v : Variant} {s : State} {evs : List Event} (r : Req) (h : Inv v s evs) :
    Inv v (issue v s r).1 (evs ++ (issue v s r).2) := by
  cases hc : s.connected with
  | true => rw [issue_connected r hc]; exact inv_bump_add r h
  | false => rw [issue_down r hc]; exact inv_bump_fail h

theorem bump_connected (v : Variant) (s : State) : (bump v s).connected = s.connected := rfl

theorem inv_execute {v : Variant} (r : Req) : ∀ {s : State} {evs : List Event}, Inv v s evs →
    Inv v (execute v s r).1 (evs ++ (execute v s r).2) := by
  induction r with
  | plain => intro s evs h; exact inv_issue _ h
  | onOk k _ => intro s evs h; exact inv_issue _ h
  | onErr k ih =>
    intro s evs h
    cases hc : s.connected with
    | true => rw [execute_connected _ hc]; exact inv_issue _ h
    | false =>
      rw [execute_down _ hc]
      simp only [Req.errK]
      rw [← List.append_assoc]
      have h1 := inv_issue (v := v) (.onErr k) h
      rw [issue_down _ hc] at h1 ⊢
      exact ih h1
  | both o k _ ih =>
    intro s evs h
    cases hc : s.connected with
    | true => rw [execute_connected _ hc]; exact inv_issue _ h
    | false =>
      rw [execute_down _ hc]
      simp only [Req.errK]
      rw [← List.append_assoc]
      have h1 := inv_issue (v := v) (.both o k) h
      rw [issue_down _ hc] at h1 ⊢
      exact ih h1

theorem inv_fireOk {v : Variant} {s : State} {evs : List Event} {l1 l2 : List (Nat × Entry)} {k : Nat} {e : Entry}
    (h : Inv v s evs) (hp : s.pending = l1 ++ (k, e) :: l2) (hf : v = .fifo → l1 = [])
    (t tag : Nat) (ht : v = .dict → t = k) :
    Inv v (fireOk v { s with pending := l1 ++ l2 } e t tag).1
      (evs ++ (fireOk v { s with pending := l1 ++ l2 } e t tag).2) := by
  have h1 := inv_pop h hp hf (.callback e.id t tag) (Or.inr ⟨t, tag, rfl, ht⟩)
  unfold fireOk
  split
  · exact h1
  · rename_i k' _
    have := inv_execute k' h1
    simpa using this

theorem inv_fireErr {v : Variant} {s : State} {evs : List Event} {l1 l2 : List (Nat × Entry)} {k : Nat} {e : Entry}
    (h : Inv v s evs) (hp : s.pending = l1 ++ (k, e) :: l2) (hf : v = .fifo → l1 = []) :
    Inv v (fireErr v { s with pending := l1 ++ l2 } e .lost).1
      (evs ++ (fireErr v { s with pending := l1 ++ l2 } e .lost).2) := by
  have h1 := inv_pop h hp hf (.errback e.id .lost) (Or.inl rfl)
  unfold fireErr
  split
  · exact h1
  · rename_i k' _
    have := inv_execute k' h1
    simpa using this

theorem inv_reply {v : Variant} {s : State} {evs : List Event} (t tag : Nat) (h : Inv v s evs) :
    Inv v (reply v s t tag).1 (evs ++ (reply v s t tag).2) := by
  unfold reply
  cases hg : (get v s t).1 with
  | none =>
    have h2 := get_none hg
    have : get v s t = (none, s) := Prod.ext hg h2
    rw [this]; simpa using h
  | some e =>
    obtain ⟨l1, k', l2, hp, hs', hd, hf⟩ := get_some hg
    have : get v s t = (some e, { s with pending := l1 ++ l2 }) := Prod.ext hg hs'
    rw [this]
    exact inv_fireOk h hp hf t tag (fun hv => (hd hv).1.symm)

/-! ### while the connection is down -/

/-- every request written in `es` also fails with "not connected" in `es` -/
def DownOK (es : List Event) : Prop := ∀ p ∈ sents es, Event.errback p.1 .notConnected ∈ es

theorem downOK_append {a b : List Event} (ha : DownOK a) (hb : DownOK b) : DownOK (a ++ b) := by
  intro p hp
  simp only [sents_append, List.mem_append] at hp ⊢
  rcases hp with hp | hp
  · exact Or.inl (ha p hp)
  · exact Or.inr (hb p hp)

theorem downOK_cons_eb {i : Nat} {w : Why} {a : List Event} (ha : DownOK a) : DownOK (.errback i w :: a) := by
  intro p hp
  simp only [sents_eb] at hp
  exact List.mem_cons_of_mem _ (ha p hp)

/-- with the connection down, `execute` (with everything the application's errbacks re-issue) leaves the table
    and the connection flag alone and fails every request it writes -/
theorem execute_down_spec {v : Variant} (r : Req) : ∀ (s : State), s.connected = false →
    (execute v s r).1.connected = false ∧ (execute v s r).1.pending = s.pending ∧
    DownOK (execute v s r).2 ∧ s.nextId < (execute v s r).1.nextId ∧
    (∀ i, s.nextId ≤ i → i < (execute v s r).1.nextId → Event.errback i .notConnected ∈ (execute v s r).2) := by
  have base : ∀ (s : State) (r : Req), s.connected = false →
      (issue v s r).1.connected = false ∧ (issue v s r).1.pending = s.pending ∧ DownOK (issue v s r).2 ∧
      s.nextId < (issue v s r).1.nextId ∧
      (∀ i, s.nextId ≤ i → i < (issue v s r).1.nextId → Event.errback i .notConnected ∈ (issue v s r).2) := by
    intro s r hc
    rw [issue_down r hc]
    refine ⟨hc, rfl, ?_, by simp [bump], ?_⟩
    · intro p hp
      simp at hp
      subst hp; simp
    · intro i h1 h2
      simp only [bump] at h2
      have : i = s.nextId := by omega
      subst this; simp
  have stepk : ∀ (s : State) (r k : Req), s.connected = false →
      (∀ (s : State), s.connected = false →
        (execute v s k).1.connected = false ∧ (execute v s k).1.pending = s.pending ∧
        DownOK (execute v s k).2 ∧ s.nextId < (execute v s k).1.nextId ∧
        (∀ i, s.nextId ≤ i → i < (execute v s k).1.nextId → Event.errback i .notConnected ∈ (execute v s k).2)) →
      r.errK = some k →
      (execute v s r).1.connected = false ∧ (execute v s r).1.pending = s.pending ∧
      DownOK (execute v s r).2 ∧ s.nextId < (execute v s r).1.nextId ∧
      (∀ i, s.nextId ≤ i → i < (execute v s r).1.nextId → Event.errback i .notConnected ∈ (execute v s r).2) := by
    intro s r k hc ih hk
    rw [execute_down r hc, hk]
    obtain ⟨b1, b2, b3, b4, b5⟩ := base s r hc
    rw [issue_down r hc] at b1 b2 b3 b4 b5 ⊢
    obtain ⟨i1, i2, i3, i4, i5⟩ := ih (bump v s) b1
    refine ⟨i1, by rw [i2]; exact b2, downOK_append b3 i3, by simp only at b4 ⊢; omega, ?_⟩
    intro i h1 h2
    simp only [List.mem_append]
    by_cases hi : i < (bump v s).nextId
    · exact Or.inl (b5 i h1 hi)
    · exact Or.inr (i5 i (by omega) h2)
  induction r with
  | plain => intro s hc; simpa [execute_down _ hc, Req.errK] using base s .plain hc
  | onOk k _ => intro s hc; simpa [execute_down _ hc, Req.errK] using base s (.onOk k) hc
  | onErr k ih => intro s hc; exact stepk s _ k hc ih rfl
  | both o k _ ih => intro s hc; exact stepk s _ k hc ih rfl

theorem fireErr_down_spec {v : Variant} (s : State) (e : Entry) (w : Why) (hc : s.connected = false) :
    (fireErr v s e w).1.connected = false ∧ (fireErr v s e w).1.pending = s.pending ∧
    DownOK (fireErr v s e w).2 ∧ Event.errback e.id w ∈ (fireErr v s e w).2 ∧
    s.nextId ≤ (fireErr v s e w).1.nextId ∧
    (∀ i, s.nextId ≤ i → i < (fireErr v s e w).1.nextId → Event.errback i .notConnected ∈ (fireErr v s e w).2) := by
  unfold fireErr
  split
  · refine ⟨hc, rfl, ?_, by simp, Nat.le_refl _, ?_⟩
    · intro p hp; simp at hp
    · intro i h1 h2; simp only at h2; omega
  · rename_i k _
    obtain ⟨i1, i2, i3, i4, i5⟩ := execute_down_spec (v := v) k s hc
    refine ⟨i1, i2, downOK_cons_eb i3, by simp, by simp only; omega, ?_⟩
    intro i h1 h2
    exact List.mem_cons_of_mem _ (i5 i h1 h2)

/-- the snapshot taken by `connectionLost` agrees with the table -/
def Agree (v : Variant) (ks : List Nat) (l : List (Nat × Entry)) : Prop :=
  match v with
  | .dict => ks = l.map (·.1)
  | .fifo => ks.length = l.length

theorem get_head {v : Variant} {s : State} {k k0 : Nat} {e : Entry} {rest : List (Nat × Entry)}
    (hp : s.pending = (k0, e) :: rest) (hk : v = .dict → k = k0) :
    get v s k = (some e, { s with pending := rest }) := by
  cases v with
  | dict =>
    have := hk rfl
    subst this
    simp [get, hp, dictGet, dictErase]
  | fifo => simp [get, hp]

/-- the loop of `connectionLost`, run with the connection flag already cleared on a snapshot that agrees with
    the table: every entry is failed in table order, nothing is left, nothing raises -/
theorem lostLoop_spec {v : Variant} : ∀ (ks : List Nat) (s : State) (evs : List Event),
    Inv v s evs → s.connected = false → Agree v ks s.pending →
    Inv v (lostLoop v ks s).1 (evs ++ (lostLoop v ks s).2) ∧
    (lostLoop v ks s).1.connected = false ∧ (lostLoop v ks s).1.pending = [] ∧
    DownOK (lostLoop v ks s).2 ∧
    (∀ p ∈ s.pending, Event.errback p.2.id .lost ∈ (lostLoop v ks s).2) ∧
    s.nextId ≤ (lostLoop v ks s).1.nextId ∧
    (∀ i, s.nextId ≤ i → i < (lostLoop v ks s).1.nextId → Event.errback i .notConnected ∈ (lostLoop v ks s).2) := by
  intro ks
  induction ks with
  | nil =>
    intro s evs h hc ha
    have hp : s.pending = [] := by
      cases v with
      | dict =>
        simp only [Agree] at ha
        exact List.map_eq_nil_iff.1 ha.symm
      | fifo =>
        simp only [Agree, List.length_nil] at ha
        exact List.eq_nil_of_length_eq_zero ha.symm
    simp only [lostLoop, List.append_nil]
    refine ⟨h, hc, hp, ?_, ?_, Nat.le_refl _, ?_⟩
    · intro p hp'; simp at hp'
    · intro p hp'; rw [hp] at hp'; simp at hp'
    · intro i h1 h2; omega
  | cons k ks ih =>
    intro s evs h hc ha
    obtain ⟨k0, e, rest, hp, hk, ha'⟩ : ∃ k0 e rest, s.pending = (k0, e) :: rest ∧ (v = .dict → k = k0) ∧ Agree v ks rest := by
      cases hpd : s.pending with
      | nil =>
        rw [hpd] at ha
        cases v <;> simp [Agree] at ha
      | cons p rest =>
        obtain ⟨k0, e⟩ := p
        rw [hpd] at ha
        refine ⟨k0, e, rest, rfl, ?_, ?_⟩
        · intro hv; subst hv
          simp only [Agree, List.map_cons, List.cons.injEq] at ha
          exact ha.1
        · cases v with
          | dict =>
            simp only [Agree, List.map_cons, List.cons.injEq] at ha ⊢
            exact ha.2
          | fifo =>
            simp only [Agree, List.length_cons] at ha ⊢
            omega
    have hg := get_head (v := v) (k := k) hp hk
    simp only [lostLoop, hg]
    have hp' : s.pending = [] ++ (k0, e) :: rest := by simpa using hp
    have h1 := inv_fireErr h hp' (fun _ => rfl)
    simp only [List.nil_append] at h1
    obtain ⟨f1, f2, f3, f4, f5, f6⟩ := fireErr_down_spec (v := v) { s with pending := rest } e .lost hc
    have ha'' : Agree v ks (fireErr v { s with pending := rest } e .lost).1.pending := by rw [f2]; exact ha'
    obtain ⟨j1, j2, j3, j4, j5, j6, j7⟩ := ih _ _ h1 f1 ha''
    refine ⟨by rw [← List.append_assoc]; exact j1, j2, j3, downOK_append f3 j4, ?_, by simp only at f5; omega, ?_⟩
    · intro p hpm
      rw [hp] at hpm
      simp only [List.mem_cons] at hpm
      simp only [List.mem_append]
      rcases hpm with hpm | hpm
      · subst hpm; exact Or.inl f4
      · exact Or.inr (j5 p (by rw [f2]; exact hpm))
    · intro i h1' h2'
      simp only [List.mem_append]
      by_cases hi : i < (fireErr v { s with pending := rest } e .lost).1.nextId
      · exact Or.inl (f6 i h1' hi)
      · exact Or.inr (j7 i (by omega) h2')

theorem agree_keys (v : Variant) (s : State) : Agree v (keys s) s.pending := by
  cases v <;> simp [Agree, keys]

/-- `connectionLost` on any state that satisfies the invariant -/
theorem connectionLost_spec {v : Variant} {s : State} {evs : List Event} (h : Inv v s evs) :
    Inv v (connectionLost v s).1 (evs ++ (connectionLost v s).2) ∧
    (connectionLost v s).1.connected = false ∧ (connectionLost v s).1.pending = [] ∧
    DownOK (connectionLost v s).2 ∧
    (∀ p ∈ s.pending, Event.errback p.2.id .lost ∈ (connectionLost v s).2) ∧
    s.nextId ≤ (connectionLost v s).1.nextId ∧
    (∀ i, s.nextId ≤ i → i < (connectionLost v s).1.nextId →
      Event.errback i .notConnected ∈ (connectionLost v s).2) :=
  lostLoop_spec (keys { s with connected := false }) { s with connected := false } evs
    (inv_setConnected false h) rfl (agree_keys v _)

theorem add_connected (v : Variant) (s : State) (k : Nat) (e : Entry) : (add v s k e).connected = s.connected := by
  cases v <;> rfl

theorem get_connected (v : Variant) (s : State) (k : Nat) : (get v s k).2.connected = s.connected := by
  cases v with
  | dict => rfl
  | fifo => simp only [get]; split <;> rfl

theorem execute_flag {v : Variant} (s : State) (r : Req) : (execute v s r).1.connected = s.connected := by
  cases hc : s.connected with
  | true => rw [execute_connected r hc, issue_connected r hc, add_connected]; exact hc
  | false => exact (execute_down_spec r s hc).1

theorem fireOk_flag {v : Variant} (s : State) (e : Entry) (t tag : Nat) :
    (fireOk v s e t tag).1.connected = s.connected := by
  unfold fireOk; split
  · rfl
  · exact execute_flag _ _

theorem reply_flag {v : Variant} (s : State) (t tag : Nat) : (reply v s t tag).1.connected = s.connected := by
  unfold reply
  have := get_connected v s t
  split
  · rename_i s' hg; rw [hg] at this; exact this
  · rename_i e s' hg; rw [hg] at this; rw [fireOk_flag]; exact this

theorem lostLoop_flag {v : Variant} : ∀ (ks : List Nat) (s : State), s.connected = false →
    (lostLoop v ks s).1.connected = false := by
  intro ks
  induction ks with
  | nil => intro s hc; exact hc
  | cons k ks ih =>
    intro s hc
    have hg := get_connected v s k
    simp only [lostLoop]
    split
    · rename_i s' he; rw [he] at hg; simp only at hg ⊢; rw [hg]; exact hc
    · rename_i e s' he
      rw [he] at hg
      simp only at hg ⊢
      exact ih _ (fireErr_down_spec s' e .lost (by rw [hg]; exact hc)).1

theorem step_flag {v : Variant} (s : State) (op : Op) :
    (step v s op).1.connected = Spec.connAfter s.connected op := by
  cases op with
  | connectionMade => rfl
  | execute r => exact execute_flag s r
  | reply t tag => exact reply_flag s t tag
  | connectionLost =>
    simp only [step, Spec.connAfter]
    exact lostLoop_flag _ _ rfl
  | close hc => rfl
  | execFail w => rfl


theorem inv_step {v : Variant} {s : State} {evs : List Event} (op : Op) (h : Inv v s evs) :
    Inv v (step v s op).1 (evs ++ (step v s op).2) := by
  cases op with
  | connectionMade => simpa [step] using inv_setConnected true h
  | execute r => exact inv_execute r h
  | reply t tag => exact inv_reply t tag h
  | connectionLost => exact (connectionLost_spec h).1
  | close hc => exact inv_close hc h
  | execFail w => exact inv_execFail w h

theorem inv_run {v : Variant} : ∀ (ops : List Op) {s : State} {evs : List Event}, Inv v s evs →
    Inv v (run v s ops).1 (evs ++ (run v s ops).2) := by
  intro ops
  induction ops with
  | nil => intro s evs h; simpa [run] using h
  | cons op ops ih =>
    intro s evs h
    simp only [run]
    rw [← List.append_assoc]
    exact ih (inv_step op h)

/-- every history from a fresh protocol object satisfies the invariant -/
theorem inv_reach (v : Variant) (ops : List Op) : Inv v (run v init ops).1 (run v init ops).2 := by
  simpa using inv_run ops (inv_init v)

theorem run_append {v : Variant} : ∀ (a b : List Op) (s : State),
    run v s (a ++ b) = ((run v (run v s a).1 b).1, (run v s a).2 ++ (run v (run v s a).1 b).2) := by
  intro a
  induction a with
  | nil => intro b s; simp [run]
  | cons op a ih => intro b s; simp [run, ih, List.append_assoc]

theorem flat_runSeg {v : Variant} : ∀ (ops : List Op) (s : State), Spec.flat (runSeg v s ops) = (run v s ops).2 := by
  intro ops
  induction ops with
  | nil => intro s; rfl
  | cons op ops ih => intro s; simp [runSeg, run, Spec.flat, ih]

/-! ### "outstanding" (defined on the trace) versus the transaction table -/

theorem mem_outstanding (evs : List Event) (p : Nat × Nat) :
    p ∈ Spec.outstanding evs ↔ p ∈ sents evs ∧ p.1 ∉ fired evs := by
  have hcont : ∀ i : Nat, (!(fired evs).contains i) = true ↔ i ∉ fired evs := by intro i; simp
  simp only [Spec.outstanding, List.mem_filter, hcont]

theorem sents_length {v : Variant} {s : State} {evs : List Event} (h : Inv v s evs) :
    (sents evs).length = s.nextId := by
  have := congrArg List.length h.sent_ids
  simpa using this

theorem sent_id_lt {v : Variant} {s : State} {evs : List Event} (h : Inv v s evs) {p : Nat × Nat}
    (hp : p ∈ sents evs) : p.1 < s.nextId := by
  have : p.1 ∈ (sents evs).map (·.1) := List.mem_map.2 ⟨p, hp, rfl⟩
  rw [h.sent_ids] at this
  exact List.mem_range.1 this

theorem fst_unique {l : List (Nat × Nat)} (hn : (l.map (·.1)).Nodup) {a b b' : Nat}
    (h1 : (a, b) ∈ l) (h2 : (a, b') ∈ l) : b = b' := by
  induction l with
  | nil => simp at h1
  | cons x r ih =>
    simp only [List.map_cons, List.nodup_cons] at hn
    simp only [List.mem_cons] at h1 h2
    rcases h1 with h1 | h1 <;> rcases h2 with h2 | h2
    · rw [← h1] at h2; exact (Prod.mk.inj h2).2.symm ▸ rfl
    · exfalso; apply hn.1; rw [← h1]; exact List.mem_map.2 ⟨_, h2, rfl⟩
    · exfalso; apply hn.1; rw [← h2]; exact List.mem_map.2 ⟨_, h1, rfl⟩
    · exact ih hn.2 h1 h2

/-- the transaction id written for a request is unique -/
theorem sent_unique {v : Variant} {s : State} {evs : List Event} (h : Inv v s evs) {i t t' : Nat}
    (h1 : (i, t) ∈ sents evs) (h2 : (i, t') ∈ sents evs) : t = t' :=
  fst_unique (by rw [h.sent_ids]; exact List.nodup_range) h1 h2

/-- every entry of the table is outstanding on the trace, under the transaction id that is its key -/
theorem pending_outstanding {v : Variant} {s : State} {evs : List Event} (h : Inv v s evs)
    {p : Nat × Entry} (hp : p ∈ s.pending) : (p.2.id, p.1) ∈ Spec.outstanding evs := by
  rw [mem_outstanding]
  exact ⟨h.key_sent p hp, h.disjoint p hp⟩

/-- no request has been dropped: everything written is either fired or still in the table -/
def Complete (s : State) (evs : List Event) : Prop := ∀ i, i < s.nextId → i ∈ fired evs ∨ i ∈ pendingIds s

/-- the transaction id `getNextTID` will produce next is not a key of the table -/
def Fresh (v : Variant) (s : State) : Prop := v = .dict → allocTid v s ∉ keys s

theorem complete_init : Complete init [] := by intro i hi; simp [init] at hi

theorem outstanding_pending {v : Variant} {s : State} {evs : List Event} (h : Inv v s evs) (hc : Complete s evs)
    {p : Nat × Nat} (hp : p ∈ Spec.outstanding evs) : ∃ e, (p.2, e) ∈ s.pending ∧ e.id = p.1 := by
  rw [mem_outstanding] at hp
  obtain ⟨h1, h3⟩ := hp
  rcases hc p.1 (sent_id_lt h h1) with hf | hf
  · exact absurd hf h3
  · simp only [pendingIds, List.mem_map] at hf
    obtain ⟨q, hq, he⟩ := hf
    refine ⟨q.2, ?_, he⟩
    have hs := h.key_sent q hq
    rw [he] at hs
    have : q.1 = p.2 := sent_unique h hs h1
    rw [← this]; exact hq

/-! ### the repaired allocation: an id that is still pending is never handed out (while there is a free one) -/

/-- a duplicate-free list contained in another one is not longer -/
theorem sub_len : ∀ (a l : List Nat), a.Nodup → (∀ x ∈ a, x ∈ l) → a.length ≤ l.length := by
  intro a
  induction a with
  | nil => intro l _ _; exact Nat.zero_le _
  | cons x a ih =>
    intro l hn hs
    simp only [List.nodup_cons] at hn
    have hx : x ∈ l := hs x (by simp)
    have := ih (l.erase x) hn.2 (fun y hy => by
      have hne : y ≠ x := fun e => hn.1 (e ▸ hy)
      exact (List.mem_erase_of_ne hne).2 (hs y (by simp [hy])))
    rw [List.length_erase_of_mem hx] at this
    have hpos : 0 < l.length := List.length_pos_of_mem hx
    simp only [List.length_cons]
    omega

/-- if the loop ends on an id that is in the table, every candidate it looked at (and the last one) is -/
theorem skipLoop_all (pending : List (Nat × Entry)) : ∀ (n t : Nat), t < 65536 →
    skipLoop pending n t ∈ pending.map (·.1) → ∀ i, i ≤ n → (t + i) % 65536 ∈ pending.map (·.1) := by
  intro n
  induction n with
  | zero =>
    intro t ht h i hi
    have : i = 0 := by omega
    subst this
    simp only [skipLoop] at h
    rw [Nat.add_zero, Nat.mod_eq_of_lt ht]; exact h
  | succ n ih =>
    intro t ht h i hi
    simp only [skipLoop] at h
    by_cases hm : t ∈ pending.map (·.1)
    · rw [if_pos hm] at h
      cases i with
      | zero => rw [Nat.add_zero, Nat.mod_eq_of_lt ht]; exact hm
      | succ i =>
        have := ih (nextTid t) (by unfold nextTid; omega) h i (by omega)
        have e : (nextTid t + i) % 65536 = (t + (i + 1)) % 65536 := by unfold nextTid; omega
        rw [← e]; exact this
    · rw [if_neg hm] at h; exact absurd h hm

theorem cand_nodup (t n : Nat) (hn : n ≤ 65536) : ((List.range n).map (fun i => (t + i) % 65536)).Nodup := by
  unfold List.Nodup
  rw [List.pairwise_map]
  refine List.Pairwise.imp_of_mem ?_ List.pairwise_lt_range
  intro a b ha hb hab
  simp only [List.mem_range] at ha hb
  omega

/-- **the repaired `getNextTID` returns an id that is not pending whenever the table holds fewer than 65536
    entries** (pigeonhole: the loop runs over all 65536 ids) -/
theorem alloc_fresh (v : Variant) (s : State) (hroom : s.pending.length < 65536) : Fresh v s := by
  intro hv hm
  subst hv
  simp only [allocTid, keys] at hm
  have hall := skipLoop_all s.pending 65535 (nextTid s.tid) (by unfold nextTid; omega) hm
  have hsub : ∀ x ∈ (List.range 65536).map (fun i => (nextTid s.tid + i) % 65536), x ∈ s.pending.map (·.1) := by
    intro x hx
    simp only [List.mem_map, List.mem_range] at hx
    obtain ⟨i, hi, rfl⟩ := hx
    exact hall i (by omega)
  have := sub_len _ _ (cand_nodup (nextTid s.tid) 65536 (Nat.le_refl _)) hsub
  simp only [List.length_map, List.length_range] at this
  omega

/-- the form used below: the side condition is needed for the dict manager only (the FIFO manager never looks at
    transaction ids) -/
theorem fresh_if_room (v : Variant) (s : State) (h : v = .dict → s.pending.length < 65536) : Fresh v s :=
  fun hv => alloc_fresh v s (h hv) hv

/-- the table is not larger than the set of outstanding requests -/
theorem pending_le_outstanding {v : Variant} {s : State} {evs : List Event} (h : Inv v s evs) :
    s.pending.length ≤ (Spec.outstanding evs).length := by
  have h1 : ∀ x ∈ pendingIds s, x ∈ (Spec.outstanding evs).map (·.1) := by
    intro x hx
    simp only [pendingIds, List.mem_map] at hx
    obtain ⟨p, hp, rfl⟩ := hx
    exact List.mem_map.2 ⟨_, pending_outstanding h hp, rfl⟩
  have := sub_len _ _ h.pend_nodup h1
  simpa [pendingIds] using this

/-- while fewer than 65536 requests are outstanding the next transaction id is not in the table -/
theorem fresh_of_room {v : Variant} {s : State} {evs : List Event} (h : Inv v s evs)
    (hw : Spec.Room evs) : Fresh v s :=
  alloc_fresh v s (Nat.lt_of_le_of_lt (pending_le_outstanding h) hw)

theorem complete_bump_fail {v : Variant} {s : State} {evs : List Event} (hc : Complete s evs) :
    Complete (bump v s) (evs ++ [.sent s.nextId (allocTid v s), .errback s.nextId .notConnected]) := by
  intro i hi
  simp only [bump] at hi
  simp only [fired_append, List.mem_append, fired_sent, fired_eb, fired_nil, List.mem_cons, List.mem_nil_iff,
    or_false]
  by_cases h : i < s.nextId
  · rcases hc i h with h' | h'
    · exact Or.inl (Or.inl h')
    · exact Or.inr h'
  · exact Or.inl (Or.inr (by omega))

theorem complete_bump_add {v : Variant} {s : State} {evs : List Event} (r : Req) (hc : Complete s evs)
    (hf : Fresh v s) :
    Complete (add v (bump v s) (allocTid v s) ⟨s.nextId, r⟩) (evs ++ [.sent s.nextId (allocTid v s)]) := by
  obtain ⟨l1, l2, hadd, hcase⟩ := add_eq v (bump v s) (allocTid v s) ⟨s.nextId, r⟩
  have hbp : (bump v s).pending = s.pending := rfl
  rw [hbp] at hcase
  rw [hadd]
  rcases hcase with ⟨e1, e2, _⟩ | ⟨hv, e0, e1, _⟩
  · subst e2
    intro i hi
    simp only [bump] at hi
    simp only [fired_append, List.mem_append, fired_sent, fired_nil, List.mem_nil_iff, or_false, pendingIds,
      List.map_append, List.map_cons, List.map_nil, List.mem_cons]
    by_cases h : i < s.nextId
    · rcases hc i h with h' | h'
      · exact Or.inl h'
      · right; left; rw [← e1]; exact h'
    · right; right; omega
  · exfalso
    apply hf hv
    simp only [keys, e1, List.map_append, List.map_cons, List.mem_append, List.mem_cons]
    exact Or.inr (Or.inl trivial)

theorem complete_pop {s : State} {evs : List Event} (hc : Complete s evs)
    {l1 l2 : List (Nat × Entry)} {k : Nat} {e : Entry} (hp : s.pending = l1 ++ (k, e) :: l2)
    (ev : Event) (hev : fired [ev] = [e.id]) :
    Complete { s with pending := l1 ++ l2 } (evs ++ [ev]) := by
  intro i hi
  simp only [fired_append, hev, List.mem_append, List.mem_cons, List.mem_nil_iff, or_false, pendingIds,
    List.map_append]
  rcases hc i hi with h' | h'
  · exact Or.inl (Or.inl h')
  · simp only [pendingIds, hp, List.map_append, List.map_cons, List.mem_append, List.mem_cons] at h'
    rcases h' with h' | h' | h'
    · exact Or.inr (Or.inl h')
    · exact Or.inl (Or.inr h')
    · exact Or.inr (Or.inr h')

theorem complete_issue {v : Variant} {s : State} {evs : List Event} (r : Req) (hc : Complete s evs)
    (hf : s.connected = true → Fresh v s) : Complete (issue v s r).1 (evs ++ (issue v s r).2) := by
  cases hcn : s.connected with
  | true => rw [issue_connected r hcn]; exact complete_bump_add r hc (hf hcn)
  | false => rw [issue_down r hcn]; exact complete_bump_fail hc

theorem complete_execute {v : Variant} (r : Req) : ∀ {s : State} {evs : List Event}, Complete s evs →
    (s.connected = true → Fresh v s) → Complete (execute v s r).1 (evs ++ (execute v s r).2) := by
  induction r with
  | plain => intro s evs hc hf; exact complete_issue _ hc hf
  | onOk k _ => intro s evs hc hf; exact complete_issue _ hc hf
  | onErr k ih =>
    intro s evs hc hf
    cases hcn : s.connected with
    | true => rw [execute_connected _ hcn]; exact complete_issue _ hc hf
    | false =>
      rw [execute_down _ hcn]
      simp only [Req.errK]
      rw [← List.append_assoc]
      have h1 := complete_issue (v := v) (.onErr k) hc hf
      rw [issue_down _ hcn] at h1 ⊢
      exact ih h1 (fun h => by rw [bump_connected, hcn] at h; cases h)
  | both o k _ ih =>
    intro s evs hc hf
    cases hcn : s.connected with
    | true => rw [execute_connected _ hcn]; exact complete_issue _ hc hf
    | false =>
      rw [execute_down _ hcn]
      simp only [Req.errK]
      rw [← List.append_assoc]
      have h1 := complete_issue (v := v) (.both o k) hc hf
      rw [issue_down _ hcn] at h1 ⊢
      exact ih h1 (fun h => by rw [bump_connected, hcn] at h; cases h)

theorem complete_reply {v : Variant} {s : State} {evs : List Event} (t tag : Nat) (hc : Complete s evs)
    (hroom : v = .dict → s.pending.length < 65536) :
    Complete (reply v s t tag).1 (evs ++ (reply v s t tag).2) := by
  unfold reply
  cases hg : (get v s t).1 with
  | none =>
    have : get v s t = (none, s) := Prod.ext hg (get_none hg)
    rw [this]; simpa using hc
  | some e =>
    obtain ⟨l1, k', l2, hp, hs', hd, _⟩ := get_some hg
    have : get v s t = (some e, { s with pending := l1 ++ l2 }) := Prod.ext hg hs'
    rw [this]
    have h1 := complete_pop hc hp (.callback e.id t tag) rfl
    have hf' : Fresh v { s with pending := l1 ++ l2 } := by
      apply fresh_if_room
      intro hv
      have hroom := hroom hv
      rw [hp] at hroom
      simp only [List.length_append, List.length_cons] at hroom ⊢
      omega
    simp only
    unfold fireOk
    split
    · exact h1
    · rename_i k _
      have := complete_execute k h1 (fun _ => hf')
      simpa using this

theorem complete_connectionLost {v : Variant} {s : State} {evs : List Event} (h : Inv v s evs)
    (hc : Complete s evs) : Complete (connectionLost v s).1 (evs ++ (connectionLost v s).2) := by
  obtain ⟨_, _, _, _, h5, h6, h7⟩ := connectionLost_spec h
  intro i hi
  left
  simp only [fired_append, List.mem_append]
  by_cases hlt : i < s.nextId
  · rcases hc i hlt with h' | h'
    · exact Or.inl h'
    · right
      simp only [pendingIds, List.mem_map] at h'
      obtain ⟨p, hp, rfl⟩ := h'
      exact List.mem_filterMap.2 ⟨_, h5 p hp, rfl⟩
  · right
    exact List.mem_filterMap.2 ⟨_, h7 i (by omega) hi, rfl⟩

theorem complete_step {v : Variant} {s : State} {evs : List Event} (op : Op) (h : Inv v s evs)
    (hc : Complete s evs) (hroom : v = .dict → s.pending.length < 65536) :
    Complete (step v s op).1 (evs ++ (step v s op).2) := by
  cases op with
  | connectionMade => simp only [step, List.append_nil]; exact hc
  | execute r => exact complete_execute r hc (fun _ => fresh_if_room v s hroom)
  | reply t tag => exact complete_reply t tag hc hroom
  | connectionLost => exact complete_connectionLost h hc
  | close b =>
    intro i hi
    have := hc i hi
    cases b <;> simpa [step, close, pendingIds] using this
  | execFail w =>
    intro i hi
    simpa [step, execFail, pendingIds] using hc i hi

/-! ### deliveries happen only in `reply` -/

theorem cbs_issue {v : Variant} (s : State) (r : Req) : cbs (issue v s r).2 = [] := by
  cases hc : s.connected with
  | true => rw [issue_connected r hc]; rfl
  | false => rw [issue_down r hc]; rfl

theorem cbs_execute {v : Variant} (r : Req) : ∀ (s : State), cbs (execute v s r).2 = [] := by
  induction r with
  | plain => intro s; exact cbs_issue s _
  | onOk k _ => intro s; exact cbs_issue s _
  | onErr k ih =>
    intro s
    cases hc : s.connected with
    | true => rw [execute_connected _ hc]; exact cbs_issue s _
    | false => rw [execute_down _ hc]; simp [Req.errK, cbs_issue, ih]
  | both o k _ ih =>
    intro s
    cases hc : s.connected with
    | true => rw [execute_connected _ hc]; exact cbs_issue s _
    | false => rw [execute_down _ hc]; simp [Req.errK, cbs_issue, ih]

theorem cbs_fireErr {v : Variant} (s : State) (e : Entry) (w : Why) : cbs (fireErr v s e w).2 = [] := by
  unfold fireErr; split
  · rfl
  · simp [cbs_execute]

theorem cbs_fireOk {v : Variant} (s : State) (e : Entry) (t tag : Nat) :
    cbs (fireOk v s e t tag).2 = [(e.id, t, tag)] := by
  unfold fireOk; split
  · rfl
  · simp [cbs_execute]

theorem cbs_lostLoop {v : Variant} : ∀ (ks : List Nat) (s : State), cbs (lostLoop v ks s).2 = [] := by
  intro ks
  induction ks with
  | nil => intro s; rfl
  | cons k ks ih =>
    intro s
    simp only [lostLoop]
    split
    · rfl
    · simp [cbs_fireErr, ih]

theorem arrived_step {v : Variant} (s : State) (op : Op) : Spec.Arrived op (step v s op).2 := by
  cases op with
  | connectionMade => simp [Spec.Arrived, step]
  | execute r => simp [Spec.Arrived, step, cbs_execute]
  | connectionLost => simp [Spec.Arrived, step, connectionLost, cbs_lostLoop]
  | close b => cases b <;> simp [Spec.Arrived, step, close]
  | execFail w => simp [Spec.Arrived, step, execFail]
  | reply t tag =>
    simp only [Spec.Arrived, step, reply]
    split
    · simp
    · simp [cbs_fireOk]

/-! ### unsolicited replies -/

theorem reply_unsolicited {v : Variant} {s : State} {t : Nat} (tag : Nat) (h : (get v s t).1 = none) :
    reply v s t tag = (s, []) := by
  unfold reply
  have : get v s t = (none, s) := Prod.ext h (get_none h)
  rw [this]

theorem get_none_of_not_key {s : State} {t : Nat} (h : t ∉ keys s) : (get .dict s t).1 = none :=
  dictGet_none h

theorem get_none_of_empty {s : State} (t : Nat) (h : s.pending = []) : (get .fifo s t).1 = none := by
  simp [get, h]

theorem unsolicited_step {v : Variant} {s : State} {pre : List Event} (h : Inv v s pre) (op : Op) :
    Spec.Unsolicited v pre op (step v s op).2 := by
  cases op with
  | connectionMade => trivial
  | execute r => trivial
  | connectionLost => trivial
  | close b => trivial
  | execFail w => trivial
  | reply t tag =>
    simp only [Spec.Unsolicited, step]
    intro hns
    cases v with
    | dict =>
      simp only [Spec.Solicited] at hns
      have : t ∉ keys s := by
        intro hm
        simp only [keys, List.mem_map] at hm
        obtain ⟨p, hp, rfl⟩ := hm
        exact hns (List.mem_map.2 ⟨_, pending_outstanding h hp, rfl⟩)
      rw [reply_unsolicited tag (get_none_of_not_key this)]
    | fifo =>
      simp only [Spec.Solicited, ne_eq, Decidable.not_not] at hns
      have : s.pending = [] := by
        cases hp : s.pending with
        | nil => rfl
        | cons p r =>
          have := pending_outstanding h (p := p) (by rw [hp]; simp)
          rw [hns] at this; simp at this
      rw [reply_unsolicited tag (get_none_of_empty t this)]

/-! ### requests issued while the connection is down -/

theorem failsWhenDown_step {v : Variant} {s : State} {pre : List Event} (h : Inv v s pre) (op : Op) :
    Spec.FailsWhenDown s.connected op (step v s op).2 := by
  intro hd
  cases op with
  | connectionMade => simp [Spec.down] at hd
  | execute r =>
    simp only [Spec.down, Bool.not_eq_true'] at hd
    exact (execute_down_spec r s hd).2.2.1
  | connectionLost => exact (connectionLost_spec h).2.2.2.1
  | close b => intro p hp; cases b <;> simp [step, close] at hp
  | execFail w => intro p hp; simp [step, execFail] at hp
  | reply t tag =>
    simp only [Spec.down, Bool.not_eq_true'] at hd
    simp only [step, reply]
    have hg := get_connected v s t
    split
    · intro p hp; simp at hp
    · rename_i e s' he
      rw [he] at hg
      simp only at hg
      unfold fireOk
      split
      · intro p hp; simp at hp
      · rename_i k _
        have := (execute_down_spec (v := v) k s' (by rw [hg]; exact hd)).2.2.1
        intro p hp
        simp only [sents_cb] at hp
        exact List.mem_cons_of_mem _ (this p hp)

/-! ### distinct transaction ids inside the no-wrap scope -/

theorem outstanding_sorted {v : Variant} {s : State} {evs : List Event} (h : Inv v s evs) :
    (Spec.outstanding evs).Pairwise (fun a b => a.1 < b.1) := by
  simp only [Spec.outstanding]
  apply List.Pairwise.filter
  have := h.sent_ids
  have hp : ((sents evs).map (·.1)).Pairwise (· < ·) := by rw [this]; exact List.pairwise_lt_range
  rw [List.pairwise_map] at hp
  exact hp

theorem snd_unique {l : List (Nat × Entry)} (hn : (l.map (·.1)).Nodup) {a : Nat} {b b' : Entry}
    (h1 : (a, b) ∈ l) (h2 : (a, b') ∈ l) : b = b' := by
  induction l with
  | nil => simp at h1
  | cons x r ih =>
    simp only [List.map_cons, List.nodup_cons] at hn
    simp only [List.mem_cons] at h1 h2
    rcases h1 with h1 | h1 <;> rcases h2 with h2 | h2
    · rw [← h1] at h2; exact (Prod.mk.inj h2).2.symm ▸ rfl
    · exfalso; apply hn.1; rw [← h1]; exact List.mem_map.2 ⟨_, h2, rfl⟩
    · exfalso; apply hn.1; rw [← h2]; exact List.mem_map.2 ⟨_, h1, rfl⟩
    · exact ih hn.2 h1 h2

/-- while no deferred has been dropped, the outstanding requests carry pairwise distinct transaction ids: they
    are the keys of the table -/
theorem distinct_of_complete {s : State} {evs : List Event} (h : Inv .dict s evs) (hc : Complete s evs) :
    Spec.Distinct evs := by
  unfold Spec.Distinct List.Nodup
  rw [List.pairwise_map]
  have hs := outstanding_sorted h
  rw [List.Pairwise.imp_mem] at hs ⊢
  refine List.Pairwise.imp ?_ hs
  intro a b hab ha hb heq
  have hlt := hab ha hb
  obtain ⟨ea, ma, ia⟩ := outstanding_pending h hc ha
  obtain ⟨eb, mb, ib⟩ := outstanding_pending h hc hb
  rw [heq] at ma
  have := snd_unique (h.keys_nodup rfl) ma mb
  rw [this] at ia
  omega

/-! ### a solicited reply is delivered -/

theorem dictGet_of_mem_nodup {l : List (Nat × Entry)} {k : Nat} {e : Entry} (hm : (k, e) ∈ l)
    (hn : (l.map (·.1)).Nodup) : dictGet l k = some e := by
  induction l with
  | nil => simp at hm
  | cons p r ih =>
    obtain ⟨k', e'⟩ := p
    simp only [List.map_cons, List.nodup_cons] at hn
    simp only [List.mem_cons, Prod.mk.injEq] at hm
    simp only [dictGet]
    rcases hm with ⟨rfl, rfl⟩ | hm
    · simp
    · have : k' ≠ k := by
        intro e; subst e
        exact hn.1 (List.mem_map.2 ⟨_, hm, rfl⟩)
      rw [if_neg this]
      exact ih hm hn.2

theorem fireOk_head {v : Variant} (s : State) (e : Entry) (t tag : Nat) :
    Event.callback e.id t tag ∈ (fireOk v s e t tag).2 := by
  unfold fireOk; split <;> simp

theorem delivered_step {v : Variant} {s : State} {pre : List Event} (h : Inv v s pre) (hc : Complete s pre)
    (op : Op) : Spec.Delivered v pre op (step v s op).2 := by
  cases op with
  | connectionMade => trivial
  | execute r => trivial
  | connectionLost => trivial
  | close b => trivial
  | execFail w => trivial
  | reply t tag =>
    cases v with
    | dict =>
      simp only [Spec.Delivered, step]
      intro p hp ht
      obtain ⟨e, hm, hid⟩ := outstanding_pending h hc hp
      rw [ht] at hm
      have hg : (get .dict s t).1 = some e := dictGet_of_mem_nodup hm (h.keys_nodup rfl)
      unfold reply
      have : get .dict s t = (some e, (get .dict s t).2) := Prod.ext hg rfl
      rw [this, ← hid]
      exact fireOk_head _ _ _ _
    | fifo =>
      simp only [Spec.Delivered, step]
      intro p hp
      simp only [Option.mem_def] at hp
      cases ho : Spec.outstanding pre with
      | nil => rw [ho] at hp; simp at hp
      | cons q rest =>
        rw [ho] at hp
        simp only [List.head?_cons, Option.some.injEq] at hp
        subst hp
        have hq : q ∈ Spec.outstanding pre := by rw [ho]; simp
        obtain ⟨e, hm, hid⟩ := outstanding_pending h hc hq
        -- the table is not empty; its head is the oldest outstanding request
        cases hpd : s.pending with
        | nil => rw [hpd] at hm; simp at hm
        | cons p0 r0 =>
          obtain ⟨k0, e0⟩ := p0
          have h0 : (e0.id, k0) ∈ Spec.outstanding pre := pending_outstanding h (p := (k0, e0)) (by rw [hpd]; simp)
          have hsorted := outstanding_sorted h
          rw [ho] at hsorted h0
          simp only [List.pairwise_cons] at hsorted
          have hle : q.1 ≤ e0.id := by
            simp only [List.mem_cons] at h0
            rcases h0 with h0 | h0
            · rw [← h0]; exact Nat.le_refl _
            · exact Nat.le_of_lt (hsorted.1 _ h0)
          have hge : e0.id ≤ q.1 := by
            have hs2 := h.sorted rfl
            rw [List.pairwise_append] at hs2
            have hs3 := hs2.2.1
            simp only [pendingIds, hpd, List.map_cons, List.pairwise_cons] at hs3
            rw [hpd] at hm
            simp only [List.mem_cons, Prod.mk.injEq] at hm
            rcases hm with ⟨_, rfl⟩ | hm
            · rw [hid]; exact Nat.le_refl _
            · rw [← hid]
              exact Nat.le_of_lt (hs3.1 _ (List.mem_map.2 ⟨_, hm, rfl⟩))
          have heq : e0.id = q.1 := Nat.le_antisymm hge hle
          have hg : get .fifo s t = (some e0, { s with pending := r0 }) := by simp [get, hpd]
          unfold reply
          rw [hg, ← heq]
          exact fireOk_head _ _ _ _

theorem lostFails_step {v : Variant} {s : State} {pre : List Event} (h : Inv v s pre) (hc : Complete s pre)
    (op : Op) : Spec.LostFails pre op (step v s op).2 := by
  cases op with
  | connectionMade => trivial
  | execute r => trivial
  | reply t tag => trivial
  | close b => trivial
  | execFail w => trivial
  | connectionLost =>
    simp only [Spec.LostFails, step]
    intro p hp
    obtain ⟨e, hm, hid⟩ := outstanding_pending h hc hp
    rw [← hid]
    exact (connectionLost_spec h).2.2.2.2.1 _ hm

/-! ### lifting facts about one operation to histories -/

theorem allSegs_runSeg {v : Variant} (I : State → List Event → Prop)
    (H P : List Event → Bool → Op → List Event → Prop)
    (hstep : ∀ s pre op, I s pre → H pre s.connected op (step v s op).2 →
      I (step v s op).1 (pre ++ (step v s op).2) ∧ P pre s.connected op (step v s op).2) :
    ∀ (ops : List Op) (s : State) (pre : List Event), I s pre →
      Spec.AllSegs H pre s.connected (runSeg v s ops) → Spec.AllSegs P pre s.connected (runSeg v s ops) := by
  intro ops
  induction ops with
  | nil => intro s pre _ _; trivial
  | cons op ops ih =>
    intro s pre hi hh
    simp only [runSeg, Spec.AllSegs] at hh ⊢
    obtain ⟨h1, h2⟩ := hstep s pre op hi hh.1
    refine ⟨h2, ?_⟩
    rw [← step_flag] at hh ⊢
    exact ih _ _ h1 hh.2

theorem allSegs_true (pre : List Event) (c : Bool) (h : Spec.Hist) :
    Spec.AllSegs (fun _ _ _ _ => True) pre c h := by
  induction h generalizing pre c with
  | nil => trivial
  | cons x h ih => obtain ⟨op, es⟩ := x; exact ⟨trivial, ih _ _⟩

theorem allSegs_imp {P Q : List Event → Bool → Op → List Event → Prop}
    (hpq : ∀ a b c d, P a b c d → Q a b c d) :
    ∀ (h : Spec.Hist) (pre : List Event) (c : Bool), Spec.AllSegs P pre c h → Spec.AllSegs Q pre c h := by
  intro h
  induction h with
  | nil => intro _ _ _; trivial
  | cons x h ih =>
    obtain ⟨op, es⟩ := x
    intro pre c hp
    exact ⟨hpq _ _ _ _ hp.1, ih _ _ hp.2⟩

theorem allSegs_last {v : Variant} {P : List Event → Bool → Op → List Event → Prop} (op : Op) :
    ∀ (a : List Op) (s : State) (pre : List Event),
      Spec.AllSegs P pre s.connected (runSeg v s (a ++ [op])) →
      P (pre ++ (run v s a).2) (run v s a).1.connected op (step v (run v s a).1 op).2 := by
  intro a
  induction a with
  | nil => intro s pre h; simpa [run] using h.1
  | cons o a ih =>
    intro s pre h
    simp only [List.cons_append, runSeg, Spec.AllSegs] at h
    have h2 := h.2
    rw [← step_flag] at h2
    have := ih _ _ h2
    simpa [run, List.append_assoc] using this

/-! ### a deferred that is neither fired nor in the table never fires -/

theorem never_fires {v : Variant} {s : State} {evs : List Event} (h : Inv v s evs) {i : Nat}
    (hi : i < s.nextId) (h1 : i ∉ fired evs) (h2 : i ∉ pendingIds s) (ops : List Op) :
    i ∉ fired (run v s ops).2 ∧ i ∉ pendingIds (run v s ops).1 := by
  -- pretend `i` failed now: the invariant still holds, and is preserved by the history
  have hfake : Inv v s (evs ++ [.errback i .notConnected]) := by
    obtain ⟨g2, g3, g4, g5, g6, g7, g8, g9, g10, g11, g12⟩ := h
    refine ⟨by simpa using g2, by simpa using g3, ?_, g5, ?_, g7, ?_, g9, ?_, ?_, ?_⟩
    · intro j hj
      simp only [fired_append, fired_eb, fired_nil, List.mem_append, List.mem_cons, List.mem_nil_iff, or_false] at hj
      rcases hj with hj | hj
      · exact g4 j hj
      · subst hj; exact hi
    · simp only [fired_append, fired_eb, fired_nil, List.nodup_append]
      refine ⟨g6, by simp, ?_⟩
      intro a ha b hb
      simp only [List.mem_cons, List.mem_nil_iff, or_false] at hb
      subst hb; intro e; subst e; exact h1 ha
    · intro p hp
      simp only [fired_append, fired_eb, fired_nil, List.mem_append, List.mem_cons, List.mem_nil_iff, or_false, not_or]
      refine ⟨g8 p hp, ?_⟩
      intro e
      exact h2 (List.mem_map.2 ⟨p, hp, e⟩)
    · intro hv c hc
      simp only [cbs_append, cbs_eb, cbs_nil, List.append_nil] at hc
      simpa using g10 hv c hc
    · intro hv
      simpa using g11 hv
    · intro e he
      simp only [List.mem_append, List.mem_cons, List.mem_nil_iff, or_false] at he
      rcases he with he | he
      · exact g12 e he
      · subst he; rfl
  have hr := inv_run ops hfake
  constructor
  · intro hm
    have := hr.fired_nodup
    simp only [fired_append, fired_eb, fired_nil, List.append_assoc, List.nodup_append, List.nodup_cons] at this
    exact this.2.1.2.2 i (by simp) i hm rfl
  · intro hm
    simp only [pendingIds, List.mem_map] at hm
    obtain ⟨p, hp, e⟩ := hm
    have := hr.disjoint p hp
    apply this
    simp [e]

/-! ### the wrap-around history: 65537 plain requests on a connected client, none answered -/

theorem dictSet_fresh {l : List (Nat × Entry)} {k : Nat} (e : Entry) (h : k ∉ l.map (·.1)) :
    dictSet l k e = l ++ [(k, e)] := by
  rcases dictSet_split l k e with ⟨_, h2⟩ | ⟨l1, e0, l2, h1, _, _⟩
  · exact h2
  · exfalso; apply h; rw [h1]; simp

def wrapTable (n : Nat) : List (Nat × Entry) := (List.range n).map (fun i => ((i + 1) % 65536, ⟨i, .plain⟩))
def wrapTrace (n : Nat) : List Event := (List.range n).map (fun i => Event.sent i ((i + 1) % 65536))

theorem Old.run_append {v : Variant} : ∀ (a b : List Op) (s : State),
    Old.run v s (a ++ b) = ((Old.run v (Old.run v s a).1 b).1, (Old.run v s a).2 ++ (Old.run v (Old.run v s a).1 b).2) := by
  intro a
  induction a with
  | nil => intro b s; simp [Old.run]
  | cons op a ih => intro b s; simp [Old.run, ih, List.append_assoc]

/-- the mutant (ids modulo 65536, table not consulted) -/
theorem run_fill (n : Nat) (hn : n ≤ 65536) :
    Old.run .dict ⟨0, [], true, 0⟩ (List.replicate n (.execute .plain)) =
      (⟨n % 65536, wrapTable n, true, n⟩, wrapTrace n) := by
  induction n with
  | zero => rfl
  | succ n ih =>
    rw [List.replicate_succ', Old.run_append, ih (by omega)]
    have hfresh : (n % 65536 + 1) % 65536 ∉ (wrapTable n).map (·.1) := by
      simp only [wrapTable, List.map_map, List.mem_map, List.mem_range, Function.comp]
      rintro ⟨i, hi, he⟩
      omega
    simp only [Old.run, Old.step, Old.execute, Old.issue, nextTid, if_true, add, List.append_nil]
    rw [dictSet_fresh _ hfresh]
    simp only [wrapTable, wrapTrace, List.range_succ, List.map_append, List.map_cons, List.map_nil]
    have e1 : (n % 65536 + 1) % 65536 = (n + 1) % 65536 := by omega
    rw [e1]

theorem wrapTable_succ (m : Nat) :
    wrapTable (m + 1) = ((0 + 1) % 65536, ⟨0, .plain⟩) :: (List.range m).map (fun i => ((i + 1 + 1) % 65536, ⟨i + 1, .plain⟩)) := by
  simp only [wrapTable, List.range_succ_eq_map, List.map_cons, List.map_map]
  rfl

theorem fired_wrapTrace (n : Nat) : fired (wrapTrace n) = [] := by
  simp only [wrapTrace, fired, List.filterMap_map]
  apply List.filterMap_eq_nil_iff.2
  intro a _; rfl

/-- one more request after `m + 1` unanswered ones, when `m + 1` is a multiple of 65536: the transaction id
    of request 0 is issued again and the new deferred replaces the old one in the table -/
theorem run_wrap (m : Nat) (hm : m + 1 ≤ 65536) (hmod : (m + 1) % 65536 = 0) :
    Old.run .dict ⟨0, [], true, 0⟩ (List.replicate (m + 1 + 1) (.execute .plain)) =
      (⟨1, (1, ⟨m + 1, .plain⟩) :: (List.range m).map (fun i => ((i + 1 + 1) % 65536, ⟨i + 1, .plain⟩)), true, m + 1 + 1⟩,
       wrapTrace (m + 1) ++ [.sent (m + 1) 1]) := by
  rw [List.replicate_succ', Old.run_append, run_fill (m + 1) hm, hmod, wrapTable_succ]
  have h4 : ((0 + 1) % 65536 : Nat) = 1 := rfl
  simp only [Old.run, Old.step, Old.execute, Old.issue, nextTid, if_true, add, List.append_nil, h4, dictSet]

theorem sents_wrapTrace (n : Nat) : sents (wrapTrace n) = (List.range n).map (fun i => (i, (i + 1) % 65536)) := by
  simp only [wrapTrace, sents, List.filterMap_map]
  induction (List.range n) with
  | nil => rfl
  | cons x r ih => simp only [List.filterMap_cons, List.map_cons, Function.comp, Event.sentOf, ih]

/-- the loop of `connectionLost` (mutant model) over a table of requests without continuations: exactly the
    entries of the table are failed -/
theorem Old.lostLoop_plain : ∀ (l : List (Nat × Entry)) (s : State), s.pending = l → (∀ p ∈ l, p.2.k = .plain) →
    (Old.lostLoop .dict (l.map (·.1)) s).2 = l.map (fun p => Event.errback p.2.id .lost) ∧
    (Old.lostLoop .dict (l.map (·.1)) s).1.pending = [] := by
  intro l
  induction l with
  | nil => intro s hp _; exact ⟨rfl, hp⟩
  | cons x r ih =>
    intro s hp hk
    obtain ⟨k0, e⟩ := x
    have hg := get_head (v := .dict) (s := s) (k := k0) hp (fun _ => rfl)
    have he : e.k = .plain := hk (k0, e) (by simp)
    obtain ⟨a, b⟩ := ih { s with pending := r } rfl (fun p hp' => hk p (by simp [hp']))
    simp only [List.map_cons, Old.lostLoop, hg, Old.fireErr, he, Req.errK, List.cons_append, List.nil_append]
    exact ⟨by rw [a], b⟩

theorem run_invariant {v : Variant} (I : State → List Event → Prop)
    (H : List Event → Bool → Op → List Event → Prop)
    (hstep : ∀ s pre op, I s pre → H pre s.connected op (step v s op).2 →
      I (step v s op).1 (pre ++ (step v s op).2)) :
    ∀ (ops : List Op) (s : State) (pre : List Event), I s pre →
      Spec.AllSegs H pre s.connected (runSeg v s ops) → I (run v s ops).1 (pre ++ (run v s ops).2) := by
  intro ops
  induction ops with
  | nil => intro s pre hi _; simpa [run] using hi
  | cons op ops ih =>
    intro s pre hi hh
    simp only [runSeg, Spec.AllSegs] at hh
    have h1 := hstep s pre op hi hh.1
    have h2 := hh.2
    rw [← step_flag] at h2
    have := ih _ _ h1 h2
    simpa [run, List.append_assoc] using this

/-! ### keys of the table after `execute` / a reply -/

theorem execute_keys {v : Variant} (r : Req) (s : State) :
    ∀ k ∈ keys (execute v s r).1, k ∈ keys s ∨ k = allocTid v s := by
  intro k hk
  cases hc : s.connected with
  | true =>
    rw [execute_connected r hc, issue_connected r hc] at hk
    obtain ⟨l1, l2, hadd, hcase⟩ := add_eq v (bump v s) (allocTid v s) ⟨s.nextId, r⟩
    rw [hadd] at hk
    have hbp : (bump v s).pending = s.pending := rfl
    rw [hbp] at hcase
    simp only [keys, List.map_append, List.map_cons, List.mem_append, List.mem_cons] at hk ⊢
    rcases hcase with ⟨e1, e2, _⟩ | ⟨_, e0, e1, _⟩
    · subst e2; rw [e1]
      rcases hk with hk | hk | hk
      · exact Or.inl hk
      · exact Or.inr hk
      · simp at hk
    · rw [e1]
      simp only [List.map_append, List.map_cons, List.mem_append, List.mem_cons]
      rcases hk with hk | hk | hk
      · exact Or.inl (Or.inl hk)
      · exact Or.inr hk
      · exact Or.inl (Or.inr (Or.inr hk))
  | false =>
    have := (execute_down_spec (v := v) r s hc).2.1
    simp only [keys] at hk ⊢
    rw [this] at hk
    exact Or.inl hk

/-- a second reply with the same transaction id finds nothing (unless that very id has just been issued
    again by the callback of the first one) -/
theorem reply_removes_key {s : State} (hn : (keys s).Nodup) (t tag : Nat)
    (ht : allocTid .dict (get .dict s t).2 ≠ t) :
    t ∉ keys (reply .dict s t tag).1 := by
  unfold reply
  cases hg : (get .dict s t).1 with
  | none =>
    have : get .dict s t = (none, s) := Prod.ext hg (get_none hg)
    rw [this]
    intro hm
    obtain ⟨e, he⟩ := dictGet_of_mem hm
    simp only [get] at hg
    rw [he] at hg; cases hg
  | some e =>
    obtain ⟨l1, k', l2, hp, hs', hd, _⟩ := get_some hg
    have : get .dict s t = (some e, { s with pending := l1 ++ l2 }) := Prod.ext hg hs'
    rw [hs'] at ht
    rw [this]
    obtain ⟨rfl, hk1⟩ := hd rfl
    have hnot : k' ∉ keys { s with pending := l1 ++ l2 } := by
      simp only [keys, hp, List.map_append, List.map_cons, List.nodup_append, List.nodup_cons] at hn
      simp only [keys, List.map_append, List.mem_append, not_or]
      exact ⟨hk1, hn.2.1.1⟩
    simp only
    unfold fireOk
    split
    · exact hnot
    · rename_i k _
      intro hm
      rcases execute_keys k _ _ hm with h' | h'
      · exact hnot h'
      · exact ht h'.symm

/-! ### after the loss: histories without a new `connectionMade` -/

/-- one operation other than `connectionMade` while the flag is down (after a loss, or after a local
    `close()` with deferreds still pending): the flag stays down, nothing is registered, every request written
    fails with "not connected" -/
theorem down_step {v : Variant} {s : State} {evs : List Event} (h : Inv v s evs) (hc : s.connected = false)
    (op : Op) (hop : op ≠ .connectionMade) :
    (step v s op).1.connected = false ∧ (∀ p ∈ (step v s op).1.pending, p ∈ s.pending) ∧
    DownOK (step v s op).2 ∧ s.nextId ≤ (step v s op).1.nextId ∧
    (∀ i, s.nextId ≤ i → i < (step v s op).1.nextId → Event.errback i .notConnected ∈ (step v s op).2) := by
  cases op with
  | connectionMade => exact absurd rfl hop
  | execute r =>
    obtain ⟨h1, h2, h3, h4, h5⟩ := execute_down_spec (v := v) r s hc
    exact ⟨h1, fun p hp => by rw [show (step v s (.execute r)).1.pending = s.pending from h2] at hp; exact hp,
      h3, Nat.le_of_lt h4, h5⟩
  | close b =>
    refine ⟨rfl, fun p hp => hp, ?_, Nat.le_refl _, ?_⟩
    · intro p hp; cases b <;> simp [step, close] at hp
    · intro i h1 h2; simp only [step, close] at h2; omega
  | execFail w =>
    refine ⟨hc, fun p hp => hp, ?_, Nat.le_refl _, ?_⟩
    · intro p hp; simp [step, execFail] at hp
    · intro i h1 h2; simp only [step, execFail] at h2; omega
  | connectionLost =>
    obtain ⟨_, c2, c3, c4, _, c6, c7⟩ := connectionLost_spec h
    refine ⟨c2, ?_, c4, c6, c7⟩
    intro p hp
    rw [show (step v s .connectionLost).1.pending = [] from c3] at hp
    simp at hp
  | reply t tag =>
    simp only [step]
    unfold reply
    cases hg : (get v s t).1 with
    | none =>
      have : get v s t = (none, s) := Prod.ext hg (get_none hg)
      rw [this]
      refine ⟨hc, fun p hp => hp, ?_, Nat.le_refl _, ?_⟩
      · intro p hp; simp at hp
      · intro i h1 h2; simp only at h2; omega
    | some e =>
      obtain ⟨l1, k', l2, hp, hs', _, _⟩ := get_some hg
      have : get v s t = (some e, { s with pending := l1 ++ l2 }) := Prod.ext hg hs'
      rw [this]
      have hsub : ∀ p ∈ l1 ++ l2, p ∈ s.pending := by
        intro p hp'
        rw [hp]; simp only [List.mem_append, List.mem_cons] at hp' ⊢
        rcases hp' with hp' | hp'
        · exact Or.inl hp'
        · exact Or.inr (Or.inr hp')
      simp only
      unfold fireOk
      split
      · refine ⟨hc, hsub, ?_, Nat.le_refl _, ?_⟩
        · intro p hp'; simp at hp'
        · intro i h1 h2; simp only at h2; omega
      · rename_i k _
        obtain ⟨e1, e2, e3, e4, e5⟩ := execute_down_spec (v := v) k { s with pending := l1 ++ l2 } hc
        refine ⟨e1, ?_, ?_, by simp only at e4 ⊢; omega, ?_⟩
        · intro p hp'
          simp only at hp'
          rw [e2] at hp'
          exact hsub p hp'
        · intro p hp'
          simp only [sents_cb] at hp'
          exact List.mem_cons_of_mem _ (e3 p hp')
        · intro i h1 h2
          exact List.mem_cons_of_mem _ (e5 i h1 h2)

theorem down_run {v : Variant} : ∀ (ops : List Op) (s : State) (evs : List Event), Inv v s evs →
    s.connected = false → (∀ op ∈ ops, op ≠ .connectionMade) →
    (run v s ops).1.connected = false ∧ (∀ p ∈ (run v s ops).1.pending, p ∈ s.pending) ∧
    DownOK (run v s ops).2 ∧ s.nextId ≤ (run v s ops).1.nextId ∧
    (∀ i, s.nextId ≤ i → i < (run v s ops).1.nextId → Event.errback i .notConnected ∈ (run v s ops).2) := by
  intro ops
  induction ops with
  | nil =>
    intro s evs _ hc _
    refine ⟨hc, fun p hp => hp, ?_, Nat.le_refl _, ?_⟩
    · intro p hp'; simp [run] at hp'
    · intro i h1 h2; simp only [run] at h2; omega
  | cons op ops ih =>
    intro s evs h hc hops
    obtain ⟨a1, a2, a3, a4, a5⟩ := down_step (v := v) h hc op (hops op (by simp))
    obtain ⟨b1, b2, b3, b4, b5⟩ := ih _ _ (inv_step op h) a1 (fun o ho => hops o (by simp [ho]))
    simp only [run]
    refine ⟨b1, fun p hp => a2 p (b2 p hp), downOK_append a3 b3, by omega, ?_⟩
    intro i h1 h2
    simp only [List.mem_append]
    by_cases hi : i < (step v s op).1.nextId
    · exact Or.inl (a5 i h1 hi)
    · exact Or.inr (b5 i (by omega) h2)

/-! ### membership in the observation lists, in terms of events -/

theorem mem_cbs_fired {evs : List Event} {c : Nat × Nat × Nat} (h : c ∈ cbs evs) : c.1 ∈ fired evs := by
  simp only [cbs, fired, List.mem_filterMap] at h ⊢
  obtain ⟨e, he, hc⟩ := h
  refine ⟨e, he, ?_⟩
  cases e <;> simp_all [Event.cbOf, Event.firedId]
  rw [← hc]

theorem mem_cbs_iff {evs : List Event} {c : Nat × Nat × Nat} :
    c ∈ cbs evs ↔ Event.callback c.1 c.2.1 c.2.2 ∈ evs := by
  simp only [cbs, List.mem_filterMap]
  constructor
  · rintro ⟨e, he, hc⟩
    cases e <;> simp_all [Event.cbOf]
    rw [← hc]; exact he
  · intro h; exact ⟨_, h, rfl⟩

theorem mem_sents_iff {evs : List Event} {p : Nat × Nat} : p ∈ sents evs ↔ Event.sent p.1 p.2 ∈ evs := by
  simp only [sents, List.mem_filterMap]
  constructor
  · rintro ⟨e, he, hc⟩
    cases e <;> simp_all [Event.sentOf]
    rw [← hc]; exact he
  · intro h; exact ⟨_, h, rfl⟩

end Pymodbus.AsyncClient
