/-
  Lemmas about several client connections in one process (Model/AsyncNet.lean): an operation on connection `i`
  touches only connection `i`; the state and the events of a connection in a multi-connection history are those
  of a single-connection history; and chunked arrival through the framer is a sequence of `reply` operations.
  Core Lean only.
-/
import Pymodbus.Lemmas.AsyncClient
import Pymodbus.Model.AsyncNet
import Pymodbus.Lemmas.FramerGeneric
namespace Pymodbus.AsyncClient
open Pymodbus Pymodbus.Framer

/-! ### privacy of `nstep` -/

theorem eventsOf_append (i : Nat) (a b : List (Nat × Event)) :
    eventsOf i (a ++ b) = eventsOf i a ++ eventsOf i b := List.filterMap_append

theorem eventsOf_tag_same (i : Nat) (es : List Event) : eventsOf i (es.map (fun e => (i, e))) = es := by
  induction es with
  | nil => rfl
  | cons e r ih =>
    simp only [List.map_cons, eventsOf, List.filterMap_cons, if_true] at ih ⊢
    rw [ih]

theorem eventsOf_tag_other {i j : Nat} (h : j ≠ i) (es : List Event) :
    eventsOf i (es.map (fun e => (j, e))) = [] := by
  induction es with
  | nil => rfl
  | cons e r ih =>
    simp only [List.map_cons, eventsOf, List.filterMap_cons, if_neg h] at ih ⊢
    exact ih

/-- an operation on connection `i` leaves every other connection exactly as it was and emits no event of it -/
theorem nstep_other {v : Variant} (n : Net) (i j : Nat) (op : COp) (h : j ≠ i) :
    (nstep v n (.on i op)).1[j]? = n[j]? ∧ eventsOf j (nstep v n (.on i op)).2 = [] := by
  simp only [nstep]
  cases hi : n[i]? with
  | none => exact ⟨rfl, rfl⟩
  | some c =>
    refine ⟨?_, eventsOf_tag_other (fun e => h e.symm) _⟩
    simp only
    rw [List.getElem?_set_ne (fun e => h e.symm)]

/-- creating a new protocol object leaves every existing connection as it was; the new one starts fresh -/
theorem nstep_open {v : Variant} (n : Net) :
    (∀ j, j < n.length → (nstep v n .open).1[j]? = n[j]?) ∧
    (nstep v n .open).1[n.length]? = some Conn.init ∧ (nstep v n .open).2 = [] ∧
    (nstep v n .open).1.length = n.length + 1 := by
  simp only [nstep]
  refine ⟨fun j hj => List.getElem?_append_left hj, by simp, trivial, by simp⟩

/-- on its own connection the operation is the single-connection step -/
theorem nstep_same {v : Variant} (n : Net) (i : Nat) (op : COp) (c : Conn) (h : n[i]? = some c) :
    (nstep v n (.on i op)).1[i]? = some (cstep v c op).1 ∧
    eventsOf i (nstep v n (.on i op)).2 = (cstep v c op).2 := by
  simp only [nstep, h]
  refine ⟨?_, eventsOf_tag_same i _⟩
  have hlt : i < n.length := by
    rcases Nat.lt_or_ge i n.length with h' | h'
    · exact h'
    · rw [List.getElem?_eq_none h'] at h; cases h
  rw [List.getElem?_set_self hlt]

theorem nstep_length {v : Variant} (n : Net) (op : NOp) : n.length ≤ (nstep v n op).1.length := by
  cases op with
  | «open» => simp [nstep]
  | on i o =>
    simp only [nstep]
    split <;> simp

theorem nrun_length {v : Variant} : ∀ (ops : List NOp) (n : Net), n.length ≤ (nrun v n ops).1.length := by
  intro ops
  induction ops with
  | nil => intro n; exact Nat.le_refl _
  | cons op ops ih => intro n; exact Nat.le_trans (nstep_length n op) (ih _)

theorem nrun_append {v : Variant} : ∀ (a b : List NOp) (n : Net),
    nrun v n (a ++ b) = ((nrun v (nrun v n a).1 b).1, (nrun v n a).2 ++ (nrun v (nrun v n a).1 b).2) := by
  intro a
  induction a with
  | nil => intro b n; simp [nrun]
  | cons op a ih => intro b n; simp [nrun, ih, List.append_assoc]

/-- **projection**: in any multi-connection history, an existing connection `i` ends in the state, and has emitted
    the events, of the single-connection history made of the operations addressed to it -/
theorem nrun_conn {v : Variant} (i : Nat) : ∀ (ops : List NOp) (n : Net) (c : Conn), n[i]? = some c →
    (nrun v n ops).1[i]? = some (crun v c (opsOf i ops)).1 ∧
    eventsOf i (nrun v n ops).2 = (crun v c (opsOf i ops)).2 := by
  intro ops
  induction ops with
  | nil => intro n c h; exact ⟨h, rfl⟩
  | cons op ops ih =>
    intro n c h
    have hlt : i < n.length := by
      rcases Nat.lt_or_ge i n.length with h' | h'
      · exact h'
      · rw [List.getElem?_eq_none h'] at h; cases h
    cases op with
    | «open» =>
      have h1 := (nstep_open (v := v) n).1 i hlt
      have h2 := (nstep_open (v := v) n).2.2.1
      obtain ⟨a, b⟩ := ih (nstep v n .open).1 c (by rw [h1]; exact h)
      simp only [nrun, opsOf, eventsOf_append, h2]
      exact ⟨a, by simpa [eventsOf] using b⟩
    | on j o =>
      by_cases hj : j = i
      · subst hj
        obtain ⟨s1, s2⟩ := nstep_same (v := v) n j o c h
        obtain ⟨a, b⟩ := ih _ _ s1
        simp only [nrun, opsOf, if_true, crun, eventsOf_append]
        exact ⟨a, by rw [s2, b]⟩
      · obtain ⟨s1, s2⟩ := nstep_other (v := v) n j i o (fun e => hj e.symm)
        obtain ⟨a, b⟩ := ih (nstep v n (.on j o)).1 c (by rw [s1]; exact h)
        simp only [nrun, opsOf, if_neg hj, eventsOf_append, s2, List.nil_append]
        exact ⟨a, b⟩

/-- before it is created a connection emits nothing -/
theorem nrun_unborn {v : Variant} (i : Nat) : ∀ (ops : List NOp) (n : Net), (nrun v n ops).1.length ≤ i →
    eventsOf i (nrun v n ops).2 = [] := by
  intro ops
  induction ops with
  | nil => intro n _; rfl
  | cons op ops ih =>
    intro n h
    simp only [nrun] at h ⊢
    have hl : (nstep v n op).1.length ≤ i := Nat.le_trans (nrun_length ops _) h
    have hn : n.length ≤ i := Nat.le_trans (nstep_length n op) hl
    rw [eventsOf_append, ih _ h, List.append_nil]
    cases op with
    | «open» => rfl
    | on j o =>
      simp only [nstep]
      cases hj : n[j]? with
      | none => rfl
      | some c =>
        have : j < n.length := by
          rcases Nat.lt_or_ge j n.length with h' | h'
          · exact h'
          · rw [List.getElem?_eq_none h'] at hj; cases hj
        exact eventsOf_tag_other (by omega) _

/-- **every connection of a multi-connection history is a single-connection history**: the protocol object
    created by an `open` (after any history `pre` on any other objects) ends, whatever is interleaved with it in
    `post`, in the state and with the event trace of `crun` from a fresh object on the operations addressed to it -/
theorem nrun_born {v : Variant} (pre post : List NOp) :
    let i := (nrun v [] pre).1.length
    let r := nrun v [] (pre ++ .open :: post)
    r.1[i]? = some (crun v Conn.init (opsOf i post)).1 ∧
    eventsOf i r.2 = (crun v Conn.init (opsOf i post)).2 := by
  intro i r
  have hr : r = nrun v [] (pre ++ .open :: post) := rfl
  rw [nrun_append] at hr
  have hopen := nstep_open (v := v) (nrun v [] pre).1
  obtain ⟨a, b⟩ := nrun_conn (v := v) i post (nstep v (nrun v [] pre).1 .open).1 Conn.init hopen.2.1
  rw [hr]
  simp only [nrun, hopen.2.2.1, List.nil_append, eventsOf_append]
  rw [nrun_unborn i pre [] (Nat.le_refl _), List.nil_append]
  exact ⟨a, b⟩

/-! ### chunked arrival = a sequence of `reply` operations -/

/-- the `_handleResponse` calls of one `processIncomingPacket`, as operations of Model/AsyncClient.lean -/
def evsToOps : List (Ev Resp) → List Op
  | [] => []
  | .deliver m _ tid _ :: r => .reply tid (respTag m) :: evsToOps r
  | .raised _ :: _ => []

def noExc (es : List Event) : List Event := es.filter (fun e => !e.isExc)

theorem noExc_append (a b : List Event) : noExc (a ++ b) = noExc a ++ noExc b := List.filter_append ..

theorem handleAll_run {v : Variant} : ∀ (evs : List (Ev Resp)) (s : State),
    (handleAll v s evs).1 = (run v s (evsToOps evs)).1 ∧
    noExc (handleAll v s evs).2 = noExc (run v s (evsToOps evs)).2 := by
  intro evs
  induction evs with
  | nil => intro s; exact ⟨rfl, rfl⟩
  | cons e r ih =>
    intro s
    cases e with
    | deliver m uid tid pid =>
      obtain ⟨a, b⟩ := ih (reply v s tid (respTag m)).1
      simp only [handleAll, evsToOps, run, step, noExc_append]
      exact ⟨a, by rw [b]⟩
    | raised x => exact ⟨rfl, rfl⟩

/-- the single-connection history (whole replies only) that a chunked history amounts to -/
def expand (v : Variant) : Conn → List COp → List Op
  | _, [] => []
  | c, .proto op :: r => op :: expand v (cstep v c (.proto op)).1 r
  | c, .data chunk :: r =>
    evsToOps (feed (frameStep v) decClient [0] false c.buf chunk).1 ++
      expand v (cstep v c (.data chunk)).1 r

theorem crun_expand {v : Variant} : ∀ (cops : List COp) (c : Conn),
    (crun v c cops).1.proto = (run v c.proto (expand v c cops)).1 ∧
    noExc (crun v c cops).2 = noExc (run v c.proto (expand v c cops)).2 := by
  intro cops
  induction cops with
  | nil => intro c; exact ⟨rfl, rfl⟩
  | cons op r ih =>
    intro c
    cases op with
    | proto o =>
      obtain ⟨a, b⟩ := ih (cstep v c (.proto o)).1
      simp only [crun, expand, run, noExc_append]
      exact ⟨a, by rw [b]; rfl⟩
    | data chunk =>
      obtain ⟨a, b⟩ := ih (cstep v c (.data chunk)).1
      obtain ⟨h1, h2⟩ := handleAll_run (v := v)
        (feed (frameStep v) decClient [0] false c.buf chunk).1 c.proto
      simp only [crun, expand, run_append, noExc_append]
      have hp : (cstep v c (.data chunk)).1.proto =
          (run v c.proto (evsToOps (feed (frameStep v) decClient [0] false c.buf chunk).1)).1 := h1
      have he : noExc (cstep v c (.data chunk)).2 =
          noExc (run v c.proto (evsToOps (feed (frameStep v) decClient [0] false c.buf chunk).1)).2 := h2
      rw [← hp]
      exact ⟨a, by rw [he, b]⟩

/-! ### a stream of whole replies, in any chunking -/

def isDeliver : Ev Resp → Bool
  | .deliver .. => true
  | .raised _ => false

theorem handleAll_deliver {v : Variant} : ∀ (evs : List (Ev Resp)) (s : State), (∀ e ∈ evs, isDeliver e = true) →
    handleAll v s evs = run v s (evsToOps evs) := by
  intro evs
  induction evs with
  | nil => intro s _; rfl
  | cons e r ih =>
    intro s h
    cases e with
    | deliver m uid tid pid =>
      simp only [handleAll, evsToOps, run, step]
      rw [ih _ (fun e he => h e (by simp [he]))]
    | raised x => have := h (.raised x) (by simp); simp [isDeliver] at this

theorem evsToOps_append (a b : List (Ev Resp)) (ha : ∀ e ∈ a, isDeliver e = true) :
    evsToOps (a ++ b) = evsToOps a ++ evsToOps b := by
  induction a with
  | nil => rfl
  | cons e r ih =>
    cases e with
    | deliver m uid tid pid =>
      simp only [List.cons_append, evsToOps]
      rw [ih (fun e he => ha e (by simp [he]))]
    | raised x => have := ha (.raised x) (by simp); simp [isDeliver] at this

/-- data chunks on one connection, as long as the framer only delivers: the run of the delivered replies -/
theorem crun_data {v : Variant} : ∀ (chunks : List Bytes) (c : Conn),
    (∀ e ∈ (feedAll (frameStep v) decClient [0] false c.buf chunks).1.flatten, isDeliver e = true) →
    crun v c (chunks.map .data) =
      (⟨(run v c.proto (evsToOps (feedAll (frameStep v) decClient [0] false c.buf chunks).1.flatten)).1,
        (feedAll (frameStep v) decClient [0] false c.buf chunks).2⟩,
       (run v c.proto (evsToOps (feedAll (frameStep v) decClient [0] false c.buf chunks).1.flatten)).2) := by
  intro chunks
  induction chunks with
  | nil => intro c _; rfl
  | cons ch r ih =>
    intro c h
    simp only [feedAll, List.flatten_cons, List.mem_append] at h
    have h1 : ∀ e ∈ (feed (frameStep v) decClient [0] false c.buf ch).1, isDeliver e = true :=
      fun e he => h e (Or.inl he)
    have hstep : cstep v c (.data ch) =
        (⟨(run v c.proto (evsToOps (feed (frameStep v) decClient [0] false c.buf ch).1)).1,
          (feed (frameStep v) decClient [0] false c.buf ch).2⟩,
         (run v c.proto (evsToOps (feed (frameStep v) decClient [0] false c.buf ch).1)).2) := by
      simp only [cstep, dataReceived]
      rw [handleAll_deliver _ _ h1]
    simp only [List.map_cons, crun, hstep, feedAll, List.flatten_cons]
    rw [ih _ (fun e he => h e (Or.inr he)), evsToOps_append _ _ h1, run_append]

end Pymodbus.AsyncClient
