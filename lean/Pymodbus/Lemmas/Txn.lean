/-
  Helper lemmas about the transaction model (`Model/Txn.lean`) used by Props/C08 and Props/C13:
  accounting of transmissions / reads / frames written / bytes received (`LogStep`), the reply side
  (`run_decClient_raised`, `fileReplies_shape`, `finish_spec`), the three shapes of `execute`
  (`execute_build_error/_broadcast/_normal`), exact reads (`Fits`, `recvReply_exact`, `transact_exact`,
  `transact_silent`), the retry loop (`Retried`, `attempts_honoured`, `execute_honoured`), readiness of the
  transport (`ReadyToSend`, `ready_serial/_tcp/_udp/_closed`) and history independence (`execute_core`).
-/
import Pymodbus.Model.Txn
namespace Pymodbus.Txn
open Framer

theorem arrive_tx (t : Transport) (n : Net) : (n.arrive t).tx = n.tx := by
  cases t <;> rfl
theorem arrive_reads (t : Transport) (n : Net) : (n.arrive t).reads = n.reads := by
  cases t <;> rfl
theorem arrive_rx (t : Transport) (n : Net) : (n.arrive t).rx = n.rx := by
  cases t <;> rfl
theorem arrive_writes (t : Transport) (n : Net) : (n.arrive t).writes = n.writes := by
  cases t <;> rfl

theorem write_tx (t : Transport) (n : Net) (p : Bytes) : (write t n p).2.tx = n.tx + 1 := by
  unfold write
  cases t <;> simp only [] <;> split <;> rfl
theorem write_reads (t : Transport) (n : Net) (p : Bytes) : (write t n p).2.reads = n.reads := by
  unfold write
  cases t <;> simp only [] <;> split <;> rfl
theorem write_rx (t : Transport) (n : Net) (p : Bytes) : (write t n p).2.rx = n.rx := by
  unfold write
  cases t <;> simp only [] <;> split <;> rfl

theorem preSend_log (t : Transport) (n n' : Net) (h : preSend t n = some n') :
    n'.tx = n.tx ∧ n'.reads = n.reads ∧ n'.rx = n.rx ∧ n'.writes = n.writes ∧ n'.script = n.script := by
  unfold preSend at h
  cases t <;> simp only [] at h
  · split at h <;> simp at h <;> subst h <;> simp
  · split at h
    · simp at h; subst h; simp
    · split at h <;> simp at h
      subst h; simp
  · simp at h; subst h; simp

theorem send_tx_le (t : Transport) (n : Net) (p : Bytes) : (send t n p).2.tx ≤ n.tx + 1 := by
  unfold send
  cases h : preSend t (n.arrive t) with
  | none => simp [arrive_tx]
  | some n' => simp only []; rw [write_tx, (preSend_log t _ _ h).1, arrive_tx]; exact Nat.le_refl _

theorem send_reads (t : Transport) (n : Net) (p : Bytes) : (send t n p).2.reads = n.reads := by
  unfold send
  cases h : preSend t (n.arrive t) with
  | none => simp [arrive_reads]
  | some n' => simp only []; rw [write_reads, (preSend_log t _ _ h).2.1, arrive_reads]

theorem send_rx (t : Transport) (n : Net) (p : Bytes) : (send t n p).2.rx = n.rx := by
  unfold send
  cases h : preSend t (n.arrive t) with
  | none => simp [arrive_rx]
  | some n' => simp only []; rw [write_rx, (preSend_log t _ _ h).2.2.1, arrive_rx]

/-- a read neither transmits nor writes; it performs at most one transport read; what it returns is what it
    appended to the receive log -/
theorem recvBytes_log (t : Transport) (size : Option Int) (n : Net) :
    (recvBytes t size n).2.tx = n.tx ∧ (recvBytes t size n).2.reads ≤ n.reads + 1 ∧
    (recvBytes t size n).2.writes = n.writes ∧
    (recvBytes t size n).2.rx = n.rx ++ ((recvBytes t size n).1.getD []) := by
  unfold recvBytes takeBytes
  cases t <;> cases size <;> simp only [] <;> (repeat' split) <;> simp


theorem write_writes (t : Transport) (n : Net) (p : Bytes) :
    (write t n p).2.writes = n.writes ++ (if (write t n p).1 then [p] else []) := by
  unfold write
  cases t <;> simp only [] <;> split <;> simp

theorem send_writes (t : Transport) (n : Net) (p : Bytes) :
    (send t n p).2.writes = n.writes ++ (if (send t n p).1 then [p] else []) := by
  unfold send
  cases h : preSend t (n.arrive t) with
  | none => simp [arrive_writes]
  | some n' => simp only []; rw [write_writes, (preSend_log t _ _ h).2.2.2.1, arrive_writes]

theorem closed_log (n : Net) : n.closed.tx = n.tx ∧ n.closed.reads = n.reads ∧ n.closed.rx = n.rx ∧
    n.closed.writes = n.writes := ⟨rfl, rfl, rfl, rfl⟩

theorem recvReply_log (cfg : Cfg) (expected : Option Int) (full : Bool) (n : Net) :
    (recvReply cfg expected full n).2.tx = n.tx ∧ (recvReply cfg expected full n).2.reads ≤ n.reads + 2 ∧
    (recvReply cfg expected full n).2.writes = n.writes ∧
    ∃ pre, (recvReply cfg expected full n).2.rx = n.rx ++ pre ++ ((recvReply cfg expected full n).1.getD []) := by
  unfold recvReply
  split
  · have := recvBytes_log cfg.transport expected n
    exact ⟨this.1, by omega, this.2.2.1, [], by simpa using this.2.2.2⟩
  · have h1 := recvBytes_log cfg.transport (some (Int.ofNat (minSize cfg.framer))) n
    split
    · next n1 heq =>
      rw [heq] at h1
      exact ⟨h1.1, by have := h1.2.1; simp only [] at this ⊢; omega, h1.2.2.1, [], by simpa using h1.2.2.2⟩
    · next readMin n1 heq =>
      rw [heq] at h1
      simp only [Option.getD_some] at h1
      split
      · exact ⟨h1.1, by have := h1.2.1; simp only [] at this ⊢; omega, h1.2.2.1, readMin, by simp [h1.2.2.2]⟩
      · split
        · exact ⟨h1.1, by have := h1.2.1; simp only [] at this ⊢; omega, h1.2.2.1, readMin, by simp [h1.2.2.2]⟩
        · next fc _ =>
          have h2 := recvBytes_log cfg.transport (restSize cfg.framer expected readMin fc) n1
          split
          · next n2 heq2 =>
            rw [heq2] at h2
            exact ⟨by simp only [] at h2 ⊢; rw [h2.1, h1.1], by have := h1.2.1; have := h2.2.1; simp only [] at *; omega,
              by simp only [] at h2 ⊢; rw [h2.2.2.1, h1.2.2.1], readMin, by simp only [] at h2 ⊢; simp [h2.2.2.2, h1.2.2.2]⟩
          · next rest n2 heq2 =>
            rw [heq2] at h2
            exact ⟨by simp only [] at h2 ⊢; rw [h2.1, h1.1], by have := h1.2.1; have := h2.2.1; simp only [] at *; omega,
              by simp only [] at h2 ⊢; rw [h2.2.2.1, h1.2.2.1], [], by simp only [] at h2 ⊢; simp [h2.2.2.2, h1.2.2.2]⟩


/-- what a part of a call may do to the log of the peer: at most `a` transmissions, at most `b` reads, the frames
    written are copies of `packet`, and the bytes received end with `resp` -/
structure LogStep (packet : Bytes) (a b : Nat) (n n' : Net) (resp : Bytes) : Prop where
  tx : n'.tx ≤ n.tx + a
  reads : n'.reads ≤ n.reads + b
  writes : ∃ k, k ≤ a ∧ n'.writes = n.writes ++ List.replicate k packet
  rx : ∃ pre, n'.rx = n.rx ++ pre ++ resp

theorem LogStep.trans {packet : Bytes} {a b a' b' : Nat} {n n1 n2 : Net} {r1 r2 : Bytes}
    (h1 : LogStep packet a b n n1 r1) (h2 : LogStep packet a' b' n1 n2 r2) :
    LogStep packet (a + a') (b + b') n n2 r2 := by
  obtain ⟨k1, hk1, hw1⟩ := h1.writes
  obtain ⟨k2, hk2, hw2⟩ := h2.writes
  obtain ⟨p1, hp1⟩ := h1.rx
  obtain ⟨p2, hp2⟩ := h2.rx
  refine ⟨by have := h1.tx; have := h2.tx; omega, by have := h1.reads; have := h2.reads; omega,
    ⟨k1 + k2, by omega, by rw [hw2, hw1, List.append_assoc, List.replicate_append_replicate]⟩,
    ⟨p1 ++ r1 ++ p2, by rw [hp2, hp1]; simp⟩⟩

theorem LogStep.mono {packet : Bytes} {a b a' b' : Nat} {n n' : Net} {r : Bytes}
    (h : LogStep packet a b n n' r) (ha : a ≤ a') (hb : b ≤ b') : LogStep packet a' b' n n' r := by
  obtain ⟨k, hk, hw⟩ := h.writes
  exact ⟨by have := h.tx; omega, by have := h.reads; omega, ⟨k, by omega, hw⟩, h.rx⟩

/-- the fields of the client state that `_transact` never touches -/
def SameCore (s s' : State) : Prop :=
  s'.tid = s.tid ∧ s'.pending = s.pending ∧ s'.noResp = s.noResp ∧ s'.fbuf = s.fbuf

theorem transact_log (cfg : Cfg) (packet : Bytes) (expected : Option Int) (full broadcast : Bool) (s : State) (n : Net) :
    LogStep packet 1 2 n (transact cfg packet expected full broadcast s n).net
      (transact cfg packet expected full broadcast s n).resp ∧
    SameCore s (transact cfg packet expected full broadcast s n).st := by
  unfold transact
  have hs := send_tx_le cfg.transport n packet
  have hr := send_reads cfg.transport n packet
  have hx := send_rx cfg.transport n packet
  have hw := send_writes cfg.transport n packet
  cases hsend : send cfg.transport n packet with
  | mk ok n1 =>
    rw [hsend] at hs hr hx hw
    simp only [] at hs hr hx hw
    cases ok with
    | false =>
      simp only [closeSock]
      refine ⟨⟨hs, by simp [closed_log, hr], ⟨0, by omega, by simpa [closed_log] using hw⟩, ⟨[], by simp [closed_log, hx]⟩⟩,
        rfl, rfl, rfl, rfl⟩
    | true =>
      simp only [if_true] at hw
      cases broadcast with
      | true =>
        simp only [if_true]
        exact ⟨⟨hs, by omega, ⟨1, by omega, by simpa using hw⟩, ⟨[], by simp [hx]⟩⟩, rfl, rfl, rfl, rfl⟩
      | false =>
        simp only [Bool.false_eq_true, if_false]
        have hl := recvReply_log cfg expected full n1
        cases hrecv : recvReply cfg expected full n1 with
        | mk res n2 =>
          rw [hrecv] at hl
          simp only [] at hl
          obtain ⟨pre, hpre⟩ := hl.2.2.2
          cases res with
          | none =>
            simp only [closeSock]
            refine ⟨⟨by simp only [closed_log]; omega, by simp only [closed_log]; have := hl.2.1; omega,
              ⟨1, by omega, by simp only [closed_log]; rw [hl.2.2.1, hw]; rfl⟩,
              ⟨pre, by simp only [closed_log]; rw [hpre, hx]; simp⟩⟩, rfl, rfl, rfl, rfl⟩
          | some bytes =>
            simp only []
            refine ⟨⟨by omega, by have := hl.2.1; omega, ⟨1, by omega, by rw [hl.2.2.1, hw]; rfl⟩,
              ⟨pre, by rw [hpre, hx]; simp⟩⟩, rfl, rfl, rfl, rfl⟩


/-- the fields the retry loop never touches -/
def SameIds (s s' : State) : Prop := s'.tid = s.tid ∧ s'.pending = s.pending ∧ s'.fbuf = s.fbuf

theorem attempts_log (cfg : Cfg) (unit : Nat) (packet : Bytes) (expected : Option Int) (k : Nat) (full : Bool)
    (s : State) (n : Net) :
    LogStep packet (k + 1) (2 * (k + 1)) n (attempts cfg unit packet expected k full s n).net
      (attempts cfg unit packet expected k full s n).resp ∧
    SameIds s (attempts cfg unit packet expected k full s n).st := by
  induction k generalizing full s n with
  | zero =>
    unfold attempts
    have h := transact_log cfg packet expected full false s n
    simp only []
    split
    · exact ⟨h.1, h.2.1, h.2.2.1, h.2.2.2.2⟩
    · exact ⟨h.1, h.2.1, h.2.2.1, h.2.2.2.2⟩
  | succ k ih =>
    unfold attempts
    have h := transact_log cfg packet expected full false s n
    simp only []
    split
    · have h2 := ih (cfg.transport = .udp)
        { (transact cfg packet expected full false s n).st with
            noResp := noteResp unit (transact cfg packet expected full false s n).resp
              (transact cfg packet expected full false s n).st.noResp, cstate := .idle }
        (transact cfg packet expected full false s n).net
      refine ⟨(h.1.trans h2.1).mono (by omega) (by omega), ?_⟩
      obtain ⟨a1, a2, a3⟩ := h2.2
      exact ⟨a1.trans h.2.1, a2.trans h.2.2.1, a3.trans h.2.2.2.2⟩
    · exact ⟨h.1.mono (by omega) (by omega), h.2.1, h.2.2.1, h.2.2.2.2⟩


/-! ### the reply side: what `processIncomingPacket` can deliver and what gets filed -/

/-- the client decoder never raises: the only exception out of the receive loop is ModbusIOException -/
theorem run_decClient_raised (step : Bytes → Step) (units : List Nat) (single : Bool) (fuel : Nat) (buf : Bytes)
    (e : PyErr) (h : Ev.raised e ∈ (run step decClient units single fuel buf).1) : e = .modbusIO := by
  induction fuel generalizing buf with
  | zero => simp [run] at h
  | succ fuel ih =>
    simp only [run] at h
    cases hs : step buf with
    | wait => simp [hs] at h
    | flush => simp [hs] at h
    | skip k => simp only [hs] at h; exact ih _ h
    | frame k pdu uid tid pid =>
      simp only [hs] at h
      split at h
      · simp only [decClient] at h
        cases hd : Impl.decResp pdu with
        | none => simp [hd] at h; exact h
        | some m =>
          simp only [hd, List.mem_cons] at h
          rcases h with h | h
          · cases h
          · exact ih _ h
      · exact ih _ h

/-- `r` was filed by `_addReply` for one of the delivered frames -/
def Filed (f : FramerKind) (reqFc tid : Nat) (evs : List (Ev Resp)) (r : Reply) : Prop :=
  ∃ pid, Ev.deliver r.msg r.uid r.tid pid ∈ evs ∧ accepts f reqFc tid r.msg r.tid = true

theorem fileReplies_shape (f : FramerKind) (reqFc tid key : Nat) (Q : Reply → Prop) (evs : List (Ev Resp))
    (p0 : List (Nat × Reply)) (h0 : p0 = [] ∨ ∃ r0, p0 = [(key, r0)] ∧ Q r0) :
    ((fileReplies f reqFc tid key evs p0).1 = [] ∨
      ∃ r, (fileReplies f reqFc tid key evs p0).1 = [(key, r)] ∧ (Q r ∨ Filed f reqFc tid evs r)) ∧
    (∀ e, (fileReplies f reqFc tid key evs p0).2 = some e → Ev.raised e ∈ evs) := by
  induction evs generalizing p0 Q with
  | nil =>
    simp only [fileReplies]
    refine ⟨?_, by intro e h; cases h⟩
    rcases h0 with h | ⟨r0, h, hq⟩
    · exact Or.inl h
    · exact Or.inr ⟨r0, h, Or.inl hq⟩
  | cons ev evs ih =>
    cases ev with
    | raised e =>
      simp only [fileReplies]
      refine ⟨?_, by intro e' h; cases h; simp⟩
      rcases h0 with h | ⟨r0, h, hq⟩
      · exact Or.inl h
      · exact Or.inr ⟨r0, h, Or.inl hq⟩
    | deliver m uid ftid pid =>
      simp only [fileReplies]
      by_cases hacc : accepts f reqFc tid m ftid = true
      · rw [if_pos hacc]
        have hset : dictSet key ⟨m, uid, ftid⟩ p0 = [(key, ⟨m, uid, ftid⟩)] := by
          rcases h0 with h | ⟨r0, h, _⟩ <;> subst h <;> simp [dictSet]
        have := ih (Q := fun r => Q r ∨ r = ⟨m, uid, ftid⟩) (dictSet key ⟨m, uid, ftid⟩ p0)
          (Or.inr ⟨⟨m, uid, ftid⟩, hset, Or.inr rfl⟩)
        refine ⟨?_, fun e he => List.mem_cons_of_mem _ (this.2 e he)⟩
        rcases this.1 with h | ⟨r, h, hr⟩
        · exact Or.inl h
        · refine Or.inr ⟨r, h, ?_⟩
          rcases hr with (hq | heq) | ⟨pid', hm, ha⟩
          · exact Or.inl hq
          · subst heq; exact Or.inr ⟨pid, by simp, hacc⟩
          · exact Or.inr ⟨pid', List.mem_cons_of_mem _ hm, ha⟩
      · rw [if_neg hacc]
        have := ih (Q := Q) p0 h0
        refine ⟨?_, fun e he => List.mem_cons_of_mem _ (this.2 e he)⟩
        rcases this.1 with h | ⟨r, h, hr⟩
        · exact Or.inl h
        · refine Or.inr ⟨r, h, ?_⟩
          rcases hr with hq | ⟨pid', hm, ha⟩
          · exact Or.inl hq
          · exact Or.inr ⟨pid', List.mem_cons_of_mem _ hm, ha⟩

theorem dictPop_nil (k : Nat) : dictPop k [] = (none, []) := rfl
theorem dictPop_single (k : Nat) (r : Reply) : dictPop k [(k, r)] = (some r, []) := by simp [dictPop]


/-- what the tail of `execute` does when it starts from an empty transaction table -/
theorem finish_spec (cfg : Cfg) (req : Request) (tid : Nat) (s : State) (n : Net) (resp : Bytes)
    (hp : s.pending = []) :
    ((finish cfg req tid s n resp).result = .errorObject ∧ (finish cfg req tid s n resp).net = n.closed ∧
        (finish cfg req tid s n resp).st.sockOpen = false ∨
      ∃ r, (finish cfg req tid s n resp).result = .reply r ∧ (finish cfg req tid s n resp).net = n ∧
        (finish cfg req tid s n resp).st.sockOpen = s.sockOpen ∧
        Filed cfg.framer req.pdu.fc tid (feed (stepOf cfg.framer) decClient [req.unit] false s.fbuf resp).1 r) ∧
    (finish cfg req tid s n resp).st.pending = [] ∧ (finish cfg req tid s n resp).st.cstate = .complete ∧
    (finish cfg req tid s n resp).st.tid = s.tid ∧ (finish cfg req tid s n resp).st.noResp = s.noResp := by
  unfold finish
  simp only [hp]
  generalize hkey : (if cfg.framer = FramerKind.rtu then req.unit else tid) = key
  generalize hfed : feed (stepOf cfg.framer) decClient [req.unit] false s.fbuf resp = fed
  have hshape := fileReplies_shape cfg.framer req.pdu.fc tid key (fun _ => False) fed.1 [] (Or.inl rfl)
  cases hfr : fileReplies cfg.framer req.pdu.fc tid key fed.1 [] with
  | mk p eo =>
    rw [hfr] at hshape
    simp only [] at hshape
    cases eo with
    | some e =>
      have hmem := hshape.2 e rfl
      have he : e = .modbusIO := by
        rw [← hfed] at hmem
        exact run_decClient_raised _ _ _ _ _ e hmem
      subst he
      have hpop : (dictPop key p).2 = [] := by
        rcases hshape.1 with h | ⟨r, h, _⟩
        · rw [h]; rfl
        · rw [h, dictPop_single]
      simp [failWith, closeSock, hpop]
    | none =>
      simp only []
      rcases hshape.1 with h | ⟨r, h, hr⟩
      · rw [h, dictPop_nil]
        simp [failWith, closeSock]
      · rw [h, dictPop_single]
        rcases hr with hr | hr
        · exact hr.elim
        · simp only [and_self, and_true]
          exact Or.inr ⟨r, by simp, trivial, trivial, hr⟩


/-- the transaction id `execute` gives the request -/
def nextTid (st : State) : Nat := (st.tid + 1) % 65536

/-- the state `ModbusTransactionManager.execute` starts the exchange from -/
def startState (st : State) : State := { st with sockOpen := true, tid := nextTid st, fbuf := [] }

def isBroadcast (cfg : Cfg) (req : Request) : Bool := cfg.broadcastEnable && req.unit = 0

theorem execute_build_error (cfg : Cfg) (st : State) (net : Net) (req : Request) (e : PyErr)
    (hb : buildPacket cfg.framer req.unit (nextTid st) req.pdu = .error e) :
    execute cfg st net req = ⟨.raised e, startState st, net⟩ := by
  unfold execute
  simp only [nextTid] at hb
  dsimp only
  rw [hb]; rfl

theorem execute_broadcast (cfg : Cfg) (st : State) (net : Net) (req : Request) (packet : Bytes)
    (hb : buildPacket cfg.framer req.unit (nextTid st) req.pdu = .ok packet) (hbc : isBroadcast cfg req = true) :
    execute cfg st net req =
      (if (transact cfg packet none false true (startState st) net).failed then
        failWith (transact cfg packet none false true (startState st) net).st
          (transact cfg packet none false true (startState st) net).net
       else ⟨.broadcastSent, (transact cfg packet none false true (startState st) net).st,
          (transact cfg packet none false true (startState st) net).net⟩) := by
  unfold execute
  simp only [nextTid, isBroadcast] at hb hbc
  dsimp only
  rw [hb]
  simp only [hbc, if_true]
  rfl

theorem execute_normal (cfg : Cfg) (st : State) (net : Net) (req : Request) (packet : Bytes)
    (hb : buildPacket cfg.framer req.unit (nextTid st) req.pdu = .ok packet) (hbc : isBroadcast cfg req = false) :
    execute cfg st net req =
      finish cfg req (nextTid st)
        (attempts cfg req.unit packet (expectedLen cfg req.pdu) cfg.retries
          (decide (req.unit ∈ st.noResp) || decide (cfg.transport = .udp)) (startState st) net).st
        (attempts cfg req.unit packet (expectedLen cfg req.pdu) cfg.retries
          (decide (req.unit ∈ st.noResp) || decide (cfg.transport = .udp)) (startState st) net).net
        (attempts cfg req.unit packet (expectedLen cfg req.pdu) cfg.retries
          (decide (req.unit ∈ st.noResp) || decide (cfg.transport = .udp)) (startState st) net).resp := by
  unfold execute
  simp only [nextTid, isBroadcast] at hb hbc
  dsimp only
  rw [hb]
  simp only [hbc]
  rfl


theorem finish_net (cfg : Cfg) (req : Request) (tid : Nat) (s : State) (n : Net) (resp : Bytes) :
    (finish cfg req tid s n resp).net = n ∨ (finish cfg req tid s n resp).net = n.closed := by
  unfold finish
  dsimp only
  repeat' split
  all_goals first | exact Or.inl rfl | exact Or.inr rfl

theorem LogStep.closed_right {packet : Bytes} {a b : Nat} {n n' : Net} {r : Bytes} (h : LogStep packet a b n n' r) :
    LogStep packet a b n n'.closed r := ⟨h.tx, h.reads, h.writes, h.rx⟩

theorem LogStep.nil_resp {packet : Bytes} {a b : Nat} {n n' : Net} {r : Bytes} (h : LogStep packet a b n n' r) :
    LogStep packet a b n n' [] := by
  obtain ⟨pre, hp⟩ := h.rx
  exact ⟨h.tx, h.reads, h.writes, ⟨pre ++ r, by rw [hp]; simp⟩⟩

theorem LogStep.refl (packet : Bytes) (n : Net) : LogStep packet 0 0 n n [] :=
  ⟨Nat.le_refl _, Nat.le_refl _, ⟨0, Nat.le_refl _, by simp⟩, ⟨[], by simp⟩⟩

/-- one call: at most `1 + retries` transmissions and twice as many reads, every frame written is the request's
    packet -/
theorem execute_log (cfg : Cfg) (st : State) (net : Net) (req : Request) (packet : Bytes)
    (hb : buildPacket cfg.framer req.unit (nextTid st) req.pdu = .ok packet) :
    LogStep packet (1 + cfg.retries) (2 * (1 + cfg.retries)) net (execute cfg st net req).net [] := by
  cases hbc : isBroadcast cfg req with
  | true =>
    rw [execute_broadcast cfg st net req packet hb hbc]
    have h := (transact_log cfg packet none false true (startState st) net).1
    split
    · exact (h.nil_resp.closed_right).mono (by omega) (by omega)
    · exact h.nil_resp.mono (by omega) (by omega)
  | false =>
    rw [execute_normal cfg st net req packet hb hbc]
    have h := (attempts_log cfg req.unit packet (expectedLen cfg req.pdu) cfg.retries
      (decide (req.unit ∈ st.noResp) || decide (cfg.transport = .udp)) (startState st) net).1
    have h' := h.nil_resp.mono (a' := 1 + cfg.retries) (b' := 2 * (1 + cfg.retries)) (by omega) (by omega)
    rcases finish_net cfg req (nextTid st) _ _ _ with hn | hn
    · rw [hn]; exact h'
    · rw [hn]; exact h'.closed_right

theorem execute_net_of_error (cfg : Cfg) (st : State) (net : Net) (req : Request) (e : PyErr)
    (hb : buildPacket cfg.framer req.unit (nextTid st) req.pdu = .error e) :
    (execute cfg st net req).net = net := by
  rw [execute_build_error cfg st net req e hb]


theorem transact_broadcast_state (cfg : Cfg) (packet : Bytes) (expected : Option Int) (full : Bool) (s : State) (n : Net)
    (h : (transact cfg packet expected full true s n).failed = false) :
    (transact cfg packet expected full true s n).st.cstate = .complete := by
  unfold transact at h ⊢
  cases hs : send cfg.transport n packet with
  | mk ok n1 =>
    cases ok with
    | false => simp [hs, closeSock] at h
    | true => simp

/-- the result of a call that starts from an empty transaction table -/
inductive Ended (cfg : Cfg) (req : Request) (tid : Nat) (net net' : Net) : Result → Prop where
  | error : Ended cfg req tid net net' .errorObject
  | broadcast : isBroadcast cfg req = true → Ended cfg req tid net net' .broadcastSent
  | reply (r : Reply) (resp pre : Bytes) :
      net'.rx = net.rx ++ pre ++ resp →
      Filed cfg.framer req.pdu.fc tid (feed (stepOf cfg.framer) decClient [req.unit] false [] resp).1 r →
      Ended cfg req tid net net' (.reply r)

theorem execute_outcome (cfg : Cfg) (st : State) (net : Net) (req : Request) (packet : Bytes)
    (hp : st.pending = []) (hb : buildPacket cfg.framer req.unit (nextTid st) req.pdu = .ok packet) :
    (execute cfg st net req).st.tid = nextTid st ∧ (execute cfg st net req).st.pending = [] ∧
    (execute cfg st net req).st.cstate = .complete ∧
    Ended cfg req (nextTid st) net (execute cfg st net req).net (execute cfg st net req).result := by
  cases hbc : isBroadcast cfg req with
  | true =>
    rw [execute_broadcast cfg st net req packet hb hbc]
    have h := (transact_log cfg packet none false true (startState st) net).2
    split
    · simp only [failWith, closeSock]
      exact ⟨h.1, h.2.1.trans hp, trivial, .error⟩
    · next hf =>
      simp only []
      exact ⟨h.1, h.2.1.trans hp, transact_broadcast_state _ _ _ _ _ _ (by simpa using hf), .broadcast hbc⟩
  | false =>
    rw [execute_normal cfg st net req packet hb hbc]
    generalize hA : attempts cfg req.unit packet (expectedLen cfg req.pdu) cfg.retries
      (decide (req.unit ∈ st.noResp) || decide (cfg.transport = .udp)) (startState st) net = A
    have hl := attempts_log cfg req.unit packet (expectedLen cfg req.pdu) cfg.retries
      (decide (req.unit ∈ st.noResp) || decide (cfg.transport = .udp)) (startState st) net
    rw [hA] at hl
    obtain ⟨hlog, htid, hpend, hfbuf⟩ := hl
    have hpe : A.st.pending = [] := hpend.trans hp
    have hfb : A.st.fbuf = [] := hfbuf
    have hf := finish_spec cfg req (nextTid st) A.st A.net A.resp hpe
    obtain ⟨hres, h2, h3, h4, _⟩ := hf
    refine ⟨h4.trans htid, h2, h3, ?_⟩
    rcases hres with ⟨hr, _, _⟩ | ⟨r, hr, hn, _, hfiled⟩
    · rw [hr]; exact .error
    · rw [hr, hn]
      obtain ⟨pre, hpre⟩ := hlog.rx
      rw [hfb] at hfiled
      exact .reply r A.resp pre hpre hfiled


/-! ### exact reads: a reply that the transaction manager's length logic reads whole -/

/-- the receive buffer of the transport in use -/
def Net.pendingEmpty (t : Transport) (n : Net) : Prop :=
  match t with
  | .udp => n.dgrams = []
  | _ => n.inbuf = []

/-- nothing of an earlier exchange will be seen by the reads of the next attempt -/
def ReadyToSend (t : Transport) (n : Net) : Prop :=
  ∃ n', preSend t (n.arrive t) = some n' ∧ n'.pendingEmpty t

/-- nothing pending, nothing on its way, receive side healthy -/
def QuietFor (t : Transport) (n : Net) : Prop := n.late = [] ∧ n.mode = .ok ∧ n.pendingEmpty t

theorem ready_of_quiet (t : Transport) (n : Net) (h : QuietFor t n) : ReadyToSend t n := by
  obtain ⟨hl, hm, hp⟩ := h
  cases t with
  | tcp =>
    simp only [Net.pendingEmpty] at hp
    refine ⟨_, by simp only [preSend, Net.arrive, hl, hm]; rfl, ?_⟩
    simp [Net.pendingEmpty, hp]
  | serial =>
    simp only [Net.pendingEmpty] at hp
    exact ⟨n.arrive .serial, by simp [preSend, Net.arrive, hl, hp], by simp [Net.pendingEmpty, Net.arrive, hl, hp]⟩
  | udp =>
    simp only [Net.pendingEmpty] at hp
    exact ⟨n.arrive .udp, by simp [preSend], by simp [Net.pendingEmpty, Net.arrive, hl, hp]⟩

theorem quiet_closed (t : Transport) (n : Net) : QuietFor t n.closed := by
  cases t <;> exact ⟨rfl, rfl, rfl⟩

/-- the peer answers the next transmission with exactly the chunk `X` -/
def answersWith (X : Bytes) (late : List Bytes) : Reaction := { sendOk := true, now := [X], late := late, recv := .ok }

/-- what the client will find on the transport in use: the chunks `cs` (datagrams / concatenated bytes) -/
def Net.pendingIs (t : Transport) (n : Net) (cs : List Bytes) : Prop :=
  match t with
  | .udp => n.dgrams = cs
  | _ => n.inbuf = cs.flatten

/-- the state of the peer right after a successful `send` -/
theorem send_ready (t : Transport) (n : Net) (packet : Bytes) (r : Reaction) (rest : List Reaction)
    (hready : ReadyToSend t n) (hs : n.script = r :: rest) (hok : r.sendOk = true) :
    (send t n packet).1 = true ∧ (send t n packet).2.script = rest ∧ (send t n packet).2.late = r.late ∧
    (send t n packet).2.mode = r.recv ∧ (send t n packet).2.pendingIs t r.now := by
  obtain ⟨n', hpre, hemp⟩ := hready
  have hscr : n'.script = r :: rest := by
    rw [(preSend_log t _ _ hpre).2.2.2.2]; cases t <;> exact hs
  have hsend : send t n packet = write t n' packet := by
    unfold send; rw [hpre]
  rw [hsend]
  unfold write
  simp only [hscr, List.headD_cons, List.tail_cons, hok, if_true]
  cases t <;> simp only [Net.pendingEmpty] at hemp <;> simp [Net.pendingIs, hemp]


/-- how many bytes a stream read of the given size takes when the receive side is healthy -/
def readLen (size : Option Int) (n : Net) : Nat :=
  match size with
  | none => n.inbuf.length
  | some k => k.toNat

theorem recvBytes_stream (t : Transport) (size : Option Int) (n : Net) (ht : t ≠ .udp) (hm : n.mode = .ok) :
    (recvBytes t size n).1 = some (n.inbuf.take (readLen size n)) ∧
    (recvBytes t size n).2.inbuf = n.inbuf.drop (readLen size n) ∧
    (recvBytes t size n).2.late = n.late ∧ (recvBytes t size n).2.mode = n.mode ∧
    (recvBytes t size n).2.script = n.script ∧ (recvBytes t size n).2.dgrams = n.dgrams := by
  cases t with
  | udp => exact absurd rfl ht
  | tcp =>
    cases size with
    | none => simp [recvBytes, takeBytes, readLen, hm]
    | some k =>
      by_cases hk : k ≤ 0
      · have : k.toNat = 0 := by omega
        simp [recvBytes, readLen, hk, this]
      · simp [recvBytes, takeBytes, readLen, hk, hm]
  | serial =>
    cases size with
    | none =>
      by_cases he : n.inbuf = []
      · simp [recvBytes, readLen, he]
      · simp [recvBytes, takeBytes, readLen, he, hm]
    | some k =>
      by_cases hk : k ≤ 0
      · have : k.toNat = 0 := by omega
        simp [recvBytes, readLen, hk, this]
      · simp [recvBytes, takeBytes, readLen, hk, hm]

/-- `X` is read whole by `_recv`: it has the bytes for the peek, the length `_recv` derives from the peeked function
    code (and, on the MBAP framing, the length field) is the length of `X`, and the size `execute` predicted — used
    for the read of a unit known as silent and for datagrams — does not cut it short -/
structure Fits (f : FramerKind) (expected : Option Int) (X : Bytes) : Prop where
  long : minSize f ≤ X.length
  peek : ∃ fc, peekFc f (X.take (minSize f)) = some fc ∧
    ∀ k, restSize f expected (X.take (minSize f)) fc = some k → k = Int.ofNat X.length - Int.ofNat (minSize f)
  whole : ∀ e, expected = some e → Int.ofNat X.length ≤ e

theorem minSize_pos (f : FramerKind) : 0 < minSize f := by cases f <;> decide

theorem recvReply_exact (cfg : Cfg) (expected : Option Int) (full : Bool) (n : Net) (X : Bytes)
    (hfit : Fits cfg.framer expected X) (hm : n.mode = .ok) (hin : n.pendingIs cfg.transport [X])
    (hudp : cfg.transport = .udp → full = true ∧ ∃ e, expected = some e) :
    (recvReply cfg expected full n).1 = some X ∧ (recvReply cfg expected full n).2.pendingEmpty cfg.transport ∧
    (recvReply cfg expected full n).2.late = n.late ∧ (recvReply cfg expected full n).2.mode = .ok ∧
    (recvReply cfg expected full n).2.script = n.script := by
  have hpos := minSize_pos cfg.framer
  have hlong := hfit.long
  by_cases ht : cfg.transport = .udp
  · obtain ⟨hfull, e, he⟩ := hudp ht
    have hle := hfit.whole e he
    simp only [Int.ofNat_eq_natCast] at hle
    simp only [Net.pendingIs, ht] at hin
    unfold recvReply
    simp only [hfull, if_true, ht, he, recvBytes, hm, hin, Net.pendingEmpty]
    have : X.take e.toNat = X := List.take_of_length_le (by omega)
    simp [this]
  · have hinb : n.inbuf = X := by
      cases htt : cfg.transport <;> simp only [Net.pendingIs, htt] at hin <;> first | (simpa using hin) | exact absurd htt ht
    have hpe : ∀ n' : Net, n'.pendingEmpty cfg.transport ↔ n'.inbuf = [] := by
      intro n'; cases htt : cfg.transport <;> simp only [Net.pendingEmpty] <;> exact absurd htt ht
    unfold recvReply
    cases full with
    | true =>
      simp only [if_true]
      obtain ⟨h1, h2, h3, h4, h5, _⟩ := recvBytes_stream cfg.transport expected n ht hm
      have hlen : X.length ≤ readLen expected n := by
        cases hexp : expected with
        | none => simp [readLen, hinb]
        | some e => have := hfit.whole e hexp; simp only [Int.ofNat_eq_natCast] at this; simp only [readLen]; omega
      rw [hinb] at h1 h2
      rw [List.take_of_length_le hlen] at h1
      rw [List.drop_of_length_le hlen] at h2
      exact ⟨h1, (hpe _).2 h2, h3, h4.trans hm, h5⟩
    | false =>
      simp only [Bool.false_eq_true, if_false, Int.ofNat_eq_natCast]
      obtain ⟨a1, a2, a3, a4, a5, _⟩ := recvBytes_stream cfg.transport (some ((minSize cfg.framer : Nat) : Int)) n ht hm
      simp only [readLen, Int.toNat_natCast, hinb] at a1 a2
      cases hr1 : recvBytes cfg.transport (some ((minSize cfg.framer : Nat) : Int)) n with
      | mk res1 n1 =>
        rw [hr1] at a1 a2 a3 a4 a5
        simp only [] at a1 a2 a3 a4 a5
        subst a1
        simp only [List.length_take, Nat.min_eq_left hlong, ne_eq, not_true_eq_false, if_false]
        obtain ⟨fc, hfc, hrest⟩ := hfit.peek
        rw [hfc]
        simp only []
        have hm1 : n1.mode = .ok := a4.trans hm
        obtain ⟨b1, b2, b3, b4, b5, _⟩ := recvBytes_stream cfg.transport
          (restSize cfg.framer expected (X.take (minSize cfg.framer)) fc) n1 ht hm1
        have hlen : (X.drop (minSize cfg.framer)).length ≤
            readLen (restSize cfg.framer expected (X.take (minSize cfg.framer)) fc) n1 := by
          cases hrs : restSize cfg.framer expected (X.take (minSize cfg.framer)) fc with
          | none => simp [readLen, a2]
          | some k => have := hrest k hrs; simp only [Int.ofNat_eq_natCast] at this; simp only [readLen, List.length_drop]; omega
        rw [a2] at b1 b2
        rw [List.take_of_length_le hlen] at b1
        rw [List.drop_of_length_le hlen] at b2
        cases hr2 : recvBytes cfg.transport (restSize cfg.framer expected (X.take (minSize cfg.framer)) fc) n1 with
        | mk res2 n2 =>
          rw [hr2] at b1 b2 b3 b4 b5
          simp only [] at b1 b2 b3 b4 b5
          subst b1
          simp only [List.take_append_drop]
          exact ⟨trivial, (hpe _).2 b2, b3.trans a3, b4.trans hm1, b5.trans a5⟩


theorem recvReply_silent (cfg : Cfg) (expected : Option Int) (full : Bool) (n : Net)
    (hm : n.mode = .ok) (hin : n.pendingEmpty cfg.transport) :
    ((recvReply cfg expected full n).1 = none ∨ (recvReply cfg expected full n).1 = some []) ∧
    (recvReply cfg expected full n).2.pendingEmpty cfg.transport ∧
    (recvReply cfg expected full n).2.late = n.late ∧ (recvReply cfg expected full n).2.mode = .ok ∧
    (recvReply cfg expected full n).2.script = n.script := by
  have hpos := minSize_pos cfg.framer
  by_cases ht : cfg.transport = .udp
  · simp only [Net.pendingEmpty, ht] at hin
    unfold recvReply
    cases full with
    | true => cases expected <;> simp [ht, recvBytes, hm, hin, Net.pendingEmpty]
    | false => simp [ht, recvBytes, hm, hin, Net.pendingEmpty]
  · have hinb : n.inbuf = [] := by
      cases htt : cfg.transport <;> simp only [Net.pendingEmpty, htt] at hin <;> first | exact hin | exact absurd htt ht
    have hpe : ∀ n' : Net, n'.pendingEmpty cfg.transport ↔ n'.inbuf = [] := by
      intro n'; cases htt : cfg.transport <;> simp only [Net.pendingEmpty] <;> exact absurd htt ht
    unfold recvReply
    cases full with
    | true =>
      simp only [if_true]
      obtain ⟨h1, h2, h3, h4, h5, _⟩ := recvBytes_stream cfg.transport expected n ht hm
      rw [hinb] at h1 h2
      simp only [List.take_nil, List.drop_nil] at h1 h2
      exact ⟨Or.inr h1, (hpe _).2 h2, h3, h4.trans hm, h5⟩
    | false =>
      simp only [Bool.false_eq_true, if_false, Int.ofNat_eq_natCast]
      obtain ⟨a1, a2, a3, a4, a5, _⟩ := recvBytes_stream cfg.transport (some ((minSize cfg.framer : Nat) : Int)) n ht hm
      rw [hinb] at a1 a2
      simp only [List.take_nil, List.drop_nil] at a1 a2
      cases hr1 : recvBytes cfg.transport (some ((minSize cfg.framer : Nat) : Int)) n with
      | mk res1 n1 =>
        rw [hr1] at a1 a2 a3 a4 a5
        simp only [] at a1 a2 a3 a4 a5
        subst a1
        have : ([] : Bytes).length ≠ minSize cfg.framer := by simp; omega
        simp only []
        rw [if_pos this]
        exact ⟨Or.inl rfl, (hpe _).2 a2, a3, a4.trans hm, a5⟩

/-- an attempt whose transmission is answered by exactly one chunk that `_recv` reads whole -/
theorem transact_exact (cfg : Cfg) (packet : Bytes) (expected : Option Int) (full : Bool) (s : State) (n : Net)
    (X : Bytes) (late : List Bytes) (rest : List Reaction)
    (hready : ReadyToSend cfg.transport n) (hs : n.script = answersWith X late :: rest)
    (hfit : Fits cfg.framer expected X)
    (hudp : cfg.transport = .udp → full = true ∧ ∃ e, expected = some e) :
    (transact cfg packet expected full false s n).resp = X ∧
    (transact cfg packet expected full false s n).failed = false ∧
    (transact cfg packet expected full false s n).st = { s with sockOpen := true, cstate := .processing } ∧
    (transact cfg packet expected full false s n).net.script = rest ∧
    (transact cfg packet expected full false s n).net.late = late ∧
    (transact cfg packet expected full false s n).net.mode = .ok ∧
    (transact cfg packet expected full false s n).net.pendingEmpty cfg.transport := by
  obtain ⟨h1, h2, h3, h4, h5⟩ := send_ready cfg.transport n packet (answersWith X late) rest hready hs rfl
  unfold transact
  cases hsend : send cfg.transport n packet with
  | mk ok n1 =>
    rw [hsend] at h1 h2 h3 h4 h5
    simp only [] at h1 h2 h3 h4 h5
    subst h1
    simp only [Bool.false_eq_true, if_false]
    obtain ⟨r1, r2, r3, r4, r5⟩ := recvReply_exact cfg expected full n1 X hfit h4 h5 hudp
    cases hrecv : recvReply cfg expected full n1 with
    | mk res n2 =>
      rw [hrecv] at r1 r2 r3 r4 r5
      simp only [] at r1 r2 r3 r4 r5
      subst r1
      exact ⟨rfl, rfl, rfl, r5.trans h2, r3.trans h3, r4, r2⟩

/-- an attempt that the peer does not answer at all -/
theorem transact_silent (cfg : Cfg) (packet : Bytes) (expected : Option Int) (full : Bool) (s : State) (n : Net)
    (rest : List Reaction) (hready : ReadyToSend cfg.transport n) (hs : n.script = silent :: rest) :
    (transact cfg packet expected full false s n).resp = [] ∧
    SameCore s (transact cfg packet expected full false s n).st ∧
    (transact cfg packet expected full false s n).net.script = rest ∧
    QuietFor cfg.transport (transact cfg packet expected full false s n).net := by
  obtain ⟨h1, h2, h3, h4, h5⟩ := send_ready cfg.transport n packet silent rest hready hs rfl
  have hcore := (transact_log cfg packet expected full false s n).2
  refine ⟨?_, hcore, ?_⟩
  all_goals unfold transact
  all_goals cases hsend : send cfg.transport n packet with
    | mk ok n1 =>
      rw [hsend] at h1 h2 h3 h4 h5
      simp only [] at h1 h2 h3 h4 h5
      subst h1
      simp only [Bool.false_eq_true, if_false]
      have hpe : n1.pendingEmpty cfg.transport := by
        cases htt : cfg.transport <;> simp only [Net.pendingIs, Net.pendingEmpty, htt, silent] at h5 ⊢ <;> simpa using h5
      obtain ⟨r1, r2, r3, r4, r5⟩ := recvReply_silent cfg expected full n1 h4 hpe
      cases hrecv : recvReply cfg expected full n1 with
      | mk res n2 =>
        rw [hrecv] at r1 r2 r3 r4 r5
        simp only [] at r1 r2 r3 r4 r5
        rcases r1 with r1 | r1 <;> subst r1
        · first
          | rfl
          | exact ⟨by simp only [closeSock]; exact r5.trans h2, quiet_closed _ _⟩
        · first
          | rfl
          | exact ⟨r5.trans h2, r3.trans h3, r4, r2⟩


/-- a reaction after which the retry loop goes round again: the peer stays silent and retry_on_empty is set, or it
    sends one frame that is read whole but judged invalid (`shouldRetry`) — e.g. a frame of a foreign unit with
    retry_on_invalid -/
inductive Retried (cfg : Cfg) (unit : Nat) (expected : Option Int) : Reaction → Prop where
  | empty : cfg.retryOnEmpty = true → Retried cfg unit expected silent
  | invalid (G : Bytes) : Fits cfg.framer expected G → shouldRetry cfg unit expected G = true →
      Retried cfg unit expected (answersWith G [])

theorem shouldRetry_nil (cfg : Cfg) (unit : Nat) (expected : Option Int) :
    shouldRetry cfg unit expected [] = cfg.retryOnEmpty := by simp [shouldRetry]

/-- the documented retry options are honoured: `pre.length ≤ k` retried attempts, then an attempt answered by a
    frame `X` that is read whole and is not retried — the loop ends with `X` -/
theorem attempts_honoured (cfg : Cfg) (unit : Nat) (packet : Bytes) (expected : Option Int) (X : Bytes)
    (late : List Bytes) (rest : List Reaction)
    (hfit : Fits cfg.framer expected X) (hno : shouldRetry cfg unit expected X = false)
    (hudpe : cfg.transport = .udp → ∃ e, expected = some e)
    (pre : List Reaction) (hpre : ∀ r ∈ pre, Retried cfg unit expected r)
    (k : Nat) (hk : pre.length ≤ k) (full : Bool) (hfull : cfg.transport = .udp → full = true)
    (s : State) (n : Net) (hready : ReadyToSend cfg.transport n)
    (hs : n.script = pre ++ answersWith X late :: rest) :
    (attempts cfg unit packet expected k full s n).resp = X ∧
    (attempts cfg unit packet expected k full s n).net.script = rest ∧
    (attempts cfg unit packet expected k full s n).net.late = late ∧
    (attempts cfg unit packet expected k full s n).net.mode = .ok ∧
    (attempts cfg unit packet expected k full s n).net.pendingEmpty cfg.transport ∧
    (attempts cfg unit packet expected k full s n).st.sockOpen = true := by
  induction pre generalizing k full s n with
  | nil =>
    simp only [List.nil_append] at hs
    obtain ⟨t1, _, t3, t4, t5, t6, t7⟩ := transact_exact cfg packet expected full s n X late rest hready hs hfit
      (fun h => ⟨hfull h, hudpe h⟩)
    unfold attempts
    simp only [t1, hno, Bool.false_eq_true, if_false]
    exact ⟨trivial, t4, t5, t6, t7, by rw [t3]⟩
  | cons r pre ih =>
    cases k with
    | zero => simp at hk
    | succ k =>
      simp only [List.cons_append] at hs
      have hr := hpre r (by simp)
      have hpre' : ∀ r' ∈ pre, Retried cfg unit expected r' := fun r' h => hpre r' (by simp [h])
      have hk' : pre.length ≤ k := by simp at hk; omega
      unfold attempts
      cases hr with
      | empty hroe =>
        obtain ⟨t1, _, t3, t4⟩ := transact_silent cfg packet expected full s n _ hready hs
        simp only [t1, shouldRetry_nil, hroe, if_true]
        exact ih hpre' k hk' _ (fun h => by simp [h]) _ _ (ready_of_quiet _ _ t4) t3
      | invalid G hG hretry =>
        obtain ⟨t1, _, _, t4, t5, t6, t7⟩ := transact_exact cfg packet expected full s n G [] _ hready hs hG
          (fun h => ⟨hfull h, hudpe h⟩)
        simp only [t1, hretry, if_true]
        exact ih hpre' k hk' _ (fun h => by simp [h]) _ _ (ready_of_quiet _ _ ⟨t5, t6, t7⟩) t4


/-! ### the conformant reply -/

/-- `X` is the reply a conformant server sends to `req` (transaction id `tid`), seen from the client: `_recv` reads
    it whole, the retry loop does not reject it, a fresh receiver decodes it to `r`, and `r` answers the request -/
structure Conformant (cfg : Cfg) (req : Request) (tid : Nat) (X : Bytes) (r : Reply) : Prop where
  fits : Fits cfg.framer (expectedLen cfg req.pdu) X
  kept : shouldRetry cfg req.unit (expectedLen cfg req.pdu) X = false
  delivers : ∃ pid, feed (stepOf cfg.framer) decClient [req.unit] false [] X = ([.deliver r.msg r.uid r.tid pid], [])
  accepted : accepts cfg.framer req.pdu.fc tid r.msg r.tid = true

theorem finish_conformant (cfg : Cfg) (req : Request) (tid : Nat) (s : State) (n : Net) (X : Bytes) (r : Reply)
    (hp : s.pending = []) (hf : s.fbuf = []) (hc : Conformant cfg req tid X r) :
    (finish cfg req tid s n X).result = .reply r ∧ (finish cfg req tid s n X).net = n ∧
    (finish cfg req tid s n X).st.sockOpen = s.sockOpen := by
  obtain ⟨pid, hd⟩ := hc.delivers
  unfold finish
  simp only [hp, hf, hd, fileReplies, hc.accepted, if_true, dictSet, dictPop_single]
  exact ⟨trivial, trivial, trivial⟩

theorem expectedLen_udp (cfg : Cfg) (r : Req) (h : cfg.transport = .udp) : ∃ e, expectedLen cfg r = some e := by
  unfold expectedLen
  simp only [h, if_true]
  split
  · split <;> exact ⟨_, rfl⟩
  · exact ⟨_, rfl⟩

/-- **the core of C13's retry / recovery clauses and of C08's conformant-reply clause**: nothing of an earlier
    exchange can reach the reads (`ReadyToSend`), the peer lets `pre.length ≤ retries` attempts go the way the retry
    options cover and then sends the conformant reply: the call returns that reply, decoded -/
theorem execute_honoured (cfg : Cfg) (st : State) (net : Net) (req : Request) (packet X : Bytes) (r : Reply)
    (late : List Bytes) (pre rest : List Reaction)
    (hp : st.pending = []) (hb : buildPacket cfg.framer req.unit (nextTid st) req.pdu = .ok packet)
    (hbc : isBroadcast cfg req = false) (hready : ReadyToSend cfg.transport net)
    (hs : net.script = pre ++ answersWith X late :: rest)
    (hpre : ∀ x ∈ pre, Retried cfg req.unit (expectedLen cfg req.pdu) x) (hk : pre.length ≤ cfg.retries)
    (hc : Conformant cfg req (nextTid st) X r) :
    (execute cfg st net req).result = .reply r ∧ (execute cfg st net req).net.script = rest ∧
    (execute cfg st net req).net.late = late ∧ (execute cfg st net req).net.mode = .ok ∧
    (execute cfg st net req).net.pendingEmpty cfg.transport ∧ (execute cfg st net req).st.sockOpen = true := by
  rw [execute_normal cfg st net req packet hb hbc]
  obtain ⟨a1, a2, a3, a4, a5, a6⟩ := attempts_honoured cfg req.unit packet (expectedLen cfg req.pdu) X late rest hc.fits hc.kept
    (expectedLen_udp cfg req.pdu) pre hpre cfg.retries hk
    (decide (req.unit ∈ st.noResp) || decide (cfg.transport = .udp)) (fun h => by simp [h]) (startState st) net hready hs
  have hids := (attempts_log cfg req.unit packet (expectedLen cfg req.pdu) cfg.retries
    (decide (req.unit ∈ st.noResp) || decide (cfg.transport = .udp)) (startState st) net).2
  rw [a1]
  obtain ⟨f1, f2, f3⟩ := finish_conformant cfg req (nextTid st) _ _ X r (hids.2.1.trans hp) hids.2.2 hc
  rw [f2]
  exact ⟨f1, a2, a3, a4, a5, f3.trans a6⟩


/-! ### when is the transport ready for a new exchange -/

theorem preSend_script (t : Transport) (n n' : Net) (sc : List Reaction) (h : preSend t n = some n') :
    preSend t { n with script := sc } = some { n' with script := sc } := by
  cases t
  · simp only [preSend] at h ⊢
    by_cases hm : n.mode = .oserror
    · rw [if_pos hm] at h ⊢; simp at h; subst h; rfl
    · rw [if_neg hm] at h ⊢; simp at h; subst h; rfl
  · simp only [preSend] at h ⊢
    by_cases he : n.inbuf = []
    · rw [if_pos he] at h ⊢; simp at h; subst h; rfl
    · rw [if_neg he] at h ⊢
      by_cases hm : n.mode = .oserror
      · rw [if_pos hm] at h; cases h
      · rw [if_neg hm] at h ⊢; simp at h; subst h; rfl
  · simp only [preSend] at h ⊢
    simp at h; subst h; rfl

theorem ready_script (t : Transport) (n : Net) (sc : List Reaction) (h : ReadyToSend t n) :
    ReadyToSend t { n with script := sc } := by
  obtain ⟨n', h1, h2⟩ := h
  have ha : ({ n with script := sc } : Net).arrive t = { n.arrive t with script := sc } := by cases t <;> rfl
  exact ⟨{ n' with script := sc }, by rw [ha]; exact preSend_script t _ _ sc h1, by cases t <;> exact h2⟩

/-- the serial client empties its input buffer before it writes: whatever arrived before the write is gone -/
theorem ready_serial (n : Net) (h : n.mode ≠ .oserror) : ReadyToSend .serial n := by
  have hm : (n.arrive .serial).mode ≠ .oserror := h
  unfold ReadyToSend
  by_cases he : (n.arrive .serial).inbuf = []
  · exact ⟨n.arrive .serial, by simp only [preSend]; rw [if_pos he], he⟩
  · exact ⟨{ n.arrive .serial with flushed := (n.arrive .serial).flushed ++ (n.arrive .serial).inbuf, inbuf := [] },
      by simp only [preSend]; rw [if_neg he, if_neg hm], rfl⟩

/-- the TCP client drains up to 65536 pending bytes before it sends -/
theorem ready_tcp (n : Net) (h : n.mode ≠ .oserror) (hl : (n.inbuf ++ n.late.flatten).length ≤ 65536) :
    ReadyToSend .tcp n := by
  unfold ReadyToSend preSend
  have hm : (n.arrive .tcp).mode = n.mode := rfl
  simp only [hm, h, if_false]
  refine ⟨_, rfl, ?_⟩
  simp only [Net.pendingEmpty, Net.arrive]
  exact List.drop_of_length_le hl

/-- the UDP client has no way to discard a pending datagram -/
theorem ready_udp (n : Net) (h : n.dgrams = []) (hl : n.late = []) : ReadyToSend .udp n :=
  ⟨n.arrive .udp, rfl, by simp [Net.pendingEmpty, Net.arrive, h, hl]⟩

/-- a connection that was closed (every call that returns an error object closes it) is ready -/
theorem ready_closed (t : Transport) (n : Net) : ReadyToSend t n.closed := ready_of_quiet t _ (quiet_closed t n)

/-! ### history independence -/

theorem transact_core (cfg : Cfg) (packet : Bytes) (expected : Option Int) (full broadcast : Bool) (s s' : State)
    (n : Net) (h : s'.tid = s.tid ∧ s'.pending = s.pending ∧ s'.noResp = s.noResp ∧ s'.fbuf = s.fbuf) :
    transact cfg packet expected full broadcast s' n = transact cfg packet expected full broadcast s n := by
  obtain ⟨h1, h2, h3, h4⟩ := h
  cases s; cases s'
  simp only at h1 h2 h3 h4
  subst h1 h2 h3 h4
  rfl

theorem attempts_core (cfg : Cfg) (unit : Nat) (packet : Bytes) (expected : Option Int) (k : Nat) (full : Bool)
    (s s' : State) (n : Net) (h : s'.tid = s.tid ∧ s'.pending = s.pending ∧ s'.noResp = s.noResp ∧ s'.fbuf = s.fbuf) :
    attempts cfg unit packet expected k full s' n = attempts cfg unit packet expected k full s n := by
  unfold attempts
  rw [transact_core cfg packet expected full false s s' n h]

/-- the outcome of a call depends on the client's past only through the transaction id counter, the list of units
    known as silent and the transaction table (which is empty between calls): not on the framer buffer, the
    socket being open or closed, or the state variable -/
theorem execute_core (cfg : Cfg) (st st' : State) (net : Net) (req : Request)
    (h1 : st'.tid = st.tid) (h2 : st'.noResp = st.noResp) (h3 : st'.pending = st.pending)
    (h4 : st'.cstate = st.cstate) :
    execute cfg st' net req = execute cfg st net req := by
  cases st; cases st'
  simp only at h1 h2 h3 h4
  subst h1 h2 h3 h4
  rfl

theorem execute_cstate (cfg : Cfg) (st : State) (net : Net) (req : Request) (c : CState) (packet : Bytes)
    (hb : buildPacket cfg.framer req.unit (nextTid st) req.pdu = .ok packet) :
    execute cfg { st with cstate := c } net req = execute cfg st net req := by
  have hb' : buildPacket cfg.framer req.unit (nextTid { st with cstate := c }) req.pdu = .ok packet := hb
  have hn : nextTid { st with cstate := c } = nextTid st := rfl
  have hmem : (decide (req.unit ∈ ({ st with cstate := c } : State).noResp)) = decide (req.unit ∈ st.noResp) := rfl
  cases hbc : isBroadcast cfg req with
  | true =>
    rw [execute_broadcast cfg _ net req packet hb' hbc, execute_broadcast cfg st net req packet hb hbc]
    rw [transact_core cfg packet none false true (startState st) (startState { st with cstate := c }) net
      ⟨rfl, rfl, rfl, rfl⟩]
  | false =>
    rw [execute_normal cfg _ net req packet hb' hbc, execute_normal cfg st net req packet hb hbc]
    rw [hn, hmem, attempts_core cfg req.unit packet (expectedLen cfg req.pdu) cfg.retries _ (startState st)
      (startState { st with cstate := c }) net ⟨rfl, rfl, rfl, rfl⟩]

/-! ### a call that returns a reply has seen a working receive side -/

theorem recvBytes_mode (t : Transport) (size : Option Int) (n : Net) : (recvBytes t size n).2.mode = n.mode := by
  unfold recvBytes takeBytes
  cases t <;> cases size <;> simp only [] <;> (repeat' split) <;> rfl

theorem recvBytes_nonempty (t : Transport) (size : Option Int) (n : Net) (bs : Bytes)
    (h : (recvBytes t size n).1 = some bs) (hne : bs ≠ []) : n.mode ≠ .oserror := by
  intro hm
  unfold recvBytes at h
  cases t <;> cases size <;> simp only [hm] at h
  all_goals (repeat' split at h) <;> simp_all

theorem recvReply_mode (cfg : Cfg) (expected : Option Int) (full : Bool) (n : Net) :
    (recvReply cfg expected full n).2.mode = n.mode := by
  unfold recvReply
  split
  · exact recvBytes_mode _ _ _
  · have h1 := recvBytes_mode cfg.transport (some (Int.ofNat (minSize cfg.framer))) n
    split
    · next n1 heq => rw [heq] at h1; exact h1
    · next readMin n1 heq =>
      rw [heq] at h1
      split
      · exact h1
      · split
        · exact h1
        · next fc _ =>
          have h2 := recvBytes_mode cfg.transport (restSize cfg.framer expected readMin fc) n1
          split
          · next n2 heq2 => rw [heq2] at h2; exact h2.trans h1
          · next rest n2 heq2 => rw [heq2] at h2; exact h2.trans h1

theorem recvReply_nonempty (cfg : Cfg) (expected : Option Int) (full : Bool) (n : Net) (bs : Bytes)
    (h : (recvReply cfg expected full n).1 = some bs) (hne : bs ≠ []) : n.mode ≠ .oserror := by
  unfold recvReply at h
  split at h
  · exact recvBytes_nonempty _ _ _ bs h hne
  · split at h
    · cases h
    · next readMin n1 heq =>
      split at h
      · cases h
      · next hlen =>
        have hr : (recvBytes cfg.transport (some (Int.ofNat (minSize cfg.framer))) n).1 = some readMin := by rw [heq]
        refine recvBytes_nonempty _ _ _ readMin hr ?_
        intro he
        have := minSize_pos cfg.framer
        simp only [ne_eq, Decidable.not_not] at hlen
        rw [he] at hlen; simp at hlen; omega

theorem transact_nonempty (cfg : Cfg) (packet : Bytes) (expected : Option Int) (full broadcast : Bool) (s : State) (n : Net)
    (hne : (transact cfg packet expected full broadcast s n).resp ≠ []) :
    (transact cfg packet expected full broadcast s n).net.mode ≠ .oserror := by
  unfold transact at hne ⊢
  cases hs : send cfg.transport n packet with
  | mk ok n1 =>
    simp only [hs] at hne ⊢
    cases ok with
    | false => simp at hne
    | true =>
      simp only [] at hne ⊢
      cases broadcast with
      | true => simp at hne
      | false =>
        simp only [Bool.false_eq_true, if_false] at hne ⊢
        have hm := recvReply_mode cfg expected full n1
        cases hr : recvReply cfg expected full n1 with
        | mk res n2 =>
          rw [hr] at hm
          simp only [hr] at hne ⊢
          cases res with
          | none => simp at hne
          | some bs =>
            simp only [] at hne hm ⊢
            rw [hm]
            exact recvReply_nonempty cfg expected full n1 bs (by rw [hr]) hne

theorem attempts_nonempty (cfg : Cfg) (unit : Nat) (packet : Bytes) (expected : Option Int) (k : Nat) (full : Bool)
    (s : State) (n : Net) (hne : (attempts cfg unit packet expected k full s n).resp ≠ []) :
    (attempts cfg unit packet expected k full s n).net.mode ≠ .oserror := by
  induction k generalizing full s n with
  | zero =>
    unfold attempts at hne ⊢
    simp only [] at hne ⊢
    split at hne <;> (first | (rename_i h; rw [if_pos h]) | (rename_i h; rw [if_neg h])) <;>
      exact transact_nonempty cfg packet expected full false s n hne
  | succ k ih =>
    unfold attempts at hne ⊢
    simp only [] at hne ⊢
    split at hne
    · rename_i h; rw [if_pos h]; exact ih _ _ _ hne
    · rename_i h; rw [if_neg h]; exact transact_nonempty cfg packet expected full false s n hne

theorem stepOf_nil (f : FramerKind) : stepOf f [] = .wait := by cases f <;> rfl

theorem finish_reply_nonempty (cfg : Cfg) (req : Request) (tid : Nat) (s : State) (n : Net) (resp : Bytes) (r : Reply)
    (hp : s.pending = []) (hf : s.fbuf = []) (h : (finish cfg req tid s n resp).result = .reply r) : resp ≠ [] := by
  intro he
  subst he
  unfold finish at h
  simp only [hp, hf, feed, List.append_nil, List.length_nil, run, stepOf_nil, fileReplies, dictPop_nil,
    List.length_nil, ne_eq, not_true_eq_false, if_false, failWith] at h
  cases h

/-- a call that returned a reply leaves the receive side in working order, the connection open -/
theorem reply_leaves_mode_ok (cfg : Cfg) (st : State) (net : Net) (req : Request) (r : Reply)
    (hp : st.pending = []) (h : (execute cfg st net req).result = .reply r) :
    (execute cfg st net req).net.mode ≠ .oserror := by
  cases hb : buildPacket cfg.framer req.unit (nextTid st) req.pdu with
  | error e => rw [execute_build_error cfg st net req e hb] at h; cases h
  | ok packet =>
    cases hbc : isBroadcast cfg req with
    | true =>
      rw [execute_broadcast cfg st net req packet hb hbc] at h
      split at h
      · simp [failWith] at h
      · cases h
    | false =>
      rw [execute_normal cfg st net req packet hb hbc] at h ⊢
      have hids := (attempts_log cfg req.unit packet (expectedLen cfg req.pdu) cfg.retries
        (decide (req.unit ∈ st.noResp) || decide (cfg.transport = .udp)) (startState st) net).2
      have hne := finish_reply_nonempty cfg req (nextTid st) _ _ _ r (hids.2.1.trans hp) hids.2.2 h
      have hm := attempts_nonempty cfg req.unit packet (expectedLen cfg req.pdu) cfg.retries _ (startState st) net hne
      rcases finish_net cfg req (nextTid st)
        (attempts cfg req.unit packet (expectedLen cfg req.pdu) cfg.retries
          (decide (req.unit ∈ st.noResp) || decide (cfg.transport = .udp)) (startState st) net).st
        (attempts cfg req.unit packet (expectedLen cfg req.pdu) cfg.retries
          (decide (req.unit ∈ st.noResp) || decide (cfg.transport = .udp)) (startState st) net).net
        (attempts cfg req.unit packet (expectedLen cfg req.pdu) cfg.retries
          (decide (req.unit ∈ st.noResp) || decide (cfg.transport = .udp)) (startState st) net).resp with hn | hn
      · rw [hn]; exact hm
      · rw [hn]; simp [Net.closed]

end Pymodbus.Txn
