/- Helper lemmas about the payload builder/decoder model. Core Lean only. -/
import Pymodbus.Model.Payload
import Pymodbus.Spec.PayloadSpec
namespace Pymodbus.Payload
open Pymodbus Pymodbus.PayloadSpec

/-! ### big-endian images -/

theorem beBytes_length (k n : Nat) : (beBytes k n).length = k := by
  induction k generalizing n with
  | zero => rfl
  | succ k ih => simp [beBytes, ih]

theorem beBytes_wf (k n : Nat) : Bytes.WF (beBytes k n) := by
  induction k generalizing n with
  | zero => intro b hb; simp [beBytes] at hb
  | succ k ih =>
    intro b hb
    simp only [beBytes, List.mem_append, List.mem_singleton] at hb
    rcases hb with hb | hb
    · exact ih _ b hb
    · omega

theorem beVal_snoc (xs : Bytes) (b : Nat) : beVal (xs ++ [b]) = beVal xs * 256 + b := by
  simp [beVal, List.foldl_append]

theorem beVal_beBytes (k n : Nat) (h : n < 256 ^ k) : beVal (beBytes k n) = n := by
  induction k generalizing n with
  | zero => simp at h; subst h; rfl
  | succ k ih =>
    have h' : n / 256 < 256 ^ k := by
      rw [Nat.div_lt_iff_lt_mul (by decide)]; rw [Nat.pow_succ] at h; exact h
    rw [beBytes, beVal_snoc, ih _ h']; omega

theorem beBytes_two (w : Nat) : beBytes 2 w = [w / 256 % 256, w % 256] := by
  simp [beBytes]

theorem beBytes_add_two (k n : Nat) :
    beBytes (k + 2) n = beBytes k (n / 65536) ++ [n / 256 % 256, n % 256] := by
  have : n / 256 / 256 = n / 65536 := by omega
  simp [beBytes, this]

/-! ### 16-bit words of a byte string -/

theorem chunkWords_snoc2 : ∀ (xs : Bytes) (a b : Nat), xs.length % 2 = 0 →
    chunkWords (xs ++ [a, b]) = chunkWords xs ++ [a * 256 + b]
  | [], a, b, _ => rfl
  | [x], a, b, h => by simp at h
  | x :: y :: r, a, b, h => by
    have h' : r.length % 2 = 0 := by simp at h; omega
    simp only [List.cons_append, chunkWords, chunkWords_snoc2 r a b h']

theorem chunkWords_length : ∀ (xs : Bytes), (chunkWords xs).length = xs.length / 2
  | [] => rfl
  | [x] => by simp [chunkWords]
  | x :: y :: r => by simp only [chunkWords, List.length_cons, chunkWords_length r]; omega

theorem chunkWords_lt : ∀ (xs : Bytes), Bytes.WF xs → ∀ w ∈ chunkWords xs, w < 65536
  | [], _, w, hw => by simp [chunkWords] at hw
  | [x], _, w, hw => by simp [chunkWords] at hw
  | x :: y :: r, h, w, hw => by
    simp only [chunkWords, List.mem_cons] at hw
    rcases hw with hw | hw
    · have hx := h x (by simp)
      have hy := h y (by simp)
      omega
    · exact chunkWords_lt r (fun b hb => h b (by simp [hb])) w hw

theorem chunkWords_unchunk : ∀ (xs : Bytes), Bytes.WF xs → xs.length % 2 = 0 →
    (chunkWords xs).flatMap (beBytes 2) = xs
  | [], _, _ => rfl
  | [x], _, h => by simp at h
  | x :: y :: r, h, hl => by
    have hx := h x (by simp)
    have hy := h y (by simp)
    have hr := chunkWords_unchunk r (fun b hb => h b (by simp [hb])) (by simp at hl; omega)
    simp only [chunkWords, List.flatMap_cons, hr, beBytes_two]
    have e1 : (x * 256 + y) / 256 % 256 = x := by omega
    have e2 : (x * 256 + y) % 256 = y := by omega
    simp [e1, e2]

/-- the words of the network image of `n` are its base-65536 digits -/
theorem chunkWords_beBytes (k n : Nat) : chunkWords (beBytes (2 * k) n) = netWords k n := by
  induction k generalizing n with
  | zero => rfl
  | succ k ih =>
    have e : 2 * (k + 1) = 2 * k + 2 := by omega
    rw [e, beBytes_add_two, chunkWords_snoc2 _ _ _ (by rw [beBytes_length]; omega), ih, netWords]
    congr 2; omega

theorem netWords_length (k n : Nat) : (netWords k n).length = k := by
  induction k generalizing n with
  | zero => rfl
  | succ k ih => simp [netWords, ih]

theorem netWords_lt (k n : Nat) : ∀ w ∈ netWords k n, w < 65536 := by
  induction k generalizing n with
  | zero => intro w hw; simp [netWords] at hw
  | succ k ih =>
    intro w hw
    simp only [netWords, List.mem_append, List.mem_singleton] at hw
    rcases hw with hw | hw
    · exact ih _ w hw
    · omega

/-- the network image of `n` is its words, each high byte first -/
theorem beBytes_eq_netWords (k n : Nat) : beBytes (2 * k) n = (netWords k n).flatMap (beBytes 2) := by
  rw [← chunkWords_beBytes]
  exact (chunkWords_unchunk _ (beBytes_wf _ _) (by rw [beBytes_length]; omega)).symm

/-! ### `mapE` -/

theorem mapE_ok {α β : Type} (f : α → PyM β) (g : α → β) (l : List α)
    (h : ∀ a ∈ l, f a = .ok (g a)) : mapE f l = .ok (l.map g) := by
  induction l with
  | nil => rfl
  | cons a as ih =>
    have ha := h a (by simp)
    have has := ih (fun x hx => h x (by simp [hx]))
    simp only [mapE, ha, has, List.map_cons]

/-! ### one 16-bit word under a byte order -/

/-- the two bytes `pack(bo + 'H', w)` produces -/
def pk (bo : Endian) (w : Nat) : Bytes :=
  match bo with
  | .big => beBytes 2 w
  | .little => (beBytes 2 w).reverse

/-- the word read back in network order from `pk bo w` -/
def sw (bo : Endian) (w : Nat) : Nat :=
  match bo with
  | .big => w
  | .little => swap16 w

/-- `if wordorder == Little: reversed` -/
def rv {α : Type} (wo : Endian) (l : List α) : List α := if wo = .little then l.reverse else l

theorem structPack2 (bo : Endian) (w : Nat) (h : w < 65536) : structPack bo 2 w = .ok (pk bo w) := by
  have : w < 256 ^ 2 := by simpa using h
  cases bo <;> simp [structPack, this, pk]

theorem swap16_lt (w : Nat) (h : w < 65536) : swap16 w < 65536 := by unfold swap16; omega

theorem swap16_swap16 (w : Nat) (h : w < 65536) : swap16 (swap16 w) = w := by unfold swap16; omega

theorem sw_lt (bo : Endian) (w : Nat) (h : w < 65536) : sw bo w < 65536 := by
  cases bo
  · exact h
  · exact swap16_lt w h

theorem pk_sw (bo : Endian) (w : Nat) (h : w < 65536) : pk bo (sw bo w) = beBytes 2 w := by
  cases bo
  · rfl
  · simp only [pk, sw, beBytes_two, swap16, List.reverse_cons, List.reverse_nil, List.nil_append,
      List.cons_append]
    have hq : w / 256 < 256 := by omega
    have hr : w % 256 < 256 := by omega
    generalize w / 256 = q at *
    generalize w % 256 = r at *
    have e1 : (r * 256 + q) % 256 = q % 256 := by omega
    have e2 : (r * 256 + q) / 256 % 256 = r := by omega
    rw [e1, e2]

theorem pk_eq_regBytes (bo : Endian) (w : Nat) (h : w < 65536) : pk bo w = regBytes (sw bo w) := by
  cases bo
  · simp only [pk, sw, beBytes_two, regBytes]
    have : w / 256 % 256 = w / 256 := by omega
    rw [this]
  · simp only [pk, sw, beBytes_two, regBytes, swap16, List.reverse_cons, List.reverse_nil,
      List.nil_append, List.cons_append]
    have e1 : (w % 256 * 256 + w / 256) % 256 = w / 256 % 256 := by omega
    have e2 : (w % 256 * 256 + w / 256) / 256 = w % 256 := by omega
    rw [e1, e2]

theorem pk_length (bo : Endian) (w : Nat) : (pk bo w).length = 2 := by
  cases bo <;> simp [pk, beBytes_two]

theorem pk_wf (bo : Endian) (w : Nat) : Bytes.WF (pk bo w) := by
  intro b hb
  cases bo
  · exact beBytes_wf 2 w b hb
  · exact beBytes_wf 2 w b (by simpa [pk] using hb)

theorem chunkWords_pk (bo : Endian) : ∀ (ws : List Nat), (∀ w ∈ ws, w < 65536) →
    chunkWords ((ws.map (pk bo)).flatten) = ws.map (sw bo)
  | [], _ => rfl
  | w :: ws, h => by
    have hw := h w (by simp)
    have ih := chunkWords_pk bo ws (fun x hx => h x (by simp [hx]))
    cases bo
    · simp only [List.map_cons, List.flatten_cons, pk, beBytes_two, List.cons_append,
        List.nil_append, chunkWords, sw] at ih ⊢
      rw [ih]; congr 1; omega
    · simp only [List.map_cons, List.flatten_cons, pk, beBytes_two, List.cons_append,
        List.nil_append, chunkWords, sw, List.reverse_cons, List.reverse_nil, swap16] at ih ⊢
      rw [ih]; congr 1; omega

theorem flatten_pk_length (bo : Endian) (ws : List Nat) :
    ((ws.map (pk bo)).flatten).length = 2 * ws.length := by
  induction ws with
  | nil => rfl
  | cons w ws ih => simp only [List.map_cons, List.flatten_cons, List.length_append, pk_length, ih,
      List.length_cons]; omega

theorem rv_length {α : Type} (wo : Endian) (l : List α) : (rv wo l).length = l.length := by
  unfold rv; split <;> simp

theorem rv_mem {α : Type} (wo : Endian) (l : List α) (a : α) : a ∈ rv wo l ↔ a ∈ l := by
  unfold rv; split <;> simp

theorem rv_map {α β : Type} (wo : Endian) (f : α → β) (l : List α) : rv wo (l.map f) = (rv wo l).map f := by
  unfold rv; split <;> simp

theorem rv_rv {α : Type} (wo : Endian) (l : List α) : rv wo (rv wo l) = l := by
  unfold rv; split <;> simp

/-! ### `_pack_words` / `_unpack_words` -/

/-- `_pack_words` in closed form: the network-order words, reversed for little word order, each
    packed with the byte order -/
theorem packWords_eq (bo wo : Endian) (wc n : Nat) (h : n < 256 ^ (2 * wc)) :
    packWords bo wo wc n = .ok (((rv wo (netWords wc n)).map (pk bo)).flatten) := by
  have h1 : structPack .big (2 * wc) n = .ok (beBytes (2 * wc) n) := by simp [structPack, h]
  have h2 : unpackWords wc (beBytes (2 * wc) n) = .ok (netWords wc n) := by
    simp [unpackWords, beBytes_length, chunkWords_beBytes]
  have h3 : mapE (structPack bo 2) (rv wo (netWords wc n)) = .ok ((rv wo (netWords wc n)).map (pk bo)) :=
    mapE_ok _ _ _ (fun w hw => structPack2 bo w (netWords_lt wc n w ((rv_mem _ _ _).1 hw)))
  simp only [rv] at h3 ⊢
  simp only [packWords, h1, h2, h3, bind, Except.bind, pure, Except.pure]

/-- `_unpack_words` undoes `_pack_words`: it returns the network image -/
theorem unpackWords_packed (d : Decoder) (wc n : Nat) :
    d.unpackWords wc (((rv d.wo (netWords wc n)).map (pk d.bo)).flatten) = .ok (beBytes (2 * wc) n) := by
  have hlt : ∀ w ∈ rv d.wo (netWords wc n), w < 65536 :=
    fun w hw => netWords_lt wc n w ((rv_mem _ _ _).1 hw)
  have h1 : Payload.unpackWords wc (((rv d.wo (netWords wc n)).map (pk d.bo)).flatten) =
      .ok ((rv d.wo (netWords wc n)).map (sw d.bo)) := by
    unfold Payload.unpackWords
    rw [if_pos (by rw [flatten_pk_length, rv_length, netWords_length]), chunkWords_pk _ _ hlt]
  have h2 : rv d.wo ((rv d.wo (netWords wc n)).map (sw d.bo)) = (netWords wc n).map (sw d.bo) := by
    rw [rv_map, rv_rv]
  have h3 : mapE (structPack d.bo 2) ((netWords wc n).map (sw d.bo)) =
      .ok (((netWords wc n).map (sw d.bo)).map (pk d.bo)) :=
    mapE_ok _ _ _ (fun w hw => by
      obtain ⟨x, hx, rfl⟩ := List.mem_map.1 hw
      exact structPack2 _ _ (sw_lt _ _ (netWords_lt wc n x hx)))
  have h4 : (((netWords wc n).map (sw d.bo)).map (pk d.bo)).flatten = beBytes (2 * wc) n := by
    rw [beBytes_eq_netWords, List.map_map, List.flatMap_def]
    congr 1
    apply List.map_congr_left
    intro w hw
    exact pk_sw _ _ (netWords_lt wc n w hw)
  rw [← h2] at h3
  simp only [rv] at h1 h2 h3 ⊢
  simp only [Decoder.unpackWords, h1, h3, bind, Except.bind, pure, Except.pure]
  rw [h2, h4]

/-! ### one numeric value: the builder produces the conventional image -/

theorem regImage_eq (bo wo : Endian) (k n : Nat) :
    regImage bo wo k n = (rv wo (netWords k n)).map (sw bo) := by
  have e : sw Endian.big = id := rfl
  have e' : sw Endian.little = swap16 := rfl
  cases bo <;> cases wo <;> simp [regImage, rv, e, e']

theorem flatten_pk_eq (bo : Endian) : ∀ (ws : List Nat), (∀ w ∈ ws, w < 65536) →
    (ws.map (pk bo)).flatten = (ws.map (sw bo)).flatMap regBytes
  | [], _ => rfl
  | w :: ws, h => by
    simp only [List.map_cons, List.flatten_cons, List.flatMap_cons,
      flatten_pk_eq bo ws (fun x hx => h x (by simp [hx])), pk_eq_regBytes bo w (h w (by simp))]

theorem size_of_viaWords (t : NumTy) (h : t.viaWords = true) :
    t.size = 2 * (t.size / 2) ∧ t.size ≠ 1 := by
  cases t <;> simp_all [NumTy.viaWords, NumTy.size]

theorem valueBytes_words (bo wo : Endian) (t : NumTy) (n : Nat) (h : t.viaWords = true) :
    valueBytes bo wo (.num t n) = ((rv wo (netWords (t.size / 2) n)).map (pk bo)).flatten := by
  have hs := (size_of_viaWords t h).2
  simp only [valueBytes, hs, if_false, regImage_eq]
  exact (flatten_pk_eq bo _ (fun w hw => netWords_lt _ n w ((rv_mem _ _ _).1 hw))).symm

/-- directly packed formats (`byteorder + 'B'/'b'/'H'/'h'`) -/
theorem valueBytes_direct (bo wo : Endian) (t : NumTy) (n : Nat) (h : t.viaWords = false)
    (hn : n < 256 ^ t.size) :
    valueBytes bo wo (.num t n) = (match bo with
      | .big => beBytes t.size n
      | .little => (beBytes t.size n).reverse) := by
  have h16 : ∀ m : Nat, m < 65536 → valueBytes bo wo (.num .u16 m) = pk bo m := by
    intro m hm
    have e : m % 65536 = m := by omega
    simp only [valueBytes, NumTy.size, regImage_eq, netWords, List.nil_append, e]
    have : rv wo [m] = [m] := by cases wo <;> rfl
    rw [this]
    simp [pk_eq_regBytes bo m hm]
  cases t <;> simp only [NumTy.viaWords, Bool.true_eq_false] at h
  · have e : n % 256 = n := by simp [NumTy.size] at hn; omega
    cases bo <;> simp [valueBytes, NumTy.size, beBytes, e]
  · have e : n % 256 = n := by simp [NumTy.size] at hn; omega
    cases bo <;> simp [valueBytes, NumTy.size, beBytes, e]
  · have := h16 n (by simpa [NumTy.size] using hn)
    cases bo <;> simpa [pk, NumTy.size, valueBytes] using this
  · have := h16 n (by simpa [NumTy.size] using hn)
    cases bo <;> simpa [pk, NumTy.size, valueBytes] using this

theorem valueBytes_num_length (bo wo : Endian) (t : NumTy) (n : Nat) (hn : n < 256 ^ t.size) :
    (valueBytes bo wo (.num t n)).length = t.size := by
  cases hv : t.viaWords
  · rw [valueBytes_direct bo wo t n hv hn]
    cases bo <;> simp [beBytes_length]
  · rw [valueBytes_words bo wo t n hv, flatten_pk_length, rv_length, netWords_length]
    exact (size_of_viaWords t hv).1.symm

theorem addValue_num (bo wo : Endian) (t : NumTy) (n : Nat) (hn : n < 256 ^ t.size) :
    addValue bo wo (.num t n) = .ok (valueBytes bo wo (.num t n)) := by
  cases hv : t.viaWords
  · rw [valueBytes_direct bo wo t n hv hn]
    simp only [addValue, hv, structPack, hn, if_true, Bool.false_eq_true, if_false]
    cases bo <;> rfl
  · have hs := (size_of_viaWords t hv).1
    rw [valueBytes_words bo wo t n hv]
    simp only [addValue, hv, if_true]
    exact packWords_eq bo wo _ n (by rw [← hs]; exact hn)

/-! ### slices -/

theorem slice_mid {α : Type} (pre mid suf : List α) (k : Nat) (hk : k = mid.length) :
    slice (pre ++ mid ++ suf) (pre.length + k - k) (pre.length + k) = mid := by
  subst hk
  unfold slice
  have e1 : pre.length + mid.length - mid.length = pre.length := by omega
  have e2 : pre.length + mid.length - pre.length = mid.length := by omega
  rw [e1, e2, List.append_assoc, List.drop_left, List.take_left]

/-! ### one numeric value: the decoder reads it back -/

theorem beVal_reverse_reverse (bs : Bytes) : beVal bs.reverse.reverse = beVal bs := by simp

theorem decodeNum_at (d : Decoder) (t : NumTy) (n : Nat) (pre suf : Bytes) (hn : n < 256 ^ t.size)
    (hp : d.payload = pre ++ valueBytes d.bo d.wo (.num t n) ++ suf) (hptr : d.pointer = pre.length) :
    d.decodeNum t = .ok (n, { d with pointer := pre.length + t.size }) := by
  have hlen := valueBytes_num_length d.bo d.wo t n hn
  have hsl : slice d.payload (d.pointer + t.size - t.size) (d.pointer + t.size) =
      valueBytes d.bo d.wo (.num t n) := by
    rw [hp, hptr]; exact slice_mid _ _ _ _ hlen.symm
  unfold Decoder.decodeNum
  simp only [hsl]
  cases hv : t.viaWords
  · rw [valueBytes_direct d.bo d.wo t n hv hn]
    simp only [Bool.false_eq_true, if_false, hptr]
    cases hb : d.bo <;> simp [structUnpack, beBytes_length, beVal_beBytes _ _ hn]
  · have hs := (size_of_viaWords t hv).1
    rw [valueBytes_words d.bo d.wo t n hv, unpackWords_packed]
    simp only [if_true, hptr]
    have hn' : n < 256 ^ (2 * (t.size / 2)) := by rw [← hs]; exact hn
    have : structUnpack .big t.size (beBytes (2 * (t.size / 2)) n) = .ok n := by
      simp [structUnpack, beBytes_length, ← hs, beVal_beBytes _ _ hn]
    rw [this]

/-! ### bit groups -/

theorem packLoop_step8 (a b c d e f g h : Bool) (r : List Bool) (ret : Bytes) :
    packLoop (a :: b :: c :: d :: e :: f :: g :: h :: r) 0 0 ret =
      packLoop r 0 0 (ret ++ [byteOfBits [a, b, c, d, e, f, g, h]]) := by
  cases a <;> cases b <;> cases c <;> cases d <;> cases e <;> cases f <;> cases g <;> cases h <;> rfl

theorem packLoop_eq : ∀ (l : List Bool) (ret : Bytes), packLoop l 0 0 ret = ret ++ bitsBytes l
  | [], ret => by simp [packLoop, bitsBytes]
  | [a], ret => by cases a <;> rfl
  | [a, b], ret => by cases a <;> cases b <;> rfl
  | [a, b, c], ret => by cases a <;> cases b <;> cases c <;> rfl
  | [a, b, c, d], ret => by cases a <;> cases b <;> cases c <;> cases d <;> rfl
  | [a, b, c, d, e], ret => by cases a <;> cases b <;> cases c <;> cases d <;> cases e <;> rfl
  | [a, b, c, d, e, f], ret => by
    cases a <;> cases b <;> cases c <;> cases d <;> cases e <;> cases f <;> rfl
  | [a, b, c, d, e, f, g], ret => by
    cases a <;> cases b <;> cases c <;> cases d <;> cases e <;> cases f <;> cases g <;> rfl
  | a :: b :: c :: d :: e :: f :: g :: h :: r, ret => by
    rw [packLoop_step8, packLoop_eq r, bitsBytes, List.append_assoc]; rfl

theorem packBitstring_eq (l : List Bool) : packBitstring l = bitsBytes l := by
  simp [packBitstring, packLoop_eq]

theorem unpackByte_byteOfBits8 (a b c d e f g h : Bool) :
    unpackByte 8 (byteOfBits [a, b, c, d, e, f, g, h]) = [a, b, c, d, e, f, g, h] := by
  cases a <;> cases b <;> cases c <;> cases d <;> cases e <;> cases f <;> cases g <;> cases h <;> rfl

theorem padBits_cons8 (a b c d e f g h : Bool) (r : List Bool) :
    padBits (a :: b :: c :: d :: e :: f :: g :: h :: r) = a :: b :: c :: d :: e :: f :: g :: h :: padBits r := by
  simp only [padBits, List.length_cons, List.cons_append]
  have : (r.length + 1 + 1 + 1 + 1 + 1 + 1 + 1 + 1) % 8 = r.length % 8 := by omega
  rw [this]

theorem unpack_bitsBytes : ∀ (l : List Bool), unpackBitstring (bitsBytes l) = padBits l
  | [] => rfl
  | [a] => by cases a <;> rfl
  | [a, b] => by cases a <;> cases b <;> rfl
  | [a, b, c] => by cases a <;> cases b <;> cases c <;> rfl
  | [a, b, c, d] => by cases a <;> cases b <;> cases c <;> cases d <;> rfl
  | [a, b, c, d, e] => by cases a <;> cases b <;> cases c <;> cases d <;> cases e <;> rfl
  | [a, b, c, d, e, f] => by
    cases a <;> cases b <;> cases c <;> cases d <;> cases e <;> cases f <;> rfl
  | [a, b, c, d, e, f, g] => by
    cases a <;> cases b <;> cases c <;> cases d <;> cases e <;> cases f <;> cases g <;> rfl
  | a :: b :: c :: d :: e :: f :: g :: h :: r => by
    have ih := unpack_bitsBytes r
    simp only [unpackBitstring] at ih
    simp only [bitsBytes, unpackBitstring, List.flatMap_cons, unpackByte_byteOfBits8, padBits_cons8, ih,
      List.cons_append, List.nil_append]

theorem bitsBytes_length : ∀ (l : List Bool), (bitsBytes l).length = (l.length + 7) / 8
  | [] => rfl
  | [a] => by simp [bitsBytes]
  | [a, b] => by simp [bitsBytes]
  | [a, b, c] => by simp [bitsBytes]
  | [a, b, c, d] => by simp [bitsBytes]
  | [a, b, c, d, e] => by simp [bitsBytes]
  | [a, b, c, d, e, f] => by simp [bitsBytes]
  | [a, b, c, d, e, f, g] => by simp [bitsBytes]
  | a :: b :: c :: d :: e :: f :: g :: h :: r => by
    simp only [bitsBytes, List.length_cons, bitsBytes_length r]; omega

theorem byteOfBits_lt : ∀ (l : List Bool), byteOfBits l < 2 ^ l.length
  | [] => by simp [byteOfBits]
  | b :: r => by
    have := byteOfBits_lt r
    simp only [byteOfBits, List.length_cons, Nat.pow_succ]
    cases b <;> simp <;> omega

theorem bitsBytes_wf : ∀ (l : List Bool), Bytes.WF (bitsBytes l)
  | [] => by intro b hb; simp [bitsBytes] at hb
  | [a] => by intro x hx; have := byteOfBits_lt [a]; simp [bitsBytes] at hx this; omega
  | [a, b] => by intro x hx; have := byteOfBits_lt [a, b]; simp [bitsBytes] at hx this; omega
  | [a, b, c] => by intro x hx; have := byteOfBits_lt [a, b, c]; simp [bitsBytes] at hx this; omega
  | [a, b, c, d] => by intro x hx; have := byteOfBits_lt [a, b, c, d]; simp [bitsBytes] at hx this; omega
  | [a, b, c, d, e] => by
    intro x hx; have := byteOfBits_lt [a, b, c, d, e]; simp [bitsBytes] at hx this; omega
  | [a, b, c, d, e, f] => by
    intro x hx; have := byteOfBits_lt [a, b, c, d, e, f]; simp [bitsBytes] at hx this; omega
  | [a, b, c, d, e, f, g] => by
    intro x hx; have := byteOfBits_lt [a, b, c, d, e, f, g]; simp [bitsBytes] at hx this; omega
  | a :: b :: c :: d :: e :: f :: g :: h :: r => by
    intro x hx
    have := byteOfBits_lt [a, b, c, d, e, f, g, h]
    simp only [bitsBytes, List.mem_cons] at hx
    rcases hx with hx | hx
    · simp at this; omega
    · exact bitsBytes_wf r x hx

theorem padBits_aligned (l : List Bool) (h : l.length % 8 = 0) : padBits l = l := by
  simp [padBits, h]

theorem decoder_eq (d : Decoder) (p q : Nat) (h : p = q) :
    ({ d with pointer := p } : Decoder) = { d with pointer := q } := by rw [h]

theorem decodeBitsN_at : ∀ (bs : Bytes) (d : Decoder) (pre suf : Bytes),
    d.payload = pre ++ bs ++ suf → d.pointer = pre.length →
    d.decodeBitsN bs.length = (unpackBitstring bs, { d with pointer := pre.length + bs.length })
  | [], d, pre, suf, _, hptr => by
    simp only [Decoder.decodeBitsN, unpackBitstring, List.flatMap_nil, List.length_nil, Nat.add_zero]
    rw [← hptr]
  | b :: bs, d, pre, suf, hp, hptr => by
    have hsl : slice d.payload (d.pointer + 1 - 1) (d.pointer + 1) = [b] := by
      rw [hp, hptr]
      have : pre ++ b :: bs ++ suf = pre ++ [b] ++ (bs ++ suf) := by simp
      rw [this]; exact slice_mid pre [b] (bs ++ suf) 1 rfl
    have ih := decodeBitsN_at bs { d with pointer := d.pointer + 1 } (pre ++ [b]) suf
      (by simp [hp]) (by simp [hptr])
    simp only [Decoder.decodeBitsN, Decoder.decodeBits, hsl, ih, List.length_cons, List.length_append,
      List.length_nil]
    simp only [unpackBitstring, List.flatMap_cons, List.flatMap_nil, List.append_nil]
    congr 1
    exact decoder_eq d _ _ (by omega)

theorem decodeString_at (d : Decoder) (s pre suf : Bytes)
    (hp : d.payload = pre ++ s ++ suf) (hptr : d.pointer = pre.length) :
    d.decodeString s.length = (s, { d with pointer := pre.length + s.length }) := by
  have hsl : slice d.payload (d.pointer + s.length - s.length) (d.pointer + s.length) = s := by
    rw [hp, hptr]; exact slice_mid _ _ _ _ rfl
  rw [hptr] at hsl
  simp only [Decoder.decodeString, hsl, hptr]


/-! ### one value, any kind -/

theorem addValue_eq (bo wo : Endian) (v : Value) (h : v.WF) :
    addValue bo wo v = .ok (valueBytes bo wo v) := by
  cases v with
  | num t n => exact addValue_num bo wo t n h
  | bits l => simp [addValue, valueBytes, packBitstring_eq]
  | str s => rfl

theorem valueBytes_wf (bo wo : Endian) (v : Value) (h : v.WF) : Bytes.WF (valueBytes bo wo v) := by
  cases v with
  | num t n =>
    cases hv : t.viaWords
    · rw [valueBytes_direct bo wo t n hv h]
      cases bo
      · exact beBytes_wf _ _
      · intro b hb; exact beBytes_wf _ _ b (by simpa using hb)
    · rw [valueBytes_words bo wo t n hv]
      intro b hb
      obtain ⟨l, hl, hbl⟩ := List.mem_flatten.1 hb
      obtain ⟨w, _, rfl⟩ := List.mem_map.1 hl
      exact pk_wf bo w b hbl
  | bits l => exact bitsBytes_wf l
  | str s => exact h

theorem decodeOne_at (d : Decoder) (v : Value) (pre suf : Bytes) (h : v.WF)
    (hp : d.payload = pre ++ valueBytes d.bo d.wo v ++ suf) (hptr : d.pointer = pre.length) :
    d.decodeOne v.ty =
      .ok (canon v, { d with pointer := pre.length + (valueBytes d.bo d.wo v).length }) := by
  cases v with
  | num t n =>
    simp only [Value.ty, Decoder.decodeOne, decodeNum_at d t n pre suf h hp hptr, canon,
      valueBytes_num_length d.bo d.wo t n h]
  | bits l =>
    simp only [valueBytes] at hp ⊢
    have := decodeBitsN_at (bitsBytes l) d pre suf hp hptr
    rw [bitsBytes_length] at this
    simp only [Value.ty, Decoder.decodeOne, this, canon, unpack_bitsBytes, bitsBytes_length]
  | str s =>
    simp only [valueBytes] at hp ⊢
    simp only [Value.ty, Decoder.decodeOne, decodeString_at d s pre suf hp hptr, canon]

/-- decoding the types of `vs` from a payload that holds their images at the pointer (anything may
    precede and follow) returns the values, in order -/
theorem decodeAll_at : ∀ (vs : List Value) (d : Decoder) (pre suf : Bytes), (∀ v ∈ vs, v.WF) →
    d.payload = pre ++ bytesImage d.bo d.wo vs ++ suf → d.pointer = pre.length →
    d.decodeAll (vs.map Value.ty) = .ok (vs.map canon)
  | [], _, _, _, _, _, _ => rfl
  | v :: vs, d, pre, suf, h, hp, hptr => by
    have hv := h v (by simp)
    have hp1 : d.payload = pre ++ valueBytes d.bo d.wo v ++ (bytesImage d.bo d.wo vs ++ suf) := by
      rw [hp]; simp [bytesImage]
    have h1 := decodeOne_at d v pre (bytesImage d.bo d.wo vs ++ suf) hv hp1 hptr
    have ih := decodeAll_at vs { d with pointer := pre.length + (valueBytes d.bo d.wo v).length }
      (pre ++ valueBytes d.bo d.wo v) suf (fun x hx => h x (by simp [hx]))
      (by rw [hp]; simp [bytesImage]) (by simp)
    simp only [List.map_cons, Decoder.decodeAll, h1, ih]

theorem buildAll_eq (bo wo : Endian) (vs : List Value) (h : ∀ v ∈ vs, v.WF) :
    buildAll bo wo vs = .ok (vs.map (valueBytes bo wo)) :=
  mapE_ok _ _ _ (fun v hv => addValue_eq bo wo v (h v hv))

theorem toString_map (bo wo : Endian) (vs : List Value) :
    toString (vs.map (valueBytes bo wo)) = bytesImage bo wo vs := by
  simp [toString, bytesImage, List.flatMap_def]

theorem bytesImage_wf (bo wo : Endian) (vs : List Value) (h : ∀ v ∈ vs, v.WF) :
    Bytes.WF (bytesImage bo wo vs) := by
  intro b hb
  obtain ⟨v, hv, hbv⟩ := List.mem_flatMap.1 hb
  exact valueBytes_wf bo wo v (h v hv) b hbv

theorem map_canon_aligned (vs : List Value) (h : ∀ v ∈ vs, v.BitsAligned) : vs.map canon = vs := by
  induction vs with
  | nil => rfl
  | cons v vs ih =>
    have hv := h v (by simp)
    rw [List.map_cons, ih (fun x hx => h x (by simp [hx]))]
    congr 1
    cases v with
    | bits l => simp only [canon, padBits_aligned l hv]
    | num t n => rfl
    | str s => rfl


/-! ### `build` / `to_registers` / `fromRegisters` -/

/-- consecutive two-byte strings -/
def pairs : Bytes → List Bytes
  | a :: b :: r => [a, b] :: pairs r
  | _ => []

theorem range_slices : ∀ (m : Nat) (T : Bytes), T.length = 2 * m →
    (List.range m).map (fun i => slice T (2 * i) (2 * i + 2)) = pairs T
  | 0, T, h => by
    have : T = [] := List.eq_nil_of_length_eq_zero (by omega)
    subst this; rfl
  | m + 1, [], h => by simp at h
  | m + 1, [a], h => by simp at h; omega
  | m + 1, a :: b :: T, h => by
    have hT : T.length = 2 * m := by simp at h; omega
    rw [List.range_succ_eq_map, List.map_cons, List.map_map, pairs, ← range_slices m T hT]
    congr 1
    apply List.map_congr_left
    intro i _
    simp only [Function.comp, slice]
    have e1 : 2 * (i + 1) = 2 * i + 1 + 1 := by omega
    have e2 : 2 * i + 1 + 1 + 2 - (2 * i + 1 + 1) = 2 * i + 2 - 2 * i := by omega
    rw [e1, List.drop_succ_cons, List.drop_succ_cons, e2]

theorem pairs_pad : ∀ (S : Bytes),
    mapE (structUnpack .big 2) (pairs (S ++ List.replicate (S.length % 2) 0)) = .ok (pairRegs S)
  | [] => rfl
  | [a] => by simp [pairs, mapE, structUnpack, beVal, pairRegs]
  | a :: b :: r => by
    have e : (a :: b :: r).length % 2 = r.length % 2 := by simp; omega
    have ih := pairs_pad r
    rw [e]
    simp only [List.cons_append, pairs, mapE, ih, pairRegs]
    simp [structUnpack, beVal]

theorem build_eq (payload : List Bytes) :
    build payload = pairs (toString payload ++ List.replicate ((toString payload).length % 2) 0) := by
  unfold build
  exact range_slices _ _ (by simp; omega)

theorem toRegisters_eq (bo : Endian) (payload : List Bytes) :
    toRegisters bo false payload = .ok (pairRegs (toString payload)) := by
  simp only [toRegisters, build_eq, Bool.false_eq_true, if_false]
  exact pairs_pad _

theorem pairRegs_lt : ∀ (S : Bytes), Bytes.WF S → ∀ r ∈ pairRegs S, r < 65536
  | [], _, r, hr => by simp [pairRegs] at hr
  | [a], h, r, hr => by
    have := h a (by simp)
    simp [pairRegs] at hr; omega
  | a :: b :: S, h, r, hr => by
    have ha := h a (by simp)
    have hb := h b (by simp)
    simp only [pairRegs, List.mem_cons] at hr
    rcases hr with hr | hr
    · omega
    · exact pairRegs_lt S (fun x hx => h x (by simp [hx])) r hr

theorem pairRegs_bytes : ∀ (S : Bytes), Bytes.WF S →
    (pairRegs S).flatMap (beBytes 2) = S ++ List.replicate (S.length % 2) 0
  | [], _ => rfl
  | [a], h => by
    have := h a (by simp)
    have e1 : a * 256 / 256 % 256 = a := by omega
    have e2 : a * 256 % 256 = 0 := by omega
    simp [pairRegs, beBytes_two, e2]; omega
  | a :: b :: S, h => by
    have ha := h a (by simp)
    have hb := h b (by simp)
    have ih := pairRegs_bytes S (fun x hx => h x (by simp [hx]))
    have e : (a :: b :: S).length % 2 = S.length % 2 := by simp; omega
    have e1 : (a * 256 + b) / 256 % 256 = a := by omega
    have e2 : (a * 256 + b) % 256 = b := by omega
    rw [e]
    simp only [pairRegs, List.flatMap_cons, ih, beBytes_two, e1, e2, List.cons_append, List.nil_append]

theorem pairRegs_length : ∀ (S : Bytes), (pairRegs S).length = (S.length + 1) / 2
  | [] => rfl
  | [a] => by simp [pairRegs]
  | a :: b :: S => by simp only [pairRegs, List.length_cons, pairRegs_length S]; omega

/-- `fromRegisters` of the registers of a byte string: the byte string, zero-padded to even length -/
theorem fromRegisters_pairRegs (S : Bytes) (h : Bytes.WF S) (bo wo : Endian) :
    Decoder.fromRegisters (pairRegs S) bo wo =
      .ok ⟨S ++ List.replicate (S.length % 2) 0, 0, bo, wo⟩ := by
  have h1 : mapE (structPack .big 2) (pairRegs S) = .ok ((pairRegs S).map (pk .big)) :=
    mapE_ok _ _ _ (fun r hr => structPack2 .big r (pairRegs_lt S h r hr))
  have h2 : ((pairRegs S).map (pk .big)).flatten = S ++ List.replicate (S.length % 2) 0 := by
    rw [← pairRegs_bytes S h, List.flatMap_def]; rfl
  simp only [Decoder.fromRegisters, h1, h2, bind, Except.bind, pure, Except.pure]

theorem pairRegs_regBytes : ∀ (rs : List Nat), (∀ r ∈ rs, r < 65536) →
    pairRegs (rs.flatMap regBytes) = rs
  | [], _ => rfl
  | r :: rs, h => by
    have hr := h r (by simp)
    have ih := pairRegs_regBytes rs (fun x hx => h x (by simp [hx]))
    simp only [List.flatMap_cons, regBytes, List.cons_append, List.nil_append, pairRegs] at ih ⊢
    rw [ih]; congr 1; omega

theorem regImage_lt (bo wo : Endian) (k n : Nat) : ∀ r ∈ regImage bo wo k n, r < 65536 := by
  intro r hr
  rw [regImage_eq] at hr
  obtain ⟨w, hw, rfl⟩ := List.mem_map.1 hr
  exact sw_lt bo w (netWords_lt k n w ((rv_mem _ _ _).1 hw))

theorem regImage_length (bo wo : Endian) (k n : Nat) : (regImage bo wo k n).length = k := by
  rw [regImage_eq, List.length_map, rv_length, netWords_length]

theorem bytesImage_regs (bo wo : Endian) : ∀ (vs : List Value), (∀ v ∈ vs, v.IsRegs) →
    bytesImage bo wo vs = (vs.flatMap (valueRegs bo wo)).flatMap regBytes
  | [], _ => rfl
  | v :: vs, h => by
    have hv := h v (by simp)
    have ih := bytesImage_regs bo wo vs (fun x hx => h x (by simp [hx]))
    simp only [bytesImage] at ih
    simp only [bytesImage, List.flatMap_cons, List.flatMap_append, ih]
    congr 1
    cases v with
    | num t n =>
      simp only [Value.IsRegs] at hv
      simp only [valueBytes, hv, if_false, valueRegs]
    | bits l => exact absurd hv (by simp [Value.IsRegs])
    | str s => exact absurd hv (by simp [Value.IsRegs])

theorem valueRegs_lt (bo wo : Endian) (vs : List Value) :
    ∀ r ∈ vs.flatMap (valueRegs bo wo), r < 65536 := by
  intro r hr
  obtain ⟨v, _, hrv⟩ := List.mem_flatMap.1 hr
  cases v with
  | num t n => exact regImage_lt bo wo _ n r hrv
  | bits l => simp [valueRegs] at hrv
  | str s => simp [valueRegs] at hrv


/-! ### `to_coils` / `fromCoils` -/

/-- `m` consecutive 8-bit chunks -/
def chunksBy : Nat → List Bool → List (List Bool)
  | 0, _ => []
  | m + 1, T => T.take 8 :: chunksBy m (T.drop 8)

theorem range_slices8 : ∀ (m : Nat) (T : List Bool),
    (List.range m).map (fun i => slice T (8 * i) (8 * i + 8)) = chunksBy m T
  | 0, _ => rfl
  | m + 1, T => by
    rw [List.range_succ_eq_map, List.map_cons, List.map_map, chunksBy, ← range_slices8 m (T.drop 8)]
    congr 1
    apply List.map_congr_left
    intro i _
    simp only [Function.comp, slice, List.drop_drop]
    have e1 : 8 * (i + 1) = 8 + 8 * i := by omega
    have e2 : 8 + 8 * i + 8 - (8 + 8 * i) = 8 * i + 8 - 8 * i := by omega
    rw [e1, e2]

/-- bit `j` of a register, as `format(reg, '016b')` shows it -/
def bitAt (r j : Nat) : Bool := (r / 2 ^ j) % 2 == 1

theorem bin16_eq (r : Nat) : bin16 r =
    [bitAt r 15, bitAt r 14, bitAt r 13, bitAt r 12, bitAt r 11, bitAt r 10, bitAt r 9, bitAt r 8,
     bitAt r 7, bitAt r 6, bitAt r 5, bitAt r 4, bitAt r 3, bitAt r 2, bitAt r 1, bitAt r 0] := rfl

theorem byteOfBits_bitAt (r j : Nat) (l : List Bool) :
    byteOfBits (bitAt r j :: l) = (r / 2 ^ j) % 2 + 2 * byteOfBits l := by
  have hb : (if bitAt r j = true then 1 else 0) = (r / 2 ^ j) % 2 := by
    unfold bitAt
    by_cases h : (r / 2 ^ j) % 2 = 1
    · simp [h]
    · have : (r / 2 ^ j) % 2 = 0 := by omega
      simp [this]
  simp only [byteOfBits, hb]

theorem byteOfBits_hi (r : Nat) (h : r < 65536) :
    byteOfBits [bitAt r 8, bitAt r 9, bitAt r 10, bitAt r 11, bitAt r 12, bitAt r 13, bitAt r 14, bitAt r 15] = r / 256 := by
  simp only [byteOfBits_bitAt]
  simp only [byteOfBits, Nat.reducePow]
  omega

theorem byteOfBits_lo (r : Nat) :
    byteOfBits [bitAt r 0, bitAt r 1, bitAt r 2, bitAt r 3, bitAt r 4, bitAt r 5, bitAt r 6, bitAt r 7] = r % 256 := by
  simp only [byteOfBits_bitAt]
  simp only [byteOfBits, Nat.reducePow]
  omega

theorem coil_bytes : ∀ (regs : List Nat), (∀ r ∈ regs, r < 65536) →
    ((chunksBy (2 * regs.length) (regs.flatMap bin16)).map (fun c => packBitstring c.reverse)).flatten =
      regs.flatMap regBytes
  | [], _ => rfl
  | r :: rs, h => by
    have hr := h r (by simp)
    have ih := coil_bytes rs (fun x hx => h x (by simp [hx]))
    have e : 2 * (r :: rs).length = 2 * rs.length + 1 + 1 := by simp; omega
    simp only [packBitstring_eq] at ih
    rw [e, List.flatMap_cons, bin16_eq]
    simp only [List.flatMap_cons, chunksBy, List.cons_append, List.nil_append, List.take_succ_cons, List.take_zero,
      List.drop_succ_cons, List.drop_zero, List.map_cons, List.flatten_cons, ih, List.reverse_cons,
      List.reverse_nil, packBitstring_eq, bitsBytes, byteOfBits_hi r hr, byteOfBits_lo r, regBytes]

theorem flatMap_bin16_length (regs : List Nat) : (regs.flatMap bin16).length = 16 * regs.length := by
  induction regs with
  | nil => rfl
  | cons r rs ih => simp only [List.flatMap_cons, List.length_append, ih, bin16_eq, List.length_cons,
      List.length_nil]; omega

theorem fromCoils_bin16 (regs : List Nat) (h : ∀ r ∈ regs, r < 65536) (bo wo : Endian) :
    Decoder.fromCoils (regs.flatMap bin16) bo wo = ⟨regs.flatMap regBytes, 0, bo, wo⟩ := by
  have hl := flatMap_bin16_length regs
  have h0 : (regs.flatMap bin16).length % 8 = 0 := by omega
  have hm : ((regs.flatMap bin16).length + 7) / 8 = 2 * regs.length := by omega
  simp only [Decoder.fromCoils, h0, ne_eq, not_true_eq_false, if_false, Decoder.bitChunks, hm,
    range_slices8, coil_bytes regs h]

theorem flatMap_regBytes_eq (regs : List Nat) (h : ∀ r ∈ regs, r < 65536) :
    regs.flatMap regBytes = regs.flatMap (beBytes 2) := by
  induction regs with
  | nil => rfl
  | cons r rs ih =>
    have hr := h r (by simp)
    have e : r / 256 % 256 = r / 256 := by omega
    simp only [List.flatMap_cons, ih (fun x hx => h x (by simp [hx])), regBytes, beBytes_two, e]

/-- `fromCoils(to_coils())` carries the byte string (zero-padded to even length) and the orders asked for -/
theorem fromCoils_toCoils (bo wo : Endian) (payload : List Bytes) (h : Bytes.WF (toString payload)) :
    ∃ coils, toCoils bo false payload = .ok coils ∧
      Decoder.fromCoils coils bo wo =
        ⟨toString payload ++ List.replicate ((toString payload).length % 2) 0, 0, bo, wo⟩ := by
  refine ⟨(pairRegs (toString payload)).flatMap bin16, ?_, ?_⟩
  · simp only [toCoils, toRegisters_eq, bind, Except.bind, pure, Except.pure]
  · have hlt := pairRegs_lt _ h
    rw [fromCoils_bin16 _ hlt, flatMap_regBytes_eq _ hlt, pairRegs_bytes _ h]


/-! ### out-of-range numbers are refused -/

theorem mapE_error {α β : Type} (f : α → PyM β) (e : PyErr) : ∀ (l : List α),
    (∀ a ∈ l, (∃ b, f a = .ok b) ∨ f a = .error e) → (∃ a ∈ l, f a = .error e) →
    mapE f l = .error e
  | [], _, h => by obtain ⟨a, ha, _⟩ := h; simp at ha
  | a :: as, hall, hex => by
    rcases hall a (by simp) with ⟨b, hb⟩ | herr
    · have hex' : ∃ x ∈ as, f x = .error e := by
        obtain ⟨x, hx, hfx⟩ := hex
        rcases List.mem_cons.1 hx with rfl | hx'
        · rw [hb] at hfx; cases hfx
        · exact ⟨x, hx', hfx⟩
      have ih := mapE_error f e as (fun x hx => hall x (by simp [hx])) hex'
      simp only [mapE, hb, ih]
    · simp only [mapE, herr]

theorem addValue_out_of_range (bo wo : Endian) (t : NumTy) (n : Nat) (h : 256 ^ t.size ≤ n) :
    addValue bo wo (.num t n) = .error .struct := by
  have hn : ¬ n < 256 ^ t.size := by omega
  cases hv : t.viaWords
  · simp only [addValue, hv, structPack, hn, Bool.false_eq_true, if_false]
  · have hs := (size_of_viaWords t hv).1
    have hn' : ¬ n < 256 ^ (2 * (t.size / 2)) := by rw [← hs]; exact hn
    simp only [addValue, hv, if_true, packWords, structPack, hn', if_false, bind, Except.bind]

theorem addValue_ok_or_struct (bo wo : Endian) (v : Value) :
    (∃ b, addValue bo wo v = .ok b) ∨ addValue bo wo v = .error .struct := by
  cases v with
  | num t n =>
    by_cases h : n < 256 ^ t.size
    · exact .inl ⟨_, addValue_num bo wo t n h⟩
    · exact .inr (addValue_out_of_range bo wo t n (by omega))
  | bits l => exact .inl ⟨_, rfl⟩
  | str s => exact .inl ⟨_, rfl⟩

end Pymodbus.Payload
