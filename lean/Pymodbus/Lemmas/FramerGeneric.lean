/- Generic theory of the receive loop `Framer.run`: streams of valid frames are delivered independently of
   the chunking (used by C06, C09). -/
import Pymodbus.Model.Framer
namespace Pymodbus.Framer
variable {μ : Type}

/-- a frame of a valid stream together with what its receipt must deliver -/
structure VFrame (μ : Type) where
  bytes : Bytes
  pdu : Bytes
  uid : Nat
  tid : Nat
  pid : Nat
  msg : μ

/-- what the C06 proof needs from a framer for one valid frame: it is recognised whatever follows it, and
    every proper prefix of it makes the receiver wait -/
structure Good (step : Bytes → Step) (decode : Bytes → PyM (Option μ)) (units : List Nat) (single : Bool)
    (f : VFrame μ) : Prop where
  pos : 0 < f.bytes.length
  whole : ∀ rest, step (f.bytes ++ rest) = .frame f.bytes.length f.pdu f.uid f.tid f.pid
  partial_ : ∀ k, k < f.bytes.length → step (f.bytes.take k) = .wait
  dec : decode f.pdu = .ok (some f.msg)
  unit : validUnit units single f.uid = true

def stream (fs : List (VFrame μ)) : Bytes := (fs.map (·.bytes)).flatten

def delivered : List (VFrame μ) → Nat → List (Ev μ)
  | [], _ => []
  | f :: fs, k => if f.bytes.length ≤ k then .deliver f.msg f.uid f.tid f.pid :: delivered fs (k - f.bytes.length) else []

def leftover : List (VFrame μ) → Nat → Bytes
  | [], _ => []
  | f :: fs, k => if f.bytes.length ≤ k then leftover fs (k - f.bytes.length) else f.bytes.take k

theorem stream_cons (f : VFrame μ) (fs : List (VFrame μ)) : stream (f :: fs) = f.bytes ++ stream fs := by
  simp [stream]

/-- Lemma A: the receiver run on the first `k` bytes of a valid stream -/
theorem run_prefix (step : Bytes → Step) (decode : Bytes → PyM (Option μ)) (units : List Nat) (single : Bool)
    (hnil : step [] = .wait)
    (fs : List (VFrame μ)) (hg : ∀ f ∈ fs, Good step decode units single f) (k fuel : Nat)
    (hk : k ≤ (stream fs).length) (hfuel : k < fuel) :
    run step decode units single fuel ((stream fs).take k) = (delivered fs k, leftover fs k) := by
  induction fs generalizing k fuel with
  | nil =>
    cases fuel with
    | zero => omega
    | succ fuel =>
      simp only [stream, List.map_nil, List.flatten_nil, List.take_nil, delivered, leftover, run, hnil]
  | cons f fs ih =>
    cases fuel with
    | zero => omega
    | succ fuel =>
      have hf := hg f (by simp)
      have hrest : ∀ g ∈ fs, Good step decode units single g := fun g hgm => hg g (by simp [hgm])
      rw [stream_cons] at hk ⊢
      by_cases hle : f.bytes.length ≤ k
      · have ht : (f.bytes ++ stream fs).take k = f.bytes ++ (stream fs).take (k - f.bytes.length) := by
          rw [List.take_append, List.take_of_length_le hle]
        rw [ht]
        simp only [run, hf.whole, hf.unit, if_true, hf.dec, delivered, leftover, hle]
        have hd : (f.bytes ++ (stream fs).take (k - f.bytes.length)).drop f.bytes.length =
            (stream fs).take (k - f.bytes.length) := by simp
        have hpos := hf.pos
        rw [hd, ih hrest (k - f.bytes.length) fuel (by simp at hk; omega) (by omega)]
      · have hlt : k < f.bytes.length := by omega
        have ht : (f.bytes ++ stream fs).take k = f.bytes.take k := by
          rw [List.take_append]
          have : k - f.bytes.length = 0 := by omega
          simp [this]
        rw [ht]
        simp only [run, hf.partial_ k hlt, delivered, leftover, hle, if_false]

/-- Lemma B: continuing from the leftover of the first `k` bytes with the bytes `k .. k'` -/
theorem run_continue (step : Bytes → Step) (decode : Bytes → PyM (Option μ)) (units : List Nat) (single : Bool)
    (hnil : step [] = .wait)
    (fs : List (VFrame μ)) (hg : ∀ f ∈ fs, Good step decode units single f) (k k' fuel : Nat)
    (hkk : k ≤ k') (hk : k' ≤ (stream fs).length) (hfuel : (leftover fs k).length + (k' - k) < fuel) :
    ∃ evs, run step decode units single fuel (leftover fs k ++ ((stream fs).take k').drop k) = (evs, leftover fs k') ∧
      delivered fs k ++ evs = delivered fs k' := by
  induction fs generalizing k k' fuel with
  | nil =>
    cases fuel with
    | zero => omega
    | succ fuel =>
      refine ⟨[], ?_, rfl⟩
      simp [stream, leftover, run, hnil]
  | cons f fs ih =>
    have hrest : ∀ g ∈ fs, Good step decode units single g := fun g hgm => hg g (by simp [hgm])
    by_cases hle : f.bytes.length ≤ k
    · -- the first frame was already consumed: shift everything by its length
      have hle' : f.bytes.length ≤ k' := by omega
      rw [stream_cons] at hk ⊢
      have hshift : ((f.bytes ++ stream fs).take k').drop k =
          ((stream fs).take (k' - f.bytes.length)).drop (k - f.bytes.length) := by
        rw [List.take_append, List.take_of_length_le hle', List.drop_append]
        rw [List.drop_of_length_le hle, List.nil_append]
      simp only [leftover, delivered, hle, hle', if_true]
      rw [hshift]
      simp only [leftover, hle, if_true] at hfuel
      obtain ⟨evs, h1, h2⟩ := ih hrest (k - f.bytes.length) (k' - f.bytes.length) fuel (by omega)
        (by simp at hk; omega) (by omega)
      exact ⟨evs, h1, by simp [h2]⟩
    · -- still inside the first frame: the buffer is a prefix of the whole stream
      have hlt : k < f.bytes.length := by omega
      have hpre : leftover (f :: fs) k ++ ((stream (f :: fs)).take k').drop k = (stream (f :: fs)).take k' := by
        simp only [leftover, hle, if_false]
        rw [stream_cons]
        have : f.bytes.take k = ((f.bytes ++ stream fs).take k').take k := by
          rw [List.take_take, Nat.min_eq_left hkk, List.take_append]
          have : k - f.bytes.length = 0 := by omega
          simp [this]
        rw [this, List.take_append_drop]
      have hfuel' : k' < fuel := by
        simp only [leftover, hle, if_false, List.length_take] at hfuel
        omega
      rw [hpre, run_prefix step decode units single hnil (f :: fs) hg k' fuel hk hfuel']
      refine ⟨delivered (f :: fs) k', rfl, ?_⟩
      simp [delivered, hle]

/-- a receiver fed a sequence of chunks -/
def feedAll (step : Bytes → Step) (decode : Bytes → PyM (Option μ)) (units : List Nat) (single : Bool) :
    Bytes → List Bytes → List (List (Ev μ)) × Bytes
  | buf, [] => ([], buf)
  | buf, c :: cs =>
    let r := feed step decode units single buf c
    let r' := feedAll step decode units single r.2 cs
    (r.1 :: r'.1, r'.2)

theorem feedAll_valid (step : Bytes → Step) (decode : Bytes → PyM (Option μ)) (units : List Nat) (single : Bool)
    (hnil : step [] = .wait) (fs : List (VFrame μ)) (hg : ∀ f ∈ fs, Good step decode units single f)
    (chunks : List Bytes) (k : Nat) (hk : k + chunks.flatten.length ≤ (stream fs).length)
    (hc : chunks.flatten = ((stream fs).drop k).take chunks.flatten.length) :
    delivered fs k ++ (feedAll step decode units single (leftover fs k) chunks).1.flatten =
        delivered fs (k + chunks.flatten.length) ∧
    (feedAll step decode units single (leftover fs k) chunks).2 = leftover fs (k + chunks.flatten.length) := by
  induction chunks generalizing k with
  | nil => simp [feedAll]
  | cons c cs ih =>
    simp only [List.flatten_cons, List.length_append] at hk hc ⊢
    have hcc : c = ((stream fs).take (k + c.length)).drop k := by
      rw [List.drop_take, Nat.add_sub_cancel_left]
      have h1 : ((stream fs).drop k).take c.length =
          (((stream fs).drop k).take (c.length + cs.flatten.length)).take c.length := by
        rw [List.take_take, Nat.min_eq_left (Nat.le_add_right _ _)]
      rw [h1, ← hc, List.take_left]
    obtain ⟨evs, h1, h2⟩ := run_continue step decode units single hnil fs hg k (k + c.length)
      ((leftover fs k ++ c).length + 1) (by omega) (by omega) (by simp)
    rw [← hcc] at h1
    have hfeed : feed step decode units single (leftover fs k) c = (evs, leftover fs (k + c.length)) := h1
    have hcs : cs.flatten = ((stream fs).drop (k + c.length)).take cs.flatten.length := by
      have h3 : cs.flatten = (((stream fs).drop k).take (c.length + cs.flatten.length)).drop c.length := by
        rw [← hc, List.drop_left]
      refine h3.trans ?_
      rw [List.drop_take, List.drop_drop, Nat.add_sub_cancel_left]
    obtain ⟨i1, i2⟩ := ih (k + c.length) (by omega) hcs
    simp only [feedAll, hfeed, List.flatten_cons]
    constructor
    · rw [← List.append_assoc, h2, i1]; congr 1; omega
    · rw [i2]; congr 1; omega

theorem delivered_all (fs : List (VFrame μ)) (hpos : ∀ f ∈ fs, 0 < f.bytes.length) :
    delivered fs (stream fs).length = fs.map (fun f => Ev.deliver f.msg f.uid f.tid f.pid) ∧
    leftover fs (stream fs).length = [] := by
  induction fs with
  | nil => simp [delivered, leftover]
  | cons f fs ih =>
    have hrest : ∀ g ∈ fs, 0 < g.bytes.length := fun g hg => hpos g (by simp [hg])
    obtain ⟨i1, i2⟩ := ih hrest
    simp only [stream_cons, List.length_append, delivered, leftover, Nat.le_add_right, if_true,
      Nat.add_sub_cancel_left, List.map_cons, i1, i2, and_self]

/-- **Chunking independence for streams of valid frames** (generic in the framer): however the byte stream of
    the frames `fs` is cut into chunks (empty chunks included), a fresh receiver delivers exactly the
    messages of `fs`, in order, raises nothing, and ends with an empty buffer. -/
theorem chunking_independent (step : Bytes → Step) (decode : Bytes → PyM (Option μ)) (units : List Nat) (single : Bool)
    (hnil : step [] = .wait) (fs : List (VFrame μ)) (hg : ∀ f ∈ fs, Good step decode units single f)
    (chunks : List Bytes) (hc : chunks.flatten = stream fs) :
    (feedAll step decode units single [] chunks).1.flatten = fs.map (fun f => Ev.deliver f.msg f.uid f.tid f.pid) ∧
    (feedAll step decode units single [] chunks).2 = [] := by
  have h0 : leftover fs 0 = [] := by
    cases fs with
    | nil => rfl
    | cons f fs =>
      have := (hg f (by simp)).pos
      simp only [leftover]
      rw [if_neg (by omega)]; rfl
  have hd0 : delivered fs 0 = [] := by
    cases fs with
    | nil => rfl
    | cons f fs =>
      have := (hg f (by simp)).pos
      simp only [delivered]
      rw [if_neg (by omega)]
  have := feedAll_valid step decode units single hnil fs hg chunks 0 (by simp [hc])
    (by rw [hc]; simp)
  rw [h0, hd0] at this
  obtain ⟨d1, d2⟩ := delivered_all fs (fun f hf => (hg f hf).pos)
  simp only [Nat.zero_add, List.nil_append, hc] at this
  exact ⟨by rw [this.1, d1], by rw [this.2, d2]⟩

/-- every delivery of the receive loop is justified by a `frame` decision on a suffix of the buffer, and
    what the loop leaves behind is a suffix of the buffer -/
theorem run_sound (step : Bytes → Step) (decode : Bytes → PyM (Option μ)) (units : List Nat) (single : Bool)
    (fuel : Nat) (buf : Bytes) :
    (∃ j, (run step decode units single fuel buf).2 = buf.drop j) ∧
    ∀ m uid tid pid, Ev.deliver m uid tid pid ∈ (run step decode units single fuel buf).1 →
      ∃ j n pdu, step (buf.drop j) = .frame n pdu uid tid pid ∧ decode pdu = .ok (some m) ∧
        validUnit units single uid = true := by
  induction fuel generalizing buf with
  | zero => exact ⟨⟨0, by simp [run]⟩, by intro m uid tid pid h; simp [run] at h⟩
  | succ fuel ih =>
    simp only [run]
    cases hs : step buf with
    | wait => exact ⟨⟨0, by simp⟩, by intro m uid tid pid h; simp at h⟩
    | flush => exact ⟨⟨buf.length, by simp⟩, by intro m uid tid pid h; simp at h⟩
    | skip n =>
      obtain ⟨⟨j, hj⟩, hd⟩ := ih (buf.drop n)
      refine ⟨⟨n + j, by simp only []; rw [hj, List.drop_drop]⟩, ?_⟩
      intro m uid tid pid h
      obtain ⟨j', n', pdu, h1, h2, h3⟩ := hd m uid tid pid h
      exact ⟨n + j', n', pdu, by rw [← List.drop_drop]; exact h1, h2, h3⟩
    | frame n pdu uid0 tid0 pid0 =>
      simp only []
      by_cases hv : validUnit units single uid0 = true
      · rw [if_pos hv]
        cases hdc : decode pdu with
        | error e => exact ⟨⟨n, by simp⟩, by intro m uid tid pid h; simp at h⟩
        | ok o =>
          cases o with
          | none => exact ⟨⟨n, by simp⟩, by intro m uid tid pid h; simp at h⟩
          | some m0 =>
            obtain ⟨⟨j, hj⟩, hd⟩ := ih (buf.drop n)
            refine ⟨⟨n + j, by simp only []; rw [hj, List.drop_drop]⟩, ?_⟩
            intro m uid tid pid h
            simp only [List.mem_cons] at h
            rcases h with h | h
            · injection h with e1 e2 e3 e4
              subst e1 e2 e3 e4
              exact ⟨0, n, pdu, by simpa using hs, hdc, hv⟩
            · obtain ⟨j', n', pdu', h1, h2, h3⟩ := hd m uid tid pid h
              exact ⟨n + j', n', pdu', by rw [← List.drop_drop]; exact h1, h2, h3⟩
      · rw [if_neg hv]
        obtain ⟨⟨j, hj⟩, hd⟩ := ih (buf.drop n)
        refine ⟨⟨n + j, by rw [hj, List.drop_drop]⟩, ?_⟩
        intro m uid tid pid h
        obtain ⟨j', n', pdu', h1, h2, h3⟩ := hd m uid tid pid h
        exact ⟨n + j', n', pdu', by rw [← List.drop_drop]; exact h1, h2, h3⟩

/-- over a whole chunk history: the buffer is always a suffix of the bytes received so far, and every delivery
    is justified by a `frame` decision on a suffix of the bytes received up to that call -/
theorem feedAll_sound (step : Bytes → Step) (decode : Bytes → PyM (Option μ)) (units : List Nat) (single : Bool)
    (chunks : List Bytes) (buf pre : Bytes) (hbuf : ∃ j, buf = pre.drop j) :
    (∃ j, (feedAll step decode units single buf chunks).2 = (pre ++ chunks.flatten).drop j) ∧
    ∀ m uid tid pid, Ev.deliver m uid tid pid ∈ (feedAll step decode units single buf chunks).1.flatten →
      ∃ (k : Nat) (j n : Nat) (pdu : Bytes), k ≤ chunks.length ∧
        step ((pre ++ (chunks.take k).flatten).drop j) = .frame n pdu uid tid pid ∧
        decode pdu = .ok (some m) ∧ validUnit units single uid = true := by
  induction chunks generalizing buf pre with
  | nil =>
    obtain ⟨j, hj⟩ := hbuf
    exact ⟨⟨j, by simp [feedAll, hj]⟩, by intro m uid tid pid h; simp [feedAll] at h⟩
  | cons c cs ih =>
    obtain ⟨j0, hj0⟩ := hbuf
    have hsuf : buf ++ c = (pre ++ c).drop j0 ∨ pre.length < j0 := by
      by_cases h : j0 ≤ pre.length
      · left; rw [hj0, List.drop_append_of_le_length h]
      · right; omega
    obtain ⟨⟨j1, hj1⟩, hd1⟩ := run_sound step decode units single ((buf ++ c).length + 1) (buf ++ c)
    -- the buffer after this call is a suffix of pre ++ c
    have hnext : ∃ j, (feed step decode units single buf c).2 = (pre ++ c).drop j := by
      rcases hsuf with h | h
      · exact ⟨j0 + j1, by simp only [feed]; rw [hj1, h, List.drop_drop]⟩
      · have hb : buf = [] := by rw [hj0]; exact List.drop_of_length_le (by omega)
        refine ⟨pre.length + j1, ?_⟩
        simp only [feed]; rw [hj1, hb, List.nil_append, ← List.drop_drop, List.drop_left]
    obtain ⟨⟨j2, hj2⟩, hd2⟩ := ih (feed step decode units single buf c).2 (pre ++ c) hnext
    constructor
    · refine ⟨j2, ?_⟩
      simp only [feedAll, List.flatten_cons]
      rw [hj2, List.append_assoc]
    · intro m uid tid pid h
      simp only [feedAll, List.flatten_cons, List.mem_append] at h
      rcases h with h | h
      · obtain ⟨j', n', pdu, h1, h2, h3⟩ := hd1 m uid tid pid h
        rcases hsuf with hs | hs
        · exact ⟨1, j0 + j', n', pdu, by simp, by
            simp only [List.take_succ_cons, List.take_zero, List.flatten_cons, List.flatten_nil, List.append_nil]
            rw [← List.drop_drop, ← hs]; exact h1, h2, h3⟩
        · have hb : buf = [] := by rw [hj0]; exact List.drop_of_length_le (by omega)
          refine ⟨1, pre.length + j', n', pdu, by simp, ?_, h2, h3⟩
          simp only [List.take_succ_cons, List.take_zero, List.flatten_cons, List.flatten_nil, List.append_nil]
          rw [← List.drop_drop, List.drop_left]
          rw [hb, List.nil_append] at h1; exact h1
      · obtain ⟨k, j', n', pdu, hk, h1, h2, h3⟩ := hd2 m uid tid pid h
        refine ⟨k + 1, j', n', pdu, by simp; omega, ?_, h2, h3⟩
        simp only [List.take_succ_cons, List.flatten_cons]
        rw [← List.append_assoc]; exact h1


end Pymodbus.Framer
