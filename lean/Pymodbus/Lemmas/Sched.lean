/- C15 helper lemmas, general part (client connected or not when the threads start): the shapes a transaction goes
   through, the invariant "lock holder = the only thread strictly inside a transaction; the wire holds whole frames;
   one result per finished request", its preservation by every step of every thread. -/
import Pymodbus.Lemmas.SchedBytes
namespace Pymodbus.Sched
open Pymodbus Pymodbus.Framer

/-! ### the shape of a transaction under the whole-transaction lock -/

def tailOps (k : Nat) : List Op := List.replicate k Op.wait ++ [.recv1, .recv2, .process, .release]

theorem tailOps_zero : tailOps 0 = [.recv1, .recv2, .process, .release] := rfl
theorem tailOps_succ (k : Nat) : tailOps (k + 1) = .wait :: tailOps k := by
  simp [tailOps, List.replicate_succ]
theorem tailOps_length (k : Nat) : (tailOps k).length = k + 4 := by simp [tailOps]

theorem txnOps_whole (r : Req) :
    txnOps .whole r = .acquire :: .tid :: .connect :: .send1 :: .send2 :: tailOps r.lat := rfl

theorem tailOps_two (k : Nat) : ∃ a b l, tailOps k = a :: b :: l := by
  cases k with
  | zero => exact ⟨_, _, _, rfl⟩
  | succ k =>
    cases k with
    | zero => exact ⟨_, _, _, rfl⟩
    | succ k => exact ⟨_, _, _, by rw [tailOps_succ, tailOps_succ]⟩

theorem filter_release_tail (k : Nat) : (tailOps k).filter (· == .release) = [.release] := by
  induction k with
  | zero => rfl
  | succ k ih => rw [tailOps_succ, List.filter_cons_of_neg (by decide)]; exact ih

/-- the request in progress still owes a result -/
def curPending (th : Thread) : List Req :=
  if th.ops = [] ∨ th.ops = [.release] then [] else [th.cur]

theorem curPending_long (th : Thread) (h : 2 ≤ th.ops.length) : curPending th = [th.cur] := by
  unfold curPending
  rw [if_neg]
  intro hc
  cases hc with
  | inl hc => rw [hc] at h; simp at h
  | inr hc => rw [hc] at h; simp at h

theorem curPending_congr {th th' : Thread} (hc : th'.cur = th.cur) (h : 2 ≤ th.ops.length)
    (h' : 2 ≤ th'.ops.length) : curPending th' = curPending th := by
  rw [curPending_long _ h, curPending_long _ h', hc]

/-- one result per request that is over, none for the others:
    results ++ request in progress ++ requests not started = the requests the thread was given -/
def Conserved (reqs : Nat → List Req) (t : Nat) (th : Thread) : Prop :=
  th.results.map (·.1) ++ curPending th ++ th.todo = reqs t

theorem Conserved.congr {reqs : Nat → List Req} {t : Nat} {th th' : Thread} (h : Conserved reqs t th)
    (h1 : th'.results = th.results) (h2 : th'.todo = th.todo) (h3 : curPending th' = curPending th) :
    Conserved reqs t th' := by
  unfold Conserved at *; rw [h1, h2, h3]; exact h

/-- a transaction ends (normally or by an exception): its result is recorded, only `release` is left -/
theorem Conserved.finish {reqs : Nat → List Req} {t : Nat} {th th' : Thread} (h : Conserved reqs t th)
    (hl : 2 ≤ th.ops.length) (x : Nat × Result) (h1 : th'.results = th.results ++ [(th.cur, x)])
    (h2 : th'.todo = th.todo) (h3 : th'.ops = [.release]) : Conserved reqs t th' := by
  unfold Conserved at *
  rw [curPending_long _ hl] at h
  rw [h1, h2, ← h]
  simp [curPending, h3]

/-- where the lock holder is inside its transaction, and what the wire looks like there -/
inductive HShape (wire : List Chunk) (t : Nat) (th : Thread) : Prop where
  | tid (k : Nat) (h : th.ops = .tid :: .connect :: .send1 :: .send2 :: tailOps k) (hw : pairs wire = true)
  | connect (k : Nat) (h : th.ops = .connect :: .send1 :: .send2 :: tailOps k) (hw : pairs wire = true)
  | opening (k : Nat) (h : th.ops = .open :: .send1 :: .send2 :: tailOps k) (hw : pairs wire = true)
  | send1 (k : Nat) (h : th.ops = .send1 :: .send2 :: tailOps k) (hw : pairs wire = true)
  | send2 (k : Nat) (h : th.ops = .send2 :: tailOps k)
      (hw : ∃ w b, pairs w = true ∧ wire = w ++ [⟨t, true, th.sconn, b⟩])
  | waiting (k : Nat) (h : th.ops = tailOps k) (hw : pairs wire = true)
  | recv2 (h : th.ops = [.recv2, .process, .release]) (hw : pairs wire = true)
  | process (h : th.ops = [.process, .release]) (hw : pairs wire = true)
  | release (h : th.ops = [.release]) (hw : pairs wire = true)

/-- not inside a transaction: between transactions, opening the connection, or about to take the lock -/
def OutsideG (th : Thread) : Prop :=
  th.ops = [] ∨ ∃ k, (th.ops = .acquire :: .tid :: .connect :: .send1 :: .send2 :: tailOps k ∨
    th.ops = .open :: .acquire :: .tid :: .connect :: .send1 :: .send2 :: tailOps k)

structure InvG (reqs : Nat → List Req) (s : State) : Prop where
  free : s.locks 0 = none → pairs s.wire = true ∧ ∀ t, OutsideG (s.threads t)
  held : ∀ h d, s.locks 0 = some (h, d) →
    d = 1 ∧ HShape s.wire h (s.threads h) ∧ ∀ t, t ≠ h → OutsideG (s.threads t)
  cons : ∀ t, Conserved reqs t (s.threads t)

theorem HShape.head {wire : List Chunk} {t : Nat} {th : Thread} (h : HShape wire t th) :
    ∃ op l, th.ops = op :: l ∧ op ≠ .acquire ∧ (op = .open → l ≠ [] ∧ ∀ l', l ≠ .acquire :: l') := by
  cases h with
  | waiting k h =>
    cases k with
    | zero => exact ⟨_, _, h, by simp, by simp⟩
    | succ k => exact ⟨_, _, by rw [h, tailOps_succ], by simp, by simp⟩
  | tid k h => exact ⟨_, _, h, by simp, by simp⟩
  | connect k h => exact ⟨_, _, h, by simp, by simp⟩
  | opening k h => exact ⟨_, _, h, by simp, by simp⟩
  | send1 k h => exact ⟨_, _, h, by simp, by simp⟩
  | send2 k h => exact ⟨_, _, h, by simp, by simp⟩
  | recv2 h => exact ⟨_, _, h, by simp, by simp⟩
  | process h => exact ⟨_, _, h, by simp, by simp⟩
  | release h => exact ⟨_, _, h, by simp, by simp⟩

theorem HShape.not_outside {wire : List Chunk} {t : Nat} {th : Thread} (h : HShape wire t th) :
    ¬ OutsideG th := by
  obtain ⟨op, l, ho, hne, hop⟩ := h.head
  intro hout
  cases hout with
  | inl h0 => rw [h0] at ho; cases ho
  | inr hk =>
    obtain ⟨k, hk⟩ := hk
    cases hk with
    | inl hk => rw [hk] at ho; cases ho; exact hne rfl
    | inr hk =>
      rw [hk] at ho; cases ho
      exact (hop rfl).2 _ rfl

theorem HShape.wire_contiguous {wire : List Chunk} {t : Nat} {th : Thread} (h : HShape wire t th) :
    Spec.contiguous wire = true := by
  cases h with
  | send2 k h hw =>
    obtain ⟨w, b, hw1, hw2⟩ := hw
    rw [hw2]; exact pairs_snoc1 w _ hw1 rfl
  | tid k h hw => exact pairs_contiguous _ hw
  | connect k h hw => exact pairs_contiguous _ hw
  | opening k h hw => exact pairs_contiguous _ hw
  | send1 k h hw => exact pairs_contiguous _ hw
  | waiting k h hw => exact pairs_contiguous _ hw
  | recv2 h hw => exact pairs_contiguous _ hw
  | process h hw => exact pairs_contiguous _ hw
  | release h hw => exact pairs_contiguous _ hw

variable {reqs : Nat → List Req}

theorem stepOp_threads_other (scope : LockScope) (s : State) (t : Nat) (th : Thread) (ops : List Op) (op : Op)
    (u : Nat) (h : u ≠ t) : (stepOp scope s t th ops op).threads u = s.threads u := by
  cases op <;> simp only [stepOp, raiseOut] <;> (try split) <;> (try split) <;> (try split) <;> simp [upd, h]

theorem step_threads_other (scope : LockScope) (s : State) (t u : Nat) (h : u ≠ t) :
    (step scope s t).threads u = s.threads u := by
  unfold step
  split
  · split
    · rfl
    · simp [stepBegin, upd, h]
  · exact stepOp_threads_other _ _ _ _ _ _ _ h

/-- the lock holder moves inside its transaction (the lock does not change hands) -/
theorem invG_holder_step {s s' : State} {h : Nat} (hi : InvG reqs s)
    (hl : s.locks 0 = some (h, 1)) (hoth : ∀ u, u ≠ h → s'.threads u = s.threads u) (hlocks : s'.locks = s.locks)
    (hst : HShape s'.wire h (s'.threads h)) (hc : Conserved reqs h (s'.threads h)) : InvG reqs s' := by
  obtain ⟨_, _, hout⟩ := hi.held h 1 hl
  refine ⟨?_, ?_, ?_⟩
  · intro hf; rw [hlocks, hl] at hf; cases hf
  · intro h' d hd
    rw [hlocks, hl] at hd
    cases hd
    exact ⟨rfl, hst, fun t ht => by rw [hoth t ht]; exact hout t ht⟩
  · intro t
    by_cases ht : t = h
    · subst ht; exact hc
    · rw [hoth t ht]; exact hi.cons t

/-- a thread that does not hold the lock moves without touching the lock or the wire -/
theorem invG_outsider_step {s s' : State} {t : Nat} (hi : InvG reqs s)
    (hnot : ∀ h d, s.locks 0 = some (h, d) → t ≠ h)
    (hoth : ∀ u, u ≠ t → s'.threads u = s.threads u) (hlocks : s'.locks = s.locks) (hw : s'.wire = s.wire)
    (hout : OutsideG (s'.threads t)) (hc : Conserved reqs t (s'.threads t)) : InvG reqs s' := by
  refine ⟨?_, ?_, ?_⟩
  · intro hf
    rw [hlocks] at hf
    obtain ⟨q, ho⟩ := hi.free hf
    refine ⟨by rw [hw]; exact q, fun u => ?_⟩
    by_cases hu : u = t
    · subst hu; exact hout
    · rw [hoth u hu]; exact ho u
  · intro h d hl
    rw [hlocks] at hl
    obtain ⟨hd, hst, ho⟩ := hi.held h d hl
    have hth := hnot h d hl
    refine ⟨hd, ?_, ?_⟩
    · rw [hoth h (Ne.symm hth), hw]; exact hst
    · intro u hu
      by_cases hut : u = t
      · subst hut; exact hout
      · rw [hoth u hut]; exact ho u hu
  · intro u
    by_cases hu : u = t
    · subst hu; exact hc
    · rw [hoth u hu]; exact hi.cons u

/-- a thread takes the free lock -/
theorem invG_acquire {s s' : State} {t : Nat} (hi : InvG reqs s) (hf : s.locks 0 = none)
    (hoth : ∀ u, u ≠ t → s'.threads u = s.threads u) (hlocks : s'.locks 0 = some (t, 1))
    (hst : HShape s'.wire t (s'.threads t)) (hc : Conserved reqs t (s'.threads t)) : InvG reqs s' := by
  obtain ⟨_, ho⟩ := hi.free hf
  refine ⟨?_, ?_, ?_⟩
  · intro h; rw [hlocks] at h; cases h
  · intro h d hl
    rw [hlocks] at hl
    cases hl
    exact ⟨rfl, hst, fun u hu => by rw [hoth u hu]; exact ho u⟩
  · intro u
    by_cases hu : u = t
    · subst hu; exact hc
    · rw [hoth u hu]; exact hi.cons u

/-- the holder gives the lock back -/
theorem invG_release {s s' : State} {h : Nat} (hi : InvG reqs s) (hl : s.locks 0 = some (h, 1))
    (hoth : ∀ u, u ≠ h → s'.threads u = s.threads u) (hlocks : s'.locks 0 = none)
    (q : pairs s'.wire = true) (hout : OutsideG (s'.threads h)) (hc : Conserved reqs h (s'.threads h)) :
    InvG reqs s' := by
  obtain ⟨_, _, ho⟩ := hi.held h 1 hl
  refine ⟨?_, ?_, ?_⟩
  · intro _
    refine ⟨q, fun u => ?_⟩
    by_cases hu : u = h
    · subst hu; exact hout
    · rw [hoth u hu]; exact ho u hu
  · intro h' d hl'; rw [hlocks] at hl'; cases hl'
  · intro u
    by_cases hu : u = h
    · subst hu; exact hc
    · rw [hoth u hu]; exact hi.cons u

theorem len2_cons (a : Op) (k : Nat) : 2 ≤ (a :: tailOps k).length := by simp [tailOps_length]
theorem len2_tail (k : Nat) : 2 ≤ (tailOps k).length := by simp [tailOps_length]

theorem invG_holder_op {s : State} {t : Nat} {op : Op} {ops : List Op} (hi : InvG reqs s)
    (hl : s.locks 0 = some (t, 1)) (hst : HShape s.wire t (s.threads t))
    (hops : (s.threads t).ops = op :: ops) : InvG reqs (stepOp .whole s t (s.threads t) ops op) := by
  have hc := hi.cons t
  have hoth := fun u (hu : u ≠ t) => stepOp_threads_other .whole s t (s.threads t) ops op u hu
  cases hst with
  | tid k h hw =>
    rw [h] at hops; cases hops
    refine invG_holder_step hi hl hoth rfl (HShape.connect k ?_ hw) ?_
    · simp [stepOp, upd_same]
    · exact hc.congr (by simp [stepOp, upd_same]) (by simp [stepOp, upd_same])
        (curPending_congr (by simp [stepOp, upd_same]) (by rw [h]; simp) (by simp [stepOp, upd_same]))
  | connect k h hw =>
    rw [h] at hops; cases hops
    cases hs : s.sock with
    | some c =>
      refine invG_holder_step hi hl hoth (by simp [stepOp, hs]) (HShape.send1 k ?_ ?_) ?_
      · simp [stepOp, hs, upd_same]
      · simpa [stepOp, hs] using hw
      · exact hc.congr (by simp [stepOp, hs, upd_same]) (by simp [stepOp, hs, upd_same])
          (curPending_congr (by simp [stepOp, hs, upd_same]) (by rw [h]; simp) (by simp [stepOp, hs, upd_same]))
    | none =>
      refine invG_holder_step hi hl hoth (by simp [stepOp, hs]) (HShape.opening k ?_ ?_) ?_
      · simp [stepOp, hs, upd_same]
      · simpa [stepOp, hs] using hw
      · exact hc.congr (by simp [stepOp, hs, upd_same]) (by simp [stepOp, hs, upd_same])
          (curPending_congr (by simp [stepOp, hs, upd_same]) (by rw [h]; simp) (by simp [stepOp, hs, upd_same]))
  | opening k h hw =>
    rw [h] at hops; cases hops
    refine invG_holder_step hi hl hoth rfl (HShape.send1 k ?_ hw) ?_
    · simp [stepOp, upd_same]
    · exact hc.congr (by simp [stepOp, upd_same]) (by simp [stepOp, upd_same])
        (curPending_congr (by simp [stepOp, upd_same]) (by rw [h]; simp) (by simp [stepOp, upd_same]))
  | send1 k h hw =>
    rw [h] at hops; cases hops
    refine invG_holder_step hi hl hoth rfl (HShape.send2 k ?_ ⟨s.wire, (s.threads t).frame.take 7, hw, ?_⟩) ?_
    · simp [stepOp, upd_same]
    · simp [stepOp, upd_same]
    · exact hc.congr (by simp [stepOp, upd_same]) (by simp [stepOp, upd_same])
        (curPending_congr (by simp [stepOp, upd_same]) (by rw [h]; simp)
          (by simp only [stepOp, upd_same]; exact len2_cons _ k))
  | send2 k h hw =>
    rw [h] at hops; cases hops
    obtain ⟨w, b, hw1, hw2⟩ := hw
    have hpair : pairs (s.wire ++ [⟨t, false, (s.threads t).sconn, (s.threads t).frame.drop 7⟩]) = true := by
      rw [hw2, List.append_assoc]
      exact pairs_snoc2 w _ _ hw1 rfl rfl rfl rfl
    cases hs : s.sock with
    | some c =>
      refine invG_holder_step hi hl hoth (by simp [stepOp, hs]) (HShape.waiting k ?_ ?_) ?_
      · simp [stepOp, hs, upd_same]
      · simpa [stepOp, hs] using hpair
      · exact hc.congr (by simp [stepOp, hs, upd_same]) (by simp [stepOp, hs, upd_same])
          (curPending_congr (by simp [stepOp, hs, upd_same]) (by rw [h]; exact len2_cons _ k)
            (by simp only [stepOp, hs, upd_same]; exact len2_tail k))
    | none =>
      refine invG_holder_step hi hl hoth (by simp [stepOp, hs, raiseOut]) (HShape.release ?_ ?_) ?_
      · simp [stepOp, hs, raiseOut, upd_same, filter_release_tail]
      · simpa [stepOp, hs, raiseOut] using hpair
      · exact hc.finish (by rw [h]; exact len2_cons _ k) ((s.threads t).tidv, .raised .modbusExc)
          (by simp [stepOp, hs, raiseOut, upd_same]) (by simp [stepOp, hs, raiseOut, upd_same])
          (by simp [stepOp, hs, raiseOut, upd_same, filter_release_tail])
  | waiting k h hw =>
    cases k with
    | succ k =>
      rw [h, tailOps_succ] at hops; cases hops
      refine invG_holder_step hi hl hoth rfl (HShape.waiting k ?_ hw) ?_
      · simp [stepOp, upd_same]
      · exact hc.congr (by simp [stepOp, upd_same]) (by simp [stepOp, upd_same])
          (curPending_congr (by simp [stepOp, upd_same]) (by rw [h]; exact len2_tail _)
            (by simp only [stepOp, upd_same]; exact len2_tail k))
    | zero =>
      rw [h, tailOps_zero] at hops; cases hops
      have hlen : 2 ≤ (s.threads t).ops.length := by rw [h]; exact len2_tail 0
      cases hs : s.sock with
      | none =>
        refine invG_holder_step hi hl hoth (by simp [stepOp, hs, raiseOut]) (HShape.release ?_ ?_) ?_
        · simp [stepOp, hs, raiseOut, upd_same]
        · simpa [stepOp, hs, raiseOut] using hw
        · exact hc.finish hlen ((s.threads t).tidv, .raised .type)
            (by simp [stepOp, hs, raiseOut, upd_same]) (by simp [stepOp, hs, raiseOut, upd_same])
            (by simp [stepOp, hs, raiseOut, upd_same])
      | some c =>
        cases hf : (s.threads t).full with
        | true =>
          refine invG_holder_step hi hl hoth (by simp [stepOp, hs, hf]) (HShape.process ?_ ?_) ?_
          · simp [stepOp, hs, hf, upd_same]
          · simpa [stepOp, hs, hf] using hw
          · exact hc.congr (by simp [stepOp, hs, hf, upd_same]) (by simp [stepOp, hs, hf, upd_same])
              (curPending_congr (by simp [stepOp, hs, hf, upd_same]) hlen (by simp [stepOp, hs, hf, upd_same]))
        | false =>
          by_cases h8 : min 8 (s.stream c).length = 8
          · refine invG_holder_step hi hl hoth (by simp [stepOp, hs, hf, h8]) (HShape.recv2 ?_ ?_) ?_
            · simp [stepOp, hs, hf, h8, upd_same]
            · simpa [stepOp, hs, hf, h8] using hw
            · exact hc.congr (by simp [stepOp, hs, hf, h8, upd_same]) (by simp [stepOp, hs, hf, h8, upd_same])
                (curPending_congr (by simp [stepOp, hs, hf, h8, upd_same]) hlen
                  (by simp [stepOp, hs, hf, h8, upd_same]))
          · refine invG_holder_step hi hl hoth (by simp [stepOp, hs, hf, h8]) (HShape.process ?_ ?_) ?_
            · simp [stepOp, hs, hf, h8, upd_same]
            · simpa [stepOp, hs, hf, h8] using hw
            · exact hc.congr (by simp [stepOp, hs, hf, h8, upd_same]) (by simp [stepOp, hs, hf, h8, upd_same])
                (curPending_congr (by simp [stepOp, hs, hf, h8, upd_same]) hlen
                  (by simp [stepOp, hs, hf, h8, upd_same]))
  | recv2 h hw =>
    rw [h] at hops; cases hops
    have hlen : 2 ≤ (s.threads t).ops.length := by rw [h]; simp
    cases hs : s.sock with
    | none =>
      refine invG_holder_step hi hl hoth (by simp [stepOp, hs, raiseOut]) (HShape.release ?_ ?_) ?_
      · simp [stepOp, hs, raiseOut, upd_same]
      · simpa [stepOp, hs, raiseOut] using hw
      · exact hc.finish hlen ((s.threads t).tidv, .raised .type)
          (by simp [stepOp, hs, raiseOut, upd_same]) (by simp [stepOp, hs, raiseOut, upd_same])
          (by simp [stepOp, hs, raiseOut, upd_same])
    | some c =>
      refine invG_holder_step hi hl hoth (by simp [stepOp, hs]) (HShape.process ?_ ?_) ?_
      · simp [stepOp, hs, upd_same]
      · simpa [stepOp, hs] using hw
      · exact hc.congr (by simp [stepOp, hs, upd_same]) (by simp [stepOp, hs, upd_same])
          (curPending_congr (by simp [stepOp, hs, upd_same]) hlen (by simp [stepOp, hs, upd_same]))
  | process h hw =>
    rw [h] at hops; cases hops
    have hlen : 2 ≤ (s.threads t).ops.length := by rw [h]; simp
    refine invG_holder_step hi hl hoth rfl (HShape.release ?_ hw) ?_
    · simp [stepOp, upd_same]
    · exact hc.finish hlen ((s.threads t).tidv, (processResp (s.threads t).cur.unit s.buf (s.threads t).resp).1)
        (by simp [stepOp, upd_same]) (by simp [stepOp, upd_same]) (by simp [stepOp, upd_same])
  | release h hw =>
    rw [h] at hops; cases hops
    refine invG_release hi hl hoth ?_ hw (Or.inl ?_) ?_
    · show lockRelease s.locks 0 t 0 = none
      simp [lockRelease, hl, upd]
    · simp [stepOp, lockKey, upd_same]
    · exact hc.congr (by simp [stepOp, lockKey, upd_same]) (by simp [stepOp, lockKey, upd_same])
        (by simp [curPending, h, stepOp, lockKey, upd_same])

theorem outsideG_or_holder {s : State} (hi : InvG reqs s) (t : Nat) :
    OutsideG (s.threads t) ∨ (s.locks 0 = some (t, 1) ∧ HShape s.wire t (s.threads t)) := by
  cases hl : s.locks 0 with
  | none => exact Or.inl ((hi.free hl).2 t)
  | some p =>
    obtain ⟨h, d⟩ := p
    obtain ⟨hd, hst, ho⟩ := hi.held h d hl
    subst hd
    by_cases ht : t = h
    · subst ht; exact Or.inr ⟨rfl, hst⟩
    · exact Or.inl (ho t ht)

theorem not_holder_of_outsideG {s : State} {t : Nat} (hi : InvG reqs s) (ho : OutsideG (s.threads t)) :
    ∀ h d, s.locks 0 = some (h, d) → t ≠ h := by
  intro h d hl e
  subst e
  exact (hi.held _ _ hl).2.1.not_outside ho

/-- the general invariant is preserved by every step of every thread -/
theorem invG_step {s : State} (hi : InvG reqs s) (t : Nat) : InvG reqs (step .whole s t) := by
  unfold step
  cases hops : (s.threads t).ops with
  | nil =>
    cases htodo : (s.threads t).todo with
    | nil => exact hi
    | cons r rest =>
      have hout : OutsideG (s.threads t) := Or.inl hops
      have hc := hi.cons t
      refine invG_outsider_step hi (not_holder_of_outsideG hi hout)
        (s' := stepBegin .whole s t (s.threads t) r rest)
        (fun u hu => by simp [stepBegin, upd, hu]) rfl rfl ?_ ?_
      · right
        refine ⟨r.lat, ?_⟩
        cases hs : s.sock with
        | none => right; simp [stepBegin, upd_same, hs, txnOps_whole]
        | some c => left; simp [stepBegin, upd_same, hs, txnOps_whole]
      · unfold Conserved at hc ⊢
        rw [htodo] at hc
        rw [← hc]
        have hcp : curPending (s.threads t) = [] := by unfold curPending; exact if_pos (Or.inl hops)
        have hcp' : curPending ((stepBegin .whole s t (s.threads t) r rest).threads t) = [r] := by
          rw [curPending_long]
          · simp [stepBegin, upd_same]
          · cases hs : s.sock <;> simp [stepBegin, upd_same, hs, txnOps_whole]
        rw [hcp, hcp']
        simp [stepBegin, upd_same]
  | cons op ops =>
    have hoth := fun u (hu : u ≠ t) => stepOp_threads_other .whole s t (s.threads t) ops op u hu
    cases outsideG_or_holder hi t with
    | inr hh => exact invG_holder_op hi hh.1 hh.2 hops
    | inl hout =>
      have hnot := not_holder_of_outsideG hi hout
      have hc := hi.cons t
      cases hout with
      | inl h0 => rw [h0] at hops; cases hops
      | inr hk =>
        obtain ⟨k, hk⟩ := hk
        cases hk with
        | inr hk =>
          -- the unlocked connect goes on to open a connection
          rw [hk] at hops; cases hops
          refine invG_outsider_step hi hnot hoth rfl rfl ?_ ?_
          · exact Or.inr ⟨k, Or.inl (by simp [stepOp, upd_same])⟩
          · exact hc.congr (by simp [stepOp, upd_same]) (by simp [stepOp, upd_same])
              (curPending_congr (by simp [stepOp, upd_same]) (by rw [hk]; simp) (by simp [stepOp, upd_same]))
        | inl hk =>
          rw [hk] at hops; cases hops
          cases hl : s.locks 0 with
          | none =>
            show InvG reqs (stepOp .whole s t (s.threads t) _ .acquire)
            refine invG_acquire hi hl hoth ?_ (HShape.tid k ?_ ?_) ?_
            · simp [stepOp, lockKey, lockAcquire, hl, upd]
            · simp [stepOp, lockKey, lockAcquire, hl, upd_same]
            · simpa [stepOp, lockKey, lockAcquire, hl] using (hi.free hl).1
            · exact hc.congr (by simp [stepOp, lockKey, lockAcquire, hl, upd_same])
                (by simp [stepOp, lockKey, lockAcquire, hl, upd_same])
                (curPending_congr (by simp [stepOp, lockKey, lockAcquire, hl, upd_same]) (by rw [hk]; simp)
                  (by simp [stepOp, lockKey, lockAcquire, hl, upd_same]))
          | some p =>
            obtain ⟨h, d⟩ := p
            have hne := hnot h d hl
            have e : stepOp .whole s t (s.threads t) (.tid :: .connect :: .send1 :: .send2 :: tailOps k) .acquire = s := by
              simp [stepOp, lockKey, lockAcquire, hl, Ne.symm hne]
            show InvG reqs (stepOp .whole s t (s.threads t) _ .acquire)
            rw [e]; exact hi

theorem invG_init (reqs : Nat → List Req) (connected : Bool) : InvG reqs (init reqs connected) := by
  refine ⟨?_, ?_, ?_⟩
  · intro _
    exact ⟨rfl, fun t => Or.inl rfl⟩
  · intro h d hl; cases hl
  · intro t
    show ([] : List (Req × Nat × Result)).map (·.1) ++ curPending _ ++ reqs t = reqs t
    have : curPending ((init reqs connected).threads t) = [] := by
      unfold curPending; exact if_pos (Or.inl rfl)
    rw [this]; rfl

theorem invG_run (reqs : Nat → List Req) {s : State} (hi : InvG reqs s) (sched : List Nat) :
    InvG reqs (runSched .whole s sched) := by
  induction sched generalizing s with
  | nil => exact hi
  | cons t rest ih => exact ih (invG_step hi t)

theorem invG_reachable (reqs : Nat → List Req) (connected : Bool) (sched : List Nat) :
    InvG reqs (runSched .whole (init reqs connected) sched) := invG_run reqs (invG_init reqs connected) sched
/-! ### parked / finished threads do not move; every move makes progress -/

theorem step_not_runnable (scope : LockScope) (s : State) (t : Nat) (h : runnable scope s t = false) :
    step scope s t = s := by
  unfold runnable at h
  unfold step
  split
  · rename_i h0
    rw [h0] at h
    split
    · rfl
    · rename_i h1; rw [h1] at h; simp at h
  · rename_i op ops h0
    rw [h0] at h
    cases op <;> simp at h
    simp only [stepOp]
    split at h
    · simp at h
    · rename_i k hk
      split at h
      · simp at h
      · rename_i o d hl
        simp only [lockAcquire, hl]
        have : ¬ o = t := by simpa using h
        simp [this]

theorem opsWeight_cons (op : Op) (ops : List Op) : opsWeight (op :: ops) = op.weight + opsWeight ops := by
  simp [opsWeight]

theorem weight_pos (op : Op) : 1 ≤ op.weight := by cases op <;> simp [Op.weight]

theorem opsWeight_tail (ops : List Op) : opsWeight ops.tail ≤ opsWeight ops := by
  cases ops with
  | nil => simp
  | cons a l => rw [List.tail_cons, opsWeight_cons]; omega

theorem opsWeight_filter (ops : List Op) (p : Op → Bool) : opsWeight (ops.filter p) ≤ opsWeight ops := by
  induction ops with
  | nil => simp
  | cons a l ih =>
    rw [List.filter_cons]
    split
    · rw [opsWeight_cons, opsWeight_cons]; omega
    · rw [opsWeight_cons]; omega

theorem stepOp_work (scope : LockScope) (s : State) (t : Nat) (ops : List Op) (op : Op)
    (hops : (s.threads t).ops = op :: ops) (hr : runnable scope s t = true) :
    ((stepOp scope s t (s.threads t) ops op).threads t).work scope < (s.threads t).work scope := by
  have hw : (s.threads t).work scope =
      op.weight + opsWeight ops + ((s.threads t).todo.map (fun r => 3 + opsWeight (txnOps scope r))).sum := by
    simp [Thread.work, hops, opsWeight_cons]
  rw [hw]
  have h1 := weight_pos op
  have htail := opsWeight_tail ops
  have hfil := opsWeight_filter ops (· == .release)
  cases op <;> simp only [stepOp, raiseOut]
  case acquire =>
    simp only [runnable, hops] at hr
    split
    · simp [upd, Thread.work, Op.weight]
    · rename_i k hk
      rw [hk] at hr
      simp only at hr
      unfold lockAcquire
      split at hr
      · rename_i hl; simp [hl, upd, Thread.work, Op.weight]
      · rename_i o d hl
        have : o = t := by simpa using hr
        simp [hl, this, upd, Thread.work, Op.weight]
  case release => split <;> simp [upd, Thread.work, Op.weight]
  case connect => split <;> simp [upd, Thread.work, Op.weight, opsWeight_cons] <;> omega
  case send2 => split <;> simp [upd, Thread.work, Op.weight] <;> omega
  case recv2 => split <;> simp [upd, Thread.work, Op.weight] <;> omega
  case recv1 =>
    split
    · simp [upd, Thread.work, Op.weight]; omega
    · split <;> (try split) <;> simp [upd, Thread.work, Op.weight] <;> omega
  all_goals simp [upd, Thread.work, Op.weight]

theorem step_work (scope : LockScope) (s : State) (t : Nat) (hr : runnable scope s t = true) :
    ((step scope s t).threads t).work scope < (s.threads t).work scope := by
  unfold step
  split
  · rename_i h0
    split
    · rename_i h1
      simp [runnable, h0, h1] at hr
    · rename_i r rest h1
      cases hs : s.sock.isSome <;>
        simp [stepBegin, upd, Thread.work, h0, h1, hs, opsWeight_cons, Op.weight, opsWeight] <;> omega
  · rename_i op ops h0
    exact stepOp_work scope s t ops op h0 hr

theorem totalWork_congr (scope : LockScope) (s s' : State) (n : Nat)
    (h : ∀ u, u < n → (s'.threads u).work scope = (s.threads u).work scope) :
    totalWork scope s' n = totalWork scope s n := by
  induction n with
  | zero => rfl
  | succ n ih =>
    simp only [totalWork]
    rw [ih (fun u hu => h u (by omega)), h n (by omega)]

theorem work_le_total (scope : LockScope) (s : State) (n t : Nat) (ht : t < n) :
    (s.threads t).work scope ≤ totalWork scope s n := by
  induction n with
  | zero => omega
  | succ n ih =>
    simp only [totalWork]
    by_cases h : t = n
    · subst h; omega
    · have := ih (by omega); omega

theorem totalWork_step_lt (scope : LockScope) (s : State) (t n : Nat) (ht : t < n)
    (hr : runnable scope s t = true) : totalWork scope (step scope s t) n < totalWork scope s n := by
  induction n with
  | zero => omega
  | succ n ih =>
    simp only [totalWork]
    by_cases h : t = n
    · subst h
      have e := totalWork_congr scope s (step scope s t) t
        (fun u hu => by rw [step_threads_other scope s t u (by omega)])
      have := step_work scope s t hr
      omega
    · have := ih (by omega)
      rw [step_threads_other scope s t n (fun e => h e.symm)]
      omega

theorem totalWork_step_le (scope : LockScope) (s : State) (t n : Nat) :
    totalWork scope (step scope s t) n ≤ totalWork scope s n := by
  cases hr : runnable scope s t with
  | false => rw [step_not_runnable scope s t hr]; exact Nat.le_refl _
  | true =>
    by_cases ht : t < n
    · exact Nat.le_of_lt (totalWork_step_lt scope s t n ht hr)
    · exact Nat.le_of_eq (totalWork_congr scope s _ n
        (fun u hu => by rw [step_threads_other scope s t u (by omega)]))

theorem runSched_append (scope : LockScope) (s : State) (a b : List Nat) :
    runSched scope s (a ++ b) = runSched scope (runSched scope s a) b := by
  induction a generalizing s with
  | nil => rfl
  | cons t a ih => exact ih _

theorem totalWork_run_le (scope : LockScope) (s : State) (l : List Nat) (n : Nat) :
    totalWork scope (runSched scope s l) n ≤ totalWork scope s n := by
  induction l generalizing s with
  | nil => exact Nat.le_refl _
  | cons t l ih => exact Nat.le_trans (ih _) (totalWork_step_le scope s t n)

theorem done_not_runnable (scope : LockScope) (s : State) (t : Nat) (h : (s.threads t).done = true) :
    runnable scope s t = false := by
  simp only [Thread.done, Bool.and_eq_true, List.isEmpty_iff] at h
  simp [runnable, h.1, h.2]

/-- a finished thread stays finished -/
theorem done_step (scope : LockScope) (s : State) (t u : Nat) (h : (s.threads t).done = true) :
    ((step scope s u).threads t).done = true := by
  by_cases e : t = u
  · subst e; rw [step_not_runnable scope s t (done_not_runnable scope s t h)]; exact h
  · rw [step_threads_other scope s u t e]; exact h

theorem done_run (scope : LockScope) (s : State) (l : List Nat) (t : Nat) (h : (s.threads t).done = true) :
    ((runSched scope s l).threads t).done = true := by
  induction l generalizing s with
  | nil => exact h
  | cons u l ih => exact ih _ (done_step scope s t u h)

/-- if thread `u` can move and occurs in `l`, running `l` makes progress (whoever moves first) -/
theorem run_progress (scope : LockScope) (s : State) (l : List Nat) (n u : Nat)
    (hn : ∀ v, n ≤ v → (s.threads v).done = true) (hm : u ∈ l)
    (hr : runnable scope s u = true) : totalWork scope (runSched scope s l) n < totalWork scope s n := by
  induction l generalizing s with
  | nil => cases hm
  | cons v l ih =>
    simp only [runSched]
    cases hv : runnable scope s v with
    | true =>
      have hvn : v < n := by
        refine Nat.lt_of_not_le (fun hle => ?_)
        rw [done_not_runnable scope s v (hn v hle)] at hv; cases hv
      exact Nat.lt_of_le_of_lt (totalWork_run_le scope _ l n) (totalWork_step_lt scope s v n hvn hv)
    | false =>
      rw [step_not_runnable scope s v hv]
      have hne : u ≠ v := by intro e; subst e; rw [hr] at hv; cases hv
      have hm' : u ∈ l := by
        cases hm with
        | head => exact absurd rfl hne
        | tail _ h => exact h
      exact ih s hn hm' hr

/-! ### no deadlock under the whole-transaction lock -/

variable {reqs : Nat → List Req}

theorem runnable_of_head (scope : LockScope) (s : State) (t : Nat) (op : Op) (l : List Op)
    (h : (s.threads t).ops = op :: l) (hne : op ≠ .acquire) : runnable scope s t = true := by
  cases op <;> simp [runnable, h] at hne ⊢

/-- in every state satisfying the invariant: if some thread has not finished, some thread can move -/
theorem exists_runnable {s : State} (hi : InvG reqs s) (t : Nat) (hnd : (s.threads t).done = false) :
    ∃ u, runnable .whole s u = true := by
  cases hl : s.locks 0 with
  | some p =>
    obtain ⟨h, d⟩ := p
    obtain ⟨op, l, ho, hne, _⟩ := (hi.held h d hl).2.1.head
    exact ⟨h, runnable_of_head _ _ _ _ _ ho hne⟩
  | none =>
    refine ⟨t, ?_⟩
    cases (hi.free hl).2 t with
    | inl h0 =>
      cases htodo : (s.threads t).todo with
      | nil => simp [Thread.done, h0, htodo] at hnd
      | cons r rest => simp [runnable, h0, htodo]
    | inr hk =>
      obtain ⟨k, hk⟩ := hk
      cases hk with
      | inl hk => simp [runnable, hk, lockKey, hl]
      | inr hk => exact runnable_of_head _ _ _ _ _ hk (by simp)

def Covers (n : Nat) (round : List Nat) : Prop := ∀ t, t < n → t ∈ round

theorem round_progress {s : State} (hi : InvG reqs s) (n : Nat)
    (hn : ∀ v, n ≤ v → (s.threads v).done = true) (round : List Nat) (hc : Covers n round) :
    (∀ t, (s.threads t).done = true) ∨
      totalWork .whole (runSched .whole s round) n < totalWork .whole s n := by
  by_cases hall : ∀ t, (s.threads t).done = true
  · exact Or.inl hall
  · right
    have ⟨t, ht⟩ : ∃ t, (s.threads t).done = false := by
      apply Classical.byContradiction
      intro hne
      apply hall
      intro t
      cases hd : (s.threads t).done with
      | true => rfl
      | false => exact absurd ⟨t, hd⟩ hne
    obtain ⟨u, hu⟩ := exists_runnable hi t ht
    have hun : u < n := by
      refine Nat.lt_of_not_le (fun hle => ?_)
      rw [done_not_runnable _ s u (hn u hle)] at hu; cases hu
    exact run_progress .whole s round n u hn (hc u hun) hu

theorem all_done_run (scope : LockScope) (s : State) (l : List Nat) (h : ∀ t, (s.threads t).done = true) :
    ∀ t, ((runSched scope s l).threads t).done = true :=
  fun t => done_run scope s l t (h t)

/-- fairness, finite form: a schedule made of `k` rounds, each round giving every thread below `n` at least one turn,
    with `k` at least the number of operations the threads still have to perform, ends with every thread finished -/
theorem fair_rounds_finish {s : State} (hi : InvG reqs s) (n : Nat)
    (hn : ∀ v, n ≤ v → (s.threads v).done = true) (rounds : List (List Nat))
    (hc : ∀ r ∈ rounds, Covers n r) (hk : totalWork .whole s n ≤ rounds.length) :
    ∀ t, ((runSched .whole s rounds.flatten).threads t).done = true := by
  induction rounds generalizing s with
  | nil =>
    intro t
    cases hd : (s.threads t).done with
    | true => exact hd
    | false =>
      exfalso
      obtain ⟨u, hu⟩ := exists_runnable hi t hd
      have hun : u < n := by
        refine Nat.lt_of_not_le (fun hle => ?_)
        rw [done_not_runnable _ s u (hn u hle)] at hu; cases hu
      have h1 := totalWork_step_lt .whole s u n hun hu
      simp at hk
      omega
  | cons r rs ih =>
    rw [List.flatten_cons, runSched_append]
    cases round_progress hi n hn r (hc r (List.mem_cons_self ..)) with
    | inl hall => exact all_done_run _ _ _ (all_done_run _ _ _ hall)
    | inr hlt =>
      apply ih (invG_run reqs hi r) (fun v hv => done_run _ _ _ _ (hn v hv))
        (fun r' hr' => hc r' (List.mem_cons_of_mem _ hr'))
      simp at hk
      omega
end Pymodbus.Sched
