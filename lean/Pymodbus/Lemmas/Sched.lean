/- C15 helper lemmas, common part: the shape of a transaction under the shipped lock discipline, bookkeeping of
   results, "a step touches only the moving thread", "parked / finished threads do not move", the progress measure,
   fairness by rounds (all for ANY lock discipline unless stated). -/
import Pymodbus.Lemmas.SchedBytes
namespace Pymodbus.Sched
open Pymodbus Pymodbus.Framer

/-! ### the shape of a transaction under the shipped discipline (client lock around everything, manager lock nested) -/

/-- the polls, the two reads, the processing, then the two releases (manager lock, client lock) -/
def tailOps (k : Nat) : List Op := List.replicate k Op.wait ++ [.recv1, .recv2, .process, .release, .crelease]

theorem tailOps_zero : tailOps 0 = [.recv1, .recv2, .process, .release, .crelease] := rfl
theorem tailOps_succ (k : Nat) : tailOps (k + 1) = .wait :: tailOps k := by
  simp [tailOps, List.replicate_succ]

/-- what follows the second write under the shipped discipline: for a broadcast the marker and the two releases, for
    an ordinary request the polls, the reads, the processing and the two releases -/
def tailX (r : Req) (k : Nat) : List Op := if r.bcast then [.bdone, .release, .crelease] else tailOps k

theorem tailX_bcast {r : Req} (h : r.bcast = true) (k : Nat) : tailX r k = [.bdone, .release, .crelease] := by
  simp [tailX, h]
theorem tailX_plain {r : Req} (h : r.bcast = false) (k : Nat) : tailX r k = tailOps k := by simp [tailX, h]

theorem txnOps_whole (r : Req) :
    txnOps .whole r =
      .cacquire :: .preconnect :: .acquire :: .tid :: .connect :: .flush :: .send1 :: .send2 :: tailX r r.lat := by
  show ([Op.cacquire, .preconnect, .acquire] ++ coreOps r ++ [Op.release, .crelease]) = _
  unfold coreOps afterSend tailX tailOps
  cases r.bcast <;> simp

/-- only lock releases are left: the request in progress (if any) has its result -/
def onlyReleases (ops : List Op) : Bool := ops.all (fun o => o == .release || o == .crelease)

/-- the request in progress still owes a result -/
def curPending (th : Thread) : List Req := if onlyReleases th.ops then [] else [th.cur]

theorem curPending_head (th : Thread) (op : Op) (l : List Op) (h : th.ops = op :: l)
    (h1 : op ≠ .release) (h2 : op ≠ .crelease) : curPending th = [th.cur] := by
  unfold curPending onlyReleases
  rw [h]
  cases op <;> simp at h1 h2 ⊢

theorem curPending_congr {th th' : Thread} (hc : th'.cur = th.cur) (op op' : Op) (l l' : List Op)
    (h : th.ops = op :: l) (h1 : op ≠ .release) (h2 : op ≠ .crelease)
    (h' : th'.ops = op' :: l') (h1' : op' ≠ .release) (h2' : op' ≠ .crelease) :
    curPending th' = curPending th := by
  rw [curPending_head _ _ _ h h1 h2, curPending_head _ _ _ h' h1' h2', hc]

theorem tailOps_head (k : Nat) : ∃ op l, tailOps k = op :: l ∧ op ≠ .release ∧ op ≠ .crelease ∧ op ≠ .acquire ∧
    op ≠ .cacquire := by
  cases k with
  | zero => exact ⟨_, _, rfl, by simp, by simp, by simp, by simp⟩
  | succ k => exact ⟨_, _, tailOps_succ k, by simp, by simp, by simp, by simp⟩

/-- one result per request that is over, none for the others:
    results ++ request in progress ++ requests not started = the requests the thread was given -/
def Conserved (reqs : Nat → List Req) (t : Nat) (th : Thread) : Prop :=
  th.results.map (·.1) ++ curPending th ++ th.todo = reqs t

theorem Conserved.congr {reqs : Nat → List Req} {t : Nat} {th th' : Thread} (h : Conserved reqs t th)
    (h1 : th'.results = th.results) (h2 : th'.todo = th.todo) (h3 : curPending th' = curPending th) :
    Conserved reqs t th' := by
  unfold Conserved at *; rw [h1, h2, h3]; exact h

/-- a transaction ends: its result is recorded, only lock releases are left -/
theorem Conserved.finish {reqs : Nat → List Req} {t : Nat} {th th' : Thread} (h : Conserved reqs t th)
    (hp : curPending th = [th.cur]) (x : Nat × Result) (h1 : th'.results = th.results ++ [(th.cur, x)])
    (h2 : th'.todo = th.todo) (h3 : onlyReleases th'.ops = true) : Conserved reqs t th' := by
  unfold Conserved at *
  rw [hp] at h
  rw [h1, h2, ← h]
  simp [curPending, h3]

variable {reqs : Nat → List Req}

theorem stepOp_threads_other (scope : LockScope) (s : State) (t : Nat) (th : Thread) (ops : List Op) (op : Op)
    (u : Nat) (h : u ≠ t) : (stepOp scope s t th ops op).threads u = s.threads u := by
  cases op <;> simp only [stepOp, raiseOut] <;> (try split) <;> (try split) <;> (try split) <;> simp [upd, h]

/-- the scripted world never changes -/
theorem stepOp_connOk (scope : LockScope) (s : State) (t : Nat) (th : Thread) (ops : List Op) (op : Op) :
    (stepOp scope s t th ops op).connOk = s.connOk := by
  cases op <;> simp only [stepOp, raiseOut] <;> (try split) <;> (try split) <;> (try split) <;> rfl

theorem step_connOk (scope : LockScope) (s : State) (t : Nat) : (step scope s t).connOk = s.connOk := by
  unfold step
  split
  · split <;> rfl
  · exact stepOp_connOk _ _ _ _ _ _

theorem run_connOk (scope : LockScope) (s : State) (l : List Nat) : (runSched scope s l).connOk = s.connOk := by
  induction l generalizing s with
  | nil => rfl
  | cons t l ih => exact (ih _).trans (step_connOk scope s t)

theorem step_threads_other (scope : LockScope) (s : State) (t u : Nat) (h : u ≠ t) :
    (step scope s t).threads u = s.threads u := by
  unfold step
  split
  · split
    · rfl
    · simp [stepBegin, upd, h]
  · exact stepOp_threads_other _ _ _ _ _ _ _ h


/-! ### parked / finished threads do not move; every move makes progress -/

theorem step_not_runnable (scope : LockScope) (s : State) (t : Nat) (h : runnable scope s t = false) :
    step scope s t = s := by
  unfold runnable at h
  unfold step
  split
  · rename_i h0
    rw [h0] at h
    split
    · rfl
    · rename_i h1; rw [h1] at h; simp at h
  · rename_i op ops h0
    rw [h0] at h
    cases op <;> simp at h
    · -- the client lock is held by somebody else
      simp only [stepOp]
      split at h
      · simp at h
      · rename_i o d hl
        have : ¬ o = t := by simpa using h
        simp [lockAcquire, hl, this]
    · -- the manager lock is held by somebody else
      simp only [stepOp]
      split at h
      · simp at h
      · rename_i k hk
        split at h
        · simp at h
        · rename_i o d hl
          simp only [lockAcquire, hl]
          have : ¬ o = t := by simpa using h
          simp [this]

theorem opsWeight_cons (op : Op) (ops : List Op) : opsWeight (op :: ops) = op.weight + opsWeight ops := by
  simp [opsWeight]

theorem weight_pos (op : Op) : 1 ≤ op.weight := by cases op <;> simp [Op.weight]

theorem opsWeight_tail (ops : List Op) : opsWeight ops.tail ≤ opsWeight ops := by
  cases ops with
  | nil => simp
  | cons a l => rw [List.tail_cons, opsWeight_cons]; omega

theorem opsWeight_drop (ops : List Op) (n : Nat) : opsWeight (ops.drop n) ≤ opsWeight ops := by
  induction n generalizing ops with
  | zero => simp
  | succ n ih =>
    cases ops with
    | nil => simp
    | cons a l => rw [List.drop_succ_cons, opsWeight_cons]; have := ih l; omega

theorem opsWeight_filter (ops : List Op) (p : Op → Bool) : opsWeight (ops.filter p) ≤ opsWeight ops := by
  induction ops with
  | nil => simp
  | cons a l ih =>
    rw [List.filter_cons]
    split
    · rw [opsWeight_cons, opsWeight_cons]; omega
    · rw [opsWeight_cons]; omega

theorem work_lt_of_ops (scope : LockScope) (cfg : Cfg) (th th' : Thread) (h1 : th'.cur = th.cur)
    (h2 : th'.attempt = th.attempt) (h3 : th'.todo = th.todo) (h4 : opsWeight th'.ops < opsWeight th.ops) :
    th'.work scope cfg < th.work scope cfg := by
  unfold Thread.work; rw [h1, h2, h3]; omega

theorem opsWeight_append (a b : List Op) : opsWeight (a ++ b) = opsWeight a + opsWeight b := by
  simp [opsWeight]

theorem opsWeight_replicate_wait (n : Nat) : opsWeight (List.replicate n Op.wait) = n := by
  induction n with
  | zero => rfl
  | succ n ih => rw [List.replicate_succ, opsWeight_cons, ih]; simp [Op.weight]; omega

theorem attemptOps_weight (r : Req) : opsWeight (attemptOps r) = 11 + r.lat := by
  simp [attemptOps, opsWeight_cons, opsWeight_append, opsWeight_replicate_wait, Op.weight, opsWeight]
  omega

theorem backoffOps_weight (scope : LockScope) (cfg : Cfg) : opsWeight (backoffOps scope cfg) ≤ 3 := by
  unfold backoffOps
  split
  · split <;> simp [opsWeight, Op.weight]
  · simp [opsWeight]

/-- a first read that gets nothing: the read is over, the second read is skipped, the retry loop may add a back-off
    and one more attempt — paid for by one unit of the retry budget -/
theorem work_lt_retry (scope : LockScope) (cfg : Cfg) (th th' : Thread) (ops : List Op)
    (hops : th.ops = .recv1 :: ops) (h1 : th'.cur = th.cur) (h3 : th'.todo = th.todo)
    (h2 : th'.attempt = if cfg.again th.attempt then th.attempt + 1 else th.attempt)
    (h4 : th'.ops = retryOps scope cfg th ++ ops.tail) : th'.work scope cfg < th.work scope cfg := by
  have ht := opsWeight_tail ops
  have hb := backoffOps_weight scope cfg
  have ha := attemptOps_weight th.cur
  have hw : Op.recv1.weight = 5 := rfl
  have hnil : opsWeight ([] : List Op) = 0 := rfl
  unfold Thread.work
  rw [h1, h3, h4, hops, opsWeight_append, opsWeight_cons, hw]
  cases hag : cfg.again th.attempt with
  | false =>
    rw [hag] at h2
    simp only [Bool.false_eq_true, if_false] at h2
    rw [h2]
    have hr : opsWeight (retryOps scope cfg th) ≤ 3 := by
      unfold retryOps
      split
      · simp only [hag, Bool.false_eq_true, if_false, List.append_nil]; exact hb
      · rw [hnil]; omega
    omega
  | true =>
    rw [hag] at h2
    simp only [if_true] at h2
    rw [h2]
    have hre : cfg.retryOnEmpty = true := by
      cases h : cfg.retryOnEmpty with
      | true => rfl
      | false => simp [Cfg.again, h] at hag
    have hlt : th.attempt < cfg.retries := by simpa [Cfg.again, hre] using hag
    have hr : opsWeight (retryOps scope cfg th) ≤ 3 + (11 + th.cur.lat) := by
      unfold retryOps
      simp only [hre, if_true, hag, opsWeight_append, ha]
      omega
    have e : cfg.retries - th.attempt = (cfg.retries - (th.attempt + 1)) + 1 := by omega
    rw [e, Nat.add_mul, Nat.one_mul]
    unfold retryCost
    omega

/-- closes `work th' < work th` when the step only shortens the operation list -/
macro "work_ops" : tactic =>
  `(tactic| (apply work_lt_of_ops <;>
      first | rfl | (simp [upd]; done) | (simp [upd, *, opsWeight_cons, Op.weight] <;> omega)))

theorem stepOp_work (scope : LockScope) (s : State) (t : Nat) (ops : List Op) (op : Op)
    (hops : (s.threads t).ops = op :: ops) (hr : runnable scope s t = true) :
    ((stepOp scope s t (s.threads t) ops op).threads t).work scope s.cfg < (s.threads t).work scope s.cfg := by
  have h1 := weight_pos op
  have htail := opsWeight_tail ops
  have hfil := opsWeight_filter ops (fun o => o == .release || o == .crelease)
  have hfil' := opsWeight_filter ops (· == .crelease)
  have hdrop := opsWeight_drop ops 3
  have h0 : opsWeight ([] : List Op) = 0 := rfl
  cases op <;> simp only [stepOp, raiseOut]
  case acquire =>
    simp only [runnable, hops] at hr
    split
    · work_ops
    · rename_i k hk
      rw [hk] at hr
      simp only at hr
      unfold lockAcquire
      split at hr
      · rename_i hl
        simp only [hl]
        work_ops
      · rename_i o d hl
        have : o = t := by simpa using hr
        simp only [hl, this, if_true]
        work_ops
  case cacquire =>
    simp only [runnable, hops] at hr
    unfold lockAcquire
    split at hr
    · rename_i hl
      simp only [hl]
      work_ops
    · rename_i o d hl
      have : o = t := by simpa using hr
      simp only [hl, this, if_true]
      work_ops
  case recv1 =>
    split
    · work_ops
    · split
      · split
        · exact work_lt_retry scope s.cfg _ _ ops hops (by simp [upd]) (by simp [upd]) (by simp [upd])
            (by simp [upd])
        · work_ops
      · split
        · work_ops
        · exact work_lt_retry scope s.cfg _ _ ops hops (by simp [upd]) (by simp [upd]) (by simp [upd])
            (by simp [upd])
  case «open» =>
    split
    · work_ops
    · apply work_lt_of_ops <;> first | rfl | (simp [upd]; done) |
        (cases scope <;> simp [upd, hops, opsWeight_cons, Op.weight] <;> omega)
  all_goals (repeat' split) <;> work_ops

theorem stepOp_cfg (scope : LockScope) (s : State) (t : Nat) (th : Thread) (ops : List Op) (op : Op) :
    (stepOp scope s t th ops op).cfg = s.cfg := by
  cases op <;> simp only [stepOp, raiseOut] <;> (repeat' split) <;> rfl

theorem step_cfg (scope : LockScope) (s : State) (t : Nat) : (step scope s t).cfg = s.cfg := by
  unfold step
  split
  · split <;> rfl
  · exact stepOp_cfg _ _ _ _ _ _

theorem run_cfg (scope : LockScope) (s : State) (l : List Nat) : (runSched scope s l).cfg = s.cfg := by
  induction l generalizing s with
  | nil => rfl
  | cons t l ih => exact (ih _).trans (step_cfg scope s t)

theorem step_work (scope : LockScope) (s : State) (t : Nat) (hr : runnable scope s t = true) :
    ((step scope s t).threads t).work scope s.cfg < (s.threads t).work scope s.cfg := by
  unfold step
  split
  · rename_i h0
    split
    · rename_i h1
      simp [runnable, h0, h1] at hr
    · rename_i r rest h1
      simp only [stepBegin, upd, if_true, Thread.work, h0, h1, List.map_cons, List.sum_cons]
      have : opsWeight ([] : List Op) = 0 := rfl
      simp only [this, Nat.sub_zero]
      omega
  · rename_i op ops h0
    exact stepOp_work scope s t ops op h0 hr

theorem totalWork_congr (scope : LockScope) (s s' : State) (n : Nat) (hc : s'.cfg = s.cfg)
    (h : ∀ u, u < n → (s'.threads u).work scope s.cfg = (s.threads u).work scope s.cfg) :
    totalWork scope s' n = totalWork scope s n := by
  induction n with
  | zero => rfl
  | succ n ih =>
    simp only [totalWork]
    rw [ih (fun u hu => h u (by omega)), hc, h n (by omega)]

theorem work_le_total (scope : LockScope) (s : State) (n t : Nat) (ht : t < n) :
    (s.threads t).work scope s.cfg ≤ totalWork scope s n := by
  induction n with
  | zero => omega
  | succ n ih =>
    simp only [totalWork]
    by_cases h : t = n
    · subst h; omega
    · have := ih (by omega); omega

theorem totalWork_step_lt (scope : LockScope) (s : State) (t n : Nat) (ht : t < n)
    (hr : runnable scope s t = true) : totalWork scope (step scope s t) n < totalWork scope s n := by
  induction n with
  | zero => omega
  | succ n ih =>
    simp only [totalWork]
    by_cases h : t = n
    · subst h
      have e := totalWork_congr scope s (step scope s t) t (step_cfg scope s t)
        (fun u hu => by rw [step_threads_other scope s t u (by omega)])
      have := step_work scope s t hr
      rw [step_cfg]
      omega
    · have := ih (by omega)
      rw [step_threads_other scope s t n (fun e => h e.symm), step_cfg]
      omega

theorem totalWork_step_le (scope : LockScope) (s : State) (t n : Nat) :
    totalWork scope (step scope s t) n ≤ totalWork scope s n := by
  cases hr : runnable scope s t with
  | false => rw [step_not_runnable scope s t hr]; exact Nat.le_refl _
  | true =>
    by_cases ht : t < n
    · exact Nat.le_of_lt (totalWork_step_lt scope s t n ht hr)
    · exact Nat.le_of_eq (totalWork_congr scope s _ n (step_cfg scope s t)
        (fun u hu => by rw [step_threads_other scope s t u (by omega)]))

theorem runSched_append (scope : LockScope) (s : State) (a b : List Nat) :
    runSched scope s (a ++ b) = runSched scope (runSched scope s a) b := by
  induction a generalizing s with
  | nil => rfl
  | cons t a ih => exact ih _

theorem totalWork_run_le (scope : LockScope) (s : State) (l : List Nat) (n : Nat) :
    totalWork scope (runSched scope s l) n ≤ totalWork scope s n := by
  induction l generalizing s with
  | nil => exact Nat.le_refl _
  | cons t l ih => exact Nat.le_trans (ih _) (totalWork_step_le scope s t n)

theorem done_not_runnable (scope : LockScope) (s : State) (t : Nat) (h : (s.threads t).done = true) :
    runnable scope s t = false := by
  simp only [Thread.done, Bool.and_eq_true, List.isEmpty_iff] at h
  simp [runnable, h.1, h.2]

/-- a finished thread stays finished -/
theorem done_step (scope : LockScope) (s : State) (t u : Nat) (h : (s.threads t).done = true) :
    ((step scope s u).threads t).done = true := by
  by_cases e : t = u
  · subst e; rw [step_not_runnable scope s t (done_not_runnable scope s t h)]; exact h
  · rw [step_threads_other scope s u t e]; exact h

theorem done_run (scope : LockScope) (s : State) (l : List Nat) (t : Nat) (h : (s.threads t).done = true) :
    ((runSched scope s l).threads t).done = true := by
  induction l generalizing s with
  | nil => exact h
  | cons u l ih => exact ih _ (done_step scope s t u h)

/-- if thread `u` can move and occurs in `l`, running `l` makes progress (whoever moves first) -/
theorem run_progress (scope : LockScope) (s : State) (l : List Nat) (n u : Nat)
    (hn : ∀ v, n ≤ v → (s.threads v).done = true) (hm : u ∈ l)
    (hr : runnable scope s u = true) : totalWork scope (runSched scope s l) n < totalWork scope s n := by
  induction l generalizing s with
  | nil => cases hm
  | cons v l ih =>
    simp only [runSched]
    cases hv : runnable scope s v with
    | true =>
      have hvn : v < n := by
        refine Nat.lt_of_not_le (fun hle => ?_)
        rw [done_not_runnable scope s v (hn v hle)] at hv; cases hv
      exact Nat.lt_of_le_of_lt (totalWork_run_le scope _ l n) (totalWork_step_lt scope s v n hvn hv)
    | false =>
      rw [step_not_runnable scope s v hv]
      have hne : u ≠ v := by intro e; subst e; rw [hr] at hv; cases hv
      have hm' : u ∈ l := by
        cases hm with
        | head => exact absurd rfl hne
        | tail _ h => exact h
      exact ih s hn hm' hr


/-- only the completion of a connection attempt installs a socket: every other operation leaves `client.socket`
    alone or closes it -/
theorem stepOp_sock (scope : LockScope) (s : State) (t : Nat) (th : Thread) (ops : List Op) (op : Op)
    (h1 : op ≠ .open) (h2 : op ≠ .iopen) :
    (stepOp scope s t th ops op).sock = s.sock ∨ (stepOp scope s t th ops op).sock = none := by
  cases op <;> simp only [stepOp, raiseOut] <;> (try exact absurd rfl h1) <;> (try exact absurd rfl h2) <;>
    (repeat' split) <;> first | exact Or.inl rfl | exact Or.inr rfl | simp_all

theorem step_new_socket (scope : LockScope) (s : State) (t c : Nat)
    (h : (step scope s t).sock = some c) (hne : s.sock ≠ some c) :
    ∃ ops, (s.threads t).ops = .open :: ops ∨ (s.threads t).ops = .iopen :: ops := by
  unfold step at h
  split at h
  · split at h
    · exact absurd h hne
    · exact absurd h hne
  · rename_i op ops hops
    by_cases h1 : op = .open
    · subst h1; exact ⟨ops, Or.inl hops⟩
    · by_cases h2 : op = .iopen
      · subst h2; exact ⟨ops, Or.inr hops⟩
      · cases stepOp_sock scope s t (s.threads t) ops op h1 h2 with
        | inl e => rw [e] at h; exact absurd h hne
        | inr e => rw [e] at h; cases h
theorem runnable_of_head (scope : LockScope) (s : State) (t : Nat) (op : Op) (l : List Op)
    (h : (s.threads t).ops = op :: l) (hne : op ≠ .acquire) (hne' : op ≠ .cacquire) : runnable scope s t = true := by
  cases op <;> simp [runnable, h] at hne hne' ⊢

def Covers (n : Nat) (round : List Nat) : Prop := ∀ t, t < n → t ∈ round

theorem all_done_run (scope : LockScope) (s : State) (l : List Nat) (h : ∀ t, (s.threads t).done = true) :
    ∀ t, ((runSched scope s l).threads t).done = true :=
  fun t => done_run scope s l t (h t)

end Pymodbus.Sched
