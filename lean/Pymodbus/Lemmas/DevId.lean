/- Helper lemmas for C20 (Read Device Identification): identity dict, id lists, response encoding,
   client decoding, one exchange, the chain.  Core Lean only. -/
import Pymodbus.Model.DevId
import Pymodbus.Spec.DevIdSpec
namespace Pymodbus.DevId
open Pymodbus Pymodbus.DevIdSpec

/-! ### sorted lists of naturals -/

theorem sorted_ext : ∀ (l1 l2 : List Nat), l1.Pairwise (· < ·) → l2.Pairwise (· < ·) →
    (∀ x, x ∈ l1 ↔ x ∈ l2) → l1 = l2
  | [], [], _, _, _ => rfl
  | [], b :: l2, _, _, h => by have := (h b).2 (by simp); simp at this
  | a :: l1, [], _, _, h => by have := (h a).1 (by simp); simp at this
  | a :: l1, b :: l2, h1, h2, h => by
    rw [List.pairwise_cons] at h1 h2
    have hab : a = b := by
      have ha := (h a).1 (by simp)
      have hb := (h b).2 (by simp)
      simp only [List.mem_cons] at ha hb
      rcases ha with ha | ha
      · exact ha
      · rcases hb with hb | hb
        · exact hb.symm
        · have := h2.1 a ha; have := h1.1 b hb; omega
    subst hab
    congr 1
    apply sorted_ext l1 l2 h1.2 h2.2
    intro x
    constructor
    · intro hx
      have := (h x).1 (by simp [hx])
      simp only [List.mem_cons] at this
      rcases this with e | e
      · have := h1.1 x hx; omega
      · exact e
    · intro hx
      have := (h x).2 (by simp [hx])
      simp only [List.mem_cons] at this
      rcases this with e | e
      · have := h2.1 x hx; omega
      · exact e

theorem sorted_head (l : List Nat) (x : Nat) (hs : l.Pairwise (· < ·)) (hx : x ∈ l)
    (hmin : ∀ y ∈ l, x ≤ y) : ∃ B, l = x :: B := by
  cases l with
  | nil => simp at hx
  | cons h t =>
    rw [List.pairwise_cons] at hs
    simp only [List.mem_cons] at hx
    rcases hx with e | e
    · exact ⟨t, by rw [e]⟩
    · have := hs.1 x e; have := hmin h (by simp); omega

theorem pyRange_sorted (a b : Nat) : (pyRange a b).Pairwise (· < ·) := by
  unfold pyRange; exact List.pairwise_lt_range' 1

theorem mem_pyRange (a b x : Nat) : x ∈ pyRange a b ↔ a ≤ x ∧ x < b := by
  unfold pyRange; rw [List.mem_range'_1]; omega

/-- a filtered Python range is the filtered id universe 0..255 -/
theorem pyRange_filter (a b : Nat) (hb : b ≤ 256) (p : Nat → Bool) :
    (pyRange a b).filter p =
      (List.range 256).filter (fun k => decide (a ≤ k) && decide (k < b) && p k) := by
  apply sorted_ext
  · exact (pyRange_sorted a b).filter p
  · exact List.pairwise_lt_range.filter _
  · intro x
    simp only [List.mem_filter, mem_pyRange, List.mem_range, Bool.and_eq_true, decide_eq_true_eq]
    constructor
    · intro h; refine ⟨by omega, ⟨h.1.1, h.1.2⟩, h.2⟩
    · intro h; exact ⟨⟨h.2.1.1, h.2.1.2⟩, h.2.2⟩

/-! ### the identity dict: `identity[k]` only ever adds empty entries -/

theorem lookup_append_single (d : Ident) (k j : Nat) :
    lookup (d ++ [(k, [])]) j = match lookup d j with
      | some v => some v
      | none => if k = j then some [] else none := by
  induction d with
  | nil => simp [lookup]
  | cons kv r ih =>
    obtain ⟨k0, v0⟩ := kv
    simp only [List.cons_append, lookup]
    split
    · rfl
    · exact ih

theorem getItem_val (d : Ident) (k : Nat) : (getItem d k).2 = val d k := by
  unfold getItem val
  cases h : lookup d k <;> simp

theorem getItem_ident_val (d : Ident) (k j : Nat) : val (getItem d k).1 j = val d j := by
  unfold getItem
  cases h : lookup d k with
  | some v => rfl
  | none =>
    simp only [val, lookup_append_single]
    cases h2 : lookup d j with
    | some v => rfl
    | none =>
      simp only []
      split <;> rfl

/-- objects selected by `__gets` from the ids `ids`, as a function of the abstract identity -/
def objsOf (f : Nat → Bytes) (ids : List Nat) : Info :=
  (ids.filter (fun k => f k != [])).map (fun k => (k, f k))

theorem factoryGets_spec (d : Ident) (ids : List Nat) :
    (factoryGets d ids).2 = objsOf (val d) ids ∧ ∀ j, val (factoryGets d ids).1 j = val d j := by
  induction ids generalizing d with
  | nil => exact ⟨rfl, fun _ => rfl⟩
  | cons k r ih =>
    obtain ⟨h1, h2⟩ := ih (getItem d k).1
    have hv : ∀ j, val (getItem d k).1 j = val d j := getItem_ident_val d k
    have hf : val (getItem d k).1 = val d := funext hv
    simp only [factoryGets]
    refine ⟨?_, fun j => by rw [h2 j, hv j]⟩
    rw [h1, hf, getItem_val]
    unfold objsOf
    simp only [List.filter_cons]
    by_cases hk : val d k = []
    · simp [hk]
    · simp [hk]

/-- the answer of `DeviceInformationFactory.get` as a function of the abstract identity -/
def infoOf (f : Nat → Bytes) (rc oid : Nat) : Info :=
  if rc = 1 then objsOf f (pyRange oid 3)
  else if rc = 2 then objsOf f (if f oid ≠ [] then pyRange oid 7 else pyRange 0 7)
  else if rc = 3 then objsOf f (if f oid ≠ [] then extendedIds oid else extendedIds 0)
  else [(oid, f oid)]

theorem factoryGet_spec (d : Ident) (rc oid : Nat) (h1 : 1 ≤ rc) (h4 : rc ≤ 4) :
    ∃ d', factoryGet d rc oid = .ok (d', infoOf (val d) rc oid) ∧ ∀ j, val d' j = val d j := by
  have hv : ∀ j, val (getItem d oid).1 j = val d j := getItem_ident_val d oid
  have hf : val (getItem d oid).1 = val d := funext hv
  have hrc : rc = 1 ∨ rc = 2 ∨ rc = 3 ∨ rc = 4 := by omega
  rcases hrc with e | e | e | e <;> subst e
  · obtain ⟨a, b⟩ := factoryGets_spec d (pyRange oid 3)
    refine ⟨(factoryGets d (pyRange oid 3)).1, ?_, b⟩
    simp only [factoryGet, infoOf, ↓reduceIte]
    exact congrArg Except.ok (Prod.ext rfl a)
  · obtain ⟨a, b⟩ := factoryGets_spec (getItem d oid).1 (if val d oid ≠ [] then pyRange oid 7 else pyRange 0 7)
    refine ⟨_, ?_, fun j => by rw [b j, hv j]⟩
    simp only [factoryGet, infoOf, getItem_val, Nat.reduceEqDiff, ↓reduceIte]
    exact congrArg Except.ok (Prod.ext rfl (by rw [a, hf]))
  · obtain ⟨a, b⟩ := factoryGets_spec (getItem d oid).1 (if val d oid ≠ [] then extendedIds oid else extendedIds 0)
    refine ⟨_, ?_, fun j => by rw [b j, hv j]⟩
    simp only [factoryGet, infoOf, getItem_val, Nat.reduceEqDiff, ↓reduceIte]
    exact congrArg Except.ok (Prod.ext rfl (by rw [a, hf]))
  · refine ⟨(getItem d oid).1, ?_, hv⟩
    simp only [factoryGet, infoOf, factoryGet1, getItem_val, Nat.reduceEqDiff, ↓reduceIte]

/-- the start id the server effectively uses: Regular/Extended restart at 0 when the requested
    object is empty -/
def effStart (f : Nat → Bytes) (rc oid : Nat) : Nat :=
  if rc = 1 then oid else if f oid ≠ [] then oid else 0

theorem objsOf_pyRange (f : Nat → Bytes) (rc s n : Nat) (hn : n ≤ 256)
    (hcat : ∀ k, k < 256 → (decide (k < n) = inCategory rc k)) :
    objsOf f (pyRange s n) = expected f rc s := by
  unfold objsOf expected
  rw [pyRange_filter s n hn]
  congr 1
  apply List.filter_congr
  intro x hx
  rw [List.mem_range] at hx
  rw [hcat x hx]

theorem objsOf_extended (f : Nat → Bytes) (s : Nat) :
    objsOf f (extendedIds s) = expected f 3 s := by
  unfold objsOf expected extendedIds
  rw [List.filter_filter, pyRange_filter s 256 (by omega)]
  congr 1
  apply List.filter_congr
  intro x hx
  rw [List.mem_range] at hx
  simp only [inCategory, Nat.reduceEqDiff, ↓reduceIte]
  cases (f x != [])
  · simp
  · rw [Bool.eq_iff_iff]
    simp only [Bool.and_eq_true, Bool.or_eq_true, Bool.not_eq_true', decide_eq_true_eq,
      Bool.and_eq_false_iff, decide_eq_false_iff_not, and_true, true_and]
    omega

theorem infoOf_eq_expected (f : Nat → Bytes) (rc oid : Nat) (h1 : 1 ≤ rc) (h3 : rc ≤ 3) :
    infoOf f rc oid = expected f rc (effStart f rc oid) := by
  have hrc : rc = 1 ∨ rc = 2 ∨ rc = 3 := by omega
  rcases hrc with e | e | e <;> subst e
  · simp only [infoOf, effStart, ↓reduceIte]
    apply objsOf_pyRange f 1 oid 3 (by omega)
    intro k _; simp only [inCategory, ↓reduceIte]; rw [decide_eq_decide]; omega
  · simp only [infoOf, effStart, Nat.reduceEqDiff, ↓reduceIte]
    split
    · apply objsOf_pyRange f 2 oid 7 (by omega)
      intro k _; simp only [inCategory, Nat.reduceEqDiff, ↓reduceIte]; rw [decide_eq_decide]; omega
    · apply objsOf_pyRange f 2 0 7 (by omega)
      intro k _; simp only [inCategory, Nat.reduceEqDiff, ↓reduceIte]; rw [decide_eq_decide]; omega
  · simp only [infoOf, effStart, Nat.reduceEqDiff, ↓reduceIte]
    split
    · exact objsOf_extended f oid
    · exact objsOf_extended f 0

/-! ### response encoding: which objects go on the page -/

/-- wire size of one object: id, length, value -/
def osize (o : Nat × Bytes) : Nat := 2 + o.2.length

/-- the objects `encode` puts on the page when `sp` bytes are left: the longest prefix whose
    running total stays strictly below `sp` -/
def sentOf (sp : Int) : Info → Info
  | [] => []
  | o :: r => if sp - (osize o : Int) ≤ 0 then [] else o :: sentOf (sp - (osize o : Int)) r

/-- the objects that did not fit -/
def restOf (sp : Int) : Info → Info
  | [] => []
  | o :: r => if sp - (osize o : Int) ≤ 0 then o :: r else restOf (sp - (osize o : Int)) r

/-- `object_id, len(data), data` for each object -/
def encObjs (l : Info) : Bytes := l.flatMap (fun o => o.1 :: o.2.length :: o.2)

theorem sent_append_rest (sp : Int) (l : Info) : sentOf sp l ++ restOf sp l = l := by
  induction l generalizing sp with
  | nil => rfl
  | cons o r ih =>
    simp only [sentOf, restOf]
    split
    · rfl
    · simp only [List.cons_append, ih]

theorem encObjs_cons (o : Nat × Bytes) (l : Info) :
    encObjs (o :: l) = o.1 :: o.2.length :: o.2 ++ encObjs l := by
  simp [encObjs]

theorem encObjs_length_cons (o : Nat × Bytes) (l : Info) :
    (encObjs (o :: l)).length = osize o + (encObjs l).length := by
  rw [encObjs_cons]; simp [osize]; omega

/-- the objects on a page take strictly less than the space that was left -/
theorem sent_size_lt (sp : Int) (l : Info) (hsp : 0 < sp) : ((encObjs (sentOf sp l)).length : Int) < sp := by
  induction l generalizing sp with
  | nil => simpa [sentOf, encObjs] using hsp
  | cons o r ih =>
    simp only [sentOf]
    split
    · simpa [encObjs] using hsp
    · rename_i h
      have := ih (sp - (osize o : Int)) (by omega)
      rw [encObjs_length_cons]; omega

theorem sent_length_le (sp : Int) (l : Info) : 2 * (sentOf sp l).length ≤ (encObjs (sentOf sp l)).length := by
  induction (sentOf sp l) with
  | nil => simp
  | cons o r ih => rw [encObjs_length_cons]; simp [osize]; omega

/-- an object that fits alone is sent when it comes first -/
theorem sent_ne_nil (sp : Int) (o : Nat × Bytes) (r : Info) (h : (osize o : Int) < sp) :
    sentOf sp (o :: r) ≠ [] := by
  simp only [sentOf]
  rw [if_neg (by omega)]
  simp

theorem rest_length_lt (sp : Int) (o : Nat × Bytes) (r : Info) (h : (osize o : Int) < sp) :
    (restOf sp (o :: r)).length < (o :: r).length := by
  have h1 := sent_append_rest sp (o :: r)
  have h2 := sent_ne_nil sp o r h
  have : (sentOf sp (o :: r)).length + (restOf sp (o :: r)).length = (o :: r).length := by
    rw [← List.length_append, h1]
  have : 0 < (sentOf sp (o :: r)).length := List.length_pos_iff.mpr h2
  omega

theorem sent_single_fit (sp : Int) (o : Nat × Bytes) (h : (osize o : Int) < sp) :
    sentOf sp [o] = [o] ∧ restOf sp [o] = [] := by
  simp only [sentOf, restOf]
  rw [if_neg (by omega), if_neg (by omega)]
  exact ⟨rfl, rfl⟩

/-- an object that can never fit stops the page at once -/
theorem sent_nil_of_big (sp : Int) (o : Nat × Bytes) (r : Info) (h : sp ≤ (osize o : Int)) :
    sentOf sp (o :: r) = [] ∧ restOf sp (o :: r) = o :: r := by
  simp only [sentOf, restOf]
  rw [if_pos (by omega), if_pos (by omega)]
  exact ⟨rfl, rfl⟩

theorem encodeObject_nofit (r : Resp) (oid : Nat) (data : Bytes) (sp : Int)
    (hsp : r.spaceLeft = some sp) (h : sp - (osize (oid, data) : Int) ≤ 0) :
    encodeObject r oid data = .ok ({ r with spaceLeft := some (sp - (osize (oid, data) : Int)) }, none) := by
  have e : sp - (2 + (data.length : Int)) = sp - (osize (oid, data) : Int) := by simp [osize]
  simp only [encodeObject, hsp, Option.getD_some, e, if_pos h]

theorem encodeObject_fit (r : Resp) (oid : Nat) (data : Bytes) (sp : Int)
    (hsp : r.spaceLeft = some sp) (h : ¬ sp - (osize (oid, data) : Int) ≤ 0)
    (hoid : oid < 256) (hlen : data.length < 256) :
    encodeObject r oid data =
      .ok ({ r with spaceLeft := some (sp - (osize (oid, data) : Int)),
                    numberOfObjects := r.numberOfObjects + 1 }, some (oid :: data.length :: data)) := by
  have e : sp - (2 + (data.length : Int)) = sp - (osize (oid, data) : Int) := by simp [osize]
  simp only [encodeObject, hsp, Option.getD_some, e, if_neg h, packB, hoid, hlen, if_true, bind,
    Except.bind, List.cons_append, List.nil_append]

/-- The `for` loop of `encode`: objects sent, object count, where it stopped. -/
theorem encodeLoop_spec (info : Info) : ∀ (r : Resp) (objects : Bytes) (sp : Int),
    r.spaceLeft = some sp → sp ≤ 256 → (∀ o ∈ info, o.1 < 256) →
    ∃ r', encodeLoop r objects info =
        .ok (r', objects ++ encObjs (sentOf sp info), (restOf sp info).head?.map (·.1)) ∧
      r'.numberOfObjects = r.numberOfObjects + (sentOf sp info).length ∧
      r'.moreFollows = r.moreFollows ∧ r'.nextObjectId = r.nextObjectId ∧
      r'.readCode = r.readCode ∧ r'.conformity = r.conformity := by
  induction info with
  | nil =>
    intro r objects sp _ _ _
    exact ⟨r, by simp [encodeLoop, sentOf, restOf, encObjs], by simp [sentOf], rfl, rfl, rfl, rfl⟩
  | cons o rest ih =>
    intro r objects sp hsp hle hid
    obtain ⟨oid, data⟩ := o
    have hoid : oid < 256 := hid (oid, data) (by simp)
    by_cases hfit : sp - (osize (oid, data) : Int) ≤ 0
    · simp only [encodeLoop, encodeObject_nofit r oid data sp hsp hfit, sentOf, restOf, if_pos hfit]
      exact ⟨{ r with spaceLeft := some (sp - (osize (oid, data) : Int)) }, by simp [encObjs],
        by simp, rfl, rfl, rfl, rfl⟩
    · have hlen : data.length < 256 := by simp [osize] at hfit; omega
      simp only [encodeLoop, encodeObject_fit r oid data sp hsp hfit hoid hlen, sentOf, restOf,
        if_neg hfit]
      obtain ⟨r', h1, h2, h3, h4, h5, h6⟩ := ih
        { r with spaceLeft := some (sp - (osize (oid, data) : Int)), numberOfObjects := r.numberOfObjects + 1 }
        (objects ++ (oid :: data.length :: data)) (sp - (osize (oid, data) : Int))
        rfl (by omega) (fun o ho => hid o (by simp [ho]))
      refine ⟨r', ?_, ?_, h3, h4, h5, h6⟩
      · rw [h1, encObjs_cons]; simp
      · rw [h2]; simp; omega

theorem packB_ok (n : Nat) (b : Bytes) (h : packB n = .ok b) : b = [n] := by
  unfold packB at h
  split at h
  · cases h; rfl
  · cases h

/-- whatever `information` holds, the loop adds strictly less than the space that was left -/
theorem encodeLoop_bound (info : Info) : ∀ (r : Resp) (objects : Bytes) (sp : Int) (r' : Resp)
    (objs' : Bytes) (oos : Option Nat), r.spaceLeft = some sp → 0 < sp →
    encodeLoop r objects info = .ok (r', objs', oos) → (objs'.length : Int) < objects.length + sp := by
  induction info with
  | nil =>
    intro r objects sp r' objs' oos _ hpos h
    simp only [encodeLoop, Except.ok.injEq, Prod.mk.injEq] at h
    rw [← h.2.1]; omega
  | cons o rest ih =>
    intro r objects sp r' objs' oos hsp hpos h
    obtain ⟨oid, data⟩ := o
    by_cases hfit : sp - (osize (oid, data) : Int) ≤ 0
    · simp only [encodeLoop, encodeObject_nofit r oid data sp hsp hfit, Except.ok.injEq,
        Prod.mk.injEq] at h
      rw [← h.2.1]; omega
    · simp only [encodeLoop] at h
      have e : sp - (2 + (data.length : Int)) = sp - (osize (oid, data) : Int) := by simp [osize]
      simp only [encodeObject, hsp, Option.getD_some, e, if_neg hfit, bind, Except.bind] at h
      cases ha : packB oid with
      | error x => simp [ha] at h
      | ok a =>
        cases hb : packB data.length with
        | error x => simp [ha, hb] at h
        | ok b =>
          simp only [ha, hb] at h
          have := ih _ _ (sp - (osize (oid, data) : Int)) r' objs' oos rfl (by omega) h
          rw [packB_ok _ _ ha, packB_ok _ _ hb] at this
          simp [osize] at this ⊢
          omega

theorem encodeHead_ok (r : Resp) (p : Bytes) (h : r.encodeHead = .ok p) :
    p = [0x0E, r.readCode, r.conformity] := by
  simp only [Resp.encodeHead, bind, Except.bind] at h
  cases h0 : packB 0x0E with
  | error x => simp [h0] at h
  | ok p0 =>
  cases h1 : packB r.readCode with
  | error x => simp [h0, h1] at h
  | ok p1 =>
  cases h2 : packB r.conformity with
  | error x => simp [h0, h1, h2] at h
  | ok p2 =>
    simp only [h0, h1, h2, Except.ok.injEq] at h
    rw [← h, packB_ok _ _ h0, packB_ok _ _ h1, packB_ok _ _ h2]; rfl

theorem encodeTail_ok (r r' : Resp) (packet objects bs : Bytes)
    (h : r.encodeTail packet objects = .ok (r', bs)) :
    r' = r ∧ bs = packet ++ [r.moreFollows, r.nextObjectId, r.numberOfObjects] ++ objects := by
  simp only [Resp.encodeTail, bind, Except.bind] at h
  cases h0 : packB r.moreFollows with
  | error x => simp [h0] at h
  | ok p0 =>
  cases h1 : packB r.nextObjectId with
  | error x => simp [h0, h1] at h
  | ok p1 =>
  cases h2 : packB r.numberOfObjects with
  | error x => simp [h0, h1, h2] at h
  | ok p2 =>
    simp only [h0, h1, h2, Except.ok.injEq, Prod.mk.injEq] at h
    rw [← h.1, ← h.2, packB_ok _ _ h0, packB_ok _ _ h1, packB_ok _ _ h2]
    exact ⟨rfl, rfl⟩

/-- No encoded response body is longer than 252 bytes (253 with the function code), whatever the
    response object holds. -/
theorem encode_bound (r r' : Resp) (bs : Bytes) (h : r.encode = .ok (r', bs)) : bs.length + 1 ≤ 253 := by
  unfold Resp.encode at h
  cases hh : r.encodeHead with
  | error x => simp [hh] at h
  | ok packet =>
    simp only [hh] at h
    cases hl : encodeLoop { r with spaceLeft := some 247, numberOfObjects := 0 } [] r.information with
    | error x => simp [hl] at h
    | ok res =>
      obtain ⟨r1, objects, oos⟩ := res
      simp only [hl] at h
      have hb := encodeLoop_bound r.information _ [] 247 r1 objects oos rfl (by omega) hl
      obtain ⟨_, e⟩ := encodeTail_ok _ _ _ _ _ h
      rw [e, encodeHead_ok r packet hh]
      simp at hb ⊢
      omega

theorem encodeHead_total (r : Resp) (h1 : r.readCode < 256) (h2 : r.conformity < 256) :
    r.encodeHead = .ok [0x0E, r.readCode, r.conformity] := by
  simp [Resp.encodeHead, packB, h1, h2, bind, Except.bind]

theorem encodeTail_total (r : Resp) (packet objects : Bytes) (h1 : r.moreFollows < 256)
    (h2 : r.nextObjectId < 256) (h3 : r.numberOfObjects < 256) :
    r.encodeTail packet objects =
      .ok (r, packet ++ [r.moreFollows, r.nextObjectId, r.numberOfObjects] ++ objects) := by
  simp [Resp.encodeTail, packB, h1, h2, h3, bind, Except.bind]

/-- `encode()` of a response whose paging fields are still the initial ones: which bytes, which
    paging fields afterwards. -/
theorem encode_fresh (r : Resp) (hm : r.moreFollows = 0)
    (hn : r.nextObjectId = 0) (hrc : r.readCode < 256) (hc : r.conformity < 256)
    (hid : ∀ o ∈ r.information, o.1 < 256) :
    ∃ r', r.encode =
        .ok (r', [0x0E, r.readCode, r.conformity,
                  (if restOf 247 r.information = [] then 0 else 0xFF),
                  ((restOf 247 r.information).head?.map (·.1)).getD 0,
                  (sentOf 247 r.information).length] ++ encObjs (sentOf 247 r.information)) ∧
      r'.moreFollows = (if restOf 247 r.information = [] then 0 else 0xFF) ∧
      r'.nextObjectId = ((restOf 247 r.information).head?.map (·.1)).getD 0 ∧
      r'.numberOfObjects = (sentOf 247 r.information).length := by
  obtain ⟨r1, hl, n1, n2, n3, n4, n5⟩ := encodeLoop_spec r.information
    { r with spaceLeft := some 247, numberOfObjects := 0 } [] 247 rfl (by omega) hid
  simp only [List.nil_append] at hl
  replace n1 : r1.numberOfObjects = (sentOf 247 r.information).length := by
    rw [n1]; show 0 + _ = _; omega
  replace n2 : r1.moreFollows = 0 := by rw [n2]; exact hm
  replace n3 : r1.nextObjectId = 0 := by rw [n3]; exact hn
  have hnum : (sentOf 247 r.information).length < 256 := by
    have := sent_size_lt 247 r.information (by omega)
    have := sent_length_le 247 r.information
    omega
  have hrest : ∀ o ∈ restOf 247 r.information, o.1 < 256 := by
    intro o ho
    apply hid o
    rw [← sent_append_rest 247 r.information]
    exact List.mem_append_right _ ho
  unfold Resp.encode
  rw [encodeHead_total _ hrc hc]
  simp only [hl]
  cases hr : restOf 247 r.information with
  | nil =>
    simp only [List.head?_nil, Option.map_none, Resp.noteOutOfSpace, if_true, Option.getD_none]
    rw [encodeTail_total r1 _ _ (by omega) (by omega) (by omega)]
    refine ⟨r1, ?_, n2, n3, n1⟩
    simp [n1, n2, n3]
  | cons o rest =>
    have ho : o.1 < 256 := hrest o (by rw [hr]; simp)
    simp only [List.head?_cons, Option.map_some, Resp.noteOutOfSpace, Option.getD_some]
    rw [encodeTail_total _ _ _ (by simp) (by simpa using ho) (by simp [n1]; exact hnum)]
    refine ⟨{ r1 with nextObjectId := o.1, moreFollows := 0xFF }, ?_, rfl, rfl, n1⟩
    simp [n1]

/-! ### client decoding of a page -/

theorem dinsert_fresh (acc : DInfo) (k : Nat) (v : Bytes) (h : ∀ a ∈ acc, a.1 ≠ k) :
    dinsert acc k v = acc ++ [(k, [v])] := by
  induction acc with
  | nil => rfl
  | cons a r ih =>
    obtain ⟨k', vs⟩ := a
    have : k' ≠ k := h (k', vs) (by simp)
    simp only [dinsert, this, if_false, List.cons_append]
    rw [ih (fun a ha => h a (by simp [ha]))]

/-- decoding the object area of a page whose ids are pairwise distinct gives the objects back -/
theorem decodeObjects_encObjs (sent : Info) : ∀ (acc : DInfo),
    sent.Pairwise (fun a b => a.1 ≠ b.1) → (∀ o ∈ sent, ∀ a ∈ acc, a.1 ≠ o.1) →
    decodeObjects (encObjs sent) acc = .ok (acc ++ sent.map (fun o => (o.1, [o.2]))) := by
  induction sent with
  | nil => intro acc _ _; simp [encObjs, decodeObjects]
  | cons o rest ih =>
    intro acc hp hd
    obtain ⟨k, v⟩ := o
    rw [List.pairwise_cons] at hp
    rw [encObjs_cons]
    simp only [List.cons_append]
    rw [decodeObjects]
    simp only [List.drop_left, List.take_left]
    rw [dinsert_fresh acc k v (fun a ha => hd (k, v) (by simp) a ha)]
    rw [ih _ hp.2]
    · simp
    · intro o ho a ha
      simp only [List.mem_append, List.mem_singleton] at ha
      rcases ha with ha | ha
      · exact hd o (by simp [ho]) a ha
      · rw [ha]; exact hp.1 o ho

theorem flatten_singletons (sent : Info) :
    (sent.map (fun o => (o.1, [o.2]))).flatMap (fun kv => kv.2.map (fun v => (kv.1, v))) = sent := by
  induction sent with
  | nil => rfl
  | cons o r ih => simp [List.flatMap_cons, ih]

/-- The client decodes an info response PDU back to the fields and objects the server put in. -/
theorem clientDecode_info (rc conf mf nxt num : Nat) (sent : Info)
    (hp : sent.Pairwise (fun a b => a.1 ≠ b.1)) :
    clientDecode (0x2B :: ([0x0E, rc, conf, mf, nxt, num] ++ encObjs sent)) =
      some (.info 0x0E rc conf mf nxt num (sent.map (fun o => (o.1, [o.2])))) := by
  simp only [clientDecode, if_true, List.cons_append, List.nil_append, respDecode]
  rw [decodeObjects_encObjs sent [] hp (by intro _ _ a ha; simp at ha)]
  simp [bind, Except.bind, Except.toOption]

/-! ### one exchange -/

theorem expected_sorted (f : Nat → Bytes) (rc s : Nat) :
    (expected f rc s).Pairwise (fun a b => a.1 < b.1) := by
  unfold expected
  rw [List.pairwise_map]
  exact List.pairwise_lt_range.filter _

theorem expected_mem (f : Nat → Bytes) (rc s : Nat) (o : Nat × Bytes) (h : o ∈ expected f rc s) :
    o.1 < 256 ∧ s ≤ o.1 ∧ inCategory rc o.1 = true ∧ f o.1 ≠ [] ∧ o.2 = f o.1 := by
  unfold expected at h
  simp only [List.mem_map, List.mem_filter, List.mem_range, Bool.and_eq_true, decide_eq_true_eq,
    bne_iff_ne, ne_eq] at h
  obtain ⟨k, ⟨hk, ⟨h1, h2⟩, h3⟩, rfl⟩ := h
  exact ⟨hk, h1, h2, h3, rfl⟩

theorem infoOf_sorted (f : Nat → Bytes) (rc oid : Nat) (h1 : 1 ≤ rc) (h4 : rc ≤ 4) :
    (infoOf f rc oid).Pairwise (fun a b => a.1 < b.1) := by
  by_cases h : rc ≤ 3
  · rw [infoOf_eq_expected f rc oid h1 h]; exact expected_sorted _ _ _
  · have : rc = 4 := by omega
    subst this
    simp [infoOf]

theorem infoOf_ids (f : Nat → Bytes) (rc oid : Nat) (h1 : 1 ≤ rc) (h4 : rc ≤ 4) (ho : oid ≤ 255) :
    ∀ o ∈ infoOf f rc oid, o.1 < 256 := by
  intro o hmem
  by_cases h : rc ≤ 3
  · rw [infoOf_eq_expected f rc oid h1 h] at hmem; exact (expected_mem _ _ _ _ hmem).1
  · have : rc = 4 := by omega
    subst this
    simp [infoOf] at hmem
    rw [hmem]; simp; omega

theorem pairwise_lt_ne (l : Info) (h : l.Pairwise (fun a b => a.1 < b.1)) :
    l.Pairwise (fun a b => a.1 ≠ b.1) :=
  h.imp (fun hab => Nat.ne_of_lt hab)

/-- One request/response exchange for a read code 1..4 and an object id ≤ 255, in terms of the
    abstract identity: the page carries the longest fitting prefix of the selected objects. -/
theorem step_spec (d : Ident) (rc oid : Nat) (h1 : 1 ≤ rc) (h4 : rc ≤ 4) (ho : oid ≤ 255) :
    ∃ d' p, step d rc oid = .ok (d', p) ∧ (∀ j, val d' j = val d j) ∧ p.exc = none ∧
      p.objects = sentOf 247 (infoOf (val d) rc oid) ∧
      p.continuation = (restOf 247 (infoOf (val d) rc oid)).head?.map (·.1) ∧
      p.pdu.length = 7 + (encObjs (sentOf 247 (infoOf (val d) rc oid))).length ∧
      p.moreFollows = (if restOf 247 (infoOf (val d) rc oid) = [] then 0 else 0xFF) ∧
      p.nextObjectId = ((restOf 247 (infoOf (val d) rc oid)).head?.map (·.1)).getD 0 ∧
      p.numberOfObjects = (sentOf 247 (infoOf (val d) rc oid)).length := by
  obtain ⟨d', hg, hv⟩ := factoryGet_spec d rc oid h1 h4
  have hids := infoOf_ids (val d) rc oid h1 h4 ho
  have hsorted := infoOf_sorted (val d) rc oid h1 h4
  generalize infoOf (val d) rc oid = info at hg hids hsorted ⊢
  have hrc0 : ¬ rc = 0 := by omega
  have hnew : Resp.new rc info = { readCode := rc, information := info } := by
    simp [Resp.new, hrc0]
  obtain ⟨r', he, m1, m2, m3⟩ := encode_fresh (Resp.new rc info) rfl rfl
    (by rw [hnew]; show rc < 256; omega) (by rw [hnew]; show (0x83 : Nat) < 256; omega) hids
  have hinfo : (Resp.new rc info).information = info := rfl
  rw [hinfo] at he m1 m2 m3
  have hsent : (sentOf 247 info).Pairwise (fun a b => a.1 ≠ b.1) := by
    have := pairwise_lt_ne info hsorted
    rw [← sent_append_rest 247 info] at this
    exact (List.pairwise_append.1 this).1
  have hreq : requestPdu rc oid = .ok [0x2B, 0x0E, rc, oid] := by
    have a : rc < 256 := by omega
    have b : oid < 256 := by omega
    simp [requestPdu, packB, hrc0, a, b, bind, Except.bind]
  have hexec : execute d rc oid = .ok (d', .resp (Resp.new rc info)) := by
    have a : ¬ ¬ oid ≤ 255 := by omega
    have b : ¬ ¬ rc ≤ 4 := by omega
    simp only [execute, a, b, if_false, hg, bind, Except.bind]
  have hrcn : (Resp.new rc info).readCode = rc := by rw [hnew]
  have hconf : (Resp.new rc info).conformity = 0x83 := rfl
  rw [hrcn, hconf] at he
  obtain ⟨body, hb⟩ : ∃ body, body = [0x0E, rc, 0x83, (if restOf 247 info = [] then 0 else 0xFF),
      ((restOf 247 info).head?.map (·.1)).getD 0, (sentOf 247 info).length] ++ encObjs (sentOf 247 info) :=
    ⟨_, rfl⟩
  rw [← hb] at he
  refine ⟨d', ⟨none, r'.moreFollows, r'.nextObjectId, r'.numberOfObjects, 0x2B :: body,
    clientDecode (0x2B :: body)⟩, ?_, hv, rfl, ?_, ?_, ?_, m1, m2, m3⟩
  · simp only [step, hreq, serve, serverDecode, hexec, he, bind, Except.bind]
  · simp only [Page.objects]
    rw [hb, clientDecode_info rc 0x83 _ _ _ _ hsent]
    exact flatten_singletons _
  · simp only [Page.continuation]
    rw [hb, clientDecode_info rc 0x83 _ _ _ _ hsent]
    cases restOf 247 info <;> simp
  · rw [hb]; simp; omega

/-! ### following the chain -/

theorem expected_filter (f : Nat → Bytes) (rc s : Nat) :
    expected f rc s = (expected f rc 0).filter (fun o => decide (s ≤ o.1)) := by
  unfold expected
  rw [List.filter_map, List.filter_filter]
  congr 1
  apply List.filter_congr
  intro x _
  simp only [Function.comp, Nat.zero_le, decide_true, Bool.true_and]
  cases decide (s ≤ x) <;> simp

/-- in an id-sorted list, the part from the id of an element on is the suffix starting there -/
theorem suffix_of_filter (l A B : Info) (o : Nat × Bytes) (s : Nat)
    (hs : l.Pairwise (fun a b => a.1 < b.1))
    (h : l.filter (fun x => decide (s ≤ x.1)) = A ++ o :: B) :
    l.filter (fun x => decide (o.1 ≤ x.1)) = o :: B := by
  have hM : (A ++ o :: B).Pairwise (fun a b => a.1 < b.1) := by rw [← h]; exact hs.filter _
  have hso : s ≤ o.1 := by
    have : o ∈ l.filter (fun x => decide (s ≤ x.1)) := by rw [h]; simp
    simpa using (List.mem_filter.1 this).2
  have e : l.filter (fun x => decide (o.1 ≤ x.1)) =
      (l.filter (fun x => decide (s ≤ x.1))).filter (fun x => decide (o.1 ≤ x.1)) := by
    rw [List.filter_filter]
    apply List.filter_congr
    intro x _
    by_cases hx : o.1 ≤ x.1
    · have : s ≤ x.1 := by omega
      simp [hx, this]
    · simp [hx]
  rw [e, h, List.filter_append]
  rw [List.pairwise_append] at hM
  obtain ⟨_, hoB, hA⟩ := hM
  rw [List.pairwise_cons] at hoB
  have hA' : A.filter (fun x => decide (o.1 ≤ x.1)) = [] := by
    rw [List.filter_eq_nil_iff]
    intro a ha
    have := hA a ha o (by simp)
    simp; omega
  have hB' : (o :: B).filter (fun x => decide (o.1 ≤ x.1)) = o :: B := by
    rw [List.filter_eq_self]
    intro b hb
    simp only [List.mem_cons] at hb
    rcases hb with hb | hb
    · rw [hb]; simp
    · have := hoB.1 b hb; simp; omega
  rw [hA', hB']; rfl

theorem expected_suffix (f : Nat → Bytes) (rc s : Nat) (A B : Info) (o : Nat × Bytes)
    (h : expected f rc s = A ++ o :: B) : expected f rc o.1 = o :: B := by
  rw [expected_filter] at h
  rw [expected_filter]
  exact suffix_of_filter _ A B o s (expected_sorted f rc 0) h

/-- asking again at the id of an object that was selected selects exactly the objects from it on -/
theorem infoOf_next (f : Nat → Bytes) (rc oid : Nat) (h1 : 1 ≤ rc) (h3 : rc ≤ 3) (A B : Info)
    (o : Nat × Bytes) (h : infoOf f rc oid = A ++ o :: B) : infoOf f rc o.1 = o :: B := by
  rw [infoOf_eq_expected f rc oid h1 h3] at h
  have hmem : o ∈ expected f rc (effStart f rc oid) := by rw [h]; simp
  have hne := (expected_mem _ _ _ _ hmem).2.2.2.1
  rw [infoOf_eq_expected f rc o.1 h1 h3]
  have : effStart f rc o.1 = o.1 := by
    unfold effStart
    split
    · rfl
    · first | rfl | (split <;> first | rfl | contradiction)
  rw [this]
  exact expected_suffix f rc _ A B o h

theorem moreFlagsOK_cons (p : PageView) (ps : List PageView) (h : moreFlagsOK ps = true) :
    moreFlagsOK (p :: ps) = p.more := by
  cases ps with
  | nil => simp [moreFlagsOK] at h
  | cons q qs => simp only [moreFlagsOK] at h ⊢; rw [h]; simp

theorem moreFlagsOK_all_more (ps : List PageView) (h : ∀ p ∈ ps, p.more = true) :
    moreFlagsOK ps = false := by
  induction ps with
  | nil => rfl
  | cons p ps ih =>
    cases ps with
    | nil => simp [moreFlagsOK, h p (by simp)]
    | cons q qs =>
      simp only [moreFlagsOK]
      have := ih (fun x hx => h x (by simp [hx]))
      rw [this]; simp

/-- The whole chain for a stream read code when every value fits alone on a page. -/
theorem chain_spec (f : Nat → Bytes) (rc : Nat) (h1 : 1 ≤ rc) (h3 : rc ≤ 3)
    (hfit : ∀ k, (f k).length ≤ 244) :
    ∀ (fuel : Nat) (d : Ident) (oid : Nat), val d = f → oid ≤ 255 →
      max 1 (infoOf f rc oid).length ≤ fuel →
      ∃ d' ps, chain fuel d rc oid = .ok (d', ps) ∧ val d' = f ∧
        ps.length ≤ max 1 (infoOf f rc oid).length ∧
        moreFlagsOK (ps.map viewOf) = true ∧ (∀ p ∈ ps, p.pdu.length ≤ 253) ∧
        ps.flatMap Page.objects = infoOf f rc oid := by
  intro fuel
  induction fuel with
  | zero => intro d oid _ _ h; omega
  | succ fuel ih =>
    intro d oid hv ho hfuel
    obtain ⟨d1, p, hstep, hv1, _, hobj, hcont, hlen, _, _, _⟩ := step_spec d rc oid h1 (by omega) ho
    rw [hv] at hobj hcont hlen
    have hv1' : val d1 = f := by funext j; rw [hv1 j, hv]
    have hsr := sent_append_rest 247 (infoOf f rc oid)
    have hpdu : p.pdu.length ≤ 253 := by
      have := sent_size_lt 247 (infoOf f rc oid) (by omega)
      omega
    cases hrest : restOf 247 (infoOf f rc oid) with
    | nil =>
      rw [hrest] at hcont hsr
      simp only [List.head?_nil, Option.map_none] at hcont
      refine ⟨d1, [p], ?_, hv1', by simp; omega, ?_, ?_, ?_⟩
      · simp only [chain, hstep, hcont]
      · simp [moreFlagsOK, viewOf, hcont]
      · intro q hq; simp at hq; rw [hq]; exact hpdu
      · simp [hobj]; simpa using hsr
    | cons o B =>
      rw [hrest] at hcont hsr
      simp only [List.head?_cons, Option.map_some] at hcont
      have hnext := infoOf_next f rc oid h1 h3 _ B o hsr.symm
      have hmem : o ∈ infoOf f rc oid := by rw [← hsr]; simp
      have ho1 : o.1 ≤ 255 := by
        have := infoOf_ids f rc oid h1 (by omega) ho o hmem; omega
      -- the first selected object fits, so the page is not empty and the rest is shorter
      have hshort : (o :: B).length < (infoOf f rc oid).length := by
        cases hL : infoOf f rc oid with
        | nil => rw [hL] at hmem; simp at hmem
        | cons x xs =>
          have hx : x ∈ expected f rc (effStart f rc oid) := by
            rw [← infoOf_eq_expected f rc oid h1 h3, hL]; simp
          have hx2 := (expected_mem _ _ _ _ hx).2.2.2.2
          have := hfit x.1
          have := rest_length_lt 247 x xs (by simp [osize]; rw [hx2]; omega)
          rw [← hrest, hL]; exact this
      obtain ⟨d2, ps, hch, hv2, hl2, hm2, hp2, ho2⟩ := ih d1 o.1 hv1' ho1 (by
        rw [hnext]; simp only [List.length_cons] at hshort ⊢; omega)
      rw [hnext] at hl2 ho2
      refine ⟨d2, p :: ps, ?_, hv2, ?_, ?_, ?_, ?_⟩
      · simp only [chain, hstep, hcont, hch]
      · simp only [List.length_cons] at hshort hl2 ⊢; omega
      · rw [List.map_cons, moreFlagsOK_cons _ _ hm2]; simp [viewOf, hcont]
      · intro q hq
        simp only [List.mem_cons] at hq
        rcases hq with hq | hq
        · rw [hq]; exact hpdu
        · exact hp2 q hq
      · rw [List.flatMap_cons, hobj, ho2]; exact hsr

/-! ### values, heads, the stuck page -/

theorem infoOf_values (f : Nat → Bytes) (rc oid : Nat) (h1 : 1 ≤ rc) (h4 : rc ≤ 4) :
    ∀ o ∈ infoOf f rc oid, o.2 = f o.1 := by
  intro o hmem
  by_cases h : rc ≤ 3
  · rw [infoOf_eq_expected f rc oid h1 h] at hmem; exact (expected_mem _ _ _ _ hmem).2.2.2.2
  · have : rc = 4 := by omega
    subst this
    simp [infoOf] at hmem
    rw [hmem]

/-- a configured object of the category heads the answer to a request that starts at it -/
theorem expected_head (f : Nat → Bytes) (rc oid : Nat) (ho : oid ≤ 255)
    (hcat : inCategory rc oid = true) (hne : f oid ≠ []) :
    ∃ B, expected f rc oid = (oid, f oid) :: B := by
  unfold expected
  obtain ⟨B, hB⟩ := sorted_head
    ((List.range 256).filter (fun k => decide (oid ≤ k) && inCategory rc k && (f k != []))) oid
    (List.pairwise_lt_range.filter _)
    (by simp only [List.mem_filter, List.mem_range, Bool.and_eq_true, decide_eq_true_eq, bne_iff_ne]
        exact ⟨by omega, ⟨Nat.le_refl _, hcat⟩, hne⟩)
    (by intro y hy
        simp only [List.mem_filter, Bool.and_eq_true, decide_eq_true_eq] at hy
        exact hy.2.1.1)
  rw [hB]
  exact ⟨_, rfl⟩

theorem infoOf_head (f : Nat → Bytes) (rc oid : Nat) (h1 : 1 ≤ rc) (h4 : rc ≤ 4) (ho : oid ≤ 255)
    (hcat : rc ≤ 3 → inCategory rc oid = true) (hne : f oid ≠ []) :
    ∃ B, infoOf f rc oid = (oid, f oid) :: B := by
  by_cases h : rc ≤ 3
  · rw [infoOf_eq_expected f rc oid h1 h]
    have : effStart f rc oid = oid := by
      unfold effStart
      split
      · rfl
      · first | rfl | (split <;> first | rfl | contradiction)
    rw [this]
    exact expected_head f rc oid ho (hcat h) hne
  · have : rc = 4 := by omega
    subst this
    exact ⟨[], by simp [infoOf]⟩

/-- A page that is not the last one carries at least one object, and the announced next id is
    beyond every object on it — provided every value fits alone on a page. -/
theorem step_progress (d : Ident) (rc oid : Nat) (h1 : 1 ≤ rc) (h4 : rc ≤ 4) (ho : oid ≤ 255)
    (hfit : ∀ k, (val d k).length ≤ 244) (d' : Ident) (p : Page) (nxt : Nat)
    (hs : step d rc oid = .ok (d', p)) (hc : p.continuation = some nxt) :
    p.objects ≠ [] ∧ ∀ o ∈ p.objects, o.1 < nxt := by
  obtain ⟨d1, p1, hstep, _, _, hobj, hcont, _⟩ := step_spec d rc oid h1 h4 ho
  rw [hs] at hstep
  simp only [Except.ok.injEq, Prod.mk.injEq] at hstep
  obtain ⟨_, rfl⟩ := hstep
  rw [hc] at hcont
  have hsr := sent_append_rest 247 (infoOf (val d) rc oid)
  have hsorted := infoOf_sorted (val d) rc oid h1 h4
  cases hrest : restOf 247 (infoOf (val d) rc oid) with
  | nil => rw [hrest] at hcont; simp at hcont
  | cons o B =>
    rw [hrest] at hcont hsr
    simp only [List.head?_cons, Option.map_some, Option.some.injEq] at hcont
    rw [hobj]
    constructor
    · cases hL : infoOf (val d) rc oid with
      | nil => rw [hL] at hsr; simp at hsr
      | cons x xs =>
        have hx := infoOf_values (val d) rc oid h1 h4 x (by rw [hL]; simp)
        have := hfit x.1
        exact sent_ne_nil 247 x xs (by simp [osize]; rw [hx]; omega)
    · intro a ha
      rw [← hsr, List.pairwise_append] at hsorted
      have := hsorted.2.2 a ha o (by simp)
      omega

/-- An object of 245 bytes or more at the requested id is never sent: the page is empty and
    points back at the same id. -/
theorem step_stuck (d : Ident) (rc oid : Nat) (h1 : 1 ≤ rc) (h4 : rc ≤ 4) (ho : oid ≤ 255)
    (hcat : rc ≤ 3 → inCategory rc oid = true) (hbig : 245 ≤ (val d oid).length) :
    ∃ d' p, step d rc oid = .ok (d', p) ∧ val d' = val d ∧ p.objects = [] ∧
      p.continuation = some oid ∧ p.moreFollows = 0xFF ∧ p.nextObjectId = oid ∧
      p.numberOfObjects = 0 ∧ p.pdu.length = 7 := by
  obtain ⟨d1, p1, hstep, hv, _, hobj, hcont, hlen, hm, hn, hnum⟩ := step_spec d rc oid h1 h4 ho
  have hne : val d oid ≠ [] := by
    intro e; rw [e] at hbig; simp at hbig
  obtain ⟨B, hB⟩ := infoOf_head (val d) rc oid h1 h4 ho hcat hne
  obtain ⟨e1, e2⟩ := sent_nil_of_big 247 (oid, val d oid) B (by simp [osize]; omega)
  rw [hB, e1] at hobj hlen hnum
  rw [hB, e2] at hcont hm hn
  refine ⟨d1, p1, hstep, funext hv, hobj, by simpa using hcont, by simpa using hm,
    by simpa using hn, by simpa using hnum, by simpa [encObjs] using hlen⟩

/-- …so the client loop never ends by itself: with a cap of `fuel` requests it makes `fuel`
    requests, every page empty, every page saying "more follows, next = the same id". -/
theorem chain_stuck (rc oid : Nat) (h1 : 1 ≤ rc) (h4 : rc ≤ 4) (ho : oid ≤ 255)
    (hcat : rc ≤ 3 → inCategory rc oid = true) :
    ∀ (fuel : Nat) (d : Ident), 245 ≤ (val d oid).length →
      ∃ d' ps, chain fuel d rc oid = .ok (d', ps) ∧ ps.length = fuel ∧
        ∀ p ∈ ps, p.objects = [] ∧ p.continuation = some oid := by
  intro fuel
  induction fuel with
  | zero => intro d _; exact ⟨d, [], rfl, rfl, by simp⟩
  | succ fuel ih =>
    intro d hbig
    obtain ⟨d1, p, hstep, hv, hobj, hcont, _⟩ := step_stuck d rc oid h1 h4 ho hcat hbig
    obtain ⟨d2, ps, hch, hl, hall⟩ := ih d1 (by rw [hv]; exact hbig)
    refine ⟨d2, p :: ps, by simp only [chain, hstep, hcont, hch], by simp [hl], ?_⟩
    intro q hq
    simp only [List.mem_cons] at hq
    rcases hq with hq | hq
    · rw [hq]; exact ⟨hobj, hcont⟩
    · exact hall q hq

/-! ### assembling the Spec verdict -/

theorem infoOf_start_ok (f : Nat → Bytes) (rc start : Nat) (h1 : 1 ≤ rc) (h3 : rc ≤ 3)
    (hs : StartOK f rc start) : infoOf f rc start = expected f rc start := by
  rw [infoOf_eq_expected f rc start h1 h3]
  congr 1
  unfold effStart
  split
  · rfl
  · split
    · rfl
    · rename_i hne
      rcases hs with e | ⟨_, e⟩
      · exact e.symm
      · exact absurd e hne

theorem chainOK_intro (ps : List Page) (exp : Objects) (hm : moreFlagsOK (ps.map viewOf) = true)
    (hp : ∀ p ∈ ps, p.pdu.length ≤ 253) (ho : ps.flatMap Page.objects = exp) :
    chainOK (ps.map viewOf) exp = true := by
  simp only [chainOK, hm, Bool.true_and, Bool.and_eq_true, List.all_eq_true, decide_eq_true_eq,
    List.mem_map, forall_exists_index, and_imp, maxPdu]
  refine ⟨?_, ?_⟩
  · intro v p hpm hv; rw [← hv]; exact decide_eq_true (hp p hpm)
  · rw [List.flatMap_map]; exact ho

end Pymodbus.DevId
