/- C15 helper lemmas, byte level: the peer answers a whole request frame with the reply of that request, the two
   reads of `_recv` return exactly that reply, the socket framer decodes it to the expected message; chunk pairs. -/
import Pymodbus.Model.Sched
import Pymodbus.Spec.SchedSpec
import Pymodbus.Lemmas.FramerSteps
namespace Pymodbus.Sched
open Pymodbus Pymodbus.Framer

/-- the reply the peer gives to the frame of request `r` sent with transaction id `tid` -/
def replyOf (tid : Nat) (r : Req) : Bytes :=
  if 1 ≤ r.count ∧ r.count ≤ 125 then
    tcpFrame tid 0 r.unit 3 ((2 * r.count) :: regBytes r.addr r.count)
  else tcpFrame tid 0 r.unit 0x83 [3]

theorem divmod256 (n : Nat) : n / 256 * 256 + n % 256 = n := by omega

theorem regBytes_length (a n : Nat) : (regBytes a n).length = 2 * n := by
  induction n generalizing a with
  | zero => rfl
  | succ n ih => simp [regBytes, ih]; omega

theorem replyTo_frame (tid : Nat) (r : Req) : replyTo (frameOf tid r) = replyOf tid r := by
  have ea : r.addr / 256 * 256 + r.addr % 256 = r.addr := divmod256 _
  have ec : r.count / 256 * 256 + r.count % 256 = r.count := divmod256 _
  simp only [replyTo, frameOf, replyOf, tcpFrame, List.drop, List.getD_cons_zero, List.getD_cons_succ, ea, ec]
  split
  · simp [regBytes_length]; omega
  · simp

theorem server_send1 (tid : Nat) (r : Req) :
    serverWrite [] ((frameOf tid r).take 7) = ((frameOf tid r).take 7, []) := by
  simp [serverWrite, serverParse, frameOf, be16at]

theorem server_send2 (tid : Nat) (r : Req) :
    serverWrite ((frameOf tid r).take 7) ((frameOf tid r).drop 7) = ([], replyTo (frameOf tid r)) := by
  simp [serverWrite, serverParse, frameOf, be16at]

theorem replyOf_length (tid : Nat) (r : Req) : 9 ≤ (replyOf tid r).length := by
  unfold replyOf; split <;> simp [tcpFrame]

theorem replyOf_take8 (tid : Nat) (r : Req) : ((replyOf tid r).take 8).length = 8 := by
  have := replyOf_length tid r
  simp; omega

theorem restSize_reply (tid : Nat) (r : Req) :
    restSize ((replyOf tid r).take 8) = (replyOf tid r).length - 8 := by
  unfold replyOf
  split
  · rename_i h
    have e : (3 + 2 * r.count) / 256 * 256 + (3 + 2 * r.count) % 256 = 3 + 2 * r.count := divmod256 _
    simp [restSize, tcpFrame, be16at, regBytes_length]
    omega
  · simp [restSize, tcpFrame]

theorem readRegs_regBytes (a n : Nat) :
    readRegs n (regBytes a n) = some ((List.range n).map (fun i => (a + i) % 65536)) := by
  induction n generalizing a with
  | zero => rfl
  | succ n ih =>
    simp only [regBytes, List.cons_append, List.nil_append, readRegs, ih, Option.map_some, divmod256]
    rw [List.range_succ_eq_map]
    simp [Nat.add_assoc, Nat.add_comm 1]

theorem decode_reply (r : Req) :
    decodeResp (if 1 ≤ r.count ∧ r.count ≤ 125 then 3 :: (2 * r.count) :: regBytes r.addr r.count else [0x83, 3]) =
      some (Spec.expected r) := by
  unfold Spec.expected
  split
  · have : (2 * r.count + 1) / 2 = r.count := by omega
    simp [decodeResp, this, readRegs_regBytes]
  · simp [decodeResp]

theorem procRun_whole (unit tid uid fc : Nat) (data : Bytes) (m : Msg) (fuel : Nat) (last : Option Result)
    (hu : validUnit [unit] false uid = true) (hd : decodeResp (fc :: data) = some m)
    (ha : answers tid tid m = true) :
    procRun unit tid (fuel + 2) (tcpFrame tid 0 uid fc data) last = (some (.ok tid uid m), false, []) := by
  have hw := tcp_whole tid 0 uid fc data []
  rw [List.append_nil] at hw
  have hn : tcpStep [] = .wait := by simp [tcpStep]
  rw [procRun, hw]
  simp only [hu, if_true, hd, List.drop_length, ha]
  rw [procRun, hn]

theorem validUnit_self (u : Nat) : validUnit [u] false u = true := by simp [validUnit]

/-- the reply to a request passes the `_addReply` filter of that request -/
theorem answers_expected (tid : Nat) (r : Req) : answers tid tid (Spec.expected r) = true := by
  unfold Spec.expected
  split <;> simp [answers]

theorem process_reply (tid : Nat) (r : Req) :
    processResp r.unit tid [] (replyOf tid r) = (.ok tid r.unit (Spec.expected r), []) := by
  have hd := decode_reply r
  have ha := answers_expected tid r
  unfold processResp
  simp only [List.nil_append]
  have hlen := replyOf_length tid r
  obtain ⟨fuel, hf⟩ : ∃ fuel, (replyOf tid r).length + 1 = fuel + 2 := ⟨(replyOf tid r).length - 1, by omega⟩
  rw [hf]
  unfold replyOf at hd ⊢
  split
  · rename_i h
    rw [if_pos h] at hd
    rw [procRun_whole _ _ _ _ _ _ _ _ (validUnit_self _) hd ha]
    rfl
  · rename_i h
    rw [if_neg h] at hd
    rw [procRun_whole _ _ _ _ _ _ _ _ (validUnit_self _) hd ha]
    rfl

theorem reply_reassembled (tid : Nat) (r : Req) :
    (replyOf tid r).take 8 ++ ((replyOf tid r).drop 8).take ((replyOf tid r).length - 8) = replyOf tid r ∧
    ((replyOf tid r).drop 8).drop ((replyOf tid r).length - 8) = [] := by
  have h := replyOf_length tid r
  constructor
  · rw [List.take_of_length_le (l := (replyOf tid r).drop 8) (by simp), List.take_append_drop]
  · simp; omega

/-! ### upd -/

theorem upd_same {α : Type} (f : Nat → α) (i : Nat) (v : α) : upd f i v i = v := by simp [upd]
theorem upd_other {α : Type} (f : Nat → α) (i j : Nat) (v : α) (h : j ≠ i) : upd f i v j = f j := by simp [upd, h]

/-! ### chunk pairs -/

/-- the wire consists of whole frames: (header, rest) pairs, each pair by one thread -/
def pairs : List Chunk → Bool
  | [] => true
  | [_] => false
  | c1 :: c2 :: r => c1.first && !c2.first && c1.thread == c2.thread && c1.conn == c2.conn && pairs r

theorem pairs_contiguous (w : List Chunk) (h : pairs w = true) : Spec.contiguous w = true := by
  fun_induction pairs w with
  | case1 => rfl
  | case2 => simp at h
  | case3 c1 c2 r ih =>
    simp only [Bool.and_eq_true] at h
    simp only [Spec.contiguous, Bool.and_eq_true]
    exact ⟨h.1, ih h.2⟩

theorem pairs_snoc1 (w : List Chunk) (c : Chunk) (h : pairs w = true) (hc : c.first = true) :
    Spec.contiguous (w ++ [c]) = true := by
  fun_induction pairs w with
  | case1 => simpa [Spec.contiguous] using hc
  | case2 => simp at h
  | case3 c1 c2 r ih =>
    simp only [Bool.and_eq_true] at h
    simp only [List.cons_append, Spec.contiguous, Bool.and_eq_true]
    exact ⟨h.1, ih h.2⟩

theorem pairs_snoc2 (w : List Chunk) (c1 c2 : Chunk) (h : pairs w = true) (h1 : c1.first = true)
    (h2 : c2.first = false) (ht : c1.thread = c2.thread) (hc : c1.conn = c2.conn) :
    pairs (w ++ [c1, c2]) = true := by
  fun_induction pairs w with
  | case1 => simp [pairs, h1, h2, ht, hc]
  | case2 => simp at h
  | case3 d1 d2 r ih =>
    simp only [Bool.and_eq_true] at h
    simp only [List.cons_append, pairs, Bool.and_eq_true]
    exact ⟨h.1, ih h.2⟩
end Pymodbus.Sched
