/- C15 helper lemmas, client connected before the threads start: on top of the lock discipline, the transport is
   exactly where the holder's transaction left it (byte level), so every transaction decodes the reply to its own
   request. -/
import Pymodbus.Lemmas.Sched
namespace Pymodbus.Sched
open Pymodbus Pymodbus.Framer

/-- the part of the state the transactions share on the transport side (connection 0 is the only one in use) -/
structure Shared where
  pending : Bytes
  stream : Bytes
  buf : Bytes
  wire : List Chunk

def State.shared (s : State) : Shared := ⟨s.pending 0, s.stream 0, s.buf, s.wire⟩

/-- nothing in transit: the peer has parsed everything, every reply byte has been read, the framer buffer is
    empty, the wire holds whole frames -/
def Quiet (sh : Shared) : Prop := sh.pending = [] ∧ sh.stream = [] ∧ sh.buf = [] ∧ pairs sh.wire = true

/-- where the lock holder is inside its transaction, and what the transport looks like there -/
inductive Stage (sh : Shared) (t : Nat) (th : Thread) : Prop where
  | tid (k : Nat) (h : th.ops = .tid :: .connect :: .send1 :: .send2 :: tailOps k) (q : Quiet sh)
  | connect (k : Nat) (h : th.ops = .connect :: .send1 :: .send2 :: tailOps k) (q : Quiet sh) (hf : th.full = false)
  | send1 (k : Nat) (h : th.ops = .send1 :: .send2 :: tailOps k) (q : Quiet sh) (hf : th.full = false)
      (hfr : th.frame = frameOf th.tidv th.cur) (hc : th.sconn = 0)
  | send2 (k : Nat) (h : th.ops = .send2 :: tailOps k) (hf : th.full = false)
      (hfr : th.frame = frameOf th.tidv th.cur) (hc : th.sconn = 0) (hp : sh.pending = th.frame.take 7)
      (hs : sh.stream = []) (hb : sh.buf = [])
      (hw : ∃ w, pairs w = true ∧ sh.wire = w ++ [⟨t, true, 0, th.frame.take 7⟩])
  | waiting (k : Nat) (h : th.ops = tailOps k) (hf : th.full = false) (hp : sh.pending = [])
      (hs : sh.stream = replyOf th.tidv th.cur) (hb : sh.buf = []) (hw : pairs sh.wire = true)
  | recv2 (h : th.ops = [.recv2, .process, .release]) (hh : th.hdr = (replyOf th.tidv th.cur).take 8)
      (hp : sh.pending = []) (hs : sh.stream = (replyOf th.tidv th.cur).drop 8) (hb : sh.buf = [])
      (hw : pairs sh.wire = true)
  | process (h : th.ops = [.process, .release]) (hr : th.resp = replyOf th.tidv th.cur) (q : Quiet sh)
  | release (h : th.ops = [.release]) (q : Quiet sh)

/-- not inside a transaction: between transactions, or about to take the lock (the client is connected: nobody
    opens a connection) -/
def Outside (th : Thread) : Prop :=
  th.ops = [] ∨ ∃ k, th.ops = .acquire :: .tid :: .connect :: .send1 :: .send2 :: tailOps k

/-- per-thread bookkeeping: every result so far is the reply to its own request, and
    results ++ request in progress ++ requests not started = the requests the thread was given -/
structure ThreadOK (reqs : Nat → List Req) (t : Nat) (th : Thread) : Prop where
  served : ∀ x ∈ th.results, Spec.OwnReply x
  conserve : Conserved reqs t th

structure Inv (reqs : Nat → List Req) (s : State) : Prop where
  noResp : s.noResp = []
  sock : s.sock = some 0
  free : s.locks 0 = none → Quiet s.shared ∧ ∀ t, Outside (s.threads t)
  held : ∀ h d, s.locks 0 = some (h, d) →
    d = 1 ∧ Stage s.shared h (s.threads h) ∧ ∀ t, t ≠ h → Outside (s.threads t)
  ok : ∀ t, ThreadOK reqs t (s.threads t)

theorem Stage.head {sh : Shared} {t : Nat} {th : Thread} (h : Stage sh t th) :
    ∃ op l, th.ops = op :: l ∧ op ≠ .acquire := by
  cases h with
  | waiting k h =>
    cases k with
    | zero => exact ⟨_, _, h, by simp⟩
    | succ k => exact ⟨_, _, by rw [h, tailOps_succ], by simp⟩
  | tid k h => exact ⟨_, _, h, by simp⟩
  | connect k h => exact ⟨_, _, h, by simp⟩
  | send1 k h => exact ⟨_, _, h, by simp⟩
  | send2 k h => exact ⟨_, _, h, by simp⟩
  | recv2 h => exact ⟨_, _, h, by simp⟩
  | process h => exact ⟨_, _, h, by simp⟩
  | release h => exact ⟨_, _, h, by simp⟩

theorem Stage.not_outside {sh : Shared} {t : Nat} {th : Thread} (h : Stage sh t th) : ¬ Outside th := by
  obtain ⟨op, l, ho, hne⟩ := h.head
  intro hout
  cases hout with
  | inl h0 => rw [h0] at ho; cases ho
  | inr hk => obtain ⟨k, hk⟩ := hk; rw [hk] at ho; cases ho; exact hne rfl

theorem ThreadOK.congr {reqs : Nat → List Req} {t : Nat} {th th' : Thread} (h : ThreadOK reqs t th)
    (h1 : th'.results = th.results) (h2 : th'.todo = th.todo) (h3 : curPending th' = curPending th) :
    ThreadOK reqs t th' :=
  ⟨by rw [h1]; exact h.served, h.conserve.congr h1 h2 h3⟩

variable {reqs : Nat → List Req}

/-- the lock holder moves inside its transaction (the lock does not change hands) -/
theorem inv_holder_step {s s' : State} {h : Nat} (hi : Inv reqs s) (hl : s.locks 0 = some (h, 1))
    (hoth : ∀ u, u ≠ h → s'.threads u = s.threads u) (hlocks : s'.locks = s.locks) (hn : s'.noResp = [])
    (hso : s'.sock = some 0) (hst : Stage s'.shared h (s'.threads h)) (hok : ThreadOK reqs h (s'.threads h)) :
    Inv reqs s' := by
  obtain ⟨_, _, hout⟩ := hi.held h 1 hl
  refine ⟨hn, hso, ?_, ?_, ?_⟩
  · intro hf; rw [hlocks, hl] at hf; cases hf
  · intro h' d hd
    rw [hlocks, hl] at hd
    cases hd
    exact ⟨rfl, hst, fun t ht => by rw [hoth t ht]; exact hout t ht⟩
  · intro t
    by_cases ht : t = h
    · subst ht; exact hok
    · rw [hoth t ht]; exact hi.ok t

/-- a thread that does not hold the lock moves without touching the lock or the transport -/
theorem inv_outsider_step {s s' : State} {t : Nat} (hi : Inv reqs s)
    (hnot : ∀ h d, s.locks 0 = some (h, d) → t ≠ h)
    (hoth : ∀ u, u ≠ t → s'.threads u = s.threads u) (hlocks : s'.locks = s.locks) (hn : s'.noResp = s.noResp)
    (hso : s'.sock = s.sock) (hsh : s'.shared = s.shared) (hout : Outside (s'.threads t))
    (hok : ThreadOK reqs t (s'.threads t)) : Inv reqs s' := by
  refine ⟨by rw [hn]; exact hi.noResp, by rw [hso]; exact hi.sock, ?_, ?_, ?_⟩
  · intro hf
    rw [hlocks] at hf
    obtain ⟨q, ho⟩ := hi.free hf
    refine ⟨by rw [hsh]; exact q, fun u => ?_⟩
    by_cases hu : u = t
    · subst hu; exact hout
    · rw [hoth u hu]; exact ho u
  · intro h d hl
    rw [hlocks] at hl
    obtain ⟨hd, hst, ho⟩ := hi.held h d hl
    have hth := hnot h d hl
    refine ⟨hd, ?_, ?_⟩
    · rw [hoth h (Ne.symm hth), hsh]; exact hst
    · intro u hu
      by_cases hut : u = t
      · subst hut; exact hout
      · rw [hoth u hut]; exact ho u hu
  · intro u
    by_cases hu : u = t
    · subst hu; exact hok
    · rw [hoth u hu]; exact hi.ok u

/-- a thread takes the free lock -/
theorem inv_acquire {s s' : State} {t : Nat} (hi : Inv reqs s) (hf : s.locks 0 = none)
    (hoth : ∀ u, u ≠ t → s'.threads u = s.threads u) (hlocks : s'.locks 0 = some (t, 1))
    (hn : s'.noResp = s.noResp) (hso : s'.sock = s.sock) (hst : Stage s'.shared t (s'.threads t))
    (hok : ThreadOK reqs t (s'.threads t)) : Inv reqs s' := by
  obtain ⟨_, ho⟩ := hi.free hf
  refine ⟨by rw [hn]; exact hi.noResp, by rw [hso]; exact hi.sock, ?_, ?_, ?_⟩
  · intro h; rw [hlocks] at h; cases h
  · intro h d hl
    rw [hlocks] at hl
    cases hl
    exact ⟨rfl, hst, fun u hu => by rw [hoth u hu]; exact ho u⟩
  · intro u
    by_cases hu : u = t
    · subst hu; exact hok
    · rw [hoth u hu]; exact hi.ok u

/-- the holder gives the lock back -/
theorem inv_release {s s' : State} {h : Nat} (hi : Inv reqs s) (hl : s.locks 0 = some (h, 1))
    (hoth : ∀ u, u ≠ h → s'.threads u = s.threads u) (hlocks : s'.locks 0 = none) (hn : s'.noResp = s.noResp)
    (hso : s'.sock = s.sock) (q : Quiet s'.shared) (hout : Outside (s'.threads h))
    (hok : ThreadOK reqs h (s'.threads h)) : Inv reqs s' := by
  obtain ⟨_, _, ho⟩ := hi.held h 1 hl
  refine ⟨by rw [hn]; exact hi.noResp, by rw [hso]; exact hi.sock, ?_, ?_, ?_⟩
  · intro _
    refine ⟨q, fun u => ?_⟩
    by_cases hu : u = h
    · subst hu; exact hout
    · rw [hoth u hu]; exact ho u hu
  · intro h' d hl'; rw [hlocks] at hl'; cases hl'
  · intro u
    by_cases hu : u = h
    · subst hu; exact hok
    · rw [hoth u hu]; exact hi.ok u

theorem inv_holder_op {s : State} {t : Nat} {op : Op} {ops : List Op} (hi : Inv reqs s)
    (hl : s.locks 0 = some (t, 1)) (hst : Stage s.shared t (s.threads t))
    (hops : (s.threads t).ops = op :: ops) : Inv reqs (stepOp .whole s t (s.threads t) ops op) := by
  have hok := hi.ok t
  have hs := hi.sock
  have hnr := hi.noResp
  have hoth := fun u (hu : u ≠ t) => stepOp_threads_other .whole s t (s.threads t) ops op u hu
  cases hst with
  | tid k h q =>
    rw [h] at hops; cases hops
    refine inv_holder_step hi hl hoth rfl hnr hs (Stage.connect k ?_ ⟨q.1, q.2.1, rfl, q.2.2.2⟩ ?_) ?_
    · simp [stepOp, upd_same]
    · simp [stepOp, upd_same, hnr]
    · exact hok.congr (by simp [stepOp, upd_same]) (by simp [stepOp, upd_same])
        (curPending_congr (by simp [stepOp, upd_same]) (by rw [h]; simp) (by simp [stepOp, upd_same]))
  | connect k h q hf =>
    rw [h] at hops; cases hops
    refine inv_holder_step hi hl hoth (by simp [stepOp, hs]) (by simpa [stepOp, hs] using hnr)
      (by simpa [stepOp, hs] using hs) (Stage.send1 k ?_ ?_ ?_ ?_ ?_) ?_
    · simp [stepOp, hs, upd_same]
    · simpa [stepOp, hs, State.shared] using q
    · simpa [stepOp, hs, upd_same] using hf
    · simp [stepOp, hs, upd_same]
    · simp [stepOp, hs, upd_same]
    · exact hok.congr (by simp [stepOp, hs, upd_same]) (by simp [stepOp, hs, upd_same])
        (curPending_congr (by simp [stepOp, hs, upd_same]) (by rw [h]; simp) (by simp [stepOp, hs, upd_same]))
  | send1 k h q hf hfr hc =>
    rw [h] at hops; cases hops
    have hp0 : s.pending 0 = [] := q.1
    have hs0 : s.stream 0 = [] := q.2.1
    refine inv_holder_step hi hl hoth rfl hnr hs (Stage.send2 k ?_ ?_ ?_ ?_ ?_ ?_ q.2.2.1 ⟨s.wire, q.2.2.2, ?_⟩) ?_
    · simp [stepOp, upd_same]
    · simpa [stepOp, upd_same] using hf
    · simpa [stepOp, upd_same] using hfr
    · simpa [stepOp, upd_same] using hc
    · simp only [stepOp, State.shared, upd_same, hc, hp0, hfr, server_send1]
    · simp only [stepOp, State.shared, upd_same, hc, hp0, hs0, hfr, server_send1, List.append_nil]
    · simp [stepOp, State.shared, upd_same, hc]
    · exact hok.congr (by simp [stepOp, upd_same]) (by simp [stepOp, upd_same])
        (curPending_congr (by simp [stepOp, upd_same]) (by rw [h]; simp)
          (by simp only [stepOp, upd_same]; exact len2_cons _ k))
  | send2 k h hf hfr hc hp hsm hb hw =>
    rw [h] at hops; cases hops
    have hp0 : s.pending 0 = (s.threads t).frame.take 7 := hp
    have hs0 : s.stream 0 = [] := hsm
    obtain ⟨w, hw1, hw2⟩ := hw
    have hw0 : s.wire = w ++ [⟨t, true, 0, (s.threads t).frame.take 7⟩] := hw2
    refine inv_holder_step hi hl hoth (by simp [stepOp, hs]) (by simpa [stepOp, hs] using hnr)
      (by simpa [stepOp, hs] using hs) (Stage.waiting k ?_ ?_ ?_ ?_ ?_ ?_) ?_
    · simp [stepOp, hs, upd_same]
    · simpa [stepOp, hs, upd_same] using hf
    · simp only [stepOp, hs, State.shared, upd_same, hc, hp0, hfr, server_send2]
    · simp only [stepOp, hs, State.shared, upd_same, hc, hp0, hs0, hfr, server_send2, replyTo_frame,
        List.nil_append]
    · simpa [stepOp, hs, State.shared] using hb
    · simp only [stepOp, hs, State.shared, hc, hw0, List.append_assoc]
      exact pairs_snoc2 w _ _ hw1 rfl rfl rfl rfl
    · exact hok.congr (by simp [stepOp, hs, upd_same]) (by simp [stepOp, hs, upd_same])
        (curPending_congr (by simp [stepOp, hs, upd_same]) (by rw [h]; exact len2_cons _ k)
          (by simp only [stepOp, hs, upd_same]; exact len2_tail k))
  | waiting k h hf hp hsm hb hw =>
    have hs0 : s.stream 0 = replyOf (s.threads t).tidv (s.threads t).cur := hsm
    cases k with
    | succ k =>
      rw [h, tailOps_succ] at hops; cases hops
      refine inv_holder_step hi hl hoth rfl hnr hs (Stage.waiting k ?_ ?_ hp ?_ hb hw) ?_
      · simp [stepOp, upd_same]
      · simpa [stepOp, upd_same] using hf
      · simpa [stepOp, State.shared, upd_same] using hs0
      · exact hok.congr (by simp [stepOp, upd_same]) (by simp [stepOp, upd_same])
          (curPending_congr (by simp [stepOp, upd_same]) (by rw [h]; exact len2_tail _)
            (by simp only [stepOp, upd_same]; exact len2_tail k))
    | zero =>
      rw [h, tailOps_zero] at hops; cases hops
      have e8 : ((s.stream 0).take 8).length = 8 := by rw [hs0]; exact replyOf_take8 _ _
      have e : stepOp .whole s t (s.threads t) [.recv2, .process, .release] .recv1 =
          { s with stream := upd s.stream 0 ((s.stream 0).drop 8),
                   threads := upd s.threads t
                     { s.threads t with ops := [.recv2, .process, .release], hdr := (s.stream 0).take 8 },
                   trace := (t, .recv1) :: s.trace } := by
        simp only [stepOp, hs, hf, Bool.false_eq_true, if_false]
        rw [if_pos e8]
      have hoth' := hoth
      rw [e] at hoth' ⊢
      refine inv_holder_step hi hl hoth' rfl hnr hs (Stage.recv2 ?_ ?_ hp ?_ hb hw) ?_
      · simp [upd_same]
      · simp only [upd_same, hs0]
      · simp only [State.shared, upd_same, hs0]
      · exact hok.congr (by simp [upd_same]) (by simp [upd_same])
          (curPending_congr (by simp [upd_same]) (by rw [h]; exact len2_tail 0) (by simp [upd_same]))
  | recv2 h hh hp hsm hb hw =>
    rw [h] at hops; cases hops
    have hs0 : s.stream 0 = (replyOf (s.threads t).tidv (s.threads t).cur).drop 8 := hsm
    have hresp : (s.threads t).hdr ++ (s.stream 0).take (restSize (s.threads t).hdr) =
        replyOf (s.threads t).tidv (s.threads t).cur := by
      rw [hh, hs0, restSize_reply]; exact (reply_reassembled _ _).1
    have hl9 := replyOf_length (s.threads t).tidv (s.threads t).cur
    have hne : (replyOf (s.threads t).tidv (s.threads t).cur).isEmpty = false := by
      cases hr : replyOf (s.threads t).tidv (s.threads t).cur with
      | nil => rw [hr] at hl9; simp at hl9
      | cons a l => rfl
    refine inv_holder_step hi hl hoth (by simp [stepOp, hs]) ?_ (by simp [stepOp, hs])
      (Stage.process ?_ ?_ ⟨?_, ?_, ?_, ?_⟩) ?_
    · simp only [stepOp, hs, hresp, hnr]
      simp [noteResp, hne]
    · simp [stepOp, hs, upd_same]
    · simp only [stepOp, hs, upd_same, hresp]
    · simpa [stepOp, hs, State.shared] using hp
    · simp only [stepOp, hs, State.shared, upd_same]
      rw [hh, hs0, restSize_reply]; exact (reply_reassembled _ _).2
    · simpa [stepOp, hs, State.shared] using hb
    · simpa [stepOp, hs, State.shared] using hw
    · exact hok.congr (by simp [stepOp, hs, upd_same]) (by simp [stepOp, hs, upd_same])
        (curPending_congr (by simp [stepOp, hs, upd_same]) (by rw [h]; simp) (by simp [stepOp, hs, upd_same]))
  | process h hr q =>
    rw [h] at hops; cases hops
    have hb0 : s.buf = [] := q.2.2.1
    have hpr := process_reply (s.threads t).tidv (s.threads t).cur
    have hlen : 2 ≤ (s.threads t).ops.length := by rw [h]; simp
    refine inv_holder_step hi hl hoth rfl hnr hs (Stage.release ?_ ⟨q.1, q.2.1, ?_, q.2.2.2⟩) ⟨?_, ?_⟩
    · simp [stepOp, upd_same]
    · show (processResp (s.threads t).cur.unit s.buf (s.threads t).resp).2 = []
      rw [hb0, hr, hpr]
    · intro x hx
      have hx' : x ∈ (s.threads t).results ++
          [((s.threads t).cur, (s.threads t).tidv, (processResp (s.threads t).cur.unit s.buf (s.threads t).resp).1)] := by
        simpa [stepOp, upd_same] using hx
      rw [List.mem_append] at hx'
      cases hx' with
      | inl hx' => exact hok.served x hx'
      | inr hx' =>
        rw [List.mem_singleton] at hx'
        rw [hx', hb0, hr, hpr]
        rfl
    · exact hok.conserve.finish hlen
        ((s.threads t).tidv, (processResp (s.threads t).cur.unit s.buf (s.threads t).resp).1)
        (by simp [stepOp, upd_same]) (by simp [stepOp, upd_same]) (by simp [stepOp, upd_same])
  | release h q =>
    rw [h] at hops; cases hops
    refine inv_release hi hl hoth ?_ rfl rfl q (Or.inl ?_) ?_
    · show lockRelease s.locks 0 t 0 = none
      simp [lockRelease, hl, upd]
    · simp [stepOp, lockKey, upd_same]
    · exact hok.congr (by simp [stepOp, lockKey, upd_same]) (by simp [stepOp, lockKey, upd_same])
        (by simp [curPending, h, stepOp, lockKey, upd_same])

theorem not_holder_of_outside {s : State} {t : Nat} (hi : Inv reqs s) (ho : Outside (s.threads t)) :
    ∀ h d, s.locks 0 = some (h, d) → t ≠ h := by
  intro h d hl e
  subst e
  exact (hi.held _ _ hl).2.1.not_outside ho

theorem outside_or_holder {s : State} (hi : Inv reqs s) (t : Nat) :
    Outside (s.threads t) ∨ (s.locks 0 = some (t, 1) ∧ Stage s.shared t (s.threads t)) := by
  cases hl : s.locks 0 with
  | none => exact Or.inl ((hi.free hl).2 t)
  | some p =>
    obtain ⟨h, d⟩ := p
    obtain ⟨hd, hst, ho⟩ := hi.held h d hl
    subst hd
    by_cases ht : t = h
    · subst ht; exact Or.inr ⟨rfl, hst⟩
    · exact Or.inl (ho t ht)

/-- the invariant is preserved by every step of every thread -/
theorem inv_step {s : State} (hi : Inv reqs s) (t : Nat) : Inv reqs (step .whole s t) := by
  have hs := hi.sock
  unfold step
  cases hops : (s.threads t).ops with
  | nil =>
    cases htodo : (s.threads t).todo with
    | nil => exact hi
    | cons r rest =>
      have hout : Outside (s.threads t) := Or.inl hops
      have hok := hi.ok t
      refine inv_outsider_step hi (not_holder_of_outside hi hout)
        (s' := stepBegin .whole s t (s.threads t) r rest)
        (fun u hu => by simp [stepBegin, upd, hu]) rfl rfl rfl rfl ?_ ⟨?_, ?_⟩
      · exact Or.inr ⟨r.lat, by simp [stepBegin, upd_same, hs, txnOps_whole]⟩
      · intro x hx
        exact hok.served x (by simpa [stepBegin, upd_same] using hx)
      · have hc := hok.conserve
        unfold Conserved at hc ⊢
        rw [htodo] at hc
        rw [← hc]
        have hcp : curPending (s.threads t) = [] := by unfold curPending; exact if_pos (Or.inl hops)
        have hcp' : curPending ((stepBegin .whole s t (s.threads t) r rest).threads t) = [r] := by
          rw [curPending_long]
          · simp [stepBegin, upd_same]
          · simp [stepBegin, upd_same, hs, txnOps_whole]
        rw [hcp, hcp']
        simp [stepBegin, upd_same]
  | cons op ops =>
    have hoth := fun u (hu : u ≠ t) => stepOp_threads_other .whole s t (s.threads t) ops op u hu
    cases outside_or_holder hi t with
    | inr hh => exact inv_holder_op hi hh.1 hh.2 hops
    | inl hout =>
      have hnot := not_holder_of_outside hi hout
      have hok := hi.ok t
      cases hout with
      | inl h0 => rw [h0] at hops; cases hops
      | inr hk =>
        obtain ⟨k, hk⟩ := hk
        rw [hk] at hops; cases hops
        cases hl : s.locks 0 with
        | none =>
          show Inv reqs (stepOp .whole s t (s.threads t) _ .acquire)
          refine inv_acquire hi hl hoth ?_ ?_ ?_ (Stage.tid k ?_ ?_) ?_
          · simp [stepOp, lockKey, lockAcquire, hl, upd]
          · simp [stepOp, lockKey, lockAcquire, hl]
          · simp [stepOp, lockKey, lockAcquire, hl]
          · simp [stepOp, lockKey, lockAcquire, hl, upd_same]
          · simpa [stepOp, lockKey, lockAcquire, hl, State.shared] using (hi.free hl).1
          · exact hok.congr (by simp [stepOp, lockKey, lockAcquire, hl, upd_same])
              (by simp [stepOp, lockKey, lockAcquire, hl, upd_same])
              (curPending_congr (by simp [stepOp, lockKey, lockAcquire, hl, upd_same]) (by rw [hk]; simp)
                (by simp [stepOp, lockKey, lockAcquire, hl, upd_same]))
        | some p =>
          obtain ⟨h, d⟩ := p
          have hne := hnot h d hl
          have e : stepOp .whole s t (s.threads t) (.tid :: .connect :: .send1 :: .send2 :: tailOps k) .acquire = s := by
            simp [stepOp, lockKey, lockAcquire, hl, Ne.symm hne]
          show Inv reqs (stepOp .whole s t (s.threads t) _ .acquire)
          rw [e]; exact hi

theorem inv_init (reqs : Nat → List Req) : Inv reqs (init reqs true) := by
  refine ⟨rfl, rfl, ?_, ?_, ?_⟩
  · intro _
    exact ⟨⟨rfl, rfl, rfl, rfl⟩, fun t => Or.inl rfl⟩
  · intro h d hl; cases hl
  · intro t
    refine ⟨?_, (invG_init reqs true).cons t⟩
    intro x hx
    have : x ∈ ([] : List (Req × Nat × Result)) := hx
    cases this

theorem inv_run (reqs : Nat → List Req) {s : State} (hi : Inv reqs s) (sched : List Nat) :
    Inv reqs (runSched .whole s sched) := by
  induction sched generalizing s with
  | nil => exact hi
  | cons t rest ih => exact ih (inv_step hi t)

/-- every state reachable from a connected client satisfies the invariant -/
theorem inv_reachable (reqs : Nat → List Req) (sched : List Nat) :
    Inv reqs (runSched .whole (init reqs true) sched) := inv_run reqs (inv_init reqs) sched
end Pymodbus.Sched
