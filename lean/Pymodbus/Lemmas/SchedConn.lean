/- C15 helper lemmas, the shipped discipline (client lock around connect + transaction, manager lock nested): the
   invariant "holder of the client lock = the only thread inside `execute`; the transport is exactly where its
   transaction left it (byte level, on the newest connection; connections not yet opened are empty)", preserved by
   every step of every thread — for a client that is connected or not when the threads start, whatever connection
   attempts are refused and whatever replies are lost.  Consequences: own reply / own error, no deadlock, fairness. -/
import Pymodbus.Lemmas.Sched
namespace Pymodbus.Sched
open Pymodbus Pymodbus.Framer

@[simp] theorem onlyReleases_nil : onlyReleases [] = true := rfl
@[simp] theorem onlyReleases_cons (a : Op) (l : List Op) :
    onlyReleases (a :: l) = ((a == .release || a == .crelease) && onlyReleases l) := by
  simp [onlyReleases]
@[simp] theorem onlyReleases_tailOps (k : Nat) : onlyReleases (tailOps k) = false := by
  cases k with
  | zero => rfl
  | succ k => rw [tailOps_succ]; simp

@[simp] theorem onlyReleases_tailX (r : Req) (k : Nat) : onlyReleases (tailX r k) = false := by
  unfold tailX; split <;> simp

theorem curPending_congr' {th th' : Thread} (hc : th'.cur = th.cur) (h : onlyReleases th.ops = false)
    (h' : onlyReleases th'.ops = false) : curPending th' = curPending th := by
  simp [curPending, h, h', hc]

theorem curPending_of {th : Thread} (h : onlyReleases th.ops = false) : curPending th = [th.cur] := by
  simp [curPending, h]

/-- the transport as one connection sees it -/
structure Shared where
  pending : Bytes
  stream : Bytes
  buf : Bytes
  wire : List Chunk

/-- nothing in transit: the peer has parsed everything, every reply byte has been read, the framer buffer is
    empty, the wire holds whole frames -/
def Quiet (sh : Shared) : Prop := sh.pending = [] ∧ sh.stream = [] ∧ sh.buf = [] ∧ pairs sh.wire = true

/-- what the invariant looks at besides the threads: the transport, the socket, the manager lock -/
structure View where
  pending : Nat → Bytes
  stream : Nat → Bytes
  buf : Bytes
  wire : List Chunk
  sock : Option Nat
  nc : Nat
  m : Option (Nat × Nat)
  cfg : Cfg

def State.view (s : State) : View := ⟨s.pending, s.stream, s.buf, s.wire, s.sock, s.nextConn, s.locks 1, s.cfg⟩

def View.shared (v : View) (c : Nat) : Shared := ⟨v.pending c, v.stream c, v.buf, v.wire⟩

/-- connections that have not been opened yet are empty -/
def FreshF (pending stream : Nat → Bytes) (nc : Nat) : Prop := ∀ c, nc ≤ c → pending c = [] ∧ stream c = []

theorem FreshF.upd_pending {p st : Nat → Bytes} {nc : Nat} (h : FreshF p st nc) (c : Nat) (x : Bytes) (hc : c < nc) :
    FreshF (upd p c x) st nc := by
  intro c' hc'
  have hne : c' ≠ c := by omega
  simp only [upd, hne, if_false]
  exact h c' hc'

theorem FreshF.upd_stream {p st : Nat → Bytes} {nc : Nat} (h : FreshF p st nc) (c : Nat) (x : Bytes) (hc : c < nc) :
    FreshF p (upd st c x) nc := by
  intro c' hc'
  have hne : c' ≠ c := by omega
  simp only [upd, hne, if_false]
  exact h c' hc'

/-- no transaction under way: framer buffer empty, whole frames on the wire, unopened connections empty, and the
    connection in use (if any) is the newest one with nothing in transit -/
def Idle (v : View) : Prop :=
  v.buf = [] ∧ pairs v.wire = true ∧ FreshF v.pending v.stream v.nc ∧
  ∀ c, v.sock = some c → c + 1 = v.nc ∧ v.pending c = [] ∧ v.stream c = []

theorem Idle.quiet {v : View} (h : Idle v) (c : Nat) (hs : v.sock = some c) : Quiet (v.shared c) :=
  ⟨(h.2.2.2 c hs).2.1, (h.2.2.2 c hs).2.2, h.1, h.2.1⟩

/-- this transmission gets no answer -/
abbrev lostNow (th : Thread) : Prop := th.attempt < th.cur.lost

/-- where the holder is between taking and giving back the MANAGER lock, and what connection `c` looks like there
    (`A` = how many times the client transmits a request at most) -/
inductive IStage (A : Nat) (sh : Shared) (c : Nat) (t : Nat) (th : Thread) : Prop where
  | tid (k : Nat) (h : th.ops = .tid :: .connect :: .flush :: .send1 :: .send2 :: tailX th.cur k) (q : Quiet sh)
      (ha : th.attempt < A)
  | connect (k : Nat) (h : th.ops = .connect :: .flush :: .send1 :: .send2 :: tailX th.cur k) (q : Quiet sh)
      (ha : th.attempt < A)
  | flush (k : Nat) (h : th.ops = .flush :: .send1 :: .send2 :: tailX th.cur k) (q : Quiet sh)
      (hfr : th.frame = frameOf th.tidv th.cur) (ha : th.attempt < A)
  | send1 (k : Nat) (h : th.ops = .send1 :: .send2 :: tailX th.cur k) (q : Quiet sh)
      (hfr : th.frame = frameOf th.tidv th.cur) (hc : th.sconn = c) (ha : th.attempt < A)
  | send2 (k : Nat) (h : th.ops = .send2 :: tailX th.cur k)
      (hfr : th.frame = frameOf th.tidv th.cur) (hc : th.sconn = c) (hp : sh.pending = th.frame.take 7)
      (hs : sh.stream = []) (hb : sh.buf = [])
      (hw : ∃ w, pairs w = true ∧ sh.wire = w ++ [⟨t, true, c, th.frame.take 7⟩]) (ha : th.attempt < A)
  | bsent (h : th.ops = [.bdone, .release, .crelease]) (hbc : th.cur.bcast = true) (q : Quiet sh)
  | waiting (k : Nat) (h : th.ops = tailOps k) (hbc : th.cur.bcast = false) (hp : sh.pending = [])
      (hs : sh.stream = answer th.cur th.attempt (replyOf th.tidv th.cur)) (hb : sh.buf = [])
      (hw : pairs sh.wire = true) (ha : th.attempt < A)
  | recv2 (h : th.ops = [.recv2, .process, .release, .crelease]) (hbc : th.cur.bcast = false)
      (hl : ¬ lostNow th) (hh : th.hdr = (replyOf th.tidv th.cur).take 8)
      (hp : sh.pending = []) (hs : sh.stream = (replyOf th.tidv th.cur).drop 8) (hb : sh.buf = [])
      (hw : pairs sh.wire = true) (ha : th.attempt < A)
  /- the retry loop is over: what was read is the reply of this attempt, or nothing if it was lost — and then every
     attempt was -/
  | process (h : th.ops = [.process, .release, .crelease]) (hbc : th.cur.bcast = false)
      (hr : th.resp = answer th.cur th.attempt (replyOf th.tidv th.cur)) (q : Quiet sh) (ha : th.attempt < A)
      (hfin : lostNow th → A ≤ th.cur.lost)
  /- a full read came back empty (the connection stays): the back-off before the next attempt / before giving up -/
  | backoffRetry (k : Nat) (h : th.ops = .backoff :: .connect :: .flush :: .send1 :: .send2 :: tailOps k)
      (hbc : th.cur.bcast = false) (q : Quiet sh) (ha : th.attempt < A)
  | backoffLast (h : th.ops = [.backoff, .process, .release, .crelease]) (hbc : th.cur.bcast = false)
      (hr : th.resp = answer th.cur th.attempt (replyOf th.tidv th.cur)) (q : Quiet sh) (ha : th.attempt < A)
      (hfin : lostNow th → A ≤ th.cur.lost)
  | release (h : th.ops = [.release, .crelease]) (q : Quiet sh)

/-- the connection was closed by a read that came back short; both locks are still held -/
def Closed (v : View) (t : Nat) : Prop :=
  v.sock = none ∧ v.buf = [] ∧ pairs v.wire = true ∧ FreshF v.pending v.stream v.nc ∧ v.m = some (t, 1)

/-- where the holder of the CLIENT lock is inside `BaseModbusClient.execute` -/
inductive Stage (v : View) (t : Nat) (th : Thread) : Prop where
  | pre (k : Nat) (h : th.ops = .preconnect :: .acquire :: .tid :: .connect :: .flush :: .send1 :: .send2 :: tailX th.cur k)
      (q : Idle v) (hm : v.m = none) (h0 : th.attempt = 0)
  | opening (k : Nat) (h : th.ops = .open :: .acquire :: .tid :: .connect :: .flush :: .send1 :: .send2 :: tailX th.cur k)
      (q : Idle v) (hs : v.sock = none) (hm : v.m = none) (h0 : th.attempt = 0)
  | acq (k : Nat) (h : th.ops = .acquire :: .tid :: .connect :: .flush :: .send1 :: .send2 :: tailX th.cur k)
      (q : Idle v) (c : Nat) (hs : v.sock = some c) (hm : v.m = none) (h0 : th.attempt = 0)
  | inner (c : Nat) (hs : v.sock = some c) (hc1 : c + 1 = v.nc) (hfr : FreshF v.pending v.stream v.nc)
      (hm : v.m = some (t, 1)) (st : IStage v.cfg.attempts (v.shared c) c t th)
  /- a reply was lost, the failed read has closed the connection: back-off, reconnect, next attempt -/
  | closedBackoff (k : Nat) (h : th.ops = .backoff :: .connect :: .flush :: .send1 :: .send2 :: tailOps k)
      (hbc : th.cur.bcast = false) (ha : th.attempt < v.cfg.attempts) (cl : Closed v t)
  | closedConnect (k : Nat) (h : th.ops = .connect :: .flush :: .send1 :: .send2 :: tailOps k)
      (hbc : th.cur.bcast = false) (ha : th.attempt < v.cfg.attempts) (cl : Closed v t)
  | closedOpen (k : Nat) (h : th.ops = .iopen :: .flush :: .send1 :: .send2 :: tailOps k)
      (hbc : th.cur.bcast = false) (ha : th.attempt < v.cfg.attempts)
      (hfm : th.frame = frameOf th.tidv th.cur) (cl : Closed v t)
  /- every attempt was lost: (back-off,) the error object is still to be made -/
  | closedBackoffLast (h : th.ops = [.backoff, .process, .release, .crelease]) (hr : th.resp = [])
      (hbc : th.cur.bcast = false) (hall : v.cfg.attempts ≤ th.cur.lost) (cl : Closed v t)
  | closedProc (h : th.ops = [.process, .release, .crelease]) (hr : th.resp = []) (hbc : th.cur.bcast = false)
      (hall : v.cfg.attempts ≤ th.cur.lost) (cl : Closed v t)
  | closedRel (h : th.ops = [.release, .crelease]) (cl : Closed v t)
  | crel (h : th.ops = [.crelease]) (q : Idle v) (hm : v.m = none)

/-- not inside `execute`: between calls, or about to take the client lock -/
def Outside (th : Thread) : Prop :=
  th.ops = [] ∨ ∃ k, th.ops =
    .cacquire :: .preconnect :: .acquire :: .tid :: .connect :: .flush :: .send1 :: .send2 :: tailX th.cur k ∧
    th.attempt = 0

abbrev Fate (cok : Nat → Bool) (A : Nat) (x : Req × Nat × Result) : Prop := Spec.Answered cok A x

/-- per-thread bookkeeping: every result so far is what the caller is due (own reply / own error object / the
    connection exception), and results ++ request in progress ++ requests not started = the requests it was given -/
structure ThreadOK (reqs : Nat → List Req) (cok : Nat → Bool) (A : Nat) (t : Nat) (th : Thread) : Prop where
  served : ∀ x ∈ th.results, Fate cok A x
  conserve : Conserved reqs t th

structure Inv (reqs : Nat → List Req) (s : State) : Prop where
  free : s.locks 0 = none → Idle s.view ∧ s.locks 1 = none ∧ ∀ t, Outside (s.threads t)
  held : ∀ h d, s.locks 0 = some (h, d) →
    d = 1 ∧ Stage s.view h (s.threads h) ∧ ∀ t, t ≠ h → Outside (s.threads t)
  ok : ∀ t, ThreadOK reqs s.connOk s.cfg.attempts t (s.threads t)

theorem IStage.head {A : Nat} {sh : Shared} {c t : Nat} {th : Thread} (h : IStage A sh c t th) :
    ∃ op l, th.ops = op :: l ∧ op ≠ .acquire ∧ op ≠ .cacquire ∧ op ≠ .open ∧ op ≠ .iopen := by
  cases h with
  | waiting k h =>
    cases k with
    | zero => exact ⟨_, _, by rw [h, tailOps_zero], by simp, by simp, by simp, by simp⟩
    | succ k => exact ⟨_, _, by rw [h, tailOps_succ], by simp, by simp, by simp, by simp⟩
  | tid k h => exact ⟨_, _, h, by simp, by simp, by simp, by simp⟩
  | connect k h => exact ⟨_, _, h, by simp, by simp, by simp, by simp⟩
  | flush k h => exact ⟨_, _, h, by simp, by simp, by simp, by simp⟩
  | send1 k h => exact ⟨_, _, h, by simp, by simp, by simp, by simp⟩
  | send2 k h => exact ⟨_, _, h, by simp, by simp, by simp, by simp⟩
  | recv2 h => exact ⟨_, _, h, by simp, by simp, by simp, by simp⟩
  | process h => exact ⟨_, _, h, by simp, by simp, by simp, by simp⟩
  | bsent h => exact ⟨_, _, h, by simp, by simp, by simp, by simp⟩
  | backoffRetry k h => exact ⟨_, _, h, by simp, by simp, by simp, by simp⟩
  | backoffLast h => exact ⟨_, _, h, by simp, by simp, by simp, by simp⟩
  | release h => exact ⟨_, _, h, by simp, by simp, by simp, by simp⟩

/-- the holder of the client lock can always move: its next operation is never the acquisition of the client lock,
    and when it is the acquisition of the manager lock, that lock is free; when it completes a connection attempt it
    is not between a send and the end of its receive -/
theorem Stage.head {v : View} {t : Nat} {th : Thread} (h : Stage v t th) :
    ∃ op l, th.ops = op :: l ∧ op ≠ .cacquire ∧ (op = .acquire → v.m = none) ∧
      (op = .open ∨ op = .iopen → th.inFlight = false) := by
  cases h with
  | pre k h => exact ⟨_, _, h, by simp, by simp, by simp⟩
  | opening k h => exact ⟨_, _, h, by simp, by simp, fun _ => by simp [Thread.inFlight, h]⟩
  | acq k h q c hs hm => exact ⟨_, _, h, by simp, fun _ => hm, by simp⟩
  | inner c hs hc1 hfr hm st =>
    obtain ⟨op, l, e, h1, h2, h3, h4⟩ := st.head
    exact ⟨op, l, e, h2, fun e' => absurd e' h1, fun e' => by cases e' with
      | inl e' => exact absurd e' h3
      | inr e' => exact absurd e' h4⟩
  | closedBackoff k h => exact ⟨_, _, h, by simp, by simp, by simp⟩
  | closedConnect k h => exact ⟨_, _, h, by simp, by simp, by simp⟩
  | closedOpen k h => exact ⟨_, _, h, by simp, by simp, fun _ => by simp [Thread.inFlight, h]⟩
  | closedBackoffLast h => exact ⟨_, _, h, by simp, by simp, by simp⟩
  | closedProc h => exact ⟨_, _, h, by simp, by simp, by simp⟩
  | closedRel h => exact ⟨_, _, h, by simp, by simp, by simp⟩
  | crel h => exact ⟨_, _, h, by simp, by simp, by simp⟩

theorem Stage.not_outside {v : View} {t : Nat} {th : Thread} (h : Stage v t th) : ¬ Outside th := by
  obtain ⟨op, l, ho, hne, _⟩ := h.head
  intro hout
  cases hout with
  | inl h0 => rw [h0] at ho; cases ho
  | inr hk => obtain ⟨k, hk, _⟩ := hk; rw [hk] at ho; cases ho; exact hne rfl

theorem ThreadOK.congr {reqs : Nat → List Req} {cok : Nat → Bool} {A : Nat} {t : Nat} {th th' : Thread}
    (h : ThreadOK reqs cok A t th)
    (h1 : th'.results = th.results) (h2 : th'.todo = th.todo) (h3 : curPending th' = curPending th) :
    ThreadOK reqs cok A t th' :=
  ⟨by rw [h1]; exact h.served, h.conserve.congr h1 h2 h3⟩

variable {reqs : Nat → List Req}

/-- the holder of the client lock moves inside `execute` (the client lock does not change hands) -/
theorem inv_holder_step {s s' : State} {h : Nat} (hi : Inv reqs s) (hl : s.locks 0 = some (h, 1))
    (hoth : ∀ u, u ≠ h → s'.threads u = s.threads u) (hl0 : s'.locks 0 = some (h, 1))
    (hst : Stage s'.view h (s'.threads h)) (hok : ThreadOK reqs s.connOk s.cfg.attempts h (s'.threads h))
    (hck : s'.connOk = s.connOk := by first | rfl | exact stepOp_connOk _ _ _ _ _ _)
    (hcf : s'.cfg = s.cfg := by first | rfl | exact stepOp_cfg _ _ _ _ _ _) : Inv reqs s' := by
  obtain ⟨_, _, hout⟩ := hi.held h 1 hl
  refine ⟨?_, ?_, ?_⟩
  · intro hf; rw [hl0] at hf; cases hf
  · intro h' d hd
    rw [hl0] at hd
    cases hd
    exact ⟨rfl, hst, fun t ht => by rw [hoth t ht]; exact hout t ht⟩
  · intro t
    rw [hck, hcf]
    by_cases ht : t = h
    · subst ht; exact hok
    · rw [hoth t ht]; exact hi.ok t

/-- a thread that does not hold the client lock moves without touching any lock or the transport -/
theorem inv_outsider_step {s s' : State} {t : Nat} (hi : Inv reqs s)
    (hnot : ∀ h d, s.locks 0 = some (h, d) → t ≠ h)
    (hoth : ∀ u, u ≠ t → s'.threads u = s.threads u) (hlocks : s'.locks = s.locks) (hv : s'.view = s.view)
    (hout : Outside (s'.threads t)) (hok : ThreadOK reqs s.connOk s.cfg.attempts t (s'.threads t))
    (hck : s'.connOk = s.connOk := by first | rfl | exact stepOp_connOk _ _ _ _ _ _)
    (hcf : s'.cfg = s.cfg := by first | rfl | exact stepOp_cfg _ _ _ _ _ _) : Inv reqs s' := by
  refine ⟨?_, ?_, ?_⟩
  · intro hf
    rw [hlocks] at hf
    obtain ⟨q, hm, ho⟩ := hi.free hf
    refine ⟨by rw [hv]; exact q, by rw [hlocks]; exact hm, fun u => ?_⟩
    by_cases hu : u = t
    · subst hu; exact hout
    · rw [hoth u hu]; exact ho u
  · intro h d hl
    rw [hlocks] at hl
    obtain ⟨hd, hst, ho⟩ := hi.held h d hl
    have hth := hnot h d hl
    refine ⟨hd, ?_, ?_⟩
    · rw [hoth h (Ne.symm hth), hv]; exact hst
    · intro u hu
      by_cases hut : u = t
      · subst hut; exact hout
      · rw [hoth u hut]; exact ho u hu
  · intro u
    rw [hck, hcf]
    by_cases hu : u = t
    · subst hu; exact hok
    · rw [hoth u hu]; exact hi.ok u

/-- a thread takes the free client lock -/
theorem inv_cacquire {s s' : State} {t : Nat} (hi : Inv reqs s) (hf : s.locks 0 = none)
    (hoth : ∀ u, u ≠ t → s'.threads u = s.threads u) (hl0 : s'.locks 0 = some (t, 1))
    (hst : Stage s'.view t (s'.threads t)) (hok : ThreadOK reqs s.connOk s.cfg.attempts t (s'.threads t))
    (hck : s'.connOk = s.connOk := by first | rfl | exact stepOp_connOk _ _ _ _ _ _)
    (hcf : s'.cfg = s.cfg := by first | rfl | exact stepOp_cfg _ _ _ _ _ _) : Inv reqs s' := by
  obtain ⟨_, _, ho⟩ := hi.free hf
  refine ⟨?_, ?_, ?_⟩
  · intro h; rw [hl0] at h; cases h
  · intro h d hl
    rw [hl0] at hl
    cases hl
    exact ⟨rfl, hst, fun u hu => by rw [hoth u hu]; exact ho u⟩
  · intro u
    rw [hck, hcf]
    by_cases hu : u = t
    · subst hu; exact hok
    · rw [hoth u hu]; exact hi.ok u

/-- the holder gives the client lock back -/
theorem inv_crelease {s s' : State} {h : Nat} (hi : Inv reqs s) (hl : s.locks 0 = some (h, 1))
    (hoth : ∀ u, u ≠ h → s'.threads u = s.threads u) (hl0 : s'.locks 0 = none)
    (q : Idle s'.view) (hm : s'.locks 1 = none)
    (hout : Outside (s'.threads h)) (hok : ThreadOK reqs s.connOk s.cfg.attempts h (s'.threads h))
    (hck : s'.connOk = s.connOk := by first | rfl | exact stepOp_connOk _ _ _ _ _ _)
    (hcf : s'.cfg = s.cfg := by first | rfl | exact stepOp_cfg _ _ _ _ _ _) : Inv reqs s' := by
  obtain ⟨_, _, ho⟩ := hi.held h 1 hl
  refine ⟨?_, ?_, ?_⟩
  · intro _
    refine ⟨q, hm, fun u => ?_⟩
    by_cases hu : u = h
    · subst hu; exact hout
    · rw [hoth u hu]; exact ho u hu
  · intro h' d hl'; rw [hl0] at hl'; cases hl'
  · intro u
    rw [hck, hcf]
    by_cases hu : u = h
    · subst hu; exact hok
    · rw [hoth u hu]; exact hi.ok u

theorem filter_crelease_tailX (r : Req) (k : Nat) : (tailX r k).filter (· == Op.crelease) = [.crelease] := by
  unfold tailX
  split
  · rfl
  · induction k with
    | zero => rfl
    | succ k ih => rw [tailOps_succ, List.filter_cons_of_neg (by decide)]; exact ih

theorem filter_crelease_tail (k : Nat) : (tailOps k).filter (· == Op.crelease) = [.crelease] := by
  induction k with
  | zero => rfl
  | succ k ih => rw [tailOps_succ, List.filter_cons_of_neg (by decide)]; exact ih

theorem processResp_nil (u tid : Nat) : processResp u tid [] [] = (.err .modbusIO, []) := by
  simp [processResp, procRun, tcpStep]

theorem answer_nil (r : Req) (a : Nat) : answer r a [] = [] := by unfold answer; split <;> rfl
theorem answer_lost {r : Req} {a : Nat} (h : a < r.lost) (b : Bytes) : answer r a b = [] := by simp [answer, h]
theorem answer_bcast {r : Req} (h : r.bcast = true) (a : Nat) (b : Bytes) : answer r a b = [] := by
  simp [answer, h]
theorem answer_kept {r : Req} {a : Nat} (hb : r.bcast = false) (h : ¬ a < r.lost) (b : Bytes) :
    answer r a b = b := by
  simp [answer, h, hb]

theorem again_true {cfg : Cfg} {a : Nat} (h : cfg.again a = true) : a + 1 < cfg.attempts := by
  simp only [Cfg.again, Bool.and_eq_true, decide_eq_true_eq] at h
  simp [Cfg.attempts, h.1]; omega

theorem again_false {cfg : Cfg} {a lost : Nat} (h : cfg.again a = false) (ha : a < cfg.attempts) (hl : a < lost) :
    cfg.attempts ≤ lost := by
  unfold Cfg.attempts at *
  cases hre : cfg.retryOnEmpty with
  | false => simp [hre] at ha ⊢; omega
  | true =>
    simp only [Cfg.again, hre, Bool.true_and, decide_eq_false_iff_not] at h
    simp [hre] at ha ⊢; omega

theorem attempts_pos (cfg : Cfg) : 0 < cfg.attempts := by unfold Cfg.attempts; split <;> omega

/-- what the retry loop leaves to do after an attempt that got nothing (shipped discipline): give up (with or without
    a last back-off), or transmit once more (with or without a back-off first) -/
theorem retry_shape (cfg : Cfg) (th : Thread) :
    (cfg.again th.attempt = false ∧
      (retryOps .whole cfg th ++ [.process, .release, .crelease] = [.process, .release, .crelease] ∨
       retryOps .whole cfg th ++ [.process, .release, .crelease] = [.backoff, .process, .release, .crelease])) ∨
    (cfg.again th.attempt = true ∧
      (retryOps .whole cfg th ++ [.process, .release, .crelease] =
          .connect :: .flush :: .send1 :: .send2 :: tailOps th.cur.lat ∨
       retryOps .whole cfg th ++ [.process, .release, .crelease] =
          .backoff :: .connect :: .flush :: .send1 :: .send2 :: tailOps th.cur.lat)) := by
  unfold retryOps backoffOps attemptOps tailOps
  cases hre : cfg.retryOnEmpty <;> cases hb : cfg.backoff <;> cases hag : cfg.again th.attempt <;>
    simp_all [Cfg.again]

theorem filter_releases_tail (k : Nat) :
    (tailOps k).filter (fun o => o == .release || o == .crelease) = [.release, .crelease] := by
  induction k with
  | zero => rfl
  | succ k ih => rw [tailOps_succ, List.filter_cons_of_neg (by decide)]; exact ih

/-- the holder moves between taking and giving back the manager lock, on connection `c` (no lock changes, the
    socket stays) -/
theorem inv_inner_step {s s' : State} {h c : Nat} (hi : Inv reqs s) (hl : s.locks 0 = some (h, 1))
    (hoth : ∀ u, u ≠ h → s'.threads u = s.threads u) (hlocks : s'.locks = s.locks)
    (hso : s'.sock = some c) (hnc : s'.nextConn = s.nextConn) (hc1 : c + 1 = s.nextConn)
    (hfr : FreshF s'.pending s'.stream s.nextConn) (hm : s.locks 1 = some (h, 1))
    (ist : IStage s.cfg.attempts (s'.view.shared c) c h (s'.threads h))
    (hok : ThreadOK reqs s.connOk s.cfg.attempts h (s'.threads h))
    (hck : s'.connOk = s.connOk := by first | rfl | exact stepOp_connOk _ _ _ _ _ _)
    (hcf : s'.cfg = s.cfg := by first | rfl | exact stepOp_cfg _ _ _ _ _ _) : Inv reqs s' :=
  inv_holder_step hi hl hoth (by rw [hlocks]; exact hl)
    (Stage.inner c hso (by show c + 1 = s'.nextConn; rw [hnc]; exact hc1)
      (by show FreshF s'.pending s'.stream s'.nextConn; rw [hnc]; exact hfr)
      (by show s'.locks 1 = _; rw [hlocks]; exact hm)
      (by show IStage s'.cfg.attempts _ _ _ _; rw [hcf]; exact ist)) hok hck hcf

/-- … after the connection was closed by a short read (both locks held, no socket) -/
theorem inv_closed_step {s s' : State} {h : Nat} (hi : Inv reqs s) (hl : s.locks 0 = some (h, 1))
    (hoth : ∀ u, u ≠ h → s'.threads u = s.threads u) (hlocks : s'.locks = s.locks)
    (hst : Stage s'.view h (s'.threads h)) (hok : ThreadOK reqs s.connOk s.cfg.attempts h (s'.threads h))
    (hck : s'.connOk = s.connOk := by first | rfl | exact stepOp_connOk _ _ _ _ _ _)
    (hcf : s'.cfg = s.cfg := by first | rfl | exact stepOp_cfg _ _ _ _ _ _) : Inv reqs s' :=
  inv_holder_step hi hl hoth (by rw [hlocks]; exact hl) hst hok hck hcf
theorem inv_holder_inner {s : State} {t c : Nat} {op : Op} {ops : List Op} (hi : Inv reqs s)
    (hl : s.locks 0 = some (t, 1)) (hs : s.sock = some c) (hc1 : c + 1 = s.nextConn)
    (hfr : FreshF s.pending s.stream s.nextConn) (hm : s.locks 1 = some (t, 1))
    (st : IStage s.cfg.attempts (s.view.shared c) c t (s.threads t))
    (hops : (s.threads t).ops = op :: ops) : Inv reqs (stepOp .whole s t (s.threads t) ops op) := by
  have hok := hi.ok t
  have hoth := fun u (hu : u ≠ t) => stepOp_threads_other .whole s t (s.threads t) ops op u hu
  have hcn : c < s.nextConn := by omega
  cases st with
  | tid k h q ha =>
    rw [h] at hops; cases hops
    refine inv_inner_step hi hl hoth rfl hs rfl hc1 hfr hm
      (IStage.connect k ?_ ⟨q.1, q.2.1, rfl, q.2.2.2⟩ ?_) ?_
    · simp [stepOp, upd_same]
    · simpa [stepOp, upd_same] using ha
    · exact hok.congr (by simp [stepOp, upd_same]) (by simp [stepOp, upd_same])
        (curPending_congr' (by simp [stepOp, upd_same]) (by rw [h]; simp) (by simp [stepOp, upd_same]))
  | connect k h q ha =>
    rw [h] at hops; cases hops
    refine inv_inner_step hi hl hoth (by simp [stepOp, hs]) (by simpa [stepOp, hs] using hs) (by simp [stepOp, hs])
      hc1 (by simpa [stepOp, hs] using hfr) hm (IStage.flush k ?_ ?_ ?_ ?_) ?_
    · simp [stepOp, hs, upd_same]
    · simpa [stepOp, hs, State.view, View.shared] using q
    · simp [stepOp, hs, upd_same]
    · simpa [stepOp, hs, upd_same] using ha
    · exact hok.congr (by simp [stepOp, hs, upd_same]) (by simp [stepOp, hs, upd_same])
        (curPending_congr' (by simp [stepOp, hs, upd_same]) (by rw [h]; simp) (by simp [stepOp, hs, upd_same]))
  | flush k h q hfm ha =>
    rw [h] at hops; cases hops
    refine inv_inner_step hi hl hoth (by simp [stepOp, hs]) (by simpa [stepOp, hs] using hs) (by simp [stepOp, hs])
      hc1 ?_ hm (IStage.send1 k ?_ ⟨?_, ?_, ?_, ?_⟩ ?_ ?_ ?_) ?_
    · simp only [stepOp, hs]; exact hfr.upd_stream c [] hcn
    · simp [stepOp, hs, upd_same]
    · simpa [stepOp, hs, State.view, View.shared] using q.1
    · simp [stepOp, hs, State.view, View.shared, upd_same]
    · simpa [stepOp, hs, State.view, View.shared] using q.2.2.1
    · simpa [stepOp, hs, State.view, View.shared] using q.2.2.2
    · simpa [stepOp, hs, upd_same] using hfm
    · simp [stepOp, hs, upd_same]
    · simpa [stepOp, hs, upd_same] using ha
    · exact hok.congr (by simp [stepOp, hs, upd_same]) (by simp [stepOp, hs, upd_same])
        (curPending_congr' (by simp [stepOp, hs, upd_same]) (by rw [h]; simp) (by simp [stepOp, hs, upd_same]))
  | send1 k h q hfm hc ha =>
    rw [h] at hops; cases hops
    have hp0 : s.pending c = [] := q.1
    have hs0 : s.stream c = [] := q.2.1
    refine inv_inner_step hi hl hoth rfl hs rfl hc1 ?_ hm
      (IStage.send2 k ?_ ?_ ?_ ?_ ?_ q.2.2.1 ⟨s.wire, q.2.2.2, ?_⟩ ?_) ?_
    · simp only [stepOp, hc]
      exact (hfr.upd_pending c _ hcn).upd_stream c _ hcn
    · simp [stepOp, upd_same]
    · simpa [stepOp, upd_same] using hfm
    · simpa [stepOp, upd_same] using hc
    · simp only [stepOp, State.view, View.shared, upd_same, hc, hp0, hfm, server_send1]
    · simp only [stepOp, State.view, View.shared, upd_same, hc, hp0, hs0, hfm, server_send1, answer_nil,
        List.append_nil]
    · simp [stepOp, State.view, View.shared, upd_same, hc]
    · simpa [stepOp, upd_same] using ha
    · exact hok.congr (by simp [stepOp, upd_same]) (by simp [stepOp, upd_same])
        (curPending_congr' (by simp [stepOp, upd_same]) (by rw [h]; simp) (by simp [stepOp, upd_same]))
  | send2 k h hfm hc hp hsm hb hw ha =>
    rw [h] at hops; cases hops
    have hp0 : s.pending c = (s.threads t).frame.take 7 := hp
    have hs0 : s.stream c = [] := hsm
    obtain ⟨w, hw1, hw2⟩ := hw
    have hw0 : s.wire = w ++ [⟨t, true, c, (s.threads t).frame.take 7⟩] := hw2
    have hpair : pairs (s.wire ++ [⟨t, false, c, (s.threads t).frame.drop 7⟩]) = true := by
      rw [hw0, List.append_assoc]; exact pairs_snoc2 w _ _ hw1 rfl rfl rfl rfl
    cases hbc : (s.threads t).cur.bcast with
    | false =>
      rw [tailX_plain hbc] at hoth ⊢
      refine inv_inner_step hi hl hoth (by simp [stepOp, hs]) (by simpa [stepOp, hs] using hs) (by simp [stepOp, hs])
        hc1 ?_ hm (IStage.waiting k ?_ ?_ ?_ ?_ ?_ ?_ ?_) ?_
      · simp only [stepOp, hs, hc]
        exact (hfr.upd_pending c _ hcn).upd_stream c _ hcn
      · simp [stepOp, hs, upd_same]
      · simpa [stepOp, hs, upd_same] using hbc
      · simp only [stepOp, hs, State.view, View.shared, upd_same, hc, hp0, hfm, server_send2]
      · simp only [stepOp, hs, State.view, View.shared, upd_same, hc, hp0, hs0, hfm, server_send2, replyTo_frame,
          List.nil_append]
      · simpa [stepOp, hs, State.view, View.shared] using hb
      · simpa [stepOp, hs, State.view, View.shared, hc] using hpair
      · simpa [stepOp, hs, upd_same] using ha
      · exact hok.congr (by simp [stepOp, hs, upd_same]) (by simp [stepOp, hs, upd_same])
          (curPending_congr' (by simp [stepOp, hs, upd_same]) (by rw [h]; simp) (by simp [stepOp, hs, upd_same]))
    | true =>
      -- a broadcast: the frame is out, no unit answers, nothing will be read
      rw [tailX_bcast hbc] at hoth ⊢
      refine inv_inner_step hi hl hoth (by simp [stepOp, hs]) (by simpa [stepOp, hs] using hs) (by simp [stepOp, hs])
        hc1 ?_ hm (IStage.bsent ?_ ?_ ⟨?_, ?_, ?_, ?_⟩) ?_
      · simp only [stepOp, hs, hc]
        exact (hfr.upd_pending c _ hcn).upd_stream c _ hcn
      · simp [stepOp, hs, upd_same]
      · simpa [stepOp, hs, upd_same] using hbc
      · simp only [stepOp, hs, State.view, View.shared, upd_same, hc, hp0, hfm, server_send2]
      · simp only [stepOp, hs, State.view, View.shared, upd_same, hc, hp0, hs0, hfm, server_send2,
          answer_bcast hbc, List.nil_append]
      · simpa [stepOp, hs, State.view, View.shared] using hb
      · simpa [stepOp, hs, State.view, View.shared, hc] using hpair
      · exact hok.congr (by simp [stepOp, hs, upd_same]) (by simp [stepOp, hs, upd_same])
          (curPending_congr' (by simp [stepOp, hs, upd_same]) (by rw [h]; simp) (by simp [stepOp, hs, upd_same]))
  | bsent h hbc q =>
    rw [h] at hops; cases hops
    have hcp : curPending (s.threads t) = [(s.threads t).cur] := curPending_of (by rw [h]; simp)
    refine inv_inner_step hi hl hoth rfl hs rfl hc1 hfr hm (IStage.release ?_ q) ⟨?_, ?_⟩
    · simp [stepOp, upd_same]
    · intro x hx
      have hx' : x ∈ (s.threads t).results ++ [((s.threads t).cur, (s.threads t).tidv, .bcastSent)] := by
        simpa [stepOp, upd_same] using hx
      rw [List.mem_append] at hx'
      cases hx' with
      | inl hx' => exact hok.served x hx'
      | inr hx' =>
        rw [List.mem_singleton] at hx'
        rw [hx']
        exact Or.inr (Or.inl ⟨hbc, rfl⟩)
    · exact hok.conserve.finish hcp ((s.threads t).tidv, .bcastSent)
        (by simp [stepOp, upd_same]) (by simp [stepOp, upd_same]) (by simp [stepOp, upd_same])
  | backoffRetry k h hbc q ha =>
    rw [h] at hops; cases hops
    refine inv_inner_step hi hl hoth rfl hs rfl hc1 hfr hm (IStage.connect k ?_ q ?_) ?_
    · simp [stepOp, upd_same, tailX_plain hbc]
    · simpa [stepOp, upd_same] using ha
    · exact hok.congr (by simp [stepOp, upd_same]) (by simp [stepOp, upd_same])
        (curPending_congr' (by simp [stepOp, upd_same]) (by rw [h]; simp) (by simp [stepOp, upd_same]))
  | backoffLast h hbc hr q ha hfin =>
    rw [h] at hops; cases hops
    refine inv_inner_step hi hl hoth rfl hs rfl hc1 hfr hm (IStage.process ?_ ?_ ?_ q ?_ ?_) ?_
    · simp [stepOp, upd_same]
    · simpa [stepOp, upd_same] using hbc
    · simpa [stepOp, upd_same] using hr
    · simpa [stepOp, upd_same] using ha
    · simpa [stepOp, upd_same, lostNow] using hfin
    · exact hok.congr (by simp [stepOp, upd_same]) (by simp [stepOp, upd_same])
        (curPending_congr' (by simp [stepOp, upd_same]) (by rw [h]; simp) (by simp [stepOp, upd_same]))
  | waiting k h hbc hp hsm hb hw ha =>
    have hs0 : s.stream c =
        answer (s.threads t).cur (s.threads t).attempt (replyOf (s.threads t).tidv (s.threads t).cur) := hsm
    have hp0 : s.pending c = [] := hp
    have hb0 : s.buf = [] := hb
    have hw0 : pairs s.wire = true := hw
    cases k with
    | succ k =>
      rw [h, tailOps_succ] at hops; cases hops
      refine inv_inner_step hi hl hoth rfl hs rfl hc1 hfr hm (IStage.waiting k ?_ ?_ hp ?_ hb hw ?_) ?_
      · simp [stepOp, upd_same]
      · simpa [stepOp, upd_same] using hbc
      · simpa [stepOp, State.view, View.shared, upd_same] using hs0
      · simpa [stepOp, upd_same] using ha
      · exact hok.congr (by simp [stepOp, upd_same]) (by simp [stepOp, upd_same])
          (curPending_congr' (by simp [stepOp, upd_same]) (by rw [h]; simp) (by simp [stepOp, upd_same]))
    | zero =>
      rw [h, tailOps_zero] at hops; cases hops
      by_cases hlost : (s.threads t).attempt < (s.threads t).cur.lost
      · -- this transmission is not answered
        have hs1 : s.stream c = [] := by rw [hs0, answer_lost hlost]
        cases hf : (s.threads t).full with
        | true =>
          -- `recvPacket(None)` comes back empty: the connection stays, the retry loop decides
          rcases retry_shape s.cfg (s.threads t) with ⟨hag, hsh | hsh⟩ | ⟨hag, hsh | hsh⟩
          · refine inv_inner_step hi hl hoth (by simp [stepOp, hs, hf, hs1]) (by simp [stepOp, hs, hf, hs1])
              (by simp [stepOp, hs, hf, hs1]) hc1 (by simpa [stepOp, hs, hf, hs1] using hfr) hm
              (IStage.process ?_ ?_ ?_ ⟨?_, ?_, ?_, ?_⟩ ?_ ?_) ?_
            · simp [stepOp, hs, hf, hs1, upd_same, hsh]
            · simpa [stepOp, hs, hf, hs1, upd_same] using hbc
            · simp [stepOp, hs, hf, hs1, upd_same, hag, answer_lost hlost]
            · simpa [stepOp, hs, hf, hs1, State.view, View.shared] using hp0
            · simpa [stepOp, hs, hf, hs1, State.view, View.shared] using hs1
            · simpa [stepOp, hs, hf, hs1, State.view, View.shared] using hb0
            · simpa [stepOp, hs, hf, hs1, State.view, View.shared] using hw0
            · simpa [stepOp, hs, hf, hs1, upd_same, hag] using ha
            · intro _; simpa [stepOp, hs, hf, hs1, upd_same] using again_false hag ha hlost
            · exact hok.congr (by simp [stepOp, hs, hf, hs1, upd_same]) (by simp [stepOp, hs, hf, hs1, upd_same])
                (curPending_congr' (by simp [stepOp, hs, hf, hs1, upd_same]) (by rw [h]; simp)
                  (by simp [stepOp, hs, hf, hs1, upd_same, hsh]))
          · refine inv_inner_step hi hl hoth (by simp [stepOp, hs, hf, hs1]) (by simp [stepOp, hs, hf, hs1])
              (by simp [stepOp, hs, hf, hs1]) hc1 (by simpa [stepOp, hs, hf, hs1] using hfr) hm
              (IStage.backoffLast ?_ ?_ ?_ ⟨?_, ?_, ?_, ?_⟩ ?_ ?_) ?_
            · simp [stepOp, hs, hf, hs1, upd_same, hsh]
            · simpa [stepOp, hs, hf, hs1, upd_same] using hbc
            · simp [stepOp, hs, hf, hs1, upd_same, hag, answer_lost hlost]
            · simpa [stepOp, hs, hf, hs1, State.view, View.shared] using hp0
            · simpa [stepOp, hs, hf, hs1, State.view, View.shared] using hs1
            · simpa [stepOp, hs, hf, hs1, State.view, View.shared] using hb0
            · simpa [stepOp, hs, hf, hs1, State.view, View.shared] using hw0
            · simpa [stepOp, hs, hf, hs1, upd_same, hag] using ha
            · intro _; simpa [stepOp, hs, hf, hs1, upd_same] using again_false hag ha hlost
            · exact hok.congr (by simp [stepOp, hs, hf, hs1, upd_same]) (by simp [stepOp, hs, hf, hs1, upd_same])
                (curPending_congr' (by simp [stepOp, hs, hf, hs1, upd_same]) (by rw [h]; simp)
                  (by simp [stepOp, hs, hf, hs1, upd_same, hsh]))
          · refine inv_inner_step hi hl hoth (by simp [stepOp, hs, hf, hs1]) (by simp [stepOp, hs, hf, hs1])
              (by simp [stepOp, hs, hf, hs1]) hc1 (by simpa [stepOp, hs, hf, hs1] using hfr) hm
              (IStage.connect (s.threads t).cur.lat ?_ ⟨?_, ?_, ?_, ?_⟩ ?_) ?_
            · simp [stepOp, hs, hf, hs1, upd_same, hsh, tailX_plain hbc]
            · simpa [stepOp, hs, hf, hs1, State.view, View.shared] using hp0
            · simpa [stepOp, hs, hf, hs1, State.view, View.shared] using hs1
            · simpa [stepOp, hs, hf, hs1, State.view, View.shared] using hb0
            · simpa [stepOp, hs, hf, hs1, State.view, View.shared] using hw0
            · simpa [stepOp, hs, hf, hs1, upd_same, hag] using again_true hag
            · exact hok.congr (by simp [stepOp, hs, hf, hs1, upd_same]) (by simp [stepOp, hs, hf, hs1, upd_same])
                (curPending_congr' (by simp [stepOp, hs, hf, hs1, upd_same]) (by rw [h]; simp)
                  (by simp [stepOp, hs, hf, hs1, upd_same, hsh]))
          · refine inv_inner_step hi hl hoth (by simp [stepOp, hs, hf, hs1]) (by simp [stepOp, hs, hf, hs1])
              (by simp [stepOp, hs, hf, hs1]) hc1 (by simpa [stepOp, hs, hf, hs1] using hfr) hm
              (IStage.backoffRetry (s.threads t).cur.lat ?_ ?_ ⟨?_, ?_, ?_, ?_⟩ ?_) ?_
            · simp [stepOp, hs, hf, hs1, upd_same, hsh]
            · simpa [stepOp, hs, hf, hs1, upd_same] using hbc
            · simpa [stepOp, hs, hf, hs1, State.view, View.shared] using hp0
            · simpa [stepOp, hs, hf, hs1, State.view, View.shared] using hs1
            · simpa [stepOp, hs, hf, hs1, State.view, View.shared] using hb0
            · simpa [stepOp, hs, hf, hs1, State.view, View.shared] using hw0
            · simpa [stepOp, hs, hf, hs1, upd_same, hag] using again_true hag
            · exact hok.congr (by simp [stepOp, hs, hf, hs1, upd_same]) (by simp [stepOp, hs, hf, hs1, upd_same])
                (curPending_congr' (by simp [stepOp, hs, hf, hs1, upd_same]) (by rw [h]; simp)
                  (by simp [stepOp, hs, hf, hs1, upd_same, hsh]))
        | false =>
          -- the read of the header comes back short: `_transact` closes the connection, the retry loop decides
          have hfr' : FreshF s.pending (upd s.stream c []) s.nextConn := hfr.upd_stream c [] hcn
          have hcl : Closed (stepOp .whole s t (s.threads t) [.recv2, .process, .release, .crelease] .recv1).view t := by
            refine ⟨?_, ?_, ?_, ?_, ?_⟩
            · simp [stepOp, hs, hf, hs1, State.view]
            · simpa [stepOp, hs, hf, hs1, State.view] using hb0
            · simpa [stepOp, hs, hf, hs1, State.view] using hw0
            · simpa [stepOp, hs, hf, hs1, State.view] using hfr'
            · simpa [stepOp, hs, hf, hs1, State.view] using hm
          have hokc : ∀ (hne : onlyReleases (retryOps .whole s.cfg (s.threads t) ++ [.process, .release, .crelease]) = false),
              ThreadOK reqs s.connOk s.cfg.attempts t
                ((stepOp .whole s t (s.threads t) [.recv2, .process, .release, .crelease] .recv1).threads t) := by
            intro hne
            exact hok.congr (by simp [stepOp, hs, hf, hs1, upd_same]) (by simp [stepOp, hs, hf, hs1, upd_same])
              (curPending_congr' (by simp [stepOp, hs, hf, hs1, upd_same]) (by rw [h]; simp)
                (by simpa [stepOp, hs, hf, hs1, upd_same] using hne))
          rcases retry_shape s.cfg (s.threads t) with ⟨hag, hsh | hsh⟩ | ⟨hag, hsh | hsh⟩
          · refine inv_closed_step hi hl hoth (by simp [stepOp, hs, hf, hs1])
              (Stage.closedProc ?_ ?_ ?_ ?_ hcl) (hokc (by rw [hsh]; rfl))
            · simp [stepOp, hs, hf, hs1, upd_same, hsh]
            · simp [stepOp, hs, hf, hs1, upd_same]
            · simpa [stepOp, hs, hf, hs1, upd_same] using hbc
            · simpa [stepOp, hs, hf, hs1, upd_same, State.view] using again_false hag ha hlost
          · refine inv_closed_step hi hl hoth (by simp [stepOp, hs, hf, hs1])
              (Stage.closedBackoffLast ?_ ?_ ?_ ?_ hcl) (hokc (by rw [hsh]; rfl))
            · simp [stepOp, hs, hf, hs1, upd_same, hsh]
            · simp [stepOp, hs, hf, hs1, upd_same]
            · simpa [stepOp, hs, hf, hs1, upd_same] using hbc
            · simpa [stepOp, hs, hf, hs1, upd_same, State.view] using again_false hag ha hlost
          · refine inv_closed_step hi hl hoth (by simp [stepOp, hs, hf, hs1])
              (Stage.closedConnect (s.threads t).cur.lat ?_ ?_ ?_ hcl) (hokc (by rw [hsh]; rfl))
            · simp [stepOp, hs, hf, hs1, upd_same, hsh]
            · simpa [stepOp, hs, hf, hs1, upd_same] using hbc
            · simpa [stepOp, hs, hf, hs1, upd_same, hag, State.view] using again_true hag
          · refine inv_closed_step hi hl hoth (by simp [stepOp, hs, hf, hs1])
              (Stage.closedBackoff (s.threads t).cur.lat ?_ ?_ ?_ hcl) (hokc (by rw [hsh]; rfl))
            · simp [stepOp, hs, hf, hs1, upd_same, hsh]
            · simpa [stepOp, hs, hf, hs1, upd_same] using hbc
            · simpa [stepOp, hs, hf, hs1, upd_same, hag, State.view] using again_true hag
      · -- this transmission is answered
        have hs1 : s.stream c = replyOf (s.threads t).tidv (s.threads t).cur := by
          rw [hs0, answer_kept hbc hlost]
        have e8 : ((s.stream c).take 8).length = 8 := by rw [hs1]; exact replyOf_take8 _ _
        have hne : (s.stream c).isEmpty = false := by
          cases hsc : s.stream c with
          | nil => rw [hsc] at e8; simp at e8
          | cons a l => rfl
        cases hf : (s.threads t).full with
        | true =>
          -- `recvPacket(None)`: the whole reply in one read; no second read
          refine inv_inner_step hi hl hoth (by simp [stepOp, hs, hf, hne]) (by simp [stepOp, hs, hf, hne])
            (by simp [stepOp, hs, hf, hne]) hc1 ?_ hm (IStage.process ?_ ?_ ?_ ⟨?_, ?_, ?_, ?_⟩ ?_ ?_) ?_
          · simp only [stepOp, hs, hf, hne, if_true, Bool.false_eq_true, if_false]; exact hfr.upd_stream c [] hcn
          · simp [stepOp, hs, hf, hne, upd_same]
          · simpa [stepOp, hs, hf, hne, upd_same] using hbc
          · simp only [stepOp, hs, hf, hne, if_true, Bool.false_eq_true, if_false, upd_same]; exact hs0
          · simpa [stepOp, hs, hf, hne, State.view, View.shared] using hp0
          · simp [stepOp, hs, hf, hne, State.view, View.shared, upd_same]
          · simpa [stepOp, hs, hf, hne, State.view, View.shared] using hb0
          · simpa [stepOp, hs, hf, hne, State.view, View.shared] using hw0
          · simpa [stepOp, hs, hf, hne, upd_same] using ha
          · intro hl'; exact absurd (by simpa [stepOp, hs, hf, hne, upd_same, lostNow] using hl') hlost
          · exact hok.congr (by simp [stepOp, hs, hf, hne, upd_same]) (by simp [stepOp, hs, hf, hne, upd_same])
              (curPending_congr' (by simp [stepOp, hs, hf, hne, upd_same]) (by rw [h]; simp)
                (by simp [stepOp, hs, hf, hne, upd_same]))
        | false =>
          refine inv_inner_step hi hl hoth (by simp [stepOp, hs, hf, e8]) (by simp [stepOp, hs, hf, e8])
            (by simp [stepOp, hs, hf, e8]) hc1 ?_ hm (IStage.recv2 ?_ ?_ ?_ ?_ ?_ ?_ ?_ ?_ ?_) ?_
          · simp only [stepOp, hs, hf, Bool.false_eq_true, if_false, e8, if_true]; exact hfr.upd_stream c _ hcn
          · simp [stepOp, hs, hf, e8, upd_same]
          · simpa [stepOp, hs, hf, e8, upd_same] using hbc
          · simpa [stepOp, hs, hf, e8, upd_same, lostNow] using hlost
          · simp only [stepOp, hs, hf, Bool.false_eq_true, if_false, e8, if_true, upd_same]; rw [hs1]
          · simpa [stepOp, hs, hf, e8, State.view, View.shared] using hp0
          · simp only [stepOp, hs, hf, Bool.false_eq_true, if_false, e8, if_true, State.view, View.shared, upd_same]
            rw [hs1]
          · simpa [stepOp, hs, hf, e8, State.view, View.shared] using hb0
          · simpa [stepOp, hs, hf, e8, State.view, View.shared] using hw0
          · simpa [stepOp, hs, hf, e8, upd_same] using ha
          · exact hok.congr (by simp [stepOp, hs, hf, e8, upd_same]) (by simp [stepOp, hs, hf, e8, upd_same])
              (curPending_congr' (by simp [stepOp, hs, hf, e8, upd_same]) (by rw [h]; simp)
                (by simp [stepOp, hs, hf, e8, upd_same]))
  | recv2 h hbc hlost hh hp hsm hb hw ha =>
    rw [h] at hops; cases hops
    have hs0 : s.stream c = (replyOf (s.threads t).tidv (s.threads t).cur).drop 8 := hsm
    have hresp : (s.threads t).hdr ++ (s.stream c).take (restSize (s.threads t).hdr) =
        replyOf (s.threads t).tidv (s.threads t).cur := by
      rw [hh, hs0, restSize_reply]; exact (reply_reassembled _ _).1
    refine inv_inner_step hi hl hoth (by simp [stepOp, hs]) (by simp [stepOp, hs]) (by simp [stepOp, hs]) hc1 ?_ hm
      (IStage.process ?_ ?_ ?_ ⟨?_, ?_, ?_, ?_⟩ ?_ ?_) ?_
    · simp only [stepOp, hs]; exact hfr.upd_stream c _ hcn
    · simp [stepOp, hs, upd_same]
    · simpa [stepOp, hs, upd_same] using hbc
    · simp only [stepOp, hs, upd_same, hresp, answer_kept hbc hlost]
    · simpa [stepOp, hs, State.view, View.shared] using hp
    · simp only [stepOp, hs, State.view, View.shared, upd_same]
      rw [hh, hs0, restSize_reply]; exact (reply_reassembled _ _).2
    · simpa [stepOp, hs, State.view, View.shared] using hb
    · simpa [stepOp, hs, State.view, View.shared] using hw
    · simpa [stepOp, hs, upd_same] using ha
    · intro hl'; exact absurd (by simpa [stepOp, hs, upd_same, lostNow] using hl') hlost
    · exact hok.congr (by simp [stepOp, hs, upd_same]) (by simp [stepOp, hs, upd_same])
        (curPending_congr' (by simp [stepOp, hs, upd_same]) (by rw [h]; simp) (by simp [stepOp, hs, upd_same]))
  | process h hbc hr q ha hfin =>
    rw [h] at hops; cases hops
    have hb0 : s.buf = [] := q.2.2.1
    have hcp : curPending (s.threads t) = [(s.threads t).cur] := curPending_of (by rw [h]; simp)
    by_cases hlost : (s.threads t).attempt < (s.threads t).cur.lost
    · -- nothing was read and the retries are used up: the error object is made, the connection closed
      have hpr' : processResp (s.threads t).cur.unit (s.threads t).tidv s.buf (s.threads t).resp =
          (.err .modbusIO, []) := by
        rw [hb0, hr, answer_lost hlost, processResp_nil]
      refine inv_holder_step hi hl hoth hl (Stage.closedRel ?_ ⟨?_, ?_, q.2.2.2, hfr, hm⟩) ⟨?_, ?_⟩
      · simp [stepOp, upd_same]
      · show (stepOp .whole s t (s.threads t) [.release, .crelease] .process).view.sock = none
        simp [State.view, stepOp, hpr', Result.isOk]
      · show (processResp (s.threads t).cur.unit (s.threads t).tidv s.buf (s.threads t).resp).2 = []
        rw [hpr']
      · intro x hx
        have hx' : x ∈ (s.threads t).results ++
            [((s.threads t).cur, (s.threads t).tidv,
              (processResp (s.threads t).cur.unit (s.threads t).tidv s.buf (s.threads t).resp).1)] := by
          simpa [stepOp, upd_same] using hx
        rw [List.mem_append] at hx'
        cases hx' with
        | inl hx' => exact hok.served x hx'
        | inr hx' =>
          rw [List.mem_singleton] at hx'
          rw [hx', hpr']
          exact Or.inr (Or.inr (Or.inl ⟨hbc, hfin hlost, rfl⟩))
      · exact hok.conserve.finish hcp
          ((s.threads t).tidv, (processResp (s.threads t).cur.unit (s.threads t).tidv s.buf (s.threads t).resp).1)
          (by simp [stepOp, upd_same]) (by simp [stepOp, upd_same]) (by simp [stepOp, upd_same])
    · have hpr' : processResp (s.threads t).cur.unit (s.threads t).tidv s.buf (s.threads t).resp =
          (.ok (s.threads t).tidv (s.threads t).cur.unit (Spec.expected (s.threads t).cur), []) := by
        rw [hb0, hr, answer_kept hbc hlost, process_reply]
      refine inv_inner_step hi hl hoth rfl ?_ rfl hc1 hfr hm (IStage.release ?_ ⟨q.1, q.2.1, ?_, q.2.2.2⟩) ⟨?_, ?_⟩
      · simp only [stepOp, hpr', Result.isOk, if_true]; exact hs
      · simp [stepOp, upd_same]
      · show (processResp (s.threads t).cur.unit (s.threads t).tidv s.buf (s.threads t).resp).2 = []
        rw [hpr']
      · intro x hx
        have hx' : x ∈ (s.threads t).results ++
            [((s.threads t).cur, (s.threads t).tidv,
              (processResp (s.threads t).cur.unit (s.threads t).tidv s.buf (s.threads t).resp).1)] := by
          simpa [stepOp, upd_same] using hx
        rw [List.mem_append] at hx'
        cases hx' with
        | inl hx' => exact hok.served x hx'
        | inr hx' =>
          rw [List.mem_singleton] at hx'
          rw [hx', hpr']
          exact Or.inr (Or.inr (Or.inr ⟨hbc, by show (s.threads t).cur.lost < s.cfg.attempts; omega, rfl⟩))
      · exact hok.conserve.finish hcp
          ((s.threads t).tidv, (processResp (s.threads t).cur.unit (s.threads t).tidv s.buf (s.threads t).resp).1)
          (by simp [stepOp, upd_same]) (by simp [stepOp, upd_same]) (by simp [stepOp, upd_same])
  | release h q =>
    rw [h] at hops; cases hops
    have hb0 : s.buf = [] := q.2.2.1
    have hw0 : pairs s.wire = true := q.2.2.2
    have hp0 : s.pending c = [] := q.1
    have hs0 : s.stream c = [] := q.2.1
    have hidle : Idle (stepOp .whole s t (s.threads t) [.crelease] .release).view := by
      refine ⟨?_, ?_, ?_, ?_⟩
      · simpa [stepOp, lockKey, State.view] using hb0
      · simpa [stepOp, lockKey, State.view] using hw0
      · simpa [stepOp, lockKey, State.view] using hfr
      · intro c' hc'
        have : c' = c := by
          have : s.sock = some c' := by simpa [stepOp, lockKey, State.view] using hc'
          rw [hs] at this; cases this; rfl
        subst this
        exact ⟨by simpa [stepOp, lockKey, State.view] using hc1,
          by simpa [stepOp, lockKey, State.view] using hp0, by simpa [stepOp, lockKey, State.view] using hs0⟩
    refine inv_holder_step hi hl hoth ?_ (Stage.crel ?_ hidle ?_) ?_
    · simpa [stepOp, lockKey, lockRelease, hm, upd] using hl
    · simp [stepOp, lockKey, upd_same]
    · simp [stepOp, lockKey, lockRelease, hm, upd, State.view]
    · exact hok.congr (by simp [stepOp, lockKey, upd_same]) (by simp [stepOp, lockKey, upd_same])
        (by simp [curPending, h, stepOp, lockKey, upd_same])

theorem idle_of_fields {s s' : State} (q : Idle s.view) (h1 : s'.buf = s.buf) (h2 : s'.wire = s.wire)
    (h3 : s'.pending = s.pending) (h4 : s'.stream = s.stream) (h5 : s'.sock = s.sock)
    (h6 : s'.nextConn = s.nextConn) : Idle s'.view := by
  unfold Idle State.view at *
  simp only [h1, h2, h3, h4, h5, h6]
  exact q

theorem closed_of_fields {s s' : State} {t : Nat} (q : Closed s.view t) (h1 : s'.buf = s.buf) (h2 : s'.wire = s.wire)
    (h3 : s'.pending = s.pending) (h4 : s'.stream = s.stream) (h5 : s'.sock = s.sock)
    (h6 : s'.nextConn = s.nextConn) (h7 : s'.locks = s.locks) : Closed s'.view t := by
  unfold Closed State.view at *
  simp only [h1, h2, h3, h4, h5, h6, h7]
  exact q

theorem inv_holder_op {s : State} {t : Nat} {op : Op} {ops : List Op} (hi : Inv reqs s)
    (hl : s.locks 0 = some (t, 1)) (hst : Stage s.view t (s.threads t))
    (hops : (s.threads t).ops = op :: ops) : Inv reqs (stepOp .whole s t (s.threads t) ops op) := by
  have hok := hi.ok t
  have hoth := fun u (hu : u ≠ t) => stepOp_threads_other .whole s t (s.threads t) ops op u hu
  cases hst with
  | inner c hs hc1 hfr hm st => exact inv_holder_inner hi hl hs hc1 hfr hm st hops
  | pre k h q hm h0 =>
    rw [h] at hops; cases hops
    have hm' : s.locks 1 = none := hm
    cases hsock : s.sock with
    | some c =>
      refine inv_holder_step hi hl hoth (by simpa [stepOp, hsock] using hl) (Stage.acq k ?_ ?_ c ?_ ?_ ?_) ?_
      · simp [stepOp, hsock, upd_same]
      · exact idle_of_fields q (by simp [stepOp, hsock]) (by simp [stepOp, hsock]) (by simp [stepOp, hsock])
          (by simp [stepOp, hsock]) (by simp [stepOp, hsock]) (by simp [stepOp, hsock])
      · simpa [stepOp, hsock, State.view] using hsock
      · simpa [stepOp, hsock, State.view] using hm'
      · simpa [stepOp, hsock, upd_same] using h0
      · exact hok.congr (by simp [stepOp, hsock, upd_same]) (by simp [stepOp, hsock, upd_same])
          (curPending_congr' (by simp [stepOp, hsock, upd_same]) (by rw [h]; simp)
            (by simp [stepOp, hsock, upd_same]))
    | none =>
      refine inv_holder_step hi hl hoth (by simpa [stepOp, hsock] using hl) (Stage.opening k ?_ ?_ ?_ ?_ ?_) ?_
      · simp [stepOp, hsock, upd_same]
      · exact idle_of_fields q (by simp [stepOp, hsock]) (by simp [stepOp, hsock]) (by simp [stepOp, hsock])
          (by simp [stepOp, hsock]) (by simp [stepOp, hsock]) (by simp [stepOp, hsock])
      · simpa [stepOp, hsock, State.view] using hsock
      · simpa [stepOp, hsock, State.view] using hm'
      · simpa [stepOp, hsock, upd_same] using h0
      · exact hok.congr (by simp [stepOp, hsock, upd_same]) (by simp [stepOp, hsock, upd_same])
          (curPending_congr' (by simp [stepOp, hsock, upd_same]) (by rw [h]; simp)
            (by simp [stepOp, hsock, upd_same]))
  | opening k h q hso hm h0 =>
    rw [h] at hops; cases hops
    have hm' : s.locks 1 = none := hm
    have hso' : s.sock = none := hso
    obtain ⟨qb, qw, qf, _⟩ := q
    have qb' : s.buf = [] := qb
    have qw' : pairs s.wire = true := qw
    have qf' : FreshF s.pending s.stream s.nextConn := qf
    cases hc : s.connOk s.attempts with
    | true =>
      refine inv_holder_step hi hl hoth (by simpa [stepOp, hc] using hl)
        (Stage.acq k ?_ ⟨?_, ?_, ?_, ?_⟩ s.nextConn ?_ ?_ ?_) ?_
      · simp [stepOp, hc, upd_same]
      · simpa [stepOp, hc, State.view] using qb'
      · simpa [stepOp, hc, State.view] using qw'
      · simp only [stepOp, hc, State.view, if_true]
        intro c' hc'; exact qf' c' (by omega)
      · intro c' hc'
        have : c' = s.nextConn := by
          have : some s.nextConn = some c' := by simpa [stepOp, hc, State.view] using hc'
          cases this; rfl
        subst this
        exact ⟨by simp [stepOp, hc, State.view], by simpa [stepOp, hc, State.view] using (qf' _ (Nat.le_refl _)).1,
          by simpa [stepOp, hc, State.view] using (qf' _ (Nat.le_refl _)).2⟩
      · simp [stepOp, hc, State.view]
      · simpa [stepOp, hc, State.view] using hm'
      · simpa [stepOp, hc, upd_same] using h0
      · exact hok.congr (by simp [stepOp, hc, upd_same]) (by simp [stepOp, hc, upd_same])
          (curPending_congr' (by simp [stepOp, hc, upd_same]) (by rw [h]; simp) (by simp [stepOp, hc, upd_same]))
    | false =>
      -- refused: ConnectionException leaves `execute`, the `with` gives the client lock back
      have hfil : ((Op.acquire :: .tid :: .connect :: .flush :: .send1 :: .send2 :: tailX (s.threads t).cur k).filter
          (· == .crelease)) = [.crelease] := by
        simp [List.filter_cons, filter_crelease_tailX]
      refine inv_holder_step hi hl hoth (by simpa [stepOp, hc] using hl)
        (Stage.crel ?_ ⟨?_, ?_, ?_, ?_⟩ ?_) ⟨?_, ?_⟩
      · simp [stepOp, hc, upd_same, hfil]
      · simpa [stepOp, hc, State.view] using qb'
      · simpa [stepOp, hc, State.view] using qw'
      · simpa [stepOp, hc, State.view] using qf'
      · intro c' hc'
        have : (none : Option Nat) = some c' := by simpa [stepOp, hc, State.view] using hc'
        cases this
      · simpa [stepOp, hc, State.view] using hm'
      · intro x hx
        have hx' : x ∈ (s.threads t).results ++ [((s.threads t).cur, (s.threads t).tidv, .raised .modbusExc)] := by
          simpa [stepOp, hc, upd_same] using hx
        rw [List.mem_append] at hx'
        cases hx' with
        | inl hx' => exact hok.served x hx'
        | inr hx' =>
          rw [List.mem_singleton] at hx'
          exact Or.inl ⟨by rw [hx'], s.attempts, hc⟩
      · exact hok.conserve.finish (curPending_of (by rw [h]; simp)) ((s.threads t).tidv, .raised .modbusExc)
          (by simp [stepOp, hc, upd_same]) (by simp [stepOp, hc, upd_same])
          (by simp [stepOp, hc, upd_same, hfil])
  | acq k h q c hs hm h0 =>
    rw [h] at hops; cases hops
    have hm' : s.locks 1 = none := hm
    have hs' : s.sock = some c := hs
    have hq := q.quiet c hs
    obtain ⟨_, _, qf, qc⟩ := q
    have qf' : FreshF s.pending s.stream s.nextConn := qf
    have hc1 : c + 1 = s.nextConn := (qc c hs).1
    refine inv_holder_step hi hl hoth ?_ (Stage.inner c ?_ ?_ ?_ ?_ (IStage.tid k ?_ ?_ ?_)) ?_
    · simpa [stepOp, lockKey, lockAcquire, hm', upd] using hl
    · simpa [stepOp, lockKey, lockAcquire, hm', State.view] using hs'
    · simpa [stepOp, lockKey, lockAcquire, hm', State.view] using hc1
    · simpa [stepOp, lockKey, lockAcquire, hm', State.view] using qf'
    · simp [stepOp, lockKey, lockAcquire, hm', upd, State.view]
    · simp [stepOp, lockKey, lockAcquire, hm', upd_same]
    · simpa [stepOp, lockKey, lockAcquire, hm', State.view, View.shared] using hq
    · simpa [stepOp, lockKey, lockAcquire, hm', State.view, upd_same, h0] using attempts_pos s.cfg
    · exact hok.congr (by simp [stepOp, lockKey, lockAcquire, hm', upd_same])
        (by simp [stepOp, lockKey, lockAcquire, hm', upd_same])
        (curPending_congr' (by simp [stepOp, lockKey, lockAcquire, hm', upd_same]) (by rw [h]; simp)
          (by simp [stepOp, lockKey, lockAcquire, hm', upd_same]))
  | closedBackoff k h hbc ha cl =>
    -- the back-off between two attempts: both locks stay held, nothing changes
    rw [h] at hops; cases hops
    refine inv_closed_step hi hl hoth rfl
      (Stage.closedConnect k ?_ ?_ ?_ (closed_of_fields cl rfl rfl rfl rfl rfl rfl rfl)) ?_
    · simp [stepOp, upd_same]
    · simpa [stepOp, upd_same] using hbc
    · simpa [stepOp, upd_same, State.view] using ha
    · exact hok.congr (by simp [stepOp, upd_same]) (by simp [stepOp, upd_same])
        (curPending_congr' (by simp [stepOp, upd_same]) (by rw [h]; simp) (by simp [stepOp, upd_same]))
  | closedConnect k h hbc ha cl =>
    -- `_transact`: `client.connect()` finds no socket and opens one; the frame is built again
    rw [h] at hops; cases hops
    have hso : s.sock = none := cl.1
    refine inv_closed_step hi hl hoth (by simp [stepOp, hso])
      (Stage.closedOpen k ?_ ?_ ?_ ?_
        (closed_of_fields cl (by simp [stepOp, hso]) (by simp [stepOp, hso]) (by simp [stepOp, hso])
          (by simp [stepOp, hso]) (by simp [stepOp, hso]) (by simp [stepOp, hso]) (by simp [stepOp, hso]))) ?_
    · simp [stepOp, hso, upd_same]
    · simpa [stepOp, hso, upd_same] using hbc
    · simpa [stepOp, hso, upd_same, State.view] using ha
    · simp [stepOp, hso, upd_same]
    · exact hok.congr (by simp [stepOp, hso, upd_same]) (by simp [stepOp, hso, upd_same])
        (curPending_congr' (by simp [stepOp, hso, upd_same]) (by rw [h]; simp) (by simp [stepOp, hso, upd_same]))
  | closedOpen k h hbc ha hfm cl =>
    rw [h] at hops; cases hops
    obtain ⟨hso, hb, hw, hfr, hm⟩ := cl
    have hso' : s.sock = none := hso
    have hb0 : s.buf = [] := hb
    have hw0 : pairs s.wire = true := hw
    have hf0 : FreshF s.pending s.stream s.nextConn := hfr
    have hm' : s.locks 1 = some (t, 1) := hm
    cases hc : s.connOk s.attempts with
    | true =>
      -- reconnected: the next attempt goes out on a fresh connection
      refine inv_holder_step hi hl hoth (by simpa [stepOp, hc] using hl)
        (Stage.inner s.nextConn ?_ ?_ ?_ ?_ (IStage.flush k ?_ ⟨?_, ?_, ?_, ?_⟩ ?_ ?_)) ?_
      · simp [stepOp, hc, State.view]
      · simp [stepOp, hc, State.view]
      · simp only [stepOp, hc, State.view, if_true]
        intro c' hc'; exact hf0 c' (by omega)
      · simpa [stepOp, hc, State.view] using hm'
      · simp [stepOp, hc, upd_same, tailX_plain hbc]
      · simpa [stepOp, hc, State.view, View.shared] using (hf0 _ (Nat.le_refl _)).1
      · simpa [stepOp, hc, State.view, View.shared] using (hf0 _ (Nat.le_refl _)).2
      · simpa [stepOp, hc, State.view, View.shared] using hb0
      · simpa [stepOp, hc, State.view, View.shared] using hw0
      · simpa [stepOp, hc, upd_same] using hfm
      · simpa [stepOp, hc, upd_same, State.view] using ha
      · exact hok.congr (by simp [stepOp, hc, upd_same]) (by simp [stepOp, hc, upd_same])
          (curPending_congr' (by simp [stepOp, hc, upd_same]) (by rw [h]; simp) (by simp [stepOp, hc, upd_same]))
    | false =>
      -- refused: `_send` raises ConnectionException; both `with` blocks give their locks back on the way out
      have hfil : ((Op.flush :: .send1 :: .send2 :: tailOps k).filter (fun o => o == .release || o == .crelease)) =
          [.release, .crelease] := by
        simp [List.filter_cons, filter_releases_tail]
      refine inv_holder_step hi hl hoth (by simpa [stepOp, hc, raiseOut] using hl)
        (Stage.closedRel ?_ ⟨?_, ?_, ?_, ?_, ?_⟩) ⟨?_, ?_⟩
      · simp [stepOp, hc, raiseOut, upd_same, hfil]
      · simp [stepOp, hc, raiseOut, State.view]
      · simpa [stepOp, hc, raiseOut, State.view] using hb0
      · simpa [stepOp, hc, raiseOut, State.view] using hw0
      · simpa [stepOp, hc, raiseOut, State.view] using hf0
      · simpa [stepOp, hc, raiseOut, State.view] using hm'
      · intro x hx
        have hx' : x ∈ (s.threads t).results ++ [((s.threads t).cur, (s.threads t).tidv, .raised .modbusExc)] := by
          simpa [stepOp, hc, raiseOut, upd_same] using hx
        rw [List.mem_append] at hx'
        cases hx' with
        | inl hx' => exact hok.served x hx'
        | inr hx' =>
          rw [List.mem_singleton] at hx'
          exact Or.inl ⟨by rw [hx'], s.attempts, hc⟩
      · exact hok.conserve.finish (curPending_of (by rw [h]; simp)) ((s.threads t).tidv, .raised .modbusExc)
          (by simp [stepOp, hc, raiseOut, upd_same]) (by simp [stepOp, hc, raiseOut, upd_same])
          (by simp [stepOp, hc, raiseOut, upd_same, hfil])
  | closedBackoffLast h hr hbc hall cl =>
    rw [h] at hops; cases hops
    refine inv_closed_step hi hl hoth rfl
      (Stage.closedProc ?_ ?_ ?_ ?_ (closed_of_fields cl rfl rfl rfl rfl rfl rfl rfl)) ?_
    · simp [stepOp, upd_same]
    · simpa [stepOp, upd_same] using hr
    · simpa [stepOp, upd_same] using hbc
    · simpa [stepOp, upd_same, State.view] using hall
    · exact hok.congr (by simp [stepOp, upd_same]) (by simp [stepOp, upd_same])
        (curPending_congr' (by simp [stepOp, upd_same]) (by rw [h]; simp) (by simp [stepOp, upd_same]))
  | closedProc h hr hbc hall cl =>
    rw [h] at hops; cases hops
    obtain ⟨hs, hb, hw, hfr, hm⟩ := cl
    have hb0 : s.buf = [] := hb
    have hs' : s.sock = none := hs
    have hm' : s.locks 1 = some (t, 1) := hm
    have hall' : s.cfg.attempts ≤ (s.threads t).cur.lost := hall
    have hcp : curPending (s.threads t) = [(s.threads t).cur] := curPending_of (by rw [h]; simp)
    have hpr' : processResp (s.threads t).cur.unit (s.threads t).tidv s.buf (s.threads t).resp =
        (.err .modbusIO, []) := by rw [hb0, hr, processResp_nil]
    refine inv_holder_step hi hl hoth hl (Stage.closedRel ?_ ⟨?_, ?_, hw, hfr, hm'⟩) ⟨?_, ?_⟩
    · simp [stepOp, upd_same]
    · show (stepOp .whole s t (s.threads t) [.release, .crelease] .process).view.sock = none
      simp [State.view, stepOp, hpr', Result.isOk]
    · show (processResp (s.threads t).cur.unit (s.threads t).tidv s.buf (s.threads t).resp).2 = []
      rw [hpr']
    · intro x hx
      have hx' : x ∈ (s.threads t).results ++
          [((s.threads t).cur, (s.threads t).tidv,
            (processResp (s.threads t).cur.unit (s.threads t).tidv s.buf (s.threads t).resp).1)] := by
        simpa [stepOp, upd_same] using hx
      rw [List.mem_append] at hx'
      cases hx' with
      | inl hx' => exact hok.served x hx'
      | inr hx' =>
        rw [List.mem_singleton] at hx'
        rw [hx', hpr']
        exact Or.inr (Or.inr (Or.inl ⟨hbc, hall', rfl⟩))
    · exact hok.conserve.finish hcp
        ((s.threads t).tidv, (processResp (s.threads t).cur.unit (s.threads t).tidv s.buf (s.threads t).resp).1)
        (by simp [stepOp, upd_same]) (by simp [stepOp, upd_same]) (by simp [stepOp, upd_same])
  | closedRel h cl =>
    rw [h] at hops; cases hops
    obtain ⟨hs, hb, hw, hfr, hm⟩ := cl
    have hb0 : s.buf = [] := hb
    have hw0 : pairs s.wire = true := hw
    have hs' : s.sock = none := hs
    have hm' : s.locks 1 = some (t, 1) := hm
    have hf0 : FreshF s.pending s.stream s.nextConn := hfr
    refine inv_holder_step hi hl hoth ?_ (Stage.crel ?_ ⟨?_, ?_, ?_, ?_⟩ ?_) ?_
    · simpa [stepOp, lockKey, lockRelease, hm', upd] using hl
    · simp [stepOp, lockKey, upd_same]
    · simpa [stepOp, lockKey, State.view] using hb0
    · simpa [stepOp, lockKey, State.view] using hw0
    · simpa [stepOp, lockKey, State.view] using hf0
    · intro c' hc'
      have : s.sock = some c' := by simpa [stepOp, lockKey, State.view] using hc'
      rw [hs'] at this; cases this
    · simp [stepOp, lockKey, lockRelease, hm', upd, State.view]
    · exact hok.congr (by simp [stepOp, lockKey, upd_same]) (by simp [stepOp, lockKey, upd_same])
        (by simp [curPending, h, stepOp, lockKey, upd_same])
  | crel h q hm =>
    rw [h] at hops; cases hops
    have hm' : s.locks 1 = none := hm
    refine inv_crelease hi hl hoth ?_ ?_ ?_ (Or.inl ?_) ?_
    · simp [stepOp, lockRelease, clientKey, hl, upd]
    · exact idle_of_fields q rfl rfl rfl rfl rfl rfl
    · simpa [stepOp, lockRelease, clientKey, hl, upd] using hm'
    · simp [stepOp, upd_same]
    · exact hok.congr (by simp [stepOp, upd_same]) (by simp [stepOp, upd_same])
        (by simp [curPending, h, stepOp, upd_same])

theorem not_holder_of_outside {s : State} {t : Nat} (hi : Inv reqs s) (ho : Outside (s.threads t)) :
    ∀ h d, s.locks 0 = some (h, d) → t ≠ h := by
  intro h d hl e
  subst e
  exact (hi.held _ _ hl).2.1.not_outside ho

theorem outside_or_holder {s : State} (hi : Inv reqs s) (t : Nat) :
    Outside (s.threads t) ∨
      (s.locks 0 = some (t, 1) ∧ Stage s.view t (s.threads t)) := by
  cases hl : s.locks 0 with
  | none => exact Or.inl ((hi.free hl).2.2 t)
  | some p =>
    obtain ⟨h, d⟩ := p
    obtain ⟨hd, hst, ho⟩ := hi.held h d hl
    subst hd
    by_cases ht : t = h
    · subst ht; exact Or.inr ⟨rfl, hst⟩
    · exact Or.inl (ho t ht)

/-- the invariant is preserved by every step of every thread -/
theorem inv_step {s : State} (hi : Inv reqs s) (t : Nat) : Inv reqs (step .whole s t) := by
  unfold step
  cases hops : (s.threads t).ops with
  | nil =>
    cases htodo : (s.threads t).todo with
    | nil => exact hi
    | cons r rest =>
      -- the caller turns to its next request
      have hout : Outside (s.threads t) := Or.inl hops
      have hok := hi.ok t
      refine inv_outsider_step hi (not_holder_of_outside hi hout)
        (s' := stepBegin .whole s t (s.threads t) r rest)
        (fun u hu => by simp [stepBegin, upd, hu]) rfl rfl ?_ ⟨?_, ?_⟩
      · exact Or.inr ⟨r.lat, by simp [stepBegin, upd_same, txnOps_whole], by simp [stepBegin, upd_same]⟩
      · intro x hx
        exact hok.served x (by simpa [stepBegin, upd_same] using hx)
      · have hc := hok.conserve
        unfold Conserved at hc ⊢
        rw [htodo] at hc
        rw [← hc]
        have hcp : curPending (s.threads t) = [] := by simp [curPending, hops]
        have hcp' : curPending ((stepBegin .whole s t (s.threads t) r rest).threads t) = [r] := by
          simp [curPending, stepBegin, upd_same, txnOps_whole]
        rw [hcp, hcp']
        simp [stepBegin, upd_same]
  | cons op ops =>
    have hoth := fun u (hu : u ≠ t) => stepOp_threads_other .whole s t (s.threads t) ops op u hu
    cases outside_or_holder hi t with
    | inr hh => exact inv_holder_op hi hh.1 hh.2 hops
    | inl hout =>
      have hnot := not_holder_of_outside hi hout
      have hok := hi.ok t
      cases hout with
      | inl h0 => rw [h0] at hops; cases hops
      | inr hk =>
        obtain ⟨k, hk, h0⟩ := hk
        rw [hk] at hops; cases hops
        cases hl : s.locks 0 with
        | none =>
          obtain ⟨q, hm, _⟩ := hi.free hl
          show Inv reqs (stepOp .whole s t (s.threads t) _ .cacquire)
          refine inv_cacquire hi hl hoth ?_ (Stage.pre k ?_ ?_ ?_ ?_) ?_
          · simp [stepOp, clientKey, lockAcquire, hl, upd]
          · simp [stepOp, clientKey, lockAcquire, hl, upd_same]
          · exact idle_of_fields q (by simp [stepOp, clientKey, lockAcquire, hl])
              (by simp [stepOp, clientKey, lockAcquire, hl]) (by simp [stepOp, clientKey, lockAcquire, hl])
              (by simp [stepOp, clientKey, lockAcquire, hl]) (by simp [stepOp, clientKey, lockAcquire, hl])
              (by simp [stepOp, clientKey, lockAcquire, hl])
          · simpa [stepOp, clientKey, lockAcquire, hl, upd, State.view] using hm
          · simpa [stepOp, clientKey, lockAcquire, hl, upd_same] using h0
          · exact hok.congr (by simp [stepOp, clientKey, lockAcquire, hl, upd_same])
              (by simp [stepOp, clientKey, lockAcquire, hl, upd_same])
              (curPending_congr' (by simp [stepOp, clientKey, lockAcquire, hl, upd_same]) (by rw [hk]; simp)
                (by simp [stepOp, clientKey, lockAcquire, hl, upd_same]))
        | some p =>
          obtain ⟨h, d⟩ := p
          have hne := hnot h d hl
          have e : stepOp .whole s t (s.threads t)
              (.preconnect :: .acquire :: .tid :: .connect :: .flush :: .send1 :: .send2 :: tailX (s.threads t).cur k)
              .cacquire = s := by
            simp [stepOp, clientKey, lockAcquire, hl, Ne.symm hne]
          show Inv reqs (stepOp .whole s t (s.threads t) _ .cacquire)
          rw [e]; exact hi

/-- the initial state satisfies the invariant, whether the client is connected or not, whatever the fate of the
    connection attempts and of the replies to come, whatever the retry configuration of the client -/
theorem inv_init (reqs : Nat → List Req) (connected : Bool) (cok : Nat → Bool) (cfg : Cfg) :
    Inv reqs (init reqs connected cok cfg) := by
  refine ⟨?_, ?_, ?_⟩
  · intro _
    refine ⟨⟨rfl, rfl, fun c _ => ⟨rfl, rfl⟩, ?_⟩, rfl, fun t => Or.inl rfl⟩
    intro c hc
    cases connected
    · simp [State.view, init] at hc
    · have : c = 0 := by
        have : some 0 = some c := by simpa [State.view, init] using hc
        cases this; rfl
      subst this
      exact ⟨rfl, rfl, rfl⟩
  · intro h d hl; cases hl
  · intro t
    refine ⟨?_, ?_⟩
    · intro x hx
      have : x ∈ ([] : List (Req × Nat × Result)) := hx
      cases this
    · show ([] : List (Req × Nat × Result)).map (·.1) ++ curPending _ ++ reqs t = reqs t
      have : curPending ((init reqs connected cok cfg).threads t) = [] := by simp [curPending, init]
      rw [this]; rfl

theorem inv_run (reqs : Nat → List Req) {s : State} (hi : Inv reqs s) (sched : List Nat) :
    Inv reqs (runSched .whole s sched) := by
  induction sched generalizing s with
  | nil => exact hi
  | cons t rest ih => exact ih (inv_step hi t)

/-- every reachable state satisfies the invariant -/
theorem inv_reachable (reqs : Nat → List Req) (connected : Bool) (cok : Nat → Bool) (cfg : Cfg) (sched : List Nat) :
    Inv reqs (runSched .whole (init reqs connected cok cfg) sched) :=
  inv_run reqs (inv_init reqs connected cok cfg) sched

/-! ### no deadlock, fairness -/

/-- in every state satisfying the invariant: if some thread has not finished, some thread can move -/
theorem exists_runnable {s : State} (hi : Inv reqs s) (t : Nat) (hnd : (s.threads t).done = false) :
    ∃ u, runnable .whole s u = true := by
  cases hl : s.locks 0 with
  | some p =>
    obtain ⟨h, d⟩ := p
    obtain ⟨op, l, ho, hne, hacq, _⟩ := (hi.held h d hl).2.1.head
    refine ⟨h, ?_⟩
    by_cases ha : op = .acquire
    · subst ha
      have hm : s.locks 1 = none := hacq rfl
      simp [runnable, ho, lockKey, hm]
    · exact runnable_of_head _ _ _ _ _ ho ha hne
  | none =>
    refine ⟨t, ?_⟩
    cases (hi.free hl).2.2 t with
    | inl h0 =>
      cases htodo : (s.threads t).todo with
      | nil => simp [Thread.done, h0, htodo] at hnd
      | cons r rest => simp [runnable, h0, htodo]
    | inr hk =>
      obtain ⟨k, hk, _⟩ := hk
      simp [runnable, hk, clientKey, hl]

theorem round_progress {s : State} (hi : Inv reqs s) (n : Nat)
    (hn : ∀ v, n ≤ v → (s.threads v).done = true) (round : List Nat) (hc : Covers n round) :
    (∀ t, (s.threads t).done = true) ∨
      totalWork .whole (runSched .whole s round) n < totalWork .whole s n := by
  by_cases hall : ∀ t, (s.threads t).done = true
  · exact Or.inl hall
  · right
    have ⟨t, ht⟩ : ∃ t, (s.threads t).done = false := by
      apply Classical.byContradiction
      intro hne
      apply hall
      intro t
      cases hd : (s.threads t).done with
      | true => rfl
      | false => exact absurd ⟨t, hd⟩ hne
    obtain ⟨u, hu⟩ := exists_runnable hi t ht
    have hun : u < n := by
      refine Nat.lt_of_not_le (fun hle => ?_)
      rw [done_not_runnable _ s u (hn u hle)] at hu; cases hu
    exact run_progress .whole s round n u hn (hc u hun) hu

/-- fairness, finite form: a schedule made of `k` rounds, each round giving every thread below `n` at least one turn,
    with `k` at least the number of operations the threads still have to perform (retries included), ends with every
    thread finished -/
theorem fair_rounds_finish {s : State} (hi : Inv reqs s) (n : Nat)
    (hn : ∀ v, n ≤ v → (s.threads v).done = true) (rounds : List (List Nat))
    (hc : ∀ r ∈ rounds, Covers n r) (hk : totalWork .whole s n ≤ rounds.length) :
    ∀ t, ((runSched .whole s rounds.flatten).threads t).done = true := by
  induction rounds generalizing s with
  | nil =>
    intro t
    cases hd : (s.threads t).done with
    | true => exact hd
    | false =>
      exfalso
      obtain ⟨u, hu⟩ := exists_runnable hi t hd
      have hun : u < n := by
        refine Nat.lt_of_not_le (fun hle => ?_)
        rw [done_not_runnable _ s u (hn u hle)] at hu; cases hu
      have h1 := totalWork_step_lt .whole s u n hun hu
      simp at hk
      omega
  | cons r rs ih =>
    rw [List.flatten_cons, runSched_append]
    cases round_progress hi n hn r (hc r (List.mem_cons_self ..)) with
    | inl hall => exact all_done_run _ _ _ (all_done_run _ _ _ hall)
    | inr hlt =>
      apply ih (inv_run reqs hi r) (fun v hv => done_run _ _ _ _ (hn v hv))
        (fun r' hr' => hc r' (List.mem_cons_of_mem _ hr'))
      simp at hk
      omega

end Pymodbus.Sched
