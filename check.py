#!/usr/bin/env python3
"""Entry point of every registered check.

  check.py Cxx [--tier quick|thorough]      run the check for one property
  check.py Cxx --replay <file>              re-run one recorded case against the real code

Exit 0: property held on everything explored (known findings are reported as
KNOWN-FINDING lines).  Exit 1: at least one `VIOLATION property=<id> replay=<path>` line.
Exit 2: infrastructure failure / timeout (never reported as a violation).
"""
import os
import sys

VERIF = os.path.dirname(os.path.abspath(__file__))
PY = '/venv/bin/python'
if os.path.realpath(sys.executable) != os.path.realpath(PY) and not os.environ.get('PMV_REEXEC'):
    env = dict(os.environ)
    env['PMV_REEXEC'] = '1'
    env['PYTHONPATH'] = env.get('PMV_REPO', '/repo') + (os.pathsep + env['PYTHONPATH'] if env.get('PYTHONPATH') else '')
    env['PYMODBUS_VERIF'] = '1'
    env['PYTHONDONTWRITEBYTECODE'] = '1'
    os.execve(PY, [PY, os.path.abspath(__file__)] + sys.argv[1:], env)

sys.path.insert(0, VERIF)
sys.dont_write_bytecode = True
os.chdir(VERIF)

from harness import runner  # noqa: E402

if __name__ == '__main__':
    sys.exit(runner.main(sys.argv[1:]))
