#!/bin/sh
# MANIFEST.setup_cmd: build the Lean model, every Props module, and the model driver. Offline.
set -e
cd "$(dirname "$0")"
PYTHONPATH=/repo PYMODBUS_VERIF=1 PYTHONDONTWRITEBYTECODE=1 /venv/bin/python -m harness.gen_tables
cd lean
mods=$(ls Pymodbus/Props/*.lean | sed 's/\.lean$//; s#/#.#g')
lake build Pymodbus pmdriver $mods
