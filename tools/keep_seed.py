#!/usr/bin/env python3
"""usage: tools/keep_seed.py <worktree> <seed-id> <Cxx> "<what it needs to manifest>"
Confirms a seeded change independently (demo fails with it / passes without it; baseline suite unchanged)
and stores it under /verif/seeded/<seed-id>/."""
import json, os, shutil, subprocess, sys
wt, sid, pid, needs = sys.argv[1:5]
env = dict(os.environ, PYTHONPATH=wt, PYTHONDONTWRITEBYTECODE='1')
def sh(cmd, **kw):
    return subprocess.run(cmd, shell=True, cwd=wt, env=env, stdout=subprocess.PIPE, stderr=subprocess.STDOUT, text=True, **kw)
base = json.load(open('/root/.vp/BASELINE.json'))
ran = []
patch = os.path.join(wt, 'patch.diff')
sh('git diff -- pymodbus > patch.now.diff')
if open(os.path.join(wt, 'patch.now.diff')).read().strip() != open(patch).read().strip():
    print('WARNING: worktree diff differs from patch.diff; using the worktree diff'); shutil.copy(os.path.join(wt, 'patch.now.diff'), patch)
r1 = sh('/venv/bin/python demo_seed.py', timeout=600); ran.append(('demo with change', r1.returncode))
sh('git apply -R patch.diff')
r0 = sh('/venv/bin/python demo_seed.py', timeout=600); ran.append(('demo without change', r0.returncode))
sh('git apply patch.diff')
t = sh('/venv/bin/python -m pytest -q -p no:cacheprovider --timeout=60 --continue-on-collection-errors --junitxml=/tmp/junit_%s.xml test' % sid, timeout=1500)
import xml.etree.ElementTree as ET
passed = set()
for tc in ET.parse('/tmp/junit_%s.xml' % sid).getroot().iter('testcase'):
    if not list(tc):
        passed.add('%s::%s' % (tc.get('classname'), tc.get('name')))
os.remove('/tmp/junit_%s.xml' % sid)
missing = [x for x in base['stable_pass'] if x not in passed]
ran.append(('baseline tests passing with change', len(base['stable_pass']) - len(missing)))
ok = r1.returncode == 1 and r0.returncode == 0 and not missing
print(ran, 'missing:', missing[:5], 'OK' if ok else 'REJECTED')
if not ok:
    sys.exit(1)
d = os.path.join('/verif/seeded', sid); os.makedirs(d, exist_ok=True)
shutil.copy(patch, d); shutil.copy(os.path.join(wt, 'demo_seed.py'), d)
if os.path.exists(os.path.join(wt, 'NOTES.md')): shutil.copy(os.path.join(wt, 'NOTES.md'), d)
json.dump(dict(id=sid, property=pid, needs_to_manifest=needs, base_commit=subprocess.run('git rev-parse HEAD', shell=True, cwd=wt, stdout=subprocess.PIPE, text=True).stdout.strip(),
               confirmed=[dict(step=a, result=b) for a, b in ran], demo_output_with_change=r1.stdout[-1500:], detected_by=None), open(os.path.join(d, 'meta.json'), 'w'), indent=1)
print('kept', d)
