import ast,sys
src=open(sys.argv[1]).read()
t=ast.parse(src)
for n in ast.walk(t):
    if isinstance(n,(ast.FunctionDef,ast.ClassDef,ast.Module,ast.AsyncFunctionDef)):
        if n.body and isinstance(n.body[0],ast.Expr) and isinstance(getattr(n.body[0],'value',None),ast.Constant) and isinstance(n.body[0].value.value,str):
            n.body=n.body[1:] or [ast.Pass()]
print(ast.unparse(t))
