#!/usr/bin/env python3
"""Regenerate the generated tables of DESIGN.md section 12 (between the BEGIN/END markers) from known_findings.json,
seeded/*/meta.json, MANIFEST.json and the evidence files."""
import json, os, re, subprocess
V = os.path.dirname(os.path.dirname(os.path.abspath(__file__)))
kf = json.load(open(os.path.join(V, 'known_findings.json')))['findings']
man = json.load(open(os.path.join(V, 'MANIFEST.json')))
out = []
out.append('### 12.3 Status per property (generated)\n')
out.append('| property | claimed | theorems (last run) | known findings | fixed defects | seeded changes detected |')
out.append('|---|---|---|---|---|---|')
claimed = {c['property_id']: c for c in man['checks']}
seeds = {}
for sid in sorted(os.listdir(os.path.join(V, 'seeded'))):
    m = json.load(open(os.path.join(V, 'seeded', sid, 'meta.json')))
    for p in (m.get('detected_by') or []):
        seeds.setdefault(p.split()[0], []).append(sid + (' (nfi)' if 'no-failing' in p else ''))
for i in range(1, 21):
    pid = 'C%02d' % i
    th = '-'
    ev = os.path.join(V, 'evidence', pid + '.json')
    if os.path.exists(ev):
        try:
            th = str(json.load(open(ev))['coverage'].get('obligations', '-'))
        except Exception:
            pass
    known = sorted({f['id'] for f in kf if f['property'] == pid and f['status'] == 'known'})
    fixed = sorted({f['id'] for f in kf if f['property'] == pid and f['status'] == 'fixed'})
    out.append('| %s | %s | %s | %s | %s | %s |' % (pid, 'yes' if pid in claimed else 'no', th, ', '.join(known) or '-', ', '.join(fixed) or '-',
                                                 ', '.join(seeds.get(pid, [])) or '-'))
out.append('\n### 12.4 Repairs made in /repo (`fix:` commits, generated from known_findings.json)\n')
seen = set()
for f in kf:
    if f['status'] == 'fixed' and f['line'] not in seen:
        seen.add(f['line'])
        out.append('* `%s` — %s' % (f['id'], f['line']))
out.append('\n### 12.5 Known findings (recorded, not repaired; generated)\n')
seen = {}
for f in kf:
    if f['status'] == 'known':
        seen.setdefault(f['id'], [f, []])[1].append(f['property'])
for fid, (f, props) in seen.items():
    out.append('* `%s` (%s) — %s%s' % (fid, ', '.join(sorted(set(props))), f.get('what', ''), ('  Scope: ' + f['scope']) if f.get('scope') else ''))
out.append('\n### 12.6 Seeded breaking changes and the checks that catch them (generated from seeded/*/meta.json)\n')
out.append('| seed | written against | needs, to manifest | detected by (quick tier) | missed by |')
out.append('|---|---|---|---|---|')
for sid in sorted(os.listdir(os.path.join(V, 'seeded'))):
    m = json.load(open(os.path.join(V, 'seeded', sid, 'meta.json')))
    out.append('| %s | %s | %s | %s | %s |' % (sid, m['property'], m['needs_to_manifest'].replace('|', '/'), ', '.join(m.get('detected_by') or []) or '(check not run)',
                                           ', '.join(m.get('missed_by') or []) or '-'))
out.append('\n### 12.7 What is proved and how, per property (generated from MANIFEST.json)\n')
for c in man['checks']:
    out.append('* **%s** — %s  *Technique:* %s.  *Level note:* %s\n' % (c['property_id'], c['level_claimed']['text'], c['technique'], c['level_note'].split('Trusted:')[-1].split('generated inputs and by regenerated tables checked by decide.')[-1].strip() or '-'))
txt = '\n'.join(out) + '\n'
p = os.path.join(V, 'DESIGN.md')
s = open(p).read()
a, b = '<!-- BEGIN GENERATED 12 -->', '<!-- END GENERATED 12 -->'
if a in s:
    s = s[:s.index(a) + len(a)] + '\n' + txt + s[s.index(b):]
    open(p, 'w').write(s)
    print('DESIGN.md section 12 tables regenerated')
else:
    print(txt)
