#!/usr/bin/env python3
"""usage: tools/seed_matrix.py [seed-id ...]   -- for every seeded change: apply it in a scratch worktree of /repo (PMV_REPO), run the quick check of its own
property (and of the properties listed in EXTRA), remove the worktree, and record which checks reported a VIOLATION in meta.json"""
import json, os, subprocess, sys
V = os.path.dirname(os.path.dirname(os.path.abspath(__file__)))
EXTRA = {'C12-15': ['C09'], 'C08-14': ['C14'], 'C03-14': ['C02'], 'C15-13': ['C08', 'C13'], 'C01-10': ['C02'], 'C12-10': ['C09'], 'C18-10': ['C04'], 'C11-09': ['C03', 'C09'], 'C05-07': ['C18'], 'C10-08': ['C18'], 'C12-05': ['C05'], 'C10-01': ['C18'], 'C05-01': ['C18'], 'C04-01': ['C18'], 'C02-01': ['C20', 'C01'], 'C12-01': ['C04', 'C05'], 'C17-01': ['C12']}
claimed = {c['property_id'] for c in json.load(open(os.path.join(V, 'MANIFEST.json')))['checks']}
ids = sys.argv[1:] or sorted(os.listdir(os.path.join(V, 'seeded')))
for sid in ids:
    d = os.path.join(V, 'seeded', sid)
    meta = json.load(open(os.path.join(d, 'meta.json')))
    props = [meta['property']] + EXTRA.get(sid, [])
    det, miss = [], []
    for p in props:
        if p not in claimed:
            continue
        wt = '/tmp/mut_matrix_%d' % os.getpid()
        subprocess.run(['git', '-C', '/repo', 'worktree', 'add', '-q', '--detach', wt, 'HEAD'], check=True)
        try:
            if subprocess.run(['git', 'apply', os.path.join(d, 'patch.diff')], cwd=wt).returncode != 0:
                miss.append(p + ' (patch no longer applies to the repaired tree)')
                continue
            r = subprocess.run(['python3', 'check.py', p, '--tier', 'quick'], cwd=V, stdout=subprocess.PIPE, stderr=subprocess.STDOUT, text=True,
                               env=dict(os.environ, PMV_REPO=wt))
        finally:
            subprocess.run(['git', '-C', '/repo', 'worktree', 'remove', '--force', wt], check=True)
        viol = [l for l in r.stdout.splitlines() if l.startswith('VIOLATION')]
        hard = [l for l in viol if 'no-failing-input-found' not in l]
        (det if (r.returncode == 1 and viol) else miss).append(p + ('' if hard or not viol else ' (no-failing-input-found)'))
    meta['detected_by'] = det
    meta['missed_by'] = miss
    json.dump(meta, open(os.path.join(d, 'meta.json'), 'w'), indent=1)
    print(sid, 'detected by', det, 'missed by', miss, flush=True)
subprocess.run('rm -f replays/*_viol*_seed0.json replays/*_unproved_seed0.json', shell=True, cwd=V)
