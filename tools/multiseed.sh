#!/bin/sh
# usage: tools/multiseed.sh "<seeds>" [tier] [props...]  -- run every claimed check with several VERIF_SEED values on the unchanged tree;
# prints one line per run; any line not ending in "exit 0" needs attention
SEEDS=${1:-"1 2 3"}; TIER=${2:-quick}; shift 2 2>/dev/null
PROPS=${*:-$(python3 -c "import json;print(' '.join(c['property_id'] for c in json.load(open('MANIFEST.json'))['checks']))")}
for s in $SEEDS; do
  for p in $PROPS; do
    out=$(VERIF_SEED=$s python3 check.py $p --tier $TIER 2>&1); rc=$?
    echo "seed=$s $p rc=$rc $(echo "$out" | grep -c '^VIOLATION') violations; $(echo "$out" | tail -1 | cut -c1-160)"
    [ $rc -ne 0 ] && echo "$out" | grep -v '^KNOWN' | tail -8 | cut -c1-600
  done
done
