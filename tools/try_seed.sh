#!/bin/sh
# usage: tools/try_seed.sh <patch.diff> <Cxx> [tier]   -- apply a seeded change to /repo, run the check, undo
set -u
P=$(realpath "$1"); PID=$2; TIER=${3:-quick}
cd /repo || exit 9
if [ -n "$(git status --porcelain -- pymodbus)" ]; then echo "/repo not clean"; exit 9; fi
git apply "$P" || { echo "patch does not apply"; exit 9; }
cd /verif
python3 check.py "$PID" --tier "$TIER" 2>&1 | tail -${TAIL:-8}
rc=$?
git -C /repo checkout -- .
echo "restored: $(git -C /repo status --porcelain | wc -l) dirty files"
