#!/bin/sh
# usage: tools/try_seed_wt.sh <patch.diff> <Cxx> [extra check.py args]  -- like try_seed.sh but in a scratch worktree (leaves /repo alone)
set -u
P=$(realpath "$1"); PID=$2; shift 2
WT=/tmp/mut_main_$$
git -C /repo worktree add -q --detach $WT HEAD || exit 9
( cd $WT && git apply "$P" ) || { echo "patch does not apply"; git -C /repo worktree remove --force $WT; exit 9; }
cd /verif
PMV_REPO=$WT python3 check.py "$PID" "$@" 2>&1 | tail -${TAIL:-8}
git -C /repo worktree remove --force $WT
