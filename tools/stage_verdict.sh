#!/bin/sh
# usage (staging copy only): tools/stage_verdict.sh <seed-id> [Cxx]
ID=$1; P=${2:-$(echo $ID | cut -d- -f1)}; NB=${3:-}
WT=/tmp/mut_stage_$$
git -C /repo worktree add -q --detach $WT HEAD || exit 9
( cd $WT && git apply /verif/seeded/$ID/patch.diff ) || { echo "patch does not apply"; git -C /repo worktree remove --force $WT; exit 9; }
cd /tmp/stage_verif
OUT=$(PMV_REPO=$WT python3 check.py "$P" $NB 2>&1 | tail -4000)
git -C /repo worktree remove --force $WT
REAL=$(echo "$OUT" | grep -c '^VIOLATION' ); NFI=$(echo "$OUT" | grep '^VIOLATION' | grep -c 'no-failing-input-found')
echo "$ID on $P: violations=$REAL (no-failing-input-found=$NFI) $(echo "$OUT" | tail -1 | sed 's/.*; //')"
echo "$OUT" | grep -m2 'violation:\|BROKEN\|correspondence broken' | cut -c1-300
